(** * Properties_C28_Gen — companion of Properties_C28: the C28 theorems restated against the GENERATED
    metrics::make and the GENERATED splitter constructors.  Only statements (closed by [exact <lemma>]),
    [Print Assumptions], and non-vacuity examples.

    GENERATED from /repo by tools/cxx2v on every run (tools/cxx2v/units_C28.json):
      LV.Gen.Gen_feldman        is_correct / eos / cut / bit_offset of the hash splitters            (as before)
      LV.Gen.Gen_feldman_make   metrics_make <- feldman_hashset::details::metrics::make                (NEW: a function
                                returning a struct by value)
      LV.Gen.Gen_feldman_ctor   the constructors splitter( hash ), splitter( hash, nBitOffset ) of
                                number_splitter<short|unsigned short|int|unsigned|long|unsigned long>,
                                split_bitstring<T,N,unsigned>, byte_splitter<T,N,unsigned>, N = 1..8    (NEW:
                                constructors as functions into the records of Gen_feldman)
    Still HAND-WRITTEN (LV.Model.FeldmanPath): the level loop of traverse_data::reset / traverse / insert /
    expand_slot ([descend], the loop of [gexpand_from]) — multilevel_array::traverse walks atomic node pointers, which
    cxx2v does not translate — and the landing rule of [inserts].

    (1) the generated functions ARE the hand-written ones Properties_C28 talks about (every input, including where
        they are undefined); (2) the property restated with nothing hand-written but the loop: the configuration is
        [GM.metrics_make head array size = Some gm], the cut sequence [gpath] starts from the generated constructor
        and cuts the widths stored in the generated record. *)
Require Import ZArith List Bool Lia.
Require Import LV.Base.CInt LV.Model.FeldmanPath.
Require Import LV.Proofs.C28_Digits LV.Proofs.C28_Metrics LV.Proofs.C28_Path LV.Proofs.C28_NumSplit
               LV.Proofs.C28_ByteSplit LV.Proofs.C28_Main LV.Proofs.C28_GenMake.
Import ListNotations.
Local Open Scope Z_scope.

Module G := LV.Gen.Gen_feldman.
Module GM := LV.Gen.Gen_feldman_make.
Module GC := LV.Gen.Gen_feldman_ctor.

(** ** (1a) metrics::make: generated = hand-written, for ALL integers (no range hypothesis), hence also the same
    undefined cases *)
Theorem generated_make_is_model_make : forall head array size,
  option_map to_model (GM.metrics_make head array size) = metrics_make head array size.
Proof. exact gen_make_is_model_make. Qed.
Print Assumptions generated_make_is_model_make.

(** [Properties_C28.make_normalises], about the generated function *)
Theorem make_normalises_generated : forall head array size,
  0 <= head < 2 ^ 64 -> 0 <= array < 2 ^ 64 -> 1 <= size <= 8 ->
  let W := 8 * size in
  let h' := norm_head head array W in let a' := norm_array array in let n := levels head array W in
  4 <= h' <= W /\ Z.min (Z.max head 4) W <= h' < Z.min (Z.max head 4) W + a' /\
  2 <= a' /\ a' = Z.max array 2 /\
  (W - h') mod a' = 0 /\ W = h' + n * a' /\ 0 <= n /\
  (h' < 64 -> a' < 64 -> GM.metrics_make head array size = Some (GM.mk_metrics (2 ^ h') h' (2 ^ a') a')) /\
  (64 <= h' \/ 64 <= a' -> GM.metrics_make head array size = None).
Proof. exact gen_make_normalises_all. Qed.
Print Assumptions make_normalises_generated.

(** ** (1b) the constructors.  number_splitter( n ) / ( n, offset ): equal to the model's for every argument *)
Theorem generated_number_splitter_ctors :
  ((forall n, GC.ns_i16_init n = Some (sp_init ns_i16_splitter n)) /\
   (forall n off, GC.ns_i16_init_at n off = Some (sp_init_at ns_i16_splitter n off))) /\
  ((forall n, GC.ns_u16_init n = Some (sp_init ns_u16_splitter n)) /\
   (forall n off, GC.ns_u16_init_at n off = Some (sp_init_at ns_u16_splitter n off))) /\
  ((forall n, GC.ns_i32_init n = Some (sp_init ns_i32_splitter n)) /\
   (forall n off, GC.ns_i32_init_at n off = Some (sp_init_at ns_i32_splitter n off))) /\
  ((forall n, GC.ns_u32_init n = Some (sp_init ns_u32_splitter n)) /\
   (forall n off, GC.ns_u32_init_at n off = Some (sp_init_at ns_u32_splitter n off))) /\
  ((forall n, GC.ns_i64_init n = Some (sp_init ns_i64_splitter n)) /\
   (forall n off, GC.ns_i64_init_at n off = Some (sp_init_at ns_i64_splitter n off))) /\
  ((forall n, GC.ns_u64_init n = Some (sp_init ns_u64_splitter n)) /\
   (forall n off, GC.ns_u64_init_at n off = Some (sp_init_at ns_u64_splitter n off))).
Proof.
  exact (conj gen_ns_i16_ctor (conj gen_ns_u16_ctor (conj gen_ns_i32_ctor (conj gen_ns_u32_ctor
        (conj gen_ns_i64_ctor gen_ns_u64_ctor))))).
Qed.
Print Assumptions generated_number_splitter_ctors.

(** split_bitstring( h ) / ( h, nBitOffset ) on an N-byte hash object ([mem] IS the object: exactly N bytes):
    the model's initial record {cur_ = first_ = &h, offset_ = 0, last_ = &h + N}, and for every bit offset inside the
    object (the only ones expand_slot passes: bit_offset() of a splitter that is not at eos) {&h + off/8, off%8, ..} *)
Theorem generated_split_bitstring_ctors : forall fuel N, 1 <= N <= 8 ->
  (forall mem, Z.of_nat (length mem) = N -> gen_sb_init N mem = Some (sp_init (sb_splitter fuel N) mem)) /\
  (forall mem off, Z.of_nat (length mem) = N -> 0 <= off <= 8 * N ->
     gen_sb_init_at N mem off = Some (sp_init_at (sb_splitter fuel N) mem off)).
Proof. exact gen_sb_ctor. Qed.
Print Assumptions generated_split_bitstring_ctors.

Theorem generated_byte_splitter_ctors : forall fuel N, 1 <= N <= 8 ->
  (forall mem, Z.of_nat (length mem) = N -> gen_bs_init N mem = Some (sp_init (bs_splitter fuel N) mem)) /\
  (forall mem off, Z.of_nat (length mem) = N -> 0 <= off <= 8 * N ->
     gen_bs_init_at N mem off = Some (sp_init_at (bs_splitter fuel N) mem off)).
Proof. exact gen_bs_ctor. Qed.
Print Assumptions generated_byte_splitter_ctors.

(** where the generated constructors are undefined ([None]) although the hand-written model returns a record:
    the byte memory is not an N-byte object, or the offset's byte index is beyond one-past-the-end of the object
    (pointer arithmetic outside the array — undefined in C++ as well) *)
Theorem generated_ctors_undefined_cases : forall N mem, 1 <= N <= 8 ->
  (Z.of_nat (length mem) <> N ->
     gen_sb_init N mem = None /\ gen_bs_init N mem = None /\
     (forall off, gen_sb_init_at N mem off = None /\ gen_bs_init_at N mem off = None)) /\
  (forall off, 0 <= off < 2 ^ 64 -> N < off / 8 ->
     gen_sb_init_at N mem off = None /\ gen_bs_init_at N mem off = None).
Proof. exact (fun N mem HN => conj (gen_sb_init_wrong_size N mem HN) (fun off => gen_init_at_beyond N mem off HN)). Qed.
Print Assumptions generated_ctors_undefined_cases.

(** each generated constructor pair agrees with its model splitter on every valid hash / offset inside the hash *)
Theorem generated_ctors_agree :
  ctor_agrees ns_i16_splitter (in_range i16) 16 GC.ns_i16_init GC.ns_i16_init_at /\
  ctor_agrees ns_u16_splitter (in_range u16) 16 GC.ns_u16_init GC.ns_u16_init_at /\
  ctor_agrees ns_i32_splitter (in_range i32) 32 GC.ns_i32_init GC.ns_i32_init_at /\
  ctor_agrees ns_u32_splitter (in_range u32) 32 GC.ns_u32_init GC.ns_u32_init_at /\
  ctor_agrees ns_i64_splitter (in_range i64) 64 GC.ns_i64_init GC.ns_i64_init_at /\
  ctor_agrees ns_u64_splitter (in_range u64) 64 GC.ns_u64_init GC.ns_u64_init_at /\
  (forall fuel N, 1 <= N <= 8 ->
     ctor_agrees (sb_splitter fuel N) (valid_bytes N) (8 * N) (gen_sb_init N) (gen_sb_init_at N)) /\
  (forall fuel N, 1 <= N <= 8 ->
     ctor_agrees (bs_splitter fuel N) (valid_bytes N) (8 * N) (gen_bs_init N) (gen_bs_init_at N)).
Proof.
  exact (conj ns_i16_ctor_agrees (conj ns_u16_ctor_agrees (conj ns_i32_ctor_agrees (conj ns_u32_ctor_agrees
        (conj ns_i64_ctor_agrees (conj ns_u64_ctor_agrees (conj sb_ctor_agrees bs_ctor_agrees))))))).
Qed.
Print Assumptions generated_ctors_agree.

(** ** (2) the property on the generated pieces.  [gpath sp ctor lv gm h]: construct the splitter with the generated
    constructor, cut [GM.metrics_head_node_size_log gm] bits, then [GM.metrics_array_node_size_log gm] bits until
    eos; [gen_config_ok]: gm is what the generated make returns for (head, array, hash size) and both widths are
    covered.  Equal to the model's path / configuration: *)
Theorem generated_path_is_model_path : forall (H S : Type) (sp : splitter H S) ctor ctor_at W valid,
  ctor_agrees sp valid W ctor ctor_at ->
  forall lv gm h, valid h -> gpath sp ctor lv gm h = path sp lv (to_model gm) h.
Proof. exact @gpath_is_path. Qed.
Print Assumptions generated_path_is_model_path.

Theorem generated_config_is_model_config : forall (H S : Type) (sp : splitter H S) okc head array gm,
  gen_config_ok sp okc head array gm -> config_ok sp okc head array (to_model gm).
Proof. exact @gen_config_is_config. Qed.
Print Assumptions generated_config_is_model_config.

Theorem config_is_accepted_generated : forall (H S : Type) (sp : splitter H S) W valid val okc inv pos,
  splitter_spec sp W valid val okc inv pos ->
  forall head array gm, gen_config_ok sp okc head array gm -> gaccepted sp gm = Some true.
Proof. exact @gfinal_accepted. Qed.
Print Assumptions config_is_accepted_generated.

Theorem layout_consumes_all_bits_generated : forall (H S : Type) (sp : splitter H S) ctor ctor_at W valid val okc inv pos,
  splitter_spec sp W valid val okc inv pos -> ctor_agrees sp valid W ctor ctor_at ->
  forall head array gm h lv, gen_config_ok sp okc head array gm -> valid h -> (64 < lv)%nat ->
  sumz (widths W (to_model gm)) = W /\
  exists p, gpath sp ctor lv gm h = Some p /\ length p = length (widths W (to_model gm)) /\
            map snd p = repeat false (nlev W (to_model gm)) ++ [true].
Proof. exact @gfinal_layout. Qed.
Print Assumptions layout_consumes_all_bits_generated.

Theorem path_deterministic_generated : forall (H S : Type) (sp : splitter H S) ctor ctor_at W valid val okc inv pos,
  splitter_spec sp W valid val okc inv pos -> ctor_agrees sp valid W ctor ctor_at ->
  forall head array gm h1 h2 lv, gen_config_ok sp okc head array gm -> valid h1 -> valid h2 -> (64 < lv)%nat ->
  val h1 = val h2 -> gpath sp ctor lv gm h1 = gpath sp ctor lv gm h2.
Proof. exact @gfinal_deterministic. Qed.
Print Assumptions path_deterministic_generated.

(** the property: distinct hashes diverge at some level, all earlier slots agree *)
Theorem paths_diverge_generated : forall (H S : Type) (sp : splitter H S) ctor ctor_at W valid val okc inv pos,
  splitter_spec sp W valid val okc inv pos -> ctor_agrees sp valid W ctor ctor_at ->
  forall head array gm h1 h2 lv, gen_config_ok sp okc head array gm -> valid h1 -> valid h2 -> (64 < lv)%nat ->
  h1 <> h2 ->
  exists p1 p2 k, gpath sp ctor lv gm h1 = Some p1 /\ gpath sp ctor lv gm h2 = Some p2 /\
    length p1 = length p2 /\ (k < length p1)%nat /\
    firstn k (slots p1) = firstn k (slots p2) /\ nth_error (slots p1) k <> nth_error (slots p2) k.
Proof. exact @gfinal_diverge. Qed.
Print Assumptions paths_diverge_generated.

(** every slot indexes inside its node, the node sizes being the fields the generated make stored *)
Theorem slot_in_range_generated : forall (H S : Type) (sp : splitter H S) ctor ctor_at W valid val okc inv pos,
  splitter_spec sp W valid val okc inv pos -> ctor_agrees sp valid W ctor ctor_at ->
  forall head array gm h lv p k slot, gen_config_ok sp okc head array gm -> valid h -> (64 < lv)%nat ->
  gpath sp ctor lv gm h = Some p -> nth_error (slots p) k = Some slot ->
  0 <= slot < (if Nat.eqb k 0 then GM.metrics_head_node_size gm else GM.metrics_array_node_size gm).
Proof. exact @gfinal_slot_in_node. Qed.
Print Assumptions slot_in_range_generated.

Theorem insert_new_hash_never_fails_generated : forall (H S : Type) (sp : splitter H S) ctor ctor_at W valid val okc inv pos,
  splitter_spec sp W valid val okc inv pos -> ctor_agrees sp valid W ctor ctor_at ->
  forall head array gm h1 h2 lv p1 p2 j, gen_config_ok sp okc head array gm -> valid h1 -> valid h2 -> (64 < lv)%nat ->
  h1 <> h2 -> gpath sp ctor lv gm h1 = Some p1 -> gpath sp ctor lv gm h2 = Some p2 ->
  (1 <= j <= length p1)%nat -> firstn j (slots p1) = firstn j (slots p2) ->
  (j < length p1)%nat /\ nth_error (map snd p1) (j - 1) = Some false.
Proof. exact @gfinal_insert_never_fails. Qed.
Print Assumptions insert_new_hash_never_fails_generated.

(** expand_slot: the fresh splitter is built by the GENERATED constructor splitter( hash, bit_offset() ) *)
Theorem expand_slot_consistent_generated : forall (H S : Type) (sp : splitter H S) ctor ctor_at W valid val okc inv pos,
  splitter_spec sp W valid val okc inv pos -> ctor_agrees sp valid W ctor ctor_at ->
  forall head array gm h lv p, gen_config_ok sp okc head array gm -> valid h -> (64 < lv)%nat ->
  gpath sp ctor lv gm h = Some p -> gexpand_slots sp ctor ctor_at lv gm h = Some (tl (slots p)).
Proof. exact @gfinal_expand_consistent. Qed.
Print Assumptions expand_slot_consistent_generated.

(** ** non-vacuity: everything computed by generated code (make, constructors, cut/eos/bit_offset) *)

(** the configuration of the repaired defect (8-byte integral hash, head 32, array 4): two hashes that differ in
    bit 32/33 only diverge at level 1 *)
Example c28_gen_u64_head32 :
  exists gm, gen_config_ok ns_u64_splitter (fun c => G.ns_u64_is_correct c = Some true) 32 4 gm /\
    gm = GM.mk_metrics 4294967296 32 16 4 /\
    gpath ns_u64_splitter GC.ns_u64_init 65 gm 4294967297 =
      Some [(1, false); (1, false); (0, false); (0, false); (0, false); (0, false); (0, false); (0, false); (0, true)] /\
    gpath ns_u64_splitter GC.ns_u64_init 65 gm 8589934593 =
      Some [(1, false); (2, false); (0, false); (0, false); (0, false); (0, false); (0, false); (0, false); (0, true)] /\
    gexpand_slots ns_u64_splitter GC.ns_u64_init GC.ns_u64_init_at 65 gm 8589934593 = Some [2; 0; 0; 0; 0; 0; 0; 0].
Proof.
  eexists. split; [|split; [|split; [|split]]].
  - unfold gen_config_ok. repeat split; try (vm_compute; congruence); vm_compute; reflexivity.
  - reflexivity.
  - vm_compute. reflexivity.
  - vm_compute. reflexivity.
  - vm_compute. reflexivity.
Qed.

(** head 8 / array 5 on a 4-byte byte-string hash: normalised by the generated make to head 12; the generated
    constructor of split_bitstring<T,4,unsigned> on the 4-byte object; a 3-byte object is not accepted by it;
    byte_splitter on a 2-byte hash; the offset constructor at bit 12 *)
Example c28_gen_normalised_and_paths :
  GM.metrics_make 8 5 4 = Some (GM.mk_metrics 4096 12 32 5) /\
  gen_config_ok (sb_splitter 65 4) (fun c => G.sb_is_correct c = Some true /\ c <= 32) 8 5 (GM.mk_metrics 4096 12 32 5) /\
  gen_sb_init 4 [120; 86; 52; 18] = Some (G.mk_sb 0 0 0 4) /\
  gen_sb_init 4 [120; 86; 52] = None /\
  gen_sb_init_at 4 [120; 86; 52; 18] 12 = Some (G.mk_sb 1 4 0 4) /\
  gen_sb_init_at 4 [120; 86; 52; 18] 48 = None /\
  gpath (sb_splitter 65 4) (gen_sb_init 4) 65 (GM.mk_metrics 4096 12 32 5) [120; 86; 52; 18]
    = Some [(1656, false); (5, false); (26, false); (8, false); (2, true)] /\
  gexpand_slots (sb_splitter 65 4) (gen_sb_init 4) (gen_sb_init_at 4) 65 (GM.mk_metrics 4096 12 32 5) [120; 86; 52; 18]
    = Some [5; 26; 8; 2] /\
  gpath ns_i32_splitter GC.ns_i32_init 65 (GM.mk_metrics 4096 12 32 5) (-1)
    = Some [(4095, false); (31, false); (31, false); (31, false); (31, true)] /\
  gpath (bs_splitter 65 2) (gen_bs_init 2) 65 (GM.mk_metrics 256 8 256 8) [205; 171] = Some [(205, false); (171, true)] /\
  GM.metrics_make 64 4 8 = None.
Proof.
  repeat split; try (vm_compute; reflexivity); try (vm_compute; congruence).
Qed.
