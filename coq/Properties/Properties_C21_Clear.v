(** Property C21 (companion) — empty() and clear( Disposer ) of cds::intrusive::FreeList.

    Only statements here; model LV.Model.FreeListClear (put / get of LV.Model.FreeList re-used unchanged),
    proofs LV.Proofs.FreeListClear / FreeListClearThm.  Vocabulary (beside that of Properties_C21.v):
    [init_cfg2 fuel k ths]   nodes 1..k on the list, thread i runs the get / put / empty operations
                             [fst (nth i ths)] and holds the nodes [snd (nth i ths)] initially;
    [forget ths]             the same threads for the vocabulary of Properties_C21.v (held lists only);
    [ev_ret_empty1]          the client event "ret_empty 1" (empty() returned true);
    [ev_ld_head]             the atomic load of m_Head (the single access of empty());
    [opens t tr]             number of get / put operations thread t has invoked and not completed in tr;
    [clear cf]               the program of clear( disp ), loop fuel cf; [solo_ev p g] executes p alone from
                             state g and returns (final state, result, events); [disposed es] the nodes
                             handed to the disposer, in order.
    clear() is documented "(not atomic)" and is to be called before the destructor: it is a QUIESCENT-ONLY
    operation (executed alone from a state where no put / get is in flight); empty() runs concurrently. *)
From Coq Require Import ZArith List String Lia.
From LV Require Import Base.Conc Base.Events Model.FreeList Model.FreeListClear Proofs.FreeListBase Proofs.FreeListThm
  Proofs.FreeListClear Proofs.FreeListClearThm Model.FreeListTagged Model.FreeListTaggedClear Proofs.FreeListTaggedSafe
  Proofs.FreeListTaggedThm Proofs.FreeListClearTagged.
Import ListNotations.
Local Open Scope Z_scope.
Local Open Scope string_scope.

(** with empty() among the operations, for EVERY schedule: the ownership monitor never fires *)
Theorem C21_clear_no_double_get :
  forall (fuel k : nat) (ths : list (list op2 * list nat)) c,
    wf_init k (forget ths) -> Z.of_nat (List.length ths) + 1 < FLAG ->
    Conc.reach (init_cfg2 fuel k ths) c ->
    exists own, mon_run (own_init (forget ths)) (Conc.trace c) = Some own.
Proof. intros fuel k ths c Hwf HN. exact (fl2_no_double_get fuel k ths Hwf HN c). Qed.
Print Assumptions C21_clear_no_double_get.

(** empty() = true, for EVERY schedule of put / get / empty threads: the last event of the calling thread t
    before its "ret_empty 1" is its load of m_Head, and at the instant of that load (trace prefix
    [tr0 ++ [(t, ev_ld_head)]]) every existing node that no client held was inside an in-flight get / put of
    some thread (a get that has taken it, or holds a reference that obliges it to re-add the node; a put /
    re-add in progress).  This is the strongest true statement: see [C21_empty_strong_refuted]. *)
Theorem C21_empty_true :
  forall (fuel k : nat) (ths : list (list op2 * list nat)) c,
    wf_init k (forget ths) -> Z.of_nat (List.length ths) + 1 < FLAG ->
    Conc.reach (init_cfg2 fuel k ths) c ->
    forall trA t trB, Conc.trace c = (trA ++ (t, ev_ret_empty1) :: trB)%list ->
    exists tr0 tr', trA = (tr0 ++ (t, ev_ld_head) :: tr')%list /\ (forall e, ~ In (t, e) tr') /\
      exists own, mon_run (own_init (forget ths)) (tr0 ++ [(t, ev_ld_head)]) = Some own /\
        forall n, valid_init k (forget ths) n = true -> own n = None ->
                  exists t', opens t' (tr0 ++ [(t, ev_ld_head)]) <> 0.
Proof. intros fuel k ths c Hwf HN. exact (fl2_empty_true fuel k ths Hwf HN c). Qed.
Print Assumptions C21_empty_true.

(** ... hence: if no get / put was in flight at the instant of the load, empty() = true means that the bag was
    empty (every existing node was held by a client) *)
Theorem C21_empty_true_quiet :
  forall (fuel k : nat) (ths : list (list op2 * list nat)) c,
    wf_init k (forget ths) -> Z.of_nat (List.length ths) + 1 < FLAG ->
    Conc.reach (init_cfg2 fuel k ths) c ->
    forall trA t trB, Conc.trace c = (trA ++ (t, ev_ret_empty1) :: trB)%list ->
    exists tr0 tr', trA = (tr0 ++ (t, ev_ld_head) :: tr')%list /\ (forall e, ~ In (t, e) tr') /\
      exists own, mon_run (own_init (forget ths)) (tr0 ++ [(t, ev_ld_head)]) = Some own /\
        (quiescent (tr0 ++ [(t, ev_ld_head)]) -> forall n, valid_init k (forget ths) n = true -> own n <> None).
Proof. intros fuel k ths c Hwf HN. exact (fl2_empty_true_quiet fuel k ths Hwf HN c). Qed.
Print Assumptions C21_empty_true_quiet.

(** at every reachable instant: m_Head = nullptr only if every available node is inside an in-flight get / put *)
Theorem C21_head_null :
  forall (fuel k : nat) (ths : list (list op2 * list nat)) c,
    wf_init k (forget ths) -> Z.of_nat (List.length ths) + 1 < FLAG ->
    Conc.reach (init_cfg2 fuel k ths) c -> head (Conc.shared c) = O ->
    exists own, mon_run (own_init (forget ths)) (Conc.trace c) = Some own /\
      forall n, valid_init k (forget ths) n = true -> own n = None -> exists t', opens t' (Conc.trace c) <> 0.
Proof. intros fuel k ths c Hwf HN. exact (fl2_head_null fuel k ths Hwf HN c). Qed.
Print Assumptions C21_head_null.

(** FALSE (computed witness, 2 threads, 1 node): "empty() = true only if the bag was empty at some instant of
    the call".  Thread 0's put(1) has returned, node 1 is available (exists, nobody holds it) at every instant
    from that return to the end of the following empty() and get() of the same thread, yet empty() returns
    true and get() returns nullptr: thread 1 is stalled inside get() between its CAS on m_freeListRefs of node
    1 and its CAS on m_Head, so put(1) only set the should-be-on-freelist bit and left the re-add to thread 1. *)
Theorem C21_empty_strong_refuted :
  exists (k : nat) (ths : list (list op2 * list nat)) (sched : list nat),
    wf_init k (forget ths) /\ Z.of_nat (List.length ths) + 1 < FLAG /\
    let r := Conc.run 1000 0 sched (init_cfg2 50 k ths) in
    let tr := Conc.trace (fst r) in
    snd r = true /\
    exists i j, (i < j)%nat /\
      nth_error tr i = Some (0%nat, EvCli "ret_put" []) /\
      nth_error tr (S i) = Some (0%nat, EvCli "inv_empty" []) /\
      nth_error tr j = Some (0%nat, ev_ret_empty1) /\
      nth_error tr (j + 3) = Some (0%nat, EvCli "ret_get" [-1]) /\
      forall m, (i <= m <= j + 3)%nat -> avail_b k ths (firstn (S m) tr) 1 = true.
Proof. exact empty_strong_refuted. Qed.
Print Assumptions C21_empty_strong_refuted.

(** no loss with empty() among the operations; in a quiescent state m_Head = nullptr (empty() = true) iff no
    node is available *)
Theorem C21_clear_no_loss :
  forall (fuel k : nat) (ths : list (list op2 * list nat)) c,
    wf_init k (forget ths) -> Z.of_nat (List.length ths) + 1 < FLAG ->
    Conc.reach (init_cfg2 fuel k ths) c -> quiescent (Conc.trace c) ->
    exists own l,
      mon_run (own_init (forget ths)) (Conc.trace c) = Some own /\
      seq_ok (Conc.shared c) l /\
      (forall n, In n l <-> valid_init k (forget ths) n = true /\ own n = None) /\
      (head (Conc.shared c) = O <-> l = []) /\
      (forall f cn, (List.length l < cn)%nat -> drain (S f) cn (Conc.shared c) = l).
Proof. intros fuel k ths c Hwf HN. exact (fl2_no_loss fuel k ths Hwf HN c). Qed.
Print Assumptions C21_clear_no_loss.

(** clear( disp ) executed from ANY quiescent reachable state: it terminates, the disposer receives exactly the
    available nodes (existing, held by nobody: everything that was put and not taken out again), each exactly
    once ([NoDup]), nothing but m_Head is written, and afterwards the list is empty ([seq_ok _ []], get()
    returns nullptr).  Together with the monitor: at that point every existing node is either held by exactly
    one client ([own n = Some t]) or has been disposed exactly once, never both:
    nodes put = nodes got back + nodes disposed by clear (+ 0 left on the list). *)
Theorem C21_clear_disposes_available_once :
  forall (fuel k : nat) (ths : list (list op2 * list nat)) c,
    wf_init k (forget ths) -> Z.of_nat (List.length ths) + 1 < FLAG ->
    Conc.reach (init_cfg2 fuel k ths) c -> quiescent (Conc.trace c) ->
    exists own l,
      mon_run (own_init (forget ths)) (Conc.trace c) = Some own /\ NoDup l /\
      (forall n, In n l <-> valid_init k (forget ths) n = true /\ own n = None) /\
      forall cf, (List.length l < cf)%nat ->
        exists es, solo_ev (clear cf) (Conc.shared c) = (set_head (Conc.shared c) 0, true, es) /\
                   disposed es = l /\
                   seq_ok (set_head (Conc.shared c) 0) [] /\
                   forall f cn, drain (S f) (S cn) (set_head (Conc.shared c) 0) = [].
Proof. intros fuel k ths c Hwf HN. exact (fl2_clear fuel k ths Hwf HN c). Qed.
Print Assumptions C21_clear_disposes_available_once.

(** non-vacuity: 2 nodes on the list, thread 0 holds node 3; the run (the re-add race of
    Properties_C21.C21_freelist_nonvacuous is taken) ends quiescent, contains an empty() that returned false
    and two that returned true, and clear() from the final state hands node 3 to the disposer *)
Example C21_clear_nonvacuous :
  let ths := [([O2Empty; O2Get; O2Get; O2Empty; O2Put 0], [3%nat]); ([O2Get; O2Empty; O2Put 0], [])] in
  wf_init 2 (forget ths) /\ Z.of_nat (List.length ths) + 1 < FLAG /\
  let r := Conc.run 1000 0 [0;0;0;1;1;0;1;0;1;1;0;0;1]%nat (init_cfg2 50 2 ths) in
  snd r = true /\
  forallb (fun t => Z.eqb (opens t (Conc.trace (fst r))) 0) [0;1]%nat = true /\
  List.length (filter (fun e => match snd e with EvCli "ret_empty" [0] => true | _ => false end) (Conc.trace (fst r))) = 1%nat /\
  List.length (filter (fun e => match snd e with EvCli "ret_empty" [1] => true | _ => false end) (Conc.trace (fst r))) = 2%nat /\
  (let '(g', ok, es) := solo_ev (clear 5) (Conc.shared (fst r)) in (head g', ok, disposed es)) = (O, true, [3%nat]).
Proof.
  split; [|split; [reflexivity|]].
  - split.
    + cbn. repeat constructor; cbn; intuition discriminate.
    + cbn. intros n [<-|[]]. lia.
  - vm_compute. repeat split; reflexivity.
Qed.

(** ** cds::intrusive::TaggedFreeList (model LV.Model.FreeListTaggedClear; hypothesis [nowrap] as in Properties_C21.v).
    clear( disp ) executed from ANY quiescent reachable state of put / get threads: the disposer receives exactly
    the available nodes, each exactly once; m_Head becomes {nullptr, tag 0} (the store RESETS the ABA tag:
    harmless only because clear() is quiescent-only); the list is empty afterwards. *)
Theorem C21_tagged_clear_disposes_available_once :
  forall (fuel k : nat) (ths : list (list op * list nat)) c,
    wf_init k ths ->
    Conc.reach (tinit_cfg fuel k ths) c -> nowrap k (Conc.trace c) -> quiescent (Conc.trace c) ->
    exists own l,
      mon_run (own_init ths) (Conc.trace c) = Some own /\ NoDup l /\
      (forall n, In n l <-> valid_init k ths n = true /\ own n = None) /\
      forall cf, (List.length l < cf)%nat ->
        exists es, tsolo_ev (tclear cf) (Conc.shared c) = (tset_head (Conc.shared c) 0 0, true, es) /\
                   disposed es = l /\
                   tseq_ok (tset_head (Conc.shared c) 0 0) [] /\
                   forall f cn, tdrain (S f) (S cn) (tset_head (Conc.shared c) 0 0) = [].
Proof. intros fuel k ths c Hwf. exact (tagged_clear fuel k ths Hwf c). Qed.
Print Assumptions C21_tagged_clear_disposes_available_once.

(** empty() is the single load of m_Head ([tempty_solo]); at every reachable instant of put / get threads
    m_Head.ptr = nullptr only if every available node is inside an in-flight get / put *)
Theorem C21_tagged_head_null :
  forall (fuel k : nat) (ths : list (list op * list nat)) c,
    wf_init k ths ->
    Conc.reach (tinit_cfg fuel k ths) c -> nowrap k (Conc.trace c) -> thead (Conc.shared c) = O ->
    exists own, mon_run (own_init ths) (Conc.trace c) = Some own /\
      forall n, valid_init k ths n = true -> own n = None -> exists t', opens t' (Conc.trace c) <> 0.
Proof. intros fuel k ths c Hwf. exact (tagged_head_null fuel k ths Hwf c). Qed.
Print Assumptions C21_tagged_head_null.

Example C21_tagged_clear_nonvacuous :
  let ths := [([OGet], []); ([OPut 0; OGet; OPut 0], [3%nat])] in
  wf_init 2 ths /\
  let r := Conc.run 1000 0 [0;1;1;0;1;0;1]%nat (tinit_cfg 50 2 ths) in
  snd r = true /\ nowrap 2 (Conc.trace (fst r)) /\
  forallb (fun t => Z.eqb (opens t (Conc.trace (fst r))) 0) [0;1]%nat = true /\
  ttag (Conc.shared (fst r)) = 6 /\
  (let '(g', ok, es) := tsolo_ev (tclear 5) (Conc.shared (fst r)) in (thead g', ttag g', ok, disposed es))
    = (O, 0, true, [3%nat; 1%nat]).
Proof.
  split.
  - split; [cbn; repeat constructor; cbn; intuition discriminate|cbn; intros n [<-|[]]; lia].
  - vm_compute. repeat split; reflexivity.
Qed.
