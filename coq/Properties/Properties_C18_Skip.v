(** Property C18 (and the open item of C15), SkipListSet part — "every level of the skip list is a sub-list of the level below".
    Only statements here; proofs in LV.Proofs.SkipListSub (state-level theory) and LV.Proofs.SkipListSubThm (every schedule).
    Model: Model/SkipList.v (step-grain model of cds::intrusive::SkipListSet<HP>, tied to skip_list.h by step correspondence).

    [walkl g l head L]: the level-l list from the head is exactly L and ends at null (marks ignored: logically deleted nodes
    that are still linked are members);  [sub A B]: A is an ordered sub-list (subsequence) of B;  [live g l L]: the nodes of
    L whose level-l cell is unmarked;  [LevOK g]: every level < c_nMaxHeight is a null-terminated list and every node of
    level l+1 is on level l;  [quiet tr]: every invocation of the trace has its response (no operation in progress).

    PROVED FOR EVERY SCHEDULE ([Conc.reach]; any number <= 63 of threads; programs of all five operations):
      - membership implies order: if the nodes of level l+1 are on level l and those of level l on level 0, then level l+1 is
        an ORDERED sub-list of level l and both are STRICTLY sorted (C18_skip_sub_order_from_membership);
      - for every level l, the unmarked nodes of the level-l list are an ordered sub-list of the live nodes of the level-0
        list, strictly sorted (C18_skip_live_level_sub_level0); the keys of the live level-0 nodes are the abstract set
        (C18_skip_abstraction_with_extract);
      - whenever the state has nested levels, the whole property holds (C18_skip_nested_gives_property).
    PROVED ABOUT SINGLE ACCESSES (every state, hypotheses = what the executing thread has to know): the initial state has
    nested levels; marking CASes, writes to cells of nodes that are not on the level's list, the link CAS of
    insert_at_position and the unlink CASes of help_remove / try_remove_at preserve nested levels.
    STATED HERE, PROVED IN THE LAST SECTIONS OF THIS FILE (C18_skip_levels_nested, C18_skip_levels_sublists_quiescent): nested levels at EVERY reachable state (C18_skip_levels_nested_statement) and hence the
    quiescent form (C18_skip_levels_sublists_quiescent_statement; C18_skip_quiescent_from_nested is the implication).
    Missing: the Owicki-Gries part that discharges the hypotheses of the four access lemmas from the programs — per-level
    ghost sets "linked at level l at some time" with per-thread knowledge carried through find_position (as [vkn] of
    Proofs/SkipListLin.v does for level 0), and the m_nUnlink protocol (a node is unlinked at level l only when
    m_nUnlink = l + 1; an inserter that gives up at level l subtracts height - l), which is what makes "linked at l+1 implies
    linked at l" stable (sketch of the invariant: header of Proofs/SkipListSubThm.v).  The decidable check [levokb] of [LevOK]
    evaluated after EVERY step of pseudo-random bursty schedules of contended programs (towers of height 3, insert / erase /
    extract racing on one key; 62 schedules in the Examples below, 480 more during development) found no violation. *)
From Coq Require Import String ZArith List Bool.
From LV Require Import Base.Lin Base.Conc Base.Events Spec.Specs Proofs.LinProofs Model.SkipList Proofs.SkipListProofs
  Proofs.SkipListLin Proofs.SkipListFullInv Proofs.SkipListFullExt2 Proofs.SkipListSub Proofs.SkipListSubThm.
Import ListNotations.
Local Open Scope Z_scope.

(** * the open statements *)
Definition C18_skip_levels_nested_statement : Prop :=
  forall (fuel : nat) (nodes : list (nat * nat)) (ths : list (list SkipList.op)) c,
    nodes_ok nodes -> Forall (Forall op_ok) ths -> (length ths <= 63)%nat ->
    Conc.reach (SkipList.init_cfg fuel nodes ths) c -> LevOK (Conc.shared c).

(** the quiescent form: lists null-terminated, level l+1 an ordered sub-list of level l, all levels strictly sorted, the
    keys of the unmarked level-0 nodes are the abstract set of a valid linearization of the client history *)
Definition C18_skip_levels_sublists_quiescent_statement : Prop :=
  forall (fuel : nat) (nodes : list (nat * nat)) (ths : list (list SkipList.op)) c,
    nodes_ok nodes -> Forall (Forall op_ok) ths -> (length ths <= 63)%nat ->
    Conc.reach (SkipList.init_cfg fuel nodes ths) c -> ~ SkipListLin.exhausted (Conc.trace c) -> quiet (Conc.trace c) ->
    levels_property nodes c.

Theorem C18_skip_quiescent_from_nested :
  C18_skip_levels_nested_statement -> C18_skip_levels_sublists_quiescent_statement.
Proof.
  intros H fuel nodes ths c Hn Ho Hlen Hr Hne Hq.
  eapply skip_nested_gives_property; eauto using quiet_ext_quiet.
Qed.
Print Assumptions C18_skip_quiescent_from_nested.

(** * proved for every schedule *)
Theorem C18_skip_nested_gives_property :
  forall (fuel : nat) (nodes : list (nat * nat)) (ths : list (list SkipList.op)) c,
    nodes_ok nodes -> Forall (Forall op_ok) ths -> (length ths <= 63)%nat ->
    Conc.reach (SkipList.init_cfg fuel nodes ths) c -> ~ SkipListLin.exhausted (Conc.trace c) -> ext_quiet (Conc.trace c) ->
    LevOK (Conc.shared c) -> levels_property nodes c.
Proof. exact skip_nested_gives_property. Qed.
Print Assumptions C18_skip_nested_gives_property.

Theorem C18_skip_sub_order_from_membership :
  forall (fuel : nat) (nodes : list (nat * nat)) (ths : list (list SkipList.op)) c (l : nat) (L1 Ll L0 : list ptr),
    nodes_ok nodes -> Forall (Forall op_ok) ths -> Conc.reach (SkipList.init_cfg fuel nodes ths) c ->
    walkl (Conc.shared c) 0 head L0 -> walkl (Conc.shared c) l head Ll -> walkl (Conc.shared c) (S l) head L1 ->
    incl L1 Ll -> incl Ll L0 ->
    sub L1 Ll /\ strictly_inc (map key_of L1) /\ strictly_inc (map key_of Ll).
Proof. exact skip_sub_order_from_membership. Qed.
Print Assumptions C18_skip_sub_order_from_membership.

Theorem C18_skip_live_level_sub_level0 :
  forall (fuel : nat) (nodes : list (nat * nat)) (ths : list (list SkipList.op)) c (l : nat) (L : list ptr),
    nodes_ok nodes -> Forall (Forall op_ok) ths -> (length ths <= 63)%nat ->
    Conc.reach (SkipList.init_cfg fuel nodes ths) c -> walkl (Conc.shared c) l head L ->
    exists L0, walkl (Conc.shared c) 0 head L0 /\
      sub (live (Conc.shared c) l L) (live (Conc.shared c) 0 L0) /\ strictly_inc (map key_of (live (Conc.shared c) l L)).
Proof. exact skip_live_level_sub_level0. Qed.
Print Assumptions C18_skip_live_level_sub_level0.

Theorem C18_skip_abstraction_with_extract :
  forall (fuel : nat) (nodes : list (nat * nat)) (ths : list (list SkipList.op)) c,
    nodes_ok nodes -> Forall (Forall op_ok) ths -> (length ths <= 63)%nat ->
    Conc.reach (SkipList.init_cfg fuel nodes ths) c -> ~ SkipListLin.exhausted (Conc.trace c) -> ext_quiet (Conc.trace c) ->
    exists L0 atr S st, walkl (Conc.shared c) 0 head L0 /\ lp_run lp_init atr = Some (S, st) /\
      erase atr = client_history nodes (Conc.trace c) /\
      (forall k, zmem k S = true <-> In k (map key_of (live (Conc.shared c) 0 L0))).
Proof. exact skip_abstraction_ext. Qed.
Print Assumptions C18_skip_abstraction_with_extract.

Theorem C18_quiet_has_no_pending_extract : forall tr, quiet tr -> ext_quiet tr.
Proof. exact quiet_ext_quiet. Qed.
Print Assumptions C18_quiet_has_no_pending_extract.

(** * what [LevOK] means (every state with the order invariant), and its relation to Properties_C15.skip_levels_are_sublists_statement *)
Theorem C18_skip_levok_is_sublists :
  forall g, I g -> LevOK g ->
    exists Ls, Lev g Ls /\
      (forall l, (S l < MAXH)%nat -> sub (Ls (S l)) (Ls l)) /\ (forall l, (l < MAXH)%nat -> strictly_inc (map key_of (Ls l))).
Proof. exact levok_sublists. Qed.
Print Assumptions C18_skip_levok_is_sublists.

Theorem C18_skip_levok_membership :
  forall g (l n : nat) (q : ptr), LevOK g -> (S l < MAXH)%nat -> In q (chain g (S l) head n) -> exists m, In q (chain g l head m).
Proof. exact levok_membership. Qed.
Print Assumptions C18_skip_levok_membership.

(** * base case and the accesses that write a [next] cell *)
Theorem C18_skip_init_nested : forall nodes, nodes_ok nodes -> LevOK (SkipList.init nodes).
Proof. exact init_levok. Qed.
Print Assumptions C18_skip_init_nested.

(** marking CASes of try_remove_at (and every access that keeps all pointers) *)
Theorem C18_skip_mark_preserves_nested :
  forall g q l, LevOK g -> LevOK (setnx g q l (fst (nxt g q l), true)).
Proof. exact levok_mark. Qed.
Print Assumptions C18_skip_mark_preserves_nested.

Theorem C18_skip_same_pointers_preserve_nested :
  forall g g', (forall p l, fst (nxt g' p l) = fst (nxt g p l)) -> LevOK g -> LevOK g'.
Proof. exact levok_same_ptrs. Qed.
Print Assumptions C18_skip_same_pointers_preserve_nested.

(** stores / own-link CAS of insert_at_position on a node that is not (yet) on the list of that level *)
Theorem C18_skip_offlist_write_preserves_nested :
  forall g Ls p l x, Lev g Ls -> Nested Ls -> p <> head -> ((l < MAXH)%nat -> ~ In p (Ls l)) -> Lev (setnx g p l x) Ls.
Proof. exact levok_offlist. Qed.
Print Assumptions C18_skip_offlist_write_preserves_nested.

(** the link CAS of insert_at_position at level l *)
Theorem C18_skip_link_preserves_nested :
  forall g Ls p l new b,
    Lev g Ls -> Nested Ls -> (l < MAXH)%nat -> ~ In head (Ls l) ->
    (p = head \/ In p (Ls l)) -> new <> null -> new <> head -> new <> p -> ~ In new (Ls l) ->
    fst (nxt g new l) = fst (nxt g p l) ->
    (match l with O => True | S l' => In new (Ls l') end) ->
    LevOK (setnx g p l (new, b)).
Proof. exact levok_link. Qed.
Print Assumptions C18_skip_link_preserves_nested.

(** the unlink CASes of help_remove and of the fast path of try_remove_at at level l *)
Theorem C18_skip_unlink_preserves_nested :
  forall g Ls p l q b,
    Lev g Ls -> Nested Ls -> (l < MAXH)%nat -> ~ In head (Ls l) ->
    (p = head \/ In p (Ls l)) -> fst (nxt g p l) = q -> q <> null ->
    ((S l < MAXH)%nat -> ~ In q (Ls (S l))) ->
    LevOK (setnx g p l (fst (nxt g q l), b)).
Proof. exact levok_unlink. Qed.
Print Assumptions C18_skip_unlink_preserves_nested.

Theorem C18_skip_levokb_sound : forall g, levokb g = true -> LevOK g.
Proof. exact levokb_sound. Qed.
Print Assumptions C18_skip_levokb_sound.

(** * non-vacuity / validation
    a contended run: keys 1 and 2 pre-filled with towers of height 3; t0 inserts 1 and 2 (height 3), t1 erases 1, 2, 1,
    t2 extract_max, insert 1 (height 2), extract_min; a bursty schedule.  CASes fail, the run completes, [levokb] holds after
    EVERY step, and in the final (quiescent) state no listed cell is marked and the upper levels are not empty. *)
Definition ex_cfg : list Z := [6; 0; 2; 2; 0].
Definition ex_ths : list (list (list Z)) := [[[1;1;2]; [1;2;2]]; [[6;1]; [6;2]; [6;1]]; [[14]; [1;1;1]; [13]]].
Fixpoint ex_rep (n : nat) (l : list nat) : list nat := match n with O => [] | S n' => l ++ ex_rep n' l end.
Definition ex_sched : list nat := ex_rep 300 [0;0;0;1;1;2;0;1;1;1;2;2;2;2;0;1]%nat.

Example C18_skip_nested_every_step_nonvacuous :
  let r := SkipList.run_case ex_cfg ex_ths ex_sched 6000 in
  snd r = true /\
  SkipListLin.exhaustedb (fst r) = false /\
  existsb (fun e => match snd e with EvAcc KCas _ false => true | _ => false end) (fst r) = true /\
  fst (run_case_chk levokb ex_cfg ex_ths ex_sched 6000) = true /\
  fst (run_case_chk levokb ex_cfg ex_ths [] 6000) = true.
Proof. vm_compute. repeat split; auto. Qed.

Example C18_skip_quiescent_final_state_nonvacuous :
  let g := Conc.shared (fst (Conc.run 6000 0 ex_sched (SkipList.init_cfg 60 (prefill_nodes ex_cfg) (map decode_ops ex_ths)))) in
  levokb g = true /\ nomarkb g = true /\
  nodes_ok (prefill_nodes ex_cfg) /\ levokb (SkipList.init (prefill_nodes ex_cfg)) = true /\
  length (lev_list (SkipList.init (prefill_nodes ex_cfg)) 2) = 2%nat.
Proof. vm_compute. repeat split; auto; repeat constructor. Qed.

(** [levokb] after EVERY step of 60 pseudo-random bursty schedules of three contended program sets (towers of height 3;
    insert / erase / extract_min / extract_max racing on keys 0..2): no violation *)
Example C18_skip_nested_sweep :
  sweep_chk levokb [0;0;0;0;0] [[[1;1;2]; [6;1]; [1;1;2]]; [[6;1]; [1;1;2]; [6;1]]; [[1;0;2]; [13]; [10;1]]] (map Z.of_nat (seq 1 20)) = [] /\
  sweep_chk levokb ex_cfg ex_ths (map Z.of_nat (seq 100 20)) = [] /\
  sweep_chk levokb [4;0;0;2;0] [[[1;2;2]; [6;2]]; [[6;2]; [1;2;2]]; [[6;2]; [6;2]; [1;2;1]]] (map Z.of_nat (seq 200 20)) = [].
Proof. vm_compute. repeat split. Qed.

(** final states (every thread finished, no out-of-fuel event) of 40 such runs: nested levels and NO marked cell on any
    level list — what the quiescent form expects ("no node is marked but still linked") *)
Example C18_skip_quiescent_sweep :
  sweep_final_nomark ex_cfg ex_ths (map Z.of_nat (seq 100 20)) = [] /\
  sweep_final_nomark [4;0;0;2;0] [[[1;2;2]; [6;2]]; [[6;2]; [1;2;2]]; [[6;2]; [6;2]; [1;2;1]]] (map Z.of_nat (seq 200 20)) = [].
Proof. vm_compute. repeat split. Qed.

(** * nested levels at EVERY reachable state — programs of insert( key, height ) and contains( key )
    (Proofs/SkipListNest.v: ghost level lists, per-thread knowledge "seen linked at level l", own-insertion progress;
    Proofs/SkipListNestProg.v: the programs; Proofs/SkipListNestThm.v).  [ic_op o]: o is an insert with key < 8 and
    1 <= height <= c_nMaxHeight, or a contains.  Programs with erase / extract_min / extract_max: still
    C18_skip_levels_nested_statement above. *)
From LV Require Import Proofs.SkipListNest Proofs.SkipListNestProg Proofs.SkipListNestThm.

Theorem C18_skip_levels_nested_partial :
  forall (fuel : nat) (nodes : list (nat * nat)) (ths : list (list SkipList.op)) c,
    nodes_ok nodes -> Forall (Forall ic_op) ths -> (length ths <= 63)%nat ->
    Conc.reach (SkipList.init_cfg fuel nodes ths) c ->
    LevOK (Conc.shared c) /\ (forall p l, snd (nxt (Conc.shared c) p l) = false).
Proof. exact skip_levels_nested_ic. Qed.
Print Assumptions C18_skip_levels_nested_partial.

(** the whole property (null-terminated lists, level l+1 an ordered sub-list of level l, all levels strictly sorted, the live
    level-0 keys are the abstract set of a valid linearization of the client history) at EVERY reachable state without an
    out-of-fuel event, in particular at every quiescent one, after arbitrary concurrent histories of insert and contains *)
Theorem C18_skip_levels_sublists_partial :
  forall (fuel : nat) (nodes : list (nat * nat)) (ths : list (list SkipList.op)) c,
    nodes_ok nodes -> Forall (Forall ic_op) ths -> (length ths <= 63)%nat ->
    Conc.reach (SkipList.init_cfg fuel nodes ths) c -> ~ SkipListLin.exhausted (Conc.trace c) -> ext_quiet (Conc.trace c) ->
    levels_property nodes c.
Proof. exact skip_levels_property_ic. Qed.
Print Assumptions C18_skip_levels_sublists_partial.

(** the membership form of Properties_C15.skip_levels_are_sublists_statement (marks ignored) *)
Theorem C15_skip_levels_are_sublists_insert_contains :
  forall (fuel : nat) nodes ths c (l m : nat) (q : ptr),
    nodes_ok nodes -> Forall (Forall ic_op) ths -> (length ths <= 63)%nat ->
    Conc.reach (SkipList.init_cfg fuel nodes ths) c -> (S l < MAXH)%nat ->
    In q (chain (Conc.shared c) (S l) head m) -> exists m', In q (chain (Conc.shared c) l head m').
Proof. exact skip_levels_membership_ic. Qed.
Print Assumptions C15_skip_levels_are_sublists_insert_contains.

(** non-vacuity: three threads insert towers of height 3, 2, 3 on the same two keys and look them up, bursty schedule; the
    hypotheses hold, CASes fail, the run completes, the final state has three non-empty nested levels *)
Definition ic_ths : list (list (list Z)) := [[[1;1;2]; [1;2;2]; [10;1]]; [[1;2;1]; [1;1;2]; [10;2]]; [[1;1;2]; [10;1]; [1;3;2]]].
Example C18_skip_levels_nested_partial_nonvacuous :
  let ths := map decode_ops ic_ths in
  let r := Conc.run 6000 0 ex_sched (SkipList.init_cfg 60 (prefill_nodes [4;0;0;2;0]) ths) in
  forallb (forallb (fun o => match o with OIns k h => Nat.ltb k 8 && Nat.leb 1 h && Nat.leb h MAXH | OContains _ => true | _ => false end)) ths = true /\
  snd r = true /\ SkipListLin.exhaustedb (Conc.trace (fst r)) = false /\
  existsb (fun e => match snd e with EvAcc KCas _ false => true | _ => false end) (Conc.trace (fst r)) = true /\
  levokb (Conc.shared (fst r)) = true /\ length (lev_list (Conc.shared (fst r)) 2) = 3%nat.
Proof. vm_compute. repeat split; auto. Qed.

(** * nested levels at EVERY reachable state — ALL FIVE OPERATIONS: the two statements at the top of this file are PROVED
    (the header comment "STATED HERE, PROVED IN THE LAST SECTIONS OF THIS FILE (C18_skip_levels_nested, C18_skip_levels_sublists_quiescent)" above is superseded by this section).
    Proofs/SkipListNestE.v .. SkipListNestE9.v: Owicki-Gries invariant [EINV] with ghost state per node
      ealk q = levels linked so far by the inserter, eanl q = levels q is on now (exactly 0 .. eanl q - 1: unlinking is
      top-down), eadn q = the inserter gave up, pend q = unlink CASes whose level_unlinked() is outstanding, and
        m_nUnlink q = eanl q + pend q + (height q - ealk q while the inserter is active);
      while the inserter is active nothing of q is unlinked (help_remove's guard m_nUnlink == level + 1 fails, the fast
      path of try_remove_at fails at level height - 1); a cell of a level that was linked and is off the list is marked;
      marked cells never change.  Per-thread facts: "p was linked at level l" (then: its level-l cell unmarked => it is on the
      level-l list NOW, which is what the pred CASes of insert / help_remove / try_remove_at establish by succeeding),
      "cell (q, l) is marked and holds x", "at most b levels of q are linked, for good". *)
From LV Require Import Proofs.SkipListNestE Proofs.SkipListNestE9.

Theorem C18_skip_levels_nested : C18_skip_levels_nested_statement.
Proof. exact skip_levels_nested. Qed.
Print Assumptions C18_skip_levels_nested.

Theorem C18_skip_levels_sublists_quiescent : C18_skip_levels_sublists_quiescent_statement.
Proof. exact skip_levels_quiescent. Qed.
Print Assumptions C18_skip_levels_sublists_quiescent.

(** Properties_C15.skip_levels_are_sublists_statement for the levels below c_nMaxHeight (marks ignored: stronger), <= 63 threads *)
Theorem C15_skip_levels_are_sublists :
  forall (fuel : nat) nodes ths c (l m : nat) (q : ptr),
    nodes_ok nodes -> Forall (Forall op_ok) ths -> (length ths <= 63)%nat ->
    Conc.reach (SkipList.init_cfg fuel nodes ths) c -> (S l < MAXH)%nat ->
    In q (chain (Conc.shared c) (S l) head m) -> exists m', In q (chain (Conc.shared c) l head m').
Proof. exact skip_levels_membership. Qed.
Print Assumptions C15_skip_levels_are_sublists.

(** the m_nUnlink accounting invariant itself holds at every reachable state *)
Theorem C18_skip_unlink_counter_invariant :
  forall (fuel : nat) nodes ths c,
    nodes_ok nodes -> Forall (Forall op_ok) ths -> (length ths <= 63)%nat ->
    Conc.reach (SkipList.init_cfg fuel nodes ths) c -> exists a, EINV (Conc.shared c) a.
Proof. exact skip_unlink_counter. Qed.
Print Assumptions C18_skip_unlink_counter_invariant.

(** non-vacuity: the contended run of [C18_skip_nested_every_step_nonvacuous] (insert / erase / extract_min / extract_max on
    towers of height 3, failing CASes) satisfies the hypotheses of the theorem, which is applied to it (no computation of the state) *)
Example C18_skip_levels_nested_nonvacuous :
  LevOK (Conc.shared (fst (Conc.run 6000 0 ex_sched (SkipList.init_cfg 60 (prefill_nodes ex_cfg) (map decode_ops ex_ths))))).
Proof.
  apply (C18_skip_levels_nested 60%nat (prefill_nodes ex_cfg) (map decode_ops ex_ths)).
  - apply prefill_nodes_ok.
  - apply Forall_forall. intros os Hin. apply in_map_iff in Hin. destruct Hin as (x & <- & _). apply decode_ops_ok.
  - cbn. repeat constructor.
  - apply Conc.run_reach.
Qed.
