(** Property C04, last sentence — "Pointers handed out by RCU containers (raw_ptr, exempt_ptr) stay valid until released
    outside the lock."  Only statements here; proofs live in LV.Proofs.RcuPtr*.

    Model LV.Model.RcuPtr: a container client on top of the general-purpose RCU core of LV.Model.RcuGp (flavour
    general_instant, the grace-period theorems of Properties_C04.v): a one-slot Michael list with the two-phase deletion of
    cds/intrusive/michael_list_rcu.h (mark = logical deletion, head CAS = physical unlink, traversals help to unlink
    marked nodes), position::pDelChain / raw_ptr chain / exempt_ptr as thread-local values, dispose_chain = batch_retire
    (all "retire" events, ONE synchronize, all "dispose" events), client operations insert / find / get / deref /
    rp.release / erase / extract / xp deref / xp.release / rlock / runlock / attach / detach in any order, any number of
    threads.  Vocabulary: "hold p" is emitted in the step of the CAS that takes node p into a thread's custody (the
    unlinking CAS for an erase-marked node: position chain or raw_ptr chain; the marking CAS for extract: exempt_ptr);
    "release p1..pn" marks a call of raw_ptr::release / exempt_ptr::release / ~position handing over p1..pn;
    "retire p" / "dispose p" as in Properties_C04.v; "touch p" = a reader dereferences p (find functor, *raw_ptr inside
    the section of its get()); [outside_at tr w k] = thread w is in no read-side section at position k.

    The theorems hold for EVERY schedule (Conc.reach), any client programs, any spin fuel, under the client contract
    [strict = true]: get/deref inside a section, insert/find/erase/extract and release outside (operations that
    violate it are not executed; erase inside a section is what check_deadlock_policy rejects by throwing).  The
    grace-period half ([C04_ptr_dispose_safe], used by the others) holds for strict = false as well.
    Tie to the code: checks/C04_rawptr.py + harness/C04/rawptr_main.cpp run the REAL MichaelList / LazyList / SkipListSet /
    EllenBinTree over general_instant and general_buffered under the deterministic scheduler with reference-counting
    monitors (no step correspondence for this model: it abstracts the list to one slot).  *)
From Coq Require Import ZArith List String.
From LV Require Import Base.Conc Base.Events Model.RcuGp Model.RcuPtr Proofs.RcuGpInv Proofs.RcuPtrInv Proofs.RcuPtrBase
  Proofs.RcuPtrThm.
Import ListNotations.
Local Open Scope string_scope.

(** the C04 grace-period theorem carried over to the container client (any [strict]): every "dispose p" is preceded by
    a "retire p" such that every reader that was inside a section at the retirement has left before the disposal *)
Theorem C04_ptr_dispose_safe :
  forall (strict : bool) (fuel : nat) (ths : list (list RcuPtr.pop)) c,
    Conc.reach (RcuPtr.pinit_cfg strict fuel ths) c ->
    forall w p d, at_ (Conc.trace c) d w (is_dispose p) ->
      exists k w', k < d /\ at_ (Conc.trace c) k w' (is_retire p) /\
        forall r s, open_at (Conc.trace c) r s k -> exists b, k < b < d /\ at_ (Conc.trace c) b r is_runlock0.
Proof. exact ptr_dispose_safe_all. Qed.
Print Assumptions C04_ptr_dispose_safe.

(** a node is taken into custody once, by one thread: no two pointers own the same node *)
Theorem C04_ptr_hold_unique :
  forall (fuel : nat) (ths : list (list RcuPtr.pop)) c,
    Conc.reach (RcuPtr.pinit_cfg true fuel ths) c ->
    forall p u h u' h', at_ (Conc.trace c) u h (is_hold p) -> at_ (Conc.trace c) u' h' (is_hold p) -> u = u' /\ h = h'.
Proof. exact ptr_hold_unique. Qed.
Print Assumptions C04_ptr_hold_unique.

(** the container hands a node to the RCU only through its holder's release(), after the holder left every section *)
Theorem C04_ptr_retire_by_holder_after_release :
  forall (fuel : nat) (ths : list (list RcuPtr.pop)) c,
    Conc.reach (RcuPtr.pinit_cfg true fuel ths) c ->
    forall k w p, at_ (Conc.trace c) k w (is_retire p) ->
      exists u r, u < r < k /\ at_ (Conc.trace c) u w (is_hold p) /\ at_ (Conc.trace c) r w (is_release p) /\
                  outside_at (Conc.trace c) w r /\ outside_at (Conc.trace c) w k.
Proof. exact ptr_retire_by_holder_after_release. Qed.
Print Assumptions C04_ptr_retire_by_holder_after_release.

(** a node referenced by a live raw_ptr chain / exempt_ptr (held by h since u) is never disposed before h's release() of
    it, that release and the retirement happen outside the lock, and the disposal waits for every reader that was
    inside a section at the retirement *)
Theorem C04_ptr_held_until_release :
  forall (fuel : nat) (ths : list (list RcuPtr.pop)) c,
    Conc.reach (RcuPtr.pinit_cfg true fuel ths) c ->
    forall p u h d w, at_ (Conc.trace c) u h (is_hold p) -> at_ (Conc.trace c) d w (is_dispose p) ->
      exists r k, u < r < k /\ k < d /\
        at_ (Conc.trace c) r h (is_release p) /\ at_ (Conc.trace c) k h (is_retire p) /\
        outside_at (Conc.trace c) h r /\ outside_at (Conc.trace c) h k /\
        forall rd s, open_at (Conc.trace c) rd s k -> exists b, k < b < d /\ at_ (Conc.trace c) b rd is_runlock0.
Proof. exact ptr_held_until_release. Qed.
Print Assumptions C04_ptr_held_until_release.

(** no reader that found a node (find, or raw_ptr::m_ptr inside the section of its get()) touches it after its disposal *)
Theorem C04_ptr_no_touch_after_dispose :
  forall (fuel : nat) (ths : list (list RcuPtr.pop)) c,
    Conc.reach (RcuPtr.pinit_cfg true fuel ths) c ->
    forall p x r d w, at_ (Conc.trace c) x r (is_touch p) -> at_ (Conc.trace c) d w (is_dispose p) -> x < d.
Proof. exact ptr_no_touch_after_dispose. Qed.
Print Assumptions C04_ptr_no_touch_after_dispose.

(** non-vacuity: a run in which thread 1 marks node 1 (erase) and thread 0's get() unlinks it into its raw_ptr chain;
    the trace contains, in this order, "hold 1" (thread 0), "release 1", "retire 1", "dispose 1" *)
Example C04_ptr_helping_run :
  snd help_run = true /\
  map snd (filter (fun x => orb (is_hold 1 (snd x)) (orb (is_release 1 (snd x)) (orb (is_retire 1 (snd x)) (is_dispose 1 (snd x)))))
             (clis help_run))
  = [EvCli "hold" [1%Z]; EvCli "release" [1%Z]; EvCli "retire" [1%Z]; EvCli "dispose" [1%Z]] /\
  map fst (filter (fun x => is_cli "marked" (snd x)) (clis help_run)) = [1] /\
  map fst (filter (fun x => is_hold 1 (snd x)) (clis help_run)) = [0].
Proof. exact help_run_events. Qed.

(** negative witness (what the -DNDEBUG code does, [strict = false]): exempt_ptr::release() INSIDE a read-side section calls
    retire_ptr = synchronize() with general_instant, whose flip_and_wait spins on the caller's own thread record: for
    every tried spin fuel the run ends with "retire 1", "outoffuel" and no "dispose 1" (self-deadlock; the assert in
    release() is compiled out, check_deadlock_policy is not consulted by release()).  With the buffered flavours the same
    call only pushes into the buffer unless the buffer is full, then push_buffer calls synchronize() and deadlocks alike. *)
Example C04_ptr_release_inside_lock_deadlocks :
  forall sfuel, In sfuel [5; 20; 80; 320]%Z ->
    snd (deadlock_run sfuel) = true /\
    List.length (filter (fun x => is_retire 1 (snd x)) (clis (deadlock_run sfuel))) = 1 /\
    List.length (filter (fun x => is_dispose 1 (snd x)) (clis (deadlock_run sfuel))) = 0 /\
    List.length (filter (fun x => is_cli "outoffuel" (snd x)) (clis (deadlock_run sfuel))) = 1.
Proof. exact release_inside_lock_deadlocks. Qed.

Example C04_ptr_release_outside_lock_completes :
  let r := RcuPtr.run_case [0; 80]%Z [[[1]; [5]; [11]; [3]; [4]; [13]]]%Z [] 4000 in
  snd r = true /\ List.length (filter (fun x => is_dispose 1 (snd x)) (clis r)) = 1 /\
  List.length (filter (fun x => is_cli "outoffuel" (snd x)) (clis r)) = 0.
Proof. exact release_outside_lock_completes. Qed.

(** * Additions: exempt_ptr dereference validity, release() inside the lock for every schedule, nesting.
    Proofs: LV.Proofs.RcuPtrXDisp / RcuPtrXDispThm (extended invariant [XInv] = the client invariant + "a disposing
    thread is outside every section"), LV.Proofs.RcuPtrXHold (thread-local books: holds pay for releases and for what
    the thread carries), LV.Proofs.RcuPtrXThm (combination with the custody theorems above).
    "xtouch p" = dereference of a held exempt_ptr outside any read-side section, before its release(). *)
From LV Require Import Proofs.RcuPtrXDisp Proofs.RcuPtrXDispThm Proofs.RcuPtrXHold Proofs.RcuPtrXThm Proofs.RcuPtrXStuck.

(** ** release() inside the lock (any [strict], in particular [strict = false] = what the -DNDEBUG code executes) *)

(** general_instant runs the disposer in the releasing thread after its own synchronize(): for EVERY schedule, every
    spin fuel, every client program, a "dispose" event is emitted only by a thread that is outside every read-side
    section at that moment (nested sections included: [outside_at] speaks about the outermost one) *)
Theorem C04_ptr_dispose_outside :
  forall (strict : bool) (fuel : nat) (ths : list (list RcuPtr.pop)) c,
    Conc.reach (RcuPtr.pinit_cfg strict fuel ths) c ->
    forall d w p, at_ (Conc.trace c) d w (is_dispose p) -> outside_at (Conc.trace c) w d.
Proof. exact ptr_dispose_outside_all. Qed.
Print Assumptions C04_ptr_dispose_outside.

(** a thread that calls release() inside its own section (the "release" event at r lies in the section opened at s)
    emits no "dispose" event - for this batch or any other - while that section is open: every later "dispose" of that
    thread is preceded by the "runlock 0" that closes the section.  The client of LV.Model.RcuPtr cannot unlock while it
    is inside release(), so that release never disposes and never completes (its synchronize waits for itself);
    [C04_ptr_release_inside_lock_deadlocks] above and [C04_ptr_nested_release_inside_deadlocks] below show such runs *)
Theorem C04_ptr_release_inside_no_dispose :
  forall (strict : bool) (fuel : nat) (ths : list (list RcuPtr.pop)) c,
    Conc.reach (RcuPtr.pinit_cfg strict fuel ths) c ->
    forall w s r p, at_ (Conc.trace c) r w (is_release p) -> open_at (Conc.trace c) w s r ->
      forall d q, r < d -> at_ (Conc.trace c) d w (is_dispose q) ->
        exists b, r < b < d /\ at_ (Conc.trace c) b w is_runlock0.
Proof. exact ptr_release_inside_no_dispose. Qed.
Print Assumptions C04_ptr_release_inside_no_dispose.

(** ... and it never completes: after a "release" event emitted inside a read-side section the releasing thread emits
    nothing but atomic accesses, "retire" events and the final "outoffuel" of the model (a wait loop ran out of spin
    fuel; the real code spins forever): no "dispose", no response of the operation, no later operation, no unlock -
    for every schedule, every spin fuel, every client program.  Proof: LV.Proofs.RcuPtrXStuck (thread-local phase
    monitor) + [C04_ptr_dispose_outside] *)
Theorem C04_ptr_release_inside_never_completes :
  forall (strict : bool) (fuel : nat) (ths : list (list RcuPtr.pop)) c,
    Conc.reach (RcuPtr.pinit_cfg strict fuel ths) c ->
    forall w s r ps, nth_error (Conc.trace c) r = Some (w, EvCli "release" ps) -> open_at (Conc.trace c) w s r ->
      forall j e, r < j -> nth_error (Conc.trace c) j = Some (w, e) ->
        (exists k o ok, e = EvAcc k o ok) \/ (exists args, e = EvCli "retire" args) \/ e = EvCli "outoffuel" [].
Proof. exact ptr_release_inside_never_completes. Qed.
Print Assumptions C04_ptr_release_inside_never_completes.

(** the same fact as a statement of the proof rule (Conc.safe, relative to the invariant [XInv]): do_release of a
    non-empty batch that starts at nesting depth d+1 has only the out-of-fuel outcome [false], for every spin fuel;
    [XInv] holds in every reachable configuration of every client ([C04_ptr_xinv_reachable]) *)
Theorem C04_ptr_release_inside_returns_false :
  forall (t fuel : nat) (rec : option nat) (d : nat) (p : Z) (ps : list Z) (l : PL),
    PIdle rec (S d) l ->
    Conc.safe pview XInv t (RcuPtr.do_release fuel (p :: ps)) l (fun ok _ => ok = false).
Proof. exact release_inside_returns_false. Qed.
Print Assumptions C04_ptr_release_inside_returns_false.

Theorem C04_ptr_xinv_reachable :
  forall (strict : bool) (fuel : nat) (ths : list (list RcuPtr.pop)) c,
    Conc.reach (RcuPtr.pinit_cfg strict fuel ths) c -> Conc.cfg_ok pview XInv c.
Proof. intros strict fuel ths c. apply Conc.reach_inv. apply xpinit_ok. Qed.
Print Assumptions C04_ptr_xinv_reachable.

(** ** exempt_ptr dereference validity (strict client contract) *)

(** thread-local books, any [strict]: at every "xtouch p" of thread t strictly fewer "release" events naming p than
    "hold p" events of t precede it *)
Theorem C04_ptr_xtouch_paid :
  forall (strict : bool) (fuel : nat) (ths : list (list RcuPtr.pop)) c,
    Conc.reach (RcuPtr.pinit_cfg strict fuel ths) c ->
    forall x t p, at_ (Conc.trace c) x t (is_xtouch p) ->
      cnt (is_release p) t (firstn x (Conc.trace c)) < cnt (is_hold p) t (firstn x (Conc.trace c)).
Proof. exact ptr_xtouch_paid_all. Qed.
Print Assumptions C04_ptr_xtouch_paid.

(** when a thread dereferences its exempt_ptr outside any section it has taken the node into custody, has not released
    it, and no thread has retired it yet *)
Theorem C04_ptr_xtouch_custody :
  forall (fuel : nat) (ths : list (list RcuPtr.pop)) c,
    Conc.reach (RcuPtr.pinit_cfg true fuel ths) c ->
    forall x t p, at_ (Conc.trace c) x t (is_xtouch p) ->
      (exists u, u < x /\ at_ (Conc.trace c) u t (is_hold p)) /\
      (forall r, r < x -> ~ at_ (Conc.trace c) r t (is_release p)) /\
      (forall k w, at_ (Conc.trace c) k w (is_retire p) -> x < k).
Proof. exact ptr_xtouch_custody. Qed.
Print Assumptions C04_ptr_xtouch_custody.

(** an exempt_ptr dereference never follows the disposal of the node *)
Theorem C04_ptr_xtouch_valid :
  forall (fuel : nat) (ths : list (list RcuPtr.pop)) c,
    Conc.reach (RcuPtr.pinit_cfg true fuel ths) c ->
    forall p x t d w, at_ (Conc.trace c) x t (is_xtouch p) -> at_ (Conc.trace c) d w (is_dispose p) -> x < d.
Proof. exact ptr_xtouch_valid. Qed.
Print Assumptions C04_ptr_xtouch_valid.

(** non-vacuity: extract, dereference outside any section, release, disposal *)
Example C04_ptr_xderef_run :
  snd xderef_run = true /\
  map snd (filter (fun x => orb (is_hold 1 (snd x)) (orb (is_xtouch 1 (snd x)) (orb (is_release 1 (snd x))
             (orb (is_retire 1 (snd x)) (is_dispose 1 (snd x)))))) (clis xderef_run))
  = [EvCli "hold" [1%Z]; EvCli "xtouch" [1%Z]; EvCli "release" [1%Z]; EvCli "retire" [1%Z]; EvCli "dispose" [1%Z]].
Proof. exact xderef_run_events. Qed.

(** ** nesting (the model has nested read-side sections: rlock at depth d emits "rlock d+1", runlock "runlock d-1"; all
    theorems of this file quantify over client programs with arbitrary nesting, sections are identified by their
    OUTERMOST pair "rlock 1" / "runlock 0") *)

(** a node touched through find / a raw_ptr at any nesting depth is disposed only after the toucher has closed its
    outermost section: an inner unlock does not end the protection of the raw_ptr *)
Theorem C04_ptr_touch_dispose_after_outermost :
  forall (fuel : nat) (ths : list (list RcuPtr.pop)) c,
    Conc.reach (RcuPtr.pinit_cfg true fuel ths) c ->
    forall p x r d w, at_ (Conc.trace c) x r (is_touch p) -> at_ (Conc.trace c) d w (is_dispose p) ->
      exists s b, s < x < b /\ b < d /\ at_ (Conc.trace c) s r is_rlock1 /\
        (forall j, s < j < x -> ~ at_ (Conc.trace c) j r is_runlock0) /\ at_ (Conc.trace c) b r is_runlock0.
Proof. exact ptr_touch_dispose_after_outermost. Qed.
Print Assumptions C04_ptr_touch_dispose_after_outermost.

(** non-vacuity: get() at depth 2, inner unlock, a concurrent erase retires the node and waits, dereference at depth 1,
    outermost unlock, disposal *)
Example C04_ptr_nested_run :
  snd nested_run = true /\
  skipn 2 (filter (fun x => sect_or_node (snd x)) (clis nested_run)) =
  [(0, EvCli "rlock" [1; 1]%Z); (0, EvCli "rlock" [2; 2]%Z); (0, EvCli "runlock" [1%Z]);
   (1, EvCli "rlock" [1; 1]%Z); (1, EvCli "runlock" [0%Z]); (1, EvCli "retire" [1%Z]);
   (0, EvCli "touch" [1%Z]); (0, EvCli "runlock" [0%Z]); (1, EvCli "dispose" [1%Z])].
Proof. exact nested_run_events. Qed.

(** release inside a nested section, [strict = false]: after the inner lock / unlock pair the thread is still inside;
    "release 1", "retire 1", "outoffuel", no "dispose 1" (an instance of [C04_ptr_release_inside_no_dispose]) *)
Example C04_ptr_nested_release_inside_deadlocks :
  forall sfuel, In sfuel [5; 40; 160]%Z ->
    snd (nested_deadlock_run sfuel) = true /\
    skipn 4 (map snd (filter (fun x => sect_or_node (snd x) || is_release 1 (snd x) || is_cli "outoffuel" (snd x))%bool
                        (clis (nested_deadlock_run sfuel)))) =
    [EvCli "rlock" [1; 1]%Z; EvCli "rlock" [2; 2]%Z; EvCli "runlock" [1%Z]; EvCli "release" [1%Z]; EvCli "retire" [1%Z];
     EvCli "outoffuel" []].
Proof. exact nested_release_inside_deadlocks. Qed.
