(** * Properties_C28 — Feldman hash addressing distinguishes every pair of distinct hashes.
    Only statements (closed by [exact <lemma>]), [Print Assumptions], and non-vacuity examples.

    GENERATED from /repo by tools/cxx2v (units_C28.json -> LV.Gen.Gen_feldman, from cds/algo/split_bitstring.h):
    is_correct / eos / cut / bit_offset of number_splitter<short|unsigned short|int|unsigned|long|unsigned long>,
    split_bitstring<T,N,unsigned>, byte_splitter<T,N,unsigned>.
    HAND-WRITTEN (LV.Model.FeldmanPath; cxx2v cannot translate them) and tied to the code by the differential run of
    checks/C28.py: metrics::make (compared on every argument triple of the quantifier), the splitter constructors,
    and the level loop of traverse_data::reset / traverse / insert / expand_slot ([path], [expand_slots], [inserts]).

    Structure: (1) what metrics::make establishes; (2) each generated splitter meets [splitter_spec];
    (3) the property, for every splitter meeting [splitter_spec], every configuration [config_ok]
    (= normalised by make and both widths accepted by is_correct / within the documented limit of one cut) and
    every hash; (4) which configurations is_correct accepts, and what lies outside. *)
Require Import ZArith List Bool Lia.
Require Import LV.Base.CInt LV.Model.FeldmanPath.
Require Import LV.Proofs.C28_Digits LV.Proofs.C28_Metrics LV.Proofs.C28_Path LV.Proofs.C28_NumSplit
               LV.Proofs.C28_ByteSplit LV.Proofs.C28_Main.
Import ListNotations.
Local Open Scope Z_scope.

Module G := LV.Gen.Gen_feldman.

(** ** (1) metrics::make.  head' = clamp(head,4,8*size) + remainder, array' = max(array,2); the remainder of
    (8*size - head) mod array' is moved INTO THE HEAD, so every array level is exactly array' bits wide and
    the last level is never narrower; head' may exceed the requested head by up to array'-1 bits.
    The code is undefined ([None]: size_t(1) << 64) exactly when head' = 64 (only for 8-byte hashes) or array' >= 64. *)
Theorem make_normalises : forall head array size,
  0 <= head < 2 ^ 64 -> 0 <= array < 2 ^ 64 -> 1 <= size <= 8 ->
  let W := 8 * size in
  let h' := norm_head head array W in let a' := norm_array array in let n := levels head array W in
  4 <= h' <= W /\ Z.min (Z.max head 4) W <= h' < Z.min (Z.max head 4) W + a' /\
  2 <= a' /\ a' = Z.max array 2 /\
  (W - h') mod a' = 0 /\ W = h' + n * a' /\ 0 <= n /\
  (h' < 64 -> a' < 64 -> metrics_make head array size = Some (mk_metrics (2 ^ h') h' (2 ^ a') a')) /\
  (64 <= h' \/ 64 <= a' -> metrics_make head array size = None).
Proof. exact make_normalises_all. Qed.
Print Assumptions make_normalises.

(** ** (2) the generated splitters: cut( c ) at bit position p returns bits [p, p+c) of the hash (two's complement
    bits of an integral hash, little-endian value of a byte string) and advances to p+c; eos() <-> p >= width;
    bit_offset() = p.  Integral hashes: for every count accepted by is_correct (count < width). *)
Theorem ns_u16_meets_spec : splitter_spec ns_u16_splitter 16 (in_range u16) (fun h => h mod 2 ^ 16)
  (fun c => G.ns_u16_is_correct c = Some true)
  (fun h s => G.ns_u16_number_ s = h /\ 0 <= G.ns_u16_shift_ s <= 16) G.ns_u16_shift_.
Proof. exact ns_u16_spec. Qed.
Print Assumptions ns_u16_meets_spec.

Theorem ns_i16_meets_spec : splitter_spec ns_i16_splitter 16 (in_range i16) (fun h => h mod 2 ^ 16)
  (fun c => G.ns_i16_is_correct c = Some true)
  (fun h s => G.ns_i16_number_ s = h /\ 0 <= G.ns_i16_shift_ s <= 16) G.ns_i16_shift_.
Proof. exact ns_i16_spec. Qed.
Print Assumptions ns_i16_meets_spec.

Theorem ns_u32_meets_spec : splitter_spec ns_u32_splitter 32 (in_range u32) (fun h => h mod 2 ^ 32)
  (fun c => G.ns_u32_is_correct c = Some true)
  (fun h s => G.ns_u32_number_ s = h /\ 0 <= G.ns_u32_shift_ s <= 32) G.ns_u32_shift_.
Proof. exact ns_u32_spec. Qed.
Print Assumptions ns_u32_meets_spec.

Theorem ns_i32_meets_spec : splitter_spec ns_i32_splitter 32 (in_range i32) (fun h => h mod 2 ^ 32)
  (fun c => G.ns_i32_is_correct c = Some true)
  (fun h s => G.ns_i32_number_ s = h /\ 0 <= G.ns_i32_shift_ s <= 32) G.ns_i32_shift_.
Proof. exact ns_i32_spec. Qed.
Print Assumptions ns_i32_meets_spec.

(** 8-byte integral hashes: every head/array width up to 63 — this is what commit 6c0cfcb repaired (the mask was
    (1 << count) - 1 in int: undefined for count >= 31, wrong for count >= 32) *)
Theorem ns_u64_meets_spec : splitter_spec ns_u64_splitter 64 (in_range u64) (fun h => h mod 2 ^ 64)
  (fun c => G.ns_u64_is_correct c = Some true)
  (fun h s => G.ns_u64_number_ s = h /\ 0 <= G.ns_u64_shift_ s <= 64) G.ns_u64_shift_.
Proof. exact ns_u64_spec. Qed.
Print Assumptions ns_u64_meets_spec.

Theorem ns_i64_meets_spec : splitter_spec ns_i64_splitter 64 (in_range i64) (fun h => h mod 2 ^ 64)
  (fun c => G.ns_i64_is_correct c = Some true)
  (fun h s => G.ns_i64_number_ s = h /\ 0 <= G.ns_i64_shift_ s <= 64) G.ns_i64_shift_.
Proof. exact ns_i64_spec. Qed.
Print Assumptions ns_i64_meets_spec.

(** byte-string hashes of N = 1..8 bytes: counts accepted by is_correct AND at most 32 = sizeof(UInt)*8, the
    documented maximum of one cut (loop fuel: any value above 32) *)
Theorem sb_meets_spec : forall fuel N, (32 < fuel)%nat -> 1 <= N <= 8 ->
  splitter_spec (sb_splitter fuel N) (8 * N) (valid_bytes N) le_val
    (fun c => G.sb_is_correct c = Some true /\ c <= 32) (fun _ => sb_inv N) sb_pos.
Proof. exact sb_spec. Qed.
Print Assumptions sb_meets_spec.

Theorem bs_meets_spec : forall fuel N, (32 < fuel)%nat -> 1 <= N <= 8 ->
  splitter_spec (bs_splitter fuel N) (8 * N) (valid_bytes N) le_val
    (fun c => G.bs_is_correct c = Some true /\ c <= 32) (fun _ => bs_inv N) bs_pos.
Proof. exact bs_spec. Qed.
Print Assumptions bs_meets_spec.

(** ** (3) the property *)

(** the constructor's assertions hold *)
Theorem config_is_accepted : forall (H S : Type) (sp : splitter H S) W valid val okc inv pos,
  splitter_spec sp W valid val okc inv pos ->
  forall head array m, config_ok sp okc head array m -> accepted sp m = Some true.
Proof. exact @final_accepted. Qed.
Print Assumptions config_is_accepted.

(** the widths cut along a full path sum to the hash width; eos() is false after every cut but the last and
    true after the last *)
Theorem layout_consumes_all_bits : forall (H S : Type) (sp : splitter H S) W valid val okc inv pos,
  splitter_spec sp W valid val okc inv pos ->
  forall head array m h lv, config_ok sp okc head array m -> valid h -> (64 < lv)%nat ->
  sumz (widths W m) = W /\
  exists p, path sp lv m h = Some p /\ length p = length (widths W m) /\
            map snd p = repeat false (nlev W m) ++ [true].
Proof. exact @final_layout. Qed.
Print Assumptions layout_consumes_all_bits.

(** equal hashes (even: hashes with equal bits) follow the same path *)
Theorem path_deterministic : forall (H S : Type) (sp : splitter H S) W valid val okc inv pos,
  splitter_spec sp W valid val okc inv pos ->
  forall head array m h1 h2 lv, config_ok sp okc head array m -> valid h1 -> valid h2 -> (64 < lv)%nat ->
  val h1 = val h2 -> path sp lv m h1 = path sp lv m h2.
Proof. exact @final_deterministic. Qed.
Print Assumptions path_deterministic.

(** distinct hashes: both paths are defined, equally long, and there is a level k at which the slots differ while
    all earlier slots agree *)
Theorem paths_diverge : forall (H S : Type) (sp : splitter H S) W valid val okc inv pos,
  splitter_spec sp W valid val okc inv pos ->
  forall head array m h1 h2 lv, config_ok sp okc head array m -> valid h1 -> valid h2 -> (64 < lv)%nat ->
  h1 <> h2 ->
  exists p1 p2 k, path sp lv m h1 = Some p1 /\ path sp lv m h2 = Some p2 /\
    length p1 = length p2 /\ (k < length p1)%nat /\
    firstn k (slots p1) = firstn k (slots p2) /\ nth_error (slots p1) k <> nth_error (slots p2) k.
Proof. exact @final_diverge. Qed.
Print Assumptions paths_diverge.

(** every slot indexes inside its node: < head_node_size at level 0, < array_node_size below *)
Theorem slot_in_range : forall (H S : Type) (sp : splitter H S) W valid val okc inv pos,
  splitter_spec sp W valid val okc inv pos ->
  forall head array m h lv p k slot, config_ok sp okc head array m -> valid h -> (64 < lv)%nat ->
  path sp lv m h = Some p -> nth_error (slots p) k = Some slot ->
  0 <= slot < (if Nat.eqb k 0 then head_node_size m else array_node_size m).
Proof. exact @final_slot_in_node. Qed.
Print Assumptions slot_in_range.

(** insert( h1 ) has made j cuts and finds another hash h2 in the slot (h2 sits on its own path, so the first j
    slots agree): then j is not the last level and eos() is false after the j-th cut — insert expands the slot and
    goes on instead of returning false.  So a new hash always reaches an empty slot. *)
Theorem insert_new_hash_never_fails_statement : forall (H S : Type) (sp : splitter H S) W valid val okc inv pos,
  splitter_spec sp W valid val okc inv pos ->
  forall head array m h1 h2 lv p1 p2 j, config_ok sp okc head array m -> valid h1 -> valid h2 -> (64 < lv)%nat ->
  h1 <> h2 -> path sp lv m h1 = Some p1 -> path sp lv m h2 = Some p2 ->
  (1 <= j <= length p1)%nat -> firstn j (slots p1) = firstn j (slots p2) ->
  (j < length p1)%nat /\ nth_error (map snd p1) (j - 1) = Some false.
Proof. exact @final_insert_never_fails. Qed.
Print Assumptions insert_new_hash_never_fails_statement.

(** the same on the insert model ([FeldmanPath.inserts]: depth = 1 + longest common path prefix with a present
    hash; insert fails when that exceeds the path): any sequence of pairwise distinct hashes is inserted without
    a failure, each stored on its own path *)
Theorem inserts_of_distinct_hashes_succeed : forall (H S : Type) (sp : splitter H S) W valid val okc inv pos,
  splitter_spec sp W valid val okc inv pos ->
  forall head array m hs lv, config_ok sp okc head array m -> Forall valid hs -> NoDup hs -> (64 < lv)%nat ->
  exists fin, inserts sp lv m [] hs = Some (repeat true (length hs), fin) /\ map fst fin = hs /\
              Forall (fun e => exists p, path sp lv m (fst e) = Some p /\ snd e = slots p) fin.
Proof. exact @final_inserts_succeed. Qed.
Print Assumptions inserts_of_distinct_hashes_succeed.

(** expand_slot places the moved item with a fresh splitter positioned at bit_offset(): at the slot its own
    traverse computes *)
Theorem expand_slot_consistent : forall (H S : Type) (sp : splitter H S) W valid val okc inv pos,
  splitter_spec sp W valid val okc inv pos ->
  forall head array m h lv p, config_ok sp okc head array m -> valid h -> (64 < lv)%nat ->
  path sp lv m h = Some p -> expand_slots sp lv m h = Some (tl (slots p)).
Proof. exact @final_expand_consistent. Qed.
Print Assumptions expand_slot_consistent.

(** ** (4) accepted configurations.  number_splitter: both widths below the bit width, i.e. head' < 8*sizeof
    (head' = 8*sizeof — head_bits >= hash bits, or array_bits larger than what is left — is rejected);
    split_bitstring: everything; byte_splitter: both widths multiples of 8. *)
Theorem accepted_by_number_splitter : forall m,
  accepted ns_u16_splitter m = Some ((head_node_size_log m <? 16) && (array_node_size_log m <? 16)) /\
  accepted ns_i16_splitter m = Some ((head_node_size_log m <? 16) && (array_node_size_log m <? 16)) /\
  accepted ns_u32_splitter m = Some ((head_node_size_log m <? 32) && (array_node_size_log m <? 32)) /\
  accepted ns_i32_splitter m = Some ((head_node_size_log m <? 32) && (array_node_size_log m <? 32)) /\
  accepted ns_u64_splitter m = Some ((head_node_size_log m <? 64) && (array_node_size_log m <? 64)) /\
  accepted ns_i64_splitter m = Some ((head_node_size_log m <? 64) && (array_node_size_log m <? 64)).
Proof.
  exact (fun m => conj (ns_u16_accepted m) (conj (ns_i16_accepted m) (conj (ns_u32_accepted m)
         (conj (ns_i32_accepted m) (conj (ns_u64_accepted m) (ns_i64_accepted m)))))).
Qed.
Print Assumptions accepted_by_number_splitter.

Theorem accepted_by_split_bitstring : forall fuel N m, accepted (sb_splitter fuel N) m = Some true.
Proof. exact sb_accepted. Qed.
Print Assumptions accepted_by_split_bitstring.

Theorem accepted_by_byte_splitter : forall fuel N m,
  0 <= head_node_size_log m < 2 ^ 32 -> 0 <= array_node_size_log m < 2 ^ 32 ->
  accepted (bs_splitter fuel N) m = Some ((head_node_size_log m mod 8 =? 0) && (array_node_size_log m mod 8 =? 0)).
Proof. exact bs_accepted. Qed.
Print Assumptions accepted_by_byte_splitter.

Theorem number_splitter_rejects_full_width_head :
  (exists m, metrics_make 4 13 2 = Some m /\ head_node_size_log m = 16 /\ accepted ns_u16_splitter m = Some false) /\
  (exists m, metrics_make 32 4 4 = Some m /\ head_node_size_log m = 32 /\ accepted ns_u32_splitter m = Some false) /\
  (metrics_make 64 4 8 = None).
Proof. exact ns_full_width_head_rejected. Qed.
Print Assumptions number_splitter_rejects_full_width_head.

(** OUTSIDE the theorems: split_bitstring / byte_splitter with a width above 32 on an 8-byte hash.  is_correct
    accepts (so do the constructor's assertions), but cut accumulates into a 32-bit [unsigned] and shifts it by 32:
    undefined.  Head widths above 32 need a head array of 2^33 pointers, so a real set cannot be built with them
    in this sandbox; checks/C28.py replays the witness on the compiled splitter (two distinct hashes, equal paths). *)
Theorem split_bitstring_cut_above_32_refuted :
  exists mem c, valid_bytes 8 mem /\ G.sb_is_correct c = Some true /\ 32 < c <= 64 /\
    forall fuel, G.sb_cut fuel mem (G.mk_sb 0 0 0 8) c = None.
Proof. exact sb_wide_cut_refuted. Qed.
Print Assumptions split_bitstring_cut_above_32_refuted.

Theorem byte_splitter_cut_above_32_refuted :
  exists mem c, valid_bytes 8 mem /\ G.bs_is_correct c = Some true /\ 32 < c <= 64 /\
    forall fuel, G.bs_cut fuel mem (G.mk_bs 0 0 8) c = None.
Proof. exact bs_wide_cut_refuted. Qed.
Print Assumptions byte_splitter_cut_above_32_refuted.

Theorem split_bitstring_head_above_32_refuted :
  exists m h, metrics_make 40 4 8 = Some m /\ (forall fuel, accepted (sb_splitter fuel 8) m = Some true) /\
    valid_bytes 8 h /\ forall fuel lv, path (sb_splitter fuel 8) lv m h = None.
Proof. exact sb_wide_head_refuted. Qed.
Print Assumptions split_bitstring_head_above_32_refuted.

(** ** non-vacuity *)

(** the configuration of the repaired defect: 8-byte integral hash, head_bits 32 (>= 31), array_bits 4 *)
Example c28_u64_head32 :
  exists m, config_ok ns_u64_splitter (fun c => G.ns_u64_is_correct c = Some true) 32 4 m /\
    in_range u64 4294967297 /\ in_range u64 8589934593 /\
    path ns_u64_splitter 65 m 4294967297 =
      Some [(1, false); (1, false); (0, false); (0, false); (0, false); (0, false); (0, false); (0, false); (0, true)] /\
    path ns_u64_splitter 65 m 8589934593 =
      Some [(1, false); (2, false); (0, false); (0, false); (0, false); (0, false); (0, false); (0, false); (0, true)].
Proof.
  eexists. split; [|split; [|split; [|split]]].
  - unfold config_ok. repeat split; try (vm_compute; congruence); vm_compute; reflexivity.
  - vm_compute. split; congruence.
  - vm_compute. split; congruence.
  - vm_compute. reflexivity.
  - vm_compute. reflexivity.
Qed.

(** head 8 / array 5 on a 4-byte hash is normalised to head 12 (the remainder 4 goes into the head); a byte-string
    hash, a negative int hash, a byte_splitter configuration, and three inserts (one duplicate) *)
Example c28_normalised_and_paths :
  metrics_make 8 5 4 = Some (mk_metrics 4096 12 32 5) /\
  config_ok (sb_splitter 65 4) (fun c => G.sb_is_correct c = Some true /\ c <= 32) 8 5 (mk_metrics 4096 12 32 5) /\
  valid_bytes 4 [120; 86; 52; 18] /\
  path (sb_splitter 65 4) 65 (mk_metrics 4096 12 32 5) [120; 86; 52; 18]
    = Some [(1656, false); (5, false); (26, false); (8, false); (2, true)] /\
  expand_slots (sb_splitter 65 4) 65 (mk_metrics 4096 12 32 5) [120; 86; 52; 18] = Some [5; 26; 8; 2] /\
  path ns_i32_splitter 65 (mk_metrics 4096 12 32 5) (-1)
    = Some [(4095, false); (31, false); (31, false); (31, false); (31, true)] /\
  config_ok (bs_splitter 65 2) (fun c => G.bs_is_correct c = Some true /\ c <= 32) 8 8 (mk_metrics 256 8 256 8) /\
  path (bs_splitter 65 2) 65 (mk_metrics 256 8 256 8) [205; 171] = Some [(205, false); (171, true)] /\
  run_set (sb_splitter 65 4) 65 (mk_metrics 4096 12 32 5)
      [[120; 86; 52; 18]; [120; 86; 52; 19]; [120; 86; 52; 18]; [121; 0; 0; 0]]
    = Some ([true; true; false; true],
            [([120; 86; 52; 18], [1656; 5; 26; 8]); ([120; 86; 52; 19], [1656; 5; 26; 12]); ([121; 0; 0; 0], [121])]).
Proof.
  repeat split; try (vm_compute; reflexivity); try (vm_compute; congruence);
    try (repeat constructor; unfold is_byte; Lia.lia).
Qed.
