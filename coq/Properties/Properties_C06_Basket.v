(** Property C06, BasketQueue part - cds::container::BasketQueue is a linearizable FIFO queue.
    Only statements here; proofs live in LV.Proofs.BasketLin{Base,Inv,Rules,Enq,Proofs}, on top of the chain
    invariant of LV.Proofs.Basket{Base,Inv,Proofs}.

    Model: LV.Model.Basket (cds/intrusive/basket_queue.h: enqueue with the basket-insertion branch and try_again,
    do_dequeue with the hop loop and the logical-delete marks, free_chain), one atomic access per step, tied to the
    C++ by step correspondence (checks/C06.py).  HYPOTHESIS [smr_safe] (DESIGN section 4) as for the other queues:
    nodes are ids from a never-reusing allocator.  Memory model: sequential consistency.

    [Conc.reach (Basket.init_cfg cf fuel ths) c]: [c] is reachable by SOME sequence of thread choices, for any number
    of threads [ths], any client programs of enqueue / dequeue operations, any loop fuel; [cf] = (item counter on?,
    HP or DHP).  [hist tr]: the invoke/response history read off the concrete trace.

    Linearization points.  enqueue: its successful CAS on [t->next]; a basket insertion puts the node BEFORE nodes
    linked earlier (even before the node of an enqueue that has already returned, see the Example), so its place in
    the linearization order is in front of theirs: the LP is inserted into the annotated trace in hindsight
    (LV.Proofs.BasketLinBase.brun_ins_enq), justified by "this enqueue was invoked before any of them was
    linearized" (it saw t->next == null) and "none of them has been dequeued" (the pointer is unmarked).
    dequeue returning a value: its successful marking CAS.  dequeue returning empty: the last load of h->next that
    returned null (h deleted and last: no undeleted node), also placed in hindsight (brun_ins_emp). *)
From Coq Require Import ZArith List String Bool.
From LV Require Import Base.Conc Base.Events Base.Lin Spec.Specs Proofs.LinProofs Proofs.MSQueueBase.
From LV Require Model.Basket Proofs.BasketLinProofs Properties.Properties_C06.
Import ListNotations.
Local Open Scope Z_scope.
Local Open Scope string_scope.
Local Open Scope list_scope.

(** BasketQueue is linearizable w.r.t. the sequential FIFO queue: every history of every schedule has an
    LP-annotated trace that is valid for [Fifo] (same form as [C06_msqueue_linearizable]) *)
Theorem C06_basket_linearizable :
  forall (cf : Basket.conf) (fuel : nat) (ths : list (list Basket.op)) c,
    Conc.reach (Basket.init_cfg cf fuel ths) c ->
    (exists atr : list (aev Fifo), lp_valid Fifo atr /\ erase atr = hist (Conc.trace c)) /\
    linearizable Fifo (hist (Conc.trace c)).
Proof.
  intros cf fuel ths c Hr. split; [|eapply BasketLinProofs.basket_linearizable; eauto].
  destruct (BasketLinProofs.basket_lp_trace _ _ _ _ Hr) as (dp & b & lv & atr & f & _ & _ & _ & _ & A & B).
  exists atr. split; [eexists; exact A|exact B].
Qed.
Print Assumptions C06_basket_linearizable.

(** the statement left open in Properties_C06 *)
Theorem C06_basket_linearizable_full : Properties_C06.C06_basket_linearizable_statement.
Proof. exact BasketLinProofs.basket_linearizable. Qed.
Print Assumptions C06_basket_linearizable_full.

(** the abstract queue: at every instant of every schedule the annotated trace ends in the FIFO state "values of
    the undeleted nodes (those behind the last marked pointer) in chain order" *)
Theorem C06_basket_abstract_queue :
  forall cf fuel ths c, Conc.reach (Basket.init_cfg cf fuel ths) c ->
    let g := Conc.shared c in
    exists (dp : list nat) (b : nat) (lv : list nat) (atr : list (aev Fifo)) (f : stmap),
      NoDup (dp ++ b :: lv) /\ linked (fun x => fst (Basket.nxt g x)) (dp ++ b :: lv) /\
      (forall x, In x dp -> snd (Basket.nxt g x) = true) /\ (forall x, In x (b :: lv) -> snd (Basket.nxt g x) = false) /\
      @lp_run Fifo (@lp_init Fifo) atr = Some (map (Basket.val g) lv, f) /\ erase atr = hist (Conc.trace c).
Proof. exact BasketLinProofs.basket_lp_trace. Qed.
Print Assumptions C06_basket_abstract_queue.

(** "no item is invented" (in the form used for the other queues) *)
Theorem C06_basket_lin_no_invention :
  forall cf fuel ths c, Conc.reach (Basket.init_cfg cf fuel ths) c ->
    forall i v, deq_returns (hist (Conc.trace c)) i (Some v) -> enqueued (hist (Conc.trace c)) v.
Proof. exact BasketLinProofs.basket_lin_no_invention. Qed.
Print Assumptions C06_basket_lin_no_invention.

(** "each enqueued item is dequeued at most once" *)
Theorem C06_basket_at_most_once :
  forall cf fuel ths c, Conc.reach (Basket.init_cfg cf fuel ths) c ->
    distinct_enqueues (hist (Conc.trace c)) ->
    forall i1 i2 v, deq_returns (hist (Conc.trace c)) i1 (Some v) ->
                    deq_returns (hist (Conc.trace c)) i2 (Some v) -> i1 = i2.
Proof. exact BasketLinProofs.basket_at_most_once. Qed.
Print Assumptions C06_basket_at_most_once.

(** "dequeue reports empty only if the queue was empty at some instant during the call" *)
Theorem C06_basket_empty_only_if_empty :
  forall cf fuel ths c, Conc.reach (Basket.init_cfg cf fuel ths) c ->
    exists lin, linearization Fifo (hist (Conc.trace c)) lin /\
      forall i, deq_returns (hist (Conc.trace c)) i None ->
        exists l1 a l2, lin = l1 ++ a :: l2 /\ l_inv a = i /\
          @final Fifo (sinit Fifo) (map (fun a : lop Fifo => (l_op a, l_res a)) l1) = [].
Proof. exact BasketLinProofs.basket_empty_only_if_empty. Qed.
Print Assumptions C06_basket_empty_only_if_empty.

(** Non-vacuity, on the schedule that makes the hindsight linearization necessary: thread 2 dequeues from the
    empty queue; threads 0 and 1 both see tail->next == null; thread 0 links its node (value 10, node 1),
    thread 1 fails, re-checks tail and t->next in try_again; thread 0 swings tail and RETURNS; only then thread 1
    performs its basket CAS, which puts its node (value 20, node 2) BEFORE node 1: the chain is 0 -> 2 -> 1 and the
    dequeues return 20 before 10, although enq(10) returned before enq(20) took effect.  The history is
    linearizable (enq 20 was invoked before enq 10 returned), as the theorem says. *)
Definition ex_ths : list (list Basket.op) :=
  [[Basket.OEnq 10]; [Basket.OEnq 20; Basket.ODeq; Basket.ODeq]; [Basket.ODeq]].
Definition ex_sched : list nat :=
  (repeat 2 17 ++ repeat 0 8 ++ repeat 1 8 ++ [0] ++ repeat 1 8 ++ repeat 0 4 ++ repeat 1 200)%nat.
Definition ex_cfg := Basket.init_cfg (Basket.mkConf true true) 100 ex_ths.

Example C06_basket_lin_nonvacuous :
  let r := Conc.run 4000 0 ex_sched ex_cfg in
  snd r = true /\
  Conc.reach ex_cfg (fst r) /\
  hist (Conc.trace (fst r)) =
    [@HInv Fifo 2 Deq; @HRes Fifo 2 (RVal None); @HInv Fifo 0 (Enq 10); @HInv Fifo 1 (Enq 20);
     @HRes Fifo 0 (RBool true); @HRes Fifo 1 (RBool true);
     @HInv Fifo 1 Deq; @HRes Fifo 1 (RVal (Some 20)); @HInv Fifo 1 Deq; @HRes Fifo 1 (RVal (Some 10))] /\
  Basket.nxt (Conc.shared (fst r)) 0 = (Some 2%nat, true) /\
  Basket.nxt (Conc.shared (fst r)) 2 = (Some 1%nat, true) /\
  Basket.nxt (Conc.shared (fst r)) 1 = (None, false) /\
  lincheck Fifo (hist (Conc.trace (fst r))) = true /\
  linearizable Fifo (hist (Conc.trace (fst r))).
Proof.
  cbv zeta. split; [vm_compute; reflexivity|]. split; [apply Conc.run_reach|].
  split; [vm_compute; reflexivity|]. split; [vm_compute; reflexivity|]. split; [vm_compute; reflexivity|].
  split; [vm_compute; reflexivity|]. split; [vm_compute; reflexivity|].
  apply (C06_basket_linearizable (Basket.mkConf true true) 100 ex_ths). apply Conc.run_reach.
Qed.
