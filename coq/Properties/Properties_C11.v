(** placeholder while the proofs are being written *)
From Coq Require Import ZArith List String.
From LV Require Import Base.Conc Base.Events Model.MsPq.
Import ListNotations.
Local Open Scope Z_scope.
Example C11_placeholder :
  snd (MsPq.run_case [3; 50; 50] [[[1;5;1];[2]]; [[1;7;2]]] [0;1;0;1]%nat 1000) = true.
Proof. vm_compute. reflexivity. Qed.
