(** Property C11 -- "FCPriorityQueue is linearizable to a sequential max-priority queue.  MSPriorityQueue never
    loses or duplicates an item, push fails only when capacity items are present, and every history in which no
    push overlaps a pop is linearizable to a bounded max-priority queue."

    Only statements here; proofs live in LV.Proofs.MsPq*.  The model is LV.Model.MsPq (one [Act] per atomic access
    of cds::intrusive::MSPriorityQueue, tied to the real code by step correspondence, checks/C11.py).

    [slots_ok cap] / [shape_ok cap] are BOOLEAN facts about cds::bitop::bit_reverse_counter for the capacity at
    hand (every slot 1 <= slot n <= cap, slots distinct, dec undoes inc, occupied cells form a tree), evaluated by
    computation: see [C11_mspq_capacities] (true for cap + 1 = 2^k, the only capacities buffers with Exp2 = true
    can have) and [C11_mspq_unsafe_capacities] (false for 5, 9..13: the code does not reject them).

    The FCPriorityQueue half (first sentence of C11) is cited from LV.Proofs.FcContainers (flat-combining work) at
    the end of this file: [C11_fcpq_linearizable_partial]. *)
From Coq Require Import ZArith List String Permutation.
From LV Require Import Base.Conc Base.Events Base.Lin Spec.Specs Model.MsPq
  Proofs.MsPqBrc Proofs.MsPqInv Proofs.MsPqProofs Proofs.MsPqHeap Proofs.MsPqSeq Proofs.MsPqPhase Proofs.MsPqBounds Proofs.MsPqPush.
From LV Require Import Proofs.MsPqBrcGen Proofs.MsPqBrcAll Proofs.MsPqReal Proofs.MsPqPushLin Proofs.MsPqPop Proofs.MsPqStack.
Require LV.Model.FcKernel LV.Model.FcBatch LV.Proofs.FcBatchProofs LV.Proofs.FcKernelProofs LV.Proofs.FcContainers.
Import ListNotations.
Local Open Scope Z_scope.
Local Open Scope string_scope.

(** ** never loses or duplicates an item -- every schedule, any number of threads, any programs, any fuels.
    [heap_items cap g] = the items stored in the cells 1..cap; [invoked tr] = the items of the pushes invoked so
    far; [given_back tr] = the items handed back to clients (returned by a pop, or refused by a failed push);
    [held] = the items operations in progress carry between heap and client: at most one per thread, and only
    threads with an operation in progress ([pend]) have one. *)
Theorem C11_mspq_conservation :
  forall cap, slots_ok cap = true ->
  forall bsz, (cap < bsz)%nat ->
  forall (hf lf : nat) (ths : list (list MsPq.op)) c,
    Conc.reach (MsPq.init_cfg cap bsz hf lf ths) c ->
    exists held : list (nat * item),
      NoDup (map fst held) /\
      (forall t x, In (t, x) held -> pend (Conc.trace c) t = true) /\
      Permutation (heap_items cap (Conc.shared c) ++ map snd held ++ given_back (Conc.trace c))
                  (invoked (Conc.trace c)).
Proof. exact mspq_conservation. Qed.
Print Assumptions C11_mspq_conservation.

(** at quiescence: cells + popped + refused = pushed, as multisets *)
Theorem C11_mspq_conservation_quiescent :
  forall cap, slots_ok cap = true ->
  forall bsz, (cap < bsz)%nat ->
  forall (hf lf : nat) (ths : list (list MsPq.op)) c,
    Conc.reach (MsPq.init_cfg cap bsz hf lf ths) c ->
    (forall t, pend (Conc.trace c) t = false) ->
    Permutation (heap_items cap (Conc.shared c) ++ given_back (Conc.trace c)) (invoked (Conc.trace c)).
Proof. exact mspq_conservation_quiescent. Qed.
Print Assumptions C11_mspq_conservation_quiescent.

(** no duplication: distinct pushed items are never in two places (two cells, a cell and a result, two results) *)
Theorem C11_mspq_no_duplicates :
  forall cap, slots_ok cap = true ->
  forall bsz, (cap < bsz)%nat ->
  forall (hf lf : nat) (ths : list (list MsPq.op)) c,
    Conc.reach (MsPq.init_cfg cap bsz hf lf ths) c -> NoDup (invoked (Conc.trace c)) ->
    NoDup (heap_items cap (Conc.shared c) ++ given_back (Conc.trace c)).
Proof. exact mspq_no_duplicates. Qed.
Print Assumptions C11_mspq_no_duplicates.

(** ** push fails only when capacity items are present -- every schedule.
    The step that decides the failure (under m_Lock) emits the ghost event "g_full n k c" with n = the item
    counter and k = the number of occupied cells AT THAT INSTANT: [full_events_ok] says n = k = c = capacity for
    every such event, [fails_ok] that every push that returned false had emitted one (spelled out by
    [fails_ok_spec] / [just_true_inv] in LV.Proofs.MsPqProofs). *)
Theorem C11_mspq_push_fails_only_if_full :
  forall cap, slots_ok cap = true ->
  forall bsz, (cap < bsz)%nat ->
  forall (hf lf : nat) (ths : list (list MsPq.op)) c,
    Conc.reach (MsPq.init_cfg cap bsz hf lf ths) c ->
    full_events_ok cap (Conc.trace c) /\ fails_ok (Conc.trace c) = true.
Proof. exact mspq_push_fails_only_if_full. Qed.
Print Assumptions C11_mspq_push_fails_only_if_full.

(** ** single-thread executions refine the bounded max-priority queue, for ALL operation sequences (equal
    priorities included): the client-visible history of every reachable configuration, identities erased
    ([phist]), is a prefix of the history [spec_hist] computed by Specs.bpq_step from the empty queue. *)
Theorem C11_mspq_sequential_refines_pq :
  forall cap, slots_ok cap = true -> shape_ok cap = true ->
  forall bsz, (cap < bsz)%nat ->
  forall (hf lf : nat) (os : list MsPq.op) c,
    Conc.reach (MsPq.init_cfg cap bsz hf lf [os]) c ->
    exists fut, (phist (Conc.trace c) ++ fut)%list = spec_hist cap [] os.
Proof. exact mspq_sequential_refines. Qed.
Print Assumptions C11_mspq_sequential_refines_pq.

(** ** histories without push/pop overlap: the statement (NOT proved in general, see LV.Proofs.MsPqPhase for what
    is missing; decided per history on the implementation by the verified lincheck) and the proved part *)
Definition C11_mspq_phase_linearizable_statement : Prop := mspq_phase_linearizable_statement.

Theorem C11_mspq_phase_linearizable_partial :
  forall cap, slots_ok cap = true -> shape_ok cap = true ->
  forall bsz, (cap < bsz)%nat ->
  forall (hf lf : nat) (os : list MsPq.op) c,
    Conc.reach (MsPq.init_cfg cap bsz hf lf [os]) c ->
    linearizable (BPQueue cap) (hist_of cap (Conc.trace c)).
Proof. exact mspq_phase_linearizable_partial. Qed.
Print Assumptions C11_mspq_phase_linearizable_partial.

(** ** push-only phases (tag invariant of Hunt et al., LV.Proofs.MsPqPush): for EVERY schedule of any number of
    threads, as long as no pop has been invoked, whenever all pushes have returned the heap is a max-heap --
    [Good n h tg]: the cells in use are exactly the first n = m_ItemCounter slots, every cell in use is tagged
    Available and is not larger than its parent -- holding exactly the successfully pushed items.  (The invariant
    behind it, at every instant: a cell tagged with a thread id is the one that thread is bubbling, and an Available
    cell is not larger than any of its ancestors.)  The pop-phase counterpart for the heap is
    [C11_mspq_two_phase_heap] below, and [C11_mspq_two_phase_linearizable] is the linearizability of a push phase
    followed by a pop phase; histories with MORE than two phases ([C11_mspq_phase_linearizable_statement]) are not
    proved: see LV.Proofs.MsPqPhase. *)
Theorem C11_mspq_push_phase_heap :
  forall cap, slots_ok cap = true -> shape_ok cap = true ->
  forall bsz, (cap < bsz)%nat ->
  forall (hf lf : nat) (ths : list (list MsPq.op)) c,
    Conc.reach (MsPq.init_cfg cap bsz hf lf ths) c ->
    pop_invoked (Conc.trace c) = false -> (forall t, pend (Conc.trace c) t = false) ->
    Good (count (Conc.shared c)) (cellv (Conc.shared c)) (cellt (Conc.shared c)) /\
    Permutation (heap_items cap (Conc.shared c) ++ given_back (Conc.trace c)) (invoked (Conc.trace c)).
Proof. exact mspq_push_phase_heap. Qed.
Print Assumptions C11_mspq_push_phase_heap.

(** non-vacuity: three threads push concurrently into a heap of capacity 7; at the end the six cells in use are
    in heap order *)
Example C11_mspq_push_phase_nonvacuous :
  let r := Conc.run 3000 0 [0;1;2;2;1;0;0;0;1;2;1;1;2;0;2;2;1;0;1;2;0;0;1;2;2;2;1;1;0]%nat
             (MsPq.init_cfg 7 8 60 60 [[OPush (1, 1); OPush (5, 2)]; [OPush (3, 3); OPush (5, 4)]; [OPush (4, 5); OPush (2, 6)]]) in
  snd r = true /\ pop_invoked (Conc.trace (fst r)) = false /\ count (Conc.shared (fst r)) = 6%nat /\
  forallb (fun k => match cellv (Conc.shared (fst r)) k, cellv (Conc.shared (fst r)) (Nat.div2 k) with
                    | Some x, Some y => Z.leb (prio x) (prio y) | Some _, None => false | None, _ => true end)
          (seq 2 6) = true /\
  List.length (heap_items 7 (Conc.shared (fst r))) = 6%nat.
Proof. vm_compute. repeat split; reflexivity. Qed.

(** push-only phases are linearizable, for every schedule and EVERY capacity and buffer size (only the item counter
    matters): as long as no pop has been invoked, the trace annotated with the linearization points at the size-lock
    acquisitions (ghost events "g_inc" / "g_full") is a valid LP trace of BPQueue cap, hence the history is linearizable *)
Theorem C11_mspq_push_phase_linearizable :
  forall (cap bsz hf lf : nat) (ths : list (list MsPq.op)) c,
    Conc.reach (MsPq.init_cfg cap bsz hf lf ths) c -> pop_invoked (Conc.trace c) = false ->
    linearizable (BPQueue cap) (hist_of cap (Conc.trace c)).
Proof. exact mspq_push_phase_linearizable. Qed.
Print Assumptions C11_mspq_push_phase_linearizable.

(** a phase of concurrent pushes followed by a phase of concurrent pops, EVERY schedule: [twophase tr] says that no
    pop is invoked while a push is pending and no push is invoked after the first pop (nothing else is assumed: the
    pushes overlap each other arbitrarily, and so do the pops).  Whenever no operation is pending the heap is a
    max-heap again -- the cells in use are the first [count] slots, all tagged Available, every cell in use is not
    larger than its parent -- holding exactly the items pushed and not handed back.  Invariant of the pop phase
    (LV.Proofs.MsPqPop, [PopFacts]): a node lock has one holder and only the holder changes the cell; the "frontier"
    cells are the pParent cells of the pops inside heapify_after_pop, each locked by its pop; every cell in use is not
    larger than ANY of its ancestors that is not a frontier cell, and all its ancestors are in use. *)
Theorem C11_mspq_two_phase_heap :
  forall cap, slots_ok cap = true -> shape_ok cap = true ->
  forall bsz, (cap < bsz)%nat ->
  forall (hf lf : nat) (ths : list (list MsPq.op)) c,
    Conc.reach (MsPq.init_cfg cap bsz hf lf ths) c ->
    twophase (Conc.trace c) = true -> (forall t, pend (Conc.trace c) t = false) ->
    Good (count (Conc.shared c)) (cellv (Conc.shared c)) (cellt (Conc.shared c)) /\
    Permutation (heap_items cap (Conc.shared c) ++ given_back (Conc.trace c)) (invoked (Conc.trace c)).
Proof. exact mspq_two_phase_heap. Qed.
Print Assumptions C11_mspq_two_phase_heap.

(** ... and these runs are linearizable to the bounded max-priority queue: the trace annotated with the linearization
    points at the size-lock acquisitions (push: "g_inc" / "g_full", pop: "g_dec" / "g_emp") is a valid LP trace
    ([Lin.lp_valid]), i.e. every push is answered as the specification answers at that instant and every pop returns
    a maximum of the abstract multiset at the instant it takes m_Lock.  (LV.Proofs.MsPqPop [PL]: a linearized pop that
    has not exchanged the top item yet owes the specification its result; it holds m_Lock or the top lock; when it
    obtains the top lock the top cell is not a frontier cell, so it holds the maximum of the cells, which is the
    value owed.  LV.Proofs.MsPqStack: the specification state after the push phase is a permutation of the heap.) *)
Theorem C11_mspq_two_phase_linearizable :
  forall cap, slots_ok cap = true -> shape_ok cap = true ->
  forall bsz, (cap < bsz)%nat ->
  forall (hf lf : nat) (ths : list (list MsPq.op)) c,
    Conc.reach (MsPq.init_cfg cap bsz hf lf ths) c ->
    twophase (Conc.trace c) = true ->
    linearizable (BPQueue cap) (hist_of cap (Conc.trace c)).
Proof. exact mspq_two_phase_linearizable. Qed.
Print Assumptions C11_mspq_two_phase_linearizable.

(** non-vacuity: two threads push three items each, then two other threads pop concurrently (five pops); the
    discipline holds, a pop has been invoked, everything has returned, one item is left *)
Example C11_mspq_two_phase_nonvacuous :
  let r := Conc.run 6000 0 (List.app (repeat 0 80) (List.app (repeat 1 80) [2;3;3;2;2;2;3;3;2;3;2;3;3;3;2;2;3;2;3;2;2;3;3;2;3;2;2;3]))%nat
             (MsPq.init_cfg 7 8 60 60 [[OPush (1, 1); OPush (5, 2); OPush (7, 7)]; [OPush (3, 3); OPush (5, 4); OPush (2, 6)];
                                       [OPop; OPop]; [OPop; OPop; OPop]]) in
  snd r = true /\ twophase (Conc.trace (fst r)) = true /\ pop_invoked (Conc.trace (fst r)) = true /\
  count (Conc.shared (fst r)) = 1%nat /\ forallb (fun t => negb (pend (Conc.trace (fst r)) t)) [0; 1; 2; 3]%nat = true.
Proof. vm_compute. repeat split; reflexivity. Qed.

(** ** capacities *)
Theorem C11_mspq_capacities :
  forall k, (k <= 8)%nat -> slots_ok (2 ^ k - 1) = true /\ shape_ok (2 ^ k - 1) = true.
Proof. exact slots_ok_pow2. Qed.
Print Assumptions C11_mspq_capacities.

(** for those capacities no index ever leaves the buffer: the model marks m_Heap[i] with i >= m_Heap.capacity()
    by the event "ub_oob"; no reachable trace, under any schedule, contains it *)
Theorem C11_mspq_no_out_of_bounds :
  forall cap, slots_ok cap = true ->
  forall bsz, (cap < bsz)%nat ->
  forall (hf lf : nat) (ths : list (list MsPq.op)) c,
    Conc.reach (MsPq.init_cfg cap bsz hf lf ths) c ->
    forall te, In te (Conc.trace c) -> is_cli "ub_oob" (snd te) = false.
Proof. exact mspq_no_oob_event. Qed.
Print Assumptions C11_mspq_no_out_of_bounds.

(** capacities in 1..16 for which the counter produces a slot outside a buffer of capacity + 1 cells.  This was a
    genuine defect of the library (finding "mspq-non-power-of-two-buffer-overflow", confirmed under ASan with
    harness/C11/asan_cap5.cpp: a 6-cell buffer with Exp2 = false gave capacity() = 5 and the 5th push wrote to
    m_Heap[6]); repaired in /repo ("fix: MSPriorityQueue uses only complete heap levels of a non-power-of-two
    buffer": capacity() = floor2(buffer size) - 1, so cap + 1 = 2^k for every buffer and [slots_ok] holds by
    [C11_mspq_capacities]).  The theorem stays as the explanation of the old behaviour; checks/C11.py runs
    bounds-checked buffers of sizes 6, 10, 14, ... and the ASan program as regression. *)
Theorem C11_mspq_unsafe_capacities :
  filter (fun c => negb (slots_ok c)) (seq 1 16) = [5; 9; 10; 11; 12; 13]%nat.
Proof. exact unsafe_capacities_upto_16. Qed.
Print Assumptions C11_mspq_unsafe_capacities.

(** the model reaches the out-of-bounds access with capacity 5: the fifth push uses m_Heap[6] of a 6-cell buffer *)
Example C11_mspq_capacity5_out_of_bounds :
  let r := MsPq.run_case [5; 50; 50] [[[1;1;1]; [1;1;2]; [1;1;3]; [1;1;4]; [1;1;5]]] [] 2000 in
  existsb (is_cli "ub_oob") (map snd (fst r)) = true /\
  map MsPqBrc.slot (seq 1 5) = [1; 2; 3; 4; 6]%nat.
Proof. vm_compute. split; reflexivity. Qed.

(** ** non-vacuity *)

(** a concurrent run (2 threads, capacity 3) in which pushes and pops interleave: it finishes, four items are
    invoked, two are handed back, two remain in the heap *)
Example C11_mspq_conservation_nonvacuous :
  slots_ok 3 = true /\
  let r := Conc.run 2000 0 [0;1;0;1;1;0;0;1;1;1;0]%nat
             (MsPq.init_cfg 3 4 50 50 [[OPush (5, 1); OPush (7, 2); OPop]; [OPush (7, 3); OPop; OPush (1, 4)]]) in
  snd r = true /\
  List.length (invoked (Conc.trace (fst r))) = 4%nat /\
  List.length (given_back (Conc.trace (fst r))) = 2%nat /\
  List.length (heap_items 3 (Conc.shared (fst r))) = 2%nat.
Proof. vm_compute. repeat split; reflexivity. Qed.

(** a run with capacity 1 in which a push does fail: the ghost event carries 1 1 1 *)
Example C11_mspq_full_nonvacuous :
  let r := MsPq.run_case [1; 50; 50] [[[1;5;1]; [1;7;2]]] [] 2000 in
  snd r = true /\
  filter (is_cli "g_full") (map snd (fst r)) = [EvCli "g_full" [1; 1; 1]] /\
  filter is_fail (fst r) = [(0%nat, EvCli "ret_push" [0; 7; 2])].
Proof. vm_compute. repeat split; reflexivity. Qed.

(** a sequential run with equal priorities whose whole history is the specification's *)
Example C11_mspq_sequential_nonvacuous :
  let os := [OPush (2, 1); OPush (2, 2); OPush (1, 3); OPush (3, 4); OPop; OPop; OPop; OPop; OPop] in
  let r := Conc.run 5000 0 [] (MsPq.init_cfg 3 4 50 50 [os]) in
  slots_ok 3 = true /\ shape_ok 3 = true /\ snd r = true /\
  phist (Conc.trace (fst r)) = spec_hist 3 [] os /\
  spec_hist 3 [] os = [[1;2]; [2;1]; [1;2]; [2;1]; [1;1]; [2;1]; [1;3]; [2;0]; [3]; [4;1;2]; [3]; [4;1;2]; [3]; [4;1;1]; [3]; [4;0;0]; [3]; [4;0;0]].
Proof. vm_compute. repeat split; reflexivity. Qed.

(** ** the capacities of the real code: capacity() = floor2(buffer size) - 1 = 2^k - 1 ([rcap k]); buffer size [bsz]
    is any number above it (cells capacity()+1 .. bsz-1 are the unused tail of a buffer whose size is not a power of two).
    The counter facts hold for EVERY such capacity below 2^61 -- no bounded sweep: they are derived from the closed
    form of C26 through the equality of the model's counter with the generated translation of
    cds/details/bit_reverse_counter.h. *)
Theorem C11_mspq_counter_is_generated_inc :
  forall (fuel : nat) (s : MsPq.brc), (65 <= fuel)%nat -> representable s ->
    Gen_brc.brc_inc fuel (to_gen s) = Some (fst (MsPq.brc_inc s), to_gen (snd (MsPq.brc_inc s))).
Proof. exact brc_inc_is_generated. Qed.
Print Assumptions C11_mspq_counter_is_generated_inc.

Theorem C11_mspq_counter_is_generated_dec :
  forall (fuel : nat) (s : MsPq.brc), (65 <= fuel)%nat -> 1 <= bc s < 2 ^ 64 -> 0 <= br s < 2 ^ 64 -> 0 <= bh s < 64 ->
    Gen_brc.brc_dec fuel (to_gen s) = Some (fst (MsPq.brc_dec s), to_gen (snd (MsPq.brc_dec s))).
Proof. exact brc_dec_is_generated. Qed.
Print Assumptions C11_mspq_counter_is_generated_dec.

Theorem C11_mspq_real_capacities :
  forall k, (k <= 61)%nat -> slots_ok (rcap k) = true /\ shape_ok (rcap k) = true.
Proof. exact real_capacities. Qed.
Print Assumptions C11_mspq_real_capacities.

Theorem C11_mspq_conservation_real :
  forall (k bsz hf lf : nat) (ths : list (list MsPq.op)) c,
    (k <= 61)%nat -> (rcap k < bsz)%nat -> Conc.reach (MsPq.init_cfg (rcap k) bsz hf lf ths) c ->
    exists held : list (nat * item),
      NoDup (map fst held) /\ (forall t x, In (t, x) held -> pend (Conc.trace c) t = true) /\
      Permutation (heap_items (rcap k) (Conc.shared c) ++ map snd held ++ given_back (Conc.trace c)) (invoked (Conc.trace c)).
Proof. exact mspq_conservation_real. Qed.
Print Assumptions C11_mspq_conservation_real.

Theorem C11_mspq_push_fails_only_if_full_real :
  forall (k bsz hf lf : nat) (ths : list (list MsPq.op)) c,
    (k <= 61)%nat -> (rcap k < bsz)%nat -> Conc.reach (MsPq.init_cfg (rcap k) bsz hf lf ths) c ->
    full_events_ok (rcap k) (Conc.trace c) /\ fails_ok (Conc.trace c) = true.
Proof. exact mspq_push_fails_only_if_full_real. Qed.
Print Assumptions C11_mspq_push_fails_only_if_full_real.

Theorem C11_mspq_no_out_of_bounds_real :
  forall (k bsz hf lf : nat) (ths : list (list MsPq.op)) c,
    (k <= 61)%nat -> (rcap k < bsz)%nat -> Conc.reach (MsPq.init_cfg (rcap k) bsz hf lf ths) c ->
    forall te, In te (Conc.trace c) -> is_cli "ub_oob" (snd te) = false.
Proof. exact mspq_no_oob_real. Qed.
Print Assumptions C11_mspq_no_out_of_bounds_real.

Theorem C11_mspq_sequential_real :
  forall (k bsz hf lf : nat) (os : list MsPq.op) c,
    (k <= 61)%nat -> (rcap k < bsz)%nat -> Conc.reach (MsPq.init_cfg (rcap k) bsz hf lf [os]) c ->
    (exists fut, (phist (Conc.trace c) ++ fut)%list = spec_hist (rcap k) [] os) /\
    linearizable (BPQueue (rcap k)) (hist_of (rcap k) (Conc.trace c)).
Proof. exact mspq_sequential_real. Qed.
Print Assumptions C11_mspq_sequential_real.

Theorem C11_mspq_push_phase_real :
  forall (k bsz hf lf : nat) (ths : list (list MsPq.op)) c,
    (k <= 61)%nat -> (rcap k < bsz)%nat -> Conc.reach (MsPq.init_cfg (rcap k) bsz hf lf ths) c ->
    pop_invoked (Conc.trace c) = false -> (forall t, pend (Conc.trace c) t = false) ->
    Good (count (Conc.shared c)) (cellv (Conc.shared c)) (cellt (Conc.shared c)) /\
    Permutation (heap_items (rcap k) (Conc.shared c) ++ given_back (Conc.trace c)) (invoked (Conc.trace c)).
Proof. exact mspq_push_phase_real. Qed.
Print Assumptions C11_mspq_push_phase_real.

Theorem C11_mspq_two_phase_real :
  forall (k bsz hf lf : nat) (ths : list (list MsPq.op)) c,
    (k <= 61)%nat -> (rcap k < bsz)%nat -> Conc.reach (MsPq.init_cfg (rcap k) bsz hf lf ths) c ->
    twophase (Conc.trace c) = true -> (forall t, pend (Conc.trace c) t = false) ->
    Good (count (Conc.shared c)) (cellv (Conc.shared c)) (cellt (Conc.shared c)) /\
    Permutation (heap_items (rcap k) (Conc.shared c) ++ given_back (Conc.trace c)) (invoked (Conc.trace c)).
Proof. exact mspq_two_phase_real. Qed.
Print Assumptions C11_mspq_two_phase_real.

Theorem C11_mspq_two_phase_linearizable_real :
  forall (k bsz hf lf : nat) (ths : list (list MsPq.op)) c,
    (k <= 61)%nat -> (rcap k < bsz)%nat -> Conc.reach (MsPq.init_cfg (rcap k) bsz hf lf ths) c ->
    twophase (Conc.trace c) = true -> linearizable (BPQueue (rcap k)) (hist_of (rcap k) (Conc.trace c)).
Proof. exact mspq_two_phase_linearizable_real. Qed.
Print Assumptions C11_mspq_two_phase_linearizable_real.

(** ** FCPriorityQueue (model LV.Model.FcKernel + FcBatch, proofs LV.Proofs.FcContainers -- flat-combining work).
    For every schedule, any number of threads, compact factor and combine pass count: on traces without the
    model's "lost" event the history of the FCPriorityQueue model is linearizable to the sequential max-priority
    queue Specs.PQueue (linearization point = execution by the combiner).  The hypothesis [has_lost = false] is the
    part the flat-combining work has not yet discharged. *)
Theorem C11_fcpq_linearizable_partial :
  forall (chk : bool) (fuel mask npass : nat) ths c,
    FcKernelProofs.ops_ok FcBatch.s_okop ths ->
    Conc.reach (FcContainers.pq_init_cfg chk fuel mask npass ths) c ->
    FcKernelProofs.has_lost (Conc.trace c) = false ->
    linearizable PQueue (FcContainers.fc_history PQueue FcBatch.res_dec FcBatch.s_dec (Conc.trace c)).
Proof. exact FcContainers.fcpq_linearizable_partA. Qed.
Print Assumptions C11_fcpq_linearizable_partial.

(** the unconditional form (no "lost" hypothesis; [chk = true] is the current code; [passes_ok]: every request is a
    batch request or the combine pass count is at least 1, see [FcContainers.passes_ok_pos]) *)
Theorem C11_fcpq_linearizable :
  forall (fuel mask npass : nat) ths c,
    FcKernelProofs.ops_ok FcBatch.s_okop ths -> FcContainers.passes_ok npass ths ->
    Conc.reach (FcContainers.pq_init_cfg true fuel mask npass ths) c ->
    linearizable PQueue (FcContainers.fc_history PQueue FcBatch.res_dec FcBatch.s_dec (Conc.trace c)).
Proof. exact FcContainers.fcpq_linearizable. Qed.
Print Assumptions C11_fcpq_linearizable.
