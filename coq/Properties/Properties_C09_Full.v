(** Property C09, extension — TreiberStack with ALL its public operations: push, pop, empty(), clear().
    Only statements here; proofs live in LV.Proofs.TreiberFullProofs, the model in LV.Model.TreiberFull (which
    re-uses the push / pop programs of LV.Model.Treiber unchanged and adds, access by access,
      empty() = one load of m_Top;
      clear() = loop { load m_Top; null -> return; CAS(m_Top, loaded, null) } then walk the detached chain:
                load m_pNext, clear_links, gc::retire<disposer> — NOT an exchange, and without a hazard pointer).

    [hist tr] reads the history off a trace: the events of LV.Proofs.TreiberProofs.hist plus "inv_empty" /
    "ret_empty b" / "inv_clear" / "ret_clear" -> HInv t XEmpty / HRes t (RBool b) / HInv t XClear / HRes t RUnit.
    [StackX] (LV.Model.TreiberFull) is the sequential LIFO stack with  XEmpty: (s, s = [])  and  XClear: ([], ()).
    Linearization points: push / non-empty pop: the successful CAS on m_Top; empty pop: the validating load that
    returned null; empty(): its load; clear(): its successful CAS, or its load when that returned null.

    "Handed to the disposer" = passed to gc::retire<disposer>, i.e. appended to the caller's retired array
    ([retired g t]); nodes are named (pushing thread, index of the push among that thread's operations).

    HYPOTHESES BUILT INTO THE MODEL (as for C09): smr_safe — a node is never allocated twice (what cds::gc::HP
    provides, C01); sequential consistency; compare_exchange_weak does not fail spuriously; the retired array
    never fills during a run (no scan).  *)
From Coq Require Import ZArith List String.
From LV Require Import Base.Conc Base.Events Base.Lin Spec.Specs Proofs.LinProofs.
From LV Require Import Model.Treiber Model.TreiberFull Proofs.TreiberFullProofs.
Import ListNotations.
Local Open Scope Z_scope.

Notation hist := TreiberFullProofs.hist.

(** ** linearizability of the full interface, for every number of threads, every client program of
       push / pop / empty / clear operations, every loop fuel and EVERY schedule *)
Theorem C09_full_lp_valid :
  forall (fuel : nat) (ths : list (list fop)) c,
    Conc.reach (finit_cfg fuel ths) c ->
    exists atr, lp_valid StackX atr /\ erase atr = hist (Conc.trace c).
Proof. exact treiberfull_lp_valid. Qed.
Print Assumptions C09_full_lp_valid.

Theorem C09_full_linearizable :
  forall (fuel : nat) (ths : list (list fop)) c,
    Conc.reach (finit_cfg fuel ths) c ->
    linearizable StackX (hist (Conc.trace c)).
Proof. exact treiberfull_linearizable. Qed.
Print Assumptions C09_full_linearizable.

(** ** disposal, AT MOST ONCE: at every reachable configuration no node occurs twice in the retired arrays (of one
       thread or of two: neither pop nor clear, nor a pop and a clear, hand the same node to the disposer twice),
       and no retired node is still reachable from m_Top; the m_pNext chain from m_Top is finite, null-terminated
       and duplicate free *)
Theorem C09_full_retire_at_most_once :
  forall (fuel : nat) (ths : list (list fop)) c,
    Conc.reach (finit_cfg fuel ths) c ->
    let g := Conc.shared c in
    exists l, chain (next g) (top g) l /\ NoDup l /\
      (forall t, NoDup (retired g t)) /\
      (forall t u n, t <> u -> In n (retired g t) -> ~ In n (retired g u)) /\
      (forall t n, In n (retired g t) -> ~ In n l).
Proof. exact treiberfull_retire_once. Qed.
Print Assumptions C09_full_retire_at_most_once.

(** ** disposal, AT LEAST ONCE (conservation): if the k-th operation of thread t's program is a push that has
       returned ([nres t h] = number of responses of t in the history), its node (t,k) is in the chain from m_Top
       or in some thread's retired array — unless some thread is inside an operation (has an invocation without
       response).  So whenever no operation is in progress, every node ever pushed is either still in the stack or
       has been handed to the disposer, and by the theorem above exactly once: clear() (and pop) lose nothing. *)
Theorem C09_full_conservation :
  forall (fuel : nat) (ths : list (list fop)) c,
    Conc.reach (finit_cfg fuel ths) c ->
    let g := Conc.shared c in
    let h := hist (Conc.trace c) in
    exists l, chain (next g) (top g) l /\
      forall t k v, nth_error (nth t ths []) k = Some (FPush v) -> (k < nres t h)%nat ->
        In (t, k) l \/ (exists u, In (t, k) (retired g u)) \/ (exists u, ninv u h <> nres u h).
Proof. exact treiberfull_conservation. Qed.
Print Assumptions C09_full_conservation.

(** ** clear(), with the proof's ghost bookkeeping visible: [clrd] / [popd] are the nodes detached so far by a
       clear CAS / a pop CAS, [own u] the nodes thread u has detached and not yet retired.  Every node detached by
       clear is in a retired array or still owned by a thread inside its clear(); no node is detached both by a
       clear and by a pop (an item removed by clear is never returned by a pop); detached nodes are not in the
       stack; owners are unique; a thread between operations owns nothing. *)
Theorem C09_full_clear_disposal :
  forall (fuel : nat) (ths : list (list fop)) c,
    Conc.reach (finit_cfg fuel ths) c ->
    let g := Conc.shared c in
    let h := hist (Conc.trace c) in
    exists (l popd clrd : list node) (own : nat -> list node),
      chain (next g) (top g) l /\
      (forall n, In n clrd -> exists t, In n (retired g t) \/ In n (own t)) /\
      (forall n, In n l -> ~ In n popd /\ ~ In n clrd) /\
      (forall n, In n popd -> ~ In n clrd) /\
      (forall t n, In n (retired g t) -> ~ In n l /\ forall u, ~ In n (own u)) /\
      (forall t u n, t <> u -> In n (own t) -> ~ In n (own u)) /\
      (forall u, ninv u h = nres u h -> own u = []).
Proof. exact treiberfull_clear_disposal. Qed.
Print Assumptions C09_full_clear_disposal.

(** ** non-vacuity: three threads, clear() racing with pushes, pops and empty(); the run is a [Conc.reach]
       (Conc.run_reach), every operation returns, two nodes are retired by the clear of thread 0, the node pushed
       after the clear is the top, and the history is accepted by the verified checker *)
Definition ex_ths : list (list fop) :=
  [[FPush 1; FPush 2; FClear; FEmpty]; [FPop; FPush 3; FEmpty]; [FEmpty; FClear; FPop]].
Definition ex_cfg := fst (Conc.run 400 0 [] (finit_cfg 50 ex_ths)).

Example C09_full_example_reach : Conc.reach (finit_cfg 50 ex_ths) ex_cfg.
Proof. apply Conc.run_reach. Qed.

Example C09_full_example_run :
  snd (Conc.run 400 0 [] (finit_cfg 50 ex_ths)) = true /\
  map (retired (Conc.shared ex_cfg)) [0; 1; 2]%nat = [[(0, 0); (0, 1)]; []; []]%nat /\
  top (Conc.shared ex_cfg) = Some (1, 1)%nat /\
  lincheck StackX (hist (Conc.trace ex_cfg)) = true /\
  existsb (fun e : hev StackX => match e with
                                 | HRes 1%nat r => res_beq r (RBool false)
                                 | _ => false
                                 end) (hist (Conc.trace ex_cfg)) = true.
Proof. vm_compute. repeat split. Qed.

(** the specification separates empty stacks from non-empty ones and clear really empties *)
Example C09_full_spec_example :
  snd (stackx_step [] XEmpty) = RBool true /\ snd (stackx_step [5] XEmpty) = RBool false /\
  fst (stackx_step [5; 6] XClear) = [] /\ snd (stackx_step (fst (stackx_step [5; 6] XClear)) XPop) = RVal None.
Proof. repeat split. Qed.

(** a history in which a pop returns an item after a clear that removed it is NOT linearizable to StackX
    (so C09_full_linearizable does exclude "returned by a pop after being cleared") *)
Example C09_full_spec_rejects :
  lincheck StackX [@HInv StackX 0%nat (XPush 7); @HRes StackX 0%nat (RBool true);
                   @HInv StackX 0%nat XClear; @HRes StackX 0%nat RUnit;
                   @HInv StackX 1%nat XPop; @HRes StackX 1%nat (RVal (Some 7))] = false.
Proof. vm_compute. reflexivity. Qed.
