(** Property C15, SkipListSet part — linearizability of the FULL client history of the step-grain model of
    cds::intrusive::SkipListSet<HP> (Model/SkipList.v), for every schedule.  Only statements here; the proofs are in
    LV.Proofs.SkipListFull{Inv,Acts,Acts2,Mono,Find,Proofs,Thm}.v (Owicki–Gries invariant over the LP-annotated trace).

    Any number (<= 63: node ids carry the thread number modulo 64) of threads, any client programs of insert / erase /
    contains (tower heights 1..3, inserted keys 0..7), any pre-filled state, EVERY sequence of thread choices
    ([Conc.reach]): the complete invoke/response history of the trace — every operation with the value it returned,
    i.e. also contains -> true/false, insert -> false, erase -> false — is linearizable w.r.t. the sequential set.

    Linearization points:  insert -> true   the level-0 link CAS of insert_at_position;
                           erase  -> true   the level-0 mark CAS of try_remove_at;
                           insert -> false, contains -> true
                                            a load (find_position / find_fastpath) of a cell, at ANY level l, of a node with
                                            the key that yields an unmarked value: l < height of the node and towers are
                                            marked top-down, so the node is not logically deleted at that instant;
                           contains -> false, erase -> false (key not found)
                                            a level-0 load of the cell of a node with a smaller key (or of the head) that yields
                                            an unmarked pointer to null or to a larger key (the level-0 list is strictly sorted);
                           erase -> false because the node found was marked by ANOTHER thread before the own mark CAS
                                            (try_remove_at returns false): the instant right after the other thread's mark
                                            CAS — a helping linearization point, placed by the marking thread.
    [exhausted]: a thread whose retry loop ran out of the model's loop fuel abandons its operation ("outoffuel" event);
    nothing is claimed about such traces. *)
From Coq Require Import String ZArith List Bool.
From LV Require Import Base.Lin Base.Conc Base.Events Spec.Specs Proofs.LinProofs Model.SkipList Proofs.SkipListProofs
  Proofs.SkipListLin Proofs.SkipListFullInv Proofs.SkipListFullThm Proofs.SkipListFullExt2 Proofs.SkipListFullRefute.
Import ListNotations.
Local Open Scope Z_scope.

Theorem C15_skip_full_history_linearizable :
  forall (fuel : nat) (nodes : list (nat * nat)) (ths : list (list SkipList.op)) c,
    nodes_ok nodes -> Forall (Forall SkipListLin.op_ok') ths -> (length ths <= 63)%nat ->
    Conc.reach (SkipList.init_cfg fuel nodes ths) c -> ~ SkipListLin.exhausted (Conc.trace c) ->
    linearizable SetSpec (client_history nodes (Conc.trace c)).
Proof. exact skip_full_history_linearizable. Qed.
Print Assumptions C15_skip_full_history_linearizable.

(** the abstraction: at every reachable state there is a valid LP-annotated trace whose erasure is the FULL client
    history and whose abstract set is exactly the set of keys of the unmarked nodes of the level-0 chain *)
Theorem C15_skip_full_abstraction :
  forall (fuel : nat) (nodes : list (nat * nat)) (ths : list (list SkipList.op)) c,
    nodes_ok nodes -> Forall (Forall SkipListLin.op_ok') ths -> (length ths <= 63)%nat ->
    Conc.reach (SkipList.init_cfg fuel nodes ths) c -> ~ SkipListLin.exhausted (Conc.trace c) ->
    exists L atr S st,
      SkipListLin.walk (Conc.shared c) head L /\ lp_run lp_init atr = Some (S, st) /\
      erase atr = client_history nodes (Conc.trace c) /\
      (forall k, zmem k S = true <-> exists n, In n L /\ snd (nxt (Conc.shared c) n 0) = false /\ key_of n = k).
Proof. exact skip_full_abstraction. Qed.
Print Assumptions C15_skip_full_abstraction.

(** towers, at every reachable state (also after an out-of-fuel event): a link at level l points to a node of height > l,
    and a logically deleted node (level-0 cell marked) of the level-0 list has ALL its upper cells marked — the reason why
    find_position may stop at an upper level on a node whose cell of that level is unmarked *)
Theorem C15_skip_towers :
  forall (fuel : nat) (nodes : list (nat * nat)) (ths : list (list SkipList.op)) c,
    nodes_ok nodes -> Forall (Forall SkipListLin.op_ok') ths -> (length ths <= 63)%nat ->
    Conc.reach (SkipList.init_cfg fuel nodes ths) c ->
    (forall p l, fst (nxt (Conc.shared c) p l) = null \/ (l < hgt_of (Conc.shared c) (fst (nxt (Conc.shared c) p l)))%nat) /\
    (forall q n l, In q (chain (Conc.shared c) 0 head n) -> snd (nxt (Conc.shared c) q 0) = true ->
       (1 <= l < hgt_of (Conc.shared c) q)%nat -> snd (nxt (Conc.shared c) q l) = true).
Proof. exact skip_towers. Qed.
Print Assumptions C15_skip_towers.

(** the runs executed by the step-correspondence check satisfy the hypotheses (both side conditions are decidable) *)
Theorem C15_skip_run_case_full_linearizable :
  forall (cfg : list Z) (ths : list (list (list Z))) (sched : list nat) (fuel : nat),
    forallb (fun os => forallb SkipListLin.noext os) (map decode_ops ths) = true -> (length ths <= 63)%nat ->
    SkipListLin.exhaustedb (fst (SkipList.run_case cfg ths sched fuel)) = false ->
    linearizable SetSpec (client_history (prefill_nodes cfg) (fst (SkipList.run_case cfg ths sched fuel))).
Proof. exact run_case_full_linearizable. Qed.
Print Assumptions C15_skip_run_case_full_linearizable.

(** non-vacuity: a contended run (3 threads inserting / erasing / looking up keys 0..2 over a pre-filled key 0 with a
    tower of height 2, round-robin) satisfies the hypotheses, has failed CASes, its client history contains insert -> false,
    erase -> false, contains -> true and contains -> false, and the verified checker accepts it *)
Example C15_skip_full_history_nonvacuous :
  let cfg := [1; 1; 0; 0; 0] in
  let ths := [[[1;1;2]; [6;0]; [10;1]]; [[6;0]; [1;0;0]; [6;1]]; [[1;1;1]; [10;0]; [6;1]]] in
  let r := SkipList.run_case cfg ths [] 6000 in
  snd r = true /\
  forallb (fun os => forallb SkipListLin.noext os) (map decode_ops ths) = true /\
  SkipListLin.exhaustedb (fst r) = false /\
  existsb (fun e => match snd e with EvAcc KCas _ false => true | _ => false end) (fst r) = true /\
  existsb (fun e : hev SetSpec => match e with HRes _ r => res_beq r (RBool false) | _ => false end) (client_history (prefill_nodes cfg) (fst r)) = true /\
  length (client_history (prefill_nodes cfg) (fst r)) = 20%nat /\
  lincheck SetSpec (client_history (prefill_nodes cfg) (fst r)) = true.
Proof. vm_compute. repeat split; auto. Qed.


(** * extract_min / extract_max  (Proofs/SkipListFullExt.v, SkipListFullExt2.v)

    Programs of ALL five operations.  [client_history] presents extract_min / extract_max -> k as "erase k -> true"
    (the property's clause "any key they return was present") and -> empty as a strict extract on the empty set ("an empty
    result only if the container was empty at some instant during the call"; Properties_C15: C15_extract_min_spec_clauses).
    Linearization points: extract -> k   the level-0 mark CAS of try_remove_at (the loop retries when somebody else marked
                                         the victim first: nothing is linearized by a failed attempt);
                          extract -> empty  the level-0 load of the head's cell (find_min_position / find_max_position) that
                                         returned null: the level-0 list is empty at that instant.
    [ext_quiet]: no extract_min / extract_max is pending in the trace (decidable: [ext_quietb]).  The side condition is
    necessary for THIS presentation of the history, see C15_skip_full_history_statement_refuted below. *)
Theorem C15_skip_full_history_linearizable_with_extract :
  forall (fuel : nat) (nodes : list (nat * nat)) (ths : list (list SkipList.op)) c,
    nodes_ok nodes -> Forall (Forall op_ok) ths -> (length ths <= 63)%nat ->
    Conc.reach (SkipList.init_cfg fuel nodes ths) c -> ~ SkipListLin.exhausted (Conc.trace c) -> ext_quiet (Conc.trace c) ->
    linearizable SetSpec (client_history nodes (Conc.trace c)).
Proof. exact skip_full_history_linearizable_ext. Qed.
Print Assumptions C15_skip_full_history_linearizable_with_extract.

(** without the side condition, for EVERY reachable configuration: the history in which a pending extract that has already
    marked its victim k is presented as the pending "erase k" it will turn out to be — [history_h tg]: [history_of] with
    the hint [tg t] = (1, k) as the future response of t's open extract; [history_h (fun _ => (0, 0)) = history_of] — is
    linearizable *)
Theorem C15_skip_full_history_linearizable_every_state :
  forall (fuel : nat) (nodes : list (nat * nat)) (ths : list (list SkipList.op)) c,
    nodes_ok nodes -> Forall (Forall op_ok) ths -> (length ths <= 63)%nat ->
    Conc.reach (SkipList.init_cfg fuel nodes ths) c -> ~ SkipListLin.exhausted (Conc.trace c) ->
    exists tg : hint,
      linearizable SetSpec (prefill_history nodes ++ history_h tg (fun _ => 0) (Conc.trace c)) /\
      (forall t, tg t = (0, 0) \/ exists k, tg t = (1, k) /\ (pinv t (Conc.trace c) = [(13, 0)] \/ pinv t (Conc.trace c) = [(14, 0)])).
Proof. exact skip_full_history_linearizable_hint. Qed.
Print Assumptions C15_skip_full_history_linearizable_every_state.

Theorem C15_history_h_is_history_of : forall tr pend, history_h (fun _ => (0, 0)) pend tr = history_of pend tr.
Proof. exact history_h_of. Qed.
Print Assumptions C15_history_h_is_history_of.

Theorem C15_ext_quietb_sound : forall tr, ext_quietb tr = true -> ext_quiet tr.
Proof. exact ext_quietb_spec. Qed.
Print Assumptions C15_ext_quietb_sound.

Theorem C15_skip_run_case_full_linearizable_with_extract :
  forall (cfg : list Z) (ths : list (list (list Z))) (sched : list nat) (fuel : nat),
    (length ths <= 63)%nat -> SkipListLin.exhaustedb (fst (SkipList.run_case cfg ths sched fuel)) = false ->
    ext_quietb (fst (SkipList.run_case cfg ths sched fuel)) = true ->
    linearizable SetSpec (client_history (prefill_nodes cfg) (fst (SkipList.run_case cfg ths sched fuel))).
Proof. exact run_case_full_linearizable_ext. Qed.
Print Assumptions C15_skip_run_case_full_linearizable_with_extract.

(** Properties_C15.skip_full_history_linearizable_statement (every reachable configuration, [client_history] as it is) is
    FALSE: [client_history] presents an extract_min whose response is not yet in the trace as a strict extract-min, also
    when the thread has already marked its victim.  Computed witness (Proofs/SkipListFullRefute.v): key 1 pre-filled;
    t0: extract_min locates node 1 | t1: insert 0 -> true ; contains 1 -> true | t0: level-0 mark CAS of node 1 (no response
    yet) | t1: contains 1 -> false.  This is a defect of the statement, not of the container: the same run continued until
    t0's response is accepted by the checker, and the two theorems above cover it. *)
Theorem C15_skip_full_history_statement_refuted :
  exists (fuel : nat) nodes ths c,
    nodes_ok nodes /\ Forall (Forall op_ok) ths /\ Conc.reach (SkipList.init_cfg fuel nodes ths) c /\
    ~ linearizable SetSpec (client_history nodes (Conc.trace c)).
Proof. exact skip_full_history_statement_refuted. Qed.
Print Assumptions C15_skip_full_history_statement_refuted.

(** towers and levels, programs of all five operations *)
Theorem C15_skip_towers_with_extract :
  forall (fuel : nat) (nodes : list (nat * nat)) (ths : list (list SkipList.op)) c,
    nodes_ok nodes -> Forall (Forall op_ok) ths -> (length ths <= 63)%nat ->
    Conc.reach (SkipList.init_cfg fuel nodes ths) c ->
    (forall p l, fst (nxt (Conc.shared c) p l) = null \/ (l < hgt_of (Conc.shared c) (fst (nxt (Conc.shared c) p l)))%nat) /\
    (forall q n l, In q (chain (Conc.shared c) 0 head n) -> snd (nxt (Conc.shared c) q 0) = true ->
       (1 <= l < hgt_of (Conc.shared c) q)%nat -> snd (nxt (Conc.shared c) q l) = true).
Proof. exact skip_towers_ext. Qed.
Print Assumptions C15_skip_towers_with_extract.

(** partial answer to Properties_C15.skip_levels_are_sublists_statement: a node on the list of ANY level l whose level-l cell is
    unmarked is not logically deleted and is on the level-0 list (every schedule, all five operations).  The statement for
    ADJACENT levels (level l+1 within level l) needs ghost chains for the upper levels and is still open. *)
Theorem C15_skip_levels_are_sublists_partial :
  forall (fuel : nat) nodes ths c (l n : nat) (q : ptr),
    nodes_ok nodes -> Forall (Forall op_ok) ths -> (length ths <= 63)%nat -> Conc.reach (SkipList.init_cfg fuel nodes ths) c ->
    In q (chain (Conc.shared c) l head n) -> snd (nxt (Conc.shared c) q l) = false ->
    snd (nxt (Conc.shared c) q 0) = false /\ exists m, In q (chain (Conc.shared c) 0 head m).
Proof. intros. eapply skip_unmarked_level_on_level0; eauto. Qed.
Print Assumptions C15_skip_levels_are_sublists_partial.

(** non-vacuity: a contended run with extract_min and extract_max (3 threads, round-robin, a CAS fails, a node is helped
    out) satisfies the hypotheses; its client history contains an extract presented as erase and is accepted *)
Example C15_skip_full_history_with_extract_nonvacuous :
  let cfg := [1; 1; 0; 0; 0] in
  let ths := [[[1;1;2]; [13]]; [[6;0]; [1;0;0]]; [[14]; [10;1]]] in
  let r := SkipList.run_case cfg ths [] 6000 in
  snd r = true /\ Nat.leb (length ths) 63 = true /\
  SkipListLin.exhaustedb (fst r) = false /\ ext_quietb (fst r) = true /\
  existsb (fun e => match snd e with EvAcc KCas _ false => true | _ => false end) (fst r) = true /\
  existsb (fun e => match snd e with EvCli n [a; b] => String.eqb n "inv"%string && (a =? 13) | _ => false end) (fst r) = true /\
  lincheck SetSpec (client_history (prefill_nodes cfg) (fst r)) = true.
Proof. vm_compute. repeat split; auto. Qed.
