(** Property C15, SkipListSet part — linearizability of the FULL client history of the step-grain model of
    cds::intrusive::SkipListSet<HP> (Model/SkipList.v), for every schedule.  Only statements here; the proofs are in
    LV.Proofs.SkipListFull{Inv,Acts,Acts2,Mono,Find,Proofs,Thm}.v (Owicki–Gries invariant over the LP-annotated trace).

    Any number (<= 63: node ids carry the thread number modulo 64) of threads, any client programs of insert / erase /
    contains (tower heights 1..3, inserted keys 0..7), any pre-filled state, EVERY sequence of thread choices
    ([Conc.reach]): the complete invoke/response history of the trace — every operation with the value it returned,
    i.e. also contains -> true/false, insert -> false, erase -> false — is linearizable w.r.t. the sequential set.

    Linearization points:  insert -> true   the level-0 link CAS of insert_at_position;
                           erase  -> true   the level-0 mark CAS of try_remove_at;
                           insert -> false, contains -> true
                                            a load (find_position / find_fastpath) of a cell, at ANY level l, of a node with
                                            the key that yields an unmarked value: l < height of the node and towers are
                                            marked top-down, so the node is not logically deleted at that instant;
                           contains -> false, erase -> false (key not found)
                                            a level-0 load of the cell of a node with a smaller key (or of the head) that yields
                                            an unmarked pointer to null or to a larger key (the level-0 list is strictly sorted);
                           erase -> false because the node found was marked by ANOTHER thread before the own mark CAS
                                            (try_remove_at returns false): the instant right after the other thread's mark
                                            CAS — a helping linearization point, placed by the marking thread.
    [exhausted]: a thread whose retry loop ran out of the model's loop fuel abandons its operation ("outoffuel" event);
    nothing is claimed about such traces. *)
From Coq Require Import ZArith List Bool.
From LV Require Import Base.Lin Base.Conc Base.Events Spec.Specs Proofs.LinProofs Model.SkipList Proofs.SkipListProofs
  Proofs.SkipListLin Proofs.SkipListFullThm.
Import ListNotations.
Local Open Scope Z_scope.

Theorem C15_skip_full_history_linearizable :
  forall (fuel : nat) (nodes : list (nat * nat)) (ths : list (list SkipList.op)) c,
    nodes_ok nodes -> Forall (Forall SkipListLin.op_ok') ths -> (length ths <= 63)%nat ->
    Conc.reach (SkipList.init_cfg fuel nodes ths) c -> ~ SkipListLin.exhausted (Conc.trace c) ->
    linearizable SetSpec (client_history nodes (Conc.trace c)).
Proof. exact skip_full_history_linearizable. Qed.
Print Assumptions C15_skip_full_history_linearizable.

(** the abstraction: at every reachable state there is a valid LP-annotated trace whose erasure is the FULL client
    history and whose abstract set is exactly the set of keys of the unmarked nodes of the level-0 chain *)
Theorem C15_skip_full_abstraction :
  forall (fuel : nat) (nodes : list (nat * nat)) (ths : list (list SkipList.op)) c,
    nodes_ok nodes -> Forall (Forall SkipListLin.op_ok') ths -> (length ths <= 63)%nat ->
    Conc.reach (SkipList.init_cfg fuel nodes ths) c -> ~ SkipListLin.exhausted (Conc.trace c) ->
    exists L atr S st,
      SkipListLin.walk (Conc.shared c) head L /\ lp_run lp_init atr = Some (S, st) /\
      erase atr = client_history nodes (Conc.trace c) /\
      (forall k, zmem k S = true <-> exists n, In n L /\ snd (nxt (Conc.shared c) n 0) = false /\ key_of n = k).
Proof. exact skip_full_abstraction. Qed.
Print Assumptions C15_skip_full_abstraction.

(** towers, at every reachable state (also after an out-of-fuel event): a link at level l points to a node of height > l,
    and a logically deleted node (level-0 cell marked) of the level-0 list has ALL its upper cells marked — the reason why
    find_position may stop at an upper level on a node whose cell of that level is unmarked *)
Theorem C15_skip_towers :
  forall (fuel : nat) (nodes : list (nat * nat)) (ths : list (list SkipList.op)) c,
    nodes_ok nodes -> Forall (Forall SkipListLin.op_ok') ths -> (length ths <= 63)%nat ->
    Conc.reach (SkipList.init_cfg fuel nodes ths) c ->
    (forall p l, fst (nxt (Conc.shared c) p l) = null \/ (l < hgt_of (Conc.shared c) (fst (nxt (Conc.shared c) p l)))%nat) /\
    (forall q n l, In q (chain (Conc.shared c) 0 head n) -> snd (nxt (Conc.shared c) q 0) = true ->
       (1 <= l < hgt_of (Conc.shared c) q)%nat -> snd (nxt (Conc.shared c) q l) = true).
Proof. exact skip_towers. Qed.
Print Assumptions C15_skip_towers.

(** the runs executed by the step-correspondence check satisfy the hypotheses (both side conditions are decidable) *)
Theorem C15_skip_run_case_full_linearizable :
  forall (cfg : list Z) (ths : list (list (list Z))) (sched : list nat) (fuel : nat),
    forallb (fun os => forallb SkipListLin.noext os) (map decode_ops ths) = true -> (length ths <= 63)%nat ->
    SkipListLin.exhaustedb (fst (SkipList.run_case cfg ths sched fuel)) = false ->
    linearizable SetSpec (client_history (prefill_nodes cfg) (fst (SkipList.run_case cfg ths sched fuel))).
Proof. exact run_case_full_linearizable. Qed.
Print Assumptions C15_skip_run_case_full_linearizable.

(** non-vacuity: a contended run (3 threads inserting / erasing / looking up keys 0..2 over a pre-filled key 0 with a
    tower of height 2, round-robin) satisfies the hypotheses, has failed CASes, its client history contains operations
    that returned false and lookups, and the verified checker accepts it *)
Example C15_skip_full_history_nonvacuous :
  let cfg := [1; 1; 0; 0; 0] in
  let ths := [[[1;1;2]; [6;0]; [10;1]; [1;1;0]]; [[6;0]; [1;0;0]; [6;1]; [10;2]]; [[1;1;1]; [10;0]; [6;1]; [6;2]]] in
  let r := SkipList.run_case cfg ths [] 9000 in
  snd r = true /\
  forallb (fun os => forallb SkipListLin.noext os) (map decode_ops ths) = true /\
  SkipListLin.exhaustedb (fst r) = false /\
  existsb (fun e => match snd e with EvAcc KCas _ false => true | _ => false end) (fst r) = true /\
  existsb (fun e : hev SetSpec => match e with HRes _ r => res_beq r (RBool false) | _ => false end) (client_history (prefill_nodes cfg) (fst r)) = true /\
  length (client_history (prefill_nodes cfg) (fst r)) = 26%nat /\
  lincheck SetSpec (client_history (prefill_nodes cfg) (fst r)) = true.
Proof. vm_compute. repeat split; auto. Qed.
