(** Property C15 — skip lists and trees are linearizable ordered sets and maps.
    Only statements here; proofs live in LV.Proofs.*.

    Part 1 (this section): the oracle.  Histories of the real containers (all variants of the property's list,
    run under the deterministic scheduler) are decided by the extracted [lincheck]; these theorems say that
    its verdict IS linearizability w.r.t. [SetSpec] / [MapSpec], and that the way extract_min / extract_max
    are presented to it is exactly the property's three clauses. *)
From Coq Require Import ZArith List Bool.
From LV Require Import Base.Lin Base.Conc Base.Events Spec.Specs Proofs.LinProofs Proofs.SkipListLin Proofs.SkipSeqEncoding
  Model.SkipList Proofs.SkipListProofs.
From LV Require Model.Ellen Proofs.EllenProofs.
Import ListNotations.
Local Open Scope Z_scope.

Theorem C15_oracle_set_decides :
  forall h : history SetSpec, lincheck SetSpec h = true <-> wf_history h /\ linearizable SetSpec h.
Proof. exact (@lincheck_iff SetSpec). Qed.
Print Assumptions C15_oracle_set_decides.

Theorem C15_oracle_map_decides :
  forall h : history MapSpec, lincheck MapSpec h = true <-> wf_history h /\ linearizable MapSpec h.
Proof. exact (@lincheck_iff MapSpec). Qed.
Print Assumptions C15_oracle_map_decides.

(** the strict sequential extract_min / extract_max satisfy the property's clauses: an empty result only
    from the empty set; a returned key is present and minimal (maximal); it is removed *)
Theorem C15_extract_min_spec_clauses :
  forall s : list Z,
    match snd (set_step s SExtractMin) with
    | RVal None => s = []
    | RVal (Some k) => In k s /\ (forall j, In j s -> k <= j) /\ fst (set_step s SExtractMin) = zdel k s
    | _ => False
    end.
Proof. exact extract_min_spec_clauses. Qed.
Print Assumptions C15_extract_min_spec_clauses.

Theorem C15_extract_max_spec_clauses :
  forall s : list Z,
    match snd (set_step s SExtractMax) with
    | RVal None => s = []
    | RVal (Some k) => In k s /\ (forall j, In j s -> j <= k) /\ fst (set_step s SExtractMax) = zdel k s
    | _ => False
    end.
Proof. exact extract_max_spec_clauses. Qed.
Print Assumptions C15_extract_max_spec_clauses.

(** the encoding used by checks/C15.py (extract_min -> k  becomes  erase k -> true) accepts every history
    the strict specification accepts: legal sequential histories stay legal *)
Theorem C15_extract_encoding_is_weaker :
  forall (l : list (set_op * Specs.res)) (s : list Z),
    @legal SetSpec s l -> @legal SetSpec s (map encode l).
Proof. exact encode_legal. Qed.
Print Assumptions C15_extract_encoding_is_weaker.

(** non-vacuity, and the reason for the encoding: a history every skip list can produce
      t9: insert 1 -> true | t1: extract_min invoked (locates 1) | t2: insert 0 -> true ; contains 1 -> true |
      t1: extract_min returns 1
    is NOT linearizable with the strict extract_min (0 is in the set whenever 1 can be extracted), but it
    satisfies the property's clauses, and the encoded history is accepted. *)
Local Notation HI := (@HInv SetSpec).
Local Notation HR := (@HRes SetSpec).
Definition h_strict : history SetSpec :=
  [HI 9%nat (SInsert 1); HR 9%nat (RBool true);
   HI 1%nat SExtractMin;
   HI 2%nat (SInsert 0); HR 2%nat (RBool true);
   HI 2%nat (SContains 1); HR 2%nat (RBool true);
   HR 1%nat (RVal (Some 1))].
Definition h_encoded : history SetSpec :=
  [HI 9%nat (SInsert 1); HR 9%nat (RBool true);
   HI 1%nat (SErase 1);
   HI 2%nat (SInsert 0); HR 2%nat (RBool true);
   HI 2%nat (SContains 1); HR 2%nat (RBool true);
   HR 1%nat (RBool true)].
Example C15_strict_extract_min_is_more_than_the_property :
  lincheck SetSpec h_strict = false /\ lincheck SetSpec h_encoded = true.
Proof. vm_compute. split; reflexivity. Qed.


(** * Part 2: the step-grain model of cds::intrusive::SkipListSet<HP> (Model/SkipList.v; tied to the real code by the
    step correspondence of checks/C15.py: same programs, same schedules, every atomic access compared).

    For EVERY schedule (every sequence of thread choices, [Conc.reach]), any number of threads, any client program of
    insert / erase / contains / extract_min / extract_max with tower heights 1..3 and keys 0..7, any pre-filled state:
    every link of every node at every level points to a node with a larger key.  At level 0 strictly larger: the nodes
    linked from the head — including logically deleted ones not yet unlinked — have strictly increasing keys, so
    "no key is ever present twice". *)
Theorem C15_skip_level0_sorted_nodup :
  forall (fuel : nat) (nodes : list (nat * nat)) (ths : list (list SkipList.op)) c (n : nat),
    nodes_ok nodes -> Forall (Forall op_ok) ths ->
    Conc.reach (SkipList.init_cfg fuel nodes ths) c ->
    strictly_inc (map key_of (chain (Conc.shared c) 0 head n)).
Proof. exact skip_level0_sorted_nodup. Qed.
Print Assumptions C15_skip_level0_sorted_nodup.

Theorem C15_skip_every_level_sorted :
  forall (fuel : nat) (nodes : list (nat * nat)) (ths : list (list SkipList.op)) c (l n : nat),
    nodes_ok nodes -> Forall (Forall op_ok) ths ->
    Conc.reach (SkipList.init_cfg fuel nodes ths) c ->
    weakly_inc (map key_of (chain (Conc.shared c) l head n)).
Proof. exact skip_every_level_sorted. Qed.
Print Assumptions C15_skip_every_level_sorted.

(** the configurations executed by the correspondence runs ([run_case]) satisfy the hypotheses *)
Theorem C15_skip_run_case_covered :
  forall (cfg : list Z) (ths : list (list (list Z))) c (n : nat),
    Conc.reach (SkipList.init_cfg 60 (prefill_nodes cfg) (map decode_ops ths)) c ->
    strictly_inc (map key_of (chain (Conc.shared c) 0 head n)).
Proof. exact run_case_level0_sorted. Qed.
Print Assumptions C15_skip_run_case_covered.

(** ** Linearizability of the updates, for EVERY schedule (Proofs/SkipListLin.v).

    Any number (<= 63) of threads, any client programs of insert / erase / contains (tower heights 1..3, inserted keys
    0..7), any pre-filled state, every sequence of thread choices: the history of the trace from which the completed
    operations that did not modify the set (contains, insert -> false, erase -> false) are deleted — [upd_hist], the same
    reading as C13's mlist_updates_linearizable — is linearizable w.r.t. the sequential set.  The proof is an
    Owicki–Gries invariant over the ghost level-0 chain [aL] (a list, like C13's [L]) and the LP-annotated trace:
    abstraction = keys of the unmarked nodes of the chain; linearization point of insert -> true = the level-0 link CAS
    of insert_at_position, of erase -> true = the level-0 mark CAS of try_remove_at; helping (help_remove, the
    level-0 unlink CAS) is shown not to change the abstract set.  [exhausted]: a thread whose retry loop ran out of
    the model's loop fuel abandons its operation ("outoffuel" event); nothing is claimed about such traces. *)
Theorem C15_skip_updates_linearizable :
  forall (fuel : nat) (nodes : list (nat * nat)) (ths : list (list SkipList.op)) c,
    nodes_ok nodes -> Forall (Forall SkipListLin.op_ok') ths -> (length ths <= 63)%nat ->
    Conc.reach (SkipList.init_cfg fuel nodes ths) c -> ~ SkipListLin.exhausted (Conc.trace c) ->
    linearizable SetSpec (SkipListLin.upd_hist nodes (Conc.trace c)).
Proof. exact SkipListLin.skip_updates_linearizable. Qed.
Print Assumptions C15_skip_updates_linearizable.

(** the abstraction itself: at every reachable state there is a valid LP-annotated trace whose erasure is the update
    history and whose abstract set is exactly the set of keys of the unmarked nodes on the level-0 chain *)
Theorem C15_skip_abstract_set_is_unmarked_level0 :
  forall (fuel : nat) (nodes : list (nat * nat)) (ths : list (list SkipList.op)) c,
    nodes_ok nodes -> Forall (Forall SkipListLin.op_ok') ths -> (length ths <= 63)%nat ->
    Conc.reach (SkipList.init_cfg fuel nodes ths) c -> ~ SkipListLin.exhausted (Conc.trace c) ->
    exists L atr S st,
      SkipListLin.walk (Conc.shared c) head L /\ lp_run lp_init atr = Some (S, st) /\
      erase atr = SkipListLin.upd_hist nodes (Conc.trace c) /\
      (forall k, zmem k S = true <-> exists n, In n L /\ snd (nxt (Conc.shared c) n 0) = false /\ key_of n = k).
Proof. exact SkipListLin.skip_abstraction. Qed.
Print Assumptions C15_skip_abstract_set_is_unmarked_level0.

(** upper levels vs level 0, for every schedule: a node linked at ANY level that is not logically deleted (its level-0
    cell is unmarked) is on the level-0 list.  (The level-by-level statement [skip_levels_are_sublists_statement] below
    is still open.) *)
Theorem C15_skip_live_linked_nodes_on_level0 :
  forall (fuel : nat) (nodes : list (nat * nat)) (ths : list (list SkipList.op)) c (l n : nat) (q : ptr),
    nodes_ok nodes -> Forall (Forall SkipListLin.op_ok') ths -> (length ths <= 63)%nat ->
    Conc.reach (SkipList.init_cfg fuel nodes ths) c ->
    In q (chain (Conc.shared c) l head n) -> snd (nxt (Conc.shared c) q 0) = false ->
    exists m, In q (chain (Conc.shared c) 0 head m).
Proof. exact SkipListLin.skip_live_linked_nodes_on_level0. Qed.
Print Assumptions C15_skip_live_linked_nodes_on_level0.

(** the runs executed by the step-correspondence check satisfy the hypotheses (both side conditions are decidable) *)
Theorem C15_skip_run_case_updates_linearizable :
  forall (cfg : list Z) (ths : list (list (list Z))) (sched : list nat) (fuel : nat),
    forallb (fun os => forallb SkipListLin.noext os) (map decode_ops ths) = true -> (length ths <= 63)%nat ->
    SkipListLin.exhaustedb (fst (SkipList.run_case cfg ths sched fuel)) = false ->
    linearizable SetSpec (SkipListLin.upd_hist (prefill_nodes cfg) (fst (SkipList.run_case cfg ths sched fuel))).
Proof. exact SkipListLin.run_case_updates_linearizable. Qed.
Print Assumptions C15_skip_run_case_updates_linearizable.

(** non-vacuity of the theorem above: a contended run (3 threads inserting / erasing / looking up keys 0..2 over a
    pre-filled key 0, round-robin) satisfies the hypotheses, has failed CASes, and its update history contains
    successful inserts and erases of several threads *)
Example C15_skip_updates_linearizable_nonvacuous :
  let cfg := [1; 1; 0; 0; 0] in
  let ths := [[[1;1;2]; [6;0]; [10;1]]; [[6;0]; [1;0;0]; [6;1]]; [[1;1;1]; [10;0]; [6;1]]] in
  let r := SkipList.run_case cfg ths [] 6000 in
  snd r = true /\
  forallb (fun os => forallb SkipListLin.noext os) (map decode_ops ths) = true /\
  SkipListLin.exhaustedb (fst r) = false /\
  existsb (fun e => match snd e with EvAcc KCas _ false => true | _ => false end) (fst r) = true /\
  Nat.leb 12 (length (SkipListLin.upd_hist (prefill_nodes cfg) (fst r))) = true /\
  lincheck SetSpec (SkipListLin.upd_hist (prefill_nodes cfg) (fst r)) = true.
Proof. vm_compute. repeat split; auto. Qed.

(** STILL STATED, NOT PROVED (…_statement): (a) upper levels are sub-lists of the level below at every instant under
    concurrency; (b) linearizability of the FULL client history — i.e. also the return values of contains,
    insert -> false, erase -> false (these need a helping-style LP placed at another thread's CAS, the "last own
    observation" argument of C13's MichaelListFullProofs) and of extract_min / extract_max (three clauses).  What is
    proved of them: the theorems above; the order invariant (all schedules, including extract programs); the
    sequential versions (Properties_C18: C18_skip_levels_are_sublists_seq); the implementation-side oracle decides
    every sampled history of the real code, reads and extracts included, with the verified lincheck. *)
Definition skip_levels_are_sublists_statement : Prop :=
  forall (fuel : nat) nodes ths c (l n : nat) (q : ptr),
    nodes_ok nodes -> Forall (Forall op_ok) ths -> Conc.reach (SkipList.init_cfg fuel nodes ths) c ->
    In q (chain (Conc.shared c) (S l) head n) -> snd (nxt (Conc.shared c) q (S l)) = false ->
    exists m, In q (chain (Conc.shared c) l head m).

Definition skip_full_history_linearizable_statement : Prop :=
  forall (fuel : nat) nodes ths c,
    nodes_ok nodes -> Forall (Forall op_ok) ths -> Conc.reach (SkipList.init_cfg fuel nodes ths) c ->
    linearizable SetSpec (client_history nodes (Conc.trace c)).

(** non-vacuity: a contended run of the model (3 threads on keys 0..1, round-robin schedule) in which CASes fail and a
    node is helped out; its client history is accepted by the verified checker *)
Example C15_skip_model_nonvacuous :
  let r := SkipList.run_case [1; 1; 0; 0; 0] [[[1;1;2]; [13]]; [[6;0]; [1;0;0]]; [[14]; [10;1]]] [] 6000 in
  snd r = true /\
  existsb (fun e => match snd e with EvAcc KCas _ false => true | _ => false end) (fst r) = true /\
  lincheck SetSpec (client_history (prefill_nodes [1; 1; 0; 0; 0]) (fst r)) = true.
Proof. vm_compute. repeat split. Qed.

(** * Part 3: the step-grain model of cds::intrusive::EllenBinTree<HP> (Model/Ellen.v; tied to the real code by the step
    correspondence of checks/C15.py, harness/C15/step_ellen.cpp: same programs, same schedules, every atomic access
    compared; the model also evaluates the BST check after every step of those runs).

    NOTE: this implementation has no helping (help() is commented out in ellen_bintree.h): a search that meets a
    DFlag / Mark restarts, an update that meets a non-Clean update word retries, and the flag / child CAS / unflag steps
    of an operation are all executed by the thread that flagged.

    [EllenProofs.T g n lo hi]: the subtree of n is a leaf-oriented binary search tree with all keys in [lo, hi): keys
    of the left subtree < key of the node <= keys of the right subtree; the keys Inf1 = 1000 < Inf2 = 1001 are above
    every real key.

    For EVERY schedule, any number (<= 63) of threads, any client programs of insert / contains (keys 0..7), any
    pre-filled tree that passes the decidable check [init_check] (all pre-filled trees of the correspondence runs do):
    at every reachable state — also in the middle of operations — the tree reachable from m_Root is a BST.
    (Owicki–Gries proof: a node that was on the search path of k stays on it — no node is ever removed —, so the
    child CAS of help_insert replaces a leaf in whose key range k lies.) *)
Theorem C15_ellen_bst_invariant :
  forall (fuel : nat) (keys : list nat) (ths : list (list Ellen.op)) c,
    EllenProofs.init_check (Ellen.init keys) = true -> Forall (Forall EllenProofs.op_ok) ths -> (length ths <= 63)%nat ->
    Conc.reach (Ellen.init_cfg fuel keys ths) c ->
    EllenProofs.T (Conc.shared c) Ellen.root (-1) 1002.
Proof. exact EllenProofs.ellen_bst_invariant. Qed.
Print Assumptions C15_ellen_bst_invariant.

Theorem C15_ellen_prefilled_trees_pass_init_check :
  forallb (fun m => EllenProofs.init_check (Ellen.init (Ellen.prefill_keys [Z.of_nat m]))) (seq 0 16) = true.
Proof. exact EllenProofs.init_check_prefills. Qed.
Print Assumptions C15_ellen_prefilled_trees_pass_init_check.

(** the executable monitor of the correspondence runs implies [T] *)
Theorem C15_ellen_monitor_sound : forall g, Ellen.tree_ok g = true -> EllenProofs.T g Ellen.root (-1) 1002.
Proof. exact EllenProofs.tree_ok_T. Qed.
Print Assumptions C15_ellen_monitor_sound.

(** consequence: at every reachable state (same hypotheses) no key is present twice — two leaves reachable from m_Root
    with the same key are the same leaf *)
Theorem C15_ellen_no_duplicate_keys :
  forall (fuel : nat) (keys : list nat) (ths : list (list Ellen.op)) c (x y : Ellen.ptr),
    EllenProofs.init_check (Ellen.init keys) = true -> Forall (Forall EllenProofs.op_ok) ths -> (length ths <= 63)%nat ->
    Conc.reach (Ellen.init_cfg fuel keys ths) c ->
    EllenProofs.insub (Conc.shared c) Ellen.root x -> EllenProofs.insub (Conc.shared c) Ellen.root y ->
    ~ EllenProofs.internal (Conc.shared c) x -> ~ EllenProofs.internal (Conc.shared c) y ->
    Ellen.node_key (Conc.shared c) x = Ellen.node_key (Conc.shared c) y -> x = y.
Proof. exact EllenProofs.ellen_no_duplicate_keys. Qed.
Print Assumptions C15_ellen_no_duplicate_keys.

(** erase: the ONE step of erase that changes the tree — the child CAS of help_marked, which replaces the parent p of
    the deleted leaf by the other child of p — preserves the BST invariant, for any directions d, d'.  That its
    precondition holds at every reachable state of programs WITH erase (the DFlag / Mark protocol and the version
    counter of the update word) is NOT proved; it is checked by the monitor at every step of the correspondence runs. *)
Theorem C15_ellen_delete_cas_preserves_bst :
  forall (g : Ellen.G) (gp : Ellen.ptr) (d : bool) (p : Ellen.ptr) (d' : bool) (lo hi : Z) (n : Ellen.ptr),
    EllenProofs.T g n lo hi -> Ellen.child g gp d = p -> EllenProofs.internal g p -> p <> gp ->
    EllenProofs.T (Ellen.set_child g gp d (Ellen.child g p d')) n lo hi.
Proof. intros. now apply EllenProofs.T_delete. Qed.
Print Assumptions C15_ellen_delete_cas_preserves_bst.

(** non-vacuity: a contended model run of three inserting threads (round-robin) whose flag CASes fail; the BST monitor
    holds at every step, and the hypotheses of the theorem hold *)
Example C15_ellen_model_nonvacuous :
  let ths := [[[1;2]; [1;0]; [10;1]]; [[1;2]; [1;1]; [10;2]]; [[1;0]; [1;3]; [10;0]]] in
  let r := Ellen.run_case [2] ths [] 20000 in
  snd r = true /\
  existsb (fun e => match snd e with EvAcc KCas _ false => true | _ => false end) (fst r) = true /\
  existsb (fun e => Nat.eqb (fst e) 99) (fst r) = false /\      (* the monitor event is tagged with thread id 99 *)
  forallb (fun os => forallb (fun o => match o with Ellen.OErase _ => false | _ => true end) os) (map Ellen.decode_ops ths) = true.
Proof. vm_compute. repeat split; reflexivity. Qed.
