(** Property C15 — skip lists and trees are linearizable ordered sets and maps.
    Only statements here; proofs live in LV.Proofs.*.

    Part 1 (this section): the oracle.  Histories of the real containers (all variants of the property's list,
    run under the deterministic scheduler) are decided by the extracted [lincheck]; these theorems say that
    its verdict IS linearizability w.r.t. [SetSpec] / [MapSpec], and that the way extract_min / extract_max
    are presented to it is exactly the property's three clauses. *)
From Coq Require Import ZArith List Bool.
From LV Require Import Base.Lin Spec.Specs Proofs.LinProofs Proofs.SkipSeqEncoding.
Import ListNotations.
Local Open Scope Z_scope.

Theorem C15_oracle_set_decides :
  forall h : history SetSpec, lincheck SetSpec h = true <-> wf_history h /\ linearizable SetSpec h.
Proof. exact (@lincheck_iff SetSpec). Qed.
Print Assumptions C15_oracle_set_decides.

Theorem C15_oracle_map_decides :
  forall h : history MapSpec, lincheck MapSpec h = true <-> wf_history h /\ linearizable MapSpec h.
Proof. exact (@lincheck_iff MapSpec). Qed.
Print Assumptions C15_oracle_map_decides.

(** the strict sequential extract_min / extract_max satisfy the property's clauses: an empty result only
    from the empty set; a returned key is present and minimal (maximal); it is removed *)
Theorem C15_extract_min_spec_clauses :
  forall s : list Z,
    match snd (set_step s SExtractMin) with
    | RVal None => s = []
    | RVal (Some k) => In k s /\ (forall j, In j s -> k <= j) /\ fst (set_step s SExtractMin) = zdel k s
    | _ => False
    end.
Proof. exact extract_min_spec_clauses. Qed.
Print Assumptions C15_extract_min_spec_clauses.

Theorem C15_extract_max_spec_clauses :
  forall s : list Z,
    match snd (set_step s SExtractMax) with
    | RVal None => s = []
    | RVal (Some k) => In k s /\ (forall j, In j s -> j <= k) /\ fst (set_step s SExtractMax) = zdel k s
    | _ => False
    end.
Proof. exact extract_max_spec_clauses. Qed.
Print Assumptions C15_extract_max_spec_clauses.

(** the encoding used by checks/C15.py (extract_min -> k  becomes  erase k -> true) accepts every history
    the strict specification accepts: legal sequential histories stay legal *)
Theorem C15_extract_encoding_is_weaker :
  forall (l : list (set_op * res)) (s : list Z),
    @legal SetSpec s l -> @legal SetSpec s (map encode l).
Proof. exact encode_legal. Qed.
Print Assumptions C15_extract_encoding_is_weaker.

(** non-vacuity, and the reason for the encoding: a history every skip list can produce
      t9: insert 1 -> true | t1: extract_min invoked (locates 1) | t2: insert 0 -> true ; contains 1 -> true |
      t1: extract_min returns 1
    is NOT linearizable with the strict extract_min (0 is in the set whenever 1 can be extracted), but it
    satisfies the property's clauses, and the encoded history is accepted. *)
Local Notation HI := (@HInv SetSpec).
Local Notation HR := (@HRes SetSpec).
Definition h_strict : history SetSpec :=
  [HI 9%nat (SInsert 1); HR 9%nat (RBool true);
   HI 1%nat SExtractMin;
   HI 2%nat (SInsert 0); HR 2%nat (RBool true);
   HI 2%nat (SContains 1); HR 2%nat (RBool true);
   HR 1%nat (RVal (Some 1))].
Definition h_encoded : history SetSpec :=
  [HI 9%nat (SInsert 1); HR 9%nat (RBool true);
   HI 1%nat (SErase 1);
   HI 2%nat (SInsert 0); HR 2%nat (RBool true);
   HI 2%nat (SContains 1); HR 2%nat (RBool true);
   HR 1%nat (RBool true)].
Example C15_strict_extract_min_is_more_than_the_property :
  lincheck SetSpec h_strict = false /\ lincheck SetSpec h_encoded = true.
Proof. vm_compute. split; reflexivity. Qed.
