(** Property C18 — quiescent structure is well-formed and traversal is exact.
    Only statements here; proofs live in LV.Proofs.{SkipSeqProofs,EllenSeqProofs,AvlSeqProofs}.

    Quantifier covered by THEOREMS: quiescent points after ARBITRARY SEQUENTIAL histories (every finite sequence of
    insert / update / upsert / erase / extract_min / extract_max, any keys and values, skip-list tower heights arbitrary),
    for the sequential models of the skip list (one explicit list per level), of EllenBinTree (leaf-oriented tree
    with the two sentinels) and of BronsonAVLTreeMap (partially external AVL tree with routing nodes, the repair loop
    fix_height_and_rebalance and the four rotations exactly as the C++).  The models are tied to the real containers by
    checks/C18.py: after every operation of long random sequential histories the dumped shape of the real structure
    (keys, value presence, stored heights / internal keys / tower heights) must equal the model's shape.
    Quiescent points after CONCURRENT histories: for the skip list the order invariant is a theorem for every schedule
    (C18_skip_sorted_after_concurrent_histories, from the step-grain model of C15); everything else after concurrent
    histories is covered by the harness probes on the real structures (checks/C18.py). *)
From Coq Require Import ZArith List Bool.
From LV Require Import Base.Lin Base.Conc Spec.Specs Model.SkipSeq Model.EllenSeq Model.AvlSeq
  Proofs.SkipSeqProofs Proofs.EllenSeqProofs Proofs.AvlSeqProofs.
From LV Require Model.SkipList Proofs.SkipListProofs.
From LV Require Base.Events Model.MichaelList Proofs.MichaelListBase Proofs.MichaelListInv Proofs.MichaelListProofs Proofs.MichaelListFullProofs
  Model.LazyList Proofs.LazyListDefs Proofs.LazyListProofs Proofs.LazyListLinProofs Proofs.ListQuiescent Proofs.LazyListQuiescent.
Import ListNotations.
Local Open Scope Z_scope.

(** ** the reference: a strictly sorted association list, and it is exactly MapSpec's contents
    [spec_run] drives [Spec.Specs.map_step] (extract_min / extract_max erase the smallest / largest key). *)
Theorem C18_sorted_list_is_spec_contents :
  forall os : list sop,
    ksorted (sl_run os) /\ forall k, sl_find k (sl_run os) = mfind k (spec_run os).
Proof. exact sl_run_spec. Qed.
Print Assumptions C18_sorted_list_is_spec_contents.

(** ** skip list: every level strictly sorted (no key twice), every level a sub-list of the level below *)
Theorem C18_skip_levels_are_sublists_seq :
  forall os : list (sop * nat),
    length (sk_run os) = MAXH /\ Forall inc_nodes (sk_run os) /\ chain (sk_run os).
Proof. exact sk_run_inv. Qed.
Print Assumptions C18_skip_levels_are_sublists_seq.

(** level-0 traversal = the sorted duplicate-free list = the specification's contents; size = cardinality *)
Theorem C18_skip_quiescent_traversal_exact_seq :
  forall os : list (sop * nat), sk_traverse (sk_run os) = sl_run (map fst os).
Proof. exact sk_run_traverse. Qed.
Print Assumptions C18_skip_quiescent_traversal_exact_seq.

(** quiescent points after arbitrary CONCURRENT histories of the skip list: a quiescent point is a reachable
    configuration of the step-grain model (Model/SkipList.v, tied to cds::intrusive::SkipListSet<HP> by step
    correspondence), and in EVERY reachable configuration — every schedule — the level-0 list from the head has
    strictly increasing keys and every upper level is (weakly) sorted *)
Theorem C18_skip_sorted_after_concurrent_histories :
  forall (fuel : nat) (nodes : list (nat * nat)) (ths : list (list SkipList.op)) c (l n : nat),
    SkipListProofs.nodes_ok nodes -> Forall (Forall SkipListProofs.op_ok) ths ->
    Conc.reach (SkipList.init_cfg fuel nodes ths) c ->
    SkipListProofs.strictly_inc (map SkipList.key_of (SkipListProofs.chain (Conc.shared c) 0 SkipList.head n)) /\
    SkipListProofs.weakly_inc (map SkipList.key_of (SkipListProofs.chain (Conc.shared c) l SkipList.head n)).
Proof.
  intros. split; [eapply SkipListProofs.skip_level0_sorted_nodup|eapply SkipListProofs.skip_every_level_sorted]; eauto.
Qed.
Print Assumptions C18_skip_sorted_after_concurrent_histories.

(** ** EllenBinTree: global leaf-oriented search-tree order (over internal AND leaf keys), sentinels in place, the
    library's check_consistency() holds, in-order leaves = the sorted list = the specification's contents *)
Theorem C18_ellen_check_consistency_holds_seq :
  forall os : list sop,
    ebst (e_run os) /\ e_check_consistency (e_run os) = true /\
    exists l, ksorted l /\ e_leaves (e_run os) = fin l ++ SENT.
Proof.
  intros os. destruct (e_run_inv os) as [(B & _ & L) _]. split; [exact B|]. split; [now apply ebst_check_consistency|exact L].
Qed.
Print Assumptions C18_ellen_check_consistency_holds_seq.

Theorem C18_ellen_quiescent_traversal_exact_seq :
  forall os : list sop, e_traverse (e_run os) = sl_run os.
Proof. intros os. exact (proj2 (e_run_inv os)). Qed.
Print Assumptions C18_ellen_quiescent_traversal_exact_seq.

(** ** BronsonAVLTreeMap.  For every operation sequence that runs to completion ([a_run] = Some: the repair loop did
    not run out of fuel and extract_min/extract_max did not hit the routing-leaf livelock): strict search-tree order
    over all nodes (valued and routing), in-order traversal of the valued nodes = the sorted list = the
    specification's contents. *)
Theorem C18_bronson_order_and_traversal_exact_seq :
  forall (os : list sop) (T : tree),
    a_run os E = Some T -> bst T /\ a_traverse T = sl_run os.
Proof. intros os T H. exact (a_run_spec os E T I H). Qed.
Print Assumptions C18_bronson_order_and_traversal_exact_seq.

(** item counter = cardinality: the three traversals have the length of the specification's sorted list *)
Theorem C18_quiescent_size_agrees_seq :
  (forall os, sk_size (sk_run os) = length (sl_run (map fst os))) /\
  (forall os, e_size (e_run os) = length (sl_run os)) /\
  (forall os T, a_run os E = Some T -> a_size T = length (sl_run os)).
Proof.
  repeat split.
  - intros os. unfold sk_size. rewrite <- sk_run_traverse. unfold sk_traverse. now rewrite map_length.
  - intros os. unfold e_size. now rewrite (proj2 (e_run_inv os)).
  - intros os T H. unfold a_size. now rewrite (proj2 (a_run_spec os E T I H)).
Qed.
Print Assumptions C18_quiescent_size_agrees_seq.

(** The full consistency statement for Bronson asked by the property (order AND |hL-hR| <= 1 AND exact stored heights
    at every quiescent point) ... *)
Definition bronson_check_consistency_holds_seq_statement : Prop :=
  forall (os : list sop) (T : tree),
    a_run os E = Some T -> bst T /\ balanced T = true /\ heights_exact T = true.

(** ... is FALSE of the faithful model (and of the code: relaxed balance next to routing nodes, and the repair loop
    stops as soon as the focused node needs nothing): 27 sequential operations leave node 7 with stored height 3,
    real height 4, and subtrees of heights 3 and 1.  The same sequence on the real tree gives the same dump
    (corpus/C18/bronson_seq_stale_stored_height.json; open known finding
    bronson-avl-balance-not-restored-next-to-routing-node).  The order part is the theorem above. *)
Theorem C18_bronson_avl_balance_refuted :
  exists (os : list sop) (T : tree), a_run os E = Some T /\ balanced T = false.
Proof. exact avl_balance_refuted. Qed.
Print Assumptions C18_bronson_avl_balance_refuted.

Theorem C18_bronson_stored_heights_refuted :
  exists (os : list sop) (T : tree), a_run os E = Some T /\ heights_exact T = false.
Proof. exact stored_heights_refuted. Qed.
Print Assumptions C18_bronson_stored_heights_refuted.

Theorem C18_bronson_check_consistency_statement_refuted : ~ bronson_check_consistency_holds_seq_statement.
Proof.
  intros H. destruct avl_balance_refuted as (os & T & R & B). destruct (H os T R) as (_ & B' & _). congruence.
Qed.
Print Assumptions C18_bronson_check_consistency_statement_refuted.

(** ** non-vacuity: concrete non-trivial runs of the three models (rotations, routing nodes, towers, sentinels) *)
Example C18_bronson_nonvacuous :
  exists T, a_run [Ins 1 10; Ins 2 20; Ins 3 30; Ins 4 40; Ins 5 50; Del 2; Del 4; ExtMax; Ups 6 60] E = Some T /\
            a_traverse T = [(1, 10); (3, 30); (6, 60)] /\ balanced T = true /\ heights_exact T = true.
Proof. eexists. split; [vm_compute; reflexivity|]. vm_compute. repeat split. Qed.

Example C18_ellen_nonvacuous :
  e_traverse (e_run [Ins 5 50; Ins 3 30; Ins 8 80; Del 5; Ups 4 40; ExtMin; ExtMax]) = [(4, 40)].
Proof. vm_compute. reflexivity. Qed.

Example C18_skip_nonvacuous :
  let s := sk_run [(Ins 5 50, 3%nat); (Ins 3 30, 1%nat); (Ins 8 80, 8%nat); (Del 5, 1%nat); (Ups 4 40, 2%nat)] in
  sk_traverse s = [(3, 30); (4, 40); (8, 80)] /\ map (map nkey) (firstn 3 s) = [[3; 4; 8]; [4; 8]; [8]].
Proof. vm_compute. split; reflexivity. Qed.

(** * Quiescent points after CONCURRENT histories of the list-based containers (MichaelList, LazyList): theorems for every
    schedule of the step-grain models of C13 (LV.Proofs.ListQuiescent, by the C13 owner; cited here because they are
    exactly C18's "quiescent structure well-formed, traversal exact, size agrees" for the ordered lists).
    For every reachable configuration there is a valid LP-annotated trace of the whole history; when the history is
    quiescent (every invocation has its response) every thread is Idle, the keys met by the traversal are exactly the
    abstract set, strictly increasing and duplicate-free, and (item counter modelled) m_ItemCounter = the cardinality. *)
Module ListsQuiescent.
Import LV.Base.Conc LV.Base.Events LV.Base.Lin LV.Spec.Specs.
Import LV.Model.MichaelList LV.Proofs.MichaelListBase LV.Proofs.MichaelListInv LV.Proofs.MichaelListProofs LV.Proofs.MichaelListFullProofs.

Theorem C18_mlist_quiescent :
  forall (fuel sf : nat) (ic : bool) (ths : list (list (list Z))) c,
    Conc.reach (MichaelList.init_cfg fuel sf ic ths) c ->
    exists atr S st L,
      lp_run lp_init atr = Some (S, st) /\ erase atr = full_hist (Conc.trace c) /\
      list_nodes (Conc.shared c) L /\
      zsorted (ListQuiescent.live_keys (Conc.shared c) L) /\ NoDup (ListQuiescent.live_keys (Conc.shared c) L) /\
      (forall k, zmem k S = true <-> In k (ListQuiescent.live_keys (Conc.shared c) L)) /\
      (ListQuiescent.quiescent_hist (full_hist (Conc.trace c)) -> forall t, st t = @Idle SetSpec).
Proof. exact ListQuiescent.mlist_quiescent. Qed.
Print Assumptions C18_mlist_quiescent.

(** With the item counter modelled ( atomicity::item_counter, variant 3 ): in a quiescent configuration m_ItemCounter
    equals the cardinality of the abstract set = the number of unmarked nodes of the chain.  (The counter is updated
    after the linearization point; LV.Proofs.MichaelListCount: the counter always equals the net number of items
    that the COMPLETED operations of the history inserted, plus the counter accesses of the operations in progress.) *)
Theorem C18_mlist_quiescent_count :
  forall (fuel sf : nat) (ths : list (list (list Z))) c,
    Conc.reach (MichaelList.init_cfg fuel sf true ths) c ->
    exists atr S st L,
      lp_run lp_init atr = Some (S, st) /\ erase atr = full_hist (Conc.trace c) /\
      list_nodes (Conc.shared c) L /\
      zsorted (ListQuiescent.live_keys (Conc.shared c) L) /\ NoDup (ListQuiescent.live_keys (Conc.shared c) L) /\
      (forall k, zmem k S = true <-> In k (ListQuiescent.live_keys (Conc.shared c) L)) /\
      (ListQuiescent.quiescent_hist (full_hist (Conc.trace c)) ->
         (forall t, st t = @Idle SetSpec) /\
         count (Conc.shared c) = Z.of_nat (List.length S) /\
         count (Conc.shared c) = Z.of_nat (List.length (ListQuiescent.live_keys (Conc.shared c) L))).
Proof. exact ListQuiescent.mlist_quiescent_count. Qed.
Print Assumptions C18_mlist_quiescent_count.

Theorem C18_lazy_quiescent :
  forall (fuel sf : nat) (ic : bool) (ths : list (list (list Z))) (c : Conc.config LazyList.G LazyList.V ev),
    Conc.reach (LazyList.init_cfg fuel sf ic ths) c ->
    exists atr Sabs st0,
      lp_run lp_init atr = Some (Sabs, st0) /\ erase atr = upd_hist (Conc.trace c) /\
      LazyListDefs.increasing (LazyListDefs.lazy_keys (Conc.shared c)) /\
      (LazyListQuiescent.quiescent_hist (upd_hist (Conc.trace c)) ->
         (forall t, st0 t = @Idle SetSpec) /\
         (forall k, zmem k Sabs = true <-> In k (LazyListDefs.lazy_keys (Conc.shared c)))).
Proof. exact ListQuiescent.lazy_quiescent. Qed.
Print Assumptions C18_lazy_quiescent.

Theorem C18_lazy_quiescent_count :
  forall (fuel sf : nat) (ths : list (list (list Z))) (c : Conc.config LazyList.G LazyList.V ev),
    Conc.reach (LazyList.init_cfg fuel sf true ths) c ->
    exists atr Sabs st0,
      lp_run lp_init atr = Some (Sabs, st0) /\ erase atr = upd_hist (Conc.trace c) /\
      LazyListDefs.increasing (LazyListDefs.lazy_keys (Conc.shared c)) /\
      (LazyListQuiescent.quiescent_hist (upd_hist (Conc.trace c)) ->
         (forall t, st0 t = @Idle SetSpec) /\
         (forall k, zmem k Sabs = true <-> In k (LazyListDefs.lazy_keys (Conc.shared c))) /\
         LazyList.count (Conc.shared c) = Z.of_nat (List.length Sabs) /\
         LazyList.count (Conc.shared c) = Z.of_nat (List.length (LazyListDefs.lazy_keys (Conc.shared c)))).
Proof. exact ListQuiescent.lazy_quiescent_count. Qed.
Print Assumptions C18_lazy_quiescent_count.

End ListsQuiescent.
