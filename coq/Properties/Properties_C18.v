(** Property C18 — placeholder replaced below by the sequential-model theorems. *)
From Coq Require Import ZArith List.
From LV Require Import Spec.Specs Proofs.SkipSeqEncoding.
Theorem C18_stub : forall k s, zmem k s = true <-> In k s.
Proof. exact zmem_In. Qed.
Print Assumptions C18_stub.
