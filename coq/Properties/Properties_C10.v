(** Property C10 — "Every concurrent history of push_front, push_back, pop_front and pop_back on FCDeque
    (elimination on or off, any underlying deque) is linearizable to a sequential deque.  In particular, a push at
    one end is collided with a pop at the other end only when the deque is empty."

    Model: LV.Model.FcBatch (FCDeque::fc_apply and FCDeque::fc_process/collide as pure functions copied from
    cds/container/fcdeque.h) executed by the kernel model LV.Model.FcKernel (step-checked against the real kernel
    by C23).  Only statements here; proofs in LV.Proofs.FcBatchProofs, FcKernelProofs, FcKernelShape, FcContainers. *)
From Coq Require Import ZArith List String Bool.
From LV Require Import Base.Conc Base.Events Base.Lin Spec.Specs Proofs.LinProofs Model.FcKernel Model.FcBatch
                       Proofs.FcBatchProofs Proofs.FcKernelProofs Proofs.FcContainers.
Import ListNotations.

(** *** fc_process is sound, for ALL lists of pending requests and ALL deque contents.
    [reqs] = the pending requests met by the iterator in publication-list order (record, request word, owner,
    argument), distinct records; [cs] = the (record, response) pairs for which operation_done is called, in call
    order.  The responses written are exactly those of running the completed requests one after the other as a
    sequential deque from the current contents [d], and that run leaves [d] unchanged; no request is completed
    twice; the request left in itPrev is not completed. *)
Theorem C10_fcdeque_process_sound : forall reqs d p' d' cs,
  NoDup (map rec_of reqs) -> Forall (fun x => dq_okop (snd (fst (fst x))) = true) reqs ->
  dq_process None d reqs = (p', d', cs) ->
  let rho := reqs_env reqs in
  d' = d /\
  legal (Sp:=Deque) d (map (fun x => (op_of Deque dq_dec rho (fst x), snd x)) cs) /\
  final (Sp:=Deque) d (map (fun x => (op_of Deque dq_dec rho (fst x), snd x)) cs) = d /\
  NoDup (map fst cs) /\
  (forall q, In q (map fst cs) -> In q (map rec_of reqs)) /\
  (forall x, In x (held_of p') -> ~ In (fst (fst x)) (map fst cs)).
Proof. exact fcdeque_process_sound. Qed.
Print Assumptions C10_fcdeque_process_sound.

(** *** a push at one end is collided with a pop at the other end only when the deque is empty
    ([dq_pairs] lists the collisions fc_process performs: push record/word, pop record/word) *)
Theorem C10_fcdeque_cross_end_only_if_empty : forall reqs p d x,
  In x (dq_pairs p d reqs) -> dq_cross x = true -> d = [].
Proof. exact fcdeque_cross_end_only_if_empty. Qed.
Print Assumptions C10_fcdeque_cross_end_only_if_empty.

(** *** linearizability, for every schedule.
    Client programs: requests with the FCDeque request words (push_front 2/3, push_back 4/5, pop_front 6,
    pop_back 7) through kernel::combine (elimination off) or kernel::batch_combine (elimination on), and thread
    exits; any number of threads; any compact-factor mask and combine pass count. *)
Theorem C10_fcdeque_linearizable :
  forall (fuel mask npass : nat) (ths : list (list cop)) c,
    ops_ok dq_okop ths -> passes_ok npass ths -> Conc.reach (dq_init_cfg true fuel mask npass ths) c ->
    linearizable Deque (fc_history Deque res_dec dq_dec (Conc.trace c)).
Proof. exact fcdeque_linearizable. Qed.
Print Assumptions C10_fcdeque_linearizable.

(** [passes_ok npass ths]: every request is a batch_combine (elimination on) or the combine pass count is >= 1
    (with 0 passes a combiner never serves itself; see Properties_C23.C23_pass_count_zero_loses).  In
    particular: *)
Corollary C10_fcdeque_linearizable_npass :
  forall (fuel mask npass : nat) (ths : list (list cop)) c,
    1 <= npass -> ops_ok dq_okop ths -> Conc.reach (dq_init_cfg true fuel mask npass ths) c ->
    linearizable Deque (fc_history Deque res_dec dq_dec (Conc.trace c)).
Proof. intros fuel mask npass ths c Hn Hok Hr. exact (fcdeque_linearizable Hok (passes_ok_pos ths Hn) Hr). Qed.

(** stronger than linearizability: the linearization points are the executions by the combiner (the trace
    annotated with them is a valid LP trace) *)
Theorem C10_fcdeque_lp_valid :
  forall (fuel mask npass : nat) (ths : list (list cop)) c,
    ops_ok dq_okop ths -> passes_ok npass ths -> Conc.reach (dq_init_cfg true fuel mask npass ths) c ->
    lp_valid Deque (annot Deque res_dec dq_dec (Conc.trace c)).
Proof. exact fcdeque_lp_valid. Qed.

(** Part A alone, for both versions of the kernel's compact_list ([chk] arbitrary): every trace without the
    model event "lost" (a record released unanswered). *)
Theorem C10_fcdeque_linearizable_if_not_lost :
  forall (chk : bool) (fuel mask npass : nat) (ths : list (list cop)) c,
    ops_ok dq_okop ths -> Conc.reach (dq_init_cfg chk fuel mask npass ths) c ->
    has_lost (Conc.trace c) = false ->
    linearizable Deque (fc_history Deque res_dec dq_dec (Conc.trace c)).
Proof. exact fcdeque_linearizable_partA. Qed.
Print Assumptions C10_fcdeque_linearizable_if_not_lost.

(** non-vacuity: three threads, elimination on (batch_combine): thread 0 becomes combiner and is parked, threads 1
    and 2 publish push_front 7 / pop_back; the deque is empty so fc_process collides them across the ends; the run
    completes, nothing is lost, the history has 4 operations *)
Example C10_nonvacuous :
  let c := fst (Conc.run 4000 0
                  ([0;0;0;0;0;0;0;0;0;0;0;0;0] ++ [1;1;1;1;1;1;1;1;1;1;1;1;1;1] ++ [2;2;2;2;2;2;2;2;2;2;2;2;2;2] ++ repeat 0 120)%nat
                  (dq_init_cfg true 400 0 2 [[CReq true 4 5%Z; CReq true 6 0%Z]; [CReq true 2 7%Z]; [CReq true 7 0%Z]])) in
  has_lost (Conc.trace c) = false /\
  List.length (fc_history Deque res_dec dq_dec (Conc.trace c)) = 8%nat /\
  lincheck Deque (fc_history Deque res_dec dq_dec (Conc.trace c)) = true.
Proof. vm_compute. repeat split; reflexivity. Qed.
