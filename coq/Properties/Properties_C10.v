(** Property C10 (placeholder while the kernel proofs are being written) *)
From Coq Require Import ZArith List.
From LV Require Import Base.Lin Spec.Specs Proofs.LinProofs Model.FcBatch Proofs.FcBatchProofs.
Import ListNotations.

Theorem C10_fcdeque_process_sound : forall reqs d p' d' cs,
  NoDup (map rec_of reqs) -> Forall (fun x => dq_okop (snd (fst (fst x))) = true) reqs ->
  dq_process None d reqs = (p', d', cs) ->
  let rho := reqs_env reqs in
  d' = d /\
  legal (Sp:=Deque) d (map (fun x => (op_of Deque dq_dec rho (fst x), snd x)) cs) /\
  final (Sp:=Deque) d (map (fun x => (op_of Deque dq_dec rho (fst x), snd x)) cs) = d /\
  NoDup (map fst cs) /\
  (forall q, In q (map fst cs) -> In q (map rec_of reqs)) /\
  (forall x, In x (held_of p') -> ~ In (fst (fst x)) (map fst cs)).
Proof. exact fcdeque_process_sound. Qed.
Print Assumptions C10_fcdeque_process_sound.

Theorem C10_fcdeque_cross_end_only_if_empty : forall reqs p d x,
  In x (dq_pairs p d reqs) -> dq_cross x = true -> d = [].
Proof. exact fcdeque_cross_end_only_if_empty. Qed.
Print Assumptions C10_fcdeque_cross_end_only_if_empty.
