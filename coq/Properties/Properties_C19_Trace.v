(** Property C19, trace level — iterators of FeldmanHashSet<HP> (LV.Model.FeldmanIter), every schedule.

    Proved here (relational proof rule Proofs/ConcRel.v; ghost value per iterating thread: the hashes AHEAD of the
    iterator in path order, Proofs/FeldmanIterTraceDefs.v .. FeldmanIterTraceThm.v):
      (b) COMPLETENESS, forward and reverse: in every execution of the model (any number of threads running any mix of
          insert / update / erase / contains / iterations with erase_at, any schedule), for every complete iteration of
          a thread every hash that is in the tree in all configurations from the invocation to the first configuration
          containing the response is visited at least once                                  [C19_feldman_iter_complete]
    The windows of the three fixed defects (converting slot; slot changed between load and protect; expansion of the
    slot the iterator stands on) are covered: they are the re-read branches of forward() / backward() in the model.
          every visited key is the key of an element that was in the tree at some configuration of the iteration
                                                                                           [C19_feldman_iter_visited_was_in]
          an element that is in the tree throughout is visited (the event carries its key) [C19_feldman_iter_complete_elem]
          (keys of existing items never change along an execution                                 [C19_feldman_keys_stable])
      (c) do_erase_at( iterator ), every schedule: an "erased 1" event of thread t (erase_at answered true) means that a step of
          t itself, after the last visit of t and before the event, cleared the unflagged slot of a reachable array node that
          held exactly the visited element x - every other position of the tree kept its content, x is at no position
          afterwards, exactly the hash of x left the set; "erased 0" (false) means that in some configuration after that visit
          x was at no position of the tree (removed or replaced by somebody else)            [C19_feldman_erase_at_trace]
          Both paths of do_erase_at are covered (slot CAS; unlink fall-back after the slot was expanded).
    NOT proved here: that a removed element never comes back (so "removed once" is: one removing step of this call is
    exhibited; a second removal of x by anybody would need x to be re-inserted, which the set operations never do with an
    existing item - not stated); that an element is visited AT MOST a bounded number of times; disposal (the model's retire
    is the two accesses of the retired array, no scan). *)
From Coq Require Import ZArith NArith List String.
From LV Require Import Base.Conc Base.Events Model.Feldman Model.FeldmanIter Proofs.FeldmanStepThm Proofs.FeldmanIterThm Proofs.FeldmanIterTraceInv.
From LV Require Import Proofs.FeldmanIterTraceThm Proofs.FeldmanIterTraceKeys Proofs.FeldmanIterTraceEx.
Import ListNotations.

(** [steps c0 cs c]: an execution from [c0] to [c]; [cs] lists all its configurations in order.
    [during cs tr0 mid c']: configuration [c'] of the execution lies between the invocation (the event after [tr0]) and the
    first configuration whose trace contains the response (the event after [mid]) *)
Definition during (cs : list (Conc.config G V ev)) (tr0 mid : list (nat * ev)) (c' : Conc.config G V ev) : Prop :=
  In c' cs /\ List.length tr0 < List.length (Conc.trace c') /\
  (forall c1, In c1 cs -> List.length tr0 + 1 + List.length mid < List.length (Conc.trace c1) ->
              List.length (Conc.trace c') <= List.length (Conc.trace c1)).

(** a complete iteration of thread [t] in the trace of [c] *)
Definition iteration (c : Conc.config G V ev) (t : nat) (tr0 mid : list (nat * ev)) : Prop :=
  exists code k rest, (code = 20 \/ code = 21) /\
    Conc.trace c = tr0 ++ [(t, Feldman.ev_inv code k)] ++ mid ++ [(t, Feldman.ev_ret true false)] ++ rest /\
    (forall e, In (t, e) mid -> is_cli "inv" e = false /\ is_cli "ret" e = false).

(** (b1) completeness at the level of hashes (FeldmanHashSet identifies an element with its hash) *)
Theorem C19_feldman_iter_complete :
  forall (hbits abits W : nat) (hs : list N), 0 < hbits -> 0 < abits ->
  forall (fuel : nat) (ths : list (list (list Z))) cs c,
    steps (FeldmanIter.init_cfgI hbits abits W hs fuel ths) cs c ->
    forall t tr0 mid, iteration c t tr0 mid ->
      forall h, (forall c', during cs tr0 mid c' -> present hs (Conc.shared c') h) ->
        exists k', In (t, FeldmanIter.ev_visit k') mid /\ Feldman.hash hs k' = h.
Proof.
  intros hbits abits W hs Hh Ha fuel ths cs c Hst t tr0 mid (code & k & rest & Hc & Etr & Hmid) h Hp.
  apply (@feldman_iter_complete_hash hbits abits W hs Hh Ha fuel ths cs c Hst t code k tr0 mid rest Hc Etr Hmid h).
  intros c' H1 H2 H3. apply Hp. split; [exact H1|]. split; [exact H2|exact H3].
Qed.
Print Assumptions C19_feldman_iter_complete.

(** (b2) every visited key is the key of an element that was in the tree in some configuration during the iteration *)
Theorem C19_feldman_iter_visited_was_in :
  forall (hbits abits W : nat) (hs : list N), 0 < hbits -> 0 < abits ->
  forall (fuel : nat) (ths : list (list (list Z))) cs c,
    steps (FeldmanIter.init_cfgI hbits abits W hs fuel ths) cs c ->
    forall t tr0 mid, iteration c t tr0 mid ->
      forall k', In (t, FeldmanIter.ev_visit k') mid ->
        exists y c', during cs tr0 mid c' /\ (exists a i, data_at (Conc.shared c') a i y) /\ ikey (Conc.shared c') y = k'.
Proof.
  intros hbits abits W hs Hh Ha fuel ths cs c Hst t tr0 mid (code & k & rest & Hc & Etr & Hmid) k' Hv.
  destruct (@feldman_iter_visited_was_in hbits abits W hs Hh Ha fuel ths cs c Hst t code k tr0 mid rest Hc Etr Hmid k' Hv)
    as (y & c' & H1 & H2 & H3 & H4 & H5).
  exists y, c'. split; [split; [exact H1|split; [exact H2|exact H3]]|]. split; assumption.
Qed.
Print Assumptions C19_feldman_iter_visited_was_in.

(** (b3) completeness for an element: an element that is in the tree in every configuration during the iteration is
    visited, and the "visit" event carries its key *)
Theorem C19_feldman_iter_complete_elem :
  forall (hbits abits W : nat) (hs : list N), 0 < hbits -> 0 < abits ->
  forall (fuel : nat) (ths : list (list (list Z))) cs c,
    steps (FeldmanIter.init_cfgI hbits abits W hs fuel ths) cs c ->
    forall t tr0 mid, iteration c t tr0 mid ->
      forall x, (forall c', during cs tr0 mid c' -> exists a i, data_at (Conc.shared c') a i x) ->
        In (t, FeldmanIter.ev_visit (ikey (Conc.shared c) x)) mid.
Proof.
  intros hbits abits W hs Hh Ha fuel ths cs c Hst t tr0 mid (code & k & rest & Hc & Etr & Hmid) x Hx.
  apply (@feldman_iter_complete_elem_keys hbits abits W hs Hh Ha fuel ths cs c Hst t code k tr0 mid rest Hc Etr Hmid x).
  intros c' H1 H2 H3. apply Hx. split; [exact H1|]. split; [exact H2|exact H3].
Qed.
Print Assumptions C19_feldman_iter_complete_elem.

(** the key of an existing item is the same in every later configuration of an execution; item ids only grow *)
Theorem C19_feldman_keys_stable :
  forall (hbits abits W : nat) (hs : list N) (fuel : nat) (ths : list (list (list Z))) cs c,
    steps (FeldmanIter.init_cfgI hbits abits W hs fuel ths) cs c ->
    forall c', In c' cs ->
      nitem (Conc.shared c') <= nitem (Conc.shared c) /\
      forall x, x <= nitem (Conc.shared c') -> ikey (Conc.shared c) x = ikey (Conc.shared c') x.
Proof. intros hbits abits W hs fuel ths cs c Hst c' Hin. exact (@feldman_iter_keys hbits abits W hs fuel ths cs c Hst c' Hin). Qed.
Print Assumptions C19_feldman_keys_stable.

(** (c) do_erase_at at trace level.  [consecutive cs c1 c2]: [c2] follows [c1] in the execution *)
Definition consecutive (cs : list (Conc.config G V ev)) (c1 c2 : Conc.config G V ev) : Prop :=
  exists l1 l2, cs = l1 ++ c1 :: c2 :: l2.

Theorem C19_feldman_erase_at_trace :
  forall (hbits abits W : nat) (hs : list N), 0 < hbits -> 0 < abits ->
  forall (fuel : nat) (ths : list (list (list Z))) cs c,
    steps (FeldmanIter.init_cfgI hbits abits W hs fuel ths) cs c ->
    forall t e b, nth_error (Conc.trace c) e = Some (t, FeldmanIter.ev_erased b) ->
    exists v k x,
      v < e /\ nth_error (Conc.trace c) v = Some (t, FeldmanIter.ev_visit k) /\
      (forall j k', v < j -> j < e -> nth_error (Conc.trace c) j <> Some (t, FeldmanIter.ev_visit k')) /\
      x <> 0 /\ (exists c', In c' cs /\ (exists a i, data_at (Conc.shared c') a i x) /\ ikey (Conc.shared c') x = k) /\
      (b = true ->
         exists c1 c2, consecutive cs c1 c2 /\ (exists es, Conc.trace c2 = Conc.trace c1 ++ Conc.tag t es) /\
           v < List.length (Conc.trace c1) /\ List.length (Conc.trace c1) < e /\
           (exists a i, arr (Conc.shared c1) a i = mkSlot x 0 /\ reach_arr (Conc.shared c1) a /\
                        Conc.shared c2 = erase_at_state (Conc.shared c1) a i) /\
           (forall a' i' y, data_at (Conc.shared c2) a' i' y <->
                            (data_at (Conc.shared c1) a' i' y /\ arr (Conc.shared c1) a' i' <> mkSlot x 0)) /\
           (forall a' i', ~ data_at (Conc.shared c2) a' i' x) /\
           (forall h, present hs (Conc.shared c2) h <->
                      (present hs (Conc.shared c1) h /\ h <> Feldman.hash hs (ikey (Conc.shared c1) x)))) /\
      (b = false ->
         exists c', In c' cs /\ v < List.length (Conc.trace c') /\ forall a i, ~ data_at (Conc.shared c') a i x).
Proof.
  intros hbits abits W hs Hh Ha fuel ths cs c Hst t e b E.
  destruct (@feldman_iter_erase_at hbits abits W hs Hh Ha fuel ths cs c Hst t e b E)
    as (v & k & x & H1 & H2 & H3 & Hx & H4 & H5 & H6).
  exists v, k, x. split; [exact H1|]. split; [exact H2|]. split; [exact H3|]. split; [exact Hx|]. split; [exact H4|]. split; [|exact H6].
  intros Hb. destruct (H5 Hb) as (c1 & c2 & R & R3 & R4). exists c1, c2.
  pose proof (@removal_exact hbits abits W hs Hh Ha fuel ths cs c t c1 c2 x Hst R Hx) as (X1 & X2 & X3).
  destruct R as (R1 & R2 & R5).
  split; [exact R1|]. split; [exact R2|]. split; [exact R3|]. split; [exact R4|]. split; [exact R5|]. split; [exact X1|]. split; [exact X2|exact X3].
Qed.
Print Assumptions C19_feldman_erase_at_trace.

(** executions are exactly what [Conc.reach] relates *)
Theorem C19_steps_reach :
  forall (c0 c : Conc.config G V ev), Conc.reach c0 c <-> exists cs, steps c0 cs c.
Proof. exact (@reach_steps G V ev). Qed.
Print Assumptions C19_steps_reach.

(** non-vacuity: thread 0 inserts keys 0 (hash 5) and 3 (hash 2) and iterates forward; after it has visited key 3, thread 1
    inserts key 1 (hash 21: same head slot as key 0), which converts head slot 5 into an array node; thread 0 goes on, descends
    into the new array node and visits keys 0 and 1.  The hypotheses of the theorem hold for h = 5 (and the conclusion is
    visible in the trace). *)
Example C19_feldman_iter_complete_nonvacuous :
  let c0 := FeldmanIter.init_cfgI 4 2 32 [5; 21; 37; 2]%N 60 [[[1;0];[1;3];[20;99]]; [[1;1]]]%Z in
  let r := exec (repeat 0 36 ++ repeat 1 80 ++ repeat 0 300)%nat c0 [c0] in
  let tr := Conc.trace (snd r) in
  let tr0 := firstn 27 tr in
  let mid := firstn 71 (skipn 28 tr) in
  steps c0 (fst r) (snd r) /\ iteration (snd r) 0 tr0 mid /\
  (forall c', during (fst r) tr0 mid c' -> present [5; 21; 37; 2]%N (Conc.shared c') 5%N) /\
  narr (Conc.shared (snd r)) = 2 /\ arr (Conc.shared (snd r)) 0 5 = mkSlot 1 2 /\
  In (0, FeldmanIter.ev_visit 0) mid.
Proof.
  cbv zeta. split; [apply exec_steps; constructor|].
  split.
  { exists 20, 99, []. split; [left; reflexivity|]. split; [vm_compute; reflexivity|]. apply mid_plain_b. vm_compute. reflexivity. }
  split.
  { intros c' (H1 & H2 & _). revert c' H1 H2.
    replace (List.length (firstn 27 (Conc.trace (snd (exec (repeat 0 36 ++ repeat 1 80 ++ repeat 0 300)%nat
               (FeldmanIter.init_cfgI 4 2 32 [5; 21; 37; 2]%N 60 [[[1;0];[1;3];[20;99]]; [[1;1]]]%Z)
               [FeldmanIter.init_cfgI 4 2 32 [5; 21; 37; 2]%N 60 [[[1;0];[1;3];[20;99]]; [[1;1]]]%Z]))))) with 27 by (vm_compute; reflexivity).
    apply (@present_all_b 4 2). vm_compute. reflexivity. }
  split; [vm_compute; reflexivity|]. split; [vm_compute; reflexivity|].
  vm_compute. tauto.
Qed.

(** non-vacuity of (c), answer true through the unlink fall-back: thread 0 is stopped after the visit of key 0, thread 1 inserts
    key 1 and thereby expands the slot, then do_erase_at finds the slot flagged and removes the element through unlink *)
Example C19_feldman_erase_at_true_nonvacuous :
  let c0 := FeldmanIter.init_cfgI 4 2 32 [5; 21; 37; 2]%N 60 [[[1;0];[1;3];[20;0]]; [[1;1]]]%Z in
  let r := exec (repeat 0 41 ++ repeat 1 80 ++ repeat 0 300)%nat c0 [c0] in
  steps c0 (fst r) (snd r) /\ nth_error (Conc.trace (snd r)) 85 = Some (0, FeldmanIter.ev_erased true) /\
  nth_error (Conc.trace (snd r)) 45 = Some (0, FeldmanIter.ev_visit 0) /\ arr (Conc.shared (snd r)) 0 5 = mkSlot 1 2.
Proof. cbv zeta. split; [apply exec_steps; constructor|]. vm_compute. repeat split. Qed.

(** ... answer false: thread 1 erases key 0 between the visit and do_erase_at *)
Example C19_feldman_erase_at_false_nonvacuous :
  let c0 := FeldmanIter.init_cfgI 4 2 32 [5; 21; 37; 2]%N 60 [[[1;0];[1;3];[20;0]]; [[7;0]]]%Z in
  let r := exec (repeat 0 41 ++ repeat 1 80 ++ repeat 0 300)%nat c0 [c0] in
  steps c0 (fst r) (snd r) /\ nth_error (Conc.trace (snd r)) 64 = Some (0, FeldmanIter.ev_erased false) /\
  nth_error (Conc.trace (snd r)) 45 = Some (0, FeldmanIter.ev_visit 0).
Proof. cbv zeta. split; [apply exec_steps; constructor|]. vm_compute. repeat split. Qed.
