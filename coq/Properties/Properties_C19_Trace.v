(** Property C19, trace level — iterators of FeldmanHashSet<HP> (LV.Model.FeldmanIter), every schedule.

    Proved here (relational proof rule Proofs/ConcRel.v; ghost value per iterating thread: the hashes AHEAD of the
    iterator in path order, Proofs/FeldmanIterTraceDefs.v .. FeldmanIterTraceThm.v):
      (b) COMPLETENESS, forward and reverse: in every execution of the model (any number of threads running any mix of
          insert / update / erase / contains / iterations with erase_at, any schedule), for every complete iteration of
          a thread every hash that is in the tree in all configurations from the invocation to the first configuration
          containing the response is visited at least once                                  [C19_feldman_iter_complete]
    The windows of the three fixed defects (converting slot; slot changed between load and protect; expansion of the
    slot the iterator stands on) are covered: they are the re-read branches of forward() / backward() in the model.
          every visited key is the key of an element that was in the tree at some configuration of the iteration
                                                                                           [C19_feldman_iter_visited_was_in]
          an element that is in the tree with its key throughout is visited          [C19_feldman_iter_complete_elem]
    NOT proved here: the trace-level form of erase_at exactness (state-level halves: Properties_C19.v (3), (4)); that an
    element is visited AT MOST a bounded number of times; "keys of existing items never change" (true of the model, not part
    of FeldmanStepRel.Rel2: (b3) takes the constancy of the key as part of "the element is in the tree"). *)
From Coq Require Import ZArith NArith List String.
From LV Require Import Base.Conc Base.Events Model.Feldman Model.FeldmanIter Proofs.FeldmanStepThm.
From LV Require Import Proofs.FeldmanIterTraceThm Proofs.FeldmanIterTraceEx.
Import ListNotations.

(** [steps c0 cs c]: an execution from [c0] to [c]; [cs] lists all its configurations in order.
    [during cs tr0 mid c']: configuration [c'] of the execution lies between the invocation (the event after [tr0]) and the
    first configuration whose trace contains the response (the event after [mid]) *)
Definition during (cs : list (Conc.config G V ev)) (tr0 mid : list (nat * ev)) (c' : Conc.config G V ev) : Prop :=
  In c' cs /\ List.length tr0 < List.length (Conc.trace c') /\
  (forall c1, In c1 cs -> List.length tr0 + 1 + List.length mid < List.length (Conc.trace c1) ->
              List.length (Conc.trace c') <= List.length (Conc.trace c1)).

(** a complete iteration of thread [t] in the trace of [c] *)
Definition iteration (c : Conc.config G V ev) (t : nat) (tr0 mid : list (nat * ev)) : Prop :=
  exists code k rest, (code = 20 \/ code = 21) /\
    Conc.trace c = tr0 ++ [(t, Feldman.ev_inv code k)] ++ mid ++ [(t, Feldman.ev_ret true false)] ++ rest /\
    (forall e, In (t, e) mid -> is_cli "inv" e = false /\ is_cli "ret" e = false).

(** (b1) completeness at the level of hashes (FeldmanHashSet identifies an element with its hash) *)
Theorem C19_feldman_iter_complete :
  forall (hbits abits W : nat) (hs : list N), 0 < hbits -> 0 < abits ->
  forall (fuel : nat) (ths : list (list (list Z))) cs c,
    steps (FeldmanIter.init_cfgI hbits abits W hs fuel ths) cs c ->
    forall t tr0 mid, iteration c t tr0 mid ->
      forall h, (forall c', during cs tr0 mid c' -> present hs (Conc.shared c') h) ->
        exists k', In (t, FeldmanIter.ev_visit k') mid /\ Feldman.hash hs k' = h.
Proof.
  intros hbits abits W hs Hh Ha fuel ths cs c Hst t tr0 mid (code & k & rest & Hc & Etr & Hmid) h Hp.
  apply (@feldman_iter_complete_hash hbits abits W hs Hh Ha fuel ths cs c Hst t code k tr0 mid rest Hc Etr Hmid h).
  intros c' H1 H2 H3. apply Hp. split; [exact H1|]. split; [exact H2|exact H3].
Qed.
Print Assumptions C19_feldman_iter_complete.

(** (b2) every visited key is the key of an element that was in the tree in some configuration during the iteration *)
Theorem C19_feldman_iter_visited_was_in :
  forall (hbits abits W : nat) (hs : list N), 0 < hbits -> 0 < abits ->
  forall (fuel : nat) (ths : list (list (list Z))) cs c,
    steps (FeldmanIter.init_cfgI hbits abits W hs fuel ths) cs c ->
    forall t tr0 mid, iteration c t tr0 mid ->
      forall k', In (t, FeldmanIter.ev_visit k') mid ->
        exists y c', during cs tr0 mid c' /\ (exists a i, data_at (Conc.shared c') a i y) /\ ikey (Conc.shared c') y = k'.
Proof.
  intros hbits abits W hs Hh Ha fuel ths cs c Hst t tr0 mid (code & k & rest & Hc & Etr & Hmid) k' Hv.
  destruct (@feldman_iter_visited_was_in hbits abits W hs Hh Ha fuel ths cs c Hst t code k tr0 mid rest Hc Etr Hmid k' Hv)
    as (y & c' & H1 & H2 & H3 & H4 & H5).
  exists y, c'. split; [split; [exact H1|split; [exact H2|exact H3]]|]. split; assumption.
Qed.
Print Assumptions C19_feldman_iter_visited_was_in.

(** (b3) completeness for an element: an element that is in the tree, with its key, in every configuration during the
    iteration is visited (the "visit" event carries its key) *)
Theorem C19_feldman_iter_complete_elem :
  forall (hbits abits W : nat) (hs : list N), 0 < hbits -> 0 < abits ->
  forall (fuel : nat) (ths : list (list (list Z))) cs c,
    steps (FeldmanIter.init_cfgI hbits abits W hs fuel ths) cs c ->
    forall t tr0 mid, iteration c t tr0 mid ->
      forall x kx,
        (forall c', during cs tr0 mid c' -> (exists a i, data_at (Conc.shared c') a i x) /\ ikey (Conc.shared c') x = kx) ->
        In (t, FeldmanIter.ev_visit kx) mid.
Proof.
  intros hbits abits W hs Hh Ha fuel ths cs c Hst t tr0 mid (code & k & rest & Hc & Etr & Hmid) x kx Hx.
  apply (@feldman_iter_complete_elem hbits abits W hs Hh Ha fuel ths cs c Hst t code k tr0 mid rest Hc Etr Hmid x kx).
  intros c' H1 H2 H3. apply Hx. split; [exact H1|]. split; [exact H2|exact H3].
Qed.
Print Assumptions C19_feldman_iter_complete_elem.

(** executions are exactly what [Conc.reach] relates *)
Theorem C19_steps_reach :
  forall (c0 c : Conc.config G V ev), Conc.reach c0 c <-> exists cs, steps c0 cs c.
Proof. exact (@reach_steps G V ev). Qed.
Print Assumptions C19_steps_reach.

(** non-vacuity: thread 0 inserts keys 0 (hash 5) and 3 (hash 2) and iterates forward; after it has visited key 3, thread 1
    inserts key 1 (hash 21: same head slot as key 0), which converts head slot 5 into an array node; thread 0 goes on, descends
    into the new array node and visits keys 0 and 1.  The hypotheses of the theorem hold for h = 5 (and the conclusion is
    visible in the trace). *)
Example C19_feldman_iter_complete_nonvacuous :
  let c0 := FeldmanIter.init_cfgI 4 2 32 [5; 21; 37; 2]%N 60 [[[1;0];[1;3];[20;99]]; [[1;1]]]%Z in
  let r := exec (repeat 0 36 ++ repeat 1 80 ++ repeat 0 300)%nat c0 [c0] in
  let tr := Conc.trace (snd r) in
  let tr0 := firstn 27 tr in
  let mid := firstn 71 (skipn 28 tr) in
  steps c0 (fst r) (snd r) /\ iteration (snd r) 0 tr0 mid /\
  (forall c', during (fst r) tr0 mid c' -> present [5; 21; 37; 2]%N (Conc.shared c') 5%N) /\
  narr (Conc.shared (snd r)) = 2 /\ arr (Conc.shared (snd r)) 0 5 = mkSlot 1 2 /\
  In (0, FeldmanIter.ev_visit 0) mid.
Proof.
  cbv zeta. split; [apply exec_steps; constructor|].
  split.
  { exists 20, 99, []. split; [left; reflexivity|]. split; [vm_compute; reflexivity|]. apply mid_plain_b. vm_compute. reflexivity. }
  split.
  { intros c' (H1 & H2 & _). revert c' H1 H2.
    replace (List.length (firstn 27 (Conc.trace (snd (exec (repeat 0 36 ++ repeat 1 80 ++ repeat 0 300)%nat
               (FeldmanIter.init_cfgI 4 2 32 [5; 21; 37; 2]%N 60 [[[1;0];[1;3];[20;99]]; [[1;1]]]%Z)
               [FeldmanIter.init_cfgI 4 2 32 [5; 21; 37; 2]%N 60 [[[1;0];[1;3];[20;99]]; [[1;1]]]%Z]))))) with 27 by (vm_compute; reflexivity).
    apply (@present_all_b 4 2). vm_compute. reflexivity. }
  split; [vm_compute; reflexivity|]. split; [vm_compute; reflexivity|].
  vm_compute. tauto.
Qed.
