(** Property C01 -- Hazard Pointer SMR, additions to Properties_C01.v (second sentence for copied guards; the
    hypothesis of [C01_no_overflow]).

    Only statements here; proofs in LV.Proofs.HpLiveCopy*.v (a second invariant [HpLiveCopyInv.Inv2] established on top of
    [HpInv.Inv] with the rule of HpLiveCopyRule.v) and LV.Proofs.HpRecords.v.  Model: LV.Model.Hp.  All theorems quantify
    over every configuration, every list of client programs and every schedule ([Conc.reach]).

    Vocabulary: [HpLiveCopyInv.chain tr s r p]: from index s to the end of tr, at every step some hazard slot of thread
    record r holds p and the index of that slot never decreases ([held] is the case of a constant index).
    [HpLive.client_discipline], [HpLive.releases]: as in [C01_guarded_ptr_live]. *)
From Coq Require Import ZArith List String Lia.
From LV Require Import Base.Conc Base.Events Model.Hp Proofs.HpTrace Proofs.HpInv Proofs.HpProofs Proofs.HpLive
  Proofs.HpLiveCopyInv Proofs.HpLiveCopy Proofs.HpLiveCopyMulti Proofs.HpLiveCopyDown Proofs.HpRecords.
Import ListNotations.
Local Open Scope string_scope.

(** First sentence, generalised from one slot to a chain of slots of one record whose index only grows (classic scan):
    a disposer call on p made by a scan that began at s is impossible if since s, at every step, some slot of record r
    held p and that slot index never decreased.  Reason: classic_scan reads hazards_[0..H-1] of a record in ascending
    order. ([C01_no_dispose_while_guarded] is the constant chain.) *)
Theorem C01_no_dispose_while_chained :
  forall (c : cfgT) (ths : list (list op)) cf,
    cInplace c = false -> Conc.reach (Hp.init_cfg c ths) cf ->
    forall d t p s, nth_error (Conc.trace cf) d = Some (t, ev_dispose p) ->
      last_sb (firstn d (Conc.trace cf)) t = Some s -> p <> 0%Z ->
      forall r, ~ chain (firstn (S d) (Conc.trace cf)) s r p.
Proof. exact hp_no_dispose_while_chained. Qed.
Print Assumptions C01_no_dispose_while_chained.

(** Second sentence for a guard obtained by Guard::copy / GuardArray::copy towards a HIGHER slot index of the same
    thread.  Under the client discipline, classic scan, in every reachable configuration: if protect() of thread t
    returned p into slot i ("protected i p" at v0), t then copied slot i into slot j > i ("copy j i" at c0, its return
    "copied" at v1, no other operation of t started in between) and p is given to its disposer at a later index d, then
    t started an operation that releases slot i before the copy returned, or an operation that releases slot j between
    the return of the copy and d.  I.e. the copy protects p from the moment copy() returns until the DESTINATION guard
    is released, whatever happens to the source guard afterwards. *)
Definition C01_copied_ptr_live_statement : Prop :=
  forall (c : cfgT) (ths : list (list op)) cf,
    cInplace c = false ->
    Conc.reach (Hp.init_cfg c ths) cf -> client_discipline (Conc.trace cf) ->
    forall v0 c0 v1 d t u i j p,
      (v0 < c0)%nat -> (c0 < v1)%nat -> (v1 < d)%nat -> (i < j)%nat -> p <> 0%Z ->
      nth_error (Conc.trace cf) v0 = Some (t, EvCli "protected" [zn i; p]) ->
      nth_error (Conc.trace cf) c0 = Some (t, EvCli "copy" [zn j; zn i]) ->
      nth_error (Conc.trace cf) v1 = Some (t, EvCli "copied" []) ->
      (forall m e, (c0 < m < v1)%nat -> nth_error (Conc.trace cf) m = Some (t, e) -> is_opstart e = false) ->
      nth_error (Conc.trace cf) d = Some (u, ev_dispose p) ->
      exists m e, nth_error (Conc.trace cf) m = Some (t, e) /\
        (((v0 < m < v1)%nat /\ releases i e) \/ ((v1 < m < d)%nat /\ releases j e)).
Theorem C01_copied_ptr_live : C01_copied_ptr_live_statement.
Proof. exact hp_copied_ptr_live. Qed.
Print Assumptions C01_copied_ptr_live.

(** non-vacuity: HP(2,2,8,classic).  Thread 0 publishes object 4, protects it in slot 0 ("protected 0 4", event 20),
    copies slot 0 into slot 1 ("copy 1 0" at 21, "copied" at 26), clears slot 0 (store at 29) and uses the pointer
    through slot 1.  Thread 1 unlinks and retires object 4 and scans: that scan (events 52..62) KEEPS object 4 although
    the source guard is already null -- only the copy protects it.  Thread 0 clears slot 1 (operation started at 32,
    store at 66); thread 1's second scan disposes object 4 at event 78. *)
Definition C01_copy_up_example :=
  Hp.run_case [2;2;8;0;1;50]%Z [[[1];[6;0;4];[3;0;0];[10;1;0];[5;0];[9;1];[5;1]]; [[1];[6;0;0];[8];[8]]]%Z
    (repeat 0%nat 14 ++ repeat 1%nat 19 ++ repeat 0%nat 1 ++ repeat 1%nat 10) 1000.
Example C01_copied_ptr_live_nonvacuous :
  let tr := fst C01_copy_up_example in
  snd C01_copy_up_example = true /\
  nth_error tr 20 = Some (0%nat, EvCli "protected" [0; 4]%Z) /\
  nth_error tr 21 = Some (0%nat, EvCli "copy" [1; 0]%Z) /\
  nth_error tr 26 = Some (0%nat, EvCli "copied" []) /\
  slot_at (firstn 30 tr) 0 0 = 0%Z /\
  nth_error tr 62 = Some (1%nat, ev_scan_end 1 [4%Z]) /\
  nth_error tr 32 = Some (0%nat, EvCli "clear" [1%Z]) /\
  nth_error tr 78 = Some (1%nat, ev_dispose 4) /\
  cnt "retire" 4 tr = 1%Z /\ cnt "dispose" 4 tr = 1%Z.
Proof. vm_compute. repeat split; reflexivity. Qed.

(** The same for a guard obtained through ANY NUMBER of upward copies.  [HpLiveCopyMulti.guards tr t p j v]: at index v
    thread t obtained a guard on p in slot j: protect() returned p into slot j at v ("protected j p"), or a copy
    "copy j i" ... "copied" (returning at v) from a slot i < j that was itself such a guard and was not released
    before that copy returned.  Then p is not disposed after v before t starts an operation releasing slot j. *)
Definition C01_guards_live_statement : Prop :=
  forall (c : cfgT) (ths : list (list op)) cf,
    cInplace c = false ->
    Conc.reach (Hp.init_cfg c ths) cf -> client_discipline (Conc.trace cf) ->
    forall v d t u j p, (v < d)%nat -> p <> 0%Z ->
      guards (Conc.trace cf) t p j v ->
      nth_error (Conc.trace cf) d = Some (u, ev_dispose p) ->
      exists m e, (v < m < d)%nat /\ nth_error (Conc.trace cf) m = Some (t, e) /\ releases j e.
Theorem C01_guards_live : C01_guards_live_statement.
Proof. exact hp_guards_live. Qed.
Print Assumptions C01_guards_live.

(** non-vacuity: in [C01_copy_up_example] thread 0 holds such a guard on object 4 in slot 1 from event 26 on *)
Example C01_guards_live_nonvacuous : guards (fst C01_copy_up_example) 0 4%Z 1 26.
Proof.
  apply (G_copy _ 0 4%Z 0 1 20 21 26); [apply G_prot; vm_compute; reflexivity|lia|lia|lia|vm_compute; reflexivity|vm_compute; reflexivity| |].
  - intros m e Hm Hn.
    pose proof (indexed_check (fst C01_copy_up_example)
                  (fun x => negb (Nat.ltb 21 (fst x) && Nat.ltb (fst x) 26) || negb (is_opstart (snd (snd x))))%bool) as K.
    specialize (K ltac:(vm_compute; reflexivity) m _ Hn). cbn [fst snd] in K.
    destruct (Nat.ltb_spec 21 m); [|lia]. destruct (Nat.ltb_spec m 26); [|lia]. cbn in K. now apply Bool.negb_true_iff in K.
  - intros m e Hm Hn.
    pose proof (indexed_check (fst C01_copy_up_example)
                  (fun x => negb (Nat.ltb 20 (fst x) && Nat.ltb (fst x) 26) || negb (rel_b 0 (snd (snd x))))%bool) as K.
    specialize (K ltac:(vm_compute; reflexivity) m _ Hn). cbn [fst snd] in K.
    destruct (Nat.ltb_spec 20 m); [|lia]. destruct (Nat.ltb_spec m 26); [|lia]. cbn in K. now apply Bool.negb_true_iff in K.
Qed.

(** Necessity of "higher": the same statement for a copy into a LOWER slot (j < i) is false: computed schedule on the
    model in which the scan reads the destination slot before the copy's store and the source slot after its release
    ([HpLiveCopyDown.cd_facts]; known finding "hp-guard-copy-downward", corpus/C01/010-copy-down.json on the real code). *)
Theorem C01_copy_downward_refuted : ~ copied_ptr_live_statement (fun i j => (j < i)%nat).
Proof. exact hp_copy_downward_refuted. Qed.
Print Assumptions C01_copy_downward_refuted.

(** What is NOT proved: [C01_copied_ptr_live] for the in-place scan (hypothesis [cInplace c = false]).  inplace_scan
    reads the slots in the same ascending order; missing is only that the retired array a scan works on holds no object
    twice when no object is retired twice (in HpInv.Inv this follows from the claim the scanning thread holds, which
    the rule of HpLiveCopyRule does not expose). *)
Definition C01_copied_ptr_live_inplace_statement : Prop :=
  forall (c : cfgT) (ths : list (list op)) cf,
    Conc.reach (Hp.init_cfg c ths) cf -> client_discipline (Conc.trace cf) ->
    forall v0 c0 v1 d t u i j p,
      (v0 < c0)%nat -> (c0 < v1)%nat -> (v1 < d)%nat -> (i < j)%nat -> p <> 0%Z ->
      nth_error (Conc.trace cf) v0 = Some (t, EvCli "protected" [zn i; p]) ->
      nth_error (Conc.trace cf) c0 = Some (t, EvCli "copy" [zn j; zn i]) ->
      nth_error (Conc.trace cf) v1 = Some (t, EvCli "copied" []) ->
      (forall m e, (c0 < m < v1)%nat -> nth_error (Conc.trace cf) m = Some (t, e) -> is_opstart e = false) ->
      nth_error (Conc.trace cf) d = Some (u, ev_dispose p) ->
      exists m e, nth_error (Conc.trace cf) m = Some (t, e) /\
        (((v0 < m < v1)%nat /\ releases i e) \/ ((v1 < m < d)%nat /\ releases j e)).

(** The hypothesis of [C01_no_overflow] ("thread_list_ holds at most P records") does NOT follow from "at most P
    threads use the SMR at any instant": alloc_thread_data re-uses a record whose owner_rec_ is null, but help_scan
    (run by every detaching thread) takes ownership of an orphaned record with the same compare_exchange while it
    moves its retired pointers; a thread attaching in that window sees every record owned and creates a new one.
    Two threads in total, P = 2, three records ([HpRecords.rx_trace]). *)
Theorem C01_records_le_P_refuted : ~ records_le_P_statement.
Proof. exact hp_records_le_P_refuted. Qed.
Print Assumptions C01_records_le_P_refuted.

Theorem C01_records_exceed_P :
  exists (c : cfgT) (ths : list (list op)) cf,
    Conc.reach (Hp.init_cfg c ths) cf /\ (List.length ths <= cP c)%nat /\
    (forall n, (live_threads (firstn n (Conc.trace cf)) (List.length ths) <= cP c)%nat) /\
    (cP c < List.length (g_list (Conc.shared cf)))%nat.
Proof. exact hp_records_exceed_P. Qed.
Print Assumptions C01_records_exceed_P.

(** ------------------------------------------------------------------------------------------------------------------
    BOTH scans (in-place scan included).  Proofs: LV.Proofs.HpLiveInplace{Rule,Inv,Safe,Safe2,Glue}.v and
    LV.Proofs.HpLiveInplace.v.  The invariant [HpLiveInplaceInv.Inv3] adds to [HpLiveCopyInv.Inv2] the fact that the
    retired array an in-place scan loaded holds no object more often than it was retired; it is read off the claim
    the scanning thread holds in [HpInv.Inv] at the current_ load of inplace_scan (rule [HpLiveInplaceRule.safe_pair1]).
    The theorems below carry NO hypothesis on the scan kind. *)
From LV Require Import Proofs.HpLiveInplaceInv Proofs.HpLiveInplace.

(** First sentence for a chain of slots, both scans.  For the in-place scan: given that no object was retired twice
    before the disposer call (as [C01_no_dispose_while_guarded]; inplace_scan marks only the first of two equal
    cells of the sorted array, so the hypothesis is necessary). *)
Theorem C01_no_dispose_while_chained_both :
  forall (c : cfgT) (ths : list (list op)) cf,
    Conc.reach (Hp.init_cfg c ths) cf ->
    forall d t p s, nth_error (Conc.trace cf) d = Some (t, ev_dispose p) ->
      last_sb (firstn d (Conc.trace cf)) t = Some s ->
      (cInplace c = true -> retire_once (firstn d (Conc.trace cf))) -> p <> 0%Z ->
      forall r, ~ chain (firstn (S d) (Conc.trace cf)) s r p.
Proof. exact hp_no_dispose_while_chained_both. Qed.
Print Assumptions C01_no_dispose_while_chained_both.

(** The statement kept open above: [C01_copied_ptr_live] without [cInplace c = false]. *)
Theorem C01_copied_ptr_live_inplace : C01_copied_ptr_live_inplace_statement.
Proof. exact hp_copied_ptr_live_both. Qed.
Print Assumptions C01_copied_ptr_live_inplace.

(** [C01_guards_live] (any number of upward copies) without [cInplace c = false]. *)
Definition C01_guards_live_both_statement : Prop :=
  forall (c : cfgT) (ths : list (list op)) cf,
    Conc.reach (Hp.init_cfg c ths) cf -> client_discipline (Conc.trace cf) ->
    forall v d t u j p, (v < d)%nat -> p <> 0%Z ->
      guards (Conc.trace cf) t p j v ->
      nth_error (Conc.trace cf) d = Some (u, ev_dispose p) ->
      exists m e, (v < m < d)%nat /\ nth_error (Conc.trace cf) m = Some (t, e) /\ releases j e.
Theorem C01_guards_live_both : C01_guards_live_both_statement.
Proof. exact hp_guards_live_both. Qed.
Print Assumptions C01_guards_live_both.

(** non-vacuity: the run of [C01_copy_up_example] with the IN-PLACE scan, HP(2,2,8,inplace); object 4 is even, so
    inplace_scan does not fall back to classic_scan.  Same story: the first scan of thread 1 (events 52..62) keeps
    object 4 although the source guard (slot 0) is already null -- only the copy in slot 1 protects it; after thread 0
    cleared slot 1 (store at 66) the second scan disposes it (event 78). *)
Definition C01_copy_up_example_inplace :=
  Hp.run_case [2;2;8;1;1;50]%Z [[[1];[6;0;4];[3;0;0];[10;1;0];[5;0];[9;1];[5;1]]; [[1];[6;0;0];[8];[8]]]%Z
    (repeat 0%nat 14 ++ repeat 1%nat 19 ++ repeat 0%nat 1 ++ repeat 1%nat 10) 1000.
Example C01_copied_ptr_live_inplace_nonvacuous :
  let tr := fst C01_copy_up_example_inplace in
  snd C01_copy_up_example_inplace = true /\
  cInplace (Hp.norm_cfg [2;2;8;1;1;50]%Z) = true /\
  nth_error tr 20 = Some (0%nat, EvCli "protected" [0; 4]%Z) /\
  nth_error tr 21 = Some (0%nat, EvCli "copy" [1; 0]%Z) /\
  nth_error tr 26 = Some (0%nat, EvCli "copied" []) /\
  slot_at (firstn 30 tr) 0 0 = 0%Z /\
  nth_error tr 62 = Some (1%nat, ev_scan_end 1 [4%Z]) /\
  nth_error tr 32 = Some (0%nat, EvCli "clear" [1%Z]) /\
  nth_error tr 78 = Some (1%nat, ev_dispose 4) /\
  cnt "retire" 4 tr = 1%Z /\ cnt "dispose" 4 tr = 1%Z.
Proof. vm_compute. repeat split; reflexivity. Qed.
