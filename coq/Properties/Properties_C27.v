(** * Properties_C27 — split-order key encoding keeps each bucket contiguous.

    "For every hash value and bucket-table size 2^k, regular keys get odd split-order values and bucket dummies even
     ones.  A bucket's parent dummy sorts before the bucket's dummy.  Every regular key of bucket b sorts after b's dummy
     and before the dummy of any bucket that appears later in split order, so list traversal from a bucket dummy reaches
     all of that bucket's keys."

    Only statements (closed by [exact <lemma>]), [Print Assumptions], and non-vacuity examples.  Every statement is about
    the definitions GENERATED from /repo by tools/cxx2v (module LV.Gen.Gen_splitlist, unit list units_C27.json):
      regular_hash_{swar,lookup,muldiv}, dummy_hash_{swar,lookup,muldiv}   split_list::regular_hash<A> / dummy_hash<A>
      bucket_no, parent_bucket (+ _rcu, _nogc)                             SplitListSet<GC,...>::bucket_no / parent_bucket
    Quantifiers: every 64-bit hash [0 <= h < 2^64], every table size [2^k], [0 <= k <= 63] (the field m_nBucketCountLog2;
    the other record field, m_nMaxItemCount, is arbitrary), each pair [(reg, dum)] of [split_order_fns], i.e. each of the
    three bit-reversal functors the [bit_reversal] trait can name.  [k >= 64] is undefined behaviour ([None]). *)

Require Import ZArith List Bool Sorted.
Require Import LV.Base.CInt LV.Proofs.C27_Gen LV.Proofs.C27_Props.
Require Import LV.Gen.Gen_splitlist.
Import ListNotations.
Local Open Scope Z_scope.

(** The (regular_hash, dummy_hash) pairs the statements range over. *)
Example split_order_fns_are_the_generated_ones :
  split_order_fns = [ (regular_hash_swar, dummy_hash_swar); (regular_hash_lookup, dummy_hash_lookup);
                      (regular_hash_muldiv, dummy_hash_muldiv) ].
Proof. reflexivity. Qed.

(** ** Sentence 1: regular keys odd, dummies even *)

Theorem regular_is_odd : forall reg dum, In (reg, dum) split_order_fns ->
  forall h, 0 <= h < 2 ^ 64 -> exists v, reg h = Some v /\ 0 <= v < 2 ^ 64 /\ Z.odd v = true.
Proof. exact p_regular_is_odd. Qed.
Print Assumptions regular_is_odd.

Theorem dummy_is_even : forall reg dum, In (reg, dum) split_order_fns ->
  forall b, 0 <= b < 2 ^ 64 -> exists v, dum b = Some v /\ 0 <= v < 2 ^ 64 /\ Z.even v = true.
Proof. exact p_dummy_is_even. Qed.
Print Assumptions dummy_is_even.

(** ** bucket_no: the low k bits of the hash; 2^64 buckets cannot be addressed *)

Theorem bucket_no_is_low_bits : forall k m h, 0 <= k <= 63 -> 0 <= h < 2 ^ 64 ->
  bucket_no (mk_sl_hp k m) h = Some (h mod 2 ^ k).
Proof. exact bucket_no_spec. Qed.
Print Assumptions bucket_no_is_low_bits.

Theorem bucket_no_log2_ge_64_is_UB : forall k m h, ~ (0 <= k <= 63) -> bucket_no (mk_sl_hp k m) h = None.
Proof. exact bucket_no_UB. Qed.
Print Assumptions bucket_no_log2_ge_64_is_UB.

(** ** Sentence 2: the parent bucket and its dummy *)

Theorem parent_lt_bucket : forall b, 0 < b < 2 ^ 64 ->
  exists p, parent_bucket b = Some p /\ 0 <= p < b /\ p = Z.clearbit b (Z.log2 b) /\ p < 2 ^ Z.log2 b.
Proof. exact p_parent_lt_bucket. Qed.
Print Assumptions parent_lt_bucket.

Theorem parent_bucket_0_is_UB : parent_bucket 0 = None.
Proof. exact parent_bucket_0_UB. Qed.
Print Assumptions parent_bucket_0_is_UB.

Theorem parent_dummy_before_bucket_dummy : forall reg dum, In (reg, dum) split_order_fns ->
  forall b, 0 < b < 2 ^ 63 ->
  exists p dp db, parent_bucket b = Some p /\ dum p = Some dp /\ dum b = Some db /\ dp < db.
Proof. exact p_parent_dummy_before_bucket_dummy. Qed.
Print Assumptions parent_dummy_before_bucket_dummy.

(** The new dummy splits its parent's segment: the parent is bucket [b]'s number in the table of [2^(log2 b)] buckets,
    and the dummy of [b] lies before every dummy of that table that follows the parent's. *)
Theorem bucket_dummy_in_parent_segment : forall reg dum, In (reg, dum) split_order_fns ->
  forall m b, 0 < b < 2 ^ 63 ->
  exists p dp db, parent_bucket b = Some p /\ bucket_no (mk_sl_hp (Z.log2 b) m) b = Some p /\
    dum p = Some dp /\ dum b = Some db /\ dp < db /\
    forall b2 db2, 0 <= b2 < 2 ^ Z.log2 b -> dum b2 = Some db2 -> dp < db2 -> db < db2.
Proof. exact p_bucket_dummy_in_parent_segment. Qed.
Print Assumptions bucket_dummy_in_parent_segment.

(** ** Sentence 3: the keys of a bucket are contiguous after its dummy *)

Theorem bucket_keys_contiguous : forall reg dum, In (reg, dum) split_order_fns ->
  forall k m h b, 0 <= k <= 63 -> 0 <= h < 2 ^ 64 ->
  bucket_no (mk_sl_hp k m) h = Some b ->
  exists db rh, dum b = Some db /\ reg h = Some rh /\ db < rh /\
    forall b' db', 0 <= b' < 2 ^ k -> dum b' = Some db' -> db < db' -> rh < db'.
Proof. exact p_bucket_keys_contiguous. Qed.
Print Assumptions bucket_keys_contiguous.

(** Conversely the segment contains nothing else: a regular key between the dummy of [b] and all later dummies is a key
    of bucket [b]. *)
Theorem bucket_segment_exact : forall reg dum, In (reg, dum) split_order_fns ->
  forall k m h b db rh, 0 <= k <= 63 -> 0 <= h < 2 ^ 64 -> 0 <= b < 2 ^ k ->
  dum b = Some db -> reg h = Some rh -> db < rh ->
  (forall b' db', 0 <= b' < 2 ^ k -> dum b' = Some db' -> db < db' -> rh < db') ->
  bucket_no (mk_sl_hp k m) h = Some b.
Proof. exact p_bucket_segment_exact. Qed.
Print Assumptions bucket_segment_exact.

Theorem traversal_from_dummy_reaches_bucket : forall reg dum, In (reg, dum) split_order_fns ->
  forall (L : list Z) k m h b db rh,
  StronglySorted Z.lt L -> 0 <= k <= 63 -> 0 <= h < 2 ^ 64 ->
  bucket_no (mk_sl_hp k m) h = Some b -> dum b = Some db -> reg h = Some rh ->
  In db L -> In rh L ->
  exists l1 mid l3, L = l1 ++ db :: mid ++ rh :: l3 /\
    (forall x, In x mid -> db < x < rh) /\
    (forall b' db', 0 <= b' < 2 ^ k -> dum b' = Some db' -> ~ In db' mid).
Proof. exact p_traversal_from_dummy_reaches_bucket. Qed.
Print Assumptions traversal_from_dummy_reaches_bucket.

(** Bucket 0 has no parent: its dummy is the key 0, strictly below every regular key (the list head). *)
Theorem bucket0_dummy_is_least : forall reg dum, In (reg, dum) split_order_fns ->
  dum 0 = Some 0 /\ forall h, 0 <= h < 2 ^ 64 -> exists v, reg h = Some v /\ 0 < v.
Proof. exact p_bucket0_dummy_is_least. Qed.
Print Assumptions bucket0_dummy_is_least.

(** ** The RCU and nogc flavours are the same arithmetic (so every statement above holds for them verbatim) *)

Theorem rcu_nogc_flavours_same_arithmetic :
  (forall k m h, bucket_no_rcu (mk_sl_rcu k m) h = bucket_no (mk_sl_hp k m) h) /\
  (forall k m h, bucket_no_nogc (mk_sl_nogc k m) h = bucket_no (mk_sl_hp k m) h) /\
  (forall b, parent_bucket_rcu b = parent_bucket b) /\ (forall b, parent_bucket_nogc b = parent_bucket b).
Proof. exact (conj bucket_no_rcu_same (conj bucket_no_nogc_same (conj parent_bucket_rcu_same parent_bucket_nogc_same))). Qed.
Print Assumptions rcu_nogc_flavours_same_arithmetic.

(** ** Non-vacuity: a table of 2^33 buckets, a bucket >= 2^32 (the range the int shifts of the pre-7f19744 code lost) *)

Example c27_nonvacuous_values :
  bucket_no (mk_sl_hp 33 2) 0xdeadbeef80000001 = Some 0x180000001 /\
  parent_bucket 0x180000001 = Some 0x80000001 /\
  parent_bucket 0x100000000 = Some 0 /\
  regular_hash_lookup 0xdeadbeef80000001 = Some 0x80000001f77db57b /\
  dummy_hash_lookup 0x180000001 = Some 0x8000000180000000 /\
  dummy_hash_lookup 0x80000001 = Some 0x8000000100000000 /\
  dummy_hash_swar 0x8000000000000000 = Some 0 /\ regular_hash_muldiv 0 = Some 1.
Proof. vm_compute. repeat split. Qed.

(** the hypotheses of [traversal_from_dummy_reaches_bucket] on a concrete list: dummies of buckets 0x80000001 (parent) and
    0x180000001, one key of the parent bucket that is NOT in the child bucket, the key above, the next dummy *)
Example c27_nonvacuous_traversal :
  let L := [ 0x8000000100000000; 0x800000010000ffff; 0x8000000180000000; 0x80000001c0000001; 0x80000001f77db57b;
             0x8000000200000000 ] in
  StronglySorted Z.lt L /\ In (0x8000000180000000) L /\ In (0x80000001f77db57b) L /\
  In (regular_hash_lookup, dummy_hash_lookup) split_order_fns /\
  exists l1 mid l3, L = l1 ++ 0x8000000180000000 :: mid ++ 0x80000001f77db57b :: l3 /\ mid = [0x80000001c0000001].
Proof.
  cbv zeta. split.
  - repeat (constructor; [|repeat (constructor; [reflexivity|]); try constructor]). constructor.
  - split; [cbn; tauto|]. split; [cbn; tauto|]. split; [cbn; tauto|].
    exists [0x8000000100000000; 0x800000010000ffff], [0x80000001c0000001], [0x8000000200000000]. split; reflexivity.
Qed.
