(** Property C12 — WeakRingBuffer is an exact SPSC FIFO for fixed and variable-size records.
    Only statements here; proofs live in LV.Proofs.Ring*.

    Vocabulary (LV.Proofs.RingProofs): [pushed_of tr] / [popped_of tr] = concatenation of the arguments of the
    "push_ok" / "pop_ok" events of a trace.  Those events are emitted in the very scheduler step of the
    back_.store / front_.store that publishes / releases the elements, so at every instant
    |pushed_of| = back_ and |popped_of| = front_ ([C12_ring_counters_exact]); [qsize tr] = their difference =
    the true number of elements in the ring at the instant [tr] ends.  A failure response ("push_fail n",
    "pop_fail n", "front_null") is emitted in the step of the load that decided it: the trace before it ends at
    that load, which lies inside the call.

    Hypotheses of every theorem (boolean predicates / arithmetic, nothing else):
      [cap_ok exp2 cap = true]     capacity >= 1, and a power of two when the buffer uses the mask (Exp2 = true);
      [vol pos + cap < 2^64]       the producer program pushes fewer than 2^64 - capacity elements in total
                                   (uint64_t counters do not wrap).
    The code's own precondition [count < capacity] (an assert) is NOT needed for any of the statements. *)
From Coq Require Import ZArith List String.
From LV Require Import Base.Conc Base.Events Model.Ring Proofs.RingBase Proofs.RingProofs.
Import ListNotations.
Local Open Scope Z_scope.

(** every schedule, every capacity, every pair of client programs: popped elements (batches flattened) are a
    prefix of the pushed elements — each element is delivered at most once, in push order, nothing is invented *)
Theorem C12_ring_fifo_exact :
  forall (exp2 : bool) (cap : Z) (pos : list pop_) (cos : list cop) c,
    cap_ok exp2 cap = true -> vol pos + cap < two64 ->
    Conc.reach (Ring.init_cfg exp2 cap pos cos) c ->
    exists rest, pushed_of (Conc.trace c) = popped_of (Conc.trace c) ++ rest.
Proof. exact ring_fifo_exact. Qed.
Print Assumptions C12_ring_fifo_exact.

(** ... and the elements not yet popped are still in the buffer, each in its cell (nothing is lost) *)
Theorem C12_ring_contents_exact :
  forall (exp2 : bool) (cap : Z) (pos : list pop_) (cos : list cop) c,
    cap_ok exp2 cap = true -> vol pos + cap < two64 ->
    Conc.reach (Ring.init_cfg exp2 cap pos cos) c ->
    forall i, g_front (Conc.shared c) <= i < g_back (Conc.shared c) ->
      znth (pushed_of (Conc.trace c)) i = Some (g_cells (Conc.shared c) (idx exp2 cap i)).
Proof. exact ring_contents_exact. Qed.
Print Assumptions C12_ring_contents_exact.

(** invariant: 0 <= front_ <= back_ <= front_ + capacity, and the counters are the ghost lengths *)
Theorem C12_ring_counters_exact :
  forall (exp2 : bool) (cap : Z) (pos : list pop_) (cos : list cop) c,
    cap_ok exp2 cap = true -> vol pos + cap < two64 ->
    Conc.reach (Ring.init_cfg exp2 cap pos cos) c ->
    g_back (Conc.shared c) = zlen (pushed_of (Conc.trace c)) /\
    g_front (Conc.shared c) = zlen (popped_of (Conc.trace c)) /\
    0 <= g_front (Conc.shared c) <= g_back (Conc.shared c) /\
    g_back (Conc.shared c) <= g_front (Conc.shared c) + cap /\
    g_back (Conc.shared c) < two64.
Proof. exact ring_counters_exact. Qed.
Print Assumptions C12_ring_counters_exact.

(** a push of n elements fails only if, at an instant of the call, free space = capacity - (back_ - front_) < n *)
Theorem C12_ring_push_fails_only_if_no_space :
  forall (exp2 : bool) (cap : Z) (pos : list pop_) (cos : list cop) c,
    cap_ok exp2 cap = true -> vol pos + cap < two64 ->
    Conc.reach (Ring.init_cfg exp2 cap pos cos) c ->
    forall tr1 t n tr2, Conc.trace c = tr1 ++ (t, EvCli "push_fail" [n]) :: tr2 -> cap - qsize tr1 < n.
Proof. exact ring_push_fails_only_if_no_space. Qed.
Print Assumptions C12_ring_push_fails_only_if_no_space.

(** a pop of n elements fails only if, at an instant of the call, fewer than n elements are present;
    front() returns nullptr only if the ring is empty at an instant of the call *)
Theorem C12_ring_pop_fails_only_if_too_few :
  forall (exp2 : bool) (cap : Z) (pos : list pop_) (cos : list cop) c,
    cap_ok exp2 cap = true -> vol pos + cap < two64 ->
    Conc.reach (Ring.init_cfg exp2 cap pos cos) c ->
    (forall tr1 t n tr2, Conc.trace c = tr1 ++ (t, EvCli "pop_fail" [n]) :: tr2 -> qsize tr1 < n) /\
    (forall tr1 t tr2, Conc.trace c = tr1 ++ (t, EvCli "front_null" []) :: tr2 -> qsize tr1 < 1).
Proof.
  intros. split.
  - eapply ring_pop_fails_only_if_too_few; eauto.
  - eapply ring_front_null_only_if_empty; eauto.
Qed.
Print Assumptions C12_ring_pop_fails_only_if_too_few.

(** front() returns the oldest element not yet popped; pop_front() right after it never fails; size() is in
    [0, capacity] whichever thread calls it *)
Theorem C12_ring_front_and_size :
  forall (exp2 : bool) (cap : Z) (pos : list pop_) (cos : list cop) c,
    cap_ok exp2 cap = true -> vol pos + cap < two64 ->
    Conc.reach (Ring.init_cfg exp2 cap pos cos) c ->
    (forall tr1 t v tr2, Conc.trace c = tr1 ++ (t, EvCli "front_ok" [v]) :: tr2 ->
       znth (pushed_of tr1) (zlen (popped_of tr1)) = Some v) /\
    (forall tr1 t args tr2, Conc.trace c <> tr1 ++ (t, EvCli "popfront_fail" args) :: tr2) /\
    (forall tr1 t n tr2, Conc.trace c = tr1 ++ (t, EvCli "size" [n]) :: tr2 -> 0 <= n <= cap).
Proof.
  intros. split; [|split].
  - eapply ring_front_exact; eauto.
  - eapply ring_pop_front_after_front_succeeds; eauto.
  - eapply ring_size_in_bounds; eauto.
Qed.
Print Assumptions C12_ring_front_and_size.

(** non-vacuity: capacity 3 (not a power of two), a batch push that fails for lack of space, a batch pop that
    fails for lack of elements, and five elements delivered in order *)
Example C12_ring_nonvacuous :
  cap_ok false 3 = true /\
  let r := Ring.run_case [3; 0; 0]
             [[[1; 10; 11]; [1; 12; 13]; [2; 12]; [1; 13; 14]]; [[4; 3]; [4; 2]; [7]; [4; 2]]]
             [0; 0; 0; 0; 0; 1; 1; 1; 1; 1; 0; 0; 0; 1; 1; 1; 0; 0; 0; 1; 1; 1; 1]%nat 1000 in
  snd r = true /\
  popped_of (fst r) = [10; 11; 12; 13; 14] /\ pushed_of (fst r) = [10; 11; 12; 13; 14] /\
  List.length (filter (is_cli "push_fail") (map snd (fst r))) = 1%nat /\
  List.length (filter (is_cli "pop_fail") (map snd (fst r))) = 1%nat.
Proof. vm_compute. repeat split; reflexivity. Qed.

(** ** WeakRingBuffer<void>: variable-size records (LV.Model.RingV, LV.Proofs.RingVProofs)

    [vpushed tr] = the (size, seed) of the "vpush_ok" events (the record data are [data_bytes size seed]),
    [npopped tr] = number of "vpop_ok" events.  Preconditions the code does not check, as boolean predicates:
      [capv_ok exp2 cap]   capacity >= 1, a multiple of 8, < 2^62, a power of two when the mask is used
                           (a capacity that is not a multiple of 8 makes the tail marker overrun the buffer);
      [vop_ok cap op]      1 <= size <= capacity and calc_real_size size <= capacity (the code asserts "<";
                           "=" is safe too);
      [volv cap pos + cap < 2^64]   no counter wrap (each push advances back_ by at most real size + capacity). *)
From LV Require Import Model.RingV Proofs.RingVBase Proofs.RingVProofs.

(** every record returned by front() is the oldest record pushed and not yet popped: exact size, exact bytes —
    including records placed at the start of the buffer after a tail marker *)
Theorem C12_ringv_record_exact :
  forall (exp2 : bool) (cap : Z) (pos : list vpop_) (cos : list vcop) c,
    capv_ok exp2 cap = true -> forallb (vop_ok cap) pos = true -> volv cap pos + cap < two64 ->
    Conc.reach (vinit_cfg exp2 cap pos cos) c ->
    forall tr1 t args tr2, Conc.trace c = tr1 ++ (t, EvCli "vfront_ok" args) :: tr2 ->
      exists size seed, nth_error (vpushed tr1) (npopped tr1) = Some (size, seed) /\
                        args = size :: data_bytes size seed.
Proof. exact ringv_record_exact. Qed.
Print Assumptions C12_ringv_record_exact.

(** the producer never writes outside the buffer nor on a byte of [front_, back_) (ghost flag of the model) *)
Theorem C12_ringv_no_overlap :
  forall (exp2 : bool) (cap : Z) (pos : list vpop_) (cos : list vcop) c,
    capv_ok exp2 cap = true -> forallb (vop_ok cap) pos = true -> volv cap pos + cap < two64 ->
    Conc.reach (vinit_cfg exp2 cap pos cos) c ->
    v_wbad (Conc.shared c) = false.
Proof. exact ringv_no_overlap. Qed.
Print Assumptions C12_ringv_no_overlap.

(** front() returns nullptr only if every pushed record has been popped (at the deciding load);
    pop_front() right after a successful front() never fails *)
Theorem C12_ringv_front_null_and_pop :
  forall (exp2 : bool) (cap : Z) (pos : list vpop_) (cos : list vcop) c,
    capv_ok exp2 cap = true -> forallb (vop_ok cap) pos = true -> volv cap pos + cap < two64 ->
    Conc.reach (vinit_cfg exp2 cap pos cos) c ->
    (forall tr1 t tr2, Conc.trace c = tr1 ++ (t, EvCli "vfront_null" []) :: tr2 ->
       List.length (vpushed tr1) = npopped tr1) /\
    (forall tr1 t args tr2, Conc.trace c <> tr1 ++ (t, EvCli "vpop_fail" args) :: tr2).
Proof.
  intros. split.
  - eapply ringv_front_null_only_if_empty; eauto.
  - eapply ringv_pop_front_after_front_succeeds; eauto.
Qed.
Print Assumptions C12_ringv_front_null_and_pop.

(** what a failing back( size ) means.  [v_fails] holds (front_, back_, size) of every failing call, recorded by
    the access that decided the failure.  With rs = real size, free = capacity - (back_ - front_) and
    tail = capacity - back_ mod capacity:   free < rs   \/   (tail < rs /\ free - tail < rs) *)
Theorem C12_ringv_push_fails_only_if_no_contiguous_space :
  forall (exp2 : bool) (cap : Z) (pos : list vpop_) (cos : list vcop) c,
    capv_ok exp2 cap = true -> forallb (vop_ok cap) pos = true -> volv cap pos + cap < two64 ->
    Conc.reach (vinit_cfg exp2 cap pos cos) c ->
    forall f b size, In (f, b, size) (v_fails (Conc.shared c)) ->
      cap - (b - f) < rsz size \/
      (cap - b mod cap < rsz size /\ cap - (b - f) - (cap - b mod cap) < rsz size).
Proof. exact ringv_push_fails_only_if_no_contiguous_space. Qed.
Print Assumptions C12_ringv_push_fails_only_if_no_contiguous_space.

(** ... and NOT "only if free space < real size" (the typed ring's guarantee): refuted by a run in which
    back( 40 ) (real size 48 < capacity 64, the code's own assert holds) fails on a completely empty ring
    (front_ = back_ = 24), and fails again on retry.  Replayed on the real code: corpus/C12/void_back_fails_on_empty_ring.json,
    known_findings.json signature C12-void-back-fails-on-empty-ring. *)
Definition C12_ringv_push_fails_only_if_free_lt_real_statement : Prop :=
  forall (exp2 : bool) (cap : Z) (pos : list vpop_) (cos : list vcop) c,
    capv_ok exp2 cap = true -> forallb (vop_ok cap) pos = true -> volv cap pos + cap < two64 ->
    Conc.reach (vinit_cfg exp2 cap pos cos) c ->
    forall f b size, In (f, b, size) (v_fails (Conc.shared c)) -> cap - (b - f) < calc_real_size size.

Theorem C12_ringv_push_fails_on_empty_refuted :
  ~ C12_ringv_push_fails_only_if_free_lt_real_statement /\
  exists (pos : list vpop_) (cos : list vcop) c f b size,
    forallb (vop_ok 64) pos = true /\ Conc.reach (vinit_cfg true 64 pos cos) c /\
    In (f, b, size) (v_fails (Conc.shared c)) /\ f = b /\ calc_real_size size < 64.
Proof.
  set (pos := [VPush 16 1; VPush 40 2; VPush 40 3]).
  set (cos := [VConsume; VConsume; VConsume]).
  set (sched := ([0; 0; 0; 0; 0; 1; 1; 1; 1; 1; 1; 1; 1] ++ repeat 0 20)%nat).
  set (c := fst (Conc.run 1000 0 sched (vinit_cfg true 64 pos cos))).
  assert (Hr : Conc.reach (vinit_cfg true 64 pos cos) c) by apply Conc.run_reach.
  assert (Hf : v_fails (Conc.shared c) = [(24, 24, 40); (24, 24, 40)]) by (vm_compute; reflexivity).
  split.
  - intros H. specialize (H true 64 pos cos c eq_refl eq_refl eq_refl Hr 24 24 40).
    rewrite Hf in H. specialize (H (or_introl eq_refl)). vm_compute in H. discriminate.
  - exists pos, cos, c, 24, 24, 40. rewrite Hf. split; [reflexivity|]. split; [exact Hr|].
    split; [left; reflexivity|]. split; [reflexivity|]. vm_compute. reflexivity.
Qed.
Print Assumptions C12_ringv_push_fails_on_empty_refuted.

(** non-vacuity: capacity 64; a record that leaves a tail of exactly 8 bytes, a record placed at the start of
    the buffer behind the tail marker, three records read back and popped *)
Example C12_ringv_nonvacuous :
  capv_ok false 64 = true /\ forallb (vop_ok 64) [VPush 48 5; VPush 9 6; VPush 16 7] = true /\
  let r := RingV.run_case [64; 0]
             [[[1; 48; 5]; [1; 9; 6]; [1; 16; 7]]; [[6]; [6]; [6]; [6]]]
             [0; 0; 0; 0; 1; 1; 1; 1; 1; 0; 0; 0; 0; 0; 0; 0; 1; 1; 1; 1; 1; 1; 1; 1; 1; 1; 0; 0; 0; 0; 1; 1; 1; 1; 1; 1]%nat 1000 in
  snd r = true /\ vpushed (fst r) = [(48, 5); (9, 6); (16, 7)] /\ npopped (fst r) = 3%nat /\
  List.length (filter (is_cli "vfront_ok") (map snd (fst r))) = 3%nat.
Proof. vm_compute. repeat split; reflexivity. Qed.
