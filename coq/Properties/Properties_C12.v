(** Property C12 — WeakRingBuffer is an exact SPSC FIFO for fixed and variable-size records.
    Only statements here; proofs live in LV.Proofs.Ring*.

    Vocabulary (LV.Proofs.RingProofs): [pushed_of tr] / [popped_of tr] = concatenation of the arguments of the
    "push_ok" / "pop_ok" events of a trace.  Those events are emitted in the very scheduler step of the
    back_.store / front_.store that publishes / releases the elements, so at every instant
    |pushed_of| = back_ and |popped_of| = front_ ([C12_ring_counters_exact]); [qsize tr] = their difference =
    the true number of elements in the ring at the instant [tr] ends.  A failure response ("push_fail n",
    "pop_fail n", "front_null") is emitted in the step of the load that decided it: the trace before it ends at
    that load, which lies inside the call.

    Hypotheses of every theorem (boolean predicates / arithmetic, nothing else):
      [cap_ok exp2 cap = true]     capacity >= 1, and a power of two when the buffer uses the mask (Exp2 = true);
      [vol pos + cap < 2^64]       the producer program pushes fewer than 2^64 - capacity elements in total
                                   (uint64_t counters do not wrap).
    The code's own precondition [count < capacity] (an assert) is NOT needed for any of the statements. *)
From Coq Require Import ZArith List String.
From LV Require Import Base.Conc Base.Events Model.Ring Proofs.RingBase Proofs.RingProofs.
Import ListNotations.
Local Open Scope Z_scope.

(** every schedule, every capacity, every pair of client programs: popped elements (batches flattened) are a
    prefix of the pushed elements — each element is delivered at most once, in push order, nothing is invented *)
Theorem C12_ring_fifo_exact :
  forall (exp2 : bool) (cap : Z) (pos : list pop_) (cos : list cop) c,
    cap_ok exp2 cap = true -> vol pos + cap < two64 ->
    Conc.reach (Ring.init_cfg exp2 cap pos cos) c ->
    exists rest, pushed_of (Conc.trace c) = popped_of (Conc.trace c) ++ rest.
Proof. exact ring_fifo_exact. Qed.
Print Assumptions C12_ring_fifo_exact.

(** ... and the elements not yet popped are still in the buffer, each in its cell (nothing is lost) *)
Theorem C12_ring_contents_exact :
  forall (exp2 : bool) (cap : Z) (pos : list pop_) (cos : list cop) c,
    cap_ok exp2 cap = true -> vol pos + cap < two64 ->
    Conc.reach (Ring.init_cfg exp2 cap pos cos) c ->
    forall i, g_front (Conc.shared c) <= i < g_back (Conc.shared c) ->
      znth (pushed_of (Conc.trace c)) i = Some (g_cells (Conc.shared c) (idx exp2 cap i)).
Proof. exact ring_contents_exact. Qed.
Print Assumptions C12_ring_contents_exact.

(** invariant: 0 <= front_ <= back_ <= front_ + capacity, and the counters are the ghost lengths *)
Theorem C12_ring_counters_exact :
  forall (exp2 : bool) (cap : Z) (pos : list pop_) (cos : list cop) c,
    cap_ok exp2 cap = true -> vol pos + cap < two64 ->
    Conc.reach (Ring.init_cfg exp2 cap pos cos) c ->
    g_back (Conc.shared c) = zlen (pushed_of (Conc.trace c)) /\
    g_front (Conc.shared c) = zlen (popped_of (Conc.trace c)) /\
    0 <= g_front (Conc.shared c) <= g_back (Conc.shared c) /\
    g_back (Conc.shared c) <= g_front (Conc.shared c) + cap /\
    g_back (Conc.shared c) < two64.
Proof. exact ring_counters_exact. Qed.
Print Assumptions C12_ring_counters_exact.

(** a push of n elements fails only if, at an instant of the call, free space = capacity - (back_ - front_) < n *)
Theorem C12_ring_push_fails_only_if_no_space :
  forall (exp2 : bool) (cap : Z) (pos : list pop_) (cos : list cop) c,
    cap_ok exp2 cap = true -> vol pos + cap < two64 ->
    Conc.reach (Ring.init_cfg exp2 cap pos cos) c ->
    forall tr1 t n tr2, Conc.trace c = tr1 ++ (t, EvCli "push_fail" [n]) :: tr2 -> cap - qsize tr1 < n.
Proof. exact ring_push_fails_only_if_no_space. Qed.
Print Assumptions C12_ring_push_fails_only_if_no_space.

(** a pop of n elements fails only if, at an instant of the call, fewer than n elements are present;
    front() returns nullptr only if the ring is empty at an instant of the call *)
Theorem C12_ring_pop_fails_only_if_too_few :
  forall (exp2 : bool) (cap : Z) (pos : list pop_) (cos : list cop) c,
    cap_ok exp2 cap = true -> vol pos + cap < two64 ->
    Conc.reach (Ring.init_cfg exp2 cap pos cos) c ->
    (forall tr1 t n tr2, Conc.trace c = tr1 ++ (t, EvCli "pop_fail" [n]) :: tr2 -> qsize tr1 < n) /\
    (forall tr1 t tr2, Conc.trace c = tr1 ++ (t, EvCli "front_null" []) :: tr2 -> qsize tr1 < 1).
Proof.
  intros. split.
  - eapply ring_pop_fails_only_if_too_few; eauto.
  - eapply ring_front_null_only_if_empty; eauto.
Qed.
Print Assumptions C12_ring_pop_fails_only_if_too_few.

(** front() returns the oldest element not yet popped; pop_front() right after it never fails; size() is in
    [0, capacity] whichever thread calls it *)
Theorem C12_ring_front_and_size :
  forall (exp2 : bool) (cap : Z) (pos : list pop_) (cos : list cop) c,
    cap_ok exp2 cap = true -> vol pos + cap < two64 ->
    Conc.reach (Ring.init_cfg exp2 cap pos cos) c ->
    (forall tr1 t v tr2, Conc.trace c = tr1 ++ (t, EvCli "front_ok" [v]) :: tr2 ->
       znth (pushed_of tr1) (zlen (popped_of tr1)) = Some v) /\
    (forall tr1 t args tr2, Conc.trace c <> tr1 ++ (t, EvCli "popfront_fail" args) :: tr2) /\
    (forall tr1 t n tr2, Conc.trace c = tr1 ++ (t, EvCli "size" [n]) :: tr2 -> 0 <= n <= cap).
Proof.
  intros. split; [|split].
  - eapply ring_front_exact; eauto.
  - eapply ring_pop_front_after_front_succeeds; eauto.
  - eapply ring_size_in_bounds; eauto.
Qed.
Print Assumptions C12_ring_front_and_size.

(** non-vacuity: capacity 3 (not a power of two), a batch push that fails for lack of space, a batch pop that
    fails for lack of elements, and five elements delivered in order *)
Example C12_ring_nonvacuous :
  cap_ok false 3 = true /\
  let r := Ring.run_case [3; 0; 0]
             [[[1; 10; 11]; [1; 12; 13]; [2; 12]; [1; 13; 14]]; [[4; 3]; [4; 2]; [7]; [4; 2]]]
             [0; 0; 0; 0; 0; 1; 1; 1; 1; 1; 0; 0; 0; 1; 1; 1; 0; 0; 0; 1; 1; 1; 1]%nat 1000 in
  snd r = true /\
  popped_of (fst r) = [10; 11; 12; 13; 14] /\ pushed_of (fst r) = [10; 11; 12; 13; 14] /\
  List.length (filter (is_cli "push_fail") (map snd (fst r))) = 1%nat /\
  List.length (filter (is_cli "pop_fail") (map snd (fst r))) = 1%nat.
Proof. vm_compute. repeat split; reflexivity. Qed.
