(** Property C16 — lock-based hash containers (StripedSet/Map, CuckooSet/Map) are linearizable across concurrent
    resizes.  Only statements here; the proofs are in LV.Proofs.StripedConc*, LV.Proofs.StripingPolicy*,
    LV.Proofs.CuckooConc*.

    Models: LV.Model.StripingPolicy + LV.Model.StripedConc (cds/intrusive/striped_set.h with the policies of
    striped_set/striping_policy.h), LV.Model.CuckooConc (cds/intrusive/cuckoo_set.h), one atomic access per step;
    tied to the C++ by step correspondence (checks/C16.py).  [Conc.reach] = every sequence of thread choices,
    any number of threads, any client programs, any fuel.

    [ISet] (Proofs/StripedConcSpec.v) is the sequential set of items (key, node owner), one item per key;
    [hist_of] reads the history off the "inv"/"ret" events of a trace; [tholder tr i] is the holder of cell
    lock i according to the exchange / store events of the trace.

    CuckooSet: [CuckooConcInv.dropped tr] says that the trace contains the ghost event that the model emits where
    CuckooSet::resize() falls through without re-inserting an item (the sequential defect of property C17); the
    linearizability theorem is for traces without it, the no-duplicate theorem is unconditional.  Both hold for
    the striping and the refinable mutex policy. *)
From Coq Require Import ZArith List String Bool.
From LV Require Import Base.Conc Base.Events Base.Lin Spec.Specs
     Model.StripingPolicy Model.StripedConc Proofs.StripedConcSpec Proofs.StripedConcProofs
     Proofs.StripedConcRefInv Proofs.StripedConcRefProofs.
From LV Require Model.CuckooConc Proofs.CuckooConcInv Proofs.CuckooConcProofs Proofs.CuckooConcRefInv Proofs.CuckooConcRefProofs
     Proofs.CuckooConcAll.
Import ListNotations.
Local Open Scope nat_scope.

(** ** StripedSet, lock-striping policy *)

(** [striping_cell_lock_stable]: for every schedule, at every reachable configuration
    - the bucket of a hash [h] in the _current_ table belongs to the stripe [h mod nl] of the lock taken for [h]
      (so the lock chosen before the table size was known is the right one afterwards);
    - a thread that holds cell lock [i] (according to the trace) has the lock word set, exclusively;
    - no step of another thread changes the bucket mask or any bucket of stripe [i]. *)
Theorem C16_striping_cell_lock_stable :
  forall cf, c_pol cf = Striping -> 0 < c_nl cf ->
  forall ths (c : Conc.config G V ev), Conc.reach (init_cfg cf ths) c ->
    (forall h, (h mod S (mask (Conc.shared c))) mod c_nl cf = h mod c_nl cf) /\
    (forall i t, tholder (Conc.trace c) i = Some t -> i < c_nl cf /\ spins (Conc.shared c) i = true) /\
    (forall i t t', tholder (Conc.trace c) i = Some t -> tholder (Conc.trace c) i = Some t' -> t = t') /\
    (forall t' c', Conc.step_cfg c t' = Some c' ->
       forall i t, tholder (Conc.trace c) i = Some t -> t <> t' ->
         mask (Conc.shared c') = mask (Conc.shared c) /\
         forall b, b mod c_nl cf = i -> get_b (buckets (Conc.shared c')) b = get_b (buckets (Conc.shared c)) b).
Proof. exact striping_cell_lock_stable_thm. Qed.
Print Assumptions C16_striping_cell_lock_stable.

(** [striped_linearizable], striping policy: every concurrent history of insert (with or without functor),
    update, unlink, erase (with or without functor), find / contains, emplace on the model — including histories
    in which other threads resize the table — is linearizable to the sequential set. *)
Theorem C16_striped_linearizable_striping :
  forall cf, c_pol cf = Striping -> 0 < c_nl cf ->
  forall ths (c : Conc.config G V ev), Conc.reach (init_cfg cf ths) c ->
    linearizable ISet (hist_of (Conc.trace c)).
Proof. exact striped_striping_linearizable. Qed.
Print Assumptions C16_striped_linearizable_striping.

(** ** StripedSet, refinable policy *)

(** [refinable_owner_excludes]: for every schedule, at every reachable configuration there is an assignment [a] of
    lock / ownership states to the threads ([rs a t]: the reentrant cell lock of t is taken / owned / validated by
    the re-check of acquire() = inside the critical section / being released; [os a t]: t owns the table and has
    scanned cells [0, j) of the lock array, or is moving items) that is consistent with the owner word and the
    lock words and such that
    - at most one thread owns the table and the owner word names it;
    - while the owner is exclusive (scan complete or moving) no thread is inside a critical section;
    - a thread inside a critical section holds a lock of the current array that a scanning resizer has not
      passed yet;
    - a lock word is set iff exactly one thread has the lock. *)
Theorem C16_refinable_owner_excludes :
  forall cf, c_pol cf = Refinable -> 0 < c_nl cf ->
  forall ths (c : Conc.config G V ev), Conc.reach (init_cfg cf ths) c ->
    exists a : StripedConcRefInv.Aux,
      let g := Conc.shared c in
      (forall t, os a t <> ONone -> owner g = 2 * S t + 1) /\
      (owner g = 0 -> forall t, os a t = ONone) /\
      (forall t t', os a t <> ONone -> os a t' <> ONone -> t = t') /\
      (forall R, exclusive (os a R) -> forall t gg i, rs a t <> RValid gg i) /\
      (forall t gg i, rs a t = RValid gg i ->
          gg = cur g /\ i < gsize g gg /\ rspin g gg i = 1 /\
          forall R g0 sz j, os a R = OScan g0 sz j -> g0 = gg /\ j <= i) /\
      (forall gg i, rspin g gg i = 1 <-> exists t, rholds (rs a t) gg i) /\
      (forall t t' gg i, rholds (rs a t) gg i -> rholds (rs a t') gg i -> t = t').
Proof. exact refinable_owner_excludes_thm. Qed.
Print Assumptions C16_refinable_owner_excludes.

(** [striped_linearizable], refinable policy *)
Theorem C16_striped_linearizable_refinable :
  forall cf, c_pol cf = Refinable -> 0 < c_nl cf ->
  forall ths (c : Conc.config G V ev), Conc.reach (init_cfg cf ths) c ->
    linearizable ISet (hist_of (Conc.trace c)).
Proof. exact striped_refinable_linearizable. Qed.
Print Assumptions C16_striped_linearizable_refinable.

(** non-vacuity: two threads insert keys that collide in one bucket (hash 16 k, threshold 1), the second
    insertion triggers a resize (one store to the mask) while the other thread is running; both complete and the
    history has four events *)
Example C16_striped_striping_nonvacuous :
  let r := StripedConc.run_case [0; 16; 0; 1; 5; 0; 6; 400]%Z [[[1;0;0;0]%Z]; [[1;1;0;0]%Z; [8;0;0;0]%Z]] [0;1;1;0;1;0;1]%nat 2000 in
  snd r = true /\
  List.length (filter (fun te => match snd te with EvAcc KSt [6%Z] _ => true | _ => false end) (fst r)) = 1 /\
  List.length (hist_of (fst r)) = 6.
Proof. vm_compute. repeat split. Qed.

(** the same program under the refinable policy: the resize replaces the lock array (one store to m_nCapacity) *)
Example C16_striped_refinable_nonvacuous :
  let r := StripedConc.run_case [2; 16; 0; 1; 5; 0; 6; 400]%Z [[[1;0;0;0]%Z]; [[1;1;0;0]%Z; [8;0;0;0]%Z]] [0;1;1;0;1;0;1]%nat 3000 in
  snd r = true /\
  List.length (filter (fun te => match snd te with EvAcc KSt [3%Z] _ => true | _ => false end) (fst r)) = 1 /\
  List.length (hist_of (fst r)) = 6.
Proof. vm_compute. repeat split. Qed.

(** ** CuckooSet, both mutex policies (cuckoo::striping<> and cuckoo::refinable<>) *)

(** [cuckoo_linearizable]: every concurrent history of insert (with or without functor), update, unlink, erase
    (with or without functor, erase_with), find / contains (and _with) on the model — including histories in which
    other threads relocate items and resize the tables (and, for the refinable policy, replace the lock arrays) —
    is linearizable to the sequential set, provided resize() never dropped an item (C17).  Proved separately for
    the two policies ([CuckooConcProofs.v], [CuckooConcFProofs.v]) and put together in [CuckooConcAll.v]. *)
Theorem C16_cuckoo_linearizable :
  forall cf, 0 < CuckooConc.c_nl cf ->
  forall ths (c : Conc.config CuckooConc.G CuckooConc.V ev), Conc.reach (CuckooConc.init_cfg cf ths) c ->
    ~ CuckooConcInv.dropped (Conc.trace c) -> linearizable ISet (hist_of (Conc.trace c)).
Proof. exact CuckooConcAll.cuckoo_linearizable. Qed.
Print Assumptions C16_cuckoo_linearizable.

(** [cuckoo_nodup], unconditional, both policies: at every reachable configuration every probe set has distinct
    keys, an item is only in a probe set that its own hash selects in the current table, no key is in both
    tables — so the keys of all items of the two tables are distinct. *)
Theorem C16_cuckoo_nodup :
  forall cf, 0 < CuckooConc.c_nl cf ->
  forall ths (c : Conc.config CuckooConc.G CuckooConc.V ev), Conc.reach (CuckooConc.init_cfg cf ths) c ->
    let g := Conc.shared c in
    (forall tb b, NoDup (keys (CuckooConcInv.T g tb b))) /\
    (forall tb b x, tb < 2 -> In x (CuckooConcInv.T g tb b) ->
        CuckooConc.hsel (CuckooConc.hashes cf (fst x)) tb mod S (CuckooConc.mask g) = b) /\
    (forall b b' x y, In x (CuckooConcInv.T g 0 b) -> In y (CuckooConcInv.T g 1 b') -> fst x <> fst y) /\
    NoDup (keys (CuckooConcInv.all_items g)).
Proof. exact CuckooConcAll.cuckoo_nodup. Qed.
Print Assumptions C16_cuckoo_nodup.

(** ** CuckooSet, lock-striping policy: the cell locks *)

(** [cuckoo_cell_locks_stable]: at every reachable configuration there is an assignment [a] of (multi)sets of
    reentrant locks to the threads such that a lock word is non-zero iff some thread has the lock, no two threads
    have the same lock, the bucket of a hash in the current tables belongs to the stripe of the lock taken for
    it, and a thread that may access probe set (tb, b) ([auth]: it holds a table-0 lock and the lock of the
    stripe of b in table tb, or every table-0 lock) sees no step of another thread change the bucket mask or
    that probe set. *)
Theorem C16_cuckoo_cell_locks_stable :
  forall cf, CuckooConc.c_pol cf = CuckooConc.Striping -> 0 < CuckooConc.c_nl cf ->
  forall ths (c : Conc.config CuckooConc.G CuckooConc.V ev), Conc.reach (CuckooConc.init_cfg cf ths) c ->
    exists a : CuckooConcInv.Aux,
      (forall l, CuckooConc.rspin (Conc.shared c) l <> 0 <-> exists t, In l (CuckooConcInv.held a t)) /\
      (forall t t' l, In l (CuckooConcInv.held a t) -> In l (CuckooConcInv.held a t') -> t = t') /\
      (forall h, (h mod S (CuckooConc.mask (Conc.shared c))) mod CuckooConc.c_nl cf = h mod CuckooConc.c_nl cf) /\
      (forall t' c', Conc.step_cfg c t' = Some c' ->
         forall t tb b, t <> t' -> tb < 2 -> CuckooConcInv.auth cf (CuckooConcInv.a_view a t) tb b ->
           CuckooConc.mask (Conc.shared c') = CuckooConc.mask (Conc.shared c) /\
           CuckooConcInv.T (Conc.shared c') tb b = CuckooConcInv.T (Conc.shared c) tb b).
Proof. exact CuckooConcProofs.cuckoo_cell_locks_stable_thm. Qed.
Print Assumptions C16_cuckoo_cell_locks_stable.

(** non-vacuity: two threads, two buckets per table, probe sets of two items; thread 0 inserts 0, 2, 4, 6 (they
    collide), which relocates items and then resizes the tables (one store to the mask) while thread 1 inserts 1
    and looks for 0; nothing is dropped, all seven operations complete *)
Example C16_cuckoo_striping_nonvacuous :
  let r := CuckooConc.run_case [0; 2; 2; 0; 0; 1; 6; 400]%Z
             [[[1;0;0;0]%Z; [1;2;0;0]%Z; [1;4;0;0]%Z; [1;6;0;0]%Z; [8;2;0;0]%Z]; [[1;1;0;0]%Z; [8;0;0;0]%Z]]
             [0;1;1;0;1;0;1]%nat 4000 in
  snd r = true /\
  List.length (filter (fun te => match snd te with EvAcc KSt [6%Z] _ => true | _ => false end) (fst r)) = 1 /\
  ~ CuckooConcInv.dropped (fst r) /\
  List.length (hist_of (fst r)) = 14.
Proof.
  cbv zeta. split; [vm_compute; reflexivity|]. split; [vm_compute; reflexivity|].
  split; [apply CuckooConcProofs.no_drop_events; vm_compute; reflexivity|vm_compute; reflexivity].
Qed.

(** ** CuckooSet, refinable policy (cuckoo::refinable<>): the lock / ownership protocol *)

(** [cuckoo_refinable_owner_excludes]: for every schedule of the whole CuckooSet model with the refinable policy
    (insert / update / erase / unlink / find, relocation, resize with replacement of the lock arrays), at every
    reachable configuration there is an assignment [a] of (multi)sets of reentrant cell locks and of protocol
    states to the threads ([w_own]: no owner state / owner word taken / owner with cells 0..j-1 of table 0 of the
    arrays of generation g0 locked / owner that has installed new arrays; [w_anc a t = Some (gen, i)]: thread t has
    returned from acquire() with cell i of table 0 of generation gen: owner word free or its own, and capacity
    unchanged, both read after the cell was locked) such that
    - a lock word is non-zero iff some thread has the lock, and no two threads have the same lock;
    - the owner word names the only thread in an owner state;
    - m_nCapacity is the size of the current lock arrays;
    - a validated cell is held, belongs to the _current_ lock arrays, and no other thread is the exclusive owner
      (all cells locked, or new arrays installed);
    - an owner scanning generation g0 scans the current arrays and has the cells it passed; an owner that has
      installed new arrays still has every table-0 cell of the old ones.
    The seeded change C16a (acquire() returns without re-reading the capacity) breaks the fourth clause. *)
Theorem C16_cuckoo_refinable_owner_excludes :
  forall cf, CuckooConc.c_pol cf = CuckooConc.Refinable -> 0 < CuckooConc.c_nl cf ->
  forall ths (c : Conc.config CuckooConc.G CuckooConc.V ev), Conc.reach (CuckooConc.init_cfg cf ths) c ->
    exists a : CuckooConcRefInv.RAux,
      let g := Conc.shared c in
      (forall l, CuckooConc.rspin g l <> 0 <-> exists t, In l (CuckooConcRefInv.w_held (a t))) /\
      (forall t t' l, In l (CuckooConcRefInv.w_held (a t)) -> In l (CuckooConcRefInv.w_held (a t')) -> t = t') /\
      (forall t, CuckooConcRefInv.w_own (a t) <> CuckooConcRefInv.ONone -> CuckooConc.owner g = 2 * S t + 1) /\
      (CuckooConc.owner g = 0 -> forall t, CuckooConcRefInv.w_own (a t) = CuckooConcRefInv.ONone) /\
      CuckooConc.pcap g = CuckooConc.gsize g (CuckooConc.cur g) /\
      (forall t gen i, CuckooConcRefInv.w_anc (a t) = Some (gen, i) ->
          In (gen, 0, i) (CuckooConcRefInv.w_held (a t)) /\ gen = CuckooConc.cur g /\ i < CuckooConc.pcap g /\
          forall R, R <> t -> ~ CuckooConcRefInv.exclusive (CuckooConcRefInv.w_own (a R))) /\
      (forall t g0 sz j, CuckooConcRefInv.w_own (a t) = CuckooConcRefInv.OLk g0 sz j ->
          g0 = CuckooConc.cur g /\ sz = CuckooConc.pcap g /\ j <= sz /\
          forall i, i < j -> In (g0, 0, i) (CuckooConcRefInv.w_held (a t))) /\
      (forall t g0 sz n b, CuckooConcRefInv.w_own (a t) = CuckooConcRefInv.OIn g0 sz n b ->
          g0 < CuckooConc.cur g /\ n = CuckooConc.pcap g /\
          forall i, i < sz -> In (g0, 0, i) (CuckooConcRefInv.w_held (a t))).
Proof. exact CuckooConcRefProofs.cuckoo_refinable_owner_excludes_thm. Qed.
Print Assumptions C16_cuckoo_refinable_owner_excludes.

(** [cuckoo_refinable_valid_stable]: with such an assignment, a step of another thread neither replaces the lock
    arrays nor releases the cell a thread has validated, and no other thread is the exclusive owner. *)
Theorem C16_cuckoo_refinable_valid_stable :
  forall cf, CuckooConc.c_pol cf = CuckooConc.Refinable -> 0 < CuckooConc.c_nl cf ->
  forall ths (c : Conc.config CuckooConc.G CuckooConc.V ev), Conc.reach (CuckooConc.init_cfg cf ths) c ->
    exists a : CuckooConcRefInv.RAux, CuckooConcRefInv.CoreR (Conc.shared c) a /\
      forall t' c', Conc.step_cfg c t' = Some c' ->
        forall t gen i, t <> t' -> CuckooConcRefInv.w_anc (a t) = Some (gen, i) ->
          CuckooConc.cur (Conc.shared c') = CuckooConc.cur (Conc.shared c) /\
          CuckooConc.rspin (Conc.shared c') (gen, 0, i) <> 0 /\
          forall R, ~ (CuckooConcRefInv.exclusive (CuckooConcRefInv.w_own (a R)) /\ R <> t).
Proof. exact CuckooConcRefProofs.cuckoo_refinable_valid_stable_thm. Qed.
Print Assumptions C16_cuckoo_refinable_valid_stable.

(** [cuckoo_refinable_cs_exclusive]: the critical sections exclude each other.  Authority over probe set (tb, b) —
    validated by acquire() and holding the cell of the stripe of b in the current lock arrays, or being the
    exclusive owner — belongs to at most one thread. *)
Theorem C16_cuckoo_refinable_cs_exclusive :
  forall cf, CuckooConc.c_pol cf = CuckooConc.Refinable -> 0 < CuckooConc.c_nl cf ->
  forall ths (c : Conc.config CuckooConc.G CuckooConc.V ev), Conc.reach (CuckooConc.init_cfg cf ths) c ->
    exists a : CuckooConcRefInv.RAux, CuckooConcRefInv.CoreR (Conc.shared c) a /\
      forall t t' tb b,
        CuckooConcRefProofs.cell_auth (Conc.shared c) (a t) tb b ->
        CuckooConcRefProofs.cell_auth (Conc.shared c) (a t') tb b -> t = t'.
Proof. exact CuckooConcRefProofs.cuckoo_refinable_cs_exclusive_thm. Qed.
Print Assumptions C16_cuckoo_refinable_cs_exclusive.

(** non-vacuity: the program of [C16_cuckoo_striping_nonvacuous] under the refinable policy: the resize installs new
    lock arrays (one store to m_nCapacity) while the other thread is running; all seven operations complete *)
Example C16_cuckoo_refinable_nonvacuous :
  let r := CuckooConc.run_case [2; 2; 2; 0; 0; 1; 6; 400]%Z
             [[[1;0;0;0]%Z; [1;2;0;0]%Z; [1;4;0;0]%Z; [1;6;0;0]%Z; [8;2;0;0]%Z]; [[1;1;0;0]%Z; [8;0;0;0]%Z]]
             [0;1;1;0;1;0;1]%nat 6000 in
  snd r = true /\
  List.length (filter (fun te => match snd te with EvAcc KSt [3%Z] _ => true | _ => false end) (fst r)) = 1 /\
  List.length (hist_of (fst r)) = 14.
Proof. vm_compute. repeat split. Qed.
