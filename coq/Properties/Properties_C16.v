(** Property C16 — placeholder while the models are being written (replaced below). *)
From Coq Require Import ZArith List.
Import ListNotations.
Example C16_placeholder : (1 + 1 = 2)%Z.
Proof. reflexivity. Qed.
