(** Property C24 — "vyukov_queue_pool, lazy_vyukov_queue_pool, bounded_vyukov_queue_pool and pool_allocator never
    return an object that is currently allocated to another holder.  Deallocated objects become available again."

    Only statements here; proofs live in LV.Proofs.Pools* (on top of the Vyukov queue invariants of
    LV.Proofs.VyukovCore).  Model: LV.Model.Pools (kind 0 vyukov_queue_pool, 1 lazy_vyukov_queue_pool, 2
    bounded_vyukov_queue_pool; pool_allocator forwards to them) over LV.Model.Vyukov.

    Hypotheses of both theorems:
      k >= 1                                          pool capacity 2^k
      Conc.reach (pool_cfg kind (2^k) fuel ths) cf    cf is reachable by ANY sequence of thread choices; [ths] are
                                                      arbitrary client programs of allocate / deallocate-a-held-object
                                                      (any number of threads, up to and past the pool capacity)
      pool_bound k kind (trace cf)                    position counters of the queue do not wrap
    [heldby tr t]   objects returned to thread t by allocate and not yet passed by it to deallocate;
    [avail a0 tr]   the preallocated objects and every object passed to deallocate, minus those handed out by
                    allocate again or released to the heap;
    [busy tr t]     thread t is inside allocate / deallocate. *)
From Coq Require Import ZArith List Bool.
From Coq Require String.
Import String.StringSyntax.
Local Open Scope string_scope.
From LV Require Import Base.Conc Base.Events Model.Vyukov Model.Pools
                       Proofs.VyukovArith Proofs.VyukovCore Proofs.PoolsProofs Proofs.PoolsSafe Proofs.PoolsTheorems.
Import ListNotations.
Local Open Scope Z_scope.

Theorem C24_pool_unique_holder :
  forall (k : nat) (kind : Z) (fuel : nat) (ths : list (list pop)) cf,
    (1 <= k)%nat ->
    Conc.reach (pool_cfg kind (2 ^ Z.of_nat k) fuel ths) cf -> pool_bound k kind (Conc.trace cf) ->
    let tr := Conc.trace cf in
    (forall t, NoDup (heldby tr t)) /\
    (forall t t' p, t <> t' -> In p (heldby tr t) -> ~ In p (heldby tr t')) /\
    (forall t p, In p (heldby tr t) ->
       ~ In p (avail (avail0 k (mkP kind (2 ^ Z.of_nat k) (length ths))) tr)).
Proof. intros k kind fuel ths cf Hk Hr Hb. exact (pool_unique_holder k Hk kind fuel ths cf Hr Hb). Qed.
Print Assumptions C24_pool_unique_holder.

Theorem C24_pool_deallocated_available_again :
  forall (k : nat) (kind : Z) (fuel : nat) (ths : list (list pop)) cf,
    (1 <= k)%nat ->
    Conc.reach (pool_cfg kind (2 ^ Z.of_nat k) fuel ths) cf -> pool_bound k kind (Conc.trace cf) ->
    let tr := Conc.trace cf in
    let g := Conc.shared cf in
    let av := avail (avail0 k (mkP kind (2 ^ Z.of_nat k) (length ths))) tr in
    NoDup av /\
    exists qs : list Z,
      NoDup qs /\
      Z.of_nat (length qs) = posE g - posD g /\
      (forall i, (i < length qs)%nat -> nth_error qs i = Some (datas g (cell k (posD g + Z.of_nat i)))) /\
      (forall p, In p qs -> In p av) /\
      (forall p, In p av -> In p qs \/ exists t, busy tr t = true) /\
      ((forall t, busy tr t = false) -> forall p, In p av <-> In p qs).
Proof. intros k kind fuel ths cf Hk Hr Hb. exact (pool_deallocated_available_again k Hk kind fuel ths cf Hr Hb). Qed.
Print Assumptions C24_pool_deallocated_available_again.

(** ** non-vacuity: concrete runs (capacity 2, three threads allocating past capacity and releasing) *)
Example C24_nonvacuous_vyukov_queue_pool :
  let ths := [[PAlloc; PAlloc; PDealloc 0]; [PAlloc; PDealloc 0; PAlloc]; [PAlloc]] in
  let cf := fst (Conc.run 2000 0 [0;1;2;0;1;2;0;0;1;1;2;2]%nat (pool_cfg 0 (2 ^ Z.of_nat 1) 100 ths)) in
  Conc.reach (pool_cfg 0 (2 ^ Z.of_nat 1) 100 ths) cf /\ pool_bound 1 0 (Conc.trace cf) /\
  (forall t, busy (Conc.trace cf) t = false) /\
  heldby (Conc.trace cf) 0%nat <> [] /\ heldby (Conc.trace cf) 1%nat <> [] /\ heldby (Conc.trace cf) 2%nat <> [].
Proof.
  cbv zeta. split; [apply Conc.run_reach|]. split; [unfold pool_bound; vm_compute; reflexivity|].
  split.
  - intros t. destruct t as [|[|[|t]]]; vm_compute; reflexivity.
  - repeat split; vm_compute; discriminate.
Qed.

Example C24_nonvacuous_bounded_pool :
  let ths := [[PAlloc; PAlloc; PAlloc; PDealloc 1]; [PAlloc; PDealloc 0]] in
  let cf := fst (Conc.run 2000 0 [0;0;0;0;0;0;0;0;0;0;0;0;0;0;0;0;0;0;0;0;0;0;0;0;0;0;0;0;0;0;1]%nat (pool_cfg 2 (2 ^ Z.of_nat 1) 100 ths)) in
  Conc.reach (pool_cfg 2 (2 ^ Z.of_nat 1) 100 ths) cf /\ pool_bound 1 2 (Conc.trace cf) /\
  In (0%nat, EvCli "ret_alloc" [0]) (Conc.trace cf) /\
  avail (avail0 1 (mkP 2 2 2)) (Conc.trace cf) <> [].
Proof.
  cbv zeta. split; [apply Conc.run_reach|]. split; [unfold pool_bound; vm_compute; reflexivity|].
  split; [vm_compute; tauto|vm_compute; discriminate].
Qed.
