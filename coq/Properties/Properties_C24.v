(** Property C24 - placeholder while the proofs are being written. *)
From Coq Require Import ZArith List.
From LV Require Import Base.Conc Base.Events Model.Vyukov Model.Pools.
Import ListNotations.
Local Open Scope Z_scope.
Example C24_model_runs :
  snd (Pools.run_case [2;0;0;100] [[[1];[1];[2;0]]; [[1];[2;0]]] [0;0;0;1;1;0;1]%nat 2000) = true.
Proof. vm_compute. reflexivity. Qed.
