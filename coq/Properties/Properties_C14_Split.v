(** Property C14, SplitListSet part — SplitListSet<HP, MichaelList> at step grain (LV.Model.SplitList, tied to
    cds/intrusive/split_list.h + details/split_list_base.h by step correspondence, checks/C14.py).  Only statements here;
    proofs live in LV.Proofs.SplitListLin*.v / SplitListOrd*.v.

    Every theorem is for EVERY schedule ([Conc.reach]), any number of threads, any hash table [hs] (any integers), any
    loop fuel, any bucket-table capacity [cap <= 2^62], and any client programs of insert (1) / erase (7) / contains
    (other codes) whose keys lie in 0..255 ([ops_ok]: the model packs the client key into the low 8 bits of the list
    position [okey h k = regular_hash h * 256 + k]; the harness uses keys < 256).

    How it is proved.  The model's list code is a separate copy of the Michael-list model (own state record, local head
    cell [LCell]); it is NOT re-verified: [proj] maps a split-list state to a state of LV.Model.MichaelList (m_pHead :=
    bucket 0's dummy), every list access of the split list simulates the corresponding Michael-list access, and the
    one-access rules of the anchored development C13 (Proofs/MichaelListFrom*.v, invariant [InvA]: structure + LP-annotated
    trace + "anchor nodes are never marked") are TRANSFERRED ([SplitListLinSim.safeS_act]).  A real thread plays two
    virtual Michael-list threads: one for the client operation, one for the dummy-node insertions of init_bucket (which
    run while the client operation is pending); the ghost history of the virtual threads projects onto the client
    history ([SplitListLinProj.cproj_valid]).  Only the program-level proofs (search from a local head cell, insert_at /
    erase_at / find_at, init_bucket, get_bucket) are new.  Split-order arithmetic: Proofs/SplitListOrdArith.v. *)
From Coq Require Import ZArith List String Lia.
From LV Require Import Base.Conc Base.Events Base.Lin Spec.Specs.
From LV Require Import Model.SplitList Proofs.MichaelListProofs Proofs.SplitListOrdArith Proofs.SplitListLinSim Proofs.SplitListLinOps
                       Proofs.SplitListLinThm Proofs.SplitListOrdReach Proofs.SplitListOrdGrowth Proofs.SplitListLinKeyThm.
Import ListNotations.
Local Open Scope Z_scope.

(** (1) [split_nodup] / sortedness.  In every reachable configuration the ONE underlying list - node 1 (bucket 0's dummy)
    followed by [L], null-terminated - consists of allocated nodes and is STRICTLY sorted by split-order key; no allocated
    node with a dummy key ([akS]) is marked (dummies are permanent); every initialised bucket-table entry is an unmarked
    node of that list that carries the bucket's dummy key (and the bucket number is below 2^63); bucket 0 is initialised.
    ([slinked g n L q]: following m_pNext from node n visits exactly L and ends in q; [skeys]: the keys.) *)
Theorem C14_split_list_sorted :
  forall (cap : nat) (hs : list Z), Z.of_nat cap <= 2 ^ 62 ->
  forall (fuel : nat) (ths : list (list (list Z))) c,
    ops_ok ths -> Conc.reach (SplitList.init_cfg cap hs fuel ths) c ->
    let g := Conc.shared c in
    exists L, slinked g 1 L 0 /\ (forall n, In n (1%nat :: L) -> n <> 0%nat /\ (n <= nalloc g)%nat) /\
              zsorted (skeys g (1%nat :: L)) /\
              (forall n, (1 <= n <= nalloc g)%nat -> akS (nkey (heap g n)) = true -> nmark (heap g n) = false) /\
              (forall b, table g b <> 0%nat ->
                 In (table g b) (1%nat :: L) /\ nkey (heap g (table g b)) = dkey b /\
                 nmark (heap g (table g b)) = false /\ Z.of_nat b < 2 ^ 63) /\
              table g 0%nat <> 0%nat.
Proof. exact split_sorted_reach. Qed.
Print Assumptions C14_split_list_sorted.

(** the same in terms of reachability along m_pNext ([lreach] = [Properties_C14.list_reach]): [split_nodup_statement] *)
Theorem C14_split_nodup :
  forall (cap : nat) (hs : list Z), Z.of_nat cap <= 2 ^ 62 ->
  forall fuel ths c, ops_ok ths -> Conc.reach (SplitList.init_cfg cap hs fuel ths) c ->
    forall n m, lreach (Conc.shared c) 1 n -> lreach (Conc.shared c) 1 m -> n <> 0%nat -> m <> 0%nat ->
      nkey (heap (Conc.shared c) n) = nkey (heap (Conc.shared c) m) -> n = m.
Proof. exact split_nodup_reach. Qed.
Print Assumptions C14_split_nodup.

(** [split_bucket_init_safe_statement] (and more): an initialised bucket-table entry is an unmarked node with the
    bucket's dummy key, reachable from the list head; its parent bucket is initialised and its dummy lies on the way
    from the parent's dummy *)
Theorem C14_split_bucket_init_safe :
  forall (cap : nat) (hs : list Z), Z.of_nat cap <= 2 ^ 62 ->
  forall fuel ths c, ops_ok ths -> Conc.reach (SplitList.init_cfg cap hs fuel ths) c ->
    forall b, table (Conc.shared c) b <> 0%nat ->
      nkey (heap (Conc.shared c) (table (Conc.shared c) b)) = dkey b /\
      nmark (heap (Conc.shared c) (table (Conc.shared c) b)) = false /\
      lreach (Conc.shared c) 1 (table (Conc.shared c) b) /\
      (b <> 0%nat -> table (Conc.shared c) (parent_bucket b) <> 0%nat /\
                     lreach (Conc.shared c) (table (Conc.shared c) (parent_bucket b)) (table (Conc.shared c) b)).
Proof. exact split_bucket_init_reach. Qed.
Print Assumptions C14_split_bucket_init_safe.

(** (2) growth, [split_growth_preserves_lookup_statement]: whatever m_nBucketCountLog2 is in a reachable configuration
    (however often it has been doubled since a node was inserted), a node of the list that carries the key of [k] is
    reachable from the dummy of the bucket that the CURRENT table size selects for [hash k], whenever that bucket is
    initialised (otherwise get_bucket initialises it first, from the parent, by the theorem above).  The doubling itself
    ([a_cas_log2]) writes m_nBucketCountLog2 only; that lookups keep returning the right answer while the table grows is
    part of the linearizability theorem below. *)
Theorem C14_split_growth_preserves_lookup :
  forall (cap : nat) (hs : list Z), Z.of_nat cap <= 2 ^ 62 ->
  forall fuel ths c, ops_ok ths -> Conc.reach (SplitList.init_cfg cap hs fuel ths) c ->
    forall k n, 0 <= k -> lreach (Conc.shared c) 1 n -> n <> 0%nat ->
      nkey (heap (Conc.shared c) n) = okey (SplitList.hash hs k) k ->
      forall b, b = bucket_no (SplitList.hash hs k) (log2 (Conc.shared c)) -> table (Conc.shared c) b <> 0%nat ->
        lreach (Conc.shared c) (table (Conc.shared c) b) n.
Proof. exact split_growth_lookup_reach. Qed.
Print Assumptions C14_split_growth_preserves_lookup.

(** growth never changes the list: for every capacity, hash table, client program (NO hypothesis on keys or capacity) and
    every schedule, a step of a reachable configuration either leaves m_nBucketCountLog2 alone or increments it by exactly
    one and changes nothing of the heap (every m_pNext, mark bit and key), the allocator, the bucket table and the item
    counter *)
Theorem C14_split_growth_keeps_list :
  forall (cap : nat) (hs : list Z) fuel ths c t c',
    Conc.reach (SplitList.init_cfg cap hs fuel ths) c -> Conc.step_cfg c t = Some c' ->
    log2 (Conc.shared c') = log2 (Conc.shared c) \/
    (log2 (Conc.shared c') = S (log2 (Conc.shared c)) /\ heap (Conc.shared c') = heap (Conc.shared c) /\
     nalloc (Conc.shared c') = nalloc (Conc.shared c) /\ table (Conc.shared c') = table (Conc.shared c) /\
     count (Conc.shared c') = count (Conc.shared c)).
Proof. exact split_growth_step. Qed.
Print Assumptions C14_split_growth_keeps_list.

(** (3) FULL linearizability, reads included.  [split_hist hs tr]: the complete invoke/response history of the trace over
    the sequential set of split-order positions: insert k -> SInsert (okey (hash k) k), erase k -> SErase .., contains k ->
    SContains .., each response with its boolean result (distinct client keys 0..255 have distinct positions,
    [SplitListOrdArith.okey_key]).  It is the history of an LP-annotated trace valid for SetSpec, hence linearizable -
    while buckets are being initialised (recursively, by any thread) and while the table grows.  Linearization points:
    the link CAS / the marking CAS of a successful insert / erase; failed insert, failed erase and contains at the
    thread's own last observation (C13's rule). *)
Theorem C14_split_linearizable_lp :
  forall (cap : nat) (hs : list Z), Z.of_nat cap <= 2 ^ 62 ->
  forall fuel ths c, ops_ok ths -> Conc.reach (SplitList.init_cfg cap hs fuel ths) c ->
    exists atr, lp_valid SetSpec atr /\ erase atr = split_hist hs (Conc.trace c).
Proof. exact split_linearizable_lp. Qed.
Print Assumptions C14_split_linearizable_lp.

Theorem C14_split_linearizable :
  forall (cap : nat) (hs : list Z), Z.of_nat cap <= 2 ^ 62 ->
  forall fuel ths c, ops_ok ths -> Conc.reach (SplitList.init_cfg cap hs fuel ths) c ->
    linearizable SetSpec (split_hist hs (Conc.trace c)).
Proof. exact split_linearizable. Qed.
Print Assumptions C14_split_linearizable.

(** the same in terms of the CLIENT keys: [client_hist tr] is the history insert k -> SInsert k, erase k -> SErase k,
    contains k -> SContains k (k as the client passed it) with the boolean results; distinct keys 0..255 have distinct
    split-order positions, so the annotated trace above, keys renamed back, is valid for it *)
Theorem C14_split_keys_linearizable_lp :
  forall (hs : list Z) (cap : nat), Z.of_nat cap <= 2 ^ 62 ->
  forall fuel ths c, ops_ok ths -> Conc.reach (SplitList.init_cfg cap hs fuel ths) c ->
    exists atr, lp_valid SetSpec atr /\ erase atr = client_hist (Conc.trace c).
Proof. exact split_keys_linearizable_lp. Qed.
Print Assumptions C14_split_keys_linearizable_lp.

Theorem C14_split_keys_linearizable :
  forall (hs : list Z) (cap : nat), Z.of_nat cap <= 2 ^ 62 ->
  forall fuel ths c, ops_ok ths -> Conc.reach (SplitList.init_cfg cap hs fuel ths) c ->
    linearizable SetSpec (client_hist (Conc.trace c)).
Proof. exact split_keys_linearizable. Qed.
Print Assumptions C14_split_keys_linearizable.

(** non-vacuity: the 3-thread run of Properties_C14 (the table grows from 2 to 4 buckets, buckets 1 and 3 get initialised,
    bucket 3 after its parent 1) satisfies the hypotheses; its history has 12 events (6 completed operations) and the
    verified checker accepts it; bucket 3's dummy is reachable from bucket 1's dummy *)
Example C14_split_lin_nonvacuous :
  let ths := [[[1;1];[1;3]]; [[1;0];[1;2]]; [[1;3];[13;1]]]%Z in
  let c := fst (Conc.run 20000 0 [0;1;2;1;0;2;2;1]%nat (SplitList.init_cfg 32 [0;1;2;3;4;5]%Z 80 ths)) in
  ops_ok ths /\ Z.of_nat 32 <= 2 ^ 62 /\
  Conc.reach (SplitList.init_cfg 32 [0;1;2;3;4;5]%Z 80 ths) c /\
  List.length (split_hist [0;1;2;3;4;5]%Z (Conc.trace c)) = 12%nat /\
  lincheck SetSpec (split_hist [0;1;2;3;4;5]%Z (Conc.trace c)) = true /\
  lincheck SetSpec (client_hist (Conc.trace c)) = true /\
  table (Conc.shared c) 3 <> 0%nat /\ parent_bucket 3 = 1%nat.
Proof.
  cbv zeta. split; [|split; [|split; [|split; [|split; [|split; [|split]]]]]].
  - repeat constructor; cbn; lia.
  - cbn. lia.
  - apply Conc.run_reach.
  - vm_compute. reflexivity.
  - vm_compute. reflexivity.
  - vm_compute. reflexivity.
  - vm_compute. discriminate.
  - vm_compute. reflexivity.
Qed.
