(** Property C03, DHP half, companion file: conservation of retired objects for EVERY schedule.

    Properties_C03.v proves for the DHP model (LV.Model.Dhp of src/dhp.cpp, cds/gc/dhp.h) that no object is disposed
    twice and only retired objects are disposed.  This file adds the other direction: no retired object is ever
    lost.  In every configuration reachable by any sequence of thread choices, every object handed to retire() has
    been disposed, or is one of the cells that the destructor ~smr frees for a thread record on smr::thread_list_
    ([seq_final c r g]: what LV.Model.Dhp.destroy_recs disposes for record r), or is in flight in a thread that owns
    a thread record (between retire() and the push, between stage 2 of a scan and the disposer call, or being moved
    by help_scan).  The invariant (LV.Proofs.DhpConsInv: the pointer invariant JW of DhpInvB together with its
    converse) is proved through every scan, extension of a retired array, detach (truncation or tear-down of the
    array) and help_scan, by LV.Proofs.DhpCons*.v.

    Side conditions: RB >= 4, current-code configuration (c_old = c_oldtail = false), fewer than 2^31 - 3 threads
    (C21), retire() is called by attached threads only ([retire_attached]: a syntactic condition on the client
    programs; the model's retire() of a detached thread does nothing, the real one dereferences a null tls), every
    object is retired at most once, and the model's out-of-bounds flag is not set ([oob] = false: no retired cell
    was written outside its block, no pointer was pushed into a record without retired array).

    [C03_dhp_destroy_disposes_all_statement_refuted]: the statement of LV.Proofs.DhpProofsC03 about a run of
    smr::destruct, read literally, is false of the model (a retire() by a thread that is not attached is counted as
    a retire and does nothing); computed witness.  The corrected statement is kept visible as
    [C03_dhp_destroy_disposes_all_detached_statement]; it is NOT proved.  What is proved of it: the two theorems
    above (every retired, not yet disposed object sits below the cursor of the retired array of a record on
    thread_list_ when no record is owned, which is exactly what destroy_recs hands to the disposer), and in
    LV.Proofs.DhpConsDestroy the agreement of [Conc.run] of the single destructor thread with a big-step evaluator
    ([run_single]) and the frame of retired_array::fini ([rt_fini_fr]: only the blocks of the record's own chain and
    the record's own cursor fields change, no disposer call, a None result only after "outoffuel").  Missing: the
    induction over thread_list_ in destroy_recs that puts these together.
    [dhp_scan_frees_unguarded_statement] (Properties_C03.v) is not addressed here. *)
From Coq Require Import ZArith List String Permutation.
From LV Require Import Base.Conc Base.Events.
From LV Require Model.DhpLang Model.Dhp Proofs.DhpBase Proofs.DhpSeqThm Proofs.DhpHist Proofs.DhpInvB Proofs.DhpProofsC03 Proofs.DhpConsMainC Proofs.DhpConsThm
  Proofs.DhpConsRefute Proofs.DhpConsDestroy.
Import ListNotations.
Local Open Scope Z_scope.
Local Open Scope string_scope.

Section DHP_conservation.
  Import Model.DhpLang Model.Dhp Proofs.DhpBase Proofs.DhpSeqThm Proofs.DhpHist Proofs.DhpProofsC03 Proofs.DhpConsThm.

  (** every retired object is disposed, or waits in the retired array of a record on thread_list_ (where ~smr frees
      it), or is in flight in a thread that owns a record -- at every instant, for every schedule *)
  Theorem C03_dhp_retired_conserved : forall fuel (c : cfg) ths conf,
    (4 <= c_RB c)%nat -> c_old c = false -> c_oldtail c = false ->
    Z.of_nat (List.length ths) + 3 < 2147483648 ->
    Forall retire_attached ths ->
    Conc.reach (init_cfg fuel c ths) conf ->
    NoDup (flat_map (fun e => retired_ev (snd e)) (Conc.trace conf)) ->
    oob (Conc.shared conf) = false ->
    forall p, In p (flat_map (fun e => retired_ev (snd e)) (Conc.trace conf)) ->
      In p (disposed_of (Conc.trace conf)) \/
      (exists r, on_tlist (Conc.shared conf) r /\ In p (seq_final c r (Conc.shared conf))) \/
      (exists r, (r < List.length (recs (Conc.shared conf)))%nat /\ r_tid (grec (Conc.shared conf) r) <> 0%nat).
  Proof. exact dhp_retired_conserved. Qed.

  (** ... and when no thread record is owned (every thread has detached): disposed, or freed by ~smr *)
  Theorem C03_dhp_retired_conserved_detached : forall fuel (c : cfg) ths conf,
    (4 <= c_RB c)%nat -> c_old c = false -> c_oldtail c = false ->
    Z.of_nat (List.length ths) + 3 < 2147483648 ->
    Forall retire_attached ths ->
    Conc.reach (init_cfg fuel c ths) conf ->
    NoDup (flat_map (fun e => retired_ev (snd e)) (Conc.trace conf)) ->
    oob (Conc.shared conf) = false ->
    (forall r, (r < List.length (recs (Conc.shared conf)))%nat -> r_tid (grec (Conc.shared conf) r) = 0%nat) ->
    forall p, In p (flat_map (fun e => retired_ev (snd e)) (Conc.trace conf)) ->
      In p (disposed_of (Conc.trace conf)) \/
      (exists r, on_tlist (Conc.shared conf) r /\ In p (seq_final c r (Conc.shared conf))).
  Proof. exact dhp_retired_conserved_detached. Qed.

  (** non-vacuity: thread 0 retires 5 and 6 and detaches while a guard of thread 1 holds 5: its scan disposes 6
      only and 5 stays in the retired array of the orphaned record 0, which is on thread_list_; every hypothesis of
      the theorem holds of the final configuration of this run, and 5 is where the theorem says *)
  Example C03_dhp_conserved_nonvacuous :
    let c := mkCfg 4 2 4 false 200 1 false in
    let ths := map decode_ops
                 [[[1]; [15;0;1]; [9;5]; [9;6]; [2]];
                  [[1]; [3;0]; [5;0;5]; [8;0;1]]] in
    let conf := fst (Conc.run 5000 0 [] (init_cfg 5000 c ths)) in
    (4 <= c_RB c)%nat /\ c_old c = false /\ c_oldtail c = false /\ Z.of_nat (List.length ths) + 3 < 2147483648 /\
    Forall retire_attached ths /\ Conc.reach (init_cfg 5000 c ths) conf /\
    flat_map (fun e => retired_ev (snd e)) (Conc.trace conf) = [5%nat; 6%nat] /\ oob (Conc.shared conf) = false /\
    disposed_of (Conc.trace conf) = [6%nat] /\ tlist (Conc.shared conf) = Some 1%nat /\
    r_next (grec (Conc.shared conf) 1) = Some 0%nat /\ seq_final c 0 (Conc.shared conf) = [5%nat].
  Proof.
    cbv zeta. split; [vm_compute; auto|]. split; [reflexivity|]. split; [reflexivity|]. split; [vm_compute; reflexivity|].
    split; [repeat constructor; vm_compute; auto|]. split; [apply Conc.run_reach|]. repeat split; vm_compute; reflexivity.
  Qed.

  (** the literal statement of DhpProofsC03 about smr::destruct is false of the model: witness = one thread that
      calls retire( 5 ) without attaching *)
  Theorem C03_dhp_destroy_disposes_all_statement_refuted : ~ dhp_destroy_disposes_all_statement.
  Proof. exact DhpConsRefute.dhp_destroy_disposes_all_statement_refuted. Qed.

  (** the corrected statement (NOT proved): from a reachable configuration in which no thread record is owned,
      a complete run of smr::destruct( true ) that does not run out of loop fuel disposes exactly the retired and
      not yet disposed objects *)
  Definition C03_dhp_destroy_disposes_all_detached_statement : Prop := forall fuel (c : cfg) ths conf,
    (4 <= c_RB c)%nat -> c_old c = false -> c_oldtail c = false ->
    Z.of_nat (List.length ths) + 3 < 2147483648 ->
    Forall retire_attached ths ->
    Conc.reach (init_cfg fuel c ths) conf ->
    NoDup (flat_map (fun e => retired_ev (snd e)) (Conc.trace conf)) ->
    oob (Conc.shared conf) = false ->
    (forall r, (r < List.length (recs (Conc.shared conf)))%nat -> r_tid (grec (Conc.shared conf) r) = 0%nat) ->
    forall fuel2 d, d = Conc.run fuel2 0 [] (Conc.Cfg (Conc.shared conf)
                          [compile fuel2 (DAct a_begin (fun _ => to_unit (destruct c (S (List.length ths)))))] []) ->
    snd d = true -> ~ In (EvCli "outoffuel" []) (map snd (Conc.trace (fst d))) ->
    Permutation (disposed_of (Conc.trace conf) ++ disposed_of (Conc.trace (fst d)))
                (flat_map (fun e => retired_ev (snd e)) (Conc.trace conf)).

  (** proved part of it: the run of the single destructor thread is the big-step evaluation of smr::destruct *)
  Theorem C03_dhp_destroy_run_is_dexec_partial : forall fuel i (p : @dprog G ev unit) g tr0 cf,
    match p with DAct _ _ => True | _ => False end ->
    Conc.run fuel i [] (Conc.Cfg g [compile fuel p] tr0) = (cf, true) ->
    Conc.trace cf = (tr0 ++ Conc.tag 0 (snd (fst (DhpConsDestroy.dexec p g))))%list /\ Conc.shared cf = fst (fst (DhpConsDestroy.dexec p g)).
  Proof. exact DhpConsDestroy.run_single. Qed.
End DHP_conservation.
Print Assumptions C03_dhp_retired_conserved.
Print Assumptions C03_dhp_retired_conserved_detached.
Print Assumptions C03_dhp_destroy_disposes_all_statement_refuted.
Print Assumptions C03_dhp_destroy_run_is_dexec_partial.

(** ** smr::destruct( true ) disposes everything that is left (added after the text above was written: the "corrected
       statement" [C03_dhp_destroy_disposes_all_detached_statement] IS now proved)

    LV.Proofs.DhpConsDRecs: induction over thread_list_ in destroy_recs (the disposer calls of the destructor are the
    concatenation over thread_list_ of the cells below the cursor of each record's retired array, by the frame of
    retired_array::fini / thread_hp_storage::clear); LV.Proofs.DhpConsDThm: the permutation from JW and its converse
    JC at a configuration in which no record is owned. *)
From Coq Require Import Lia PeanoNat.
From LV Require Proofs.DhpConsDRecs Proofs.DhpConsDThm.

Section DHP_destroy.
  Import Model.DhpLang Model.Dhp Proofs.DhpBase Proofs.DhpSeqThm Proofs.DhpHist Proofs.DhpProofsC03 Proofs.DhpConsThm.

  (** from ANY configuration reachable by any sequence of thread choices in which no thread record is owned (every
      thread has detached), a complete run of smr::destruct( true ) in which no loop runs out of fuel gives to the
      disposer exactly the retired objects that were not yet disposed: disposer calls before and during destruction
      together are a permutation of the objects handed to retire() -- every retired object is disposed exactly once,
      no later than destruction of the singleton *)
  Theorem C03_dhp_destroy_disposes_all_detached : C03_dhp_destroy_disposes_all_detached_statement.
  Proof. exact DhpConsDThm.dhp_destroy_disposes_all_detached. Qed.

  (** non-vacuity: two threads that detach at the same time leave work for the destructor.  Thread 1 guards object 5
      and publishes; thread 0 retires 5 and 6 and runs its detach (scan, help_scan, scan: 6 is disposed, 5 is guarded)
      up to its last store thread_id_ = null; thread 1 detaches completely (its help_scan skips record 1, which is
      still owned); thread 0 finishes.  No record is owned, 5 waits in the retired array of the record of thread 0:
      every hypothesis holds, the destructor finishes without running out of fuel and its only disposer call is 5 *)
  Example C03_dhp_destroy_nonvacuous :
    let c := mkCfg 4 2 4 false 200 1 false in
    let ths := map decode_ops
                 [[[1]; [15;0;1]; [9;5]; [9;6]; [2]];
                  [[1]; [3;0]; [5;0;5]; [8;0;1]; [2]]] in
    let conf := fst (Conc.run 5000 0 (repeat 1%nat 11 ++ repeat 0%nat 45 ++ repeat 1%nat 400) (init_cfg 5000 c ths)) in
    let d := Conc.run 5000 0 [] (Conc.Cfg (Conc.shared conf)
                          [compile 5000 (DAct a_begin (fun _ => to_unit (destruct c (S (List.length ths)))))] []) in
    Forall retire_attached ths /\ Conc.reach (init_cfg 5000 c ths) conf /\
    flat_map (fun e => retired_ev (snd e)) (Conc.trace conf) = [5%nat; 6%nat] /\ oob (Conc.shared conf) = false /\
    (forall r, (r < List.length (recs (Conc.shared conf)))%nat -> r_tid (grec (Conc.shared conf) r) = 0%nat) /\
    snd d = true /\ ~ In (EvCli "outoffuel" []) (map snd (Conc.trace (fst d))) /\
    disposed_of (Conc.trace conf) = [6%nat] /\ disposed_of (Conc.trace (fst d)) = [5%nat].
  Proof.
    cbv zeta. split; [repeat constructor; vm_compute; auto|]. split; [apply Conc.run_reach|].
    split; [vm_compute; reflexivity|]. split; [vm_compute; reflexivity|].
    split.
    { intros r Hr. match type of Hr with (_ < ?n)%nat => assert (El : n = 2%nat) by (vm_compute; reflexivity); rewrite El in Hr end.
      destruct r as [|[|r]]; [vm_compute; reflexivity|vm_compute; reflexivity|exfalso; lia]. }
    split; [vm_compute; reflexivity|]. split; [|split; vm_compute; reflexivity].
    pose (f := fun e : ev => match e with EvCli n [] => String.eqb n "outoffuel" | _ => false end).
    match goal with |- ~ In _ ?l => assert (E : forallb (fun e => negb (f e)) l = true) by (vm_compute; reflexivity) end.
    intros H. rewrite forallb_forall in E. specialize (E _ H). discriminate E.
  Qed.
End DHP_destroy.
Print Assumptions C03_dhp_destroy_disposes_all_detached.

(** ** "a reclamation pass that runs while no guard protects a retired object frees it" (DHP)

    [C03_dhp_scan_frees_unguarded_statement_refuted]: the statement of LV.Proofs.DhpProofsC03 over every interleaving,
    read literally, is false of the model -- it makes a scan of thread t responsible for everything t ever retired, but
    the retired array belongs to the thread record: an object retired by t while attached to record 0 stays there when
    t detaches, and a later attach of t may get another record (smr::alloc_thread_data takes the first unowned one).
    Computed witness in LV.Proofs.DhpConsDScanRefute (3 threads).  Not a defect of the C++ code: the object is freed
    by the next help_scan that adopts the orphaned record or by ~smr (theorem above).
    [C03_dhp_scan_frees_unguarded_att_statement]: the corrected statement (objects retired by t since its last
    attach, which returned the scanned record); NOT proved.
    [C03_dhp_scan_run_frees_unguarded_partial]: what is proved -- the whole of smr::scan (collection of the hazard
    cells of every owned record of thread_list_ and of their extension blocks, stage 2), run without interference
    from ANY memory in which the scanned record has a well-formed retired array, frees every pointer below the
    cursor that is in no hazard cell.  (The old partial theorem covered stage 2 with an arbitrary hazard list only.)
    Missing for the corrected statement: the interleaving of the hazard loads with other threads' steps (a guard set
    after its cell was read is not seen: that is the C02 side) and the link "retired by t since attach r, not
    disposed => in the array of r" (an ownership invariant over the history, not part of JB). *)
From LV Require Proofs.DhpSeq Proofs.DhpConsDScan Proofs.DhpConsDScanRefute.

Section DHP_scan.
  Import Model.DhpLang Model.Dhp Proofs.DhpBase Proofs.DhpSeq Proofs.DhpSeqThm Proofs.DhpHist Proofs.DhpProofsC03.

  Theorem C03_dhp_scan_frees_unguarded_statement_refuted : ~ dhp_scan_frees_unguarded_statement.
  Proof. exact DhpConsDScanRefute.dhp_scan_frees_unguarded_statement_refuted. Qed.

  Definition C03_dhp_scan_frees_unguarded_att_statement : Prop := DhpConsDScanRefute.dhp_scan_frees_unguarded_att_statement.

  Theorem C03_dhp_scan_run_frees_unguarded_partial : forall (c : cfg), (4 <= c_RB c)%nat -> forall g r chain w,
    Rinv c g r chain w ->
    ~ In (EvCli "outoffuel" []) (snd (fst (DhpConsDestroy.dexec (Dhp.scan c r) g))) ->
    forall p, In p (content g chain w) -> (forall s, slot_get g s <> p) ->
      In p (flat_map DhpInvB.disposed_ev (snd (fst (DhpConsDestroy.dexec (Dhp.scan c r) g)))).
  Proof. exact DhpConsDScan.scan_run_frees_unguarded. Qed.

  (** non-vacuity: thread 1 guards object 5, thread 0 retires 5 and 6; a scan of record 0 from the memory reached then
      frees 6 (in no hazard cell) and keeps 5 *)
  Example C03_dhp_scan_run_nonvacuous :
    let c := DhpConsDScan.xc in let g := DhpConsDScan.xg in
    Rinv c g 0 [0%nat] 2 /\ ~ In (EvCli "outoffuel" []) (snd (fst (DhpConsDestroy.dexec (Dhp.scan c 0) g))) /\
    content g [0%nat] 2 = [5%nat; 6%nat] /\ (forall s, slot_get g s <> 6%nat) /\
    flat_map DhpInvB.disposed_ev (snd (fst (DhpConsDestroy.dexec (Dhp.scan c 0) g))) = [6%nat].
  Proof. exact DhpConsDScan.scan_run_nonvacuous. Qed.
End DHP_scan.
Print Assumptions C03_dhp_scan_frees_unguarded_statement_refuted.
Print Assumptions C03_dhp_scan_run_frees_unguarded_partial.

(** ** the out-of-bounds flag of the model is never set (added later: discharges the hypothesis [oob] = false above)

    [C03_dhp_oob_false]: in every configuration reachable by any sequence of thread choices, [oob] = false: no retired
    cell was written outside its block and no pointer was pushed into a thread record without retired array, i.e. every
    retired_array::push of the model (retire(), repush in stage 2 of smr::scan, the moves of smr::help_scan) finds
    current_block_ != nullptr and current_cell_ < last().  Proof: the invariant of LV.Proofs.DhpConsInv carries one more
    per-thread ghost field [vb_arr] ("the record I am attached to has a retired array", from the end of
    retired_array::init in smr::alloc_thread_data to the test retired_.empty() in smr::free_thread_data, [jc_arr]) and the
    field [jw_8 : oob g = false]; "not full" was already thread-local ([vb_full], [jr_rec]).  RB >= 4 is needed: after a
    scan that frees nothing of a full array, extend() is called only because 0 < RB * blocks / 4.
    The three theorems above then hold without the hypothesis on [oob]. *)
Section DHP_oob.
  Import Model.DhpLang Model.Dhp Proofs.DhpBase Proofs.DhpSeqThm Proofs.DhpHist Proofs.DhpProofsC03 Proofs.DhpConsThm.

  Theorem C03_dhp_oob_false : forall fuel (c : cfg) ths conf,
    (4 <= c_RB c)%nat -> c_old c = false -> c_oldtail c = false ->
    Z.of_nat (List.length ths) + 3 < 2147483648 ->
    Forall retire_attached ths ->
    Conc.reach (init_cfg fuel c ths) conf ->
    NoDup (flat_map (fun e => retired_ev (snd e)) (Conc.trace conf)) ->
    oob (Conc.shared conf) = false.
  Proof. exact dhp_oob_false. Qed.

  Theorem C03_dhp_retired_conserved_nooob : forall fuel (c : cfg) ths conf,
    (4 <= c_RB c)%nat -> c_old c = false -> c_oldtail c = false ->
    Z.of_nat (List.length ths) + 3 < 2147483648 ->
    Forall retire_attached ths ->
    Conc.reach (init_cfg fuel c ths) conf ->
    NoDup (flat_map (fun e => retired_ev (snd e)) (Conc.trace conf)) ->
    forall p, In p (flat_map (fun e => retired_ev (snd e)) (Conc.trace conf)) ->
      In p (disposed_of (Conc.trace conf)) \/
      (exists r, on_tlist (Conc.shared conf) r /\ In p (seq_final c r (Conc.shared conf))) \/
      (exists r, (r < List.length (recs (Conc.shared conf)))%nat /\ r_tid (grec (Conc.shared conf) r) <> 0%nat).
  Proof. exact dhp_retired_conserved_nooob. Qed.

  Theorem C03_dhp_retired_conserved_detached_nooob : forall fuel (c : cfg) ths conf,
    (4 <= c_RB c)%nat -> c_old c = false -> c_oldtail c = false ->
    Z.of_nat (List.length ths) + 3 < 2147483648 ->
    Forall retire_attached ths ->
    Conc.reach (init_cfg fuel c ths) conf ->
    NoDup (flat_map (fun e => retired_ev (snd e)) (Conc.trace conf)) ->
    (forall r, (r < List.length (recs (Conc.shared conf)))%nat -> r_tid (grec (Conc.shared conf) r) = 0%nat) ->
    forall p, In p (flat_map (fun e => retired_ev (snd e)) (Conc.trace conf)) ->
      In p (disposed_of (Conc.trace conf)) \/
      (exists r, on_tlist (Conc.shared conf) r /\ In p (seq_final c r (Conc.shared conf))).
  Proof. exact dhp_retired_conserved_detached_nooob. Qed.

  (** every retired object is disposed exactly once, no later than destruction of the singleton -- no side condition on
      the model's out-of-bounds flag any more *)
  Theorem C03_dhp_destroy_disposes_all_detached_nooob : forall fuel (c : cfg) ths conf,
    (4 <= c_RB c)%nat -> c_old c = false -> c_oldtail c = false ->
    Z.of_nat (List.length ths) + 3 < 2147483648 ->
    Forall retire_attached ths ->
    Conc.reach (init_cfg fuel c ths) conf ->
    NoDup (flat_map (fun e => retired_ev (snd e)) (Conc.trace conf)) ->
    (forall r, (r < List.length (recs (Conc.shared conf)))%nat -> r_tid (grec (Conc.shared conf) r) = 0%nat) ->
    forall fuel2 d, d = Conc.run fuel2 0 [] (Conc.Cfg (Conc.shared conf)
                          [compile fuel2 (DAct a_begin (fun _ => to_unit (destruct c (S (List.length ths)))))] []) ->
    snd d = true -> ~ In (EvCli "outoffuel" []) (map snd (Conc.trace (fst d))) ->
    Permutation (disposed_of (Conc.trace conf) ++ disposed_of (Conc.trace (fst d)))
                (flat_map (fun e => retired_ev (snd e)) (Conc.trace conf)).
  Proof. exact DhpConsDThm.dhp_destroy_disposes_all_detached_nooob. Qed.

  (** non-vacuity: block size 4; thread 1 guards objects 1..5; thread 0 retires 1..9: the 4th push fills the only block,
      the scan frees nothing (4 guarded), so extend() is called; the 8th push fills the second block, the scan frees 3
      (6, 7, 8) of 8 and compacts; every hypothesis holds of the final configuration, the flag is not set, and two blocks
      were needed *)
  Example C03_dhp_oob_nonvacuous :
    let c := mkCfg 8 2 4 false 400 1 false in
    let ths := map decode_ops
                 [[[1]; [15;0;1]; [11;1;9]];
                  [[1]; [12;0;1;5]; [8;0;1]]] in
    let conf := fst (Conc.run 20000 0 [] (init_cfg 20000 c ths)) in
    (4 <= c_RB c)%nat /\ c_old c = false /\ c_oldtail c = false /\ Z.of_nat (List.length ths) + 3 < 2147483648 /\
    Forall retire_attached ths /\ Conc.reach (init_cfg 20000 c ths) conf /\
    flat_map (fun e => retired_ev (snd e)) (Conc.trace conf) = [1;2;3;4;5;6;7;8;9]%nat /\
    oob (Conc.shared conf) = false /\ disposed_of (Conc.trace conf) = [6;7;8]%nat /\
    r_bcount (grec (Conc.shared conf) 0) = 2%nat.
  Proof.
    cbv zeta. split; [vm_compute; auto|]. split; [reflexivity|]. split; [reflexivity|]. split; [vm_compute; reflexivity|].
    split; [repeat constructor; vm_compute; auto|]. split; [apply Conc.run_reach|]. repeat split; vm_compute; reflexivity.
  Qed.
End DHP_oob.
Print Assumptions C03_dhp_oob_false.
Print Assumptions C03_dhp_retired_conserved_nooob.
Print Assumptions C03_dhp_retired_conserved_detached_nooob.
Print Assumptions C03_dhp_destroy_disposes_all_detached_nooob.

(** ** towards the corrected statement [C03_dhp_scan_frees_unguarded_att_statement]: the ownership half, for every schedule

    [C03_dhp_scan_begins_with_own_retired]: in the configuration right after the step in which a thread t emits
    "_scanb r" (the begin of smr::scan( r ): retire() on a full array, DHP::scan(), the scans of detach / help_scan), every
    object that t has handed to retire() since its last "_att" event -- which was for this record r -- and that has not
    been disposed is below the cursor of the retired array of r ([seq_final c r g]): exactly the cells stage 2 of this
    scan goes through.  In particular none of them was lost, none sits in another record, none was moved away by a
    help_scan of another thread.  (History invariant [jh_mine] of LV.Proofs.DhpConsInv over the trace functions of
    LV.Proofs.DhpConsSTrace: per-thread ghost fields [vb_mine], [vb_s0].)
    Still missing for [C03_dhp_scan_frees_unguarded_att_statement]: the hazard half -- "a value the scan loaded from a
    cell was the content of that cell at that instant" needs the C02 invariant [ja_slot] (slot_get g s = slotv (hist tr) s,
    LV.Proofs.DhpInvA) inside the C03 proof, i.e. the C03 thread proofs restated as [rdsafe] (LV.Proofs.DhpLiveGcRule)
    over InvA, a ghost copy of the collected list with "every element was held by some cell at some instant since
    _scanb", and the step from stage 2 to the disposer calls. *)
From LV Require Proofs.DhpConsSTrace.
Section DHP_own.
  Import Model.DhpLang Model.Dhp Proofs.DhpBase Proofs.DhpSeqThm Proofs.DhpHist Proofs.DhpProofsC03 Proofs.DhpConsThm.

  Theorem C03_dhp_scan_begins_with_own_retired : forall fuel (c : cfg) ths conf,
    (4 <= c_RB c)%nat -> c_old c = false -> c_oldtail c = false ->
    Z.of_nat (List.length ths) + 3 < 2147483648 ->
    Forall retire_attached ths ->
    Conc.reach (init_cfg fuel c ths) conf ->
    NoDup (flat_map (fun e => retired_ev (snd e)) (Conc.trace conf)) ->
    forall tr0 tr1 t r,
      Conc.trace conf = (tr0 ++ (t, ev_att r) :: tr1 ++ [(t, ev_scanb r)])%list ->
      (forall e, In e tr1 -> fst e = t -> forall r', classify (snd e) <> HAtt r') ->
      forall p, In p (flat_map (fun e => if Nat.eqb (fst e) t then retired_ev (snd e) else []) tr1) ->
      ~ In p (disposed_of (Conc.trace conf)) ->
      In p (seq_final c r (Conc.shared conf)).
  Proof. exact dhp_scan_begins_with_own_retired. Qed.

  (** non-vacuity: thread 1 guards 5; thread 0 attaches (record 0), retires 5 and 6 and calls DHP::scan(); after 26 steps
      of the round-robin schedule the last event is "_scanb 0" of thread 0: both objects are in the array of record 0 *)
  Example C03_dhp_scan_begins_nonvacuous :
    let c := mkCfg 4 2 4 false 200 1 false in
    let ths := map decode_ops
                 [[[1]; [15;0;1]; [9;5]; [9;6]; [10]];
                  [[1]; [3;0]; [5;0;5]; [8;0;1]]] in
    let conf := fst (Conc.run 26 0 [] (init_cfg 5000 c ths)) in
    let tr0 := firstn 18 (Conc.trace conf) in
    let tr1 := firstn 30 (skipn 19 (Conc.trace conf)) in
    Forall retire_attached ths /\ Conc.reach (init_cfg 5000 c ths) conf /\
    Conc.trace conf = (tr0 ++ (0%nat, ev_att 0) :: tr1 ++ [(0%nat, ev_scanb 0)])%list /\
    forallb (fun e => match classify (snd e) with HAtt _ => negb (Nat.eqb (fst e) 0) | _ => true end) tr1 = true /\
    flat_map (fun e => if Nat.eqb (fst e) 0 then retired_ev (snd e) else []) tr1 = [5%nat; 6%nat] /\
    disposed_of (Conc.trace conf) = [] /\ seq_final c 0 (Conc.shared conf) = [5%nat; 6%nat].
  Proof.
    cbv zeta. split; [repeat constructor; vm_compute; auto|]. split; [apply Conc.run_reach|].
    split; [vm_compute; reflexivity|]. split; [vm_compute; reflexivity|]. split; [vm_compute; reflexivity|].
    split; vm_compute; reflexivity.
  Qed.
End DHP_own.
Print Assumptions C03_dhp_scan_begins_with_own_retired.

(** ** ... and composed with the interference-free scan: the corrected statement with "the scan runs without interference"
       in place of "no cell holds p at any moment of the scan"

    [C03_dhp_scan_run_frees_own_unguarded_partial]: ANY schedule up to the step in which thread t emits "_scanb r"; if a
    whole smr::scan( r ) runs from the memory of that configuration without interference (big-step evaluation [dexec],
    no loop out of fuel), it hands to the disposer every object that t handed to retire() since its last "_att" event,
    that is not yet disposed and that no hazard cell holds at that moment.  This is
    [C03_dhp_scan_frees_unguarded_att_statement] with the interleaving during the scan removed; the hypotheses of
    [C03_dhp_scan_run_frees_unguarded_partial] on the memory (well-formed array, the object is below the cursor) are
    discharged from reachability. *)
From LV Require Proofs.DhpConsSOwn.
Section DHP_own_run.
  Import Model.DhpLang Model.Dhp Proofs.DhpBase Proofs.DhpSeqThm Proofs.DhpHist Proofs.DhpProofsC03 Proofs.DhpConsThm.

  Theorem C03_dhp_scan_run_frees_own_unguarded_partial : forall fuel (c : cfg) ths conf,
    (4 <= c_RB c)%nat -> c_old c = false -> c_oldtail c = false ->
    Z.of_nat (List.length ths) + 3 < 2147483648 ->
    Forall retire_attached ths ->
    Conc.reach (init_cfg fuel c ths) conf ->
    NoDup (flat_map (fun e => retired_ev (snd e)) (Conc.trace conf)) ->
    forall tr0 tr1 t r,
      Conc.trace conf = (tr0 ++ (t, ev_att r) :: tr1 ++ [(t, ev_scanb r)])%list ->
      (forall e, In e tr1 -> fst e = t -> forall r', classify (snd e) <> HAtt r') ->
      ~ In (EvCli "outoffuel" []) (snd (fst (DhpConsDestroy.dexec (Dhp.scan c r) (Conc.shared conf)))) ->
      forall p, In p (flat_map (fun e => if Nat.eqb (fst e) t then retired_ev (snd e) else []) tr1) ->
      ~ In p (disposed_of (Conc.trace conf)) ->
      (forall s, slot_get (Conc.shared conf) s <> p) ->
      In p (flat_map DhpInvB.disposed_ev (snd (fst (DhpConsDestroy.dexec (Dhp.scan c r) (Conc.shared conf))))).
  Proof. exact DhpConsSOwn.dhp_scan_run_frees_own_unguarded. Qed.

  (** non-vacuity: the configuration of [C03_dhp_scan_begins_nonvacuous]: 5 is guarded by thread 1, 6 by nobody; the scan
      run from there does not run out of fuel and frees 6 only *)
  Example C03_dhp_scan_run_own_nonvacuous :
    let c := mkCfg 4 2 4 false 200 1 false in
    let ths := map decode_ops
                 [[[1]; [15;0;1]; [9;5]; [9;6]; [10]];
                  [[1]; [3;0]; [5;0;5]; [8;0;1]]] in
    let conf := fst (Conc.run 26 0 [] (init_cfg 5000 c ths)) in
    forallb (fun e => match e with EvCli n [] => negb (String.eqb n "outoffuel") | _ => true end)
            (snd (fst (DhpConsDestroy.dexec (Dhp.scan c 0) (Conc.shared conf)))) = true /\
    flat_map DhpInvB.disposed_ev (snd (fst (DhpConsDestroy.dexec (Dhp.scan c 0) (Conc.shared conf)))) = [6%nat] /\
    slot_get (Conc.shared conf) (GI 1 0) = 5%nat.
  Proof. cbv zeta. split; [vm_compute; reflexivity|]. split; vm_compute; reflexivity. Qed.
End DHP_own_run.
Print Assumptions C03_dhp_scan_run_frees_own_unguarded_partial.
