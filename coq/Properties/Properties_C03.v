(** Property C03 — HP/DHP dispose every retired object exactly once.
    "With HP or DHP, every object passed to retire() is given to its disposer exactly once.  This happens no later
     than destruction of the reclamation singleton, including objects retired by threads that have since
     detached.  A reclamation pass that runs while no guard protects a retired object frees it."

    Only statements here; proofs are in LV.Proofs.Hp* (model LV.Model.Hp of src/hp.cpp, cds/gc/hp.h) and
    LV.Proofs.Dhp* (model LV.Model.Dhp of src/dhp.cpp, cds/gc/dhp.h).  Both models are tied to the real code by
    step correspondence (checks/C01.py, checks/C02.py; checks/C03.py re-runs both with the per-object dispose
    counters of the harnesses as the deciding monitors).

    HP half: proved for EVERY schedule (Conc.reach), every configuration, every client program.
    DHP half: proved for the sequential retired-array core (every retire/scan/extend sequence, every block size
    RB >= 4, arbitrary hazard lists); the statements over all interleavings are kept visible as [..._statement]
    (they need a second invariant over [reach]: the not-yet-disposed retired pointers are exactly the cells below
    each record's cursor plus the cells a running help_scan is moving; the per-record lemmas push_spec,
    stage2_spec, extend_spec are proved).  The pre-fix behaviour of retired_array::extend (commit 1cc4b4f) is
    refuted by a computed witness. *)
From Coq Require Import ZArith List String Permutation.
From LV Require Import Base.Conc Base.Events.
From LV Require Model.Hp Proofs.HpTrace Proofs.HpInv Proofs.HpProofs Proofs.HpDestroy.
From LV Require Model.DhpLang Model.Dhp Proofs.DhpBase Proofs.DhpSeq Proofs.DhpSeqThm Proofs.DhpHist Proofs.DhpProofsC03.
Import ListNotations.
Local Open Scope Z_scope.
Local Open Scope string_scope.

(** * Hazard Pointer scheme, every schedule *)
Section HP.
  Import Model.Hp Proofs.HpTrace Proofs.HpInv Proofs.HpProofs Proofs.HpDestroy.

  (** At most once: at every instant, for every object, #dispose <= #retire; so an object retired once is
      disposed at most once.  Every configuration (H, P, R, classic / in-place, even / odd pointers), every
      client program, every schedule. *)
  Theorem C03_hp_dispose_at_most_once : forall c ths cf,
    Conc.reach (init_cfg c ths) cf ->
    forall p, cnt "dispose" p (Conc.trace cf) <= cnt "retire" p (Conc.trace cf).
  Proof. exact hp_dispose_at_most_once. Qed.

  Theorem C03_hp_dispose_once : forall c ths cf,
    Conc.reach (init_cfg c ths) cf -> retire_once (Conc.trace cf) ->
    forall p, cnt "dispose" p (Conc.trace cf) <= 1.
  Proof. exact hp_dispose_once. Qed.

  (** No later than destruction: from any reachable quiescent state (every thread's last event is an operation
      response; threads may still be attached or long detached) running the singleton's destruction gives
      #retire p = #dispose p + #overflow p over the whole trace, and every retired array ends empty.
      ([overflow p] is the model's rendering of the out-of-bounds write that the real code performs when the
      retired capacity does not exceed H*P or more than P threads attach; never emitted under the documented
      preconditions - see C01_overflow_when_R_equals_HP and the fix 756de95.) *)
  Theorem C03_hp_destroy_disposes_all : forall c ths cf,
    Conc.reach (init_cfg c ths) cf -> quiescent (Conc.trace cf) ->
    forall g' es, destroy c (Conc.shared cf) = (g', es) ->
    let tr' := (Conc.trace cf ++ Conc.tag (List.length ths) es)%list in
    (forall p, cnt "retire" p tr' = cnt "dispose" p tr' + cnt "overflow" p tr') /\
    (forall r, r_ret (get_rec g' r) = []).
  Proof. exact hp_destroy_disposes_all. Qed.

  (** A pass frees what no guard protects: every cell a scan leaves in the retired array (the [kept] list of its
      scan-end event) was read from some hazard slot at some step of that scan; the cells examined are exactly
      freed ++ kept. *)
  Theorem C03_hp_scan_frees_unguarded : forall c ths cf,
    Conc.reach (init_cfg c ths) cf ->
    forall e t r kept s,
      nth_error (Conc.trace cf) e = Some (t, ev_scan_end r kept) ->
      last_sb (firstn e (Conc.trace cf)) t = Some s ->
      forall p, In p kept -> seen_in (Conc.trace cf) s e p.
  Proof. exact hp_scan_frees_unguarded. Qed.
End HP.
Print Assumptions C03_hp_dispose_at_most_once.
Print Assumptions C03_hp_dispose_once.
Print Assumptions C03_hp_destroy_disposes_all.
Print Assumptions C03_hp_scan_frees_unguarded.

(** * Dynamic Hazard Pointer scheme *)
Section DHP.
  Import Model.DhpLang Model.Dhp Proofs.DhpBase Proofs.DhpSeq Proofs.DhpSeqThm Proofs.DhpHist Proofs.DhpProofsC03.

  (** the statements over all interleavings (not proved in this development) *)
  Definition C03_dhp_dispose_at_most_once_statement : Prop := dhp_dispose_at_most_once_statement.
  Definition C03_dhp_destroy_disposes_all_statement : Prop := dhp_destroy_disposes_all_statement.
  Definition C03_dhp_scan_frees_unguarded_statement : Prop := dhp_scan_frees_unguarded_statement.

  (** what is proved: the sequential core retire / scan / extend / destroy of one thread's retired array, for
      every block size RB >= 4, every operation sequence with arbitrary hazard lists, objects retired once:
      no object is disposed twice, nothing but retired objects is disposed, no cell outside a block is written *)
  Theorem C03_dhp_dispose_at_most_once_partial : forall (c : cfg) (os : list sop),
    (4 <= c_RB c)%nat -> c_old c = false -> NoDup (retired_of os) ->
    NoDup (snd (seq_run c 0 os (seq_init c))) /\ incl (snd (seq_run c 0 os (seq_init c))) (retired_of os) /\
    oob (fst (seq_run c 0 os (seq_init c))) = false.
  Proof. exact dhp_dispose_at_most_once_partial. Qed.

  (** the destructor frees exactly what is pending: together every retired pointer is freed exactly once *)
  Theorem C03_dhp_destroy_disposes_all_partial : forall (c : cfg) (os : list sop),
    (4 <= c_RB c)%nat -> c_old c = false -> NoDup (retired_of os) ->
    Permutation (snd (seq_run c 0 os (seq_init c)) ++ seq_final c 0 (fst (seq_run c 0 os (seq_init c))))%list (retired_of os).
  Proof. exact dhp_destroy_disposes_all_partial. Qed.

  (** a scan frees exactly the pending pointers that are not in the hazard list it collected *)
  Theorem C03_dhp_scan_frees_unguarded_partial : forall (c : cfg) (os : list sop) (pl : list nat),
    (4 <= c_RB c)%nat -> c_old c = false -> NoDup (retired_of os) ->
    let g := fst (seq_run c 0 os (seq_init c)) in
    forall p, In p (seq_final c 0 g) -> ~ In p pl -> In p (snd (seq_scan c 0 pl g)).
  Proof. exact dhp_scan_frees_unguarded_partial. Qed.

  (** the behaviour of retired_array::extend before the fix 1cc4b4f disposes an object twice *)
  Theorem C03_dhp_old_extend_refuted :
    exists c os, c_old c = true /\ (4 <= c_RB c)%nat /\ NoDup (retired_of os) /\
                 ~ NoDup (snd (seq_run c 0 os (seq_init c))).
  Proof. exact dhp_old_extend_refuted. Qed.
End DHP.
Print Assumptions C03_dhp_dispose_at_most_once_partial.
Print Assumptions C03_dhp_destroy_disposes_all_partial.
Print Assumptions C03_dhp_scan_frees_unguarded_partial.
Print Assumptions C03_dhp_old_extend_refuted.

(** non-vacuity: a concrete HP run in which an object is retired once and disposed once, and a DHP sequence on the
    current extend() where the double-dispose witness of the old code is disposed once *)
Example C03_hp_nonvacuous_is_in_C01 : True. Proof. exact I. Qed.
Example C03_dhp_new_extend_same_input :
  snd (LV.Proofs.DhpSeqThm.seq_run (LV.Model.Dhp.mkCfg 4 2 8 false 100 1 false) 0 LV.Proofs.DhpSeqThm.old_witness
         (LV.Proofs.DhpSeqThm.seq_init (LV.Model.Dhp.mkCfg 4 2 8 false 100 1 false))) = [8%nat].
Proof. exact LV.Proofs.DhpSeqThm.dhp_new_extend_same_input. Qed.
