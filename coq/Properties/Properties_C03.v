(** Property C03 — HP/DHP dispose every retired object exactly once.
    "With HP or DHP, every object passed to retire() is given to its disposer exactly once.  This happens no later
     than destruction of the reclamation singleton, including objects retired by threads that have since
     detached.  A reclamation pass that runs while no guard protects a retired object frees it."

    Only statements here; proofs are in LV.Proofs.Hp* (model LV.Model.Hp of src/hp.cpp, cds/gc/hp.h) and
    LV.Proofs.Dhp* (model LV.Model.Dhp of src/dhp.cpp, cds/gc/dhp.h).  Both models are tied to the real code by
    step correspondence (checks/C01.py, checks/C02.py; checks/C03.py re-runs both with the per-object dispose
    counters of the harnesses as the deciding monitors).

    HP half: proved for EVERY schedule (Conc.reach), every configuration, every client program.
    DHP half: "at most once" and "only retired objects" are proved for EVERY schedule (Conc.reach), every client
    program (attach / detach with help_scan / guards / retire / scan), every block size RB >= 4, conditional on
    the embedded free list of retired blocks behaving as a set (flbad = false: property C21); the invariant is
    LV.Proofs.DhpInvB (every retired, not yet disposed pointer is in one place: below one record's cursor and not
    yet moved away by a running help_scan, or in flight in one thread).  "Destruction disposes everything" and
    "a scan frees what no guard holds" are proved for the sequential retired-array core (every retire / scan /
    extend sequence, arbitrary hazard lists); their statements over all interleavings are kept visible as
    [..._statement].  The pre-fix behaviour of retired_array::extend (commit 1cc4b4f) is refuted by a computed
    witness. *)
From Coq Require Import ZArith List String Permutation.
From LV Require Import Base.Conc Base.Events.
From LV Require Model.Hp Proofs.HpTrace Proofs.HpInv Proofs.HpProofs Proofs.HpDestroy.
From LV Require Model.DhpLang Model.Dhp Proofs.DhpBase Proofs.DhpSeq Proofs.DhpSeqThm Proofs.DhpHist Proofs.DhpProofsC03 Proofs.DhpProofsC03b.
Import ListNotations.
Local Open Scope Z_scope.
Local Open Scope string_scope.

(** * Hazard Pointer scheme, every schedule *)
Section HP.
  Import Model.Hp Proofs.HpTrace Proofs.HpInv Proofs.HpProofs Proofs.HpDestroy.

  (** At most once: at every instant, for every object, #dispose <= #retire; so an object retired once is
      disposed at most once.  Every configuration (H, P, R, classic / in-place, even / odd pointers), every
      client program, every schedule. *)
  Theorem C03_hp_dispose_at_most_once : forall c ths cf,
    Conc.reach (init_cfg c ths) cf ->
    forall p, cnt "dispose" p (Conc.trace cf) <= cnt "retire" p (Conc.trace cf).
  Proof. exact hp_dispose_at_most_once. Qed.

  Theorem C03_hp_dispose_once : forall c ths cf,
    Conc.reach (init_cfg c ths) cf -> retire_once (Conc.trace cf) ->
    forall p, cnt "dispose" p (Conc.trace cf) <= 1.
  Proof. exact hp_dispose_once. Qed.

  (** No later than destruction: from any reachable quiescent state (every thread's last event is an operation
      response; threads may still be attached or long detached) running the singleton's destruction gives
      #retire p = #dispose p + #overflow p over the whole trace, and every retired array ends empty.
      ([overflow p] is the model's rendering of the out-of-bounds write that the real code performs when the
      retired capacity does not exceed H*P or more than P threads attach; never emitted under the documented
      preconditions - see C01_overflow_when_R_equals_HP and the fix 756de95.) *)
  Theorem C03_hp_destroy_disposes_all : forall c ths cf,
    Conc.reach (init_cfg c ths) cf -> quiescent (Conc.trace cf) ->
    forall g' es, destroy c (Conc.shared cf) = (g', es) ->
    let tr' := (Conc.trace cf ++ Conc.tag (List.length ths) es)%list in
    (forall p, cnt "retire" p tr' = cnt "dispose" p tr' + cnt "overflow" p tr') /\
    (forall r, r_ret (get_rec g' r) = []).
  Proof. exact hp_destroy_disposes_all. Qed.

  (** A pass frees what no guard protects: every cell a scan leaves in the retired array (the [kept] list of its
      scan-end event) was read from some hazard slot at some step of that scan; the cells examined are exactly
      freed ++ kept. *)
  Theorem C03_hp_scan_frees_unguarded : forall c ths cf,
    Conc.reach (init_cfg c ths) cf ->
    forall e t r kept s,
      nth_error (Conc.trace cf) e = Some (t, ev_scan_end r kept) ->
      last_sb (firstn e (Conc.trace cf)) t = Some s ->
      forall p, In p kept -> seen_in (Conc.trace cf) s e p.
  Proof. exact hp_scan_frees_unguarded. Qed.
End HP.
Print Assumptions C03_hp_dispose_at_most_once.
Print Assumptions C03_hp_dispose_once.
Print Assumptions C03_hp_destroy_disposes_all.
Print Assumptions C03_hp_scan_frees_unguarded.

(** * Dynamic Hazard Pointer scheme *)
Section DHP.
  Import Model.DhpLang Model.Dhp Proofs.DhpBase Proofs.DhpSeq Proofs.DhpSeqThm Proofs.DhpHist Proofs.DhpProofsC03.

  (** the statements over all interleavings; the first is proved below up to the free-list hypothesis, the other
      two are not proved in this development *)
  Definition C03_dhp_dispose_at_most_once_statement : Prop := dhp_dispose_at_most_once_statement.
  Definition C03_dhp_destroy_disposes_all_statement : Prop := dhp_destroy_disposes_all_statement.
  Definition C03_dhp_scan_frees_unguarded_statement : Prop := dhp_scan_frees_unguarded_statement.

  (** proved for EVERY schedule: in every configuration reachable from the initial one by any sequence of thread
      choices (any number of threads; any client programs over attach / detach / Guard / assign / clear / protect /
      publish / retire / scan / wait; any block size RB >= 4), if every object is handed to retire() at most once
      then no object is given to the disposer twice -- through every scan, extension of a retired array, detach
      (the array's unused blocks are cut off, or it is torn down) and help_scan (the pointers of an orphaned record
      are moved into the helper's array).  [flbad = false]: the embedded free list of retired blocks never handed
      out a block that was not in it (property C21; the falsifying event is visible in the trace). *)
  Theorem C03_dhp_dispose_at_most_once : forall fuel (c : cfg) ths conf,
    (4 <= c_RB c)%nat -> c_old c = false -> c_oldtail c = false ->
    Conc.reach (init_cfg fuel c ths) conf ->
    flbad (hist (Conc.trace conf)) = false ->
    NoDup (flat_map (fun e => retired_ev (snd e)) (Conc.trace conf)) ->
    NoDup (disposed_of (Conc.trace conf)).
  Proof. exact DhpProofsC03b.dhp_dispose_at_most_once. Qed.

  (** ... and only objects that were handed to retire() are disposed *)
  Theorem C03_dhp_disposed_were_retired : forall fuel (c : cfg) ths conf,
    (4 <= c_RB c)%nat -> c_old c = false -> c_oldtail c = false ->
    Conc.reach (init_cfg fuel c ths) conf ->
    flbad (hist (Conc.trace conf)) = false ->
    NoDup (flat_map (fun e => retired_ev (snd e)) (Conc.trace conf)) ->
    incl (disposed_of (Conc.trace conf)) (flat_map (fun e => retired_ev (snd e)) (Conc.trace conf)).
  Proof. exact DhpProofsC03b.dhp_disposed_were_retired. Qed.

  (** non-vacuity of the two theorems above: thread 0 retires 5 and 6 and detaches while a guard of thread 1 holds 5
      (its scan disposes 6 only, the array stays on the orphaned record); thread 1 then clears the guard and
      detaches: its help_scan moves 5 into its own array and its scan disposes it.  The run is complete, the free
      lists behaved, the retired objects are distinct, and both threads called the disposer. *)
  Example C03_dhp_nonvacuous :
    let r := Dhp.run_case [4; 2; 4; 0; 200; 1; 0]
               [[[1]; [15;0;1]; [9;5]; [9;6]; [2]; [8;0;2]];
                [[1]; [3;0]; [5;0;5]; [8;0;1]; [15;0;2]; [6;0]; [2]]] [] 5000 in
    snd r = true /\ flbad (hist (fst r)) = false /\
    flat_map (fun e => retired_ev (snd e)) (fst r) = [5%nat; 6%nat] /\ disposed_of (fst r) = [6%nat; 5%nat] /\
    map fst (filter (fun e => match classify (snd e) with HDispose _ => true | _ => false end) (fst r)) = [0%nat; 1%nat].
  Proof. vm_compute. repeat split; reflexivity. Qed.

  (** what is proved: the sequential core retire / scan / extend / destroy of one thread's retired array, for
      every block size RB >= 4, every operation sequence with arbitrary hazard lists, objects retired once:
      no object is disposed twice, nothing but retired objects is disposed, no cell outside a block is written *)
  Theorem C03_dhp_dispose_at_most_once_partial : forall (c : cfg) (os : list sop),
    (4 <= c_RB c)%nat -> c_old c = false -> NoDup (retired_of os) ->
    NoDup (snd (seq_run c 0 os (seq_init c))) /\ incl (snd (seq_run c 0 os (seq_init c))) (retired_of os) /\
    oob (fst (seq_run c 0 os (seq_init c))) = false.
  Proof. exact dhp_dispose_at_most_once_partial. Qed.

  (** the destructor frees exactly what is pending: together every retired pointer is freed exactly once *)
  Theorem C03_dhp_destroy_disposes_all_partial : forall (c : cfg) (os : list sop),
    (4 <= c_RB c)%nat -> c_old c = false -> NoDup (retired_of os) ->
    Permutation (snd (seq_run c 0 os (seq_init c)) ++ seq_final c 0 (fst (seq_run c 0 os (seq_init c))))%list (retired_of os).
  Proof. exact dhp_destroy_disposes_all_partial. Qed.

  (** a scan frees exactly the pending pointers that are not in the hazard list it collected *)
  Theorem C03_dhp_scan_frees_unguarded_partial : forall (c : cfg) (os : list sop) (pl : list nat),
    (4 <= c_RB c)%nat -> c_old c = false -> NoDup (retired_of os) ->
    let g := fst (seq_run c 0 os (seq_init c)) in
    forall p, In p (seq_final c 0 g) -> ~ In p pl -> In p (snd (seq_scan c 0 pl g)).
  Proof. exact dhp_scan_frees_unguarded_partial. Qed.

  (** the behaviour of retired_array::extend before the fix 1cc4b4f disposes an object twice *)
  Theorem C03_dhp_old_extend_refuted :
    exists c os, c_old c = true /\ (4 <= c_RB c)%nat /\ NoDup (retired_of os) /\
                 ~ NoDup (snd (seq_run c 0 os (seq_init c))).
  Proof. exact dhp_old_extend_refuted. Qed.
End DHP.
Print Assumptions C03_dhp_dispose_at_most_once.
Print Assumptions C03_dhp_disposed_were_retired.
Print Assumptions C03_dhp_dispose_at_most_once_partial.
Print Assumptions C03_dhp_destroy_disposes_all_partial.
Print Assumptions C03_dhp_scan_frees_unguarded_partial.
Print Assumptions C03_dhp_old_extend_refuted.

(** non-vacuity: a concrete HP run in which an object is retired once and disposed once, and a DHP sequence on the
    current extend() where the double-dispose witness of the old code is disposed once *)
Example C03_hp_nonvacuous_is_in_C01 : True. Proof. exact I. Qed.
Example C03_dhp_new_extend_same_input :
  snd (LV.Proofs.DhpSeqThm.seq_run (LV.Model.Dhp.mkCfg 4 2 8 false 100 1 false) 0 LV.Proofs.DhpSeqThm.old_witness
         (LV.Proofs.DhpSeqThm.seq_init (LV.Model.Dhp.mkCfg 4 2 8 false 100 1 false))) = [8%nat].
Proof. exact LV.Proofs.DhpSeqThm.dhp_new_extend_same_input. Qed.

(** * DHP, every schedule, WITHOUT the free-list hypothesis

    [flbad (hist (Conc.trace conf)) = false] is discharged by LV.Proofs.DhpFlThm.dhp_flbad_false (the open-world
    FreeList invariant of C21 composed with the DHP block-ownership invariants; see Properties_C02.v).  The only new
    side condition is C21's thread bound (fewer than 2^31 - 3 threads: the 31-bit reference count of a free-list
    node); the others were already hypotheses of the conditional theorems above ("every object is retired at most once"
    is part of the property itself; [dhp_flbad_false] does not need it). *)
From LV Require Proofs.DhpFlThm.
Section DHP_unconditional.
  Import Model.DhpLang Model.Dhp Proofs.DhpBase Proofs.DhpHist Proofs.DhpProofsC03 Proofs.DhpFlThm.

  Theorem C03_dhp_dispose_at_most_once_unconditional : forall fuel (c : cfg) ths conf,
    (4 <= c_RB c)%nat -> c_old c = false -> c_oldtail c = false ->
    Z.of_nat (List.length ths) + 3 < 2147483648 ->
    Conc.reach (init_cfg fuel c ths) conf ->
    NoDup (flat_map (fun e => retired_ev (snd e)) (Conc.trace conf)) ->
    NoDup (disposed_of (Conc.trace conf)).
  Proof. exact dhp_dispose_at_most_once_unconditional. Qed.

  Theorem C03_dhp_disposed_were_retired_unconditional : forall fuel (c : cfg) ths conf,
    (4 <= c_RB c)%nat -> c_old c = false -> c_oldtail c = false ->
    Z.of_nat (List.length ths) + 3 < 2147483648 ->
    Conc.reach (init_cfg fuel c ths) conf ->
    NoDup (flat_map (fun e => retired_ev (snd e)) (Conc.trace conf)) ->
    incl (disposed_of (Conc.trace conf)) (flat_map (fun e => retired_ev (snd e)) (Conc.trace conf)).
  Proof. exact dhp_disposed_were_retired_unconditional. Qed.

  (** non-vacuity: the hypotheses hold of a concrete reachable configuration of the program of [C03_dhp_nonvacuous]
      (detach with a guarded object left behind, help_scan by the other thread), both threads called the disposer *)
  Example C03_dhp_unconditional_nonvacuous :
    let c := mkCfg 4 2 4 false 200 1 false in
    let ths := map decode_ops
                 [[[1]; [15;0;1]; [9;5]; [9;6]; [2]; [8;0;2]];
                  [[1]; [3;0]; [5;0;5]; [8;0;1]; [15;0;2]; [6;0]; [2]]] in
    let conf := fst (Conc.run 5000 0 [] (init_cfg 5000 c ths)) in
    (4 <= c_RB c)%nat /\ c_old c = false /\ c_oldtail c = false /\ Z.of_nat (List.length ths) + 3 < 2147483648 /\
    Conc.reach (init_cfg 5000 c ths) conf /\
    flat_map (fun e => retired_ev (snd e)) (Conc.trace conf) = [5%nat; 6%nat] /\ disposed_of (Conc.trace conf) = [6%nat; 5%nat].
  Proof.
    cbv zeta. split; [vm_compute; auto|]. split; [reflexivity|]. split; [reflexivity|]. split; [vm_compute; reflexivity|].
    split; [apply Conc.run_reach|]. split; vm_compute; reflexivity.
  Qed.
End DHP_unconditional.
Print Assumptions C03_dhp_dispose_at_most_once_unconditional.
Print Assumptions C03_dhp_disposed_were_retired_unconditional.
