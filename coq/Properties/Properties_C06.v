(** Property C06 - unbounded MPMC queues are linearizable FIFO queues.
    Only statements here; proofs live in LV.Proofs.MSQueue{Base,Inv,Proofs} (MSQueue, MoirQueue),
    LV.Proofs.OptQueue{Inv,Proofs} (OptimisticQueue), LV.Proofs.RWQueueProofs (RWQueue).
    BasketQueue: LV.Proofs.Basket{Base,Inv,Proofs}: structure and no loss / no duplication only (FIFO order
    decided on real histories by the verified lincheck in checks/C06.py).  FCQueue: LV.Proofs.FcContainers (partial).

    HYPOTHESIS [smr_safe] (DESIGN section 4), built into the models LV.Model.MSQueue / OptQueue: nodes are abstract
    ids from a never-reusing allocator, i.e. no node is recycled while a validated hazard pointer can
    still reach it.  That is the conclusion of the C01 / C02 theorems about gc::HP / gc::DHP; the
    hazard-pointer traffic of the queues appears in the model only as events (checked step by step against
    the real code).  Memory model: sequential consistency (one atomic access per step).

    [hist tr] is the invoke/response history read off the concrete trace [tr]
    (events inv_enq v / ret_enq b / inv_deq / ret_deq b v of each thread).
    [Conc.reach (init_cfg cf fuel ths) c]: [c] is reachable by SOME sequence of thread choices, for any
    number of threads [ths], any client programs of enqueue / dequeue operations, any loop fuel;
    [cf] = (MoirQueue?, item counter on?, HP or DHP). *)
From Coq Require Import ZArith List String Bool.
From LV Require Import Base.Conc Base.Events Base.Lin Spec.Specs Proofs.LinProofs Model.MSQueue
  Proofs.MSQueueBase Proofs.MSQueueInv Proofs.MSQueueProofs.
From LV Require Model.RWQueue Proofs.RWQueueProofs Model.OptQueue Proofs.OptQueueInv Proofs.OptQueueProofs.
From LV Require Model.FcKernel Model.FcBatch Proofs.FcKernelProofs Proofs.FcContainers.
From LV Require Model.Basket Proofs.BasketBase Proofs.BasketInv Proofs.BasketProofs.
Import ListNotations.
Local Open Scope Z_scope.
Local Open Scope string_scope.
Local Open Scope list_scope.

(** cds::container::MSQueue (over intrusive::MSQueue), item counter on or off, HP or DHP: every history
    of every schedule has an LP-annotated trace that is valid for the sequential FIFO specification *)
Theorem C06_msqueue_linearizable :
  forall (ic hp : bool) (fuel : nat) (ths : list (list MSQueue.op)) c,
    Conc.reach (MSQueue.init_cfg (mkConf false ic hp) fuel ths) c ->
    (exists atr : list (aev Fifo), lp_valid Fifo atr /\ erase atr = hist (Conc.trace c)) /\
    linearizable Fifo (hist (Conc.trace c)).
Proof. intros. split; [eapply msq_lp_trace|eapply msq_linearizable]; eauto. Qed.
Print Assumptions C06_msqueue_linearizable.

(** cds::container::MoirQueue (MoirQueue::do_dequeue: no head re-validation, tail fixed after the head CAS) *)
Theorem C06_moirqueue_linearizable :
  forall (ic hp : bool) (fuel : nat) (ths : list (list MSQueue.op)) c,
    Conc.reach (MSQueue.init_cfg (mkConf true ic hp) fuel ths) c ->
    (exists atr : list (aev Fifo), lp_valid Fifo atr /\ erase atr = hist (Conc.trace c)) /\
    linearizable Fifo (hist (Conc.trace c)).
Proof. intros. split; [eapply msq_lp_trace|eapply msq_linearizable]; eauto. Qed.
Print Assumptions C06_moirqueue_linearizable.

(** "no item is invented" *)
Theorem C06_msq_no_invention :
  forall cf fuel ths c, Conc.reach (MSQueue.init_cfg cf fuel ths) c ->
    forall i v, deq_returns (hist (Conc.trace c)) i (Some v) -> enqueued (hist (Conc.trace c)) v.
Proof. exact msq_no_invention. Qed.
Print Assumptions C06_msq_no_invention.

(** "each enqueued item is dequeued at most once" *)
Theorem C06_msq_at_most_once :
  forall cf fuel ths c, Conc.reach (MSQueue.init_cfg cf fuel ths) c ->
    distinct_enqueues (hist (Conc.trace c)) ->
    forall i1 i2 v, deq_returns (hist (Conc.trace c)) i1 (Some v) ->
                    deq_returns (hist (Conc.trace c)) i2 (Some v) -> i1 = i2.
Proof. exact msq_at_most_once. Qed.
Print Assumptions C06_msq_at_most_once.

(** "dequeue reports empty only if the queue was empty at some instant during the call" *)
Theorem C06_msq_empty_only_if_empty_at_some_instant :
  forall cf fuel ths c, Conc.reach (MSQueue.init_cfg cf fuel ths) c ->
    exists lin, linearization Fifo (hist (Conc.trace c)) lin /\
      forall i, deq_returns (hist (Conc.trace c)) i None ->
        exists l1 a l2, lin = l1 ++ a :: l2 /\ l_inv a = i /\
          @final Fifo (sinit Fifo) (map (fun a : lop Fifo => (l_op a, l_res a)) l1) = [].
Proof. exact msq_empty_only_if_empty. Qed.
Print Assumptions C06_msq_empty_only_if_empty_at_some_instant.

(** structure at every instant: one duplicate-free null-terminated chain through head, tail inside it,
    every linked node allocated; the values after head are exactly the abstract queue reached by the
    linearization points taken so far (no loss, no duplication) *)
Theorem C06_msq_chain_wellformed_no_loss_no_dup :
  forall cf fuel ths c, Conc.reach (MSQueue.init_cfg cf fuel ths) c ->
    let g := Conc.shared c in
    exists (dn rs : list nat) (atr : list (aev Fifo)) (f : stmap),
      NoDup (dn ++ head g :: rs) /\ linked (nxt g) (dn ++ head g :: rs) /\ In (tail g) (dn ++ head g :: rs) /\
      (forall n, In n (dn ++ head g :: rs) -> (n < nalloc g)%nat) /\
      @lp_run Fifo (@lp_init Fifo) atr = Some (map (val g) rs, f) /\ erase atr = hist (Conc.trace c).
Proof. exact msq_chain. Qed.
Print Assumptions C06_msq_chain_wellformed_no_loss_no_dup.

(** cds::container::RWQueue (two spin locks, plain head / tail pointers guarded by them), item counter on or
    off: linearizable for every schedule; the proof establishes the mutual exclusion it relies on *)
Theorem C06_rwqueue_linearizable :
  forall (ic : bool) (fuel : nat) (ths : list (list RWQueue.op)) c,
    Conc.reach (RWQueue.init_cfg ic fuel ths) c ->
    (exists atr : list (aev Fifo), lp_valid Fifo atr /\ erase atr = hist (Conc.trace c)) /\
    linearizable Fifo (hist (Conc.trace c)).
Proof. intros. split; [eapply RWQueueProofs.rwq_lp_trace|eapply RWQueueProofs.rwqueue_linearizable]; eauto. Qed.
Print Assumptions C06_rwqueue_linearizable.

(** cds::container::OptimisticQueue (over intrusive::OptimisticQueue, incl. fix_list), item counter on or
    off, HP or DHP: linearizable for every schedule *)
Theorem C06_optqueue_linearizable :
  forall (cf : OptQueue.conf) (fuel : nat) (ths : list (list OptQueue.op)) c,
    Conc.reach (OptQueue.init_cfg cf fuel ths) c ->
    (exists atr : list (aev Fifo), lp_valid Fifo atr /\ erase atr = hist (Conc.trace c)) /\
    linearizable Fifo (hist (Conc.trace c)).
Proof. intros. split; [eapply OptQueueProofs.optq_lp_trace|eapply OptQueueProofs.optqueue_linearizable]; eauto. Qed.
Print Assumptions C06_optqueue_linearizable.

(** OptimisticQueue structure at every instant: the linked nodes form one duplicate-free list in enqueue
    order that ends at tail, the next pointers run backwards through it to the first dummy, no prev pointer
    dangles, and the values after head are exactly the abstract queue (no loss, no duplication) *)
Theorem C06_optqueue_next_chain_wellformed_no_loss_no_dup :
  forall cf fuel ths c, Conc.reach (OptQueue.init_cfg cf fuel ths) c ->
    let g := Conc.shared c in
    exists (dn rs : list nat) (atr : list (aev Fifo)) (f : stmap),
      NoDup (dn ++ OptQueue.head g :: rs) /\ linked (OptQueue.nxt g) (rev (dn ++ OptQueue.head g :: rs)) /\
      (exists l', dn ++ OptQueue.head g :: rs = l' ++ [OptQueue.tail g]) /\
      (forall n x, OptQueue.prv g n = Some x -> In x (dn ++ OptQueue.head g :: rs)) /\
      @lp_run Fifo (@lp_init Fifo) atr = Some (map (OptQueue.val g) rs, f) /\ erase atr = hist (Conc.trace c).
Proof. exact OptQueueProofs.optq_chain. Qed.
Print Assumptions C06_optqueue_next_chain_wellformed_no_loss_no_dup.

(** the property's own sentences for OptimisticQueue and RWQueue (from linearizability, LinProofs.fifo_* ) *)
Theorem C06_optqueue_no_invention :
  forall cf fuel ths c, Conc.reach (OptQueue.init_cfg cf fuel ths) c ->
    forall i v, deq_returns (hist (Conc.trace c)) i (Some v) -> enqueued (hist (Conc.trace c)) v.
Proof. intros cf fuel ths c Hr. apply fifo_no_invention. eapply OptQueueProofs.optqueue_linearizable; eauto. Qed.
Print Assumptions C06_optqueue_no_invention.

Theorem C06_optqueue_at_most_once :
  forall cf fuel ths c, Conc.reach (OptQueue.init_cfg cf fuel ths) c ->
    distinct_enqueues (hist (Conc.trace c)) ->
    forall i1 i2 v, deq_returns (hist (Conc.trace c)) i1 (Some v) ->
                    deq_returns (hist (Conc.trace c)) i2 (Some v) -> i1 = i2.
Proof. intros cf fuel ths c Hr. apply fifo_at_most_once. eapply OptQueueProofs.optqueue_linearizable; eauto. Qed.
Print Assumptions C06_optqueue_at_most_once.

Theorem C06_optqueue_empty_only_if_empty_at_some_instant :
  forall cf fuel ths c, Conc.reach (OptQueue.init_cfg cf fuel ths) c ->
    exists lin, linearization Fifo (hist (Conc.trace c)) lin /\
      forall i, deq_returns (hist (Conc.trace c)) i None ->
        exists l1 a l2, lin = l1 ++ a :: l2 /\ l_inv a = i /\
          @final Fifo (sinit Fifo) (map (fun a : lop Fifo => (l_op a, l_res a)) l1) = [].
Proof.
  intros cf fuel ths c Hr. destruct (OptQueueProofs.optqueue_linearizable _ _ _ _ Hr) as (lin & L).
  exists lin. split; [exact L|]. intros i Hd. eapply fifo_empty_was_empty; eauto.
Qed.
Print Assumptions C06_optqueue_empty_only_if_empty_at_some_instant.

Theorem C06_rwqueue_no_invention :
  forall ic fuel ths c, Conc.reach (RWQueue.init_cfg ic fuel ths) c ->
    forall i v, deq_returns (hist (Conc.trace c)) i (Some v) -> enqueued (hist (Conc.trace c)) v.
Proof. intros ic fuel ths c Hr. apply fifo_no_invention. eapply RWQueueProofs.rwqueue_linearizable; eauto. Qed.
Print Assumptions C06_rwqueue_no_invention.

Theorem C06_rwqueue_at_most_once :
  forall ic fuel ths c, Conc.reach (RWQueue.init_cfg ic fuel ths) c ->
    distinct_enqueues (hist (Conc.trace c)) ->
    forall i1 i2 v, deq_returns (hist (Conc.trace c)) i1 (Some v) ->
                    deq_returns (hist (Conc.trace c)) i2 (Some v) -> i1 = i2.
Proof. intros ic fuel ths c Hr. apply fifo_at_most_once. eapply RWQueueProofs.rwqueue_linearizable; eauto. Qed.
Print Assumptions C06_rwqueue_at_most_once.

Theorem C06_rwqueue_empty_only_if_empty_at_some_instant :
  forall ic fuel ths c, Conc.reach (RWQueue.init_cfg ic fuel ths) c ->
    exists lin, linearization Fifo (hist (Conc.trace c)) lin /\
      forall i, deq_returns (hist (Conc.trace c)) i None ->
        exists l1 a l2, lin = l1 ++ a :: l2 /\ l_inv a = i /\
          @final Fifo (sinit Fifo) (map (fun a : lop Fifo => (l_op a, l_res a)) l1) = [].
Proof.
  intros ic fuel ths c Hr. destruct (RWQueueProofs.rwqueue_linearizable _ _ _ _ Hr) as (lin & L).
  exists lin. split; [exact L|]. intros i Hd. eapply fifo_empty_was_empty; eauto.
Qed.
Print Assumptions C06_rwqueue_empty_only_if_empty_at_some_instant.

(** cds::container::FCQueue over the flat-combining kernel (model and proof: LV.Model.FcKernel / FcBatch,
    LV.Proofs.FcContainers, property C23's machinery).  PARTIAL: the statement covers the traces in which the
    kernel model's "lost" event does not occur ([has_lost (trace c) = false]); removing that hypothesis is
    work in progress in FcContainers.v. *)
Theorem C06_fcqueue_linearizable_partial :
  forall chk fuel mask npass ths c,
    FcKernelProofs.ops_ok FcBatch.q_okop ths ->
    Conc.reach (FcContainers.q_init_cfg chk fuel mask npass ths) c ->
    FcKernelProofs.has_lost (Conc.trace c) = false ->
    linearizable Fifo (FcContainers.fc_history Fifo FcBatch.res_dec FcBatch.q_dec (Conc.trace c)).
Proof. exact FcContainers.fcqueue_linearizable_partA. Qed.
Print Assumptions C06_fcqueue_linearizable_partial.

(** The unconditional form (FcKernelShape.fc_never_lost: on the current kernel, chk = true, a request is never
    released unanswered when every request is a batch_combine or the combine pass count is at least 1):
    cds::container::FCQueue, elimination on or off, is linearizable to the FIFO queue for every schedule. *)
Theorem C06_fcqueue_linearizable :
  forall fuel mask npass ths c,
    FcKernelProofs.ops_ok FcBatch.q_okop ths ->
    FcContainers.passes_ok npass ths ->
    Conc.reach (FcContainers.q_init_cfg true fuel mask npass ths) c ->
    linearizable Fifo (FcContainers.fc_history Fifo FcBatch.res_dec FcBatch.q_dec (Conc.trace c)).
Proof. exact FcContainers.fcqueue_linearizable. Qed.
Print Assumptions C06_fcqueue_linearizable.

(** cds::container::BasketQueue (over intrusive::BasketQueue: enqueue with the basket-insertion branch and
    try_again, do_dequeue with the hop loop and the logical-delete marks, free_chain), HP or DHP, item
    counter on or off.  PARTIAL: proved for every schedule are the structure of the chain and "no loss, no
    duplication"; the FIFO order (linearizability to [Fifo]) and the justification of "empty" answers are NOT
    proved: a node that enters a basket is linked in front of nodes linked earlier, so its linearization point
    lies before its own CAS and is only known in hindsight, and the abstract sequences of the alternative
    traces differ (the tentative-LP invariant of MSQueueBase keeps ONE abstract state).  The full statement: *)
Definition C06_basket_linearizable_statement : Prop :=
  forall (cf : Basket.conf) (fuel : nat) (ths : list (list Basket.op)) c,
    Conc.reach (Basket.init_cfg cf fuel ths) c -> linearizable Fifo (hist (Conc.trace c)).

(** chain well-formedness: one duplicate-free null-terminated chain; the pointers leaving the nodes of the
    deleted prefix are marked, all others are not; head sits in the deleted prefix, tail in the chain *)
Theorem C06_basket_chain_wellformed :
  forall cf fuel ths c, Conc.reach (Basket.init_cfg cf fuel ths) c ->
    let g := Conc.shared c in
    exists (dp : list nat) (b : nat) (lv : list nat) (hi : nat),
      NoDup (dp ++ b :: lv) /\ linked (fun x => fst (Basket.nxt g x)) (dp ++ b :: lv) /\
      (forall x, In x dp -> snd (Basket.nxt g x) = true) /\ (forall x, In x (b :: lv) -> snd (Basket.nxt g x) = false) /\
      nth_error (dp ++ b :: lv) hi = Some (Basket.head g) /\ (hi <= List.length dp)%nat /\
      In (Basket.tail g) (dp ++ b :: lv) /\
      (forall n, In n (dp ++ b :: lv) -> (n < Basket.nalloc g)%nat).
Proof. exact BasketProofs.basket_chain_wellformed. Qed.
Print Assumptions C06_basket_chain_wellformed.

(** no loss, no duplication: the undeleted nodes carry exactly the items of a pool-valid annotated trace of
    the history: every enqueue put its item in once, at a point inside its call; every successful dequeue
    removed the first undeleted item, at a point inside its call, and reports that item *)
Theorem C06_basket_no_loss_no_dup :
  forall cf fuel ths c, Conc.reach (Basket.init_cfg cf fuel ths) c ->
    let g := Conc.shared c in
    exists (dp : list nat) (b : nat) (lv : list nat) (atr : list BasketBase.pev) (f : BasketBase.pmap),
      NoDup (dp ++ b :: lv) /\ linked (fun x => fst (Basket.nxt g x)) (dp ++ b :: lv) /\
      (forall x, In x (b :: lv) -> snd (Basket.nxt g x) = false) /\
      BasketBase.prun BasketBase.pinit atr = Some (map (Basket.val g) lv, f) /\
      BasketBase.perase atr = hist (Conc.trace c).
Proof. exact BasketProofs.basket_no_loss_no_dup. Qed.
Print Assumptions C06_basket_no_loss_no_dup.

(** "no item is invented" for BasketQueue *)
Theorem C06_basket_no_invention :
  forall cf fuel ths c, Conc.reach (Basket.init_cfg cf fuel ths) c ->
    forall t v, In (@HRes Fifo t (RVal (Some v))) (hist (Conc.trace c)) ->
                BasketBase.invoked (hist (Conc.trace c)) v.
Proof. exact BasketProofs.basket_no_invention. Qed.
Print Assumptions C06_basket_no_invention.

(** non-vacuity: a concrete 3-thread run of MSQueue (item counter on, HP) with interleaved operations: one
    dequeue finds the queue empty, another thread dequeues the value 10; the history has 5 completed
    operations and is accepted by the verified checker *)
Example C06_msqueue_nonvacuous :
  let r := MSQueue.run_case [0; 1; 1; 100] [[[1;10]; [2]]; [[2]; [1;20]]; [[2]]]
             [1;1;1;1;1;1;1;1;1;1;1;1;1;0;0;0;0;0;0;0;0;2;2;2;2;2;2;2;2;2;2;2;2;2;2;2;2;2;2;2;2]%nat 2000 in
  snd r = true /\
  List.length (hist (fst r)) = 10%nat /\
  lincheck Fifo (hist (fst r)) = true /\
  In (@HRes Fifo 1%nat (RVal None)) (hist (fst r)) /\
  In (@HRes Fifo 2%nat (RVal (Some 10))) (hist (fst r)).
Proof. vm_compute. repeat split; auto 20. Qed.

Example C06_moirqueue_nonvacuous :
  let r := MSQueue.run_case [1; 0; 0; 100] [[[1;10]; [2]]; [[2]; [1;20]]; [[2]]]
             [1;1;1;1;1;1;1;1;1;1;1;1;1;0;0;0;0;0;0;0;0;2;2;2;2;2;2;2;2;2;2;2;2;2;2;2;2;2;2;2;2]%nat 2000 in
  snd r = true /\
  List.length (hist (fst r)) = 10%nat /\
  lincheck Fifo (hist (fst r)) = true.
Proof. vm_compute. repeat split; auto. Qed.

Example C06_rwqueue_nonvacuous :
  let r := RWQueue.run_case [0; 1; 1; 100] [[[1;10]; [2]]; [[2]; [1;20]]; [[2]]]
             [1;1;0;0;1;0;2;2;0;1;1;2;2;0;0;1;1;2;0;0;0;1;1;1]%nat 2000 in
  snd r = true /\
  List.length (hist (fst r)) = 10%nat /\
  lincheck Fifo (hist (fst r)) = true.
Proof. vm_compute. repeat split; auto. Qed.

Example C06_optqueue_nonvacuous :
  let r := OptQueue.run_case [0; 1; 1; 100] [[[1;10]; [2]]; [[2]; [1;20]]; [[2]]]
             [1;1;0;0;1;0;2;2;0;1;1;2;2;0;0;1;1;2;0;0;0;1;1;1;0;0;0;0;0;0;0;0;0;0;0;0;0;0;2;2;2;2;2;2;2;2;2;2;2;2;2]%nat 3000 in
  snd r = true /\
  List.length (hist (fst r)) = 10%nat /\
  lincheck Fifo (hist (fst r)) = true.
Proof. vm_compute. repeat split; auto. Qed.

Example C06_basket_nonvacuous :
  let r := Basket.run_case [0; 1; 1; 100] [[[1;10]; [2]]; [[2]; [1;20]]; [[1;30]; [2]]]
             [1;1;0;0;1;0;2;2;0;1;1;2;2;0;0;1;1;2;0;0;0;1;1;1;0;0;0;0;2;2;0;0;2;2;0;0;2;2;0;0;2;2;2;2;2;2;2;2;2;2;2]%nat 4000 in
  snd r = true /\
  List.length (hist (fst r)) = 12%nat /\
  lincheck Fifo (hist (fst r)) = true.
Proof. vm_compute. repeat split; auto. Qed.
