(** * C15 (EllenBinTree part): cds::intrusive::EllenBinTree<cds::gc::HP>, programs of insert / ERASE / contains

    Model: Model/Ellen.v (one [Act] per atomic access of cds/intrusive/impl/ellen_bintree.h; tied to the real code by the
    step correspondence of checks/C15.py).  This implementation has NO helping (help() is commented out in the source): a
    search that meets a DFlag / Mark restarts, an update that meets a non-Clean update word retries, and the flag / child
    CAS / unflag steps of an operation are executed by the thread that flagged (help_insert, help_delete, help_marked are
    only ever called by the owner of the descriptor).

    For EVERY schedule, any number (<= 63) of threads, any client programs of insert / erase / contains (keys 0..7), any
    pre-filled tree that passes the decidable check [EllenLin.init_check2] (all pre-filled trees of the correspondence
    runs do), at every reachable configuration in whose history no thread has run out of the model's loop fuel (event
    "outoffuel"; the real code has no such bound):

      1. the tree reachable from m_Root is a leaf-oriented BST ([EllenProofs.T]) and no key is present twice — also in the
         middle of operations;
      2. the update-descriptor invariants of Ellen et al. hold in the form used by the proof (Proofs/EllenDelInv.v [DS]):
         a node's children are changed only by the thread that holds IFlag / DFlag at it, a marked node is frozen, a Clean
         update word that was replaced never comes back (ABA counter m_nEmptyUpdate, not wrapping in the model), an
         internal node that ever was on the search path of k and has not been spliced out IS on the search path of k,
         a spliced-out node is marked and unreachable;
      3. the history of the updates is linearizable to the sequential set [SetSpec]: linearization point of a successful
         insert = the child CAS of help_insert, of a successful erase = the child CAS of help_marked (the splice
         gp.child: p -> sibling; between the Mark CAS and the splice the leaf still is in the tree and every search that
         meets the DFlag / Mark restarts); the abstract set is the set of keys of the leaves reachable from m_Root.
         Operations that do not modify the set (contains, insert -> false, erase -> false) are deleted from the history
         ([EllenDelInv.upd_hist]), as for C13 and the skip list: their linearization is NOT proved here. *)
From Coq Require Import ZArith List String Bool.
From LV Require Import Base.Conc Base.Events Base.Lin Spec.Specs Proofs.LinProofs.
From LV Require Import Model.Ellen Proofs.EllenProofs Proofs.EllenDelBase Proofs.EllenDelInv Proofs.EllenDelProg Proofs.EllenLin.
Import ListNotations.
Local Open Scope Z_scope.

Theorem C15_ellen_erase_bst_invariant :
  forall (fuel : nat) (keys : list nat) (ths : list (list Ellen.op)) c,
    EllenLin.init_check2 keys = true -> Forall (Forall EllenDelProg.op_ok) ths -> (List.length ths <= 63)%nat ->
    Conc.reach (Ellen.init_cfg fuel keys ths) c -> ~ EllenDelInv.exhausted (Conc.trace c) ->
    EllenProofs.T (Conc.shared c) Ellen.root (-1) 1002.
Proof. exact EllenLin.ellen_del_bst. Qed.
Print Assumptions C15_ellen_erase_bst_invariant.

Theorem C15_ellen_erase_no_duplicate_keys :
  forall (fuel : nat) (keys : list nat) (ths : list (list Ellen.op)) c (x y : Ellen.ptr),
    EllenLin.init_check2 keys = true -> Forall (Forall EllenDelProg.op_ok) ths -> (List.length ths <= 63)%nat ->
    Conc.reach (Ellen.init_cfg fuel keys ths) c -> ~ EllenDelInv.exhausted (Conc.trace c) ->
    EllenProofs.insub (Conc.shared c) Ellen.root x -> EllenProofs.insub (Conc.shared c) Ellen.root y ->
    ~ EllenProofs.internal (Conc.shared c) x -> ~ EllenProofs.internal (Conc.shared c) y ->
    Ellen.node_key (Conc.shared c) x = Ellen.node_key (Conc.shared c) y -> x = y.
Proof. exact EllenLin.ellen_del_no_duplicate_keys. Qed.
Print Assumptions C15_ellen_erase_no_duplicate_keys.

(** the whole invariant [DS] (BST, ownership of unlinked nodes, flags held, frozen marked nodes, ABA counter, search
    paths) holds at every such configuration *)
Theorem C15_ellen_erase_invariant :
  forall (fuel : nat) (keys : list nat) (ths : list (list Ellen.op)) c,
    EllenLin.init_check2 keys = true -> Forall (Forall EllenDelProg.op_ok) ths -> (List.length ths <= 63)%nat ->
    Conc.reach (Ellen.init_cfg fuel keys ths) c -> ~ EllenDelInv.exhausted (Conc.trace c) ->
    exists a, EllenDelInv.DS (Conc.shared c) a.
Proof. exact EllenLin.ellen_del_invariant. Qed.
Print Assumptions C15_ellen_erase_invariant.

Theorem C15_ellen_search_path_invariants :
  forall (fuel : nat) (keys : list nat) (ths : list (list Ellen.op)) c,
    EllenLin.init_check2 keys = true -> Forall (Forall EllenDelProg.op_ok) ths -> (List.length ths <= 63)%nat ->
    Conc.reach (Ellen.init_cfg fuel keys ths) c -> ~ EllenDelInv.exhausted (Conc.trace c) ->
    exists (ever : Z -> Ellen.ptr -> Prop) (dead : Ellen.ptr -> Prop),
      (forall k, ever k Ellen.root) /\
      (forall k n, ever k n -> EllenProofs.internal (Conc.shared c) n ->
                   ever k (Ellen.child (Conc.shared c) n (EllenProofs.dirk (Conc.shared c) k n))) /\
      (forall k n, ever k n -> EllenProofs.internal (Conc.shared c) n -> ~ dead n -> EllenProofs.path (Conc.shared c) k Ellen.root n) /\
      (forall n, dead n -> snd (Ellen.upd (Conc.shared c) n) = 3%nat /\ ~ EllenProofs.insub (Conc.shared c) Ellen.root n).
Proof. exact EllenLin.ellen_del_descriptor_invariants. Qed.
Print Assumptions C15_ellen_search_path_invariants.

(** linearizability of the update histories *)
Theorem C15_ellen_updates_linearizable :
  forall (fuel : nat) (keys : list nat) (ths : list (list Ellen.op)) c,
    EllenLin.init_check2 keys = true -> Forall (Forall EllenDelProg.op_ok) ths -> (List.length ths <= 63)%nat ->
    Conc.reach (Ellen.init_cfg fuel keys ths) c -> ~ EllenDelInv.exhausted (Conc.trace c) ->
    linearizable SetSpec (EllenDelInv.upd_hist keys (Conc.trace c)).
Proof. exact EllenLin.ellen_updates_linearizable. Qed.
Print Assumptions C15_ellen_updates_linearizable.

(** the abstract set of the LP-annotated trace is the set of keys of the leaves reachable from m_Root, at every instant *)
Theorem C15_ellen_abstraction :
  forall (fuel : nat) (keys : list nat) (ths : list (list Ellen.op)) c,
    EllenLin.init_check2 keys = true -> Forall (Forall EllenDelProg.op_ok) ths -> (List.length ths <= 63)%nat ->
    Conc.reach (Ellen.init_cfg fuel keys ths) c -> ~ EllenDelInv.exhausted (Conc.trace c) ->
    exists atr S st, lp_run lp_init atr = Some (S, st) /\ erase atr = EllenDelInv.upd_hist keys (Conc.trace c) /\
      (forall k, zmem k S = true <-> EllenDelBase.mem (Conc.shared c) k).
Proof. exact EllenLin.ellen_abstraction. Qed.
Print Assumptions C15_ellen_abstraction.

Theorem C15_ellen_prefilled_trees_pass_init_check2 :
  forallb (fun m => EllenLin.init_check2 (Ellen.prefill_keys [Z.of_nat m])) (seq 0 16) = true.
Proof. exact EllenLin.init_check2_prefills. Qed.
Print Assumptions C15_ellen_prefilled_trees_pass_init_check2.

(** the runs of the step-correspondence check (Ellen.run_case: same programs, same schedules as the real code) *)
Theorem C15_ellen_run_case_updates_linearizable :
  forall (cfg : list Z) (ths : list (list (list Z))) (sched : list nat) (fuel : nat),
    EllenLin.init_check2 (Ellen.prefill_keys cfg) = true -> (List.length ths <= 63)%nat ->
    EllenLin.exhaustedb (Conc.trace (EllenLin.run_cfg cfg ths sched fuel)) = false ->
    EllenProofs.T (Conc.shared (EllenLin.run_cfg cfg ths sched fuel)) Ellen.root (-1) 1002 /\
    linearizable SetSpec (EllenDelInv.upd_hist (Ellen.prefill_keys cfg) (Conc.trace (EllenLin.run_cfg cfg ths sched fuel))).
Proof. exact EllenLin.ellen_run_case_updates_linearizable. Qed.
Print Assumptions C15_ellen_run_case_updates_linearizable.

(** the two steps that change the tree, as pure facts: the splice removes exactly the key of the deleted leaf and keeps
    the search path of every other node; every node of a BST has exactly one parent *)
Theorem C15_ellen_splice_removes_one_key :
  forall (g : Ellen.G) (gp p : Ellen.ptr) (d rl : bool),
    EllenProofs.T g Ellen.root (-1) 1002 -> EllenProofs.insub g Ellen.root gp -> EllenProofs.internal g gp ->
    Ellen.child g gp d = p -> EllenProofs.internal g p -> ~ EllenProofs.internal g (Ellen.child g p rl) ->
    (forall n dd, EllenProofs.insub g Ellen.root n -> EllenProofs.internal g n -> Ellen.child g n dd <> Ellen.root) ->
    forall k, EllenDelBase.mem (Ellen.set_child g gp d (Ellen.child g p (negb rl))) k <->
              EllenDelBase.mem g k /\ k <> Ellen.node_key g (Ellen.child g p rl).
Proof. exact EllenDelBase.sp_mem. Qed.
Print Assumptions C15_ellen_splice_removes_one_key.

(** non-vacuity: a contended model run WITH erase (3 threads, keys 0..3, pre-filled {0, 2}, round-robin schedule) in which
    CASes fail and erases succeed; it terminates, no thread runs out of fuel, the BST monitor never fires, the hypotheses
    of the theorems hold, and its update history is accepted by the verified checker *)
Example C15_ellen_erase_model_nonvacuous :
  let ths := [[[6;0]; [1;1]; [10;2]]; [[6;0]; [1;1]; [6;2]]; [[1;0]; [6;1]; [1;3]]] in
  let r := Ellen.run_case [5] ths [] (30 * 1000) in
  let c := EllenLin.run_cfg [5] ths [] (30 * 1000) in
  snd r = true /\
  existsb (fun e => match snd e with EvAcc KCas _ false => true | _ => false end) (fst r) = true /\
  existsb (fun e => Nat.eqb (fst e) 99) (fst r) = false /\
  EllenLin.exhaustedb (Conc.trace c) = false /\
  EllenLin.init_check2 (Ellen.prefill_keys [5]) = true /\
  existsb (fun e : hev SetSpec => match e with HInv _ (SErase _) => true | _ => false end) (EllenDelInv.upd_hist (Ellen.prefill_keys [5]) (Conc.trace c)) = true /\
  lincheck SetSpec (EllenDelInv.upd_hist (Ellen.prefill_keys [5]) (Conc.trace c)) = true.
Proof. vm_compute. repeat split; reflexivity. Qed.

(** * FULL client history (reads and failed operations included) and the out-of-fuel restriction narrowed
    (Proofs/EllenFull{Inv,Steps,Cas,Ops,Prog,Thm}.v: the development above re-done with a stronger invariant)

    [EllenFullInv.full_hist keys tr]: every invocation and every response of the trace — contains -> true / false,
    insert -> false (key present) and erase -> false (key absent) included.

    Linearization points.  Successful insert / erase: as above (child CAS of help_insert / of help_marked).  A search that
    returns the leaf l read the pointer to l from its parent p (protect_child_node: child loads, then the re-read of p's
    update word, which must be unchanged and was checked not to be DFlag / Mark).  HINDSIGHT lemma of this model
    ([EllenFullSteps.D_ld_child_s], fact [FSn]): at the instant of that child load, p is either marked or on the search path
    of k in the CURRENT tree (p was on the search path of k once, [dever]; a node that was on the search path and is not
    spliced out still is; a spliced-out node is marked); marks are permanent, so the later re-read of an unmarked update
    word shows that p was unmarked at the load ([D_ld_upd_seen], fact [FSeen]); hence l was THE leaf at the end of the search
    path of k at that instant and "k is in the abstract set iff l carries k" ([path_leaf_mem]).  libcds restarts the search
    (also in contains / find) when the update word of p is DFlag / Mark or changed during protect_child_node, so no search
    ever returns a leaf read from a marked parent: no stale answer is possible.  The linearization point of contains,
    insert -> false, erase -> false is the child load that yielded the returned leaf; it is inserted into the LP-annotated
    trace IN HINDSIGHT when the response is emitted ([EllenFullInv.hind_insert], [EllenFullOps.Sm_emit_res_read]).

    Out of fuel.  The theorems above say nothing once any thread has emitted "outoffuel".  Here a thread that runs out of
    the model's loop fuel is treated as STOPPED: everything holds at every reachable configuration unless some thread took a
    further step AFTER its "outoffuel" event ([EllenFullInv.bad]; such a continuation is not a client program: the
    operation never returned, the next invocation of the thread makes the client history ill-formed, and the model's
    continuation of op_erase would reuse a serial number).  In particular the invariants and the linearizability hold in
    the presence of operations that never return (threads stopped in the middle of insert / erase, holding flags). *)
From LV Require Proofs.EllenFullInv Proofs.EllenFullProg Proofs.EllenFullThm.

Theorem C15_ellen_full_history_linearizable :
  forall (fuel : nat) (keys : list nat) (ths : list (list Ellen.op)) c,
    EllenLin.init_check2 keys = true -> Forall (Forall EllenDelProg.op_ok) ths -> (List.length ths <= 63)%nat ->
    Conc.reach (Ellen.init_cfg fuel keys ths) c -> ~ EllenFullInv.bad (Conc.trace c) ->
    linearizable SetSpec (EllenFullInv.full_hist keys (Conc.trace c)).
Proof. exact EllenFullThm.ellen_full_linearizable. Qed.
Print Assumptions C15_ellen_full_history_linearizable.

(** in particular under the hypotheses of the first part (this closes its open item 3) *)
Theorem C15_ellen_full_history_linearizable_no_outoffuel :
  forall (fuel : nat) (keys : list nat) (ths : list (list Ellen.op)) c,
    EllenLin.init_check2 keys = true -> Forall (Forall EllenDelProg.op_ok) ths -> (List.length ths <= 63)%nat ->
    Conc.reach (Ellen.init_cfg fuel keys ths) c -> ~ EllenDelInv.exhausted (Conc.trace c) ->
    linearizable SetSpec (EllenFullInv.full_hist keys (Conc.trace c)).
Proof. exact EllenFullThm.ellen_full_linearizable_no_outoffuel. Qed.
Print Assumptions C15_ellen_full_history_linearizable_no_outoffuel.

(** the abstract set of the LP-annotated trace of the full history is the set of keys of the leaves reachable from m_Root *)
Theorem C15_ellen_full_abstraction :
  forall (fuel : nat) (keys : list nat) (ths : list (list Ellen.op)) c,
    EllenLin.init_check2 keys = true -> Forall (Forall EllenDelProg.op_ok) ths -> (List.length ths <= 63)%nat ->
    Conc.reach (Ellen.init_cfg fuel keys ths) c -> ~ EllenFullInv.bad (Conc.trace c) ->
    exists atr S st, lp_run lp_init atr = Some (S, st) /\ erase atr = EllenFullInv.full_hist keys (Conc.trace c) /\
      (forall k, zmem k S = true <-> EllenDelBase.mem (Conc.shared c) k).
Proof. exact EllenFullThm.ellen_full_abstraction. Qed.
Print Assumptions C15_ellen_full_abstraction.

(** BST invariant and search-path invariants with stopped (out-of-fuel) threads *)
Theorem C15_ellen_bst_invariant_with_stopped_threads :
  forall (fuel : nat) (keys : list nat) (ths : list (list Ellen.op)) c,
    EllenLin.init_check2 keys = true -> Forall (Forall EllenDelProg.op_ok) ths -> (List.length ths <= 63)%nat ->
    Conc.reach (Ellen.init_cfg fuel keys ths) c -> ~ EllenFullInv.bad (Conc.trace c) ->
    EllenProofs.T (Conc.shared c) Ellen.root (-1) 1002.
Proof. exact EllenFullThm.ellen_full_bst. Qed.
Print Assumptions C15_ellen_bst_invariant_with_stopped_threads.

Theorem C15_ellen_no_duplicate_keys_with_stopped_threads :
  forall (fuel : nat) (keys : list nat) (ths : list (list Ellen.op)) c (x y : Ellen.ptr),
    EllenLin.init_check2 keys = true -> Forall (Forall EllenDelProg.op_ok) ths -> (List.length ths <= 63)%nat ->
    Conc.reach (Ellen.init_cfg fuel keys ths) c -> ~ EllenFullInv.bad (Conc.trace c) ->
    EllenProofs.insub (Conc.shared c) Ellen.root x -> EllenProofs.insub (Conc.shared c) Ellen.root y ->
    ~ EllenProofs.internal (Conc.shared c) x -> ~ EllenProofs.internal (Conc.shared c) y ->
    Ellen.node_key (Conc.shared c) x = Ellen.node_key (Conc.shared c) y -> x = y.
Proof. exact EllenFullThm.ellen_full_no_duplicate_keys. Qed.
Print Assumptions C15_ellen_no_duplicate_keys_with_stopped_threads.

(** the whole invariant [DS] (descriptor discipline: flags held, frozen marked nodes, ABA counter, search paths) and the
    annotated-trace invariant [IL] of the full history *)
Theorem C15_ellen_full_invariant :
  forall (fuel : nat) (keys : list nat) (ths : list (list Ellen.op)) c,
    EllenLin.init_check2 keys = true -> Forall (Forall EllenDelProg.op_ok) ths -> (List.length ths <= 63)%nat ->
    Conc.reach (Ellen.init_cfg fuel keys ths) c -> ~ EllenFullInv.bad (Conc.trace c) ->
    exists a, EllenFullInv.DS (Conc.shared c) a /\ EllenFullInv.IL keys (Conc.shared c) a (Conc.trace c).
Proof. exact EllenFullThm.ellen_full_invariant. Qed.
Print Assumptions C15_ellen_full_invariant.

Theorem C15_ellen_search_path_invariants_with_stopped_threads :
  forall (fuel : nat) (keys : list nat) (ths : list (list Ellen.op)) c,
    EllenLin.init_check2 keys = true -> Forall (Forall EllenDelProg.op_ok) ths -> (List.length ths <= 63)%nat ->
    Conc.reach (Ellen.init_cfg fuel keys ths) c -> ~ EllenFullInv.bad (Conc.trace c) ->
    exists (ever : Z -> Ellen.ptr -> Prop) (dead : Ellen.ptr -> Prop),
      (forall k, ever k Ellen.root) /\
      (forall k n, ever k n -> EllenProofs.internal (Conc.shared c) n ->
                   ever k (Ellen.child (Conc.shared c) n (EllenProofs.dirk (Conc.shared c) k n))) /\
      (forall k n, ever k n -> EllenProofs.internal (Conc.shared c) n -> ~ dead n -> EllenProofs.path (Conc.shared c) k Ellen.root n) /\
      (forall n, dead n -> snd (Ellen.upd (Conc.shared c) n) = 3%nat /\ ~ EllenProofs.insub (Conc.shared c) Ellen.root n).
Proof. exact EllenFullThm.ellen_full_descriptor_invariants. Qed.
Print Assumptions C15_ellen_search_path_invariants_with_stopped_threads.

(** [bad] is weaker than the old restriction: it needs an "outoffuel" event, and is decided by [badb] *)
Theorem C15_ellen_bad_needs_outoffuel : forall tr, EllenFullInv.bad tr -> EllenDelInv.exhausted tr.
Proof. exact EllenFullThm.bad_exhausted. Qed.
Print Assumptions C15_ellen_bad_needs_outoffuel.
Theorem C15_ellen_badb_sound : forall tr, EllenFullThm.badb tr = false -> ~ EllenFullInv.bad tr.
Proof. exact EllenFullThm.badb_false. Qed.
Print Assumptions C15_ellen_badb_sound.

(** the hindsight lemma as a pure fact: the leaf at the end of the search path of k decides the membership of k *)
Theorem C15_ellen_search_path_leaf_decides_membership :
  forall (g : Ellen.G) (k : Z) (c : Ellen.ptr),
    EllenProofs.T g Ellen.root (-1) 1002 -> EllenProofs.path g k Ellen.root c -> ~ EllenProofs.internal g c ->
    (EllenDelBase.mem g k <-> Ellen.inf_of (Ellen.flags g c) = 0 /\ Ellen.lkey c = k).
Proof. exact EllenFullInv.path_leaf_mem. Qed.
Print Assumptions C15_ellen_search_path_leaf_decides_membership.

(** the runs of the step-correspondence check *)
Theorem C15_ellen_run_case_full_linearizable :
  forall (cfg : list Z) (ths : list (list (list Z))) (sched : list nat) (fuel : nat),
    EllenLin.init_check2 (Ellen.prefill_keys cfg) = true -> (List.length ths <= 63)%nat ->
    EllenFullThm.badb (Conc.trace (EllenFullThm.run_cfg cfg ths sched fuel)) = false ->
    EllenProofs.T (Conc.shared (EllenFullThm.run_cfg cfg ths sched fuel)) Ellen.root (-1) 1002 /\
    linearizable SetSpec (EllenFullInv.full_hist (Ellen.prefill_keys cfg) (Conc.trace (EllenFullThm.run_cfg cfg ths sched fuel))).
Proof. exact EllenFullThm.ellen_run_case_full_linearizable. Qed.
Print Assumptions C15_ellen_run_case_full_linearizable.

(** non-vacuity 1: a contended run (3 threads, pre-filled {0, 2}) whose full history contains contains -> true,
    insert -> false and erase -> false; the hypotheses hold and the verified checker accepts the full history *)
Example C15_ellen_full_history_nonvacuous :
  let ths := [[[10;2]; [1;1]]; [[6;2]; [1;1]]; [[1;0]; [6;1]; [10;1]]] in
  let c := EllenFullThm.run_cfg [5] ths [] (30 * 1000) in
  let h := EllenFullInv.full_hist (Ellen.prefill_keys [5]) (Conc.trace c) in
  EllenLin.init_check2 (Ellen.prefill_keys [5]) = true /\ EllenFullThm.badb (Conc.trace c) = false /\
  existsb (fun e : hev SetSpec => match e with HInv _ (SContains _) => true | _ => false end) h = true /\
  List.length (filter (fun e : hev SetSpec => match e with HRes _ (RBool false) => true | _ => false end) h) = 3%nat /\
  lincheck SetSpec h = true.
Proof. vm_compute. repeat split; reflexivity. Qed.

(** non-vacuity 2: a run with loop fuel 4 in which two threads run out of fuel in their last operation (insert 3,
    erase 3) while the others complete: "outoffuel" occurs ([exhaustedb] = true: the theorems of the first part do not
    apply), the trace is not [bad], the full history (two operations pending forever) is accepted by the checker *)
Example C15_ellen_stopped_threads_nonvacuous :
  let c := fst (Conc.run (6 * 1000) 0 [] (Ellen.init_cfg 4 [0%nat; 2%nat] [[OContains 2; OIns 1]; [OIns 3]; [OErase 0; OErase 3]])) in
  let h := EllenFullInv.full_hist [0%nat; 2%nat] (Conc.trace c) in
  EllenLin.init_check2 [0%nat; 2%nat] = true /\
  EllenFullThm.exhaustedb (Conc.trace c) = true /\ EllenFullThm.badb (Conc.trace c) = false /\
  existsb (fun e : hev SetSpec => match e with HRes _ _ => true | _ => false end) h = true /\
  lincheck SetSpec h = true.
Proof. vm_compute. repeat split; reflexivity. Qed.

(** the restriction [~ bad] is not redundant for the full history: when a thread goes on after "outoffuel" (model fuel 4,
    thread 1: insert 3 runs out of fuel, then contains 1) the client history has two open invocations of one thread and
    the checker rejects it *)
Example C15_ellen_continuing_after_outoffuel_is_not_a_client_history :
  let c := fst (Conc.run (6 * 1000) 0 [] (Ellen.init_cfg 4 [0%nat; 2%nat] [[OContains 2; OIns 1]; [OIns 3; OContains 1]; [OErase 0; OErase 3]])) in
  EllenFullThm.badb (Conc.trace c) = true /\
  lincheck SetSpec (EllenFullInv.full_hist [0%nat; 2%nat] (Conc.trace c)) = false.
Proof. vm_compute. split; reflexivity. Qed.
