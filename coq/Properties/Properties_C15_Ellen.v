(** * C15 (EllenBinTree part): cds::intrusive::EllenBinTree<cds::gc::HP>, programs of insert / ERASE / contains

    Model: Model/Ellen.v (one [Act] per atomic access of cds/intrusive/impl/ellen_bintree.h; tied to the real code by the
    step correspondence of checks/C15.py).  This implementation has NO helping (help() is commented out in the source): a
    search that meets a DFlag / Mark restarts, an update that meets a non-Clean update word retries, and the flag / child
    CAS / unflag steps of an operation are executed by the thread that flagged (help_insert, help_delete, help_marked are
    only ever called by the owner of the descriptor).

    For EVERY schedule, any number (<= 63) of threads, any client programs of insert / erase / contains (keys 0..7), any
    pre-filled tree that passes the decidable check [EllenLin.init_check2] (all pre-filled trees of the correspondence
    runs do), at every reachable configuration in whose history no thread has run out of the model's loop fuel (event
    "outoffuel"; the real code has no such bound):

      1. the tree reachable from m_Root is a leaf-oriented BST ([EllenProofs.T]) and no key is present twice — also in the
         middle of operations;
      2. the update-descriptor invariants of Ellen et al. hold in the form used by the proof (Proofs/EllenDelInv.v [DS]):
         a node's children are changed only by the thread that holds IFlag / DFlag at it, a marked node is frozen, a Clean
         update word that was replaced never comes back (ABA counter m_nEmptyUpdate, not wrapping in the model), an
         internal node that ever was on the search path of k and has not been spliced out IS on the search path of k,
         a spliced-out node is marked and unreachable;
      3. the history of the updates is linearizable to the sequential set [SetSpec]: linearization point of a successful
         insert = the child CAS of help_insert, of a successful erase = the child CAS of help_marked (the splice
         gp.child: p -> sibling; between the Mark CAS and the splice the leaf still is in the tree and every search that
         meets the DFlag / Mark restarts); the abstract set is the set of keys of the leaves reachable from m_Root.
         Operations that do not modify the set (contains, insert -> false, erase -> false) are deleted from the history
         ([EllenDelInv.upd_hist]), as for C13 and the skip list: their linearization is NOT proved here. *)
From Coq Require Import ZArith List String Bool.
From LV Require Import Base.Conc Base.Events Base.Lin Spec.Specs Proofs.LinProofs.
From LV Require Import Model.Ellen Proofs.EllenProofs Proofs.EllenDelBase Proofs.EllenDelInv Proofs.EllenDelProg Proofs.EllenLin.
Import ListNotations.
Local Open Scope Z_scope.

Theorem C15_ellen_erase_bst_invariant :
  forall (fuel : nat) (keys : list nat) (ths : list (list Ellen.op)) c,
    EllenLin.init_check2 keys = true -> Forall (Forall EllenDelProg.op_ok) ths -> (List.length ths <= 63)%nat ->
    Conc.reach (Ellen.init_cfg fuel keys ths) c -> ~ EllenDelInv.exhausted (Conc.trace c) ->
    EllenProofs.T (Conc.shared c) Ellen.root (-1) 1002.
Proof. exact EllenLin.ellen_del_bst. Qed.
Print Assumptions C15_ellen_erase_bst_invariant.

Theorem C15_ellen_erase_no_duplicate_keys :
  forall (fuel : nat) (keys : list nat) (ths : list (list Ellen.op)) c (x y : Ellen.ptr),
    EllenLin.init_check2 keys = true -> Forall (Forall EllenDelProg.op_ok) ths -> (List.length ths <= 63)%nat ->
    Conc.reach (Ellen.init_cfg fuel keys ths) c -> ~ EllenDelInv.exhausted (Conc.trace c) ->
    EllenProofs.insub (Conc.shared c) Ellen.root x -> EllenProofs.insub (Conc.shared c) Ellen.root y ->
    ~ EllenProofs.internal (Conc.shared c) x -> ~ EllenProofs.internal (Conc.shared c) y ->
    Ellen.node_key (Conc.shared c) x = Ellen.node_key (Conc.shared c) y -> x = y.
Proof. exact EllenLin.ellen_del_no_duplicate_keys. Qed.
Print Assumptions C15_ellen_erase_no_duplicate_keys.

(** the whole invariant [DS] (BST, ownership of unlinked nodes, flags held, frozen marked nodes, ABA counter, search
    paths) holds at every such configuration *)
Theorem C15_ellen_erase_invariant :
  forall (fuel : nat) (keys : list nat) (ths : list (list Ellen.op)) c,
    EllenLin.init_check2 keys = true -> Forall (Forall EllenDelProg.op_ok) ths -> (List.length ths <= 63)%nat ->
    Conc.reach (Ellen.init_cfg fuel keys ths) c -> ~ EllenDelInv.exhausted (Conc.trace c) ->
    exists a, EllenDelInv.DS (Conc.shared c) a.
Proof. exact EllenLin.ellen_del_invariant. Qed.
Print Assumptions C15_ellen_erase_invariant.

Theorem C15_ellen_search_path_invariants :
  forall (fuel : nat) (keys : list nat) (ths : list (list Ellen.op)) c,
    EllenLin.init_check2 keys = true -> Forall (Forall EllenDelProg.op_ok) ths -> (List.length ths <= 63)%nat ->
    Conc.reach (Ellen.init_cfg fuel keys ths) c -> ~ EllenDelInv.exhausted (Conc.trace c) ->
    exists (ever : Z -> Ellen.ptr -> Prop) (dead : Ellen.ptr -> Prop),
      (forall k, ever k Ellen.root) /\
      (forall k n, ever k n -> EllenProofs.internal (Conc.shared c) n ->
                   ever k (Ellen.child (Conc.shared c) n (EllenProofs.dirk (Conc.shared c) k n))) /\
      (forall k n, ever k n -> EllenProofs.internal (Conc.shared c) n -> ~ dead n -> EllenProofs.path (Conc.shared c) k Ellen.root n) /\
      (forall n, dead n -> snd (Ellen.upd (Conc.shared c) n) = 3%nat /\ ~ EllenProofs.insub (Conc.shared c) Ellen.root n).
Proof. exact EllenLin.ellen_del_descriptor_invariants. Qed.
Print Assumptions C15_ellen_search_path_invariants.

(** linearizability of the update histories *)
Theorem C15_ellen_updates_linearizable :
  forall (fuel : nat) (keys : list nat) (ths : list (list Ellen.op)) c,
    EllenLin.init_check2 keys = true -> Forall (Forall EllenDelProg.op_ok) ths -> (List.length ths <= 63)%nat ->
    Conc.reach (Ellen.init_cfg fuel keys ths) c -> ~ EllenDelInv.exhausted (Conc.trace c) ->
    linearizable SetSpec (EllenDelInv.upd_hist keys (Conc.trace c)).
Proof. exact EllenLin.ellen_updates_linearizable. Qed.
Print Assumptions C15_ellen_updates_linearizable.

(** the abstract set of the LP-annotated trace is the set of keys of the leaves reachable from m_Root, at every instant *)
Theorem C15_ellen_abstraction :
  forall (fuel : nat) (keys : list nat) (ths : list (list Ellen.op)) c,
    EllenLin.init_check2 keys = true -> Forall (Forall EllenDelProg.op_ok) ths -> (List.length ths <= 63)%nat ->
    Conc.reach (Ellen.init_cfg fuel keys ths) c -> ~ EllenDelInv.exhausted (Conc.trace c) ->
    exists atr S st, lp_run lp_init atr = Some (S, st) /\ erase atr = EllenDelInv.upd_hist keys (Conc.trace c) /\
      (forall k, zmem k S = true <-> EllenDelBase.mem (Conc.shared c) k).
Proof. exact EllenLin.ellen_abstraction. Qed.
Print Assumptions C15_ellen_abstraction.

Theorem C15_ellen_prefilled_trees_pass_init_check2 :
  forallb (fun m => EllenLin.init_check2 (Ellen.prefill_keys [Z.of_nat m])) (seq 0 16) = true.
Proof. exact EllenLin.init_check2_prefills. Qed.
Print Assumptions C15_ellen_prefilled_trees_pass_init_check2.

(** the runs of the step-correspondence check (Ellen.run_case: same programs, same schedules as the real code) *)
Theorem C15_ellen_run_case_updates_linearizable :
  forall (cfg : list Z) (ths : list (list (list Z))) (sched : list nat) (fuel : nat),
    EllenLin.init_check2 (Ellen.prefill_keys cfg) = true -> (List.length ths <= 63)%nat ->
    EllenLin.exhaustedb (Conc.trace (EllenLin.run_cfg cfg ths sched fuel)) = false ->
    EllenProofs.T (Conc.shared (EllenLin.run_cfg cfg ths sched fuel)) Ellen.root (-1) 1002 /\
    linearizable SetSpec (EllenDelInv.upd_hist (Ellen.prefill_keys cfg) (Conc.trace (EllenLin.run_cfg cfg ths sched fuel))).
Proof. exact EllenLin.ellen_run_case_updates_linearizable. Qed.
Print Assumptions C15_ellen_run_case_updates_linearizable.

(** the two steps that change the tree, as pure facts: the splice removes exactly the key of the deleted leaf and keeps
    the search path of every other node; every node of a BST has exactly one parent *)
Theorem C15_ellen_splice_removes_one_key :
  forall (g : Ellen.G) (gp p : Ellen.ptr) (d rl : bool),
    EllenProofs.T g Ellen.root (-1) 1002 -> EllenProofs.insub g Ellen.root gp -> EllenProofs.internal g gp ->
    Ellen.child g gp d = p -> EllenProofs.internal g p -> ~ EllenProofs.internal g (Ellen.child g p rl) ->
    (forall n dd, EllenProofs.insub g Ellen.root n -> EllenProofs.internal g n -> Ellen.child g n dd <> Ellen.root) ->
    forall k, EllenDelBase.mem (Ellen.set_child g gp d (Ellen.child g p (negb rl))) k <->
              EllenDelBase.mem g k /\ k <> Ellen.node_key g (Ellen.child g p rl).
Proof. exact EllenDelBase.sp_mem. Qed.
Print Assumptions C15_ellen_splice_removes_one_key.

(** non-vacuity: a contended model run WITH erase (3 threads, keys 0..3, pre-filled {0, 2}, round-robin schedule) in which
    CASes fail and erases succeed; it terminates, no thread runs out of fuel, the BST monitor never fires, the hypotheses
    of the theorems hold, and its update history is accepted by the verified checker *)
Example C15_ellen_erase_model_nonvacuous :
  let ths := [[[6;0]; [1;1]; [10;2]]; [[6;0]; [1;1]; [6;2]]; [[1;0]; [6;1]; [1;3]]] in
  let r := Ellen.run_case [5] ths [] (30 * 1000) in
  let c := EllenLin.run_cfg [5] ths [] (30 * 1000) in
  snd r = true /\
  existsb (fun e => match snd e with EvAcc KCas _ false => true | _ => false end) (fst r) = true /\
  existsb (fun e => Nat.eqb (fst e) 99) (fst r) = false /\
  EllenLin.exhaustedb (Conc.trace c) = false /\
  EllenLin.init_check2 (Ellen.prefill_keys [5]) = true /\
  existsb (fun e : hev SetSpec => match e with HInv _ (SErase _) => true | _ => false end) (EllenDelInv.upd_hist (Ellen.prefill_keys [5]) (Conc.trace c)) = true /\
  lincheck SetSpec (EllenDelInv.upd_hist (Ellen.prefill_keys [5]) (Conc.trace c)) = true.
Proof. vm_compute. repeat split; reflexivity. Qed.
