(** Property C19 — thread-safe iterators stay valid and complete under concurrent updates.

    STATUS.
    Modelled at step grain and tied to the real code by step correspondence (checks/C19.py, harness/C19/step_feldman_iter.cpp):
    the iterator object of FeldmanHashSet<HP> - LV.Model.FeldmanIter on top of LV.Model.Feldman: guard, ( node, idx ),
    forward() / backward() as in the current tree (re-read of a converting slot, re-read of a slot that changed under
    protect), operator*, do_erase_at with the unlink fall-back.  IterableList::iterator is NOT modelled.

    Proved here, for every state that satisfies the structural invariant of the Feldman model (= every reachable
    state of LV.Model.Feldman, every schedule):
      (1) an element occupies at most one slot                                     [C19_feldman_element_position_unique]
      (2) no access of an array-node expansion hides an element                    [C19_feldman_expand_never_hides_element]
      (3) the CAS of do_erase_at removes exactly the iterator's element             [C19_feldman_erase_at_true_exact]
      (4) do_erase_at's [return false] branch: the element is already gone          [C19_feldman_erase_at_false_gone]
    NOT proved (kept below as [_statement] definitions): that the iterator programs preserve the invariant
    ([feldman_iter_inv_statement]: the descent stack of the iterator needs ghost knowledge per stack entry, i.e. a new
    auxiliary layer over FeldmanStepInv as was built for linearizability in FeldmanLinInv/FeldmanLinSafe), the
    trace-level completeness theorem [feldman_iter_complete_at_least_once_statement] and the trace-level form of
    erase_at exactness (not stated, see below).  These, the never-disposed property and everything about
    IterableList are checked on the real code only, by the log-based monitor of checks/C19.py (which found three
    defects of the iterators, all fixed in /repo and kept as corpus regressions). *)
From Coq Require Import ZArith NArith List.
From LV Require Import Base.Conc Base.Events Model.Feldman Model.FeldmanIter Proofs.FeldmanStepInv Proofs.FeldmanStepSafe Proofs.FeldmanStepThm Proofs.FeldmanIterThm.
From LV Require Proofs.FeldmanIterSafe.
Import ListNotations.

(** (1) an element occupies at most one slot of the tree, in every reachable configuration: the iterator's pair
    (array node, index) + the pointer comparison of do_erase_at identify the element unambiguously, and a by-hash lookup
    (the fall-back of do_erase_at after the slot was expanded) can only find that same element *)
Theorem C19_feldman_element_position_unique :
  forall (hbits abits W : nat) (hs : list N), 0 < hbits -> 0 < abits ->
  forall (fuel : nat) (ths : list (list (list Z))) c,
    Conc.reach (Feldman.init_cfg hbits abits W hs fuel ths) c ->
    forall a i a' i' p, data_at (Conc.shared c) a i p -> data_at (Conc.shared c) a' i' p -> a = a' /\ i = i'.
Proof.
  intros hbits abits W hs Hh Ha fuel ths c Hr a i a' i' p H1 H2.
  destruct (feldman_nodup_reach Hh Ha Hr H1 H2 eq_refl) as (E1 & E2 & _). split; assumption.
Qed.
Print Assumptions C19_feldman_element_position_unique.

(** (2) an array-node expansion never hides an element: each of the three accesses of expand_slot preserves [present]; an
    iterator that waits on a converting slot and descends into the new array node (the fixed forward()/backward()) therefore
    meets every element that is present during the whole iteration at least once.  (The second half of that sentence is the
    part that is NOT proved: it needs the iterator model.) *)
Theorem C19_feldman_expand_never_hides_element :
  forall (hbits abits : nat) (hs : list N),
  (forall g a i p, arr g a i = mkSlot p 0 -> forall h, present hs (conv_state g a i p) h <-> present hs g h) /\
  (forall g A tr t a i p n idx, FeldmanStepInv.Inv hbits abits hs g A tr -> ph (views A t) = PConv a i p n ->
     forall h, present hs (with_arr g (set_slot (arr g) n idx (mkSlot p 0))) h <-> present hs g h) /\
  (forall g A tr t a i p n, FeldmanStepInv.Inv hbits abits hs g A tr -> ph (views A t) = PStored a i p n ->
     forall h, present hs (with_arr g (set_slot (arr g) a i (mkSlot n 2))) h <-> present hs g h).
Proof.
  intros hbits abits hs. split; [|split].
  - intros g a i p. apply conv_preserves.
  - intros g A tr t a i p n idx. apply store_preserves.
  - intros g A tr t a i p n. apply link_preserves.
Qed.
Print Assumptions C19_feldman_expand_never_hides_element.

(** non-vacuity: the run of Properties_C14 (an array node is created while two threads insert) *)
Example C19_feldman_nonvacuous :
  let c := fst (Conc.run 2000 0 [0;1;0;1;1;0]%nat
                 (Feldman.init_cfg 4 2 32 [5; 21; 37; 2]%N 50 [[[1;0];[1;2]]; [[1;1];[7;0]]]%Z)) in
  narr (Conc.shared c) = 2 /\ arr (Conc.shared c) 0 5 = mkSlot 1 2 /\ arr (Conc.shared c) 1 1 = mkSlot 2 0.
Proof. vm_compute. repeat split. Qed.

(** (3) do_erase_at, [true] branch.  The iterator is at ( a, i ) on a linked array node and holds element [x] in its guard;
    the slot still holds [x] unflagged, so the CAS ( x -> nullptr ) succeeds ([erase_at_cas_step]).  Afterwards every
    other position has its old content, [x] is at no position, and exactly the hash of [x] has left the set. *)
Theorem C19_feldman_erase_at_true_exact :
  forall (hbits abits : nat) (hs : list N), 0 < hbits -> 0 < abits ->
  forall g A tr a i x, FeldmanStepInv.Inv hbits abits hs g A tr -> reach_arr g a -> arr g a i = mkSlot x 0 -> x <> 0 ->
    fst (fst (a_cas a i (mkSlot x 0) snull g)) = erase_at_state g a i /\
    (forall a' i' y, data_at (erase_at_state g a i) a' i' y <-> (data_at g a' i' y /\ (a', i') <> (a, i))) /\
    (forall a' i', ~ data_at (erase_at_state g a i) a' i' x) /\
    (forall h, present hs (erase_at_state g a i) h <-> (present hs g h /\ h <> Feldman.hash hs (ikey g x))).
Proof.
  intros hbits abits hs Hh Ha g A tr a i x HI Hr Hs Hx. split.
  - apply (erase_at_cas_step g a i x Hs).
  - exact (erase_at_true_exact hbits abits hs Hh Ha g A tr a i x HI Hr Hs Hx).
Qed.
Print Assumptions C19_feldman_erase_at_true_exact.

(** (4) do_erase_at, [false] branch: the slot ( a, i ) - a linked array node on the hash path of the iterator's element
    [x] - holds an unflagged value other than [x] (nullptr or another element).  Then [x] is at no position of the tree:
    it has been removed or replaced, as the documentation of erase_at promises.  (A flagged slot takes the unlink branch.) *)
Theorem C19_feldman_erase_at_false_gone :
  forall (hbits abits : nat) (hs : list N), 0 < hbits -> 0 < abits ->
  forall g A tr a o i x y, FeldmanStepInv.Inv hbits abits hs g A tr ->
    pfx A a = Some (o, (Feldman.hash hs (ikey g x) mod 2 ^ N.of_nat o)%N) ->
    i = Feldman.cut (Feldman.hash hs (ikey g x)) o (Feldman.bits_of hbits abits a) ->
    arr g a i = mkSlot y 0 -> y <> x ->
    forall a' i', ~ data_at g a' i' x.
Proof. intros hbits abits hs Hh Ha g A tr a o i x y. apply (erase_at_false_gone hbits abits hs Hh Ha). Qed.
Print Assumptions C19_feldman_erase_at_false_gone.

(** ** the statements that are NOT proved *)

(** (5) the programs of the iterator model preserve the structural invariant, every schedule: every theorem above about
    states that satisfy the invariant holds in every reachable configuration of the model WITH iterators (iterations,
    erase_at and the set operations interleaved at will).  Ghost knowledge: the prefixes of the array nodes on the
    iterator's descent stack (Proofs/FeldmanIterSafe.v). *)
Theorem C19_feldman_iter_inv :
  forall (hbits abits W : nat) (hs : list N), 0 < hbits -> 0 < abits ->
  forall (fuel : nat) (ths : list (list (list Z))) c,
    Conc.reach (FeldmanIter.init_cfgI hbits abits W hs fuel ths) c ->
    exists A, FeldmanStepInv.Inv hbits abits hs (Conc.shared c) A (Conc.trace c).
Proof. intros hbits abits W hs Hh Ha fuel ths c. apply (@FeldmanIterSafe.feldman_iter_inv hbits abits W hs Hh Ha). Qed.
Print Assumptions C19_feldman_iter_inv.

(** ... in particular an element occupies at most one slot while iterators run *)
Theorem C19_feldman_iter_element_position_unique :
  forall (hbits abits W : nat) (hs : list N), 0 < hbits -> 0 < abits ->
  forall (fuel : nat) (ths : list (list (list Z))) c,
    Conc.reach (FeldmanIter.init_cfgI hbits abits W hs fuel ths) c ->
    forall a i a' i' p, data_at (Conc.shared c) a i p -> data_at (Conc.shared c) a' i' p -> a = a' /\ i = i'.
Proof.
  intros hbits abits W hs Hh Ha fuel ths c Hr a i a' i' p H1 H2.
  destruct (@FeldmanIterSafe.feldman_iter_inv hbits abits W hs Hh Ha fuel ths c Hr) as (A & HI).
  destruct (FeldmanStepThm.nodup_inv Hh Ha HI H1 H2 eq_refl) as (E1 & E2 & _). split; assumption.
Qed.
Print Assumptions C19_feldman_iter_element_position_unique.

(** one complete iteration of thread [t] (operation 20 forward / 21 reverse, no erase_at: k = 99) between the
    configurations [c1] and [c2]: every element that is in the tree in every configuration in between is visited *)
Definition feldman_iter_complete_at_least_once_statement : Prop :=
  forall (hbits abits W : nat) (hs : list N), 0 < hbits -> 0 < abits ->
  forall (fuel : nat) (ths : list (list (list Z))) c1 c2 t code mid,
    Conc.reach (FeldmanIter.init_cfgI hbits abits W hs fuel ths) c1 -> Conc.reach c1 c2 ->
    (code = 20 \/ code = 21) ->
    Conc.trace c2 = Conc.trace c1 ++ [(t, Feldman.ev_inv code 99)] ++ mid ++ [(t, Feldman.ev_ret true false)] ->
    (forall e, In (t, e) mid -> e <> Feldman.ev_inv code 99) ->
    forall x, x <> 0 ->
      (forall c', Conc.reach c1 c' -> Conc.reach c' c2 -> exists a i, data_at (Conc.shared c') a i x) ->
      In (t, FeldmanIter.ev_visit (ikey (Conc.shared c2) x)) mid.

(** The trace-level form of erase_at exactness ("erase_at( it ) == true iff this call is the one and only removal of that
    element, false only if another operation removed or replaced it") is NOT stated as a Coq proposition: the identity
    of the element held by the iterator's guard is not visible in the model's trace (events carry keys, not element
    ids), so the statement needs the ghost state of the missing auxiliary layer.  Its two state-level halves are (3) and
    (4) above; on the real code it is checked by the monitor of checks/C19.py. *)

(** non-vacuity of the iterator model: thread 0 inserts keys 0 and 3 and iterates forward, erasing key 0 through
    erase_at; thread 1 inserts key 1, whose hash shares the head slot of key 0.  Schedule: thread 0 is stopped after
    operator* on the element with key 0, thread 1 expands the slot, then do_erase_at finds the slot flagged and removes
    the element through the unlink fall-back: both elements visited, erase_at answers true, the element is gone from the
    new array node, key 1 is in it. *)
Example C19_feldman_iter_nonvacuous :
  let c := fst (Conc.run 4000 0 (repeat 0 41 ++ repeat 1 80 ++ repeat 0 200)%nat
                 (FeldmanIter.init_cfgI 4 2 32 [5; 21; 37; 2]%N 60 [[[1;0];[1;3];[20;0]]; [[1;1]]]%Z)) in
  filter (fun te => match snd te with EvCli _ _ => true | _ => false end) (Conc.trace c) =
    [(0, Feldman.ev_inv 1 0); (0, Feldman.ev_ret true false); (0, Feldman.ev_inv 1 3); (0, Feldman.ev_ret true false);
     (0, Feldman.ev_inv 20 0); (0, FeldmanIter.ev_visit 3); (0, FeldmanIter.ev_visit 0);
     (1, Feldman.ev_inv 1 1); (1, Feldman.ev_ret true false);
     (0, FeldmanIter.ev_erased true); (0, Feldman.ev_ret true false)] /\
  arr (Conc.shared c) 0 5 = mkSlot 1 2 /\ arr (Conc.shared c) 1 1 = mkSlot 3 0 /\ arr (Conc.shared c) 1 0 = snull.
Proof. vm_compute. repeat split. Qed.
