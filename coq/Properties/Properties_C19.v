(** Property C19 — thread-safe iterators stay valid and complete under concurrent updates.

    STATUS.  The iterator objects themselves (IterableList::iterator, FeldmanHashSet::iterator_base::forward/backward,
    erase_at) are NOT modelled at step grain: the four theorems planned in DESIGN 7 (iter_current_not_disposed,
    iterlist_iter_complete_ordered, feldman_iter_complete_at_least_once, erase_at_exact) are not stated here as Coq
    propositions because there is no iterator model to state them about.  They are checked on the real code only, by the
    log-based monitor of checks/C19.py (which found three defects of the iterators, all fixed in /repo and kept as corpus
    regressions).

    What IS proved, for every schedule, about the step-grain model of FeldmanHashSet<HP> (LV.Model.Feldman, tied to the
    real code by step correspondence) are the two structural facts the Feldman iterators and erase_at rely on. *)
From Coq Require Import ZArith NArith List.
From LV Require Import Base.Conc Base.Events Model.Feldman Proofs.FeldmanStepInv Proofs.FeldmanStepSafe Proofs.FeldmanStepThm.
Import ListNotations.

(** (1) an element occupies at most one slot of the tree, in every reachable configuration: the iterator's pair
    (array node, index) + the pointer comparison of do_erase_at identify the element unambiguously, and a by-hash lookup
    (the fall-back of do_erase_at after the slot was expanded) can only find that same element *)
Theorem C19_feldman_element_position_unique :
  forall (hbits abits W : nat) (hs : list N), 0 < hbits -> 0 < abits ->
  forall (fuel : nat) (ths : list (list (list Z))) c,
    Conc.reach (Feldman.init_cfg hbits abits W hs fuel ths) c ->
    forall a i a' i' p, data_at (Conc.shared c) a i p -> data_at (Conc.shared c) a' i' p -> a = a' /\ i = i'.
Proof.
  intros hbits abits W hs Hh Ha fuel ths c Hr a i a' i' p H1 H2.
  destruct (feldman_nodup_reach Hh Ha Hr H1 H2 eq_refl) as (E1 & E2 & _). split; assumption.
Qed.
Print Assumptions C19_feldman_element_position_unique.

(** (2) an array-node expansion never hides an element: each of the three accesses of expand_slot preserves [present]; an
    iterator that waits on a converting slot and descends into the new array node (the fixed forward()/backward()) therefore
    meets every element that is present during the whole iteration at least once.  (The second half of that sentence is the
    part that is NOT proved: it needs the iterator model.) *)
Theorem C19_feldman_expand_never_hides_element :
  forall (hbits abits : nat) (hs : list N),
  (forall g a i p, arr g a i = mkSlot p 0 -> forall h, present hs (conv_state g a i p) h <-> present hs g h) /\
  (forall g A tr t a i p n idx, FeldmanStepInv.Inv hbits abits hs g A tr -> ph (views A t) = PConv a i p n ->
     forall h, present hs (with_arr g (set_slot (arr g) n idx (mkSlot p 0))) h <-> present hs g h) /\
  (forall g A tr t a i p n, FeldmanStepInv.Inv hbits abits hs g A tr -> ph (views A t) = PStored a i p n ->
     forall h, present hs (with_arr g (set_slot (arr g) a i (mkSlot n 2))) h <-> present hs g h).
Proof.
  intros hbits abits hs. split; [|split].
  - intros g a i p. apply conv_preserves.
  - intros g A tr t a i p n idx. apply store_preserves.
  - intros g A tr t a i p n. apply link_preserves.
Qed.
Print Assumptions C19_feldman_expand_never_hides_element.

(** non-vacuity: the run of Properties_C14 (an array node is created while two threads insert) *)
Example C19_feldman_nonvacuous :
  let c := fst (Conc.run 2000 0 [0;1;0;1;1;0]%nat
                 (Feldman.init_cfg 4 2 32 [5; 21; 37; 2]%N 50 [[[1;0];[1;2]]; [[1;1];[7;0]]]%Z)) in
  narr (Conc.shared c) = 2 /\ arr (Conc.shared c) 0 5 = mkSlot 1 2 /\ arr (Conc.shared c) 1 1 = mkSlot 2 0.
Proof. vm_compute. repeat split. Qed.
