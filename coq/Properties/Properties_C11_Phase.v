(** Property C11, last clause -- "MSPriorityQueue: ... every history in which no push overlaps a pop is linearizable to a
    bounded max-priority queue."  PROVED here for every schedule, any number of threads, any programs, any number of
    alternating phases: [C11_mspq_phase_linearizable] is [C11_mspq_phase_linearizable_statement] of Properties_C11.v.

    Only statements here; proofs live in LV.Proofs.MsPqPhasesPush / MsPqPhasesPop / MsPqPhasesSpec / MsPqPhasesStack.
    The model is LV.Model.MsPq (one [Act] per atomic access of cds::intrusive::MSPriorityQueue, tied to the real code by
    step correspondence, checks/C11.py).

    Vocabulary.  [no_push_pop_overlap h] (LV.Proofs.MsPqPhase) scans the HISTORY: no push is invoked while a pop is
    pending, no pop is invoked while a push is pending; pushes overlap each other arbitrarily, and so do pops.
    [phased tr] (LV.Proofs.MsPqPhasesPop) is the same discipline read off the model trace; on reachable traces the
    former implies the latter ([MsPqPhasesStack.overlap_free_phased]).  [atrace cap tr] is the trace annotated with the
    linearization points: the step that acquires m_Lock and calls inc() ("g_inc") or finds the heap full ("g_full") for
    push, calls dec() ("g_dec") or finds the heap empty ("g_emp") for pop; [Lin.lp_valid] says that every operation is
    answered as the specification BPQueue answers AT THAT POINT -- in particular every pop returns a maximum of the
    abstract multiset at the instant it decrements the counter under m_Lock.

    Invariant (every instant of a disciplined run): while no pop is pending, the tag invariant of Hunt et al. (a cell
    tagged with a thread id is the cell that thread's push is bubbling, an Available cell is not larger than any of its
    ancestors) and "the specification state + items handed back + pushes not yet added = items pushed"; while no push is
    pending, the hand-over-hand frontier invariant (node locks have one holder, the frontier cells are the pParent
    cells of the pops inside heapify_after_pop, every cell in use is not larger than any of its non-frontier ancestors,
    all ancestors of a cell in use are in use) and "a linearized pop that has not exchanged the top item yet owes the
    specification its result: it holds m_Lock or the top lock, and when it obtains the top lock the top cell holds the
    maximum".  Both hold at quiescent points, where each is re-established from the other. *)
From Coq Require Import ZArith List String Permutation.
From LV Require Import Base.Conc Base.Events Base.Lin Spec.Specs Model.MsPq
  Proofs.MsPqBrc Proofs.MsPqInv Proofs.MsPqHeap Proofs.MsPqPhase Proofs.MsPqPushLin
  Proofs.MsPqPhasesPop Proofs.MsPqPhasesStack.
Require LV.Proofs.MsPqReal LV.Proofs.MsPqPop.
Import ListNotations.
Local Open Scope Z_scope.
Local Open Scope string_scope.

(** ** the last clause of C11: the statement of LV.Proofs.MsPqPhase, proved *)
Theorem C11_mspq_phase_linearizable :
  forall cap, slots_ok cap = true -> shape_ok cap = true ->
  forall bsz, (cap < bsz)%nat ->
  forall (hf lf : nat) (ths : list (list MsPq.op)) c,
    Conc.reach (MsPq.init_cfg cap bsz hf lf ths) c ->
    no_push_pop_overlap (hist_of cap (Conc.trace c)) = true ->
    linearizable (BPQueue cap) (hist_of cap (Conc.trace c)).
Proof. exact mspq_phase_linearizable. Qed.
Print Assumptions C11_mspq_phase_linearizable.

(** it is literally the statement kept open in Properties_C11.v *)
Theorem C11_mspq_phase_linearizable_is_the_statement : mspq_phase_linearizable_statement.
Proof. exact mspq_phase_linearizable. Qed.
Print Assumptions C11_mspq_phase_linearizable_is_the_statement.

(** ** the LP-annotated trace of a disciplined run is valid for the bounded max-priority queue: pushes are answered
    as the specification answers at the instant they take m_Lock, pops return a maximum of the abstract multiset at the
    instant they take m_Lock -- through any number of alternating phases *)
Theorem C11_mspq_phases_lp_valid :
  forall cap, slots_ok cap = true -> shape_ok cap = true ->
  forall bsz, (cap < bsz)%nat ->
  forall (hf lf : nat) (ths : list (list MsPq.op)) c,
    Conc.reach (MsPq.init_cfg cap bsz hf lf ths) c -> phased (Conc.trace c) = true ->
    lp_valid (BPQueue cap) (atrace cap (Conc.trace c)).
Proof. exact mspq_phases_lp_valid. Qed.
Print Assumptions C11_mspq_phases_lp_valid.

(** the discipline on the history implies the discipline on the trace, on every reachable configuration *)
Theorem C11_mspq_overlap_free_phased :
  forall cap, slots_ok cap = true -> shape_ok cap = true ->
  forall bsz, (cap < bsz)%nat ->
  forall (hf lf : nat) (ths : list (list MsPq.op)) c,
    Conc.reach (MsPq.init_cfg cap bsz hf lf ths) c ->
    no_push_pop_overlap (hist_of cap (Conc.trace c)) = true -> phased (Conc.trace c) = true.
Proof. exact overlap_free_phased. Qed.
Print Assumptions C11_mspq_overlap_free_phased.

(** ** the heap at EVERY quiescent point of a disciplined run (after a push phase, after a pop phase, after any number
    of them): a max-heap -- the cells in use are the first [count] slots, all tagged Available, every cell in use is not
    larger than its parent -- holding exactly the items pushed and not handed back *)
Theorem C11_mspq_phases_heap :
  forall cap, slots_ok cap = true -> shape_ok cap = true ->
  forall bsz, (cap < bsz)%nat ->
  forall (hf lf : nat) (ths : list (list MsPq.op)) c,
    Conc.reach (MsPq.init_cfg cap bsz hf lf ths) c ->
    phased (Conc.trace c) = true -> (forall t, pend (Conc.trace c) t = false) ->
    Good (count (Conc.shared c)) (cellv (Conc.shared c)) (cellt (Conc.shared c)) /\
    Permutation (heap_items cap (Conc.shared c) ++ given_back (Conc.trace c)) (invoked (Conc.trace c)).
Proof. exact mspq_phases_heap. Qed.
Print Assumptions C11_mspq_phases_heap.

(** the two-phase discipline of Properties_C11.v (pushes, then pops: [MsPqPop.twophase], the hypothesis of
    [C11_mspq_two_phase_heap] / [C11_mspq_two_phase_linearizable]) is an instance *)
Theorem C11_mspq_twophase_is_phased : forall tr, MsPqPop.twophase tr = true -> phased tr = true.
Proof. exact twophase_is_phased. Qed.
Print Assumptions C11_mspq_twophase_is_phased.

(** ** the capacities of the real code: capacity() = 2^k - 1 for every buffer, any buffer size above it *)
Theorem C11_mspq_phase_linearizable_real :
  forall (k bsz hf lf : nat) (ths : list (list MsPq.op)) c,
    (k <= 61)%nat -> (MsPqReal.rcap k < bsz)%nat -> Conc.reach (MsPq.init_cfg (MsPqReal.rcap k) bsz hf lf ths) c ->
    no_push_pop_overlap (hist_of (MsPqReal.rcap k) (Conc.trace c)) = true ->
    linearizable (BPQueue (MsPqReal.rcap k)) (hist_of (MsPqReal.rcap k) (Conc.trace c)).
Proof. exact mspq_phase_linearizable_real. Qed.
Print Assumptions C11_mspq_phase_linearizable_real.

Theorem C11_mspq_phases_lp_valid_real :
  forall (k bsz hf lf : nat) (ths : list (list MsPq.op)) c,
    (k <= 61)%nat -> (MsPqReal.rcap k < bsz)%nat -> Conc.reach (MsPq.init_cfg (MsPqReal.rcap k) bsz hf lf ths) c ->
    phased (Conc.trace c) = true -> lp_valid (BPQueue (MsPqReal.rcap k)) (atrace (MsPqReal.rcap k) (Conc.trace c)).
Proof. exact mspq_phases_lp_valid_real. Qed.
Print Assumptions C11_mspq_phases_lp_valid_real.

Theorem C11_mspq_phases_heap_real :
  forall (k bsz hf lf : nat) (ths : list (list MsPq.op)) c,
    (k <= 61)%nat -> (MsPqReal.rcap k < bsz)%nat -> Conc.reach (MsPq.init_cfg (MsPqReal.rcap k) bsz hf lf ths) c ->
    phased (Conc.trace c) = true -> (forall t, pend (Conc.trace c) t = false) ->
    Good (count (Conc.shared c)) (cellv (Conc.shared c)) (cellt (Conc.shared c)) /\
    Permutation (heap_items (MsPqReal.rcap k) (Conc.shared c) ++ given_back (Conc.trace c)) (invoked (Conc.trace c)).
Proof. exact mspq_phases_heap_real. Qed.
Print Assumptions C11_mspq_phases_heap_real.

(** ** non-vacuity: FOUR phases with overlap inside each of them (capacity 7, five threads).
      phase 1: thread 1 pushes 7, then threads 1 (push 3) and 0 (push 5) overlap;
      phase 2: the pops of threads 0 and 2 overlap (they return 7 and 5);
      phase 3: the pushes of threads 2 (2) and 3 (9) overlap;
      phase 4: the pops of threads 2 and 4 overlap (they return 9 and 3).
    In the model a thread invokes its next operation in the very step in which the previous one returns, so the thread
    whose return ends a phase is the one that opens the next.  The run finishes, the discipline holds on the history
    and on the trace, eight operations returned, the pops returned 7, 5, 9, 3 in this order, item (2,4) is left. *)
Definition C11_phase_example_sched : list nat :=
  [1; 1; 1; 1; 1; 1; 1; 1; 0; 1; 0; 1; 0; 1; 0; 1; 0; 1; 1; 1; 0; 0; 0;
   0; 0; 0; 2; 0; 2; 0; 2; 0; 2; 0; 2; 0; 0; 0; 0; 0; 0; 2; 2; 2; 2; 2;
   2; 2; 2; 3; 3; 2; 3; 2; 3; 2; 3; 2; 3; 3; 3; 3; 3; 3; 2; 2; 2; 2; 2;
   2; 2; 4; 2; 4; 2; 4; 2; 4; 2; 4; 2; 2; 2; 2; 2; 2; 2; 2; 4; 4; 4; 4;
   4; 4; 4; 4]%nat.

Definition is_io (n : string) : bool :=
  String.eqb n "inv_push" || String.eqb n "ret_push" || String.eqb n "inv_pop" || String.eqb n "ret_pop".
Definition io_events (tr : list (nat * ev)) : list (nat * string * list Z) :=
  flat_map (fun te => match snd te with EvCli n a => if is_io n then [(fst te, n, a)] else [] | _ => [] end) tr.

Definition C11_phase_example_events : list (nat * string * list Z) :=
  [(1%nat, "inv_push", [7; 2]); (1%nat, "ret_push", [1; 7; 2]); (1%nat, "inv_push", [3; 3]); (0%nat, "inv_push", [5; 1]);
     (1%nat, "ret_push", [1; 3; 3]); (0%nat, "ret_push", [1; 5; 1]);
     (0%nat, "inv_pop", []); (2%nat, "inv_pop", []); (0%nat, "ret_pop", [1; 7; 2]); (2%nat, "ret_pop", [1; 5; 1]);
     (2%nat, "inv_push", [2; 4]); (3%nat, "inv_push", [9; 5]); (3%nat, "ret_push", [1; 9; 5]); (2%nat, "ret_push", [1; 2; 4]);
     (2%nat, "inv_pop", []); (4%nat, "inv_pop", []); (2%nat, "ret_pop", [1; 9; 5]); (4%nat, "ret_pop", [1; 3; 3])].

Example C11_mspq_phases_nonvacuous :
  let r := Conc.run 200 0 C11_phase_example_sched
             (MsPq.init_cfg 7 8 60 60 [[OPush (5, 1); OPop]; [OPush (7, 2); OPush (3, 3)]; [OPop; OPush (2, 4); OPop];
                                       [OPush (9, 5)]; [OPop]]) in
  slots_ok 7 = true /\ shape_ok 7 = true /\ snd r = true /\
  no_push_pop_overlap (hist_of 7 (Conc.trace (fst r))) = true /\ phased (Conc.trace (fst r)) = true /\
  forallb (fun t => negb (pend (Conc.trace (fst r)) t)) [0; 1; 2; 3; 4]%nat = true /\
  io_events (Conc.trace (fst r)) = C11_phase_example_events /\
  heap_items 7 (Conc.shared (fst r)) = [(2, 4)] /\ count (Conc.shared (fst r)) = 1%nat.
Proof. vm_compute. repeat split; reflexivity. Qed.

(** the discipline is not vacuous in the other direction either: a run in which a pop is invoked while a push is
    pending is rejected by both scans *)
Example C11_mspq_phases_overlap_detected :
  let r := Conc.run 2000 0 [0; 1; 0; 1; 1; 0; 0; 1; 1; 1; 0]%nat
             (MsPq.init_cfg 3 4 50 50 [[OPush (5, 1); OPush (7, 2); OPop]; [OPush (7, 3); OPop; OPush (1, 4)]]) in
  snd r = true /\ no_push_pop_overlap (hist_of 3 (Conc.trace (fst r))) = false /\ phased (Conc.trace (fst r)) = false.
Proof. vm_compute. repeat split; reflexivity. Qed.
