(** Property C07, companion — VyukovMPMCCycleQueue::empty() and size().

    Only statements here; proofs live in LV.Proofs.VyukovSize.  Model: LV.Model.Vyukov ([empty], [size]; one step
    per atomic access of cds/container/vyukov_mpmc_cycle_queue.h).  Hypotheses as in Properties_C07:
    capacity 2^k (k >= 1), [programs_allowed], [Conc.reach] = ANY schedule, [claims_bound] = no counter wrap.

    What is established
      C07_empty_decision       in EVERY reachable configuration, for the abstract queue qs of a valid
                               LP-annotated trace of the history (|qs| = posEnq - posDeq): the deciding load of
                               empty() executed there with a local pos <= posDeq yields
                                 true  (m_posEnqueue = pos)           only if qs = [] (posDeq = posEnq),
                                 false (cell(pos).sequence = pos+1)   only if qs <> [] (pos = posDeq < posEnq), or
                                        pos < posDeq and a dequeuer that claimed position pos (linearized, its
                                        item removed) has not yet released the cell.
      C07_empty_false_at_return_refuted   computed witness: empty() returns false in a configuration whose
                               abstract queue is empty and no enqueue is in flight (second disjunct above); the
                               answer false is justified only by an EARLIER instant of the same call, so empty()
                               has no linearization point of its own for it.
      C07_size_below_zero_refuted / C07_size_above_capacity_refuted   computed witnesses: with the item counter
                               enabled size() returns 2^64-1 on an empty queue of capacity 2, and 3 on a queue of
                               capacity 2 holding 2 items (the counter moves after the publish / release store).
      C07_empty_observer       DURING-THE-CALL form, every schedule: every (t, ret_empty [b]) event is preceded by an
                               instant [tra] inside the call at which the abstract queue (length [alen tra]) was
                               empty (b = 1) resp. non-empty (b = 0).  For b = 0 the instant may be the step of
                               ANOTHER thread (just before a dequeuer's CAS): helping.
      C07_alen_is_abstract_length   alen (trace) = posEnq - posDeq = |abstract queue of the linearization|.
    What is open: the insertion of the observer into the LP-annotated trace (LV.Base.Lin) to obtain [linearizable]
    for the history with empty() literally, the configuration form LV.Proofs.VyukovSize.empty_observer_statement,
    and size_slack_statement. *)
From Coq Require Import ZArith List String Bool.
From LV Require Import Base.Conc Base.Events Base.Lin Spec.Specs Model.Vyukov
                       Proofs.VyukovSpec Proofs.VyukovArith Proofs.VyukovCore Proofs.VyukovLin Proofs.VyukovTheorems
                       Proofs.VyukovSize Proofs.VyukovSizeObs.
Import ListNotations.
Local Open Scope Z_scope.

Theorem C07_empty_decision :
  forall (k : nat) (q : qcfg) (fuel : nat) (ths : list (list op)) (sc : option nat) (mp : bool) c,
    (1 <= k)%nat -> qcap q = 2 ^ Z.of_nat k -> programs_allowed sc mp ths ->
    Conc.reach (init_cfg q fuel ths) c -> claims_bound k (Conc.trace c) ->
    let g := Conc.shared c in
    exists (atr : list (aev (VQ (2 ^ k)))) (qs : list Z) (P : nat -> phase),
      lp_valid (VQ (2 ^ k)) atr /\ erase atr = hist (2 ^ k) (Conc.trace c) /\
      (exists S, @lp_run (VQ (2 ^ k)) lp_init atr = Some (qs, S)) /\
      Z.of_nat (Datatypes.length qs) = posE g - posD g /\
      (forall pos, 0 <= pos <= posD g -> posE g = pos -> posD g = posE g /\ qs = []) /\
      (forall pos, 0 <= pos <= posD g -> seqs g (cell k pos) = pos + 1 ->
         (pos = posD g /\ posD g < posE g /\ qs <> []) \/
         (pos < posD g /\ posD g <= pos + 2 ^ Z.of_nat k /\ exists w pk v, P w = DeqClaimed pk pos v)).
Proof. intros k q fuel ths sc mp c. exact (empty_decision_reach k q fuel ths sc mp c). Qed.
Print Assumptions C07_empty_decision.

(** non-vacuity: the hypotheses hold of the witness configuration below (capacity 2, three threads), and there the
    second disjunct of the "false" case is the one that applies (pos = 0 < posDeq = 1 = posEnq) *)
Example C07_empty_decision_nonvacuous :
  let c := wit_empty_cfg in
  programs_allowed None true [[OEmpty]; [OEnq 5]; [ODeq]] /\
  Conc.reach (init_cfg (mkQ 2 false) 4 [[OEmpty]; [OEnq 5]; [ODeq]]) c /\ claims_bound 1 (Conc.trace c) /\
  0 <= 0 <= posD (Conc.shared c) /\ seqs (Conc.shared c) (cell 1 0) = 0 + 1 /\ 0 < posD (Conc.shared c).
Proof.
  cbv zeta. split; [|split; [apply Conc.run_reach|split; [vm_compute; reflexivity|]]].
  - intros t os o Ht Ho. destruct t as [|[|[|t]]]; cbn in Ht; inversion Ht; subst; cbn in Ho;
      repeat (destruct Ho as [Ho|Ho]; [subst o; cbn; auto; try (intros; discriminate)|]); try contradiction;
      destruct t; discriminate.
  - vm_compute. repeat split; try reflexivity; discriminate.
Qed.

Theorem C07_empty_false_at_return_refuted :
  exists ths sched c,
    c = fst (Conc.run 12 0 sched (init_cfg (mkQ 2 false) 4 ths)) /\
    Conc.reach (init_cfg (mkQ 2 false) 4 ths) c /\
    ends_with (Conc.trace c) (0%nat, EvCli "ret_empty" [0]) /\
    posD (Conc.shared c) = posE (Conc.shared c) /\
    In (1%nat, EvCli "ret_enq" [1]) (Conc.trace c) /\
    ~ In (2%nat, EvCli "ret_deq" [1; 5]) (Conc.trace c).
Proof. exact empty_false_at_return_refuted. Qed.
Print Assumptions C07_empty_false_at_return_refuted.

Theorem C07_size_below_zero_refuted :
  exists ths sched c,
    c = fst (Conc.run 13 0 sched (init_cfg (mkQ 2 true) 4 ths)) /\
    Conc.reach (init_cfg (mkQ 2 true) 4 ths) c /\
    ends_with (Conc.trace c) (2%nat, EvCli "ret_size" [2 ^ 64 - 1]) /\
    posE (Conc.shared c) - posD (Conc.shared c) = 0.
Proof. exact size_below_zero_refuted. Qed.
Print Assumptions C07_size_below_zero_refuted.

Theorem C07_size_above_capacity_refuted :
  exists ths sched c,
    c = fst (Conc.run 23 0 sched (init_cfg (mkQ 2 true) 4 ths)) /\
    Conc.reach (init_cfg (mkQ 2 true) 4 ths) c /\
    ends_with (Conc.trace c) (2%nat, EvCli "ret_size" [3]) /\
    qcap (mkQ 2 true) = 2 /\
    posE (Conc.shared c) - posD (Conc.shared c) = 2.
Proof. exact size_above_capacity_refuted. Qed.
Print Assumptions C07_size_above_capacity_refuted.

(** empty(), during-the-call form, for every schedule: every answer of empty() is justified by an instant inside
    the call.  [alen tra] = #successful CAS on m_posEnqueue - #successful CAS on m_posDequeue in the prefix [tra]
    of the trace = length of the abstract queue (items whose enqueue passed its CAS and whose dequeue has not:
    published items and items of enqueuers stalled before the publish) at that instant; [in_call t trb]: thread t
    produced no client event in [trb], i.e. [tra] lies between the call's inv_empty and its ret_empty.
      b = 1 (true):  the queue was empty at that instant;  b = 0 (false): it held at least one item. *)
Theorem C07_empty_observer :
  forall (k : nat) (q : qcfg) (fuel : nat) (ths : list (list op)) (sc : option nat) (mp : bool) c,
    (1 <= k)%nat -> qcap q = 2 ^ Z.of_nat k -> programs_allowed sc mp ths ->
    Conc.reach (init_cfg q fuel ths) c -> claims_bound k (Conc.trace c) ->
    forall tr1 t b tr2, Conc.trace c = tr1 ++ (t, EvCli "ret_empty" [b]) :: tr2 ->
      exists tra trb, tr1 = tra ++ trb /\ in_call t trb /\ (b = 1 -> alen tra = 0) /\ (b = 0 -> 0 < alen tra).
Proof. intros k q fuel ths sc mp c. exact (empty_observer k q fuel ths sc mp c). Qed.
Print Assumptions C07_empty_observer.

(** [alen] of the trace of a reachable configuration is posEnq - posDeq and the length of the abstract queue of a
    valid LP-annotated trace of the history (the linearization of Properties_C07) *)
Theorem C07_alen_is_abstract_length :
  forall (k : nat) (q : qcfg) (fuel : nat) (ths : list (list op)) (sc : option nat) (mp : bool) c,
    (1 <= k)%nat -> qcap q = 2 ^ Z.of_nat k -> programs_allowed sc mp ths ->
    Conc.reach (init_cfg q fuel ths) c -> claims_bound k (Conc.trace c) ->
    alen (Conc.trace c) = posE (Conc.shared c) - posD (Conc.shared c) /\
    exists (atr : list (aev (VQ (2 ^ k)))) qs S,
      @lp_run (VQ (2 ^ k)) lp_init atr = Some (qs, S) /\ erase atr = hist (2 ^ k) (Conc.trace c) /\
      alen (Conc.trace c) = Z.of_nat (Datatypes.length qs).
Proof. intros k q fuel ths sc mp c. exact (alen_reach k q fuel ths sc mp c). Qed.
Print Assumptions C07_alen_is_abstract_length.

(** non-vacuity: in the witness configuration (empty() answered false while posDeq = posEnq) the instant is the
    trace prefix of length 21 (just before the dequeuer's CAS), where the abstract queue had one item *)
Example C07_empty_observer_nonvacuous :
  let tr := Conc.trace wit_empty_cfg in
  tr = removelast tr ++ [(0%nat, EvCli "ret_empty" [0])] /\
  alen (firstn 21 tr) = 1 /\ alen (removelast tr) = 0 /\
  in_call 0 (skipn 21 (removelast tr)).
Proof.
  cbv zeta. split; [vm_compute; reflexivity|]. split; [vm_compute; reflexivity|]. split; [vm_compute; reflexivity|].
  intros e H. vm_compute in H. repeat (destruct H as [H|H]; [inversion H; reflexivity|]). destruct H.
Qed.

(** ** empty() as an operation of the specification: hindsight insertion of its linearization points.

    [VQE cap] (LV.Proofs.VyukovEmptyLin): the bounded FIFO [VQ cap] with the read-only operation [EEmpty], answer
    [RBool (queue = [])].  [histE capn tr] (LV.Proofs.VyukovEmptyLinHist): the history of Properties_C07 plus the
    inv_empty / ret_empty [b] events as invocations / responses of [EEmpty].

    What is established
      C07_empty_insert_observers   abstract, for every LP-annotated trace [u] over [VQE cap] in which the empty()
                               calls carry no linearization point ([prun]: the response to a pending [EEmpty] is
                               accepted unchecked): if every such response is justified by an instant inside its call
                               at which the abstract queue is empty iff the answer is true ([observed]), then
                               linearization points can be inserted (retroactively, possibly in the middle of another
                               thread's operation) so that the trace is [lp_valid]; hence [erase u] is linearizable.
      C07_empty_linearizable_from_merged   for every schedule: [linearizable (VQE 2^k) (histE 2^k (trace c))] follows
                               from C07_empty_observer (used in the proof) PROVIDED the trace has a merged annotated
                               trace ([merged_trace_statement]): an interleaving [m] of the trace with the linearization
                               points of enqueue / dequeue / front / pop_front that replays and at every instant [tra]
                               of which the abstract queue has length [alen tra].
      C07_empty_linearizable_witness   the history of the helping witness of C07_empty_false_at_return_refuted
                               (empty() answers false, queue empty at the return) IS linearizable w.r.t. [VQE 2].
    What is open: [merged_trace_statement].  C07_alen_is_abstract_length gives, for each reachable configuration
    separately, SOME annotated trace whose abstract queue has length [alen]; the annotated traces of the configurations
    along one execution are prefixes of each other by construction (VyukovLin only appends), but the proof rule
    [Conc.safe] quantifies the auxiliary state existentially per configuration and the parameter [Ext] of
    LV.Proofs.VyukovCore sees neither the shared state nor [alen] ([Ext_acc] is generic in the access), so this
    coherence cannot be stated inside the existing instance.  It needs [Ext_acc] of VyukovCore restricted to accesses
    for which |abstract queue| = alen (trace) is re-established (the fact [ri_len] + [alen_now] known at that point). *)
From LV Require Import Proofs.LinProofs Proofs.VyukovEmptyLin Proofs.VyukovEmptyLinHist.

Theorem C07_empty_insert_observers :
  forall (cap : nat) (u : list (aev (VQE cap))) c,
    prun cap lp_init u = Some c -> observed cap u ->
    (exists u', lp_valid (VQE cap) u' /\ erase u' = erase u) /\ linearizable (VQE cap) (erase u).
Proof.
  intros cap u c R H. split; [exact (insert_observers cap u c R H)|exact (observed_linearizable cap u c R H)].
Qed.
Print Assumptions C07_empty_insert_observers.

(** non-vacuity (helping): T0 calls empty(); T1 enqueues 5 and returns; T2's dequeue is linearized; T0's empty()
    returns false.  The trace replays with [prun], is [observed] (instant: after T1's linearization point), and is
    NOT valid as it stands (no linearization point for empty()) *)
Definition C07_ex_u : list (aev (VQE 2)) :=
  [@AInv (VQE 2) 0 EEmpty; @AInv (VQE 2) 1 (EV (VEnq 5)); @ALin (VQE 2) 1; @ARes (VQE 2) 1 (RBool true);
   @AInv (VQE 2) 2 (EV VDeq); @ALin (VQE 2) 2; @ARes (VQE 2) 0 (RBool false)].

Example C07_empty_insert_observers_nonvacuous :
  (exists c, prun 2 lp_init C07_ex_u = Some c) /\ observed 2 C07_ex_u /\ ~ lp_valid (VQE 2) C07_ex_u.
Proof.
  split; [eexists; vm_compute; reflexivity|]. split.
  - intros u1 t r u2 c1 E R P. unfold C07_ex_u in E.
    do 3 (destruct u1 as [|? u1]; cbn [app] in E; [discriminate E|injection E as ? E; subst]).
    destruct u1 as [|? u1]; cbn [app] in E.
    { injection E as ? ? ?; subst. vm_compute in R. inversion R; subst c1. vm_compute in P. discriminate P. }
    injection E as ? E; subst.
    do 2 (destruct u1 as [|? u1]; cbn [app] in E; [discriminate E|injection E as ? E; subst]).
    destruct u1 as [|? u1]; cbn [app] in E.
    { injection E as ? ? ?; subst.
      exists [@AInv (VQE 2) 0 EEmpty; @AInv (VQE 2) 1 (EV (VEnq 5)); @ALin (VQE 2) 1],
             [@ARes (VQE 2) 1 (RBool true); @AInv (VQE 2) 2 (EV VDeq); @ALin (VQE 2) 2].
      eexists. split; [reflexivity|]. split; [|split; [vm_compute; reflexivity|reflexivity]].
      intros e He. cbn in He. repeat (destruct He as [<-|He]; [cbn; try exact I; discriminate|]). destruct He. }
    injection E as ? E; subst. destruct u1; discriminate E.
  - intros (c & H). vm_compute in H. discriminate H.
Qed.

(** every schedule, conditional on the merged annotated trace; C07_empty_observer is used inside *)
Theorem C07_empty_linearizable_from_merged :
  (forall (k : nat) (q : qcfg) (fuel : nat) (ths : list (list op)) (sc : option nat) (mp : bool) c,
     (1 <= k)%nat -> qcap q = 2 ^ Z.of_nat k -> programs_allowed sc mp ths ->
     Conc.reach (init_cfg q fuel ths) c -> claims_bound k (Conc.trace c) ->
     exists m, tr_of m = Conc.trace c /\ merged_ok (2 ^ k) m) ->
  forall (k : nat) (q : qcfg) (fuel : nat) (ths : list (list op)) (sc : option nat) (mp : bool) c,
    (1 <= k)%nat -> qcap q = 2 ^ Z.of_nat k -> programs_allowed sc mp ths ->
    Conc.reach (init_cfg q fuel ths) c -> claims_bound k (Conc.trace c) ->
    linearizable (VQE (2 ^ k)) (histE (2 ^ k) (Conc.trace c)).
Proof. exact empty_linearizable_from_merged. Qed.
Print Assumptions C07_empty_linearizable_from_merged.

(** per trace: a merged annotated trace + the conclusion of C07_empty_observer give linearizability *)
Theorem C07_merged_linearizable :
  forall (capn : nat) (m : list mit),
    merged_ok capn m -> observer_holds (tr_of m) -> linearizable (VQE capn) (histE capn (tr_of m)).
Proof. exact merged_linearizable. Qed.
Print Assumptions C07_merged_linearizable.

(** the helping witness (empty() = false with an empty queue at the return) is linearizable with empty() literally *)
Example C07_empty_linearizable_witness :
  linearizable (VQE 2) (histE 2 (Conc.trace wit_empty_cfg)) /\
  In (@HRes (VQE 2) 0 (RBool false)) (histE 2 (Conc.trace wit_empty_cfg)).
Proof. split; [apply lincheck_sound; vm_compute; reflexivity|vm_compute; tauto]. Qed.
