(** Property C05 — placeholder while the proofs are being written: model sanity only. *)
From Coq Require Import ZArith List String.
From LV Require Import Base.Conc Base.Events Model.RcuGp Model.RcuBuf.
Import ListNotations.
Local Open Scope string_scope.

Example C05_model_runs :
  let r := RcuBuf.run_case [2; 3000; 1; 0; 40]%Z [[[1]; [3]; [9]; [4]]; [[1]; [6; 1]; [6; 2]; [6; 3]; [10; 4; 5]; [5]]]%Z
             [0;0;0;0;0;0;0;0;1;1;1;1;1;1;1;1;1;1;1;1;1;1;1;1;1;1;1;0;0;1;1;1;1;1;1;1]%nat 5000 in
  snd r = true /\ List.length (filter (is_cli "dispose") (map snd (fst r))) = 5%nat.
Proof. vm_compute. split; reflexivity. Qed.
