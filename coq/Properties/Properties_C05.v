(** Property C05 — RCU disposes every retired object exactly once, no later than the destruction of the singleton.
    Only statements here; proofs live in LV.Proofs.RcuBuf*.

    Scope: the model LV.Model.RcuBuf of cds::urcu::general_buffered (cds/urcu/details/gpb.h: retire_ptr, batch_retire,
    push_buffer, synchronize, clear_buffer incl. the re-push of later-epoch entries and its recursion, the overflow
    path, Destruct) over an abstract bounded FIFO, tied to the code by checks/C05.py; every schedule ([Conc.reach]),
    any number of threads, any client programs, any buffer capacity (incl. 1: the constructor allocates at least two
    cells since commit be2e716), counting or non-counting buffer, any spin / recursion fuel.
    general_instant disposes in the caller (Properties_C04.v: every "dispose p" follows a "retire p" of the same
    thread and one synchronize).  signal_buffered (LV.Model.RcuSignal) and general_threaded (LV.Model.RcuThreaded, with
    its reclamation thread as thread n of the model and the destructor as thread n+1): theorems C05_shb_* / C05_gpt_*
    below.  These two flavours cannot run under the deterministic scheduler; their models are tied to the code by
    reading and by the real-thread exploration of checks/C05.py (per-object dispose counter), not by a step
    correspondence; the modelling assumptions (atomic signal delivery, atomic mutex/condvar hand-offs, join as a
    counter) are stated at the top of the model files.

    [nret p tr] / [ndisp p tr] = number of "retire p" / "dispose p" events in the trace; [cz p l] = occurrences of p
    in l; a thread emits "done" when it has completed its program; [full_trace n c] = the trace of the run followed
    by the disposals of Destruct (clear_buffer( max ), in FIFO order).  *)
From Coq Require Import ZArith List String.
From LV Require Import Base.Conc Base.Events Model.RcuGp Model.RcuBuf Model.RcuSignal Model.RcuThreaded Proofs.RcuGpInv Proofs.RcuBufInv
  Proofs.RcuBufSafe Proofs.RcuSignalProofs Proofs.RcuThrInv Proofs.RcuThrSafe.
Import ListNotations.
Local Open Scope string_scope.

(** rcu_dispose_at_most_once: at every instant of every execution an object has been disposed at most as often as
    it has been retired (at most once for an object retired once). *)
Theorem C05_rcu_dispose_at_most_once :
  forall flips sfuel rf cap cnt (ths : list (list RcuBuf.bop)) c,
    Conc.reach (RcuBuf.binit_cfg flips sfuel rf cap cnt ths) c ->
    forall p, ndisp p (Conc.trace c) <= nret p (Conc.trace c).
Proof. exact rcu_dispose_at_most_once_all. Qed.
Print Assumptions C05_rcu_dispose_at_most_once.

(** rcu_overflow_path_disposes: nothing stays in a thread's hands.  When all threads have completed their
    programs every retired object has been disposed or sits in the buffer; in particular an entry whose push found
    the buffer full (or that was popped with a later epoch and could not be pushed back) was disposed by the
    caller after its own synchronize. *)
Theorem C05_rcu_overflow_path_disposes :
  forall flips sfuel rf cap cnt (ths : list (list RcuBuf.bop)) c,
    Conc.reach (RcuBuf.binit_cfg flips sfuel rf cap cnt ths) c -> all_done (List.length ths) (Conc.trace c) ->
    forall p, nret p (Conc.trace c) = ndisp p (Conc.trace c) + cz p (map fst (g_buf (Conc.shared c))).
Proof. exact rcu_quiescent_conservation_all. Qed.
Print Assumptions C05_rcu_overflow_path_disposes.

(** rcu_destruct_drains: after Destruct every object has been disposed exactly as often as it was retired.
    (Destruct disposes WITHOUT a grace period: the client must not have a reader inside a section - here all
    threads have completed.) *)
Theorem C05_rcu_destruct_drains :
  forall flips sfuel rf cap cnt (ths : list (list RcuBuf.bop)) c,
    Conc.reach (RcuBuf.binit_cfg flips sfuel rf cap cnt ths) c -> all_done (List.length ths) (Conc.trace c) ->
    forall p, ndisp p (full_trace (List.length ths) c) = nret p (full_trace (List.length ths) c).
Proof. exact rcu_destruct_drains_all. Qed.
Print Assumptions C05_rcu_destruct_drains.

(** signal_buffered *)
Theorem C05_shb_dispose_at_most_once :
  forall sfuel rf kfuel cap cnt (ths : list (list RcuBuf.bop)) c,
    Conc.reach (RcuSignal.sinit_cfg sfuel rf kfuel cap cnt ths) c ->
    forall p, ndisp p (Conc.trace c) <= nret p (Conc.trace c).
Proof. exact shb_dispose_at_most_once_all. Qed.
Print Assumptions C05_shb_dispose_at_most_once.

Theorem C05_shb_destruct_drains :
  forall sfuel rf kfuel cap cnt (ths : list (list RcuBuf.bop)) c,
    Conc.reach (RcuSignal.sinit_cfg sfuel rf kfuel cap cnt ths) c -> all_done (List.length ths) (Conc.trace c) ->
    forall n p, ndisp p (full_trace n c) = nret p (full_trace n c).
Proof. exact shb_destruct_drains_all. Qed.
Print Assumptions C05_shb_destruct_drains.

(** general_threaded: at every instant an object has been disposed (by a caller on the overflow path or by the
    reclamation thread) at most as often as it was retired *)
Theorem C05_gpt_dispose_at_most_once :
  forall sfuel rounds cap cnt (ths : list (list RcuBuf.bop)) c,
    Conc.reach (RcuThreaded.tinit_cfg sfuel rounds cap cnt ths) c ->
    forall p, ndisp p (Conc.trace c) <= nret p (Conc.trace c).
Proof. exact gpt_dispose_at_most_once_all. Qed.
Print Assumptions C05_gpt_dispose_at_most_once.

(** general_threaded, Destruct: the destructor joins the clients and posts the stop task; when the reclamation thread
    has drained the buffer and left its loop ("ddone") every object has been disposed exactly as often as it was
    retired *)
Theorem C05_gpt_destruct_drains :
  forall sfuel rounds cap cnt (ths : list (list RcuBuf.bop)) c,
    Conc.reach (RcuThreaded.tinit_cfg sfuel rounds cap cnt ths) c ->
    (exists i t, at_ (Conc.trace c) i t is_ddone) ->
    forall p, ndisp p (Conc.trace c) = nret p (Conc.trace c).
Proof. exact gpt_destruct_drains_all. Qed.
Print Assumptions C05_gpt_destruct_drains.

(** non-vacuity: capacity 1 (two cells), 5 objects retired by one thread (one of them through the overflow path,
    two by batch_retire), a reader inside a section; all threads complete, every object is disposed exactly once *)
Example C05_nonvacuous :
  let r := RcuBuf.run_case [2; 3000; 1; 0; 40]%Z [[[1]; [3]; [9]; [4]]; [[1]; [6; 1]; [6; 2]; [6; 3]; [10; 4; 5]; [5]]]%Z
             [0;0;0;0;0;0;0;0;1;1;1;1;1;1;1;1;1;1;1;1;1;1;1;1;1;1;1;0;0;1;1;1;1;1;1;1]%nat 5000 in
  snd r = true /\ List.length (filter (is_cli "done") (map snd (fst r))) = 2%nat /\
  map (fun p => ndisp p (fst r)) [1; 2; 3; 4; 5]%Z = [1; 1; 1; 1; 1]%nat /\
  List.length (filter (fun e => match e with EvAcc KCas [8; 0]%Z false => true | _ => false end) (map snd (fst r))) = 1%nat.
Proof. vm_compute. repeat split; reflexivity. Qed.

(** general_threaded: two clients, capacity 2; five objects retired, the reclamation thread and the overflow path dispose
    them, the destructor stops the thread: "ddone" is reached and every object has been disposed exactly once *)
Example C05_gpt_nonvacuous :
  let r := RcuThreaded.run_case [300; 2; 0; 20]%Z [[[1]; [3]; [9]; [4]]; [[1]; [6; 1]; [6; 2]; [6; 3]; [10; 4; 5]; [5]]]%Z [] 6000 in
  snd r = true /\ List.length (filter (is_cli "ddone") (map snd (fst r))) = 1%nat /\
  map (fun p => ndisp p (fst r)) [1; 2; 3; 4; 5]%Z = [1; 1; 1; 1; 1]%nat /\
  List.length (filter (fun x => andb (Nat.eqb (fst x) 2) (is_cli "dispose" (snd x))) (fst r)) >= 1.
Proof. vm_compute. repeat split; try reflexivity. repeat constructor. Qed.
