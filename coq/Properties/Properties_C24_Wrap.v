(** Property C24, counter wrap-around — companion of Properties_C24.v.

    Properties_C24.v proves its two theorems for runs of LV.Model.Pools (the pools over the queue programs of
    LV.Model.Vyukov) that start in the constructor's state and satisfy [pool_bound] ("the position counters of the
    queue do not wrap": constructor pushes + successful enqueue claims + capacity < 2^62).  The C++ queue uses size_t
    positions that wrap modulo 2^64 and the signed difference (intptr_t)seq - (intptr_t)pos; the property quantifies
    over all histories.  Here the same conclusions are proved with NO bound on the length of the run, for a pool
    whose queue starts at ANY position s (in particular a few steps before 2^64), about the model LV.Model.PoolsWrap:
      - the same pool programs (one generic text, [C24w_same_programs]: instantiated with the checked difference it is
        LV.Model.Pools) over the wrapping queue programs of LV.Model.VyukovWrap: every size_t operation modulo 2^64,
        the signed difference computed in two's complement (what the compiled code does);
      - started in [pool_init_at c s] = the state of a pool through whose queue s items have passed and which (kinds 0
        and 2) holds the preallocated objects 1..cap at the positions s .. s+cap-1 ([pool_init_at c 0] agrees with the
        constructor's state on the cells of the ring, [C24w_init_at_0]; the theorems [..._from_constructor_state] are
        about the constructor's state [Pools.pool_init] itself).

    Hypotheses of the theorems:
      1 <= k <= 61                                          pool capacity 2^k ([pool_bound] implied k <= 61 too)
      0 <= s                                                start position
      Conc.reach (pool_cfg_at kind (2^k) s fuel ths) cf     cf is reachable by ANY sequence of thread choices; [ths] are
                                                            arbitrary client programs of allocate / deallocate-a-held-
                                                            object (any number of threads, up to and past the capacity)
      fresh (trace cf)                                      replaces [pool_bound]; cannot be dropped:
        [fresh tr]  every event of the trace is produced by a thread that has slept through fewer than 2^62
                    successful enqueue claims (CAS on m_posEnqueue) since its own previous event.
        It is prefix closed, implied by [pool_bound] ([C24w_fresh_generalises_pool_bound]), and true of every run in
        which no thread is preempted between two of its instructions for 2^62 queue operations.  Without it the code
        is NOT correct in the model (and on a real machine): a thread that loaded pos = P, is suspended, and resumes
        after exactly 2^64 further claims sees posEnqueue == P again (ABA on the 64-bit counter) and claims a cell that
        a dequeuer of position P + 2^64 - capacity may not have released yet — for a pool: the same object handed
        to two holders.  That needs 2^64 operations inside one preemption, so no witness can be computed.
    [heldby tr t]   objects returned to thread t by allocate and not yet passed by it to deallocate;
    [avail a0 tr]   the preallocated objects and every object passed to deallocate, minus those handed out by
                    allocate again or released to the heap;
    [busy tr t]     thread t is inside allocate / deallocate.
    The content of the ring is read through the stored (wrapped) m_posDequeue, and its length is the size_t
    difference m_posEnqueue - m_posDequeue of the stored positions. *)
From Coq Require Import ZArith List Bool.
From Coq Require String.
Import String.StringSyntax.
Local Open Scope string_scope.
From LV Require Import Base.Conc Base.Events Base.CInt Model.Vyukov Model.VyukovWrap Model.Pools Model.PoolsWrap
                       Proofs.VyukovArith Proofs.VyukovCore Proofs.PoolsProofs Proofs.PoolsSafe Proofs.PoolsTheorems
                       Proofs.VyukovWrapArith Proofs.VyukovWrapCore Proofs.VyukovWrapThm
                       Proofs.PoolsWrapSafe Proofs.PoolsWrapThm.
Import ListNotations.
Local Open Scope Z_scope.

Theorem C24w_pool_unique_holder :
  forall (k : nat) (kind : Z) (fuel : nat) (ths : list (list pop)) (s : Z) cf,
    (1 <= k)%nat -> (k <= 61)%nat -> 0 <= s ->
    Conc.reach (pool_cfg_at kind (2 ^ Z.of_nat k) s fuel ths) cf -> fresh (Conc.trace cf) ->
    let tr := Conc.trace cf in
    (forall t, NoDup (heldby tr t)) /\
    (forall t t' p, t <> t' -> In p (heldby tr t) -> ~ In p (heldby tr t')) /\
    (forall t p, In p (heldby tr t) ->
       ~ In p (avail (avail0 k (mkP kind (2 ^ Z.of_nat k) (length ths))) tr)).
Proof.
  intros k kind fuel ths s cf Hk Hk61 Hs Hr Hf. exact (poolw_unique_holder k Hk Hk61 kind fuel ths s cf Hs Hr Hf).
Qed.
Print Assumptions C24w_pool_unique_holder.

Theorem C24w_pool_deallocated_available_again :
  forall (k : nat) (kind : Z) (fuel : nat) (ths : list (list pop)) (s : Z) cf,
    (1 <= k)%nat -> (k <= 61)%nat -> 0 <= s ->
    Conc.reach (pool_cfg_at kind (2 ^ Z.of_nat k) s fuel ths) cf -> fresh (Conc.trace cf) ->
    let tr := Conc.trace cf in
    let g := Conc.shared cf in
    let av := avail (avail0 k (mkP kind (2 ^ Z.of_nat k) (length ths))) tr in
    NoDup av /\
    exists qs : list Z,
      NoDup qs /\
      Z.of_nat (length qs) = usub u64 (posE g) (posD g) /\
      (forall i, (i < length qs)%nat -> nth_error qs i = Some (datas g (cell k (posD g + Z.of_nat i)))) /\
      (forall p, In p qs -> In p av) /\
      (forall p, In p av -> In p qs \/ exists t, busy tr t = true) /\
      ((forall t, busy tr t = false) -> forall p, In p av <-> In p qs).
Proof.
  intros k kind fuel ths s cf Hk Hk61 Hs Hr Hf.
  exact (poolw_deallocated_available_again k Hk Hk61 kind fuel ths s cf Hs Hr Hf).
Qed.
Print Assumptions C24w_pool_deallocated_available_again.

(** the number of objects in the pool's ring exactly as the code can compute it — m_posEnqueue - m_posDequeue in
    size_t — is in [0, capacity], across any number of wraps *)
Theorem C24w_pool_occupancy :
  forall (k : nat) (kind : Z) (fuel : nat) (ths : list (list pop)) (s : Z) cf,
    (1 <= k)%nat -> (k <= 61)%nat -> 0 <= s ->
    Conc.reach (pool_cfg_at kind (2 ^ Z.of_nat k) s fuel ths) cf -> fresh (Conc.trace cf) ->
    0 <= usub u64 (posE (Conc.shared cf)) (posD (Conc.shared cf)) <= 2 ^ Z.of_nat k.
Proof.
  intros k kind fuel ths s cf Hk Hk61 Hs Hr Hf. exact (poolw_occupancy_at k Hk Hk61 kind fuel ths s cf Hs Hr Hf).
Qed.
Print Assumptions C24w_pool_occupancy.

(** the constructor's state itself (LV.Model.Pools.pool_init), wrapping programs, runs of any length *)
Theorem C24w_pool_unique_holder_from_constructor_state :
  forall (k : nat) (kind : Z) (fuel : nat) (ths : list (list pop)) cf,
    (1 <= k)%nat -> (k <= 61)%nat ->
    Conc.reach (pool_cfg_w kind (2 ^ Z.of_nat k) fuel ths) cf -> fresh (Conc.trace cf) ->
    let tr := Conc.trace cf in
    (forall t, NoDup (heldby tr t)) /\
    (forall t t' p, t <> t' -> In p (heldby tr t) -> ~ In p (heldby tr t')) /\
    (forall t p, In p (heldby tr t) ->
       ~ In p (avail (avail0 k (mkP kind (2 ^ Z.of_nat k) (length ths))) tr)).
Proof.
  intros k kind fuel ths cf Hk Hk61 Hr Hf. exact (poolw_unique_holder_ctor k Hk Hk61 kind fuel ths cf Hr Hf).
Qed.
Print Assumptions C24w_pool_unique_holder_from_constructor_state.

Theorem C24w_pool_deallocated_available_again_from_constructor_state :
  forall (k : nat) (kind : Z) (fuel : nat) (ths : list (list pop)) cf,
    (1 <= k)%nat -> (k <= 61)%nat ->
    Conc.reach (pool_cfg_w kind (2 ^ Z.of_nat k) fuel ths) cf -> fresh (Conc.trace cf) ->
    let tr := Conc.trace cf in
    let g := Conc.shared cf in
    let av := avail (avail0 k (mkP kind (2 ^ Z.of_nat k) (length ths))) tr in
    NoDup av /\
    exists qs : list Z,
      NoDup qs /\
      Z.of_nat (length qs) = usub u64 (posE g) (posD g) /\
      (forall i, (i < length qs)%nat -> nth_error qs i = Some (datas g (cell k (posD g + Z.of_nat i)))) /\
      (forall p, In p qs -> In p av) /\
      (forall p, In p av -> In p qs \/ exists t, busy tr t = true) /\
      ((forall t, busy tr t = false) -> forall p, In p av <-> In p qs).
Proof.
  intros k kind fuel ths cf Hk Hk61 Hr Hf.
  exact (poolw_deallocated_available_again_ctor k Hk Hk61 kind fuel ths cf Hr Hf).
Qed.
Print Assumptions C24w_pool_deallocated_available_again_from_constructor_state.

(** the hypothesis of Properties_C24.v implies the new one: the theorems above generalise the old ones to unbounded
    runs (for the two's complement reading of the signed difference, which agrees with the checked one whenever the
    latter is defined) *)
Theorem C24w_fresh_generalises_pool_bound :
  forall (k : nat) (kind : Z) (tr : list (nat * ev)), pool_bound k kind tr -> fresh tr.
Proof. exact pool_bound_fresh. Qed.
Print Assumptions C24w_fresh_generalises_pool_bound.

(** the generic pool programs instantiated with the checked difference are the programs of LV.Model.Pools, and the
    configuration they start from is [pool_cfg] *)
Theorem C24w_same_programs :
  forall (kind cap : Z) (fuel : nat) (ths : list (list pop)),
    (forall c t os, pool_thread_g sdif c fuel t os = pool_thread c fuel t os) /\
    pool_cfg_from_g sdif (pool_init (mkP kind cap (length ths))) kind cap fuel ths = pool_cfg kind cap fuel ths.
Proof. intros kind cap fuel ths. split; [intros c t os; apply pool_gen_is_strict|apply pool_gen_is_strict_cfg]. Qed.
Print Assumptions C24w_same_programs.

(** [pool_init_at c 0] is the constructor's state on the cells of the ring *)
Theorem C24w_init_at_0 :
  forall (c : pcfg) (i : Z), 0 <= i < pcap c ->
    posE (pool_init_at c 0) = posE (pool_init c) mod 2 ^ 64 /\ posD (pool_init_at c 0) = posD (pool_init c) /\
    seqs (pool_init_at c 0) i = seqs (pool_init c) i mod 2 ^ 64 /\ datas (pool_init_at c 0) i = datas (pool_init c) i /\
    cnt (pool_init_at c 0) = cnt (pool_init c).
Proof. exact pool_init_at_0. Qed.
Print Assumptions C24w_init_at_0.

(** ** non-vacuity: runs that cross 2^64.
    vyukov_queue_pool of capacity 2 whose queue starts three positions before the wrap: the preallocated objects 1, 2
    sit at the positions 2^64-3 and 2^64-2, m_posEnqueue = 2^64-1.  Three threads allocate past the capacity (two
    objects come from the heap) and release; the two pushes go to the positions 2^64-1 and 2^64 (m_posEnqueue wraps
    to 1), the three pops move m_posDequeue from 2^64-3 to 2^64 (stored as 0).  All hypotheses hold, every thread
    ends up holding an object, no call is in progress. *)
Example C24w_nonvacuous_vyukov_queue_pool_crossing_2_64 :
  let ths := [[PAlloc; PAlloc; PDealloc 0]; [PAlloc; PDealloc 0; PAlloc]; [PAlloc]] in
  let c0 := pool_cfg_at 0 (2 ^ Z.of_nat 1) (2 ^ 64 - 3) 100 ths in
  let cf := fst (Conc.run 2000 0 [0;1;2;0;1;2;0;0;1;1;2;2]%nat c0) in
  Conc.reach c0 cf /\ fresh (Conc.trace cf) /\
  (forall t, busy (Conc.trace cf) t = false) /\
  heldby (Conc.trace cf) 0%nat <> [] /\ heldby (Conc.trace cf) 1%nat <> [] /\ heldby (Conc.trace cf) 2%nat <> [] /\
  posE (Conc.shared c0) = 18446744073709551615 /\ posD (Conc.shared c0) = 18446744073709551613 /\
  posE (Conc.shared cf) = 1 /\ posD (Conc.shared cf) = 0 /\ nclaims (Conc.trace cf) = 2.
Proof.
  cbv zeta. split; [apply Conc.run_reach|]. split; [apply freshb_ok; vm_compute; reflexivity|].
  split.
  - intros t. destruct t as [|[|[|t]]]; vm_compute; reflexivity.
  - repeat split; try (vm_compute; discriminate); vm_compute; reflexivity.
Qed.

(** bounded_vyukov_queue_pool of capacity 2 started two positions before the wrap (m_posEnqueue is stored as 0):
    thread 0 takes both objects, its third allocate finds the pool empty (std::bad_alloc, reported as object 0), it
    releases one; thread 1 takes that one and releases it again.  The stored positions end at 2 and 1. *)
Example C24w_nonvacuous_bounded_pool_crossing_2_64 :
  let ths := [[PAlloc; PAlloc; PAlloc; PDealloc 1]; [PAlloc; PDealloc 0]] in
  let c0 := pool_cfg_at 2 (2 ^ Z.of_nat 1) (2 ^ 64 - 2) 100 ths in
  let cf := fst (Conc.run 2000 0 [0;0;0;0;0;0;0;0;0;0;0;0;0;0;0;0;0;0;0;0;0;0;0;0;0;0;0;0;0;0;1]%nat c0) in
  Conc.reach c0 cf /\ fresh (Conc.trace cf) /\
  In (0%nat, EvCli "ret_alloc" [0]) (Conc.trace cf) /\
  avail (avail0 1 (mkP 2 2 2)) (Conc.trace cf) <> [] /\
  posE (Conc.shared c0) = 0 /\ posD (Conc.shared c0) = 18446744073709551614 /\
  posE (Conc.shared cf) = 2 /\ posD (Conc.shared cf) = 1.
Proof.
  cbv zeta. split; [apply Conc.run_reach|]. split; [apply freshb_ok; vm_compute; reflexivity|].
  split; [vm_compute; tauto|]. split; [vm_compute; discriminate|]. vm_compute. repeat split; reflexivity.
Qed.
