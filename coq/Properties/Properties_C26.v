(** * Properties_C26 — the bit-reversed item counter of MSPriorityQueue (cds/details/bit_reverse_counter.h).

    Property text: "For every n, the first n slot numbers produced by the bit-reversed item counter used by
    MSPriorityQueue are a permutation of 1..n.  Decrementing returns the slot most recently produced, leaving
    the counter as it was before that increment."

    Only statements (closed by [exact <lemma>]), [Print Assumptions], and non-vacuity examples.
    Every statement is about [Gen_brc.brc_inc] / [Gen_brc.brc_dec], GENERATED from /repo by tools/cxx2v
    (unit list tools/cxx2v/units_C26.json), for cds::bitop::bit_reverse_counter<size_t> (64-bit counter).

    Bounds, explicit everywhere: [brc_max = 2^64 - 1]; [inc] is only used while the counter is < brc_max
    (beyond, [++m_nCounter] wraps), [dec] only while it is > 0; [fuel >= 64] bounds the bit loops.

    The FIRST sentence is false of the code by design (Hunt et al. scatter the fringe of the heap):
    [brc_prefix_permutation_refuted] (n = 5: slots 1,2,3,4,6).  What does hold is proved instead:
    levels are permutations, full levels give a contiguous prefix, slots are distinct, a slot's parent is
    produced first, slot(n) < 2 * 2^floor(log2 n).  The SECOND sentence holds: [brc_dec_undoes_inc].  *)

Require Import ZArith List Bool Permutation.
Require Import LV.Base.CInt LV.Proofs.C25_Bits LV.Proofs.C26_Counter LV.Proofs.C26_Trace.
Require LV.Gen.Gen_brc.
Import ListNotations.
Local Open Scope Z_scope.

(** Vocabulary (defined in Proofs/C26_Counter.v, C26_Trace.v):
    - [brc_init = mk_brc 0 0 (-1)]: the state set up by the constructor;
    - [reachable s]: [s] is obtained from [brc_init] by any sequence of [Gen_brc.brc_inc] (at counter < brc_max)
      and [Gen_brc.brc_dec] (at counter > 0) calls that return;
    - [inc_slots fuel n s]: the slots returned by [n] successive [Gen_brc.brc_inc] from [s];
    - [exec fuel ops s]: the values returned by an arbitrary list of Inc/Dec on the generated code;
    - [zseq lo n = [lo; lo+1; ...; lo+n-1]]; [rev] is the reference bit reversal of C25. *)

(** ** Closed-form invariant of every reachable state *)

Theorem brc_closed_form_invariant : forall s, reachable s ->
  let c := Gen_brc.brc_m_nCounter s in let r := Gen_brc.brc_m_nReversed s in let hb := Gen_brc.brc_m_nHighBit s in
  0 <= c <= brc_max /\
  (c = 0 -> r = 0 /\ hb = -1) /\
  (1 <= c -> hb = Z.log2 c /\ 0 <= hb < 64 /\ 2 ^ hb <= c < 2 * 2 ^ hb /\ r = 2 ^ hb + rev hb (c - 2 ^ hb)).
Proof. exact closed_form_invariant. Qed.
Print Assumptions brc_closed_form_invariant.

(** ** Second sentence: dec returns the slot most recently produced and restores the counter exactly *)

Theorem brc_dec_undoes_inc : forall s fuel,
  reachable s -> Gen_brc.brc_m_nCounter s < brc_max -> (64 <= fuel)%nat ->
  exists slot s', Gen_brc.brc_inc fuel s = Some (slot, s') /\ Gen_brc.brc_dec fuel s' = Some (slot, s) /\ reachable s'
                  /\ Gen_brc.brc_m_nCounter s' = Gen_brc.brc_m_nCounter s + 1 /\ Gen_brc.brc_m_nReversed s' = slot.
Proof. exact dec_undoes_inc. Qed.
Print Assumptions brc_dec_undoes_inc.

Theorem brc_inc_redoes_dec : forall s fuel,
  reachable s -> 0 < Gen_brc.brc_m_nCounter s -> (64 <= fuel)%nat ->
  exists slot s', Gen_brc.brc_dec fuel s = Some (slot, s') /\ Gen_brc.brc_inc fuel s' = Some (slot, s) /\ reachable s'
                  /\ Gen_brc.brc_m_nReversed s = slot.
Proof. exact inc_redoes_dec. Qed.
Print Assumptions brc_inc_redoes_dec.

(** Every interleaving of increments and decrements that never decrements an empty counter and never exceeds
    brc_max (no bound on its length): no undefined behaviour, every [dec] returns the most recent live slot
    (stack discipline [lifo_ok]), and the returned values are the closed form [outputs]. *)
Theorem brc_any_interleaving : forall fuel ops,
  (64 <= fuel)%nat -> valid ops 0 ->
  exists outs s, exec fuel ops brc_init = Some (outs, s) /\ lifo_ok ops outs [] /\ reachable s /\
                 Gen_brc.brc_m_nCounter s = Z.of_nat (final ops 0) /\ outs = outputs ops 0.
Proof. exact exec_lifo. Qed.
Print Assumptions brc_any_interleaving.

(** ** What holds of the first sentence *)

Theorem brc_level_permutation : forall fuel n, (64 <= fuel)%nat -> Z.of_nat n <= brc_max ->
  exists l s, inc_slots fuel n brc_init = Some (l, s) /\ length l = n /\ reachable s /\
              Gen_brc.brc_m_nCounter s = Z.of_nat n /\
    forall k : nat, (2 ^ (k + 1) - 1 <= n)%nat ->
      Permutation (firstn (2 ^ k) (skipn (2 ^ k - 1) l)) (zseq (2 ^ Z.of_nat k) (2 ^ k)).
Proof. exact level_permutation. Qed.
Print Assumptions brc_level_permutation.

Theorem brc_full_levels_prefix : forall fuel n, (64 <= fuel)%nat -> Z.of_nat n <= brc_max ->
  exists l s, inc_slots fuel n brc_init = Some (l, s) /\ length l = n /\ reachable s /\
              Gen_brc.brc_m_nCounter s = Z.of_nat n /\
    forall k : nat, n = (2 ^ k - 1)%nat -> Permutation l (zseq 1 n).
Proof. exact full_levels_prefix. Qed.
Print Assumptions brc_full_levels_prefix.

Theorem brc_slots_distinct : forall fuel n, (64 <= fuel)%nat -> Z.of_nat n <= brc_max ->
  exists l s, inc_slots fuel n brc_init = Some (l, s) /\ length l = n /\ reachable s /\
              Gen_brc.brc_m_nCounter s = Z.of_nat n /\ NoDup l.
Proof. exact slots_distinct. Qed.
Print Assumptions brc_slots_distinct.

Theorem brc_parent_allocated_first : forall fuel n, (64 <= fuel)%nat -> Z.of_nat n <= brc_max ->
  exists l s, inc_slots fuel n brc_init = Some (l, s) /\ length l = n /\ reachable s /\
              Gen_brc.brc_m_nCounter s = Z.of_nat n /\
    forall i, (1 <= i < n)%nat -> exists j, (j < i)%nat /\ nth j l 0 = nth i l 0 / 2.
Proof. exact parent_allocated_first. Qed.
Print Assumptions brc_parent_allocated_first.

Theorem brc_slot_below_ceil2 : forall fuel n, (64 <= fuel)%nat -> Z.of_nat n <= brc_max ->
  exists l s, inc_slots fuel n brc_init = Some (l, s) /\ length l = n /\ reachable s /\
              Gen_brc.brc_m_nCounter s = Z.of_nat n /\
    forall i, (i < n)%nat -> 2 ^ Z.log2 (Z.of_nat (S i)) <= nth i l 0 < 2 * 2 ^ Z.log2 (Z.of_nat (S i)).
Proof. exact slot_below_ceil2. Qed.
Print Assumptions brc_slot_below_ceil2.

(** The slot handed out by [inc] depends only on the current count, whatever the history of incs and decs. *)
Theorem brc_slot_function_of_count : forall s fuel,
  reachable s -> Gen_brc.brc_m_nCounter s < brc_max -> (64 <= fuel)%nat ->
  exists s', Gen_brc.brc_inc fuel s = Some (slot_of (Gen_brc.brc_m_nCounter s + 1), s').
Proof. exact slot_function_of_count. Qed.
Print Assumptions brc_slot_function_of_count.

(** ** The first sentence as stated, and its refutation (KNOWN FINDING brc-prefix-not-contiguous) *)

Definition brc_prefix_permutation_statement : Prop :=
  forall fuel n l s, (64 <= fuel)%nat -> Z.of_nat n <= brc_max ->
    inc_slots fuel n brc_init = Some (l, s) -> Permutation l (zseq 1 n).

Theorem brc_prefix_permutation_refuted :
  exists n l s, inc_slots 64 n brc_init = Some (l, s) /\ l = [1; 2; 3; 4; 6] /\ n = 5%nat /\
                ~ Permutation l (zseq 1 n).
Proof. exact prefix_permutation_refuted. Qed.
Print Assumptions brc_prefix_permutation_refuted.

Theorem brc_prefix_permutation_statement_false : ~ brc_prefix_permutation_statement.
Proof. exact prefix_permutation_statement_false. Qed.
Print Assumptions brc_prefix_permutation_statement_false.

(** [brc_prefix_permutation_partial]: the part of the first sentence that is true — the prefix is contiguous
    exactly at full levels (n = 2^k - 1), and between them the fringe level is a sub-permutation of its own
    level ([brc_level_permutation], [brc_slots_distinct]).  Missing w.r.t. the statement: contiguity of the
    prefix for n that is not of the form 2^k - 1; it does not hold of the code. *)
Theorem brc_prefix_permutation_partial : forall fuel (k : nat), (64 <= fuel)%nat -> (k <= 64)%nat ->
  exists l s, inc_slots fuel (2 ^ k - 1) brc_init = Some (l, s) /\ Permutation l (zseq 1 (2 ^ k - 1)).
Proof. exact prefix_permutation_partial. Qed.
Print Assumptions brc_prefix_permutation_partial.

(** ** Non-vacuity *)

Example brc_first_slots_concrete :
  inc_slots 64 12 brc_init = Some ([1; 2; 3; 4; 6; 5; 7; 8; 12; 10; 14; 9], Gen_brc.mk_brc 12 9 3).
Proof. vm_compute. reflexivity. Qed.

Example brc_interleaving_concrete :
  valid [Inc; Inc; Inc; Dec; Inc; Inc; Inc; Dec; Dec; Inc] 0 /\
  exec 64 [Inc; Inc; Inc; Dec; Inc; Inc; Inc; Dec; Dec; Inc] brc_init
    = Some ([1; 2; 3; 3; 3; 4; 6; 6; 4; 4], Gen_brc.mk_brc 4 4 2).
Proof. split; [vm_compute; repeat split; discriminate || exact I|vm_compute; reflexivity]. Qed.

(** A reachable state far from the origin, at a level boundary and inside the last level: the hypotheses of
    [brc_dec_undoes_inc] are satisfiable there and the generated code evaluates without UB. *)
Example brc_high_counts_concrete :
  reachable (st (2 ^ 63 - 1)) /\ Gen_brc.brc_m_nCounter (st (2 ^ 63 - 1)) < brc_max /\
  Gen_brc.brc_inc 64 (st (2 ^ 63 - 1)) = Some (2 ^ 63, Gen_brc.mk_brc (2 ^ 63) (2 ^ 63) 63) /\
  Gen_brc.brc_dec 64 (Gen_brc.mk_brc (2 ^ 63) (2 ^ 63) 63) = Some (2 ^ 63, st (2 ^ 63 - 1)) /\
  Gen_brc.brc_inc 64 (st (brc_max - 1)) = Some (brc_max, Gen_brc.mk_brc brc_max brc_max 63).
Proof.
  split; [apply reachable_st; unfold brc_max; vm_compute; split; discriminate|].
  vm_compute. repeat split; reflexivity.
Qed.

(** Outside the stated bounds the code does misbehave, so the bounds are not decorative: incrementing at
    brc_max wraps the counter to 0 while [high_bit] becomes 64; decrementing the empty counter wraps to
    2^64-1 with [high_bit = -2]. *)
Example brc_bounds_are_needed :
  Gen_brc.brc_inc 64 (st brc_max) = Some (0, Gen_brc.mk_brc 0 0 64) /\
  Gen_brc.brc_dec 64 brc_init = Some (0, Gen_brc.mk_brc brc_max brc_max (-2)).
Proof. vm_compute. split; reflexivity. Qed.
