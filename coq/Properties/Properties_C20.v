(** placeholder, being written *)
Require Import List Arith Bool ZArith Lia.
Require Import LV.Base.Lin LV.Spec.Specs LV.Spec.ApiSpec LV.Proofs.ApiSpecLaws.
Theorem C20_placeholder : kstate (mkcfg true false false DNone) nil = nil.
Proof. exact api_placeholder. Qed.
Print Assumptions C20_placeholder.
