(** Property C20 - single-threaded API behaviour matches the reference container model.

    The reference model is the executable specification [LV.Spec.ApiSpec] ([kstep]/[krun] for sets and maps,
    [qstep]/[qrun] for queues, stacks, deques and priority queues, [segq_step] for SegmentedQueue); [checks/C20.py]
    runs its extraction and every container variant of harness/C20 on the same operation sequences and compares
    outputs line by line.  The theorems below pin down what the specification means: each is about ALL
    configurations, states and operation sequences.  Only statements here; proofs are in [LV.Proofs.ApiSpecLaws]. *)

Require Import List Arith Bool ZArith Lia Permutation.
Require Import LV.Base.Lin LV.Spec.Specs LV.Spec.ApiSpec LV.Proofs.ApiSpecLaws.
Import ListNotations.
Local Open Scope Z_scope.

(** ** update(): (true,true) exactly when it inserted, (true,false) when it updated an existing item,
    (false,false) when the key was absent and insertion was disallowed.  [upd_op true] is update with a functor,
    [upd_op false] is upsert / update without functor. *)
Theorem C20_update_result_law : forall c s functor k v allow,
  let s' := fst (kstep c s (upd_op functor k v allow)) in
  let r := ko_res (snd (kstep c s (upd_op functor k v allow))) in
  (r = KPair true true \/ r = KPair true false \/ r = KPair false false) /\
  (r = KPair true true <-> mhas k s = false /\ allow = true) /\
  (r = KPair true false <-> mhas k s = true) /\
  (r = KPair false false <-> mhas k s = false /\ allow = false) /\
  (r = KPair true true -> mfind k s' = Some v) /\
  (r = KPair true false -> mfind k s' = Some v) /\
  (r = KPair false false -> s' = s) /\
  (forall k', k' <> k -> mfind k' s' = mfind k' s).
Proof. exact update_result_law. Qed.
Print Assumptions C20_update_result_law.

(** the update functor: called iff the operation succeeded, new-item flag = "inserted", sees the stored value *)
Theorem C20_update_functor_law : forall c s k v allow,
  let out := snd (kstep c s (KUpdate k v allow)) in
  (ko_res out = KPair true true -> ko_calls out = [CUpd true k v v]) /\
  (ko_res out = KPair true false -> exists old, mfind k s = Some old /\ ko_calls out = [CUpd false k old v]) /\
  (ko_res out = KPair false false -> ko_calls out = []) /\
  (forall functor, ko_calls (snd (kstep c s (upd_op functor k v allow))) = [] \/ functor = true).
Proof. exact update_functor_law. Qed.
Print Assumptions C20_update_functor_law.

Theorem C20_insert_functor_called_iff_inserted : forall c s k v,
  let out := snd (kstep c s (KInsertF k v)) in
  let s' := fst (kstep c s (KInsertF k v)) in
  (ko_calls out = [CIns k v] <-> ko_res out = KBool true) /\
  (ko_calls out = [] <-> ko_res out = KBool false) /\
  (ko_res out = KBool true <-> mhas k s = false) /\
  (ko_res out = KBool true -> mfind k s' = Some v) /\
  (ko_res out = KBool false -> s' = s) /\
  ko_calls (snd (kstep c s (KInsert k v))) = [] /\
  ko_res (snd (kstep c s (KInsert k v))) = ko_res out /\ fst (kstep c s (KInsert k v)) = s'.
Proof. exact insert_functor_called_iff_inserted. Qed.
Print Assumptions C20_insert_functor_called_iff_inserted.

Theorem C20_erase_functor_called_iff_erased : forall c s k,
  let out := snd (kstep c s (KEraseF k)) in
  let s' := fst (kstep c s (KEraseF k)) in
  (ko_res out = KBool true <-> mhas k s = true) /\
  (ko_res out = KBool true -> exists v, mfind k s = Some v /\ ko_calls out = [CErase k v]) /\
  (ko_res out = KBool false -> ko_calls out = [] /\ s' = s) /\
  (ko_res out = KBool true \/ ko_res out = KBool false) /\
  mfind k s' = None /\
  (forall k', k' <> k -> mfind k' s' = mfind k' s) /\
  ko_res (snd (kstep c s (KErase k))) = ko_res out /\ fst (kstep c s (KErase k)) = s' /\
  ko_calls (snd (kstep c s (KErase k))) = [].
Proof. exact erase_functor_called_iff_erased. Qed.
Print Assumptions C20_erase_functor_called_iff_erased.

Theorem C20_find_functor_called_iff_found : forall c s k,
  let out := snd (kstep c s (KFindF k)) in
  fst (kstep c s (KFindF k)) = s /\
  (ko_res out = KBool true <-> mhas k s = true) /\
  (ko_res out = KBool true -> exists v, mfind k s = Some v /\ ko_calls out = [CFind k v]) /\
  (ko_res out = KBool false -> ko_calls out = []) /\
  ko_res (snd (kstep c s (KContains k))) = ko_res out /\
  ko_res (snd (kstep c s (KGet k))) = KItem (match mfind k s with Some v => Some (k, v) | None => None end).
Proof. exact find_functor_called_iff_found. Qed.
Print Assumptions C20_find_functor_called_iff_found.

(** ** size() = number of distinct keys present, after any operation sequence: [l] is ANY duplicate-free
    enumeration of the keys that are present *)
Theorem C20_size_is_cardinality : forall c ops l,
  kc_counted c = true ->
  NoDup l -> (forall k, In k l <-> mfind k (kstate c ops) <> None) ->
  ko_res (snd (kstep c (kstate c ops) KSize)) = KNat (length l).
Proof. exact size_is_cardinality. Qed.
Print Assumptions C20_size_is_cardinality.

Theorem C20_size_uncounted : forall c s, kc_counted c = false -> ko_res (snd (kstep c s KSize)) = KNat 0.
Proof. exact size_uncounted. Qed.
Print Assumptions C20_size_uncounted.

Theorem C20_empty_iff_size_zero : forall c s,
  (kc_counted c = true ->
     (ko_res (snd (kstep c s KEmpty)) = KBool true <-> ko_res (snd (kstep c s KSize)) = KNat 0)) /\
  (kc_counted c = true \/ kc_empty_by_size c = false ->
     (ko_res (snd (kstep c s KEmpty)) = KBool true <-> forall k, mfind k s = None)) /\
  (kc_counted c = false -> kc_empty_by_size c = true -> ko_res (snd (kstep c s KEmpty)) = KBool true).
Proof. exact empty_iff_size_zero. Qed.
Print Assumptions C20_empty_iff_size_zero.

Theorem C20_clear_empties : forall c s,
  let s' := fst (kstep c s KClear) in
  s' = [] /\
  (forall k, ko_res (snd (kstep c s' (KContains k))) = KBool false) /\
  ko_res (snd (kstep c s' KSize)) = KNat 0 /\
  ko_res (snd (kstep c s' KEmpty)) = KBool true /\
  ko_res (snd (kstep c s' KIter)) = KList [] /\
  ko_res (snd (kstep c s' KExtractMin)) = KItem None /\
  (forall k, ko_res (snd (kstep c s' (KExtract k))) = KItem None).
Proof. exact clear_empties. Qed.
Print Assumptions C20_clear_empties.

(** ** extract_min / extract_max *)
Theorem C20_extract_min_is_least : forall c s,
  let out := snd (kstep c s KExtractMin) in
  let s' := fst (kstep c s KExtractMin) in
  (ko_res out = KItem None <-> s = []) /\
  (forall k v, ko_res out = KItem (Some (k, v)) ->
     mfind k s = Some v /\ (forall k', mfind k' s <> None -> k <= k') /\
     mfind k s' = None /\ (forall k', k' <> k -> mfind k' s' = mfind k' s)).
Proof. exact extract_min_is_least. Qed.
Print Assumptions C20_extract_min_is_least.

Theorem C20_extract_max_is_greatest : forall c s,
  let out := snd (kstep c s KExtractMax) in
  let s' := fst (kstep c s KExtractMax) in
  (ko_res out = KItem None <-> s = []) /\
  (forall k v, ko_res out = KItem (Some (k, v)) ->
     mfind k s = Some v /\ (forall k', mfind k' s <> None -> k' <= k) /\
     mfind k s' = None /\ (forall k', k' <> k -> mfind k' s' = mfind k' s)).
Proof. exact extract_max_is_greatest. Qed.
Print Assumptions C20_extract_max_is_greatest.

Theorem C20_extract_min_order : forall c s k1 v1 k2 v2, NoDup (keys s) ->
  ko_res (snd (kstep c s KExtractMin)) = KItem (Some (k1, v1)) ->
  ko_res (snd (kstep c (fst (kstep c s KExtractMin)) KExtractMin)) = KItem (Some (k2, v2)) ->
  k1 < k2.
Proof. exact extract_min_order. Qed.
Print Assumptions C20_extract_min_order.

(** ** refinement of the set/map specification to the mathematical one: the contents after a sequence are the
    fold of the obvious operations on functions Z -> option Z, and no key is present twice *)
Theorem C20_contents_refine_math : forall c ops,
  math_chain (fun _ => None) ops (absf (kstate c ops)) /\ NoDup (keys (kstate c ops)).
Proof. exact contents_refine_math. Qed.
Print Assumptions C20_contents_refine_math.

Theorem C20_kstep_refines_math : forall c s o, math_post (absf s) o (absf (fst (kstep c s o))).
Proof. exact kstep_refines_math. Qed.
Print Assumptions C20_kstep_refines_math.

Theorem C20_kstep_agrees_with_MapSpec : forall c s k v a,
  fst (kstep c s (KInsert k v)) = fst (map_step s (MInsert k v)) /\
  ko_res (snd (kstep c s (KInsert k v))) = (match snd (map_step s (MInsert k v)) with RBool b => KBool b | _ => KUnit end) /\
  fst (kstep c s (KUpsert k v a)) = fst (map_step s (MUpdate k v a)) /\
  ko_res (snd (kstep c s (KUpsert k v a))) = (match snd (map_step s (MUpdate k v a)) with RPair x y => KPair x y | _ => KUnit end) /\
  fst (kstep c s (KErase k)) = fst (map_step s (MErase k)) /\
  ko_res (snd (kstep c s (KErase k))) = (match snd (map_step s (MErase k)) with RBool b => KBool b | _ => KUnit end) /\
  ko_res (snd (kstep c s (KContains k))) = (match snd (map_step s (MContains k)) with RBool b => KBool b | _ => KUnit end).
Proof. exact kstep_agrees_with_MapSpec. Qed.
Print Assumptions C20_kstep_agrees_with_MapSpec.

Theorem C20_iter_lists_contents : forall c s,
  fst (kstep c s KIter) = s /\
  exists l, ko_res (snd (kstep c s KIter)) = KList l /\ Permutation l s /\ ksorted l.
Proof. exact iter_lists_contents. Qed.
Print Assumptions C20_iter_lists_contents.

(** ** number of disposer calls (intrusive containers) *)
Theorem C20_disposer_count_law : forall c ops,
  (kc_disp c = DGc ->
     let (outs, fin) := krun_case c ops in sum_linked c ops outs = (sum_disp outs + fin)%nat) /\
  (kc_disp c = DManual -> kc_replace c = false ->
     let (outs, fin) := krun_case c ops in
     fin = 0%nat /\ (sum_linked c ops outs = length (kstate c ops) + sum_disp outs + sum_handed ops outs)%nat) /\
  (kc_disp c = DNone -> let (outs, fin) := krun_case c ops in sum_disp outs = 0%nat /\ fin = 0%nat) /\
  sum_held (fst (krun_case c ops)) = 0%nat.
Proof. exact disposer_count_law. Qed.
Print Assumptions C20_disposer_count_law.

Theorem C20_disposer_per_op : forall c s,
  kc_disp c = DGc -> NoDup (keys s) ->
  (forall k, ko_disp (snd (kstep c s (KErase k))) = (if mhas k s then 1 else 0)%nat) /\
  (forall k, ko_disp (snd (kstep c s (KEraseF k))) = (if mhas k s then 1 else 0)%nat) /\
  (forall k, ko_disp (snd (kstep c s (KUnlink k))) = (if mhas k s then 1 else 0)%nat) /\
  (forall k, ko_disp (snd (kstep c s (KUnlinkForeign k))) = 0%nat) /\
  (forall k, ko_disp (snd (kstep c s (KExtract k))) = (if mhas k s then 1 else 0)%nat /\ ko_held (snd (kstep c s (KExtract k))) = 0%nat) /\
  (forall k v a, ko_disp (snd (kstep c s (KUpdate k v a))) = (if mhas k s && kc_replace c then 1 else 0)%nat) /\
  (forall k v, ko_disp (snd (kstep c s (KInsert k v))) = 0%nat) /\
  ko_disp (snd (kstep c s KClear)) = length s.
Proof. exact disposer_per_op. Qed.
Print Assumptions C20_disposer_per_op.

(** ** queues, stacks, deques, priority queues *)
Theorem C20_fifo_pop_order : forall c ops s, qc_kind c = QFifo ->
  q_items s ++ qpushed c s ops = qleft c s ops ++ q_items (fst (qrun c s ops)).
Proof. exact fifo_pop_order. Qed.
Print Assumptions C20_fifo_pop_order.

Theorem C20_stack_pop_order : forall c s x mid, qc_kind c = QStack -> qc_cap c = None -> balanced mid ->
  let s1 := fst (qrun c s (APush x :: mid)) in
  qo_res (snd (qstep c s1 APop)) = QR (RVal (Some x)) /\ q_items (fst (qstep c s1 APop)) = q_items s.
Proof. exact stack_pop_order. Qed.
Print Assumptions C20_stack_pop_order.

Theorem C20_pq_pop_is_max : forall c s, qc_kind c = QPrio ->
  let l := q_items s in let l' := q_items (fst (qstep c s APop)) in
  (l = [] -> qo_res (snd (qstep c s APop)) = QR (RVal None)) /\
  (l <> [] -> exists m, qo_res (snd (qstep c s APop)) = QR (RVal (Some m)) /\
                        In m l /\ (forall x, In x l -> x <= m) /\ Permutation l (m :: l')).
Proof. exact pq_pop_is_max. Qed.
Print Assumptions C20_pq_pop_is_max.

Theorem C20_pop_empty : forall c s, q_items s = [] ->
  qo_res (snd (qstep c s APop)) = QR (RVal None) /\ q_items (fst (qstep c s APop)) = [].
Proof. exact pop_empty. Qed.
Print Assumptions C20_pop_empty.

Theorem C20_bounded_push : forall c s x cap, qc_cap c = Some cap -> (length (q_items s) <= cap)%nat ->
  (qo_res (snd (qstep c s (APush x))) = QR (RBool false) <-> length (q_items s) = cap) /\
  (qo_res (snd (qstep c s (APush x))) = QR (RBool true) <-> (length (q_items s) < cap)%nat) /\
  (qo_res (snd (qstep c s (APush x))) = QR (RBool false) -> q_items (fst (qstep c s (APush x))) = q_items s) /\
  (qo_res (snd (qstep c s (APush x))) = QR (RBool true) ->
     length (q_items (fst (qstep c s (APush x)))) = S (length (q_items s))).
Proof. exact bounded_push. Qed.
Print Assumptions C20_bounded_push.

Theorem C20_bounded_never_exceeds : forall c cap ops s, qc_cap c = Some cap ->
  (length (q_items s) <= cap)%nat -> (length (q_items (fst (qrun c s ops))) <= cap)%nat.
Proof. exact bounded_never_exceeds. Qed.
Print Assumptions C20_bounded_never_exceeds.

Theorem C20_deque_ends : forall c s x, qc_kind c = QDeque -> qc_cap c = None ->
  (let s1 := fst (qstep c s (APushFront x)) in
     qo_res (snd (qstep c s1 APop)) = QR (RVal (Some x)) /\ q_items (fst (qstep c s1 APop)) = q_items s) /\
  (let s1 := fst (qstep c s (APush x)) in
     qo_res (snd (qstep c s1 APopBack)) = QR (RVal (Some x)) /\ q_items (fst (qstep c s1 APopBack)) = q_items s) /\
  q_items (fst (qstep c s (APush x))) = fst (fifo_step (q_items s) (Enq x)) /\
  q_items (fst (qstep c s APop)) = fst (fifo_step (q_items s) Deq) /\
  q_items (fst (qstep c s (APushFront x))) = fst (stack_step (q_items s) (Push x)) /\
  q_items (fst (qstep c s APopBack)) = rev (fst (fifo_step (rev (q_items s)) Deq)).
Proof. exact deque_ends. Qed.
Print Assumptions C20_deque_ends.

Theorem C20_q_size_empty_clear : forall c s,
  (qc_counted c = true -> qo_res (snd (qstep c s ASize)) = QNat (length (q_items s))) /\
  (qc_counted c = false -> qo_res (snd (qstep c s ASize)) = QNat 0) /\
  (qc_counted c = true \/ qc_empty_by_size c = false ->
     (qo_res (snd (qstep c s AEmpty)) = QR (RBool true) <-> q_items s = [])) /\
  (qc_counted c = true ->
     (qo_res (snd (qstep c s AEmpty)) = QR (RBool true) <-> qo_res (snd (qstep c s ASize)) = QNat 0)) /\
  q_items (fst (qstep c s AClear)) = [] /\
  q_items (fst (qstep c s ASize)) = q_items s /\ q_items (fst (qstep c s AEmpty)) = q_items s.
Proof. exact q_size_empty_clear. Qed.
Print Assumptions C20_q_size_empty_clear.

Theorem C20_queue_disposer_law : forall c ops,
  let sf := fst (qrun c qinit ops) in
  let outs := fst (qrun_case c ops) in let fin := snd (qrun_case c ops) in
  let npush := length (qpushed c qinit ops) in
  (qc_disp c = QDLag -> qc_kind c <> QDeque -> (sum_qdisp outs + fin = npush)%nat) /\
  (qc_disp c = QDClear -> (sum_qdisp outs + fin + qhanded c qinit ops = npush)%nat) /\
  (qc_disp c = QDManual -> fin = 0%nat /\ (sum_qdisp outs + length (q_items sf) + qhanded c qinit ops = npush)%nat) /\
  (qc_disp c = QDTotal -> sum_qdisp outs = 0%nat /\ fin = npush) /\
  (qc_disp c = QDNone -> sum_qdisp outs = 0%nat /\ fin = 0%nat).
Proof. exact queue_disposer_law. Qed.
Print Assumptions C20_queue_disposer_law.

Theorem C20_segq_laws : forall q segs,
  (forall x, snd (segq_step q segs (SPush x)) = SOk /\
             seg_items (fst (segq_step q segs (SPush x))) = seg_items segs ++ [x]) /\
  (forall x, snd (segq_step q segs (SPop (Some x))) = SOk ->
             In x (seg_items segs) /\
             Permutation (seg_items segs) (x :: seg_items (fst (segq_step q segs (SPop (Some x)))))) /\
  (snd (segq_step q segs (SPop None)) = SOk ->
     match seg_head q segs with [] => True | (u, l) :: _ => l = [] end) /\
  snd (segq_step q segs SSize) = SNat (length (seg_items segs)) /\
  (snd (segq_step q segs SEmpty) = SBool true <-> seg_items segs = []) /\
  seg_items (fst (segq_step q segs SClear)) = [].
Proof. exact segq_laws. Qed.
Print Assumptions C20_segq_laws.

(** ** Non-vacuity: concrete runs in which the interesting branches do happen *)

Definition cfg_gc : kcfg := mkcfg true false false DGc.
Definition cfg_repl : kcfg := mkcfg true true true DGc.

(** all three update results occur, the functor log carries the new-item flag and the old value *)
Example C20_update_nonvacuous :
  map (fun o => (ko_res o, ko_calls o)) (kouts cfg_gc [KUpdate 5 1 false; KUpdate 5 2 true; KUpdate 5 3 false; KUpsert 5 4 true]) =
  [(KPair false false, []); (KPair true true, [CUpd true 5 2 2]); (KPair true false, [CUpd false 5 2 3]); (KPair true false, [])].
Proof. vm_compute. reflexivity. Qed.

(** size counts distinct keys (4 inserts of 3 distinct keys, one erase), extract_min / extract_max come out in order *)
Example C20_size_extract_nonvacuous :
  map ko_res (kouts cfg_gc [KInsert 7 1; KInsertF 3 2; KInsert 9 3; KInsert 7 4; KSize; KErase 3; KSize; KExtractMin; KExtractMax; KExtractMin; KEmpty]) =
  [KBool true; KBool true; KBool true; KBool false; KNat 3; KBool true; KNat 2; KItem (Some (7, 1)); KItem (Some (9, 3)); KItem None; KBool true].
Proof. vm_compute. reflexivity. Qed.

(** disposer: erase, replaced item, released extract, clear and the destructor; hypotheses of the law hold *)
Example C20_disposer_nonvacuous :
  let ops := [KInsert 1 1; KInsert 2 2; KInsert 3 3; KUpdate 1 4 true; KErase 2; KExtract 3; KInsert 5 5; KInsert 6 6; KClear; KInsert 8 8] in
  map ko_disp (fst (krun_case cfg_repl ops)) = [0; 0; 0; 1; 1; 1; 0; 0; 3; 0]%nat /\
  snd (krun_case cfg_repl ops) = 1%nat /\
  sum_linked cfg_repl ops (fst (krun_case cfg_repl ops)) = 7%nat /\ kc_disp cfg_repl = DGc.
Proof. vm_compute. repeat split. Qed.

(** FIFO / LIFO / priority order / bounded push *)
Example C20_queue_nonvacuous :
  map qo_res (fst (qrun_case (mkqcfg QFifo (Some 2%nat) true false QDNone) [APush 1; APush 2; APush 3; APop; APop; APop])) =
    [QR (RBool true); QR (RBool true); QR (RBool false); QR (RVal (Some 1)); QR (RVal (Some 2)); QR (RVal None)] /\
  map qo_res (fst (qrun_case (mkqcfg QStack None true false QDNone) [APush 1; APush 2; APop; APush 3; APop; APop; APop])) =
    [QR (RBool true); QR (RBool true); QR (RVal (Some 2)); QR (RBool true); QR (RVal (Some 3)); QR (RVal (Some 1)); QR (RVal None)] /\
  map qo_res (fst (qrun_case (mkqcfg QPrio None true false QDNone) [APush 2; APush 5; APush 2; APop; APop; ASize; APop])) =
    [QR (RBool true); QR (RBool true); QR (RBool true); QR (RVal (Some 5)); QR (RVal (Some 2)); QNat 1; QR (RVal (Some 2))] /\
  balanced [APush 7; ASize; APop; APush 8; APush 9; APop; APop].
Proof.
  vm_compute. repeat split.
  apply (bal_pair 7 [ASize] [APush 8; APush 9; APop; APop]).
  - apply bal_obs; [auto | constructor].
  - apply (bal_pair 8 [APush 9; APop] []); [|constructor]. apply (bal_pair 9 [] []); constructor.
Qed.

(** MSQueue-family disposer lag: the first dequeue disposes nothing, the destructor disposes the last dummy *)
Example C20_queue_lag_nonvacuous :
  let c := mkqcfg QFifo None true false QDLag in
  map qo_disp (fst (qrun_case c [APush 1; APush 2; APush 3; APop; APop; APush 4])) = [0; 0; 0; 0; 1; 0]%nat /\
  snd (qrun_case c [APush 1; APush 2; APush 3; APop; APop; APush 4]) = 3%nat.
Proof. vm_compute. split; reflexivity. Qed.

(** SegmentedQueue, quasi factor 2: items of one segment may leave in either order, not across segments *)
Example C20_segq_nonvacuous :
  segq_run_case 2 [SPush 1; SPush 2; SPush 3; SPop (Some 2); SPop (Some 3); SPop (Some 1); SPop (Some 3); SPop None] =
  [SOk; SOk; SOk; SOk; SReject [1]; SOk; SOk; SOk].
Proof. vm_compute. reflexivity. Qed.
