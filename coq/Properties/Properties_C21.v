(** Property C21 — free lists never hand out a node twice and never lose one.  (placeholder while the
    proofs are being written) *)
From Coq Require Import ZArith List String.
From LV Require Import Base.Conc Base.Events Model.FreeList.
Import ListNotations.
Local Open Scope Z_scope.

Example C21_freelist_nonvacuous :
  let r := FreeList.fl_run_case [0; 50; 3; 2; 0] [[[1];[2;0];[1]]; [[1];[2;0]]] [0;0;0;1;1;0;1;0;1;1;0;0;1]%nat 1000 in
  snd r = true.
Proof. vm_compute. reflexivity. Qed.
