(** Property C21 — FreeList, TaggedFreeList and CachedFreeList behave as a concurrent bag: a node obtained
    by get() is not returned by another get() until it has been put() back, and once all threads are
    quiescent every node that was put and not taken out can be obtained again.

    Only statements here; proofs live in LV.Proofs.FreeList*.  Vocabulary (LV.Proofs.FreeListBase/Thm):
    [init_cfg fuel k ths]   nodes 1..k on the list, thread i runs the get/put operations [fst (nth i ths)]
                            and holds the nodes [snd (nth i ths)] initially; a [put j] puts back the j-th
                            node the thread holds (client discipline: a thread puts only nodes it holds);
    [wf_init k ths]         no node is held twice initially and held nodes are not among 1..k;
    [mon_run own0 tr]       the ownership-map monitor run over a trace (the one harness/C21/main.cpp runs on
                            the real code): [ret_get n] by t requires that nobody owns n and makes t the
                            owner, [inv_put n] by t requires that t owns n; [None] = it fired;
    [quiescent tr]          every thread has as many ret_get/ret_put as inv_get/inv_put events;
    [chain next head l]     l is exactly the sequence of nodes reachable from head, null-terminated;
    [drain f c g]           the nodes obtained by up to c successive get() of a single thread from state g.
    Hypothesis of all three theorems: fewer than 2^31 - 1 threads (the 31-bit reference count cannot
    overflow into the should-be-on-freelist bit). *)
From Coq Require Import ZArith List String Lia.
From LV Require Import Base.Conc Base.Events Model.FreeList Model.FreeListTagged Proofs.FreeListBase Proofs.FreeListThm
  Proofs.FreeListTaggedSafe Proofs.FreeListTaggedThm Model.FreeListCached Proofs.FreeListCachedTaggedThm Proofs.FreeListCachedFLThm
  Proofs.FreeListCachedDrain Proofs.FreeListCachedDrainThm.
Import ListNotations.
Local Open Scope Z_scope.
Local Open Scope string_scope.

(** cds::intrusive::FreeList, for EVERY schedule, any number of threads, nodes and operations: the
    ownership monitor never fires, i.e. get() never returns a node that some thread still holds. *)
Theorem C21_freelist_no_double_get :
  forall (fuel k : nat) (ths : list (list op * list nat)) c,
    wf_init k ths -> Z.of_nat (List.length ths) + 1 < FLAG ->
    Conc.reach (init_cfg fuel k ths) c ->
    exists own, mon_run (own_init ths) (Conc.trace c) = Some own.
Proof. intros fuel k ths c Hwf HN. exact (freelist_no_double_get fuel k ths Hwf HN c). Qed.
Print Assumptions C21_freelist_no_double_get.

(** at every reachable configuration: every node is held by exactly one thread ([own n = Some t]) or
    logically on the list ([own n = None]); the nodes reachable from m_Head form a null-terminated,
    duplicate-free list of existing nodes that nobody holds; and a node nobody holds is on that list unless
    some thread is inside an operation (a get that has taken it but not returned, or a put / re-add in
    flight). *)
Theorem C21_freelist_unique_holder :
  forall (fuel k : nat) (ths : list (list op * list nat)) c,
    wf_init k ths -> Z.of_nat (List.length ths) + 1 < FLAG ->
    Conc.reach (init_cfg fuel k ths) c ->
    exists own l,
      mon_run (own_init ths) (Conc.trace c) = Some own /\
      chain (next (Conc.shared c)) (head (Conc.shared c)) l /\ NoDup l /\
      (forall n, In n l -> valid_init k ths n = true /\ own n = None) /\
      (forall n, valid_init k ths n = true -> own n = None ->
                 In n l \/ exists t, opens t (Conc.trace c) <> 0).
Proof. intros fuel k ths c Hwf HN. exact (freelist_unique_holder fuel k ths Hwf HN c). Qed.
Print Assumptions C21_freelist_unique_holder.

(** in every quiescent reachable configuration the nodes reachable from m_Head are exactly the existing
    nodes that nobody holds (put minus taken), each with reference word 1, and a single thread calling
    get() repeatedly obtains exactly those nodes and then nullptr. *)
Theorem C21_freelist_no_loss :
  forall (fuel k : nat) (ths : list (list op * list nat)) c,
    wf_init k ths -> Z.of_nat (List.length ths) + 1 < FLAG ->
    Conc.reach (init_cfg fuel k ths) c -> quiescent (Conc.trace c) ->
    exists own l,
      mon_run (own_init ths) (Conc.trace c) = Some own /\
      seq_ok (Conc.shared c) l /\
      (forall n, In n l <-> valid_init k ths n = true /\ own n = None) /\
      (forall f cn, (List.length l < cn)%nat -> drain (S f) cn (Conc.shared c) = l).
Proof. intros fuel k ths c Hwf HN. exact (freelist_no_loss fuel k ths Hwf HN c). Qed.
Print Assumptions C21_freelist_no_loss.

(** non-vacuity: the hypotheses hold of a concrete instance (2 nodes on the list, thread 0 holds node 3)
    and a concrete 2-thread run ends quiescent after the re-add race was taken: thread 1 stalls between its
    refs CAS and its head CAS on node 2 while thread 0 takes node 2 and puts node 3; later the
    should-be-on-freelist path (a store to next = add_knowing_refcount_is_zero) is executed *)
Example C21_freelist_nonvacuous :
  let ths := [([OGet; OPut 0; OGet], [3%nat]); ([OGet; OPut 0], [])] in
  wf_init 2 ths /\ Z.of_nat (List.length ths) + 1 < FLAG /\
  let r := Conc.run 1000 0 [0;0;0;1;1;0;1;0;1;1;0;0;1]%nat (init_cfg 50 2 ths) in
  snd r = true /\
  forallb (fun t => Z.eqb (opens t (Conc.trace (fst r))) 0) [0;1]%nat = true /\
  List.length (filter (is_cli "ret_get") (map snd (Conc.trace (fst r)))) = 3%nat /\
  existsb (fun e => match snd e with EvAcc KSt _ _ => true | _ => false end) (Conc.trace (fst r)) = true /\
  drain 5 5 (Conc.shared (fst r)) = [1%nat].
Proof.
  split; [|split; [reflexivity|]].
  - split.
    + cbn. repeat constructor; cbn; intuition discriminate.
    + cbn. intros n [<-|[]]. lia.
  - vm_compute. repeat split; reflexivity.
Qed.

(** ** cds::intrusive::TaggedFreeList (double-width {ptr,tag} CAS).
    Hypothesis, stated: the tag does not wrap — [nowrap k tr]: k + (number of successful CASes on m_Head in
    the trace) < 2^64 (the tag starts at k after the k set-up puts and is incremented, modulo 2^64 in the
    model, by every successful push and pop). *)
Theorem C21_tagged_no_double_get :
  forall (fuel k : nat) (ths : list (list op * list nat)) c,
    wf_init k ths ->
    Conc.reach (tinit_cfg fuel k ths) c -> nowrap k (Conc.trace c) ->
    exists own, mon_run (own_init ths) (Conc.trace c) = Some own.
Proof. intros fuel k ths c Hwf. exact (tagged_no_double_get fuel k ths Hwf c). Qed.
Print Assumptions C21_tagged_no_double_get.

Theorem C21_tagged_unique_holder :
  forall (fuel k : nat) (ths : list (list op * list nat)) c,
    wf_init k ths ->
    Conc.reach (tinit_cfg fuel k ths) c -> nowrap k (Conc.trace c) ->
    exists own l,
      mon_run (own_init ths) (Conc.trace c) = Some own /\
      chain (tnext (Conc.shared c)) (thead (Conc.shared c)) l /\ NoDup l /\
      (forall n, In n l -> valid_init k ths n = true /\ own n = None) /\
      (forall n, valid_init k ths n = true -> own n = None ->
                 In n l \/ exists t, opens t (Conc.trace c) <> 0).
Proof. intros fuel k ths c Hwf. exact (tagged_unique_holder fuel k ths Hwf c). Qed.
Print Assumptions C21_tagged_unique_holder.

Theorem C21_tagged_no_loss :
  forall (fuel k : nat) (ths : list (list op * list nat)) c,
    wf_init k ths ->
    Conc.reach (tinit_cfg fuel k ths) c -> nowrap k (Conc.trace c) -> quiescent (Conc.trace c) ->
    exists own l,
      mon_run (own_init ths) (Conc.trace c) = Some own /\
      tseq_ok (Conc.shared c) l /\
      (forall n, In n l <-> valid_init k ths n = true /\ own n = None) /\
      (forall f cn, (List.length l < cn)%nat -> tdrain (S f) cn (Conc.shared c) = l).
Proof. intros fuel k ths c Hwf. exact (tagged_no_loss fuel k ths Hwf c). Qed.
Print Assumptions C21_tagged_no_loss.

(** non-vacuity: the ABA schedule (thread 0 stalls between its next load and its CAS while thread 1 pops
    both nodes and pushes the first one back) ends quiescent, the tag has not wrapped, thread 0's CAS failed
    (the tag had moved on) *)
Example C21_tagged_nonvacuous :
  let ths := [([OGet], []); ([OGet; OGet; OPut 0], [])] in
  wf_init 2 ths /\
  let r := Conc.run 1000 0 ([0;0;0]%nat ++ repeat 1%nat 15 ++ repeat 0%nat 9)%list (tinit_cfg 50 2 ths) in
  snd r = true /\ nowrap 2 (Conc.trace (fst r)) /\
  forallb (fun t => Z.eqb (opens t (Conc.trace (fst r))) 0) [0;1]%nat = true /\
  existsb (fun e => match e with (0%nat, EvAcc KCas _ false) => true | _ => false end) (Conc.trace (fst r)) = true /\
  List.length (filter (is_cli "ret_get") (map snd (Conc.trace (fst r)))) = 3%nat.
Proof.
  split.
  - split; [cbn; constructor|cbn; intros n []].
  - vm_compute. repeat split; reflexivity.
Qed.

(** ** cds::intrusive::CachedFreeList<FreeList, 4> and CachedFreeList<TaggedFreeList, 4>.
    [cinit_cfg G0 put0 get0 init0 fuel k ths]: thread i runs [fst (fst (nth i ths))], holds
    [snd (fst (nth i ths))] and uses cache slot [snd (nth i ths)] (= hash of its std::thread::id & 3);
    set-up: thread 0 put nodes 1..k (node 1 went into its cache slot, 2..k onto the backing list).
    [cwf_init]: [wf_init] + every slot is < 4. *)
Theorem C21_cached_fl_no_double_get :
  forall (fuel k : nat) (ths : list (list op * list nat * nat)) c,
    cwf_init k ths -> Z.of_nat (List.length ths + CACHE_SIZE) + 1 < FLAG ->
    Conc.reach (cinit_cfg G put get init_range fuel k ths) c ->
    exists own, mon_run (own_init (cths ths)) (Conc.trace c) = Some own.
Proof. intros fuel k ths c Hwf HN. exact (cached_fl_no_double_get fuel k ths Hwf HN c). Qed.
Print Assumptions C21_cached_fl_no_double_get.

(** backing list and cache slots are pairwise disjoint, contain only existing nodes that nobody holds, and
    every node nobody holds is in one of them unless an operation is in flight *)
Theorem C21_cached_fl_unique_holder :
  forall (fuel k : nat) (ths : list (list op * list nat * nat)) c,
    cwf_init k ths -> Z.of_nat (List.length ths + CACHE_SIZE) + 1 < FLAG ->
    Conc.reach (cinit_cfg G put get init_range fuel k ths) c ->
    let g := Conc.shared c in
    exists own l,
      mon_run (own_init (cths ths)) (Conc.trace c) = Some own /\
      chain (next (back G g)) (head (back G g)) l /\ NoDup l /\
      (forall n, In n l -> valid_init k (cths ths) n = true /\ own n = None) /\
      (forall i, (i < CACHE_SIZE)%nat -> cache G g i <> O ->
         valid_init k (cths ths) (cache G g i) = true /\ own (cache G g i) = None /\ ~ In (cache G g i) l /\
         forall j, (j < CACHE_SIZE)%nat -> cache G g j = cache G g i -> j = i) /\
      (forall n, valid_init k (cths ths) n = true -> own n = None ->
         In n l \/ (exists i, (i < CACHE_SIZE)%nat /\ cache G g i = n) \/ exists t, opens t (Conc.trace c) <> 0).
Proof. intros fuel k ths c Hwf HN. exact (cached_fl_unique_holder fuel k ths Hwf HN c). Qed.
Print Assumptions C21_cached_fl_unique_holder.

(** in every quiescent reachable configuration, backing list + cache slots hold exactly the existing nodes that
    nobody holds, and a single thread (any slot s) calling the wrapper's get() repeatedly obtains exactly those
    nodes, each once ([cdrain]: LV.Proofs.FreeListCachedDrain, sequential execution [gsolo] of [cget]) *)
Theorem C21_cached_fl_no_loss :
  forall (fuel k : nat) (ths : list (list op * list nat * nat)) c,
    cwf_init k ths -> Z.of_nat (List.length ths + CACHE_SIZE) + 1 < FLAG ->
    Conc.reach (cinit_cfg G put get init_range fuel k ths) c -> quiescent (Conc.trace c) ->
    let g := Conc.shared c in
    exists own l,
      mon_run (own_init (cths ths)) (Conc.trace c) = Some own /\
      seq_ok (back G g) l /\
      (forall n, (In n l \/ (n <> O /\ exists i, (i < CACHE_SIZE)%nat /\ cache G g i = n))
                 <-> valid_init k (cths ths) n = true /\ own n = None) /\
      forall s f cn, (s < CACHE_SIZE)%nat -> (List.length l + CACHE_SIZE < cn)%nat ->
        NoDup (cdrain G get (S f) s cn g) /\
        forall n, In n (cdrain G get (S f) s cn g) <-> valid_init k (cths ths) n = true /\ own n = None.
Proof. intros fuel k ths c Hwf HN. exact (cached_fl_no_loss_full fuel k ths Hwf HN c). Qed.
Print Assumptions C21_cached_fl_no_loss.

(** the same three for the cache in front of TaggedFreeList (hypothesis: the backing list's tag does not wrap;
    its initial value is [ctag0 k] = number of nodes the set-up pushed onto the backing list) *)
Theorem C21_cached_tagged_no_double_get :
  forall (fuel k : nat) (ths : list (list op * list nat * nat)) c,
    cwf_init k ths ->
    Conc.reach (cinit_cfg TG tput tget tinit_range fuel k ths) c -> nowrap (ctag0 k) (Conc.trace c) ->
    exists own, mon_run (own_init (cths ths)) (Conc.trace c) = Some own.
Proof. intros fuel k ths c Hwf. exact (cached_tagged_no_double_get fuel k ths Hwf c). Qed.
Print Assumptions C21_cached_tagged_no_double_get.

Theorem C21_cached_tagged_unique_holder :
  forall (fuel k : nat) (ths : list (list op * list nat * nat)) c,
    cwf_init k ths ->
    Conc.reach (cinit_cfg TG tput tget tinit_range fuel k ths) c -> nowrap (ctag0 k) (Conc.trace c) ->
    let g := Conc.shared c in
    exists own l,
      mon_run (own_init (cths ths)) (Conc.trace c) = Some own /\
      chain (tnext (back TG g)) (thead (back TG g)) l /\ NoDup l /\
      (forall n, In n l -> valid_init k (cths ths) n = true /\ own n = None) /\
      (forall i, (i < CACHE_SIZE)%nat -> cache TG g i <> O ->
         valid_init k (cths ths) (cache TG g i) = true /\ own (cache TG g i) = None /\ ~ In (cache TG g i) l /\
         forall j, (j < CACHE_SIZE)%nat -> cache TG g j = cache TG g i -> j = i) /\
      (forall n, valid_init k (cths ths) n = true -> own n = None ->
         In n l \/ (exists i, (i < CACHE_SIZE)%nat /\ cache TG g i = n) \/ exists t, opens t (Conc.trace c) <> 0).
Proof. intros fuel k ths c Hwf. exact (cached_tagged_unique_holder fuel k ths Hwf c). Qed.
Print Assumptions C21_cached_tagged_unique_holder.

Theorem C21_cached_tagged_no_loss :
  forall (fuel k : nat) (ths : list (list op * list nat * nat)) c,
    cwf_init k ths ->
    Conc.reach (cinit_cfg TG tput tget tinit_range fuel k ths) c -> nowrap (ctag0 k) (Conc.trace c) ->
    quiescent (Conc.trace c) ->
    let g := Conc.shared c in
    exists own l,
      mon_run (own_init (cths ths)) (Conc.trace c) = Some own /\
      tseq_ok (back TG g) l /\
      (forall n, (In n l \/ (n <> O /\ exists i, (i < CACHE_SIZE)%nat /\ cache TG g i = n))
                 <-> valid_init k (cths ths) n = true /\ own n = None) /\
      forall s f cn, (s < CACHE_SIZE)%nat -> (List.length l + CACHE_SIZE < cn)%nat ->
        NoDup (cdrain TG tget (S f) s cn g) /\
        forall n, In n (cdrain TG tget (S f) s cn g) <-> valid_init k (cths ths) n = true /\ own n = None.
Proof. intros fuel k ths c Hwf. exact (cached_tagged_no_loss_full fuel k ths Hwf c). Qed.
Print Assumptions C21_cached_tagged_no_loss.

(** non-vacuity: two threads sharing cache slot 1, nodes 1 and 2 held initially; the run ends quiescent with
    three successful get()s, and the sequential drain of the final state returns the node that is left *)
Example C21_cached_nonvacuous :
  let ths := [([OPut 0; OGet; OPut 0], [1%nat], 1%nat); ([OPut 0; OGet], [2%nat], 1%nat)] in
  cwf_init 0 ths /\ Z.of_nat (List.length ths + CACHE_SIZE) + 1 < FLAG /\
  let r := Conc.run 1000 0 [0;0;1;1;1;0;0;1;1;0;0;0;1;1;1;1;0;0;1;0;1]%nat (cinit_cfg G put get init_range 50 0 ths) in
  snd r = true /\
  forallb (fun t => Z.eqb (opens t (Conc.trace (fst r))) 0) [0;1]%nat = true /\
  List.length (filter (fun e => match e with EvCli "ret_get" [z] => Z.leb 0 z | _ => false end) (map snd (Conc.trace (fst r)))) = 2%nat /\
  List.length (cdrain G get 5 0 5 (Conc.shared (fst r))) = 1%nat.
Proof.
  split; [|split; [reflexivity|]].
  - split; [split|].
    + cbn. repeat constructor; cbn; intuition discriminate.
    + cbn. intros n [<-|[<-|[]]]; lia.
    + cbn. intros th [<-|[<-|[]]]; cbn; unfold CACHE_SIZE; lia.
  - vm_compute. repeat split; reflexivity.
Qed.
