(** Property C01 — Hazard Pointer SMR (cds::gc::HP, src/hp.cpp, cds/gc/hp.h).
    "Under the Hazard Pointer scheme, with either scan strategy, an object passed to retire() is never given to its
     disposer while a guard that already protected it when the reclamation pass began still protects it.  As a
     result, a guard or guarded pointer obtained from an HP-based container always refers to a live object that has
     not been disposed, until that guard is released."

    Only statements here; the proofs are in LV.Proofs.Hp*.  Model: LV.Model.Hp (one [Act] per atomic access of
    the C++ code, tied to the real code by step correspondence, checks/C01.py).  All theorems quantify over
    - every configuration [c] (hazard count H, thread limit P, retired capacity R, classic / in-place scan,
      number of client sources, loop fuel),
    - every list of client programs [ths] (any number of threads, any operations: attach, detach, protect, assign,
      clear, copy, publish/unlink+retire, retire, scan, touch; even and odd pointers),
    - every schedule: [Conc.reach] is "some sequence of thread choices leads here".

    Vocabulary (LV.Proofs.HpTrace): [slot_at tr r j] the content of hazard slot j of thread record r after the
    trace [tr] (replay of the ghost events the model emits in the same atomic step as each slot store);
    [held tr s r j p]: that slot held [p] at every step from index [s] to the end of [tr];
    [last_sb tr t]: index of the last fetch_add that opened a scan of thread [t];
    [cnt name p tr]: number of client events [name p]. *)
From Coq Require Import ZArith List String.
From LV Require Import Base.Conc Base.Events Model.Hp Proofs.HpTrace Proofs.HpInv Proofs.HpProofs.
Import ListNotations.
Local Open Scope Z_scope.
Local Open Scope string_scope.

(** First sentence.  If event number [d] of the trace is a disposer call on [p] made by thread [t], and [s] is the
    step at which the scan it belongs to began, no hazard slot of any thread record held [p] at every step from
    [s] to [d].  Both scan kinds; scans called from retire(), from HP::scan(), from help_scan and from
    detach_thread included (they are all [Hp.scan]).
    In-place scan: the client must not have retired an object twice before (see [C01_inplace_double_retire]). *)
Theorem C01_no_dispose_while_guarded :
  forall (c : cfgT) (ths : list (list op)) cf,
    Conc.reach (Hp.init_cfg c ths) cf ->
    forall d t p s,
      nth_error (Conc.trace cf) d = Some (t, ev_dispose p) ->
      last_sb (firstn d (Conc.trace cf)) t = Some s ->
      (cInplace c = true -> retire_once (firstn d (Conc.trace cf))) ->
      p <> 0 ->
      forall r j, ~ held (firstn (S d) (Conc.trace cf)) s r j p.
Proof. exact hp_no_dispose_while_guarded. Qed.
Print Assumptions C01_no_dispose_while_guarded.

(** non-vacuity: HP(2,2,8,classic).  Thread 0 publishes object 4 and protects it; thread 1 unlinks and retires it
    and scans twice; thread 0 clears its guard between the two scans.  The first scan keeps the cell (its
    [g_scan_end] event lists 4), the second one disposes it: event 61 is "dispose 4" by thread 1, in the scan
    that began at event 52, after the first scan ended at event 45. *)
Definition C01_example :=
  Hp.run_case [2;2;8;0;1;50] [[[1];[6;0;4];[3;0;0];[5;0]]; [[1];[6;0;0];[8];[8]]]
    (repeat 0%nat 10 ++ repeat 1%nat 19 ++ repeat 0%nat 4 ++ repeat 1%nat 40) 1000.

Example C01_guarded_object_survives_then_is_disposed :
  snd C01_example = true /\
  nth_error (fst C01_example) 45 = Some (1%nat, ev_scan_end 1 [4]) /\
  nth_error (fst C01_example) 61 = Some (1%nat, ev_dispose 4) /\
  last_sb (firstn 61 (fst C01_example)) 1 = Some 52%nat /\
  cnt "dispose" 4 (fst C01_example) = 1 /\ cnt "retire" 4 (fst C01_example) = 1.
Proof. vm_compute. repeat split; reflexivity. Qed.
