(** Property C01 — Hazard Pointer SMR (cds::gc::HP, src/hp.cpp, cds/gc/hp.h).
    "Under the Hazard Pointer scheme, with either scan strategy, an object passed to retire() is never given to its
     disposer while a guard that already protected it when the reclamation pass began still protects it.  As a
     result, a guard or guarded pointer obtained from an HP-based container always refers to a live object that has
     not been disposed, until that guard is released."

    Only statements here; the proofs are in LV.Proofs.Hp*.  Model: LV.Model.Hp (one [Act] per atomic access of
    the C++ code, tied to the real code by step correspondence, checks/C01.py).  All theorems quantify over
    - every configuration [c] (hazard count H, thread limit P, retired capacity R, classic / in-place scan,
      number of client sources, loop fuel),
    - every list of client programs [ths] (any number of threads, any operations: attach, detach, protect, assign,
      clear, copy, publish/unlink+retire, retire, scan, touch; even and odd pointers),
    - every schedule: [Conc.reach] is "some sequence of thread choices leads here".

    Vocabulary (LV.Proofs.HpTrace): [slot_at tr r j] the content of hazard slot j of thread record r after the
    trace [tr] (replay of the ghost events the model emits in the same atomic step as each slot store);
    [held tr s r j p]: that slot held [p] at every step from index [s] to the end of [tr];
    [last_sb tr t]: index of the last fetch_add that opened a scan of thread [t];
    [cnt name p tr]: number of client events [name p]. *)
From Coq Require Import ZArith List String.
From LV Require Import Base.Conc Base.Events Model.Hp Proofs.HpTrace Proofs.HpInv Proofs.HpProofs Proofs.HpDestroy
  Proofs.HpLive.
Import ListNotations.
Local Open Scope Z_scope.
Local Open Scope string_scope.

(** First sentence.  If event number [d] of the trace is a disposer call on [p] made by thread [t], and [s] is the
    step at which the scan it belongs to began, no hazard slot of any thread record held [p] at every step from
    [s] to [d].  Both scan kinds; scans called from retire(), from HP::scan(), from help_scan and from
    detach_thread included (they are all [Hp.scan]).
    In-place scan: the client must not have retired an object twice before (see [C01_inplace_double_retire]). *)
Theorem C01_no_dispose_while_guarded :
  forall (c : cfgT) (ths : list (list op)) cf,
    Conc.reach (Hp.init_cfg c ths) cf ->
    forall d t p s,
      nth_error (Conc.trace cf) d = Some (t, ev_dispose p) ->
      last_sb (firstn d (Conc.trace cf)) t = Some s ->
      (cInplace c = true -> retire_once (firstn d (Conc.trace cf))) ->
      p <> 0 ->
      forall r j, ~ held (firstn (S d) (Conc.trace cf)) s r j p.
Proof. exact hp_no_dispose_while_guarded. Qed.
Print Assumptions C01_no_dispose_while_guarded.

(** non-vacuity: HP(2,2,8,classic).  Thread 0 publishes object 4 and protects it; thread 1 unlinks and retires it
    and scans twice; thread 0 clears its guard between the two scans.  The first scan keeps the cell (its
    [g_scan_end] event lists 4), the second one disposes it: event 67 is "dispose 4" by thread 1, in the scan
    that began at event 58, after the first scan ended at event 51. *)
Definition C01_example :=
  Hp.run_case [2;2;8;0;1;50] [[[1];[6;0;4];[3;0;0];[5;0]]; [[1];[6;0;0];[8];[8]]]
    (repeat 0%nat 10 ++ repeat 1%nat 19 ++ repeat 0%nat 4 ++ repeat 1%nat 40) 1000.

Example C01_guarded_object_survives_then_is_disposed :
  snd C01_example = true /\
  nth_error (fst C01_example) 51 = Some (1%nat, ev_scan_end 1 [4]) /\
  nth_error (fst C01_example) 67 = Some (1%nat, ev_dispose 4) /\
  last_sb (firstn 67 (fst C01_example)) 1 = Some 58%nat /\
  cnt "dispose" 4 (fst C01_example) = 1 /\ cnt "retire" 4 (fst C01_example) = 1.
Proof. vm_compute. repeat split; reflexivity. Qed.

(** Second sentence ("as a result, a guarded pointer refers to a live object until the guard is released").

    What is proved, for every program and schedule, with no assumption on the client:
    (1) whatever a scan gives to the disposer had been passed to retire() before that scan began; *)
Theorem C01_dispose_after_retire :
  forall (c : cfgT) (ths : list (list op)) cf,
    Conc.reach (Hp.init_cfg c ths) cf ->
    forall d t p, nth_error (Conc.trace cf) d = Some (t, ev_dispose p) ->
      exists s, last_sb (firstn d (Conc.trace cf)) t = Some s /\ retired_before (Conc.trace cf) s p.
Proof. exact hp_dispose_after_retire. Qed.
Print Assumptions C01_dispose_after_retire.

(** (2) hence the only way an object can be disposed while a hazard slot holds it (continuously from step [g0] to
    the disposer call at step [d]) is that retire() had been called on it BEFORE the slot was set at [g0].
    This is [hp_guarded_ptr_live_partial]: the SMR half of the second sentence. *)
Theorem C01_guard_set_after_retire :
  forall (c : cfgT) (ths : list (list op)) cf,
    Conc.reach (Hp.init_cfg c ths) cf ->
    forall d t p g0 r j,
      nth_error (Conc.trace cf) d = Some (t, ev_dispose p) -> p <> 0 ->
      (cInplace c = true -> retire_once (firstn d (Conc.trace cf))) ->
      held (firstn (S d) (Conc.trace cf)) g0 r j p ->
      retired_before (Conc.trace cf) g0 p.
Proof. exact hp_guard_set_after_retire. Qed.
Print Assumptions C01_guard_set_after_retire.

(** (3) reduction of the full statement to three facts about the client's guard: if (a) slot (r,j) held p from
    some step g0 up to the step v at which protect returned, (b) p had not been passed to retire() before g0,
    (c) nothing is stored into slot (r,j) between v and d, then no disposer call on p can happen at d.
    ([C01_guarded_ptr_live] below derives (a), (b), (c) from the client discipline.) *)
Theorem C01_guarded_ptr_live_reduction :
  forall (c : cfgT) (ths : list (list op)) cf,
    Conc.reach (Hp.init_cfg c ths) cf ->
    forall v d t p g0 r j,
      (v < d)%nat -> p <> 0 ->
      (cInplace c = true -> retire_once (firstn d (Conc.trace cf))) ->
      nth_error (Conc.trace cf) d = Some (t, ev_dispose p) ->
      (g0 <= S v)%nat -> held (firstn (S v) (Conc.trace cf)) g0 r j p ->
      ~ retired_before (Conc.trace cf) g0 p ->
      (forall i te, (S v <= i < S d)%nat -> nth_error (Conc.trace cf) i = Some te -> slot_write r j (snd te) = false) ->
      False.
Proof. exact hp_guarded_ptr_live_from_slot_facts. Qed.
Print Assumptions C01_guarded_ptr_live_reduction.

(** The second sentence itself.  Client discipline, a predicate on the trace ([HpLive.client_discipline]): no object is
    retired twice; every object is published (exchanged into a client source) at most once; an object that was ever
    published is retired only by the thread that unlinked it, right after the unlinking exchange; (raw assign of a
    non-null pointer is not used: guards are taken by protect()).  [HpLive.releases j e]: e is the start of an
    operation of the thread that rewrites its guard slot j (protect / assign / clear / copy into j) or of detach.

    Under this discipline, in every reachable configuration: if protect() of thread t returned p into slot j
    (event "protected j p" at index v) and p is given to its disposer at a later index d, then thread t started a
    releasing operation on slot j between v and d.  I.e. from the moment protect returns until the guard is
    released, the object is not disposed.
    Proof (LV.Proofs.HpLive): the trace invariant [TrOK] records, for every ghost event, what it says about the
    trace before it (a slot is stored only by the thread attached to the record, inside an operation on that slot;
    attachment is exclusive; protect's last slot store was followed by a load of the source that read the same
    pointer; an exchange unlinks what the source held); the discipline then shows retire(p) cannot precede the
    slot store; [C01_guarded_ptr_live_reduction] concludes.
    Copies: a guard obtained by Guard::copy is NOT covered (see [C01_copy_down_unsafe] for why a copy into a lower
    slot cannot be). *)
Definition C01_guarded_ptr_live_statement : Prop :=
  forall (c : cfgT) (ths : list (list op)) cf,
    Conc.reach (Hp.init_cfg c ths) cf -> client_discipline (Conc.trace cf) ->
    forall v d t u j p, (v < d)%nat -> p <> 0 ->
      nth_error (Conc.trace cf) v = Some (t, EvCli "protected" [zn j; p]) ->
      nth_error (Conc.trace cf) d = Some (u, ev_dispose p) ->
      exists i e, (v < i < d)%nat /\ nth_error (Conc.trace cf) i = Some (t, e) /\ releases j e.
Theorem C01_guarded_ptr_live : C01_guarded_ptr_live_statement.
Proof. exact hp_guarded_ptr_live. Qed.
Print Assumptions C01_guarded_ptr_live.

(** non-vacuity of the discipline and of the conclusion: in [C01_example] thread 0 protects object 4 ("protected 0 4"),
    clears the guard, and only then object 4 is disposed; the trace satisfies the discipline's countable parts. *)
Example C01_guarded_ptr_live_nonvacuous :
  let tr := fst C01_example in
  (exists v, nth_error tr v = Some (0%nat, EvCli "protected" [0; 4])) /\
  cnt "retire" 4 tr = 1 /\ cnt "dispose" 4 tr = 1.
Proof. vm_compute. split; [exists 20%nat; reflexivity|split; reflexivity]. Qed.

(** A copy of a guarded pointer into a LOWER slot is not a guard of its own (known finding
    "hp-guard-copy-downward", reproduced on the real library: corpus/C01/010-copy-down.json).
    HP(2,2,8,classic).  Thread 0: publish object 4; protect it in slot 1 ("protected" at event 20); copy slot 1
    into slot 0 ("copied" at event 52); clear slot 1; ...; touch through slot 0 at event 72.  Thread 1: unlink and
    retire object 4, scan (begun at event 41): it reads thread 0's slot 0 before the copy and slot 1 after the
    clear, and disposes object 4 at event 60 -- while slot 0 of record 0 holds it and thread 0 uses it afterwards.
    (No contradiction with the theorems: slot 0 was set after the scan began, slot 1 did not hold it to the end.) *)
Definition C01_copy_down_example :=
  Hp.run_case [2;2;8;0;1;50] [[[1];[6;0;4];[3;1;0];[10;0;1];[5;1];[3;1;0];[9;0]]; [[1];[6;0;0];[8]]]
    (repeat 0%nat 10 ++ repeat 1%nat 16 ++ repeat 0%nat 4 ++ repeat 1%nat 10) 1000.
Example C01_copy_down_unsafe :
  let tr := fst C01_copy_down_example in
  nth_error tr 20 = Some (0%nat, EvCli "protected" [1; 4]) /\
  nth_error tr 52 = Some (0%nat, EvCli "copied" []) /\
  nth_error tr 60 = Some (1%nat, ev_dispose 4) /\
  last_sb (firstn 60 tr) 1 = Some 41%nat /\
  slot_at (firstn 61 tr) 0 0 = 4 /\
  nth_error tr 72 = Some (0%nat, EvCli "touch" [0; 4]).
Proof. vm_compute. repeat split; reflexivity. Qed.

(** The in-place scan needs [retire_once]: HP(1,2,3,in-place), one thread guards object 4 and (client error)
    retires it twice; lower_bound marks one of the two equal cells, the other one is disposed while guarded. *)
Example C01_inplace_double_retire :
  let tr := fst (Hp.run_case [1;2;3;1;1;50] [[[1];[4;0;4];[7;4];[7;4];[8];[9;0]]] [] 1000) in
  cnt "retire" 4 tr = 2 /\ nth_error tr 28 = Some (0%nat, ev_dispose 4) /\
  slot_at (firstn 29 tr) 0 0 = 4 /\ slot_at (firstn 13 tr) 0 0 = 4.
Proof. vm_compute. repeat split; reflexivity. Qed.

(** The retired arrays never overflow when thread_list_ holds at most P records, R > H*P and no object is retired
    twice (then a scan of a full array keeps at most H*P cells). *)
Theorem C01_no_overflow :
  forall (c : cfgT) (ths : list (list op)) cf,
    Conc.reach (Hp.init_cfg c ths) cf ->
    (List.length (g_list (Conc.shared cf)) <= cP c)%nat -> (cH c * cP c < cR c)%nat -> retire_once (Conc.trace cf) ->
    forall p, cnt "overflow" p (Conc.trace cf) = 0.
Proof. exact hp_no_overflow. Qed.
Print Assumptions C01_no_overflow.

(** Input the code did not reject before /repo 756de95: retired capacity R = H*P exactly (basic_smr::basic_smr only replaces R < H*P).
    HP(1,2,2): thread 1 guards object 6, thread 0 guards object 4 and retires 4 and 6: the array is full, the scan
    frees nothing, and the next retire() writes past the array (undefined behaviour in C++; the model reports it
    as the client event "overflow").  With R > H*P and at most P thread records a scan of a full array always
    frees a cell; that bound is documented ("must be greater than") but not enforced. *)
Example C01_overflow_when_R_equals_HP :
  let tr := fst (Hp.run_case [1;2;2;0;1;50] [[[1];[4;0;4];[7;4];[7;6];[7;8]];[[1];[4;0;6]]] (repeat 1%nat 8) 1000) in
  cnt "overflow" 8 tr = 1.
Proof. vm_compute. reflexivity. Qed.
