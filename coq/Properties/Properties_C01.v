(** Property C01 (placeholder while the proofs are being developed) *)
From Coq Require Import ZArith List String.
From LV Require Import Base.Conc Base.Events Model.Hp.
Import ListNotations.
Local Open Scope Z_scope.

Example C01_runs :
  snd (Hp.run_case [2;2;8;0;1;50] [[[1];[6;0;4];[3;0;0]]; [[1];[7;2];[6;0;0];[8]]] [] 1000) = true.
Proof. vm_compute. reflexivity. Qed.
