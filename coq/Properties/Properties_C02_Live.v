(** Property C02, second sentence, for cds::gc::DHP:
    "As a result, a pointer obtained through a guard stays dereferenceable until the guard is cleared or reassigned."

    Only statements here; proofs live in LV.Proofs.DhpLive{A,B,C,D,E,F}.  Model: LV.Model.Dhp.  Vocabulary:
    LV.Proofs.DhpHist ([hist]: slotv / lastw / att / linked / scan, [live]) and LV.Proofs.DhpLiveB ([sfold]: per thread
    its current operation [lop], the "_slot" event of its last store to a hazard cell [lsl], its last load of a client
    source [lld], the content of the client sources [sv]).

    What is proved, for every schedule (Conc.reach), every number of threads and every client program:
      (a) [C02_live_reduction]: a hazard cell of an attached record that holds p continuously from its last store g0
          to a disposer call for p  ==>  the scan that makes the call began before g0 (from the first sentence);
      (b) [C02_live_protect_and_scan]: every "ret p" of a protect operation is preceded by a load of the source that
          read p, itself preceded by the thread's last store to the hazard cell, which stored p; every disposer call
          is made inside a scan; the client sources hold what the trace says;
      (c) [C02_guarded_ptr_live_cell]: under the client discipline (publish p once, retire p only after a store
          replaced it in its source) a pointer returned by protect() is not handed to the disposer while the hazard
          cell that protect() stored it into is not stored to again and remains a cell of an attached record --
          GIVEN [scan_frees_older] for the trace (a scan frees only what was retired before it began).
    What is NOT proved: [dhp_scan_frees_older_statement] (so (c) is conditional), and the step from the hazard cell to
    the client's Guard object, [dhp_guard_cell_exclusive_statement]; with both, [dhp_guarded_ptr_live_statement]. *)
From Coq Require Import ZArith List String Lia.
From LV Require Import Base.Conc Base.Events Model.DhpLang Model.Dhp Proofs.DhpHist Proofs.DhpProofsC02
  Proofs.DhpLiveA Proofs.DhpLiveB Proofs.DhpLiveD Proofs.DhpLiveE Proofs.DhpLiveF.
Import ListNotations.

(** (a) the reduction, in the vocabulary of the first sentence *)
Theorem C02_live_reduction : forall fuel c ths conf,
  Conc.reach (Dhp.init_cfg fuel c ths) conf ->
  flbad (hist (Conc.trace conf)) = false ->
  forall d u p, nth_error (Conc.trace conf) d = Some (u, ev_dispose p) -> p <> 0%nat ->
  forall s0, scan (hist (firstn d (Conc.trace conf))) u = Some s0 ->
  forall s g0 k, slotv (hist (firstn d (Conc.trace conf))) s = p ->
                 lastw (hist (firstn d (Conc.trace conf))) s = Some g0 ->
                 live c (hist (firstn d (Conc.trace conf))) s k -> (k < g0)%nat ->
  (s0 < g0)%nat.
Proof. exact dhp_guarded_ptr_live_reduction. Qed.
Print Assumptions C02_live_reduction.

(** the same over the raw trace, for a cell of the initial array of record r ("_att r" at ka, store at g0, then no
    store to the cell and no "_att"/"_det" of r up to the disposer call at d) *)
Theorem C02_live_reduction_initial_cell : forall fuel c ths conf,
  Conc.reach (Dhp.init_cfg fuel c ths) conf ->
  flbad (hist (Conc.trace conf)) = false ->
  forall d u p, nth_error (Conc.trace conf) d = Some (u, ev_dispose p) -> p <> 0%nat ->
  forall s0, scan (hist (firstn d (Conc.trace conf))) u = Some s0 ->
  forall r i ka g0 t t', (i < eff_H c)%nat -> (ka < g0)%nat -> (g0 < d)%nat ->
    nth_error (Conc.trace conf) ka = Some (t, ev_att r) ->
    nth_error (Conc.trace conf) g0 = Some (t', ev_slot (GI r i) p) ->
    (forall j te, (ka < j < d)%nat -> nth_error (Conc.trace conf) j = Some te -> ~ is_attdet_of r (snd te)) ->
    (forall j te, (g0 < j < d)%nat -> nth_error (Conc.trace conf) j = Some te -> ~ is_slot_of (GI r i) (snd te)) ->
  (s0 < g0)%nat.
Proof. exact dhp_guarded_ptr_live_reduction_GI. Qed.
Print Assumptions C02_live_reduction_initial_cell.

(** ... and for a cell of an extension block b linked into r's guard list by the "_link r b" event at kl *)
Theorem C02_live_reduction_extension_cell : forall fuel c ths conf,
  Conc.reach (Dhp.init_cfg fuel c ths) conf ->
  flbad (hist (Conc.trace conf)) = false ->
  forall d u p, nth_error (Conc.trace conf) d = Some (u, ev_dispose p) -> p <> 0%nat ->
  forall s0, scan (hist (firstn d (Conc.trace conf))) u = Some s0 ->
  forall r b i ka kl g0 t t' t'', (i < c_GB c)%nat -> (ka < kl)%nat -> (kl < g0)%nat -> (g0 < d)%nat ->
    nth_error (Conc.trace conf) ka = Some (t, ev_att r) ->
    nth_error (Conc.trace conf) kl = Some (t'', ev_link r b) ->
    nth_error (Conc.trace conf) g0 = Some (t', ev_slot (GE b i) p) ->
    (forall j te, (ka < j < d)%nat -> nth_error (Conc.trace conf) j = Some te -> ~ is_attdet_of r (snd te)) ->
    (forall j te, (g0 < j < d)%nat -> nth_error (Conc.trace conf) j = Some te -> ~ is_slot_of (GE b i) (snd te)) ->
  (s0 < g0)%nat.
Proof. exact dhp_guarded_ptr_live_reduction_GE. Qed.
Print Assumptions C02_live_reduction_extension_cell.

(** (b) what every reachable configuration satisfies: the client sources hold what the trace says ([SrcOK]), and for
    every event, given the summary of the trace before it ([TProp PhiA]): a "ret z" that answers a protect( j, k )
    with z <> 0 comes after a load of source k by that thread that read z, and the thread's last store to a hazard
    cell (if it hit a cell) stored z and came before that load ([PhiP]); a disposer call is made by a thread that
    is between "_scanb" and "_scane" ([PhiD]).  No hypothesis on the free lists, the block sizes or the client. *)
Theorem C02_live_protect_and_scan : forall fuel c ths conf,
  Conc.reach (Dhp.init_cfg fuel c ths) conf ->
  SrcOK (Conc.shared conf) (sfold (Conc.trace conf)) /\ TProp PhiA (Conc.trace conf).
Proof. exact dhp_liveL. Qed.
Print Assumptions C02_live_protect_and_scan.

(** (c) the second sentence at the level of the hazard cell.  [publish_once tr p]: "op 8 _ p" occurs at most once;
    [retire_after_unlink tr p]: every "op 9 p" comes after a store to a client source, by a thread that had announced
    publish( k, q ) with q <> p, which replaced p there; [scan_frees_older tr]: every disposer call for p inside a
    scan that began at s0 comes after an "op 9 p" at an index < s0 (see [dhp_scan_frees_older_statement]). *)
Theorem C02_guarded_ptr_live_cell : forall fuel c ths conf,
  Conc.reach (Dhp.init_cfg fuel c ths) conf ->
  flbad (hist (Conc.trace conf)) = false ->
  scan_frees_older (Conc.trace conf) ->
  forall p, p <> 0%nat -> publish_once (Conc.trace conf) p -> retire_after_unlink (Conc.trace conf) p ->
  forall v t j k, nth_error (Conc.trace conf) v = Some (t, EvCli "ret" [zn p]) ->
    lop (sfold (firstn v (Conc.trace conf))) t = [7%Z; zn j; zn k] ->
  forall g0 s x, lsl (sfold (firstn v (Conc.trace conf))) t = Some (g0, s, x) ->
  forall d u kl, (v < d)%nat -> nth_error (Conc.trace conf) d = Some (u, ev_dispose p) ->
    live c (hist (firstn d (Conc.trace conf))) s kl -> (kl < g0)%nat ->
    (forall i te, (g0 < i < d)%nat -> nth_error (Conc.trace conf) i = Some te -> ~ is_slot_of s (snd te)) ->
  False.
Proof. exact dhp_guarded_ptr_live_cell. Qed.
Print Assumptions C02_guarded_ptr_live_cell.

(** the open statements (Definitions only, see LV.Proofs.DhpLiveF) *)
Definition C02_scan_frees_older_statement : Prop := dhp_scan_frees_older_statement.
Definition C02_guard_cell_exclusive_statement : Prop := dhp_guard_cell_exclusive_statement.
Definition C02_guarded_ptr_live_statement : Prop := dhp_guarded_ptr_live_statement.

(** non-vacuity: two threads, two client sources.  Thread 1 publishes object 5 in source 0; thread 0 protects it
    ("op 7 0 0" ... "ret 5" at event 47; its store to cell GI 0 0 is event 42, the validating load event 46);
    thread 1 replaces it by 6, retires 5 and scans (events 64..91): 5 is not disposed; thread 0 clears the guard
    (store to the cell at event 103); thread 1 scans again (from event 113) and 5 is disposed at event 127.
    All hypotheses of [C02_guarded_ptr_live_cell] about events 47 / 42 / 127 hold except the last one, which the
    store at 103 falsifies, as the theorem demands. *)
Definition C02_live_example :=
  Dhp.run_case [4; 2; 4; 0; 200; 2; 0]%Z
    [[[1]; [3;0]; [15;0;5]; [7;0;0]; [8;1;1]; [15;1;2]; [6;0]; [8;1;3]];
     [[1]; [8;0;5]; [15;1;1]; [8;0;6]; [9;5]; [10]; [8;1;2]; [15;1;3]; [10]]]%Z [] 5000.
Example C02_live_nonvacuous :
  let tr := fst C02_live_example in
  snd C02_live_example = true /\ flbad (hist tr) = false /\
  nth_error tr 47 = Some (0%nat, EvCli "ret" [5%Z]) /\
  lop (sfold (firstn 47 tr)) 0 = [7; 0; 0]%Z /\
  lsl (sfold (firstn 47 tr)) 0 = Some (42%nat, GI 0 0, 5%nat) /\
  lld (sfold (firstn 47 tr)) 0 = Some (46%nat, 0%nat, 5%nat) /\
  nth_error tr 59 = Some (1%nat, EvCli "op" [9; 5]%Z) /\
  sv (sfold (firstn 57 tr)) 0 = 5%nat /\ sv (sfold (firstn 58 tr)) 0 = 6%nat /\
  scan (hist (firstn 127 tr)) 1 = Some 113%nat /\
  nth_error tr 127 = Some (1%nat, ev_dispose 5) /\
  att (hist (firstn 127 tr)) 0 = Some (0%nat, 18%nat) /\
  nth_error tr 103 = Some (0%nat, ev_slot (GI 0 0) 0) /\
  filter (fun e => is_cli "dispose" (snd e)) (firstn 127 tr) = [].
Proof. vm_compute. repeat split; reflexivity. Qed.

(** ---- appended (helper of d1-hpleft, piece "scan_frees_older"): proofs in LV.Proofs.DhpLiveGs* ---- *)
From LV Require Import Proofs.DhpLiveGsA.

(** (c'), free-list-unconditional: [C02_guarded_ptr_live_cell] without the hypothesis on the embedded free lists
    ([dhp_flbad_false] is a theorem), under the faithful configuration of the current code (block capacity >= 4,
    [c_old = false], [c_oldtail = false]) and fewer than 2^31 - 3 threads. *)
Theorem C02_guarded_ptr_live_cell_fl : forall fuel c ths conf,
  Conc.reach (Dhp.init_cfg fuel c ths) conf ->
  (4 <= c_RB c)%nat -> c_old c = false -> c_oldtail c = false ->
  (Z.of_nat (List.length ths) + 3 < 2147483648)%Z ->
  scan_frees_older (Conc.trace conf) ->
  forall p, p <> 0%nat -> publish_once (Conc.trace conf) p -> retire_after_unlink (Conc.trace conf) p ->
  forall v t j k, nth_error (Conc.trace conf) v = Some (t, EvCli "ret" [zn p]) ->
    lop (sfold (firstn v (Conc.trace conf))) t = [7%Z; zn j; zn k] ->
  forall g0 s x, lsl (sfold (firstn v (Conc.trace conf))) t = Some (g0, s, x) ->
  forall d u kl, (v < d)%nat -> nth_error (Conc.trace conf) d = Some (u, ev_dispose p) ->
    live c (hist (firstn d (Conc.trace conf))) s kl -> (kl < g0)%nat ->
    (forall i te, (g0 < i < d)%nat -> nth_error (Conc.trace conf) i = Some te -> ~ is_slot_of s (snd te)) ->
  False.
Proof. exact dhp_guarded_ptr_live_cell_noflb. Qed.
Print Assumptions C02_guarded_ptr_live_cell_fl.

(** non-vacuity: the configuration of [C02_live_example] (RB = 4, c_old = c_oldtail = false, two threads) satisfies the
    side conditions *)
Example C02_live_fl_nonvacuous :
  let c := Dhp.mkCfg 4 2 4 false 200 2 false in
  (4 <= c_RB c)%nat /\ c_old c = false /\ c_oldtail c = false.
Proof. vm_compute. repeat split; lia. Qed.

(** ---- "a scan frees only what was retired before it began": PROVED (LV.Proofs.DhpLiveGsB .. GsG) ---- *)
From LV Require Proofs.DhpInvB.
From LV Require Import Proofs.DhpLiveGsG.

(** [C02_scan_frees_older_statement] holds: for every schedule, every number of threads (< 2^31 - 3) and every client
    program that retires every object at most once, in the faithful configuration of the current code, a disposer call
    for p made by thread u inside the scan that began at trace index s0 comes after an "op 9 p" event at an index < s0.
    (Invariant: the C03 ownership invariant of the retired arrays paired with "while u is between _scanb and _scane,
    every pointer whose place is in flight in u / the array of a record owned by u was announced before s0".) *)
Theorem C02_scan_frees_older : forall fuel c ths conf,
  Conc.reach (Dhp.init_cfg fuel c ths) conf ->
  (4 <= c_RB c)%nat -> c_old c = false -> c_oldtail c = false ->
  (Z.of_nat (List.length ths) + 3 < 2147483648)%Z ->
  NoDup (flat_map (fun e => DhpInvB.retired_ev (snd e)) (Conc.trace conf)) ->
  scan_frees_older (Conc.trace conf).
Proof. exact dhp_scan_frees_older. Qed.
Print Assumptions C02_scan_frees_older.

(** the open statement of LV.Proofs.DhpLiveF, literally *)
Theorem C02_scan_frees_older_statement_holds : C02_scan_frees_older_statement.
Proof. exact dhp_scan_frees_older_flb. Qed.
Print Assumptions C02_scan_frees_older_statement_holds.

(** (c''): [C02_guarded_ptr_live_cell] with NO unproved hypothesis: neither on the free lists nor [scan_frees_older].
    Client discipline: publish p once, retire p only after a store replaced it in its source, retire every object at
    most once. *)
Theorem C02_guarded_ptr_live_cell_unconditional : forall fuel c ths conf,
  Conc.reach (Dhp.init_cfg fuel c ths) conf ->
  (4 <= c_RB c)%nat -> c_old c = false -> c_oldtail c = false ->
  (Z.of_nat (List.length ths) + 3 < 2147483648)%Z ->
  NoDup (flat_map (fun e => DhpInvB.retired_ev (snd e)) (Conc.trace conf)) ->
  forall p, p <> 0%nat -> publish_once (Conc.trace conf) p -> retire_after_unlink (Conc.trace conf) p ->
  forall v t j k, nth_error (Conc.trace conf) v = Some (t, EvCli "ret" [zn p]) ->
    lop (sfold (firstn v (Conc.trace conf))) t = [7%Z; zn j; zn k] ->
  forall g0 s x, lsl (sfold (firstn v (Conc.trace conf))) t = Some (g0, s, x) ->
  forall d u kl, (v < d)%nat -> nth_error (Conc.trace conf) d = Some (u, ev_dispose p) ->
    live c (hist (firstn d (Conc.trace conf))) s kl -> (kl < g0)%nat ->
    (forall i te, (g0 < i < d)%nat -> nth_error (Conc.trace conf) i = Some te -> ~ is_slot_of s (snd te)) ->
  False.
Proof. exact dhp_guarded_ptr_live_cell_unconditional. Qed.
Print Assumptions C02_guarded_ptr_live_cell_unconditional.

(** non-vacuity, on the run of [C02_live_example]: object 5 is the only one retired ("op 9 5" at event 59); the scan of
    thread 1 that begins at event 113 hands it to the disposer at event 127; 59 < 113.  (The first scan of thread 1,
    events 64..91, does not free it: thread 0 still guards it.) *)
Example C02_scan_frees_older_nonvacuous :
  let tr := fst C02_live_example in
  flat_map (fun e => DhpInvB.retired_ev (snd e)) tr = [5%nat] /\
  nth_error tr 59 = Some (1%nat, EvCli "op" [9; 5]%Z) /\
  scan (hist (firstn 127 tr)) 1 = Some 113%nat /\
  nth_error tr 127 = Some (1%nat, ev_dispose 5) /\
  scan (hist (firstn 59 tr)) 1 = None.
Proof. vm_compute. repeat split; reflexivity. Qed.


(** ---- appended: from the hazard cell to the client's Guard (LV.Proofs.DhpLiveGcRefute, DhpLiveGcE) ---- *)
From LV Require Import Proofs.DhpLiveGcRefute Proofs.DhpLiveGcE.

(** [dhp_guard_cell_exclusive_statement], read literally, is FALSE of the model: with c_GB = 0 (an extension block
    without cells; 16 in /repo) the fifth Guard of a thread gets a non-existent cell and protect() stores into nothing.
    The corrected statement [dhp_guard_cell_exclusive_corrected_statement] assumes 1 <= c_GB. *)
Theorem C02_guard_cell_exclusive_statement_refuted : ~ dhp_guard_cell_exclusive_statement.
Proof. exact dhp_guard_cell_exclusive_statement_refuted. Qed.
Print Assumptions C02_guard_cell_exclusive_statement_refuted.

Definition C02_guard_cell_exclusive_corrected_statement : Prop := dhp_guard_cell_exclusive_corrected_statement.

(** the second sentence at the level of the client's Guard object, GIVEN [scan_frees_older] and
    [guard_cell_exclusive] for the trace (the cell protect() stored into stays a cell of the thread's attached record and
    nobody stores to it until the thread starts detach / ~Guard / assign / clear / protect on that Guard): a pointer
    returned by protect( Guard j ) is not handed to the disposer before the thread starts such an operation. *)
Theorem C02_guarded_ptr_live_from_exclusive : forall fuel c ths conf,
  Conc.reach (Dhp.init_cfg fuel c ths) conf -> flbad (hist (Conc.trace conf)) = false ->
  scan_frees_older (Conc.trace conf) -> guard_cell_exclusive c (Conc.trace conf) ->
  forall p, p <> 0%nat -> publish_once (Conc.trace conf) p -> retire_after_unlink (Conc.trace conf) p ->
  forall v t j k, nth_error (Conc.trace conf) v = Some (t, EvCli "ret" [zn p]) ->
    lop (sfold (firstn v (Conc.trace conf))) t = [7%Z; zn j; zn k] ->
  forall d u, (v < d)%nat -> nth_error (Conc.trace conf) d = Some (u, ev_dispose p) ->
  exists i e, (v < i < d)%nat /\ nth_error (Conc.trace conf) i = Some (t, e) /\ releasesD j e.
Proof. exact dhp_guarded_ptr_live_from_exclusive. Qed.
Print Assumptions C02_guarded_ptr_live_from_exclusive.

(** non-vacuity: in [C02_live_example] thread 0's protect( Guard 0, source 0 ) returns 5 at event 47, 5 is disposed at
    event 127, and the releasing operation the theorem promises is the clear( Guard 0 ) announced at event 100 *)
Example C02_guarded_ptr_live_from_exclusive_nonvacuous :
  let tr := fst C02_live_example in
  nth_error tr 47 = Some (0%nat, EvCli "ret" [5%Z]) /\ lop (sfold (firstn 47 tr)) 0 = [7; 0; 0]%Z /\
  nth_error tr 127 = Some (1%nat, ev_dispose 5) /\
  nth_error tr 100 = Some (0%nat, EvCli "op" [6; 0]%Z) /\ releasesD 0 (EvCli "op" [6; 0]%Z).
Proof.
  cbv zeta. repeat (split; [vm_compute; reflexivity|]). right.
  split; [right; right; left; reflexivity|reflexivity].
Qed.

(** ---- the client-level sentence, what is proved (LV.Proofs.DhpLiveGz) ---- *)
From LV Require Import Proofs.DhpLiveGz.

(** [C02_guarded_ptr_live_statement] with NO hypothesis on the free lists and NO hypothesis [scan_frees_older] (both are
    theorems now), for every schedule, every number of threads (< 2^31 - 3) and every client program in the faithful
    configuration of the current code -- GIVEN [guard_cell_exclusive] for the trace, which is what remains open
    ([C02_guard_cell_exclusive_corrected_statement]).  Client discipline as in [C01_guarded_ptr_live]: publish p once,
    retire every object at most once, retire p only after a store replaced it in its source. *)
Definition C02_dhp_guarded_ptr_live_partial_statement : Prop := forall fuel c ths conf,
  Conc.reach (Dhp.init_cfg fuel c ths) conf ->
  (4 <= c_RB c)%nat -> c_old c = false -> c_oldtail c = false ->
  (Z.of_nat (List.length ths) + 3 < 2147483648)%Z ->
  NoDup (flat_map (fun e => DhpInvB.retired_ev (snd e)) (Conc.trace conf)) ->
  guard_cell_exclusive c (Conc.trace conf) ->
  forall p, p <> 0%nat -> publish_once (Conc.trace conf) p -> retire_after_unlink (Conc.trace conf) p ->
  forall v t j k, nth_error (Conc.trace conf) v = Some (t, EvCli "ret" [zn p]) ->
    lop (sfold (firstn v (Conc.trace conf))) t = [7%Z; zn j; zn k] ->
  forall d u, (v < d)%nat -> nth_error (Conc.trace conf) d = Some (u, ev_dispose p) ->
  exists i e, (v < i < d)%nat /\ nth_error (Conc.trace conf) i = Some (t, e) /\ releasesD j e.
Theorem C02_dhp_guarded_ptr_live_partial : C02_dhp_guarded_ptr_live_partial_statement.
Proof. exact dhp_guarded_ptr_live_partial. Qed.
Print Assumptions C02_dhp_guarded_ptr_live_partial.
(** non-vacuity: [C02_guarded_ptr_live_from_exclusive_nonvacuous], [C02_live_fl_nonvacuous] and
    [C02_scan_frees_older_nonvacuous] above (the run [C02_live_example] satisfies the side conditions; "ret 5" at 47,
    dispose at 127, the releasing clear( Guard 0 ) announced at event 100). *)

(** ---- appended (e1-dhpexcl): the cell of a Guard is exclusive, GIVEN the allocator discipline (LV.Proofs.DhpLiveGxA .. GxC) ---- *)
From LV Require Import Proofs.DhpLiveGcA Proofs.DhpLiveGcB Proofs.DhpLiveGcC Proofs.DhpLiveGxA Proofs.DhpLiveGxB Proofs.DhpLiveGxC.

(** Vocabulary (LV.Proofs.DhpLiveGcA): [gfold tr] summarises a trace per thread (announced operation [gop], record it is
    attached to [gtl], table Guard index -> hazard cell [gmp] built from its "_own" events and completed ~Guard(), guard
    block taken from hp_allocator and not linked yet [gpv], last store to a hazard cell [gsl]).
    [cell_disc c tr], the discipline of thread_hp_storage / hp_allocator, says of every event of [tr]:
      - an "_own s" event of thread u (Guard() got cell s) names a cell of u's own attached record (initial array, or a
        block linked into its guard list) that no Guard of any thread holds;
      - a store into a cell of the guard block that the storing thread has just taken from hp_allocator (and not linked
        yet) does not hit a block that is linked into the guard list of an attached record.
    It is what remains open, see [C02_cell_disc_statement] below. *)

(** (d) what every reachable trace satisfies, given that discipline: every event satisfies [PhiG] (a store to a hazard
    cell is made through a Guard whose cell it is, by detach into the own initial array, or into the block just taken;
    "_det" / "_att" / "_own" / "_relall" come from the operations that may emit them; protect() answers after a store
    that hit the cell of its Guard; operation arguments are naturals), and the summary [K]: the record a thread believes
    it is attached to is the one the history says, the cell of every Guard is a cell of the thread's attached record, no
    cell is held by two Guards. *)
Theorem C02_guard_table : forall fuel c ths conf, Conc.reach (Dhp.init_cfg fuel c ths) conf ->
  flbad (hist (Conc.trace conf)) = false -> cell_disc c (Conc.trace conf) ->
  TPropG (Conc.trace conf) /\ VAL (gfold (Conc.trace conf)) /\ K c (gfold (Conc.trace conf)) (hist (Conc.trace conf)).
Proof. exact dhp_TPropG. Qed.
Print Assumptions C02_guard_table.

(** (e) the trace-level derivation, for ANY trace (no model involved): if every event satisfies [PhiG], [PhiD]
    ([cell_disc]) and [PhiA] then the cell of a Guard is exclusive. *)
Theorem C02_guard_cell_exclusive_of_event_properties : forall c tr,
  TPropG tr -> cell_disc c tr -> TProp PhiA tr -> guard_cell_exclusive c tr.
Proof. exact gce_of_disc. Qed.
Print Assumptions C02_guard_cell_exclusive_of_event_properties.

(** (f) [guard_cell_exclusive] for every reachable trace, every schedule and every client program, given [cell_disc] *)
Theorem C02_guard_cell_exclusive_of_disc : forall fuel c ths conf,
  Conc.reach (Dhp.init_cfg fuel c ths) conf -> flbad (hist (Conc.trace conf)) = false ->
  cell_disc c (Conc.trace conf) -> guard_cell_exclusive c (Conc.trace conf).
Proof. exact dhp_guard_cell_exclusive_of_disc. Qed.
Print Assumptions C02_guard_cell_exclusive_of_disc.

(** (g) the second sentence at the level of the client's Guard object: NO hypothesis on the free lists, NO hypothesis
    [scan_frees_older], NO hypothesis [guard_cell_exclusive]; side conditions of the current code, the client discipline
    (publish p once, retire every object at most once, retire p only after a store replaced it in its source), and the
    allocator discipline [cell_disc] of the trace.  A pointer returned by protect( Guard j ) of thread t is not handed to
    the disposer before t starts detach, ~Guard( j ), or assign / clear / protect on Guard j. *)
Definition C02_dhp_guarded_ptr_live_of_disc_statement : Prop := forall fuel c ths conf,
  Conc.reach (Dhp.init_cfg fuel c ths) conf ->
  (4 <= c_RB c)%nat -> c_old c = false -> c_oldtail c = false ->
  (Z.of_nat (List.length ths) + 3 < 2147483648)%Z ->
  NoDup (flat_map (fun e => DhpInvB.retired_ev (snd e)) (Conc.trace conf)) ->
  cell_disc c (Conc.trace conf) ->
  forall p, p <> 0%nat -> publish_once (Conc.trace conf) p -> retire_after_unlink (Conc.trace conf) p ->
  forall v t j k, nth_error (Conc.trace conf) v = Some (t, EvCli "ret" [zn p]) ->
    lop (sfold (firstn v (Conc.trace conf))) t = [7%Z; zn j; zn k] ->
  forall d u, (v < d)%nat -> nth_error (Conc.trace conf) d = Some (u, ev_dispose p) ->
  exists i e, (v < i < d)%nat /\ nth_error (Conc.trace conf) i = Some (t, e) /\ releasesD j e.
Theorem C02_dhp_guarded_ptr_live_of_disc : C02_dhp_guarded_ptr_live_of_disc_statement.
Proof. exact dhp_guarded_ptr_live_of_disc. Qed.
Print Assumptions C02_dhp_guarded_ptr_live_of_disc.

(** ---- the allocator discipline is PROVED (LV.Proofs.DhpLiveGxE .. GxP) ---- *)
From LV Require Import Proofs.DhpLiveGxF Proofs.DhpLiveGxP.

(** (h) [cell_disc] holds of every reachable trace, for every schedule, every number of threads and every client program,
    when the embedded free lists behaved and extension blocks have at least one cell (for c_GB = 0 it is false:
    [C02_guard_cell_exclusive_statement_refuted]).  Proof: two more invariants on top of [InvA] x [InvG]:
    guard-block ownership restated over the trace ([InvB3]: a block taken from hp_allocator and not linked yet is in no
    free list, in no attached record's list, private to one thread; the blocks of a record being detached are the
    next_block_ chain from the detaching thread's cursor), and [InvC3]: thread-record ownership ([JR]: a record's
    thread_id_ names its holder; an unpublished record is named by no pointer field or cursor) + the free chain of
    thread_hp_storage ([JCh]: free_head_ / guard::next_ of an attached record run through distinct cells of that record
    that no Guard holds; hp_init .. "_att"; the chaining loop of hp_allocator::alloc; the pop of alloc() .. "_own"; the
    push of free() .. "ret"). *)
Definition C02_cell_disc_statement : Prop := forall fuel c ths conf,
  Conc.reach (Dhp.init_cfg fuel c ths) conf -> flbad (hist (Conc.trace conf)) = false -> (1 <= c_GB c)%nat ->
  cell_disc c (Conc.trace conf).
Theorem C02_cell_disc : C02_cell_disc_statement.
Proof. exact dhp_cell_disc. Qed.
Print Assumptions C02_cell_disc.

(** a by-product, given [cell_disc]: a guard block that a thread has taken from the allocator and not linked yet is
    linked into no attached record and is private to that thread *)
Theorem C02_private_blocks : forall fuel c ths conf, Conc.reach (Dhp.init_cfg fuel c ths) conf ->
  flbad (hist (Conc.trace conf)) = false -> cell_disc c (Conc.trace conf) -> TB (Conc.trace conf).
Proof. exact dhp_TB. Qed.
Print Assumptions C02_private_blocks.

(** (i) [C02_guard_cell_exclusive_corrected_statement] holds *)
Theorem C02_guard_cell_exclusive_corrected : C02_guard_cell_exclusive_corrected_statement.
Proof. exact dhp_guard_cell_exclusive_corrected. Qed.
Print Assumptions C02_guard_cell_exclusive_corrected.

(** (j) THE SECOND SENTENCE OF C02 FOR DHP AT THE LEVEL OF THE CLIENT'S GUARD OBJECT, with no unproved hypothesis:
    for every schedule (Conc.reach), every number of threads (< 2^31 - 3) and every client program (attach, detach,
    Guard alloc/free, assign, clear, protect, publish, retire, scan), in the faithful configuration of the current code
    (retired-block size >= 4, c_old = c_oldtail = false, extension blocks of at least one cell), under the client
    discipline (publish p once, retire every object at most once, retire p only after a store replaced it in its
    source): if protect( Guard j, source k ) of thread t returned p at trace index v and p is handed to the disposer at
    d > v, then t started detach, ~Guard( j ), or assign / clear / protect on Guard j in between. *)
Definition C02_dhp_guarded_ptr_live_statement : Prop := forall fuel c ths conf,
  Conc.reach (Dhp.init_cfg fuel c ths) conf ->
  (4 <= c_RB c)%nat -> c_old c = false -> c_oldtail c = false -> (1 <= c_GB c)%nat ->
  (Z.of_nat (List.length ths) + 3 < 2147483648)%Z ->
  NoDup (flat_map (fun e => DhpInvB.retired_ev (snd e)) (Conc.trace conf)) ->
  forall p, p <> 0%nat -> publish_once (Conc.trace conf) p -> retire_after_unlink (Conc.trace conf) p ->
  forall v t j k, nth_error (Conc.trace conf) v = Some (t, EvCli "ret" [zn p]) ->
    lop (sfold (firstn v (Conc.trace conf))) t = [7%Z; zn j; zn k] ->
  forall d u, (v < d)%nat -> nth_error (Conc.trace conf) d = Some (u, ev_dispose p) ->
  exists i e, (v < i < d)%nat /\ nth_error (Conc.trace conf) i = Some (t, e) /\ releasesD j e.
Theorem C02_dhp_guarded_ptr_live : C02_dhp_guarded_ptr_live_statement.
Proof. exact dhp_guarded_ptr_live. Qed.
Print Assumptions C02_dhp_guarded_ptr_live.
(** non-vacuity: the run [C02_ext_conf] below uses extension blocks (Guards 4..6 live in two extension blocks), frees a
    Guard and reuses its cell; it is reachable, satisfies every side condition ([C02_ext_facts]: RB = 4, c_old =
    c_oldtail = false, GB = 2, two threads, the retired objects are [5]), and the instance v = 93 (protect through Guard
    6, whose cell is GE 1 0), d = 194 (dispose 5) has the releasing operation "op 6 6" (clear Guard 6) at index 163, as
    the theorem demands; [C02_ext_cell_disc_by_theorem] re-derives the discipline of that run from (h). *)

(** ---- non-vacuity with extension blocks in use, and the executable check of [cell_disc] (LV.Proofs.DhpLiveGxD) ---- *)
From LV Require Import Proofs.DhpLiveGxD.

(** [chk] folds a concrete trace and tests [PhiD] at every event ([bnd]: bounds on the thread and record numbers that
    occur); it is sound: a trace that passes satisfies [cell_disc]. *)
Theorem C02_cell_disc_check : forall c nt nr tr, bnd nt nr tr = true -> chk c nt nr tr gs0 h0 = true -> cell_disc c tr.
Proof. exact cell_disc_check. Qed.
Print Assumptions C02_cell_disc_check.

(** two threads, 4 initial hazard pointers, extension blocks of 2 cells.  Thread 0 allocates Guards 0..6: Guards 4 and 5
    live in extension block 0 ("_link 0 0" at event 54), Guard 6 in extension block 1 ("_link 0 1" at 76, "_own GE 1 0"
    at 77).  Thread 1 publishes object 5; thread 0 protects it through Guard 6 ("ret 5" at event 93; the store to the
    cell GE 1 0 is event 88); thread 1 replaces 5 by 6, retires 5 and scans: 5 is not disposed.  Thread 0 frees Guard 5,
    allocates Guard 7 (which reuses the cell GE 0 1 from the free chain), clears Guard 6 ("op 6 6" at event 163);
    thread 1 scans again and 5 is disposed at event 194. *)
Definition C02_ext_cfg : cfg := Dhp.mkCfg 4 2 4 false 200 2 false.
Definition C02_ext_ths : list (list op) := map decode_ops
  [[[1]; [3;0]; [3;1]; [3;2]; [3;3]; [3;4]; [3;5]; [3;6]; [15;0;5]; [7;6;0]; [8;1;1]; [15;1;2]; [4;5]; [3;7]; [6;6]; [8;1;3]];
   [[1]; [8;0;5]; [15;1;1]; [8;0;6]; [9;5]; [10]; [8;1;2]; [15;1;3]; [10]]]%Z.
Definition C02_ext_conf := fst (Conc.run 4000 0 [] (Dhp.init_cfg 4000 C02_ext_cfg C02_ext_ths)).

Example C02_ext_facts :
  let tr := Conc.trace C02_ext_conf in
  List.length tr = 197%nat /\ flbad (hist tr) = false /\
  (4 <= c_RB C02_ext_cfg)%nat /\ c_old C02_ext_cfg = false /\ c_oldtail C02_ext_cfg = false /\ (1 <= c_GB C02_ext_cfg)%nat /\
  flat_map (fun e => DhpInvB.retired_ev (snd e)) tr = [5%nat] /\
  nth_error tr 76 = Some (0%nat, ev_link 0 1) /\ nth_error tr 77 = Some (0%nat, ev_own (GE 1 0)) /\
  nth_error tr 93 = Some (0%nat, EvCli "ret" [5%Z]) /\ lop (sfold (firstn 93 tr)) 0 = [7; 6; 0]%Z /\
  lsl (sfold (firstn 93 tr)) 0 = Some (88%nat, GE 1 0, 5%nat) /\
  gmp (gfold (firstn 93 tr)) 0 = [(6, GE 1 0); (5, GE 0 1); (4, GE 0 0); (3, GI 0 3); (2, GI 0 2); (1, GI 0 1); (0, GI 0 0)]%nat /\
  nth_error tr 161 = Some (0%nat, ev_own (GE 0 1)) /\
  nth_error tr 163 = Some (0%nat, EvCli "op" [6; 6]%Z) /\ releasesD 6 (EvCli "op" [6; 6]%Z) /\
  nth_error tr 194 = Some (1%nat, ev_dispose 5) /\
  att (hist (firstn 194 tr)) 0 = Some (0%nat, 18%nat) /\ linked (hist (firstn 194 tr)) 0 = [(1, 76); (0, 54)]%nat.
Proof.
  cbv zeta. repeat (split; [vm_compute; try reflexivity; try lia|]); [|vm_compute; reflexivity].
  right. split; [right; right; left; reflexivity|reflexivity].
Qed.

(** the run satisfies the allocator discipline (by the sound check) ... *)
Example C02_ext_cell_disc : cell_disc C02_ext_cfg (Conc.trace C02_ext_conf).
Proof. apply (cell_disc_check C02_ext_cfg 2 2); vm_compute; reflexivity. Qed.

(** ... hence, by (f), the cell of every Guard through which protect() answered is exclusive, the Guard in extension
    block 1 included: all hypotheses of [C02_guard_cell_exclusive_of_disc] are satisfied by a run that uses extension
    blocks, frees a Guard and reuses its cell *)
Example C02_ext_guard_cell_exclusive : guard_cell_exclusive C02_ext_cfg (Conc.trace C02_ext_conf).
Proof.
  apply (C02_guard_cell_exclusive_of_disc 4000 C02_ext_cfg C02_ext_ths).
  - apply Conc.run_reach.
  - vm_compute. reflexivity.
  - exact C02_ext_cell_disc.
Qed.

(** the discipline of the example run, this time from the theorem (h) instead of the executable check *)
Example C02_ext_cell_disc_by_theorem : cell_disc C02_ext_cfg (Conc.trace C02_ext_conf).
Proof.
  apply (C02_cell_disc 4000 C02_ext_cfg C02_ext_ths).
  - apply Conc.run_reach.
  - vm_compute. reflexivity.
  - vm_compute. lia.
Qed.

(** ... and ALL hypotheses of (j) hold of that run for p = 5, client discipline included (the only "publish _ 5" is event
    40, the only "retire 5" is event 105, it comes after thread 1's store of 6 into source 0 at event 103, which then held
    5); so the theorem applies and yields the releasing operation between the answer of protect (93) and the disposer
    call (194) *)
Definition C02_pubb (p : nat) (te : nat * ev) : bool :=
  match lcls (snd te) with LOp args => match pend_of args with Some (_, q) => Nat.eqb q p | None => false end | _ => false end.
Definition C02_retb (p : nat) (te : nat * ev) : bool :=
  match snd te with
  | EvCli n [a; b] => String.eqb n "op" && Z.eqb a 9 && Z.eqb b (Z.of_nat p)
  | _ => false
  end.

Example C02_ext_publish_once : publish_once (Conc.trace C02_ext_conf) 5.
Proof.
  assert (E : idxs (C02_pubb 5) (Conc.trace C02_ext_conf) 0 = [40%nat]) by (vm_compute; reflexivity).
  assert (Hb : forall y e k, is_pub_of k 5 e -> C02_pubb 5 (y, e) = true).
  { intros y e k (args & E1 & E2). unfold C02_pubb. cbn [snd]. now rewrite E1, E2. }
  intros o1 o2 y1 y2 e1 e2 k1 k2 H1 H2 P1 P2.
  rewrite (idxs_single _ _ _ E o1 _ H1 (Hb y1 e1 k1 P1)), (idxs_single _ _ _ E o2 _ H2 (Hb y2 e2 k2 P2)). reflexivity.
Qed.

Example C02_ext_retire_after_unlink : retire_after_unlink (Conc.trace C02_ext_conf) 5.
Proof.
  assert (E : idxs (C02_retb 5) (Conc.trace C02_ext_conf) 0 = [105%nat]) by (vm_compute; reflexivity).
  intros rho x Hn. assert (rho = 105%nat) by (apply (idxs_single _ _ _ E rho _ Hn); reflexivity). subst rho.
  exists 103%nat, 0%nat, 6%nat. split; [lia|]. split; [|split; [lia|vm_compute; reflexivity]].
  exists 1%nat, (EvAcc KSt [7%Z; 0%Z] true). repeat split; vm_compute; reflexivity.
Qed.

Example C02_ext_live_instance :
  exists i e, (93 < i < 194)%nat /\ nth_error (Conc.trace C02_ext_conf) i = Some (0%nat, e) /\ releasesD 6 e.
Proof.
  apply (C02_dhp_guarded_ptr_live 4000 C02_ext_cfg C02_ext_ths C02_ext_conf (Conc.run_reach _ _ _ _)) with (p := 5%nat) (k := 0%nat) (u := 1%nat);
    try (vm_compute; reflexivity); try (vm_compute; lia).
  - assert (E : flat_map (fun e => DhpInvB.retired_ev (snd e)) (Conc.trace C02_ext_conf) = [5%nat]) by (vm_compute; reflexivity).
    rewrite E. repeat constructor. intros [].
  - exact C02_ext_publish_once.
  - exact C02_ext_retire_after_unlink.
Qed.
