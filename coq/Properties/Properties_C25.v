(** * Properties_C25 — bit-manipulation helpers are correct for every input.
    Only statements (closed by [exact <lemma>]), [Print Assumptions], and non-vacuity examples.
    Every statement is about the definitions GENERATED from /repo by tools/cxx2v (modules LV.Gen.Gen_xxx). *)

Require Import ZArith List Bool Lia.
Require Import LV.Base.CInt LV.Proofs.C25_Bits LV.Proofs.C25_Reversal LV.Proofs.C25_Bitop LV.Proofs.C25_Rbo
  LV.Proofs.C25_Popcount LV.Proofs.C25_Bitop2 LV.Proofs.C25_IntAlgo LV.Proofs.C25_Fields LV.Proofs.C25_NumSplit
  LV.Proofs.C25_ByteSplit.
Require LV.Gen.Gen_bit_reversal LV.Gen.Gen_bitop LV.Gen.Gen_int_algo LV.Gen.Gen_split.
Import ListNotations.
Local Open Scope Z_scope.

(** The reference: [rev w x] is the unique w-bit number whose bit i is bit (w-1-i) of x. *)
Theorem rev_characterisation : forall w x i, 0 <= i < w -> Z.testbit (rev w x) i = Z.testbit x (w - 1 - i).
Proof. exact rev_spec. Qed.
Print Assumptions rev_characterisation.

Theorem rev_is_unique : forall w x y, 0 <= w -> 0 <= y < 2 ^ w ->
  (forall i, 0 <= i < w -> Z.testbit y i = Z.testbit x (w - 1 - i)) -> y = rev w x.
Proof. exact rev_unique. Qed.
Print Assumptions rev_is_unique.

(** ** (a) cds/algo/bit_reversal.h *)

Theorem swar32_is_rev : forall x, 0 <= x < 2 ^ 32 -> Gen_bit_reversal.swar_u32 x = Some (rev 32 x).
Proof. exact swar_u32_is_rev. Qed.
Print Assumptions swar32_is_rev.

Theorem swar64_is_rev : forall x, 0 <= x < 2 ^ 64 -> Gen_bit_reversal.swar_u64 x = Some (rev 64 x).
Proof. exact swar_u64_is_rev. Qed.
Print Assumptions swar64_is_rev.

Theorem lookup32_is_rev : forall x, 0 <= x < 2 ^ 32 -> Gen_bit_reversal.lookup_u32 x = Some (rev 32 x).
Proof. exact lookup_u32_is_rev. Qed.
Print Assumptions lookup32_is_rev.

Theorem lookup64_is_rev : forall x, 0 <= x < 2 ^ 64 -> Gen_bit_reversal.lookup_u64 x = Some (rev 64 x).
Proof. exact lookup_u64_is_rev. Qed.
Print Assumptions lookup64_is_rev.

Theorem muldiv32_byte_is_rev : forall b, 0 <= b < 2 ^ 8 -> Gen_bit_reversal.muldiv32_byte b = Some (rev 8 b).
Proof. exact muldiv32_byte_spec. Qed.
Print Assumptions muldiv32_byte_is_rev.

Theorem muldiv64_byte_is_rev : forall b, 0 <= b < 2 ^ 8 -> Gen_bit_reversal.muldiv64_byte b = Some (rev 8 b).
Proof. exact muldiv64_byte_spec. Qed.
Print Assumptions muldiv64_byte_is_rev.

Theorem muldiv32_32_is_rev : forall x, 0 <= x < 2 ^ 32 -> Gen_bit_reversal.muldiv32_u32 x = Some (rev 32 x).
Proof. exact muldiv32_u32_is_rev. Qed.
Print Assumptions muldiv32_32_is_rev.

Theorem muldiv32_64_is_rev : forall x, 0 <= x < 2 ^ 64 -> Gen_bit_reversal.muldiv32_u64 x = Some (rev 64 x).
Proof. exact muldiv32_u64_is_rev. Qed.
Print Assumptions muldiv32_64_is_rev.

Theorem muldiv64_32_is_rev : forall x, 0 <= x < 2 ^ 32 -> Gen_bit_reversal.muldiv64_u32 x = Some (rev 32 x).
Proof. exact muldiv64_u32_is_rev. Qed.
Print Assumptions muldiv64_32_is_rev.

Theorem muldiv64_64_is_rev : forall x, 0 <= x < 2 ^ 64 -> Gen_bit_reversal.muldiv64_u64 x = Some (rev 64 x).
Proof. exact muldiv64_u64_is_rev. Qed.
Print Assumptions muldiv64_64_is_rev.

Theorem muldiv_op32_is_rev : forall x, 0 <= x < 2 ^ 32 -> Gen_bit_reversal.muldiv_u32 x = Some (rev 32 x).
Proof. exact muldiv_u32_is_rev. Qed.
Print Assumptions muldiv_op32_is_rev.

Theorem muldiv_op64_is_rev : forall x, 0 <= x < 2 ^ 64 -> Gen_bit_reversal.muldiv_u64 x = Some (rev 64 x).
Proof. exact muldiv_u64_is_rev. Qed.
Print Assumptions muldiv_op64_is_rev.

(** Involution: applying an implementation twice gives the argument back (and never hits UB). *)
Theorem reversals_involutive :
  involutive_on 32 Gen_bit_reversal.swar_u32 /\ involutive_on 64 Gen_bit_reversal.swar_u64 /\
  involutive_on 32 Gen_bit_reversal.lookup_u32 /\ involutive_on 64 Gen_bit_reversal.lookup_u64 /\
  involutive_on 32 Gen_bit_reversal.muldiv_u32 /\ involutive_on 64 Gen_bit_reversal.muldiv_u64 /\
  involutive_on 32 Gen_bit_reversal.muldiv32_u32 /\ involutive_on 64 Gen_bit_reversal.muldiv32_u64.
Proof. exact all_reversals_involutive. Qed.
Print Assumptions reversals_involutive.

(** ** (b) cds/details/bitop_generic.h (the portable C versions; the amd64 inline-asm MSB/LSB variants are
    compared with these by the differential sweep only) *)

(** [msb x] = 0 for 0, else floor(log2 x) + 1.  [lowbit x k]: bit k is the lowest set bit.  [popcount w x]: number of
    set bits among the low w bits (popcount_zero / popcount_step characterise it). *)

Theorem msb_definition :
  forall x, msb x = if x =? 0 then 0 else Z.log2 x + 1.
Proof. exact (fun x => eq_refl (msb x)). Qed.
Print Assumptions msb_definition.

Theorem lowbit_meaning :
  forall x k, 0 <= k -> lowbit x k -> Z.testbit x k = true /\ forall i, 0 <= i < k -> Z.testbit x i = false.
Proof. exact lowbit_bits. Qed.
Print Assumptions lowbit_meaning.

Theorem popcount_zero :
  forall x, popcount 0 x = 0.
Proof. exact popcount_0. Qed.
Print Assumptions popcount_zero.

Theorem popcount_step :
  forall w x, 0 <= w -> popcount (w + 1) x = popcount w x + Z.b2z (Z.testbit x w).
Proof. exact popcount_succ. Qed.
Print Assumptions popcount_step.

Theorem msb32_correct :
  forall x, 0 <= x < 2 ^ 32 -> Gen_bitop.msb32 x = Some (msb x).
Proof. exact msb32_spec. Qed.
Print Assumptions msb32_correct.

Theorem msb32nz_correct :
  forall x, 0 <= x < 2 ^ 32 -> Gen_bitop.msb32nz x = Some (msb x - 1).
Proof. exact msb32nz_spec. Qed.
Print Assumptions msb32nz_correct.

Theorem lsb32_correct :
  forall x, 0 <= x < 2 ^ 32 ->
  match Gen_bitop.lsb32 x with Some r => lsb_ok x r /\ 0 <= r <= 32 | None => False end.
Proof. exact lsb32_spec. Qed.
Print Assumptions lsb32_correct.

Theorem lsb32nz_correct :
  forall x, 0 <= x < 2 ^ 32 -> x <> 0 ->
  match Gen_bitop.lsb32nz x with Some r => lowbit x r /\ 0 <= r < 32 | None => False end.
Proof. exact lsb32nz_spec. Qed.
Print Assumptions lsb32nz_correct.

Theorem rbo32_is_rev :
  forall x, 0 <= x < 2 ^ 32 -> Gen_bitop.rbo32 x = Some (rev 32 x).
Proof. exact C25_Rbo.rbo32_is_rev. Qed.
Print Assumptions rbo32_is_rev.

Theorem sbc32_is_popcount :
  forall x, 0 <= x < 2 ^ 32 -> Gen_bitop.sbc32 x = Some (popcount 32 x).
Proof. exact sbc32_spec. Qed.
Print Assumptions sbc32_is_popcount.

Theorem zbc32_correct :
  forall x, 0 <= x < 2 ^ 32 -> Gen_bitop.zbc32 x = Some (32 - popcount 32 x).
Proof. exact zbc32_spec. Qed.
Print Assumptions zbc32_correct.

Theorem complement32_correct :
  forall p n, 0 <= p < 2 ^ 32 -> 0 <= n < 32 ->
  Gen_bitop.complement32 p n = Some (Z.testbit p n, Z.lxor p (2 ^ n)).
Proof. exact complement32_spec. Qed.
Print Assumptions complement32_correct.

Theorem complement32_bad_bit_is_UB :
  forall p n, ~ (0 <= n < 32) -> Gen_bitop.complement32 p n = None.
Proof. exact complement32_ub. Qed.
Print Assumptions complement32_bad_bit_is_UB.

Theorem isPow2_32_correct :
  forall x, 0 <= x < 2 ^ 32 -> exists b, Gen_bitop.isPow2_32 x = Some b /\ (b = true <-> is_pow2_below 32 x).
Proof. exact isPow2_32_spec. Qed.
Print Assumptions isPow2_32_correct.

Theorem msb64_correct :
  forall x, 0 <= x < 2 ^ 64 -> Gen_bitop.msb64 x = Some (msb x).
Proof. exact msb64_spec. Qed.
Print Assumptions msb64_correct.

Theorem msb64nz_correct :
  forall x, 0 <= x < 2 ^ 64 -> Gen_bitop.msb64nz x = Some (msb x - 1).
Proof. exact msb64nz_spec. Qed.
Print Assumptions msb64nz_correct.

Theorem lsb64_correct :
  forall x, 0 <= x < 2 ^ 64 ->
  match Gen_bitop.lsb64 x with Some r => lsb_ok x r /\ 0 <= r <= 64 | None => False end.
Proof. exact lsb64_spec. Qed.
Print Assumptions lsb64_correct.

Theorem lsb64nz_correct :
  forall x, 0 <= x < 2 ^ 64 -> x <> 0 ->
  match Gen_bitop.lsb64nz x with Some r => lowbit x r /\ 0 <= r < 64 | None => False end.
Proof. exact lsb64nz_spec. Qed.
Print Assumptions lsb64nz_correct.

Theorem rbo64_is_rev :
  forall x, 0 <= x < 2 ^ 64 -> Gen_bitop.rbo64 x = Some (rev 64 x).
Proof. exact C25_Rbo.rbo64_is_rev. Qed.
Print Assumptions rbo64_is_rev.

Theorem sbc64_is_popcount :
  forall x, 0 <= x < 2 ^ 64 -> Gen_bitop.sbc64 x = Some (popcount 64 x).
Proof. exact sbc64_spec. Qed.
Print Assumptions sbc64_is_popcount.

Theorem zbc64_correct :
  forall x, 0 <= x < 2 ^ 64 -> Gen_bitop.zbc64 x = Some (64 - popcount 64 x).
Proof. exact zbc64_spec. Qed.
Print Assumptions zbc64_correct.

Theorem complement64_correct :
  forall p n, 0 <= p < 2 ^ 64 -> 0 <= n < 64 ->
  Gen_bitop.complement64 p n = Some (Z.testbit p n, Z.lxor p (2 ^ n)).
Proof. exact complement64_spec. Qed.
Print Assumptions complement64_correct.

Theorem complement64_bad_bit_is_UB :
  forall p n, ~ (0 <= n < 64) -> Gen_bitop.complement64 p n = None.
Proof. exact complement64_ub. Qed.
Print Assumptions complement64_bad_bit_is_UB.

Theorem isPow2_64_correct :
  forall x, 0 <= x < 2 ^ 64 -> exists b, Gen_bitop.isPow2_64 x = Some b /\ (b = true <-> is_pow2_below 64 x).
Proof. exact isPow2_64_spec. Qed.
Print Assumptions isPow2_64_correct.

Theorem complement_flips_exactly_that_bit :
  forall p n i, 0 <= n -> 0 <= i -> Z.testbit (Z.lxor p (2 ^ n)) i = xorb (Z.testbit p i) (i =? n).
Proof. exact lxor_pow2_bits. Qed.
Print Assumptions complement_flips_exactly_that_bit.

(** The public templates cds::bitop::X<T> and details::BitOps<sizeof T>::X are these functions. *)

Theorem public_bitops32_are_platform_functions :
  forall x,
  Gen_bitop.MSB_u32 x = Gen_bitop.msb32 x /\ Gen_bitop.LSB_u32 x = Gen_bitop.lsb32 x /\ Gen_bitop.MSBnz_u32 x = Gen_bitop.msb32nz x /\
  Gen_bitop.LSBnz_u32 x = Gen_bitop.lsb32nz x /\ Gen_bitop.SBC_u32 x = Gen_bitop.sbc32 x /\ Gen_bitop.ZBC_u32 x = Gen_bitop.zbc32 x /\
  Gen_bitop.RBO_u32 x = Gen_bitop.rbo32 x /\ Gen_bitop.BitOps4_MSB x = Gen_bitop.msb32 x /\ Gen_bitop.BitOps4_LSB x = Gen_bitop.lsb32 x /\
  Gen_bitop.BitOps4_MSBnz x = Gen_bitop.msb32nz x /\ Gen_bitop.BitOps4_LSBnz x = Gen_bitop.lsb32nz x /\
  Gen_bitop.BitOps4_SBC x = Gen_bitop.sbc32 x /\ Gen_bitop.BitOps4_ZBC x = Gen_bitop.zbc32 x /\ Gen_bitop.BitOps4_RBO x = Gen_bitop.rbo32 x.
Proof. exact wrappers32. Qed.
Print Assumptions public_bitops32_are_platform_functions.

Theorem complement_u32_correct :
  forall p n, 0 <= p < 2 ^ 32 -> 0 <= n < 32 ->
  Gen_bitop.complement_u32 p n = Some (Z.testbit p n, Z.lxor p (2 ^ n)) /\
  Gen_bitop.BitOps4_complement p n = Some (Z.testbit p n, Z.lxor p (2 ^ n)).
Proof. exact complement_u32_spec. Qed.
Print Assumptions complement_u32_correct.

Theorem complement_u32_bad_bit_is_UB :
  forall p n, - 2 ^ 31 <= n < 2 ^ 31 -> ~ (0 <= n < 32) -> Gen_bitop.complement_u32 p n = None.
Proof. exact complement_u32_ub. Qed.
Print Assumptions complement_u32_bad_bit_is_UB.

Theorem public_bitops64_are_platform_functions :
  forall x,
  Gen_bitop.MSB_u64 x = Gen_bitop.msb64 x /\ Gen_bitop.LSB_u64 x = Gen_bitop.lsb64 x /\ Gen_bitop.MSBnz_u64 x = Gen_bitop.msb64nz x /\
  Gen_bitop.LSBnz_u64 x = Gen_bitop.lsb64nz x /\ Gen_bitop.SBC_u64 x = Gen_bitop.sbc64 x /\ Gen_bitop.ZBC_u64 x = Gen_bitop.zbc64 x /\
  Gen_bitop.RBO_u64 x = Gen_bitop.rbo64 x /\ Gen_bitop.BitOps8_MSB x = Gen_bitop.msb64 x /\ Gen_bitop.BitOps8_LSB x = Gen_bitop.lsb64 x /\
  Gen_bitop.BitOps8_MSBnz x = Gen_bitop.msb64nz x /\ Gen_bitop.BitOps8_LSBnz x = Gen_bitop.lsb64nz x /\
  Gen_bitop.BitOps8_SBC x = Gen_bitop.sbc64 x /\ Gen_bitop.BitOps8_ZBC x = Gen_bitop.zbc64 x /\ Gen_bitop.BitOps8_RBO x = Gen_bitop.rbo64 x.
Proof. exact wrappers64. Qed.
Print Assumptions public_bitops64_are_platform_functions.

Theorem complement_u64_correct :
  forall p n, 0 <= p < 2 ^ 64 -> 0 <= n < 64 ->
  Gen_bitop.complement_u64 p n = Some (Z.testbit p n, Z.lxor p (2 ^ n)) /\
  Gen_bitop.BitOps8_complement p n = Some (Z.testbit p n, Z.lxor p (2 ^ n)).
Proof. exact complement_u64_spec. Qed.
Print Assumptions complement_u64_correct.

Theorem complement_u64_bad_bit_is_UB :
  forall p n, - 2 ^ 31 <= n < 2 ^ 31 -> ~ (0 <= n < 64) -> Gen_bitop.complement_u64 p n = None.
Proof. exact complement_u64_ub. Qed.
Print Assumptions complement_u64_bad_bit_is_UB.

(** ** (c) cds/algo/int_algo.h (size_t = 64 bits) *)

Theorem log2floor_correct :
  forall n, 0 <= n < 2 ^ 64 -> Gen_int_algo.log2floor n = Some (Z.log2 n).
Proof. exact log2floor_spec. Qed.
Print Assumptions log2floor_correct.

Theorem log2ceil_correct :
  forall n, 0 <= n < 2 ^ 64 -> Gen_int_algo.log2ceil n = Some (Z.log2_up n).
Proof. exact log2ceil_spec. Qed.
Print Assumptions log2ceil_correct.

Theorem floor2_correct :
  forall n, 0 <= n < 2 ^ 64 -> Gen_int_algo.floor2 n = Some (2 ^ Z.log2 n).
Proof. exact floor2_spec. Qed.
Print Assumptions floor2_correct.

Theorem ceil2_correct :
  forall n, 0 <= n <= 2 ^ 63 -> Gen_int_algo.ceil2 n = Some (2 ^ Z.log2_up n).
Proof. exact ceil2_spec. Qed.
Print Assumptions ceil2_correct.

Theorem ceil2_above_2_63_is_UB :
  forall n, 2 ^ 63 < n < 2 ^ 64 -> Gen_int_algo.ceil2 n = None.
Proof. exact ceil2_overflow. Qed.
Print Assumptions ceil2_above_2_63_is_UB.

Theorem is_power2_correct :
  forall n, 0 <= n < 2 ^ 64 -> exists b, Gen_int_algo.is_power2 n = Some b /\ (b = true <-> is_pow2_below 64 n).
Proof. exact is_power2_spec. Qed.
Print Assumptions is_power2_correct.

Theorem log2_correct :
  forall n, 0 <= n < 2 ^ 64 ->
  (is_pow2_below 64 n -> Gen_int_algo.log2 n = Some (Z.log2 n)) /\ (~ is_pow2_below 64 n -> Gen_int_algo.log2 n = Some 0).
Proof. exact log2_spec. Qed.
Print Assumptions log2_correct.

(** ** (d) cds/algo/split_bitstring.h : number_splitter<Int>
    [run cut st widths] applies cut successively; [joinf] concatenates (value, width) fields, first field lowest;
    a width is legal for cut when [1 <= c < 8*sizeof(Int)] (is_correct), for safe_cut when [1 <= c < 2^32];
    [clip] is the width actually delivered by safe_cut. *)

Theorem number_splitter_i16_cut_sequence_reconstructs :
  forall n cs, ok_i16 n -> Forall (legal 16) cs -> C25_Fields.zsum cs = 16 ->
  exists vs, run Gen_split.ns_i16 Gen_split.ns_i16_cut (Gen_split.mk_ns_i16 n 0) cs = Some (vs, Gen_split.mk_ns_i16 n 16) /\
             length vs = length cs /\ joinf (combine vs cs) = n mod 2 ^ 16.
Proof. exact ns_i16_cut_sequence. Qed.
Print Assumptions number_splitter_i16_cut_sequence_reconstructs.

Theorem number_splitter_i16_safe_cut_sequence_reconstructs :
  forall n cs, ok_i16 n -> Forall legal_safe cs -> 16 <= C25_Fields.zsum cs ->
  exists vs, run Gen_split.ns_i16 Gen_split.ns_i16_safe_cut (Gen_split.mk_ns_i16 n 0) cs = Some (vs, Gen_split.mk_ns_i16 n 16) /\
             length vs = length cs /\ joinf (combine vs (clip 16 0 cs)) mod 2 ^ 16 = n mod 2 ^ 16.
Proof. exact ns_i16_safe_cut_sequence. Qed.
Print Assumptions number_splitter_i16_safe_cut_sequence_reconstructs.

Theorem number_splitter_u16_cut_sequence_reconstructs :
  forall n cs, ok_u16 n -> Forall (legal 16) cs -> C25_Fields.zsum cs = 16 ->
  exists vs, run Gen_split.ns_u16 Gen_split.ns_u16_cut (Gen_split.mk_ns_u16 n 0) cs = Some (vs, Gen_split.mk_ns_u16 n 16) /\
             length vs = length cs /\ joinf (combine vs cs) = n mod 2 ^ 16.
Proof. exact ns_u16_cut_sequence. Qed.
Print Assumptions number_splitter_u16_cut_sequence_reconstructs.

Theorem number_splitter_u16_safe_cut_sequence_reconstructs :
  forall n cs, ok_u16 n -> Forall legal_safe cs -> 16 <= C25_Fields.zsum cs ->
  exists vs, run Gen_split.ns_u16 Gen_split.ns_u16_safe_cut (Gen_split.mk_ns_u16 n 0) cs = Some (vs, Gen_split.mk_ns_u16 n 16) /\
             length vs = length cs /\ joinf (combine vs (clip 16 0 cs)) = n mod 2 ^ 16.
Proof. exact ns_u16_safe_cut_sequence. Qed.
Print Assumptions number_splitter_u16_safe_cut_sequence_reconstructs.

Theorem number_splitter_i32_cut_sequence_reconstructs :
  forall n cs, ok_i32 n -> Forall (legal 32) cs -> C25_Fields.zsum cs = 32 ->
  exists vs, run Gen_split.ns_i32 Gen_split.ns_i32_cut (Gen_split.mk_ns_i32 n 0) cs = Some (vs, Gen_split.mk_ns_i32 n 32) /\
             length vs = length cs /\ joinf (combine vs cs) = n mod 2 ^ 32.
Proof. exact ns_i32_cut_sequence. Qed.
Print Assumptions number_splitter_i32_cut_sequence_reconstructs.

Theorem number_splitter_i32_safe_cut_sequence_reconstructs :
  forall n cs, ok_i32 n -> Forall legal_safe cs -> 32 <= C25_Fields.zsum cs ->
  exists vs, run Gen_split.ns_i32 Gen_split.ns_i32_safe_cut (Gen_split.mk_ns_i32 n 0) cs = Some (vs, Gen_split.mk_ns_i32 n 32) /\
             length vs = length cs /\ joinf (combine vs (clip 32 0 cs)) mod 2 ^ 32 = n mod 2 ^ 32.
Proof. exact ns_i32_safe_cut_sequence. Qed.
Print Assumptions number_splitter_i32_safe_cut_sequence_reconstructs.

Theorem number_splitter_u32_cut_sequence_reconstructs :
  forall n cs, ok_u32 n -> Forall (legal 32) cs -> C25_Fields.zsum cs = 32 ->
  exists vs, run Gen_split.ns_u32 Gen_split.ns_u32_cut (Gen_split.mk_ns_u32 n 0) cs = Some (vs, Gen_split.mk_ns_u32 n 32) /\
             length vs = length cs /\ joinf (combine vs cs) = n mod 2 ^ 32.
Proof. exact ns_u32_cut_sequence. Qed.
Print Assumptions number_splitter_u32_cut_sequence_reconstructs.

Theorem number_splitter_u32_safe_cut_sequence_reconstructs :
  forall n cs, ok_u32 n -> Forall legal_safe cs -> 32 <= C25_Fields.zsum cs ->
  exists vs, run Gen_split.ns_u32 Gen_split.ns_u32_safe_cut (Gen_split.mk_ns_u32 n 0) cs = Some (vs, Gen_split.mk_ns_u32 n 32) /\
             length vs = length cs /\ joinf (combine vs (clip 32 0 cs)) = n mod 2 ^ 32.
Proof. exact ns_u32_safe_cut_sequence. Qed.
Print Assumptions number_splitter_u32_safe_cut_sequence_reconstructs.

Theorem number_splitter_i64_cut_sequence_reconstructs :
  forall n cs, ok_i64 n -> Forall (legal 64) cs -> C25_Fields.zsum cs = 64 ->
  exists vs, run Gen_split.ns_i64 Gen_split.ns_i64_cut (Gen_split.mk_ns_i64 n 0) cs = Some (vs, Gen_split.mk_ns_i64 n 64) /\
             length vs = length cs /\ joinf (combine vs cs) = n mod 2 ^ 64.
Proof. exact ns_i64_cut_sequence. Qed.
Print Assumptions number_splitter_i64_cut_sequence_reconstructs.

Theorem number_splitter_i64_safe_cut_sequence_reconstructs :
  forall n cs, ok_i64 n -> Forall legal_safe cs -> 64 <= C25_Fields.zsum cs ->
  exists vs, run Gen_split.ns_i64 Gen_split.ns_i64_safe_cut (Gen_split.mk_ns_i64 n 0) cs = Some (vs, Gen_split.mk_ns_i64 n 64) /\
             length vs = length cs /\ joinf (combine vs (clip 64 0 cs)) mod 2 ^ 64 = n mod 2 ^ 64.
Proof. exact ns_i64_safe_cut_sequence. Qed.
Print Assumptions number_splitter_i64_safe_cut_sequence_reconstructs.

Theorem number_splitter_u64_cut_sequence_reconstructs :
  forall n cs, ok_u64 n -> Forall (legal 64) cs -> C25_Fields.zsum cs = 64 ->
  exists vs, run Gen_split.ns_u64 Gen_split.ns_u64_cut (Gen_split.mk_ns_u64 n 0) cs = Some (vs, Gen_split.mk_ns_u64 n 64) /\
             length vs = length cs /\ joinf (combine vs cs) = n mod 2 ^ 64.
Proof. exact ns_u64_cut_sequence. Qed.
Print Assumptions number_splitter_u64_cut_sequence_reconstructs.

Theorem number_splitter_u64_safe_cut_sequence_reconstructs :
  forall n cs, ok_u64 n -> Forall legal_safe cs -> 64 <= C25_Fields.zsum cs ->
  exists vs, run Gen_split.ns_u64 Gen_split.ns_u64_safe_cut (Gen_split.mk_ns_u64 n 0) cs = Some (vs, Gen_split.mk_ns_u64 n 64) /\
             length vs = length cs /\ joinf (combine vs (clip 64 0 cs)) = n mod 2 ^ 64.
Proof. exact ns_u64_safe_cut_sequence. Qed.
Print Assumptions number_splitter_u64_safe_cut_sequence_reconstructs.

Theorem number_splitter_i64ll_cut_sequence_reconstructs :
  forall n cs, ok_i64ll n -> Forall (legal 64) cs -> C25_Fields.zsum cs = 64 ->
  exists vs, run Gen_split.ns_i64ll Gen_split.ns_i64ll_cut (Gen_split.mk_ns_i64ll n 0) cs = Some (vs, Gen_split.mk_ns_i64ll n 64) /\
             length vs = length cs /\ joinf (combine vs cs) = n mod 2 ^ 64.
Proof. exact ns_i64ll_cut_sequence. Qed.
Print Assumptions number_splitter_i64ll_cut_sequence_reconstructs.

Theorem number_splitter_i64ll_safe_cut_sequence_reconstructs :
  forall n cs, ok_i64ll n -> Forall legal_safe cs -> 64 <= C25_Fields.zsum cs ->
  exists vs, run Gen_split.ns_i64ll Gen_split.ns_i64ll_safe_cut (Gen_split.mk_ns_i64ll n 0) cs = Some (vs, Gen_split.mk_ns_i64ll n 64) /\
             length vs = length cs /\ joinf (combine vs (clip 64 0 cs)) mod 2 ^ 64 = n mod 2 ^ 64.
Proof. exact ns_i64ll_safe_cut_sequence. Qed.
Print Assumptions number_splitter_i64ll_safe_cut_sequence_reconstructs.

Theorem number_splitter_u64ll_cut_sequence_reconstructs :
  forall n cs, ok_u64ll n -> Forall (legal 64) cs -> C25_Fields.zsum cs = 64 ->
  exists vs, run Gen_split.ns_u64ll Gen_split.ns_u64ll_cut (Gen_split.mk_ns_u64ll n 0) cs = Some (vs, Gen_split.mk_ns_u64ll n 64) /\
             length vs = length cs /\ joinf (combine vs cs) = n mod 2 ^ 64.
Proof. exact ns_u64ll_cut_sequence. Qed.
Print Assumptions number_splitter_u64ll_cut_sequence_reconstructs.

Theorem number_splitter_u64ll_safe_cut_sequence_reconstructs :
  forall n cs, ok_u64ll n -> Forall legal_safe cs -> 64 <= C25_Fields.zsum cs ->
  exists vs, run Gen_split.ns_u64ll Gen_split.ns_u64ll_safe_cut (Gen_split.mk_ns_u64ll n 0) cs = Some (vs, Gen_split.mk_ns_u64ll n 64) /\
             length vs = length cs /\ joinf (combine vs (clip 64 0 cs)) = n mod 2 ^ 64.
Proof. exact ns_u64ll_safe_cut_sequence. Qed.
Print Assumptions number_splitter_u64ll_safe_cut_sequence_reconstructs.

(** safe_cut(count >= width) on a fresh splitter returns the whole number and reaches end-of-stream (repo commit
    096bd5f; before it this was a shift by the full width, undefined).  [legal_safe c] is [1 <= c < 2^32]; for the
    signed types the whole-number result is the (possibly negative) number itself, hence "mod 2^w" above. *)
Theorem number_splitter_i16_safe_cut_whole_number :
  forall n c, ok_i16 n -> legal_safe c -> 16 <= c ->
  Gen_split.ns_i16_safe_cut (Gen_split.mk_ns_i16 n 0) c = Some (n, Gen_split.mk_ns_i16 n 16) /\
  Gen_split.ns_i16_eos (Gen_split.mk_ns_i16 n 16) = Some true.
Proof. exact (fun n c Hn Hc Hw => conj (ns_i16_safe_cut_full n c Hn Hc Hw) (ns_i16_eos_at_end n)). Qed.
Print Assumptions number_splitter_i16_safe_cut_whole_number.
Theorem number_splitter_u16_safe_cut_whole_number :
  forall n c, ok_u16 n -> legal_safe c -> 16 <= c ->
  Gen_split.ns_u16_safe_cut (Gen_split.mk_ns_u16 n 0) c = Some (n, Gen_split.mk_ns_u16 n 16) /\
  Gen_split.ns_u16_eos (Gen_split.mk_ns_u16 n 16) = Some true.
Proof. exact (fun n c Hn Hc Hw => conj (ns_u16_safe_cut_full n c Hn Hc Hw) (ns_u16_eos_at_end n)). Qed.
Print Assumptions number_splitter_u16_safe_cut_whole_number.
Theorem number_splitter_i32_safe_cut_whole_number :
  forall n c, ok_i32 n -> legal_safe c -> 32 <= c ->
  Gen_split.ns_i32_safe_cut (Gen_split.mk_ns_i32 n 0) c = Some (n, Gen_split.mk_ns_i32 n 32) /\
  Gen_split.ns_i32_eos (Gen_split.mk_ns_i32 n 32) = Some true.
Proof. exact (fun n c Hn Hc Hw => conj (ns_i32_safe_cut_full n c Hn Hc Hw) (ns_i32_eos_at_end n)). Qed.
Print Assumptions number_splitter_i32_safe_cut_whole_number.
Theorem number_splitter_u32_safe_cut_whole_number :
  forall n c, ok_u32 n -> legal_safe c -> 32 <= c ->
  Gen_split.ns_u32_safe_cut (Gen_split.mk_ns_u32 n 0) c = Some (n, Gen_split.mk_ns_u32 n 32) /\
  Gen_split.ns_u32_eos (Gen_split.mk_ns_u32 n 32) = Some true.
Proof. exact (fun n c Hn Hc Hw => conj (ns_u32_safe_cut_full n c Hn Hc Hw) (ns_u32_eos_at_end n)). Qed.
Print Assumptions number_splitter_u32_safe_cut_whole_number.
Theorem number_splitter_i64_safe_cut_whole_number :
  forall n c, ok_i64 n -> legal_safe c -> 64 <= c ->
  Gen_split.ns_i64_safe_cut (Gen_split.mk_ns_i64 n 0) c = Some (n, Gen_split.mk_ns_i64 n 64) /\
  Gen_split.ns_i64_eos (Gen_split.mk_ns_i64 n 64) = Some true.
Proof. exact (fun n c Hn Hc Hw => conj (ns_i64_safe_cut_full n c Hn Hc Hw) (ns_i64_eos_at_end n)). Qed.
Print Assumptions number_splitter_i64_safe_cut_whole_number.
Theorem number_splitter_u64_safe_cut_whole_number :
  forall n c, ok_u64 n -> legal_safe c -> 64 <= c ->
  Gen_split.ns_u64_safe_cut (Gen_split.mk_ns_u64 n 0) c = Some (n, Gen_split.mk_ns_u64 n 64) /\
  Gen_split.ns_u64_eos (Gen_split.mk_ns_u64 n 64) = Some true.
Proof. exact (fun n c Hn Hc Hw => conj (ns_u64_safe_cut_full n c Hn Hc Hw) (ns_u64_eos_at_end n)). Qed.
Print Assumptions number_splitter_u64_safe_cut_whole_number.
Theorem number_splitter_i64ll_safe_cut_whole_number :
  forall n c, ok_i64ll n -> legal_safe c -> 64 <= c ->
  Gen_split.ns_i64ll_safe_cut (Gen_split.mk_ns_i64ll n 0) c = Some (n, Gen_split.mk_ns_i64ll n 64) /\
  Gen_split.ns_i64ll_eos (Gen_split.mk_ns_i64ll n 64) = Some true.
Proof. exact (fun n c Hn Hc Hw => conj (ns_i64ll_safe_cut_full n c Hn Hc Hw) (ns_i64ll_eos_at_end n)). Qed.
Print Assumptions number_splitter_i64ll_safe_cut_whole_number.
Theorem number_splitter_u64ll_safe_cut_whole_number :
  forall n c, ok_u64ll n -> legal_safe c -> 64 <= c ->
  Gen_split.ns_u64ll_safe_cut (Gen_split.mk_ns_u64ll n 0) c = Some (n, Gen_split.mk_ns_u64ll n 64) /\
  Gen_split.ns_u64ll_eos (Gen_split.mk_ns_u64ll n 64) = Some true.
Proof. exact (fun n c Hn Hc Hw => conj (ns_u64ll_safe_cut_full n c Hn Hc Hw) (ns_u64ll_eos_at_end n)). Qed.
Print Assumptions number_splitter_u64ll_safe_cut_whole_number.


(** ** (d) byte_splitter and split_bitstring over a byte array
    [mem] is the source object as a list of bytes (each in [0,256)), [mval mem] the little-endian number they form
    (bit k of the stream is bit k mod 8 of byte k/8), [zlen mem] its size.  The splitter state is the record the
    translator generates for the class: {cur_, [offset_,] first_, last_} with pointers as byte indices; the
    initial state {0,[0,]0,size} is what the (untranslated) constructor builds -- compared by the sweep.
    [fuel] bounds the translated loops.  Reading outside [mem] is [None] in the model, so a result [Some] means
    every byte read was in bounds. *)

Theorem split_bitstring_u32_cut_sequence_reconstructs :
  forall mem fuel, bytes_ok mem -> 0 < zlen mem -> (32 < fuel)%nat ->
  forall cs, Forall sb_legal_32 cs -> C25_Fields.zsum cs = 8 * zlen mem ->
  exists vs, run Gen_split.sb_u32 (Gen_split.sb_u32_cut fuel mem) (Gen_split.mk_sb_u32 0 0 0 (zlen mem)) cs
             = Some (vs, Gen_split.mk_sb_u32 (zlen mem) 0 0 (zlen mem)) /\
             length vs = length cs /\ joinf (combine vs cs) = mval mem.
Proof. exact sb_u32_cut_sequence. Qed.
Print Assumptions split_bitstring_u32_cut_sequence_reconstructs.

Theorem split_bitstring_u32_safe_cut_sequence_reconstructs :
  forall mem fuel, bytes_ok mem -> 0 < zlen mem -> (32 < fuel)%nat ->
  forall cs, 8 * zlen mem < 2 ^ 31 -> Forall sb_legal_32 cs -> 8 * zlen mem <= C25_Fields.zsum cs ->
  exists vs, run Gen_split.sb_u32 (Gen_split.sb_u32_safe_cut fuel mem) (Gen_split.mk_sb_u32 0 0 0 (zlen mem)) cs
             = Some (vs, Gen_split.mk_sb_u32 (zlen mem) 0 0 (zlen mem)) /\
             length vs = length cs /\ joinf (combine vs (clip (8 * zlen mem) 0 cs)) = mval mem.
Proof. exact sb_u32_safe_cut_sequence. Qed.
Print Assumptions split_bitstring_u32_safe_cut_sequence_reconstructs.

Theorem split_bitstring_u32_safe_cut_in_bounds :
  forall mem fuel, bytes_ok mem -> 0 < zlen mem -> (32 < fuel)%nat ->
  forall cs, 8 * zlen mem < 2 ^ 31 -> Forall sb_legal_32 cs ->
  exists vs st, run Gen_split.sb_u32 (Gen_split.sb_u32_safe_cut fuel mem) (Gen_split.mk_sb_u32 0 0 0 (zlen mem)) cs = Some (vs, st).
Proof. exact sb_u32_safe_cut_in_bounds. Qed.
Print Assumptions split_bitstring_u32_safe_cut_in_bounds.

Theorem byte_splitter_u32_cut_sequence_reconstructs :
  forall mem fuel, bytes_ok mem -> 0 < zlen mem -> (4 < fuel)%nat ->
  forall cs, Forall bs_legal_32 cs -> C25_Fields.zsum cs = 8 * zlen mem ->
  exists vs, run Gen_split.bs_u32 (Gen_split.bs_u32_cut fuel mem) (Gen_split.mk_bs_u32 0 0 (zlen mem)) cs
             = Some (vs, Gen_split.mk_bs_u32 (zlen mem) 0 (zlen mem)) /\
             length vs = length cs /\ joinf (combine vs cs) = mval mem.
Proof. exact bs_u32_cut_sequence. Qed.
Print Assumptions byte_splitter_u32_cut_sequence_reconstructs.

Theorem byte_splitter_u32_safe_cut_sequence_reconstructs :
  forall mem fuel, bytes_ok mem -> 0 < zlen mem -> (4 < fuel)%nat ->
  forall cs, 8 * zlen mem < 2 ^ 31 -> Forall bs_legal_32 cs -> 8 * zlen mem <= C25_Fields.zsum cs ->
  exists vs, run Gen_split.bs_u32 (Gen_split.bs_u32_safe_cut fuel mem) (Gen_split.mk_bs_u32 0 0 (zlen mem)) cs
             = Some (vs, Gen_split.mk_bs_u32 (zlen mem) 0 (zlen mem)) /\
             length vs = length cs /\ joinf (combine vs (clip (8 * zlen mem) 0 cs)) = mval mem.
Proof. exact bs_u32_safe_cut_sequence. Qed.
Print Assumptions byte_splitter_u32_safe_cut_sequence_reconstructs.

Theorem byte_splitter_u32_safe_cut_in_bounds :
  forall mem fuel, bytes_ok mem -> 0 < zlen mem -> (4 < fuel)%nat ->
  forall cs, 8 * zlen mem < 2 ^ 31 -> Forall bs_legal_32 cs ->
  exists vs st, run Gen_split.bs_u32 (Gen_split.bs_u32_safe_cut fuel mem) (Gen_split.mk_bs_u32 0 0 (zlen mem)) cs = Some (vs, st).
Proof. exact bs_u32_safe_cut_in_bounds. Qed.
Print Assumptions byte_splitter_u32_safe_cut_in_bounds.

Theorem split_bitstring_u64_cut_sequence_reconstructs :
  forall mem fuel, bytes_ok mem -> 0 < zlen mem -> (64 < fuel)%nat ->
  forall cs, Forall sb_legal_64 cs -> C25_Fields.zsum cs = 8 * zlen mem ->
  exists vs, run Gen_split.sb_u64 (Gen_split.sb_u64_cut fuel mem) (Gen_split.mk_sb_u64 0 0 0 (zlen mem)) cs
             = Some (vs, Gen_split.mk_sb_u64 (zlen mem) 0 0 (zlen mem)) /\
             length vs = length cs /\ joinf (combine vs cs) = mval mem.
Proof. exact sb_u64_cut_sequence. Qed.
Print Assumptions split_bitstring_u64_cut_sequence_reconstructs.

Theorem split_bitstring_u64_safe_cut_sequence_reconstructs :
  forall mem fuel, bytes_ok mem -> 0 < zlen mem -> (64 < fuel)%nat ->
  forall cs, 8 * zlen mem < 2 ^ 31 -> Forall sb_legal_64 cs -> 8 * zlen mem <= C25_Fields.zsum cs ->
  exists vs, run Gen_split.sb_u64 (Gen_split.sb_u64_safe_cut fuel mem) (Gen_split.mk_sb_u64 0 0 0 (zlen mem)) cs
             = Some (vs, Gen_split.mk_sb_u64 (zlen mem) 0 0 (zlen mem)) /\
             length vs = length cs /\ joinf (combine vs (clip (8 * zlen mem) 0 cs)) = mval mem.
Proof. exact sb_u64_safe_cut_sequence. Qed.
Print Assumptions split_bitstring_u64_safe_cut_sequence_reconstructs.

Theorem split_bitstring_u64_safe_cut_in_bounds :
  forall mem fuel, bytes_ok mem -> 0 < zlen mem -> (64 < fuel)%nat ->
  forall cs, 8 * zlen mem < 2 ^ 31 -> Forall sb_legal_64 cs ->
  exists vs st, run Gen_split.sb_u64 (Gen_split.sb_u64_safe_cut fuel mem) (Gen_split.mk_sb_u64 0 0 0 (zlen mem)) cs = Some (vs, st).
Proof. exact sb_u64_safe_cut_in_bounds. Qed.
Print Assumptions split_bitstring_u64_safe_cut_in_bounds.

Theorem byte_splitter_u64_cut_sequence_reconstructs :
  forall mem fuel, bytes_ok mem -> 0 < zlen mem -> (8 < fuel)%nat ->
  forall cs, Forall bs_legal_64 cs -> C25_Fields.zsum cs = 8 * zlen mem ->
  exists vs, run Gen_split.bs_u64 (Gen_split.bs_u64_cut fuel mem) (Gen_split.mk_bs_u64 0 0 (zlen mem)) cs
             = Some (vs, Gen_split.mk_bs_u64 (zlen mem) 0 (zlen mem)) /\
             length vs = length cs /\ joinf (combine vs cs) = mval mem.
Proof. exact bs_u64_cut_sequence. Qed.
Print Assumptions byte_splitter_u64_cut_sequence_reconstructs.

Theorem byte_splitter_u64_safe_cut_sequence_reconstructs :
  forall mem fuel, bytes_ok mem -> 0 < zlen mem -> (8 < fuel)%nat ->
  forall cs, 8 * zlen mem < 2 ^ 31 -> Forall bs_legal_64 cs -> 8 * zlen mem <= C25_Fields.zsum cs ->
  exists vs, run Gen_split.bs_u64 (Gen_split.bs_u64_safe_cut fuel mem) (Gen_split.mk_bs_u64 0 0 (zlen mem)) cs
             = Some (vs, Gen_split.mk_bs_u64 (zlen mem) 0 (zlen mem)) /\
             length vs = length cs /\ joinf (combine vs (clip (8 * zlen mem) 0 cs)) = mval mem.
Proof. exact bs_u64_safe_cut_sequence. Qed.
Print Assumptions byte_splitter_u64_safe_cut_sequence_reconstructs.

Theorem byte_splitter_u64_safe_cut_in_bounds :
  forall mem fuel, bytes_ok mem -> 0 < zlen mem -> (8 < fuel)%nat ->
  forall cs, 8 * zlen mem < 2 ^ 31 -> Forall bs_legal_64 cs ->
  exists vs st, run Gen_split.bs_u64 (Gen_split.bs_u64_safe_cut fuel mem) (Gen_split.mk_bs_u64 0 0 (zlen mem)) cs = Some (vs, st).
Proof. exact bs_u64_safe_cut_in_bounds. Qed.
Print Assumptions byte_splitter_u64_safe_cut_in_bounds.

Example rev_nonvacuous :
  rev 32 0x00000001 = 0x80000000 /\ rev 32 0x12345678 = 0x1e6a2c48 /\
  Gen_bit_reversal.swar_u32 0x12345678 = Some 0x1e6a2c48 /\
  Gen_bit_reversal.lookup_u64 0x0123456789abcdef = Some 0xf7b3d591e6a2c480 /\
  Gen_bit_reversal.muldiv_u64 0x0123456789abcdef = Some 0xf7b3d591e6a2c480.
Proof. vm_compute. repeat split. Qed.

Example bitop_nonvacuous :
  Gen_bitop.msb32 0x00010000 = Some 17 /\ Gen_bitop.lsb64 0x0000100000000000 = Some 45 /\
  Gen_bitop.sbc32 0xf0f01234 = Some 13 /\ Gen_bitop.complement32 5 31 = Some (false, 0x80000005) /\
  Gen_bitop.complement32 5 32 = None /\ Gen_int_algo.ceil2 17 = Some 32 /\ Gen_int_algo.log2ceil 1025 = Some 11 /\
  Gen_int_algo.floor2 0 = Some 1.
Proof. vm_compute. repeat split. Qed.

Example number_splitter_safe_whole_nonvacuous :
  Gen_split.ns_u32_safe_cut (Gen_split.mk_ns_u32 0x12345678 0) 32 = Some (0x12345678, Gen_split.mk_ns_u32 0x12345678 32) /\
  Gen_split.ns_i64_safe_cut (Gen_split.mk_ns_i64 (-2) 0) 200 = Some (-2, Gen_split.mk_ns_i64 (-2) 64) /\
  run Gen_split.ns_i32 Gen_split.ns_i32_safe_cut (Gen_split.mk_ns_i32 (-2) 0) [32; 5] = Some ([-2; 0], Gen_split.mk_ns_i32 (-2) 32).
Proof. vm_compute. repeat split. Qed.

Example number_splitter_nonvacuous :
  Forall (legal 32) [4; 12; 9; 7] /\ C25_Fields.zsum [4; 12; 9; 7] = 32 /\ ok_i32 (-2) /\
  run Gen_split.ns_i32 Gen_split.ns_i32_cut (Gen_split.mk_ns_i32 (-2) 0) [4; 12; 9; 7]
    = Some ([14; 4095; 511; 127], Gen_split.mk_ns_i32 (-2) 32) /\
  joinf (combine [14; 4095; 511; 127] [4; 12; 9; 7]) = (-2) mod 2 ^ 32.
Proof. split; [repeat constructor; unfold legal; lia|]. vm_compute. repeat split; intros; discriminate. Qed.

Example byte_splitters_nonvacuous :
  bytes_ok [0x01; 0x23; 0x45] /\ Forall sb_legal_32 [5; 11; 8] /\ C25_Fields.zsum [5; 11; 8] = 8 * zlen [0x01; 0x23; 0x45] /\
  run Gen_split.sb_u32 (Gen_split.sb_u32_cut 40 [0x01; 0x23; 0x45]) (Gen_split.mk_sb_u32 0 0 0 3) [5; 11; 8]
    = Some ([1; 280; 69], Gen_split.mk_sb_u32 3 0 0 3) /\
  joinf (combine [1; 280; 69] [5; 11; 8]) = mval [0x01; 0x23; 0x45] /\
  Gen_split.bs_u64_safe_cut 9 [0x01; 0x02] (Gen_split.mk_bs_u64 1 0 2) 64 = Some (2, Gen_split.mk_bs_u64 2 0 2) /\
  Gen_split.sb_u32_cut 40 [0x01] (Gen_split.mk_sb_u32 0 4 0 1) 8 = None.
Proof.
  split; [repeat constructor; lia|]. split; [repeat constructor; unfold sb_legal_32; lia|].
  vm_compute. repeat split.
Qed.
