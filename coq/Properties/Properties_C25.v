(** * Properties_C25 — bit-manipulation helpers are correct for every input.
    Only statements (closed by [exact <lemma>]), [Print Assumptions], and non-vacuity examples.
    Every statement is about the definitions GENERATED from /repo by tools/cxx2v (modules LV.Gen.Gen_xxx). *)

Require Import ZArith List Bool.
Require Import LV.Base.CInt LV.Proofs.C25_Bits LV.Proofs.C25_Reversal.
Require LV.Gen.Gen_bit_reversal.
Import ListNotations.
Local Open Scope Z_scope.

(** The reference: [rev w x] is the unique w-bit number whose bit i is bit (w-1-i) of x. *)
Theorem rev_characterisation : forall w x i, 0 <= i < w -> Z.testbit (rev w x) i = Z.testbit x (w - 1 - i).
Proof. exact rev_spec. Qed.
Print Assumptions rev_characterisation.

Theorem rev_is_unique : forall w x y, 0 <= w -> 0 <= y < 2 ^ w ->
  (forall i, 0 <= i < w -> Z.testbit y i = Z.testbit x (w - 1 - i)) -> y = rev w x.
Proof. exact rev_unique. Qed.
Print Assumptions rev_is_unique.

(** ** (a) cds/algo/bit_reversal.h *)

Theorem swar32_is_rev : forall x, 0 <= x < 2 ^ 32 -> Gen_bit_reversal.swar_u32 x = Some (rev 32 x).
Proof. exact swar_u32_is_rev. Qed.
Print Assumptions swar32_is_rev.

Theorem swar64_is_rev : forall x, 0 <= x < 2 ^ 64 -> Gen_bit_reversal.swar_u64 x = Some (rev 64 x).
Proof. exact swar_u64_is_rev. Qed.
Print Assumptions swar64_is_rev.

Theorem lookup32_is_rev : forall x, 0 <= x < 2 ^ 32 -> Gen_bit_reversal.lookup_u32 x = Some (rev 32 x).
Proof. exact lookup_u32_is_rev. Qed.
Print Assumptions lookup32_is_rev.

Theorem lookup64_is_rev : forall x, 0 <= x < 2 ^ 64 -> Gen_bit_reversal.lookup_u64 x = Some (rev 64 x).
Proof. exact lookup_u64_is_rev. Qed.
Print Assumptions lookup64_is_rev.

Theorem muldiv32_byte_is_rev : forall b, 0 <= b < 2 ^ 8 -> Gen_bit_reversal.muldiv32_byte b = Some (rev 8 b).
Proof. exact muldiv32_byte_spec. Qed.
Print Assumptions muldiv32_byte_is_rev.

Theorem muldiv64_byte_is_rev : forall b, 0 <= b < 2 ^ 8 -> Gen_bit_reversal.muldiv64_byte b = Some (rev 8 b).
Proof. exact muldiv64_byte_spec. Qed.
Print Assumptions muldiv64_byte_is_rev.

Theorem muldiv32_32_is_rev : forall x, 0 <= x < 2 ^ 32 -> Gen_bit_reversal.muldiv32_u32 x = Some (rev 32 x).
Proof. exact muldiv32_u32_is_rev. Qed.
Print Assumptions muldiv32_32_is_rev.

Theorem muldiv32_64_is_rev : forall x, 0 <= x < 2 ^ 64 -> Gen_bit_reversal.muldiv32_u64 x = Some (rev 64 x).
Proof. exact muldiv32_u64_is_rev. Qed.
Print Assumptions muldiv32_64_is_rev.

Theorem muldiv64_32_is_rev : forall x, 0 <= x < 2 ^ 32 -> Gen_bit_reversal.muldiv64_u32 x = Some (rev 32 x).
Proof. exact muldiv64_u32_is_rev. Qed.
Print Assumptions muldiv64_32_is_rev.

Theorem muldiv64_64_is_rev : forall x, 0 <= x < 2 ^ 64 -> Gen_bit_reversal.muldiv64_u64 x = Some (rev 64 x).
Proof. exact muldiv64_u64_is_rev. Qed.
Print Assumptions muldiv64_64_is_rev.

Theorem muldiv_op32_is_rev : forall x, 0 <= x < 2 ^ 32 -> Gen_bit_reversal.muldiv_u32 x = Some (rev 32 x).
Proof. exact muldiv_u32_is_rev. Qed.
Print Assumptions muldiv_op32_is_rev.

Theorem muldiv_op64_is_rev : forall x, 0 <= x < 2 ^ 64 -> Gen_bit_reversal.muldiv_u64 x = Some (rev 64 x).
Proof. exact muldiv_u64_is_rev. Qed.
Print Assumptions muldiv_op64_is_rev.

(** Involution: applying an implementation twice gives the argument back (and never hits UB). *)
Theorem reversals_involutive :
  involutive_on 32 Gen_bit_reversal.swar_u32 /\ involutive_on 64 Gen_bit_reversal.swar_u64 /\
  involutive_on 32 Gen_bit_reversal.lookup_u32 /\ involutive_on 64 Gen_bit_reversal.lookup_u64 /\
  involutive_on 32 Gen_bit_reversal.muldiv_u32 /\ involutive_on 64 Gen_bit_reversal.muldiv_u64 /\
  involutive_on 32 Gen_bit_reversal.muldiv32_u32 /\ involutive_on 64 Gen_bit_reversal.muldiv32_u64.
Proof. exact all_reversals_involutive. Qed.
Print Assumptions reversals_involutive.

Example rev_nonvacuous :
  rev 32 0x00000001 = 0x80000000 /\ rev 32 0x12345678 = 0x1e6a2c48 /\
  Gen_bit_reversal.swar_u32 0x12345678 = Some 0x1e6a2c48 /\
  Gen_bit_reversal.lookup_u64 0x0123456789abcdef = Some 0xf7b3d591e6a2c480 /\
  Gen_bit_reversal.muldiv_u64 0x0123456789abcdef = Some 0xf7b3d591e6a2c480.
Proof. vm_compute. repeat split. Qed.
