(** * Properties_C25_Gen — companion of Properties_C25, section (d): the splitter theorems with the initial splitter
    state produced by the GENERATED constructors (LV.Gen.Gen_split_ctor, unit split_ctor of
    tools/cxx2v/units_C25_init.json) instead of a stated record.  Only statements (closed by [exact <lemma>]),
    [Print Assumptions], and non-vacuity examples.

    (1) what each generated constructor returns, for every argument (and where it is undefined);
    (2) every theorem of Properties_C25 (d) restated as [s0 <- constructor ... ;; run cut s0 widths = ...]:
        number_splitter for the eight integer types (every number), split_bitstring / byte_splitter for source
        objects of 1, 2, 4, 6, 8 bytes (the instantiated sizes; c_bitstring_size is a template constant, the theorems
        of Properties_C25 themselves hold for every size). *)
Require Import ZArith List Bool Lia.
Require Import LV.Base.CInt LV.Proofs.C25_Bits LV.Proofs.C25_Fields LV.Proofs.C25_NumSplit LV.Proofs.C25_ByteSplit
               LV.Proofs.C25_GenInit.
Require LV.Gen.Gen_split LV.Gen.Gen_split_ctor.
Import ListNotations.
Local Open Scope Z_scope.
Local Open Scope cint_scope.

(** ** (1) the generated constructors *)

Theorem generated_number_splitter_constructors :
  (forall n, Gen_split_ctor.ns_i16_init n = Some (Gen_split.mk_ns_i16 n 0)) /\
  (forall n off, Gen_split_ctor.ns_i16_init_at n off = Some (Gen_split.mk_ns_i16 n (cast u32 off))) /\
  (forall n, Gen_split_ctor.ns_u16_init n = Some (Gen_split.mk_ns_u16 n 0)) /\
  (forall n off, Gen_split_ctor.ns_u16_init_at n off = Some (Gen_split.mk_ns_u16 n (cast u32 off))) /\
  (forall n, Gen_split_ctor.ns_i32_init n = Some (Gen_split.mk_ns_i32 n 0)) /\
  (forall n off, Gen_split_ctor.ns_i32_init_at n off = Some (Gen_split.mk_ns_i32 n (cast u32 off))) /\
  (forall n, Gen_split_ctor.ns_u32_init n = Some (Gen_split.mk_ns_u32 n 0)) /\
  (forall n off, Gen_split_ctor.ns_u32_init_at n off = Some (Gen_split.mk_ns_u32 n (cast u32 off))) /\
  (forall n, Gen_split_ctor.ns_i64_init n = Some (Gen_split.mk_ns_i64 n 0)) /\
  (forall n off, Gen_split_ctor.ns_i64_init_at n off = Some (Gen_split.mk_ns_i64 n (cast u32 off))) /\
  (forall n, Gen_split_ctor.ns_u64_init n = Some (Gen_split.mk_ns_u64 n 0)) /\
  (forall n off, Gen_split_ctor.ns_u64_init_at n off = Some (Gen_split.mk_ns_u64 n (cast u32 off))) /\
  (forall n, Gen_split_ctor.ns_i64ll_init n = Some (Gen_split.mk_ns_i64ll n 0)) /\
  (forall n off, Gen_split_ctor.ns_i64ll_init_at n off = Some (Gen_split.mk_ns_i64ll n (cast u32 off))) /\
  (forall n, Gen_split_ctor.ns_u64ll_init n = Some (Gen_split.mk_ns_u64ll n 0)) /\
  (forall n off, Gen_split_ctor.ns_u64ll_init_at n off = Some (Gen_split.mk_ns_u64ll n (cast u32 off))).
Proof. exact (conj gen_ns_i16_init (conj gen_ns_i16_init_at (conj gen_ns_u16_init (conj gen_ns_u16_init_at (conj gen_ns_i32_init (conj gen_ns_i32_init_at (conj gen_ns_u32_init (conj gen_ns_u32_init_at (conj gen_ns_i64_init (conj gen_ns_i64_init_at (conj gen_ns_u64_init (conj gen_ns_u64_init_at (conj gen_ns_i64ll_init (conj gen_ns_i64ll_init_at (conj gen_ns_u64ll_init gen_ns_u64ll_init_at))))))))))))))). Qed.
Print Assumptions generated_number_splitter_constructors.

Theorem generated_split_bitstring_u32_constructors :
  (forall mem, Gen_split_ctor.sb_u32_1_init mem = if zlen mem =? 1 then Some (Gen_split.mk_sb_u32 0 0 0 (zlen mem)) else None) /\
  (forall mem off, zlen mem = 1 -> 0 <= off <= 8 * 1 -> Gen_split_ctor.sb_u32_1_init_at mem off = Some (Gen_split.mk_sb_u32 (off / 8) (off mod 8) 0 1)) /\
  (forall mem off, zlen mem <> 1 \/ (0 <= off < 2 ^ 64 /\ 1 < off / 8) -> Gen_split_ctor.sb_u32_1_init_at mem off = None) /\
  (forall mem, Gen_split_ctor.sb_u32_2_init mem = if zlen mem =? 2 then Some (Gen_split.mk_sb_u32 0 0 0 (zlen mem)) else None) /\
  (forall mem off, zlen mem = 2 -> 0 <= off <= 8 * 2 -> Gen_split_ctor.sb_u32_2_init_at mem off = Some (Gen_split.mk_sb_u32 (off / 8) (off mod 8) 0 2)) /\
  (forall mem off, zlen mem <> 2 \/ (0 <= off < 2 ^ 64 /\ 2 < off / 8) -> Gen_split_ctor.sb_u32_2_init_at mem off = None) /\
  (forall mem, Gen_split_ctor.sb_u32_4_init mem = if zlen mem =? 4 then Some (Gen_split.mk_sb_u32 0 0 0 (zlen mem)) else None) /\
  (forall mem off, zlen mem = 4 -> 0 <= off <= 8 * 4 -> Gen_split_ctor.sb_u32_4_init_at mem off = Some (Gen_split.mk_sb_u32 (off / 8) (off mod 8) 0 4)) /\
  (forall mem off, zlen mem <> 4 \/ (0 <= off < 2 ^ 64 /\ 4 < off / 8) -> Gen_split_ctor.sb_u32_4_init_at mem off = None) /\
  (forall mem, Gen_split_ctor.sb_u32_6_init mem = if zlen mem =? 6 then Some (Gen_split.mk_sb_u32 0 0 0 (zlen mem)) else None) /\
  (forall mem off, zlen mem = 6 -> 0 <= off <= 8 * 6 -> Gen_split_ctor.sb_u32_6_init_at mem off = Some (Gen_split.mk_sb_u32 (off / 8) (off mod 8) 0 6)) /\
  (forall mem off, zlen mem <> 6 \/ (0 <= off < 2 ^ 64 /\ 6 < off / 8) -> Gen_split_ctor.sb_u32_6_init_at mem off = None) /\
  (forall mem, Gen_split_ctor.sb_u32_8_init mem = if zlen mem =? 8 then Some (Gen_split.mk_sb_u32 0 0 0 (zlen mem)) else None) /\
  (forall mem off, zlen mem = 8 -> 0 <= off <= 8 * 8 -> Gen_split_ctor.sb_u32_8_init_at mem off = Some (Gen_split.mk_sb_u32 (off / 8) (off mod 8) 0 8)) /\
  (forall mem off, zlen mem <> 8 \/ (0 <= off < 2 ^ 64 /\ 8 < off / 8) -> Gen_split_ctor.sb_u32_8_init_at mem off = None).
Proof.
  exact (conj gen_sb_u32_1_init (conj gen_sb_u32_1_init_at (conj gen_sb_u32_1_init_at_undefined (conj gen_sb_u32_2_init (conj gen_sb_u32_2_init_at (conj gen_sb_u32_2_init_at_undefined (conj gen_sb_u32_4_init (conj gen_sb_u32_4_init_at (conj gen_sb_u32_4_init_at_undefined (conj gen_sb_u32_6_init (conj gen_sb_u32_6_init_at (conj gen_sb_u32_6_init_at_undefined (conj gen_sb_u32_8_init (conj gen_sb_u32_8_init_at gen_sb_u32_8_init_at_undefined)))))))))))))).
Qed.
Print Assumptions generated_split_bitstring_u32_constructors.

Theorem generated_split_bitstring_u32_constructor_by_size : forall mem,
  (In (zlen mem) sizes -> gen_sb_u32_init mem = Some (Gen_split.mk_sb_u32 0 0 0 (zlen mem))) /\
  (~ In (zlen mem) sizes -> gen_sb_u32_init mem = None).
Proof. exact (fun mem => conj (gen_sb_u32_init_spec mem) (gen_sb_u32_init_other mem)). Qed.
Print Assumptions generated_split_bitstring_u32_constructor_by_size.

Theorem generated_split_bitstring_u64_constructors :
  (forall mem, Gen_split_ctor.sb_u64_1_init mem = if zlen mem =? 1 then Some (Gen_split.mk_sb_u64 0 0 0 (zlen mem)) else None) /\
  (forall mem off, zlen mem = 1 -> 0 <= off <= 8 * 1 -> Gen_split_ctor.sb_u64_1_init_at mem off = Some (Gen_split.mk_sb_u64 (off / 8) (off mod 8) 0 1)) /\
  (forall mem off, zlen mem <> 1 \/ (0 <= off < 2 ^ 64 /\ 1 < off / 8) -> Gen_split_ctor.sb_u64_1_init_at mem off = None) /\
  (forall mem, Gen_split_ctor.sb_u64_2_init mem = if zlen mem =? 2 then Some (Gen_split.mk_sb_u64 0 0 0 (zlen mem)) else None) /\
  (forall mem off, zlen mem = 2 -> 0 <= off <= 8 * 2 -> Gen_split_ctor.sb_u64_2_init_at mem off = Some (Gen_split.mk_sb_u64 (off / 8) (off mod 8) 0 2)) /\
  (forall mem off, zlen mem <> 2 \/ (0 <= off < 2 ^ 64 /\ 2 < off / 8) -> Gen_split_ctor.sb_u64_2_init_at mem off = None) /\
  (forall mem, Gen_split_ctor.sb_u64_4_init mem = if zlen mem =? 4 then Some (Gen_split.mk_sb_u64 0 0 0 (zlen mem)) else None) /\
  (forall mem off, zlen mem = 4 -> 0 <= off <= 8 * 4 -> Gen_split_ctor.sb_u64_4_init_at mem off = Some (Gen_split.mk_sb_u64 (off / 8) (off mod 8) 0 4)) /\
  (forall mem off, zlen mem <> 4 \/ (0 <= off < 2 ^ 64 /\ 4 < off / 8) -> Gen_split_ctor.sb_u64_4_init_at mem off = None) /\
  (forall mem, Gen_split_ctor.sb_u64_6_init mem = if zlen mem =? 6 then Some (Gen_split.mk_sb_u64 0 0 0 (zlen mem)) else None) /\
  (forall mem off, zlen mem = 6 -> 0 <= off <= 8 * 6 -> Gen_split_ctor.sb_u64_6_init_at mem off = Some (Gen_split.mk_sb_u64 (off / 8) (off mod 8) 0 6)) /\
  (forall mem off, zlen mem <> 6 \/ (0 <= off < 2 ^ 64 /\ 6 < off / 8) -> Gen_split_ctor.sb_u64_6_init_at mem off = None) /\
  (forall mem, Gen_split_ctor.sb_u64_8_init mem = if zlen mem =? 8 then Some (Gen_split.mk_sb_u64 0 0 0 (zlen mem)) else None) /\
  (forall mem off, zlen mem = 8 -> 0 <= off <= 8 * 8 -> Gen_split_ctor.sb_u64_8_init_at mem off = Some (Gen_split.mk_sb_u64 (off / 8) (off mod 8) 0 8)) /\
  (forall mem off, zlen mem <> 8 \/ (0 <= off < 2 ^ 64 /\ 8 < off / 8) -> Gen_split_ctor.sb_u64_8_init_at mem off = None).
Proof.
  exact (conj gen_sb_u64_1_init (conj gen_sb_u64_1_init_at (conj gen_sb_u64_1_init_at_undefined (conj gen_sb_u64_2_init (conj gen_sb_u64_2_init_at (conj gen_sb_u64_2_init_at_undefined (conj gen_sb_u64_4_init (conj gen_sb_u64_4_init_at (conj gen_sb_u64_4_init_at_undefined (conj gen_sb_u64_6_init (conj gen_sb_u64_6_init_at (conj gen_sb_u64_6_init_at_undefined (conj gen_sb_u64_8_init (conj gen_sb_u64_8_init_at gen_sb_u64_8_init_at_undefined)))))))))))))).
Qed.
Print Assumptions generated_split_bitstring_u64_constructors.

Theorem generated_split_bitstring_u64_constructor_by_size : forall mem,
  (In (zlen mem) sizes -> gen_sb_u64_init mem = Some (Gen_split.mk_sb_u64 0 0 0 (zlen mem))) /\
  (~ In (zlen mem) sizes -> gen_sb_u64_init mem = None).
Proof. exact (fun mem => conj (gen_sb_u64_init_spec mem) (gen_sb_u64_init_other mem)). Qed.
Print Assumptions generated_split_bitstring_u64_constructor_by_size.

Theorem generated_byte_splitter_u32_constructors :
  (forall mem, Gen_split_ctor.bs_u32_1_init mem = if zlen mem =? 1 then Some (Gen_split.mk_bs_u32 0 0 (zlen mem)) else None) /\
  (forall mem off, zlen mem = 1 -> 0 <= off <= 8 * 1 -> Gen_split_ctor.bs_u32_1_init_at mem off = Some (Gen_split.mk_bs_u32 (off / 8) 0 1)) /\
  (forall mem off, zlen mem <> 1 \/ (0 <= off < 2 ^ 64 /\ 1 < off / 8) -> Gen_split_ctor.bs_u32_1_init_at mem off = None) /\
  (forall mem, Gen_split_ctor.bs_u32_2_init mem = if zlen mem =? 2 then Some (Gen_split.mk_bs_u32 0 0 (zlen mem)) else None) /\
  (forall mem off, zlen mem = 2 -> 0 <= off <= 8 * 2 -> Gen_split_ctor.bs_u32_2_init_at mem off = Some (Gen_split.mk_bs_u32 (off / 8) 0 2)) /\
  (forall mem off, zlen mem <> 2 \/ (0 <= off < 2 ^ 64 /\ 2 < off / 8) -> Gen_split_ctor.bs_u32_2_init_at mem off = None) /\
  (forall mem, Gen_split_ctor.bs_u32_4_init mem = if zlen mem =? 4 then Some (Gen_split.mk_bs_u32 0 0 (zlen mem)) else None) /\
  (forall mem off, zlen mem = 4 -> 0 <= off <= 8 * 4 -> Gen_split_ctor.bs_u32_4_init_at mem off = Some (Gen_split.mk_bs_u32 (off / 8) 0 4)) /\
  (forall mem off, zlen mem <> 4 \/ (0 <= off < 2 ^ 64 /\ 4 < off / 8) -> Gen_split_ctor.bs_u32_4_init_at mem off = None) /\
  (forall mem, Gen_split_ctor.bs_u32_6_init mem = if zlen mem =? 6 then Some (Gen_split.mk_bs_u32 0 0 (zlen mem)) else None) /\
  (forall mem off, zlen mem = 6 -> 0 <= off <= 8 * 6 -> Gen_split_ctor.bs_u32_6_init_at mem off = Some (Gen_split.mk_bs_u32 (off / 8) 0 6)) /\
  (forall mem off, zlen mem <> 6 \/ (0 <= off < 2 ^ 64 /\ 6 < off / 8) -> Gen_split_ctor.bs_u32_6_init_at mem off = None) /\
  (forall mem, Gen_split_ctor.bs_u32_8_init mem = if zlen mem =? 8 then Some (Gen_split.mk_bs_u32 0 0 (zlen mem)) else None) /\
  (forall mem off, zlen mem = 8 -> 0 <= off <= 8 * 8 -> Gen_split_ctor.bs_u32_8_init_at mem off = Some (Gen_split.mk_bs_u32 (off / 8) 0 8)) /\
  (forall mem off, zlen mem <> 8 \/ (0 <= off < 2 ^ 64 /\ 8 < off / 8) -> Gen_split_ctor.bs_u32_8_init_at mem off = None).
Proof.
  exact (conj gen_bs_u32_1_init (conj gen_bs_u32_1_init_at (conj gen_bs_u32_1_init_at_undefined (conj gen_bs_u32_2_init (conj gen_bs_u32_2_init_at (conj gen_bs_u32_2_init_at_undefined (conj gen_bs_u32_4_init (conj gen_bs_u32_4_init_at (conj gen_bs_u32_4_init_at_undefined (conj gen_bs_u32_6_init (conj gen_bs_u32_6_init_at (conj gen_bs_u32_6_init_at_undefined (conj gen_bs_u32_8_init (conj gen_bs_u32_8_init_at gen_bs_u32_8_init_at_undefined)))))))))))))).
Qed.
Print Assumptions generated_byte_splitter_u32_constructors.

Theorem generated_byte_splitter_u32_constructor_by_size : forall mem,
  (In (zlen mem) sizes -> gen_bs_u32_init mem = Some (Gen_split.mk_bs_u32 0 0 (zlen mem))) /\
  (~ In (zlen mem) sizes -> gen_bs_u32_init mem = None).
Proof. exact (fun mem => conj (gen_bs_u32_init_spec mem) (gen_bs_u32_init_other mem)). Qed.
Print Assumptions generated_byte_splitter_u32_constructor_by_size.

Theorem generated_byte_splitter_u64_constructors :
  (forall mem, Gen_split_ctor.bs_u64_1_init mem = if zlen mem =? 1 then Some (Gen_split.mk_bs_u64 0 0 (zlen mem)) else None) /\
  (forall mem off, zlen mem = 1 -> 0 <= off <= 8 * 1 -> Gen_split_ctor.bs_u64_1_init_at mem off = Some (Gen_split.mk_bs_u64 (off / 8) 0 1)) /\
  (forall mem off, zlen mem <> 1 \/ (0 <= off < 2 ^ 64 /\ 1 < off / 8) -> Gen_split_ctor.bs_u64_1_init_at mem off = None) /\
  (forall mem, Gen_split_ctor.bs_u64_2_init mem = if zlen mem =? 2 then Some (Gen_split.mk_bs_u64 0 0 (zlen mem)) else None) /\
  (forall mem off, zlen mem = 2 -> 0 <= off <= 8 * 2 -> Gen_split_ctor.bs_u64_2_init_at mem off = Some (Gen_split.mk_bs_u64 (off / 8) 0 2)) /\
  (forall mem off, zlen mem <> 2 \/ (0 <= off < 2 ^ 64 /\ 2 < off / 8) -> Gen_split_ctor.bs_u64_2_init_at mem off = None) /\
  (forall mem, Gen_split_ctor.bs_u64_4_init mem = if zlen mem =? 4 then Some (Gen_split.mk_bs_u64 0 0 (zlen mem)) else None) /\
  (forall mem off, zlen mem = 4 -> 0 <= off <= 8 * 4 -> Gen_split_ctor.bs_u64_4_init_at mem off = Some (Gen_split.mk_bs_u64 (off / 8) 0 4)) /\
  (forall mem off, zlen mem <> 4 \/ (0 <= off < 2 ^ 64 /\ 4 < off / 8) -> Gen_split_ctor.bs_u64_4_init_at mem off = None) /\
  (forall mem, Gen_split_ctor.bs_u64_6_init mem = if zlen mem =? 6 then Some (Gen_split.mk_bs_u64 0 0 (zlen mem)) else None) /\
  (forall mem off, zlen mem = 6 -> 0 <= off <= 8 * 6 -> Gen_split_ctor.bs_u64_6_init_at mem off = Some (Gen_split.mk_bs_u64 (off / 8) 0 6)) /\
  (forall mem off, zlen mem <> 6 \/ (0 <= off < 2 ^ 64 /\ 6 < off / 8) -> Gen_split_ctor.bs_u64_6_init_at mem off = None) /\
  (forall mem, Gen_split_ctor.bs_u64_8_init mem = if zlen mem =? 8 then Some (Gen_split.mk_bs_u64 0 0 (zlen mem)) else None) /\
  (forall mem off, zlen mem = 8 -> 0 <= off <= 8 * 8 -> Gen_split_ctor.bs_u64_8_init_at mem off = Some (Gen_split.mk_bs_u64 (off / 8) 0 8)) /\
  (forall mem off, zlen mem <> 8 \/ (0 <= off < 2 ^ 64 /\ 8 < off / 8) -> Gen_split_ctor.bs_u64_8_init_at mem off = None).
Proof.
  exact (conj gen_bs_u64_1_init (conj gen_bs_u64_1_init_at (conj gen_bs_u64_1_init_at_undefined (conj gen_bs_u64_2_init (conj gen_bs_u64_2_init_at (conj gen_bs_u64_2_init_at_undefined (conj gen_bs_u64_4_init (conj gen_bs_u64_4_init_at (conj gen_bs_u64_4_init_at_undefined (conj gen_bs_u64_6_init (conj gen_bs_u64_6_init_at (conj gen_bs_u64_6_init_at_undefined (conj gen_bs_u64_8_init (conj gen_bs_u64_8_init_at gen_bs_u64_8_init_at_undefined)))))))))))))).
Qed.
Print Assumptions generated_byte_splitter_u64_constructors.

Theorem generated_byte_splitter_u64_constructor_by_size : forall mem,
  (In (zlen mem) sizes -> gen_bs_u64_init mem = Some (Gen_split.mk_bs_u64 0 0 (zlen mem))) /\
  (~ In (zlen mem) sizes -> gen_bs_u64_init mem = None).
Proof. exact (fun mem => conj (gen_bs_u64_init_spec mem) (gen_bs_u64_init_other mem)). Qed.
Print Assumptions generated_byte_splitter_u64_constructor_by_size.

(** ** (2) the theorems of Properties_C25 (d), started from the generated constructor *)

Theorem number_splitter_i16_cut_sequence_reconstructs_gen :
  forall n cs, ok_i16 n -> Forall (legal 16) cs -> C25_Fields.zsum cs = 16 ->
  exists vs, (s0 <- Gen_split_ctor.ns_i16_init n ;; run Gen_split.ns_i16 Gen_split.ns_i16_cut s0 cs) = Some (vs, Gen_split.mk_ns_i16 n 16) /\
             length vs = length cs /\ joinf (combine vs cs) = n mod 2 ^ 16.
Proof. exact ns_i16_cut_sequence. Qed.
Print Assumptions number_splitter_i16_cut_sequence_reconstructs_gen.

Theorem number_splitter_i16_safe_cut_sequence_reconstructs_gen :
  forall n cs, ok_i16 n -> Forall legal_safe cs -> 16 <= C25_Fields.zsum cs ->
  exists vs, (s0 <- Gen_split_ctor.ns_i16_init n ;; run Gen_split.ns_i16 Gen_split.ns_i16_safe_cut s0 cs) = Some (vs, Gen_split.mk_ns_i16 n 16) /\
             length vs = length cs /\ joinf (combine vs (clip 16 0 cs)) mod 2 ^ 16 = n mod 2 ^ 16.
Proof. exact ns_i16_safe_cut_sequence. Qed.
Print Assumptions number_splitter_i16_safe_cut_sequence_reconstructs_gen.

Theorem number_splitter_u16_cut_sequence_reconstructs_gen :
  forall n cs, ok_u16 n -> Forall (legal 16) cs -> C25_Fields.zsum cs = 16 ->
  exists vs, (s0 <- Gen_split_ctor.ns_u16_init n ;; run Gen_split.ns_u16 Gen_split.ns_u16_cut s0 cs) = Some (vs, Gen_split.mk_ns_u16 n 16) /\
             length vs = length cs /\ joinf (combine vs cs) = n mod 2 ^ 16.
Proof. exact ns_u16_cut_sequence. Qed.
Print Assumptions number_splitter_u16_cut_sequence_reconstructs_gen.

Theorem number_splitter_u16_safe_cut_sequence_reconstructs_gen :
  forall n cs, ok_u16 n -> Forall legal_safe cs -> 16 <= C25_Fields.zsum cs ->
  exists vs, (s0 <- Gen_split_ctor.ns_u16_init n ;; run Gen_split.ns_u16 Gen_split.ns_u16_safe_cut s0 cs) = Some (vs, Gen_split.mk_ns_u16 n 16) /\
             length vs = length cs /\ joinf (combine vs (clip 16 0 cs)) = n mod 2 ^ 16.
Proof. exact ns_u16_safe_cut_sequence. Qed.
Print Assumptions number_splitter_u16_safe_cut_sequence_reconstructs_gen.

Theorem number_splitter_i32_cut_sequence_reconstructs_gen :
  forall n cs, ok_i32 n -> Forall (legal 32) cs -> C25_Fields.zsum cs = 32 ->
  exists vs, (s0 <- Gen_split_ctor.ns_i32_init n ;; run Gen_split.ns_i32 Gen_split.ns_i32_cut s0 cs) = Some (vs, Gen_split.mk_ns_i32 n 32) /\
             length vs = length cs /\ joinf (combine vs cs) = n mod 2 ^ 32.
Proof. exact ns_i32_cut_sequence. Qed.
Print Assumptions number_splitter_i32_cut_sequence_reconstructs_gen.

Theorem number_splitter_i32_safe_cut_sequence_reconstructs_gen :
  forall n cs, ok_i32 n -> Forall legal_safe cs -> 32 <= C25_Fields.zsum cs ->
  exists vs, (s0 <- Gen_split_ctor.ns_i32_init n ;; run Gen_split.ns_i32 Gen_split.ns_i32_safe_cut s0 cs) = Some (vs, Gen_split.mk_ns_i32 n 32) /\
             length vs = length cs /\ joinf (combine vs (clip 32 0 cs)) mod 2 ^ 32 = n mod 2 ^ 32.
Proof. exact ns_i32_safe_cut_sequence. Qed.
Print Assumptions number_splitter_i32_safe_cut_sequence_reconstructs_gen.

Theorem number_splitter_u32_cut_sequence_reconstructs_gen :
  forall n cs, ok_u32 n -> Forall (legal 32) cs -> C25_Fields.zsum cs = 32 ->
  exists vs, (s0 <- Gen_split_ctor.ns_u32_init n ;; run Gen_split.ns_u32 Gen_split.ns_u32_cut s0 cs) = Some (vs, Gen_split.mk_ns_u32 n 32) /\
             length vs = length cs /\ joinf (combine vs cs) = n mod 2 ^ 32.
Proof. exact ns_u32_cut_sequence. Qed.
Print Assumptions number_splitter_u32_cut_sequence_reconstructs_gen.

Theorem number_splitter_u32_safe_cut_sequence_reconstructs_gen :
  forall n cs, ok_u32 n -> Forall legal_safe cs -> 32 <= C25_Fields.zsum cs ->
  exists vs, (s0 <- Gen_split_ctor.ns_u32_init n ;; run Gen_split.ns_u32 Gen_split.ns_u32_safe_cut s0 cs) = Some (vs, Gen_split.mk_ns_u32 n 32) /\
             length vs = length cs /\ joinf (combine vs (clip 32 0 cs)) = n mod 2 ^ 32.
Proof. exact ns_u32_safe_cut_sequence. Qed.
Print Assumptions number_splitter_u32_safe_cut_sequence_reconstructs_gen.

Theorem number_splitter_i64_cut_sequence_reconstructs_gen :
  forall n cs, ok_i64 n -> Forall (legal 64) cs -> C25_Fields.zsum cs = 64 ->
  exists vs, (s0 <- Gen_split_ctor.ns_i64_init n ;; run Gen_split.ns_i64 Gen_split.ns_i64_cut s0 cs) = Some (vs, Gen_split.mk_ns_i64 n 64) /\
             length vs = length cs /\ joinf (combine vs cs) = n mod 2 ^ 64.
Proof. exact ns_i64_cut_sequence. Qed.
Print Assumptions number_splitter_i64_cut_sequence_reconstructs_gen.

Theorem number_splitter_i64_safe_cut_sequence_reconstructs_gen :
  forall n cs, ok_i64 n -> Forall legal_safe cs -> 64 <= C25_Fields.zsum cs ->
  exists vs, (s0 <- Gen_split_ctor.ns_i64_init n ;; run Gen_split.ns_i64 Gen_split.ns_i64_safe_cut s0 cs) = Some (vs, Gen_split.mk_ns_i64 n 64) /\
             length vs = length cs /\ joinf (combine vs (clip 64 0 cs)) mod 2 ^ 64 = n mod 2 ^ 64.
Proof. exact ns_i64_safe_cut_sequence. Qed.
Print Assumptions number_splitter_i64_safe_cut_sequence_reconstructs_gen.

Theorem number_splitter_u64_cut_sequence_reconstructs_gen :
  forall n cs, ok_u64 n -> Forall (legal 64) cs -> C25_Fields.zsum cs = 64 ->
  exists vs, (s0 <- Gen_split_ctor.ns_u64_init n ;; run Gen_split.ns_u64 Gen_split.ns_u64_cut s0 cs) = Some (vs, Gen_split.mk_ns_u64 n 64) /\
             length vs = length cs /\ joinf (combine vs cs) = n mod 2 ^ 64.
Proof. exact ns_u64_cut_sequence. Qed.
Print Assumptions number_splitter_u64_cut_sequence_reconstructs_gen.

Theorem number_splitter_u64_safe_cut_sequence_reconstructs_gen :
  forall n cs, ok_u64 n -> Forall legal_safe cs -> 64 <= C25_Fields.zsum cs ->
  exists vs, (s0 <- Gen_split_ctor.ns_u64_init n ;; run Gen_split.ns_u64 Gen_split.ns_u64_safe_cut s0 cs) = Some (vs, Gen_split.mk_ns_u64 n 64) /\
             length vs = length cs /\ joinf (combine vs (clip 64 0 cs)) = n mod 2 ^ 64.
Proof. exact ns_u64_safe_cut_sequence. Qed.
Print Assumptions number_splitter_u64_safe_cut_sequence_reconstructs_gen.

Theorem number_splitter_i64ll_cut_sequence_reconstructs_gen :
  forall n cs, ok_i64ll n -> Forall (legal 64) cs -> C25_Fields.zsum cs = 64 ->
  exists vs, (s0 <- Gen_split_ctor.ns_i64ll_init n ;; run Gen_split.ns_i64ll Gen_split.ns_i64ll_cut s0 cs) = Some (vs, Gen_split.mk_ns_i64ll n 64) /\
             length vs = length cs /\ joinf (combine vs cs) = n mod 2 ^ 64.
Proof. exact ns_i64ll_cut_sequence. Qed.
Print Assumptions number_splitter_i64ll_cut_sequence_reconstructs_gen.

Theorem number_splitter_i64ll_safe_cut_sequence_reconstructs_gen :
  forall n cs, ok_i64ll n -> Forall legal_safe cs -> 64 <= C25_Fields.zsum cs ->
  exists vs, (s0 <- Gen_split_ctor.ns_i64ll_init n ;; run Gen_split.ns_i64ll Gen_split.ns_i64ll_safe_cut s0 cs) = Some (vs, Gen_split.mk_ns_i64ll n 64) /\
             length vs = length cs /\ joinf (combine vs (clip 64 0 cs)) mod 2 ^ 64 = n mod 2 ^ 64.
Proof. exact ns_i64ll_safe_cut_sequence. Qed.
Print Assumptions number_splitter_i64ll_safe_cut_sequence_reconstructs_gen.

Theorem number_splitter_u64ll_cut_sequence_reconstructs_gen :
  forall n cs, ok_u64ll n -> Forall (legal 64) cs -> C25_Fields.zsum cs = 64 ->
  exists vs, (s0 <- Gen_split_ctor.ns_u64ll_init n ;; run Gen_split.ns_u64ll Gen_split.ns_u64ll_cut s0 cs) = Some (vs, Gen_split.mk_ns_u64ll n 64) /\
             length vs = length cs /\ joinf (combine vs cs) = n mod 2 ^ 64.
Proof. exact ns_u64ll_cut_sequence. Qed.
Print Assumptions number_splitter_u64ll_cut_sequence_reconstructs_gen.

Theorem number_splitter_u64ll_safe_cut_sequence_reconstructs_gen :
  forall n cs, ok_u64ll n -> Forall legal_safe cs -> 64 <= C25_Fields.zsum cs ->
  exists vs, (s0 <- Gen_split_ctor.ns_u64ll_init n ;; run Gen_split.ns_u64ll Gen_split.ns_u64ll_safe_cut s0 cs) = Some (vs, Gen_split.mk_ns_u64ll n 64) /\
             length vs = length cs /\ joinf (combine vs (clip 64 0 cs)) = n mod 2 ^ 64.
Proof. exact ns_u64ll_safe_cut_sequence. Qed.
Print Assumptions number_splitter_u64ll_safe_cut_sequence_reconstructs_gen.

Theorem number_splitter_i16_safe_cut_whole_number_gen :
  forall n c, ok_i16 n -> legal_safe c -> 16 <= c ->
  (s0 <- Gen_split_ctor.ns_i16_init n ;; Gen_split.ns_i16_safe_cut s0 c) = Some (n, Gen_split.mk_ns_i16 n 16) /\
  Gen_split.ns_i16_eos (Gen_split.mk_ns_i16 n 16) = Some true.
Proof. exact (fun n c Hn Hc Hw => conj (ns_i16_safe_cut_full n c Hn Hc Hw) (ns_i16_eos_at_end n)). Qed.
Print Assumptions number_splitter_i16_safe_cut_whole_number_gen.

Theorem number_splitter_u16_safe_cut_whole_number_gen :
  forall n c, ok_u16 n -> legal_safe c -> 16 <= c ->
  (s0 <- Gen_split_ctor.ns_u16_init n ;; Gen_split.ns_u16_safe_cut s0 c) = Some (n, Gen_split.mk_ns_u16 n 16) /\
  Gen_split.ns_u16_eos (Gen_split.mk_ns_u16 n 16) = Some true.
Proof. exact (fun n c Hn Hc Hw => conj (ns_u16_safe_cut_full n c Hn Hc Hw) (ns_u16_eos_at_end n)). Qed.
Print Assumptions number_splitter_u16_safe_cut_whole_number_gen.

Theorem number_splitter_i32_safe_cut_whole_number_gen :
  forall n c, ok_i32 n -> legal_safe c -> 32 <= c ->
  (s0 <- Gen_split_ctor.ns_i32_init n ;; Gen_split.ns_i32_safe_cut s0 c) = Some (n, Gen_split.mk_ns_i32 n 32) /\
  Gen_split.ns_i32_eos (Gen_split.mk_ns_i32 n 32) = Some true.
Proof. exact (fun n c Hn Hc Hw => conj (ns_i32_safe_cut_full n c Hn Hc Hw) (ns_i32_eos_at_end n)). Qed.
Print Assumptions number_splitter_i32_safe_cut_whole_number_gen.

Theorem number_splitter_u32_safe_cut_whole_number_gen :
  forall n c, ok_u32 n -> legal_safe c -> 32 <= c ->
  (s0 <- Gen_split_ctor.ns_u32_init n ;; Gen_split.ns_u32_safe_cut s0 c) = Some (n, Gen_split.mk_ns_u32 n 32) /\
  Gen_split.ns_u32_eos (Gen_split.mk_ns_u32 n 32) = Some true.
Proof. exact (fun n c Hn Hc Hw => conj (ns_u32_safe_cut_full n c Hn Hc Hw) (ns_u32_eos_at_end n)). Qed.
Print Assumptions number_splitter_u32_safe_cut_whole_number_gen.

Theorem number_splitter_i64_safe_cut_whole_number_gen :
  forall n c, ok_i64 n -> legal_safe c -> 64 <= c ->
  (s0 <- Gen_split_ctor.ns_i64_init n ;; Gen_split.ns_i64_safe_cut s0 c) = Some (n, Gen_split.mk_ns_i64 n 64) /\
  Gen_split.ns_i64_eos (Gen_split.mk_ns_i64 n 64) = Some true.
Proof. exact (fun n c Hn Hc Hw => conj (ns_i64_safe_cut_full n c Hn Hc Hw) (ns_i64_eos_at_end n)). Qed.
Print Assumptions number_splitter_i64_safe_cut_whole_number_gen.

Theorem number_splitter_u64_safe_cut_whole_number_gen :
  forall n c, ok_u64 n -> legal_safe c -> 64 <= c ->
  (s0 <- Gen_split_ctor.ns_u64_init n ;; Gen_split.ns_u64_safe_cut s0 c) = Some (n, Gen_split.mk_ns_u64 n 64) /\
  Gen_split.ns_u64_eos (Gen_split.mk_ns_u64 n 64) = Some true.
Proof. exact (fun n c Hn Hc Hw => conj (ns_u64_safe_cut_full n c Hn Hc Hw) (ns_u64_eos_at_end n)). Qed.
Print Assumptions number_splitter_u64_safe_cut_whole_number_gen.

Theorem number_splitter_i64ll_safe_cut_whole_number_gen :
  forall n c, ok_i64ll n -> legal_safe c -> 64 <= c ->
  (s0 <- Gen_split_ctor.ns_i64ll_init n ;; Gen_split.ns_i64ll_safe_cut s0 c) = Some (n, Gen_split.mk_ns_i64ll n 64) /\
  Gen_split.ns_i64ll_eos (Gen_split.mk_ns_i64ll n 64) = Some true.
Proof. exact (fun n c Hn Hc Hw => conj (ns_i64ll_safe_cut_full n c Hn Hc Hw) (ns_i64ll_eos_at_end n)). Qed.
Print Assumptions number_splitter_i64ll_safe_cut_whole_number_gen.

Theorem number_splitter_u64ll_safe_cut_whole_number_gen :
  forall n c, ok_u64ll n -> legal_safe c -> 64 <= c ->
  (s0 <- Gen_split_ctor.ns_u64ll_init n ;; Gen_split.ns_u64ll_safe_cut s0 c) = Some (n, Gen_split.mk_ns_u64ll n 64) /\
  Gen_split.ns_u64ll_eos (Gen_split.mk_ns_u64ll n 64) = Some true.
Proof. exact (fun n c Hn Hc Hw => conj (ns_u64ll_safe_cut_full n c Hn Hc Hw) (ns_u64ll_eos_at_end n)). Qed.
Print Assumptions number_splitter_u64ll_safe_cut_whole_number_gen.

Theorem split_bitstring_u32_cut_sequence_reconstructs_gen :
  forall mem fuel, bytes_ok mem -> In (zlen mem) sizes -> (32 < fuel)%nat ->
  forall cs, Forall sb_legal_32 cs -> C25_Fields.zsum cs = 8 * zlen mem ->
  exists vs, (s0 <- gen_sb_u32_init mem ;; run Gen_split.sb_u32 (Gen_split.sb_u32_cut fuel mem) s0 cs)
             = Some (vs, Gen_split.mk_sb_u32 (zlen mem) 0 0 (zlen mem)) /\
             length vs = length cs /\ joinf (combine vs cs) = mval mem.
Proof. exact sb_u32_cut_sequence_gen. Qed.
Print Assumptions split_bitstring_u32_cut_sequence_reconstructs_gen.

Theorem split_bitstring_u32_safe_cut_sequence_reconstructs_gen :
  forall mem fuel, bytes_ok mem -> In (zlen mem) sizes -> (32 < fuel)%nat ->
  forall cs, 8 * zlen mem < 2 ^ 31 -> Forall sb_legal_32 cs -> 8 * zlen mem <= C25_Fields.zsum cs ->
  exists vs, (s0 <- gen_sb_u32_init mem ;; run Gen_split.sb_u32 (Gen_split.sb_u32_safe_cut fuel mem) s0 cs)
             = Some (vs, Gen_split.mk_sb_u32 (zlen mem) 0 0 (zlen mem)) /\
             length vs = length cs /\ joinf (combine vs (clip (8 * zlen mem) 0 cs)) = mval mem.
Proof. exact sb_u32_safe_cut_sequence_gen. Qed.
Print Assumptions split_bitstring_u32_safe_cut_sequence_reconstructs_gen.

Theorem split_bitstring_u32_safe_cut_in_bounds_gen :
  forall mem fuel, bytes_ok mem -> In (zlen mem) sizes -> (32 < fuel)%nat ->
  forall cs, 8 * zlen mem < 2 ^ 31 -> Forall sb_legal_32 cs ->
  exists vs st, (s0 <- gen_sb_u32_init mem ;; run Gen_split.sb_u32 (Gen_split.sb_u32_safe_cut fuel mem) s0 cs) = Some (vs, st).
Proof. exact sb_u32_safe_cut_in_bounds_gen. Qed.
Print Assumptions split_bitstring_u32_safe_cut_in_bounds_gen.

Theorem byte_splitter_u32_cut_sequence_reconstructs_gen :
  forall mem fuel, bytes_ok mem -> In (zlen mem) sizes -> (4 < fuel)%nat ->
  forall cs, Forall bs_legal_32 cs -> C25_Fields.zsum cs = 8 * zlen mem ->
  exists vs, (s0 <- gen_bs_u32_init mem ;; run Gen_split.bs_u32 (Gen_split.bs_u32_cut fuel mem) s0 cs)
             = Some (vs, Gen_split.mk_bs_u32 (zlen mem) 0 (zlen mem)) /\
             length vs = length cs /\ joinf (combine vs cs) = mval mem.
Proof. exact bs_u32_cut_sequence_gen. Qed.
Print Assumptions byte_splitter_u32_cut_sequence_reconstructs_gen.

Theorem byte_splitter_u32_safe_cut_sequence_reconstructs_gen :
  forall mem fuel, bytes_ok mem -> In (zlen mem) sizes -> (4 < fuel)%nat ->
  forall cs, 8 * zlen mem < 2 ^ 31 -> Forall bs_legal_32 cs -> 8 * zlen mem <= C25_Fields.zsum cs ->
  exists vs, (s0 <- gen_bs_u32_init mem ;; run Gen_split.bs_u32 (Gen_split.bs_u32_safe_cut fuel mem) s0 cs)
             = Some (vs, Gen_split.mk_bs_u32 (zlen mem) 0 (zlen mem)) /\
             length vs = length cs /\ joinf (combine vs (clip (8 * zlen mem) 0 cs)) = mval mem.
Proof. exact bs_u32_safe_cut_sequence_gen. Qed.
Print Assumptions byte_splitter_u32_safe_cut_sequence_reconstructs_gen.

Theorem byte_splitter_u32_safe_cut_in_bounds_gen :
  forall mem fuel, bytes_ok mem -> In (zlen mem) sizes -> (4 < fuel)%nat ->
  forall cs, 8 * zlen mem < 2 ^ 31 -> Forall bs_legal_32 cs ->
  exists vs st, (s0 <- gen_bs_u32_init mem ;; run Gen_split.bs_u32 (Gen_split.bs_u32_safe_cut fuel mem) s0 cs) = Some (vs, st).
Proof. exact bs_u32_safe_cut_in_bounds_gen. Qed.
Print Assumptions byte_splitter_u32_safe_cut_in_bounds_gen.

Theorem split_bitstring_u64_cut_sequence_reconstructs_gen :
  forall mem fuel, bytes_ok mem -> In (zlen mem) sizes -> (64 < fuel)%nat ->
  forall cs, Forall sb_legal_64 cs -> C25_Fields.zsum cs = 8 * zlen mem ->
  exists vs, (s0 <- gen_sb_u64_init mem ;; run Gen_split.sb_u64 (Gen_split.sb_u64_cut fuel mem) s0 cs)
             = Some (vs, Gen_split.mk_sb_u64 (zlen mem) 0 0 (zlen mem)) /\
             length vs = length cs /\ joinf (combine vs cs) = mval mem.
Proof. exact sb_u64_cut_sequence_gen. Qed.
Print Assumptions split_bitstring_u64_cut_sequence_reconstructs_gen.

Theorem split_bitstring_u64_safe_cut_sequence_reconstructs_gen :
  forall mem fuel, bytes_ok mem -> In (zlen mem) sizes -> (64 < fuel)%nat ->
  forall cs, 8 * zlen mem < 2 ^ 31 -> Forall sb_legal_64 cs -> 8 * zlen mem <= C25_Fields.zsum cs ->
  exists vs, (s0 <- gen_sb_u64_init mem ;; run Gen_split.sb_u64 (Gen_split.sb_u64_safe_cut fuel mem) s0 cs)
             = Some (vs, Gen_split.mk_sb_u64 (zlen mem) 0 0 (zlen mem)) /\
             length vs = length cs /\ joinf (combine vs (clip (8 * zlen mem) 0 cs)) = mval mem.
Proof. exact sb_u64_safe_cut_sequence_gen. Qed.
Print Assumptions split_bitstring_u64_safe_cut_sequence_reconstructs_gen.

Theorem split_bitstring_u64_safe_cut_in_bounds_gen :
  forall mem fuel, bytes_ok mem -> In (zlen mem) sizes -> (64 < fuel)%nat ->
  forall cs, 8 * zlen mem < 2 ^ 31 -> Forall sb_legal_64 cs ->
  exists vs st, (s0 <- gen_sb_u64_init mem ;; run Gen_split.sb_u64 (Gen_split.sb_u64_safe_cut fuel mem) s0 cs) = Some (vs, st).
Proof. exact sb_u64_safe_cut_in_bounds_gen. Qed.
Print Assumptions split_bitstring_u64_safe_cut_in_bounds_gen.

Theorem byte_splitter_u64_cut_sequence_reconstructs_gen :
  forall mem fuel, bytes_ok mem -> In (zlen mem) sizes -> (8 < fuel)%nat ->
  forall cs, Forall bs_legal_64 cs -> C25_Fields.zsum cs = 8 * zlen mem ->
  exists vs, (s0 <- gen_bs_u64_init mem ;; run Gen_split.bs_u64 (Gen_split.bs_u64_cut fuel mem) s0 cs)
             = Some (vs, Gen_split.mk_bs_u64 (zlen mem) 0 (zlen mem)) /\
             length vs = length cs /\ joinf (combine vs cs) = mval mem.
Proof. exact bs_u64_cut_sequence_gen. Qed.
Print Assumptions byte_splitter_u64_cut_sequence_reconstructs_gen.

Theorem byte_splitter_u64_safe_cut_sequence_reconstructs_gen :
  forall mem fuel, bytes_ok mem -> In (zlen mem) sizes -> (8 < fuel)%nat ->
  forall cs, 8 * zlen mem < 2 ^ 31 -> Forall bs_legal_64 cs -> 8 * zlen mem <= C25_Fields.zsum cs ->
  exists vs, (s0 <- gen_bs_u64_init mem ;; run Gen_split.bs_u64 (Gen_split.bs_u64_safe_cut fuel mem) s0 cs)
             = Some (vs, Gen_split.mk_bs_u64 (zlen mem) 0 (zlen mem)) /\
             length vs = length cs /\ joinf (combine vs (clip (8 * zlen mem) 0 cs)) = mval mem.
Proof. exact bs_u64_safe_cut_sequence_gen. Qed.
Print Assumptions byte_splitter_u64_safe_cut_sequence_reconstructs_gen.

Theorem byte_splitter_u64_safe_cut_in_bounds_gen :
  forall mem fuel, bytes_ok mem -> In (zlen mem) sizes -> (8 < fuel)%nat ->
  forall cs, 8 * zlen mem < 2 ^ 31 -> Forall bs_legal_64 cs ->
  exists vs st, (s0 <- gen_bs_u64_init mem ;; run Gen_split.bs_u64 (Gen_split.bs_u64_safe_cut fuel mem) s0 cs) = Some (vs, st).
Proof. exact bs_u64_safe_cut_in_bounds_gen. Qed.
Print Assumptions byte_splitter_u64_safe_cut_in_bounds_gen.

(** ** non-vacuity: constructor and cuts computed by generated code only *)
Example generated_constructors_nonvacuous :
  Gen_split_ctor.ns_i32_init (-2) = Some (Gen_split.mk_ns_i32 (-2) 0) /\
  Gen_split_ctor.ns_u64ll_init_at 5 0x100000007 = Some (Gen_split.mk_ns_u64ll 5 7) /\
  (s0 <- Gen_split_ctor.ns_i32_init (-2) ;; run Gen_split.ns_i32 Gen_split.ns_i32_cut s0 [4; 12; 9; 7])
    = Some ([14; 4095; 511; 127], Gen_split.mk_ns_i32 (-2) 32) /\
  gen_sb_u32_init [0x01; 0x23] = Some (Gen_split.mk_sb_u32 0 0 0 2) /\
  gen_sb_u32_init [0x01; 0x23; 0x45] = None /\
  Gen_split_ctor.sb_u32_4_init [0x01; 0x23] = None /\
  Gen_split_ctor.sb_u64_6_init_at [1; 2; 3; 4; 5; 6] 21 = Some (Gen_split.mk_sb_u64 2 5 0 6) /\
  Gen_split_ctor.bs_u32_2_init_at [1; 2] 24 = None /\
  In (zlen [0x01; 0x23]) sizes /\ bytes_ok [0x01; 0x23] /\ Forall sb_legal_32 [5; 11] /\
  (s0 <- gen_sb_u32_init [0x01; 0x23] ;; run Gen_split.sb_u32 (Gen_split.sb_u32_cut 40 [0x01; 0x23]) s0 [5; 11])
    = Some ([1; 280], Gen_split.mk_sb_u32 2 0 0 2) /\
  (s0 <- gen_bs_u64_init [1; 2; 3; 4; 5; 6; 7; 8] ;; run Gen_split.bs_u64 (Gen_split.bs_u64_safe_cut 9 [1; 2; 3; 4; 5; 6; 7; 8]) s0 [64; 8])
    = Some ([0x0807060504030201; 0], Gen_split.mk_bs_u64 8 0 8).
Proof.
  repeat match goal with |- _ /\ _ => split end; try (vm_compute; reflexivity);
    try (vm_compute; tauto); repeat constructor; unfold sb_legal_32; try lia.
Qed.
