(** Property C17 — resize and rehash never lose or duplicate elements, for any hash functions.
    Only statements here; proofs live in LV.Proofs.{Cuckoo,Striped,Split,Feldman}Proofs.  Sequential (one
    thread), quantified over ALL hash functions (arbitrary Coq functions: constant, low-entropy, anything),
    key sets, capacities 2^lg, probe-set sizes / thresholds, arities, load-factor policies, head/array widths.

    Result for CuckooSet: the first sentence of the property is FALSE on the current tree
    ([C17_cuckoo_resize_refuted], [C17_cuckoo_insert_loses_refuted], [C17_cuckoo_first_sentence_refuted]);
    what holds is conservation up to the explicit fall-through list of resize(), which is the ONLY way an
    element disappears.  For StripedSet, SplitListSet and FeldmanHashSet growth the property holds. *)
From Coq Require Import List NArith Arith Bool Permutation Lia.
From LV Require Import Model.CuckooSeq Model.StripedSeq Model.SplitSeq Model.FeldmanSeq.
From LV Require Import Proofs.CuckooProofs Proofs.StripedProofs Proofs.SplitProofs Proofs.FeldmanProofs.
Import ListNotations.

(** * CuckooSet *)

(** resize(): new contents + the nodes that fell through to [do_next] = old contents, as multisets: nothing is
    duplicated, nothing invented, nothing else lost.  No hypothesis on the table at all. *)
Theorem C17_cuckoo_resize_conserves :
  forall (h : nat -> key -> N) (P : params) (t : tbl),
    Permutation (elems (tabs (fst (resize h P t))) ++ snd (resize h P t)) (elems (tabs t)).
Proof. exact resize_conserves. Qed.
Print Assumptions C17_cuckoo_resize_conserves.

Theorem C17_cuckoo_resize_preserves_if_no_fallthrough :
  forall (h : nat -> key -> N) (P : params) (t : tbl),
    snd (resize h P t) = [] -> Permutation (elems (tabs (fst (resize h P t)))) (elems (tabs t)).
Proof. exact resize_preserves_if_no_fallthrough. Qed.
Print Assumptions C17_cuckoo_resize_preserves_if_no_fallthrough.

(** relocate(), any number of rounds, any start table / goal: a permutation of the contents *)
Theorem C17_cuckoo_relocate_preserves :
  forall (h : nat -> key -> N) (P : params) (rounds : nat) (ts : tables) (lgc nT : nat) (g : key),
    wf_tabs P ts lgc ->
    Permutation (elems (fst (relocate h P rounds ts lgc nT g))) (elems ts).
Proof. exact relocate_preserves. Qed.
Print Assumptions C17_cuckoo_relocate_preserves.

(** insert(): a successful insert adds exactly x, an unsuccessful one nothing — up to the nodes dropped by the
    resizes it triggered (through any number of relocation rounds and nested resizes); size() counts +1 *)
Theorem C17_cuckoo_insert_conserves :
  forall (h : nat -> key -> N) (P : params) (fuel : nat) (t : tbl) (x : key) (r : bool) (t' : tbl) (dr : list key),
    wf P t -> insert h P fuel t x = (Ok r, t', dr) ->
    wf P t' /\ Permutation (elems (tabs t') ++ dr) ((if r then [x] else []) ++ elems (tabs t)) /\
    cnt t' = (if r then S (cnt t) else cnt t).
Proof. exact insert_conserves. Qed.
Print Assumptions C17_cuckoo_insert_conserves.

(** no key is ever present twice in a table reachable by inserts and erases *)
Theorem C17_cuckoo_nodup :
  forall (h : nat -> key -> N) (P : params) (t : tbl), reach h P t -> NoDup (elems (tabs t)).
Proof. intros h P t H. apply (reach_Inv h P t H). Qed.
Print Assumptions C17_cuckoo_nodup.

(** on reachable tables find() decides membership in the contents *)
Theorem C17_cuckoo_find_iff :
  forall (h : nat -> key -> N) (P : params) (t : tbl) (x : key),
    reach h P t -> (cfind h P t x = true <-> In x (elems (tabs t))).
Proof. intros h P t x H. apply cfind_iff. now apply reach_Inv. Qed.
Print Assumptions C17_cuckoo_find_iff.

(** after an insert that reports success every key found before, and the new key, is still found — or it is in
    the fall-through list of a resize that this insert triggered *)
Theorem C17_cuckoo_insert_found_or_dropped :
  forall (h : nat -> key -> N) (P : params) (fuel : nat) (t : tbl) (x : key) (t' : tbl) (dr : list key),
    reach h P t -> insert h P fuel t x = (Ok true, t', dr) ->
    forall y, (y = x \/ cfind h P t y = true) -> cfind h P t' y = true \/ In y dr.
Proof. intros h P fuel t x t' dr H. apply insert_found_or_dropped. now apply reach_Inv. Qed.
Print Assumptions C17_cuckoo_insert_found_or_dropped.

(** THE FINDING.  There are hash functions and a table on which insert() calls resize() such that resize()
    drops an element (minimal witness, 3 keys; see Proofs/CuckooProofs.v) *)
Theorem C17_cuckoo_resize_refuted :
  exists (h : nat -> key -> N) (P : params) (t : tbl),
    resize_called_on h P t /\ snd (resize h P t) <> [].
Proof. exact resize_refuted. Qed.
Print Assumptions C17_cuckoo_resize_refuted.

Theorem C17_cuckoo_insert_loses_refuted :
  exists (h : nat -> key -> N) (P : params) (lg0 fuel : nat) (t1 t2 t3 : tbl) (d3 : list key),
    insert h P fuel (init P lg0) 0%N = (Ok true, t1, []) /\
    insert h P fuel t1 1%N = (Ok true, t2, []) /\
    insert h P fuel t2 2%N = (Ok true, t3, d3) /\
    cfind h P t2 1%N = true /\ cfind h P t3 1%N = false /\ cnt t3 = 3 /\ d3 = [1%N].
Proof. exact insert_loses_refuted. Qed.
Print Assumptions C17_cuckoo_insert_loses_refuted.

(** the property's first sentence, for CuckooSet, as a statement — and its refutation *)
Definition cuckoo_resize_preserves_statement : Prop :=
  forall (h : nat -> key -> N) (P : params) (t : tbl),
    resize_called_on h P t -> Permutation (elems (tabs (fst (resize h P t)))) (elems (tabs t)).

Theorem C17_cuckoo_first_sentence_refuted : ~ cuckoo_resize_preserves_statement.
Proof.
  intros S. destruct resize_refuted as [h [P [t [Hc Hd]]]]. specialize (S h P t Hc).
  pose proof (resize_conserves h P t) as C. rewrite <- S in C.
  apply Permutation_length in C. rewrite app_length in C.
  destruct (snd (resize h P t)); [congruence|]. simpl in C. lia.
Qed.
Print Assumptions C17_cuckoo_first_sentence_refuted.

(** non-vacuity: identity-like hashes, arity 2, probe-set size 2 / threshold 1, capacity 2: eight inserts all
    succeed, the table grows (lg 1 -> 3), nothing falls through, all eight keys are found *)
Example C17_cuckoo_nonvacuous :
  let h := h_tab [[0;1;2;3;4;5;6;7];[0;16;32;48;64;80;96;112]]%N in
  let P := mkParams 2 2 1 false in
  let outs := run_ops h P 6 12 8 (init P 1) (map (fun x => (1, N.of_nat x)) (seq 0 8)) in
  map (fun o => match o with (c, n, l, dr, found, _) => (c, n, l, dr) end) (skipn 7 outs) = [(1, 8, 3, [])] /\
  map (fun o => match o with (_, _, _, _, found, _) => found end) (skipn 7 outs) = [[0;1;2;3;4;5;6;7]%N].
Proof. vm_compute. split; reflexivity. Qed.

(** * StripedSet *)

(** internal_resize: for every hash function, the doubled table holds exactly the old elements *)
Theorem C17_striped_resize_preserves :
  forall (h : key -> N) (t : stbl),
    NoDup (selems t) -> Permutation (selems (internal_resize h t)) (selems t).
Proof. exact resize_preserves. Qed.
Print Assumptions C17_striped_resize_preserves.

(** ... and every one of them is found afterwards *)
Theorem C17_striped_resize_keeps_found :
  forall (h : key -> N) (t : stbl) (x : key),
    NoDup (selems t) -> In x (selems t) -> sfind h (internal_resize h t) x = true.
Proof. exact resize_keeps_found. Qed.
Print Assumptions C17_striped_resize_keeps_found.

(** insert with ANY resizing policy (i.e. with or without the resize it may trigger) adds exactly x *)
Theorem C17_striped_insert_conserves :
  forall (h : key -> N) (pol : nat -> nat -> nat -> bool) (t : stbl) (x : key) (r : bool) (t' : stbl),
    SInv h t -> sinsert h pol t x = (r, t') ->
    SInv h t' /\ if r then Permutation (selems t') (x :: selems t) /\ ~ In x (selems t)
                 else t' = t /\ In x (selems t).
Proof. exact sinsert_conserves. Qed.
Print Assumptions C17_striped_insert_conserves.

Example C17_striped_nonvacuous :
  (* constant hash, single_bucket_size_threshold<2>, 16 buckets: the 3rd and 4th insert resize; all found *)
  let outs := s_run_case [4; 1; 2; 12] [3;3;3;3;3]%N (map (fun x => (1, N.of_nat x)) (seq 0 5)) in
  map (fun o => match o with (c, n, l, found, _) => (c, n, l, found) end) (skipn 4 outs)
  = [(1, 5, 7, [0;1;2;3;4]%N)].
Proof. vm_compute. reflexivity. Qed.

(** * SplitListSet *)

(** growth of the bucket table followed by any sequence of lazy bucket initialisations: the regular keys of
    the one ordered list — and their order — are unchanged *)
Theorem C17_split_growth_preserves :
  forall (dso : N -> N) (t : split) (bs : list N),
    regular_keys (slist (fold_left (fun t' b => init_bucket dso (S (N.size_nat b)) t' b) bs (grow t)))
    = regular_keys (slist t).
Proof. exact growth_preserves. Qed.
Print Assumptions C17_split_growth_preserves.

Theorem C17_split_init_bucket_preserves :
  forall (dso : N -> N) (fuel : nat) (t : split) (b : N),
    regular_keys (slist (init_bucket dso fuel t b)) = regular_keys (slist t).
Proof. intros. apply init_bucket_preserves. Qed.
Print Assumptions C17_split_init_bucket_preserves.

Theorem C17_split_insert_conserves :
  forall (bh rso : key -> N) (dso : N -> N) (t : split) (x : key) (r : bool) (t' : split),
    sp_insert bh rso dso t x = (r, t') ->
    if r then Permutation (regular_keys (slist t')) (x :: regular_keys (slist t))
    else regular_keys (slist t') = regular_keys (slist t).
Proof. exact sp_insert_conserves. Qed.
Print Assumptions C17_split_insert_conserves.

Example C17_split_nonvacuous :
  (* constant bucket hash 5, load factor 1, capacity 8: three inserts grow the table (log2 1 -> 2) and
     initialise bucket 1; the regular keys are 0,1,2 *)
  let bh := fun _ : key => 5%N in let rso := fun x : key => (11 + 0 * x)%N in let dso := fun b : N => (2 * b)%N in
  let t3 := snd (sp_insert bh rso dso (snd (sp_insert bh rso dso (snd (sp_insert bh rso dso (sp_init 8 1) 0%N)) 1%N)) 2%N) in
  regular_keys (slist t3) = [0;1;2]%N /\ blog t3 = 2 /\ length (slist t3) = 5.
Proof. vm_compute. repeat split; reflexivity. Qed.

(** * FeldmanHashSet *)

(** expand_slot: the array node that replaces a data slot holds exactly the old element, which stays where its
    own next bits point (so it is found below the new node) *)
Theorem C17_feldman_expand_preserves_seq :
  forall (ab : nat) (y : key) (off : nat),
    felems (expand ab y off) = [y] /\ fwf ab (expand ab y off) /\
    (forall P : key -> Prop, P y -> fpl ab (expand ab y off) off P).
Proof. exact expand_spec. Qed.
Print Assumptions C17_feldman_expand_preserves_seq.

Theorem C17_feldman_insert_conserves :
  forall (W hb ab fuel : nat) (t : fset) (x : key) (o : outcome) (t' : fset),
    FInv hb ab t -> f_insert W hb ab fuel t x = (o, t') ->
    FInv hb ab t' /\
    match o with
    | Ok true => Permutation (f_elems t') (x :: f_elems t) /\ fcnt t' = S (fcnt t)
    | _ => Permutation (f_elems t') (f_elems t) /\ fcnt t' = fcnt t
    end.
Proof. exact f_insert_spec. Qed.
Print Assumptions C17_feldman_insert_conserves.

(** every element found before a successful insert (which may expand any number of slots) is found after it *)
Theorem C17_feldman_insert_keeps_all :
  forall (W hb ab fuel : nat) (t : fset) (x : key) (t' : fset),
    FInv hb ab t -> f_insert W hb ab fuel t x = (Ok true, t') ->
    forall y, (y = x \/ f_find hb ab t y = true) -> f_find hb ab t' y = true.
Proof. exact f_insert_keeps_all. Qed.
Print Assumptions C17_feldman_insert_keeps_all.

Example C17_feldman_nonvacuous :
  (* head 4 bits, arrays 2 bits, 16-bit hashes 5, 21, 37, 32773 share their low bits: three levels of expansion *)
  let ins := fun t x => snd (f_insert 16 4 2 40 t x) in
  let t4 := ins (ins (ins (ins (finit 4) 5%N) 21%N) 37%N) 32773%N in
  fcnt t4 = 4 /\ map (f_find 4 2 t4) [5; 21; 37; 32773; 53]%N = [true; true; true; true; false] /\
  FInv 4 2 (finit 4).
Proof. split; [vm_compute; reflexivity|]. split; [vm_compute; reflexivity|apply FInv_init]. Qed.
