(** Property C02 — DHP never frees an object a guard still protects.
    "Under the Dynamic Hazard Pointer scheme, an object passed to retire() is never given to its disposer while a
     guard that already protected it when the reclamation pass began still protects it.  This includes guards in
     blocks added once a thread exhausts its initial guards, retired lists that grew past one block, and thread
     records that were detached and reused."

    Only statements here; proofs live in LV.Proofs.Dhp*.  The model is LV.Model.Dhp (cds::gc::dhp::smr,
    thread_hp_storage with its extension list, retired_array, the two block allocators over
    cds::intrusive::FreeList); vocabulary of the statement: LV.Proofs.DhpHist ([hist], [live], [guards_since],
    [no_dispose_while_guarded]). *)
From Coq Require Import ZArith List String Lia.
From LV Require Import Base.Conc Base.Events Model.DhpLang Model.Dhp Proofs.DhpHist Proofs.DhpSeqThm Proofs.DhpProofsC02
  Proofs.DhpProofsC03.
Import ListNotations.
Local Open Scope Z_scope.

(** For every initial guard count, every capacity of the guard / retired blocks, every number of threads, every
    client program (attach, detach, Guard / ~Guard in any number — extension blocks —, assign, clear, protect,
    publish, retire in any number — retired-block growth —, scan, re-attach) and EVERY schedule: whenever a
    thread hands a pointer p to the disposer inside a scan (also the scans run by retire, detach and help_scan)
    that began at event index s0, no hazard cell that belongs to an attached thread record since before s0 —
    cell of the initial array or of any extension block linked into the record's guard list, reused records
    and reused blocks included — has held p without interruption since before s0.
    Hypothesis [flbad ... = false]: on this trace the two embedded free lists never handed out a block they did
    not hold (that is property C21 for cds::intrusive::FreeList; the ghost event "_alloc" that would falsify it
    is part of the trace). *)
Theorem C02_dhp_no_dispose_while_guarded :
  forall (fuel : nat) (c : Dhp.cfg) (ths : list (list Dhp.op)) conf,
    Conc.reach (Dhp.init_cfg fuel c ths) conf ->
    flbad (hist (Conc.trace conf)) = false ->
    no_dispose_while_guarded c (Conc.trace conf).
Proof. exact dhp_no_dispose_while_guarded_partial. Qed.
Print Assumptions C02_dhp_no_dispose_while_guarded.

(** the retired array of one record, sequentially: every retire / scan sequence, every hazard list, every block
    capacity >= 4 (retired lists that grow past one block): each pointer freed at most once, nothing written
    outside a block, and what the destructor frees at the end is exactly what is still pending *)
Theorem C02_dhp_retired_array_sequential :
  forall (c : Dhp.cfg) (os : list sop), (4 <= c_RB c)%nat -> c_old c = false -> NoDup (retired_of os) ->
    let '(g, d) := seq_run c 0 os (seq_init c) in
    NoDup d /\ incl d (retired_of os) /\ oob g = false /\ Permutation.Permutation (seq_final c 0 g ++ d) (retired_of os).
Proof. intros c os H4 Ho Hn. apply dhp_seq_at_most_once; auto. lia. Qed.
Print Assumptions C02_dhp_retired_array_sequential.

(** non-vacuity of the concurrent theorem: two threads, extension blocks (capacity 2, five guards with four
    initial cells), a guarded object survives the other thread's scan and is disposed by a later one; the free
    lists behaved ([flbad] = false) and dispose events do occur *)
Example C02_nonvacuous :
  let r := Dhp.run_case [4; 2; 4; 0; 200; 1; 0]
             [[[1]; [12;0;1;5]; [8;0;1]; [15;0;2]; [6;4]; [8;0;3]];
              [[1]; [15;0;1]; [9;5]; [9;6]; [10]; [8;0;2]; [15;0;3]; [10]]] [] 5000 in
  snd r = true /\ flbad (hist (fst r)) = false /\
  map snd (filter (fun e => is_cli "dispose" (snd e)) (fst r)) = [EvCli "dispose" [6]; EvCli "dispose" [5]].
Proof. vm_compute. repeat split; reflexivity. Qed.

(** regression of non-vacuity: the sequential statement is false for the extend() of before commit 1cc4b4f *)
Example C02_old_extend_refuted :
  exists c os, c_old c = true /\ (4 <= c_RB c)%nat /\ NoDup (retired_of os) /\ ~ NoDup (snd (seq_run c 0 os (seq_init c))).
Proof. exact dhp_old_extend_refuted. Qed.
