(** Property C02 — DHP never frees an object a guard still protects (interim: the concurrent theorem is being
    assembled in Proofs/DhpScan*.v; this file lists what is proved so far). *)
From Coq Require Import ZArith List String.
From LV Require Import Base.Conc Base.Events Model.DhpLang Model.Dhp Proofs.DhpHist Proofs.DhpSeqThm.
Import ListNotations.
Local Open Scope Z_scope.

Example C02_model_runs :
  snd (Dhp.run_case [4; 2; 4; 0; 50; 1; 1] [[[1]; [3;0]; [5;0;1]; [9;1]; [9;2]; [10]; [2]]] [] 2000) = true.
Proof. vm_compute. reflexivity. Qed.
