(** Property C02 — DHP never frees an object a guard still protects.
    "Under the Dynamic Hazard Pointer scheme, an object passed to retire() is never given to its disposer while a
     guard that already protected it when the reclamation pass began still protects it.  This includes guards in
     blocks added once a thread exhausts its initial guards, retired lists that grew past one block, and thread
     records that were detached and reused."

    Only statements here; proofs live in LV.Proofs.Dhp*.  The model is LV.Model.Dhp (cds::gc::dhp::smr,
    thread_hp_storage with its extension list, retired_array, the two block allocators over
    cds::intrusive::FreeList); vocabulary of the statement: LV.Proofs.DhpHist ([hist], [live], [guards_since],
    [no_dispose_while_guarded]). *)
From Coq Require Import ZArith List String Lia.
From LV Require Import Base.Conc Base.Events Model.DhpLang Model.Dhp Proofs.DhpHist Proofs.DhpSeqThm Proofs.DhpProofsC02
  Proofs.DhpProofsC03.
Import ListNotations.
Local Open Scope Z_scope.

(** For every initial guard count, every capacity of the guard / retired blocks, every number of threads, every
    client program (attach, detach, Guard / ~Guard in any number — extension blocks —, assign, clear, protect,
    publish, retire in any number — retired-block growth —, scan, re-attach) and EVERY schedule: whenever a
    thread hands a pointer p to the disposer inside a scan (also the scans run by retire, detach and help_scan)
    that began at event index s0, no hazard cell that belongs to an attached thread record since before s0 —
    cell of the initial array or of any extension block linked into the record's guard list, reused records
    and reused blocks included — has held p without interruption since before s0.
    Hypothesis [flbad ... = false]: on this trace the two embedded free lists never handed out a block they did
    not hold (that is property C21 for cds::intrusive::FreeList; the ghost event "_alloc" that would falsify it
    is part of the trace). *)
Theorem C02_dhp_no_dispose_while_guarded :
  forall (fuel : nat) (c : Dhp.cfg) (ths : list (list Dhp.op)) conf,
    Conc.reach (Dhp.init_cfg fuel c ths) conf ->
    flbad (hist (Conc.trace conf)) = false ->
    no_dispose_while_guarded c (Conc.trace conf).
Proof. exact dhp_no_dispose_while_guarded_partial. Qed.
Print Assumptions C02_dhp_no_dispose_while_guarded.

(** the retired array of one record, sequentially: every retire / scan sequence, every hazard list, every block
    capacity >= 4 (retired lists that grow past one block): each pointer freed at most once, nothing written
    outside a block, and what the destructor frees at the end is exactly what is still pending *)
Theorem C02_dhp_retired_array_sequential :
  forall (c : Dhp.cfg) (os : list sop), (4 <= c_RB c)%nat -> c_old c = false -> NoDup (retired_of os) ->
    let '(g, d) := seq_run c 0 os (seq_init c) in
    NoDup d /\ incl d (retired_of os) /\ oob g = false /\ Permutation.Permutation (seq_final c 0 g ++ d) (retired_of os).
Proof. intros c os H4 Ho Hn. apply dhp_seq_at_most_once; auto. lia. Qed.
Print Assumptions C02_dhp_retired_array_sequential.

(** non-vacuity of the concurrent theorem: two threads, extension blocks (capacity 2, five guards with four
    initial cells), a guarded object survives the other thread's scan and is disposed by a later one; the free
    lists behaved ([flbad] = false) and dispose events do occur *)
Example C02_nonvacuous :
  let r := Dhp.run_case [4; 2; 4; 0; 200; 1; 0]
             [[[1]; [12;0;1;5]; [8;0;1]; [15;0;2]; [6;4]; [8;0;3]];
              [[1]; [15;0;1]; [9;5]; [9;6]; [10]; [8;0;2]; [15;0;3]; [10]]] [] 5000 in
  snd r = true /\ flbad (hist (fst r)) = false /\
  map snd (filter (fun e => is_cli "dispose" (snd e)) (fst r)) = [EvCli "dispose" [6]; EvCli "dispose" [5]].
Proof. vm_compute. repeat split; reflexivity. Qed.

(** regression of non-vacuity: the sequential statement is false for the extend() of before commit 1cc4b4f *)
Example C02_old_extend_refuted :
  exists c os, c_old c = true /\ (4 <= c_RB c)%nat /\ NoDup (retired_of os) /\ ~ NoDup (snd (seq_run c 0 os (seq_init c))).
Proof. exact dhp_old_extend_refuted. Qed.

(** * The same theorem WITHOUT the free-list hypothesis (composition with C21's open-world FreeList proof)

    [flbad (hist (Conc.trace conf)) = false] is now a theorem (LV.Proofs.DhpFlThm.dhp_flbad_false): on every reachable
    trace of every DHP client program the two embedded cds::intrusive::FreeList instances (hp_allocator over the guard
    blocks, retired_allocator over the retired blocks) hand out only blocks they hold.  Proof: the open-world FreeList
    invariant (LV.Proofs.FreeListOpen...: the C21 state invariant with blocks moving in and out of the list's custody,
    block creation, two instances in one state) is kept by every DHP thread as long as the DHP side only gives back
    blocks it owns; the DHP block-ownership invariants (JA for guard blocks; JO /\ JK /\ JR, the pointer-free part of
    the C03 invariant, for retired blocks: LV.Proofs.DhpFlBInv) and a knowledge invariant (only announced and
    initialised blocks are named by shared pointers; LV.Proofs.DhpFlX) are kept as long as the free lists behave; the two
    are tied together event by event (LV.Proofs.DhpFlKnot).
    Remaining side conditions, none about the free lists and none about the client program: the current code's
    configuration ([c_old], [c_oldtail] select the behaviour of before commits 1cc4b4f / cf24f31 and exist for
    regression witnesses only), retired-block capacity >= 4 (256 in /repo), and fewer than 2^31 - 3 threads (the 31-bit
    reference count of a free-list node: C21's bound). *)
From LV Require Import Proofs.DhpFlThm.

Theorem C02_dhp_flbad_false :
  forall (fuel : nat) (c : Dhp.cfg) (ths : list (list Dhp.op)) conf,
    (4 <= c_RB c)%nat -> c_old c = false -> c_oldtail c = false ->
    Z.of_nat (List.length ths) + 3 < 2147483648 ->
    Conc.reach (Dhp.init_cfg fuel c ths) conf ->
    flbad (hist (Conc.trace conf)) = false.
Proof. exact dhp_flbad_false. Qed.
Print Assumptions C02_dhp_flbad_false.

Theorem C02_dhp_no_dispose_while_guarded_unconditional :
  forall (fuel : nat) (c : Dhp.cfg) (ths : list (list Dhp.op)) conf,
    (4 <= c_RB c)%nat -> c_old c = false -> c_oldtail c = false ->
    Z.of_nat (List.length ths) + 3 < 2147483648 ->
    Conc.reach (Dhp.init_cfg fuel c ths) conf ->
    no_dispose_while_guarded c (Conc.trace conf).
Proof. exact dhp_no_dispose_while_guarded_unconditional. Qed.
Print Assumptions C02_dhp_no_dispose_while_guarded_unconditional.

(** non-vacuity: the hypotheses hold of a concrete reachable configuration of the two-thread program of
    [C02_nonvacuous] (extension blocks, a guarded object survives a scan), in which the disposer is called *)
Example C02_unconditional_nonvacuous :
  let c := Dhp.mkCfg 4 2 4 false 200 1 false in
  let ths := map Dhp.decode_ops
               [[[1]; [12;0;1;5]; [8;0;1]; [15;0;2]; [6;4]; [8;0;3]];
                [[1]; [15;0;1]; [9;5]; [9;6]; [10]; [8;0;2]; [15;0;3]; [10]]] in
  let conf := fst (Conc.run 5000 0 [] (Dhp.init_cfg 5000 c ths)) in
  (4 <= c_RB c)%nat /\ c_old c = false /\ c_oldtail c = false /\ Z.of_nat (List.length ths) + 3 < 2147483648 /\
  Conc.reach (Dhp.init_cfg 5000 c ths) conf /\
  map snd (filter (fun e => is_cli "dispose" (snd e)) (Conc.trace conf)) = [EvCli "dispose" [6]; EvCli "dispose" [5]].
Proof.
  cbv zeta. split; [vm_compute; lia|]. split; [reflexivity|]. split; [reflexivity|]. split; [vm_compute; reflexivity|].
  split; [apply Conc.run_reach|]. vm_compute; reflexivity.
Qed.
