(** Property C09 (under construction: theorems are added below as they are proved) *)
From Coq Require Import ZArith List String.
From LV Require Import Base.Conc Base.Events Model.Treiber.
Import ListNotations.
Local Open Scope Z_scope.
Local Open Scope string_scope.

Example C09_treiber_run :
  let r := Treiber.run_case [0; 50] [[[1;10]; [2]]; [[1;20]; [2]; [2]]] [0;1;0;1;1;0;0;1]%nat 1000 in
  snd r = true /\
  List.length (filter (is_cli "ret_pop") (map snd (fst r))) = 3%nat.
Proof. vm_compute. split; reflexivity. Qed.
