(** Property C09 — stacks are linearizable LIFO, with or without elimination.
    Only statements here; proofs live in LV.Proofs.TreiberProofs / ElimProofs / TreiberStackFacts.

    [hist tr] is the invoke/response history read off a trace: "inv_push v" / "ret_push b" / "inv_pop" /
    "ret_pop b v" events of thread t become HInv t (Push v) / HRes t (RBool b) / HInv t Pop /
    HRes t (RVal (Some v | None)).  [linearizable Stack h] is Herlihy-Wing linearizability w.r.t. the
    sequential LIFO specification LV.Spec.Specs.Stack (LV.Base.Lin).

    HYPOTHESES BUILT INTO THE MODELS (not re-proved here):
    (smr_safe, DESIGN 4) a stack node is named by (allocating thread, index of the push) and is never allocated
      twice: no node is recycled while a hazard pointer validated by Guard::protect can still reach it.  This is
      what cds::gc::HP provides (property C01); it is what rules out ABA at pop's compare-and-swap.
    (slot lock) the plain accesses made under collisions[i].lock are one model step together with the first atomic
      access after the acquisition; their atomicity in the real code is the mutual exclusion of cds::sync::spin_lock
      (property C22).
    Sequential consistency; compare_exchange_weak does not fail spuriously. *)
From Coq Require Import ZArith List String.
From LV Require Import Base.Conc Base.Events Base.Lin Spec.Specs.
From LV Require Model.Treiber Model.Elim Proofs.TreiberProofs Proofs.ElimProofs Proofs.TreiberStackFacts.
From LV Require Model.FcKernel Model.FcBatch Proofs.FcKernelProofs Proofs.FcContainers.
Import ListNotations.
Local Open Scope Z_scope.
Local Open Scope string_scope.

Notation hist := TreiberProofs.hist.

(** ** cds::container::TreiberStack<cds::gc::HP,int> without elimination (LV.Model.Treiber)

    For every number of threads, every client program of push / pop operations, every loop fuel and EVERY
    schedule (every sequence of thread choices), the history of every reachable configuration is the erasure of a
    trace with valid linearization points (successful m_Top CAS; validated null load for an empty pop) ... *)
Theorem C09_treiber_lp_valid :
  forall (fuel : nat) (ths : list (list Treiber.op)) c,
    Conc.reach (Treiber.init_cfg fuel ths) c ->
    exists atr, lp_valid Stack atr /\ erase atr = hist (Conc.trace c).
Proof. exact TreiberProofs.treiber_lp_valid. Qed.
Print Assumptions C09_treiber_lp_valid.

(** ... hence linearizable to a sequential LIFO stack. *)
Theorem C09_treiber_linearizable :
  forall (fuel : nat) (ths : list (list Treiber.op)) c,
    Conc.reach (Treiber.init_cfg fuel ths) c ->
    linearizable Stack (hist (Conc.trace c)).
Proof. exact TreiberProofs.treiber_linearizable. Qed.
Print Assumptions C09_treiber_linearizable.

(** the m_pNext chain from m_Top is always finite, null-terminated and duplicate free *)
Theorem C09_treiber_chain_wellformed :
  forall (fuel : nat) (ths : list (list Treiber.op)) c,
    Conc.reach (Treiber.init_cfg fuel ths) c ->
    exists l, TreiberProofs.chain (Treiber.next (Conc.shared c)) (Treiber.top (Conc.shared c)) l /\ NoDup l.
Proof. exact TreiberProofs.treiber_chain_wellformed. Qed.
Print Assumptions C09_treiber_chain_wellformed.

(** ** the same stack WITH elimination back-off (LV.Model.Elim)

    For every collision-array capacity, every list of random numbers per thread, every number of threads, every
    client program, every loop fuel and EVERY schedule: valid linearization points exist — at a collision the
    active collider's store of op_collided is the linearization point of BOTH operations (push, then pop) ... *)
Theorem C09_treiber_elim_lp_valid :
  forall (fuel cap : nat) (ths : list (list nat * list Elim.op)) c,
    Conc.reach (Elim.init_cfg fuel cap ths) c ->
    exists atr, lp_valid Stack atr /\ erase atr = hist (Conc.trace c).
Proof. exact ElimProofs.treiber_elim_lp_valid. Qed.
Print Assumptions C09_treiber_elim_lp_valid.

Theorem C09_treiber_elim_linearizable :
  forall (fuel cap : nat) (ths : list (list nat * list Elim.op)) c,
    Conc.reach (Elim.init_cfg fuel cap ths) c ->
    linearizable Stack (hist (Conc.trace c)).
Proof. exact ElimProofs.treiber_elim_linearizable. Qed.
Print Assumptions C09_treiber_elim_linearizable.

(** ** "An eliminated push/pop pair delivers the pushed item to exactly one popper"

    History level, for both models (and for every linearizable stack history): a pop returns only items some
    push carries, and — push values being pairwise distinct — no item is returned by two pops.  Together with
    the linearization points above (the collision linearizes the pop with the partner's item as its result, and
    [lp_valid] forces the response to be that result) this is the client-visible content of the sentence. *)
Theorem C09_pop_no_invention :
  forall h : history Stack, linearizable Stack h ->
    forall i v, TreiberStackFacts.pop_returns h i (Some v) -> TreiberStackFacts.pushed h v.
Proof. exact TreiberStackFacts.stack_no_invention. Qed.
Print Assumptions C09_pop_no_invention.

Theorem C09_item_to_at_most_one_popper :
  forall h : history Stack, linearizable Stack h -> TreiberStackFacts.distinct_pushes h ->
    forall i1 i2 v, TreiberStackFacts.pop_returns h i1 (Some v) -> TreiberStackFacts.pop_returns h i2 (Some v) -> i1 = i2.
Proof. exact TreiberStackFacts.stack_at_most_once. Qed.
Print Assumptions C09_item_to_at_most_one_popper.

(** the two history-level facts instantiated on the elimination model *)
Theorem C09_elim_delivery_history :
  forall (fuel cap : nat) (ths : list (list nat * list Elim.op)) c,
    Conc.reach (Elim.init_cfg fuel cap ths) c ->
    let h := hist (Conc.trace c) in
    (forall i v, TreiberStackFacts.pop_returns h i (Some v) -> TreiberStackFacts.pushed h v) /\
    (TreiberStackFacts.distinct_pushes h ->
     forall i1 i2 v, TreiberStackFacts.pop_returns h i1 (Some v) -> TreiberStackFacts.pop_returns h i2 (Some v) -> i1 = i2).
Proof.
  intros fuel cap ths c Hr h. pose proof (ElimProofs.treiber_elim_linearizable fuel cap ths c Hr) as L. split.
  - now apply TreiberStackFacts.stack_no_invention.
  - now apply TreiberStackFacts.stack_at_most_once.
Qed.
Print Assumptions C09_elim_delivery_history.

(** Node level, for every schedule: in every reachable configuration a node that sits in the descriptor of a pop
    (op.pVal of an operation with idOp = op_pop: it was handed over through a collision slot) sits in no other pop
    descriptor, and it is not on the m_pNext chain from m_Top — an eliminated item never enters the list.
    (Invariant behind it, ElimProofs.HI: such a node is "spent" — its push is already linearized.) *)
Theorem C09_elim_exactly_one_popper :
  forall (fuel cap : nat) (ths : list (list nat * list Elim.op)) c,
    Conc.reach (Elim.init_cfg fuel cap ths) c ->
    let g := Conc.shared c in
    (forall t1 t2 n, Elim.d_push g t1 = false -> Elim.d_push g t2 = false ->
                     Elim.d_val g t1 = Some n -> Elim.d_val g t2 = Some n -> t1 = t2) /\
    (forall t n l, Elim.d_push g t = false -> Elim.d_val g t = Some n ->
                   TreiberProofs.chain (Elim.next g) (Elim.top g) l -> ~ In n l).
Proof. exact ElimProofs.elim_exactly_one_popper. Qed.
Print Assumptions C09_elim_exactly_one_popper.

(** ** cds::container::FCStack, elimination on or off (flat combining: LV.Model.FcKernel + LV.Model.FcBatch, tied to
    the real kernel by the C23 step correspondence and to the real FCStack by the verified lincheck on its histories):
    linearizable to the LIFO stack for every schedule, any number of threads incl. thread exits and publication-list
    compaction, when every request is a batch_combine or the combine pass count is at least 1. *)
Theorem C09_fcstack_linearizable :
  forall fuel mask npass ths c,
    FcKernelProofs.ops_ok FcBatch.s_okop ths ->
    FcContainers.passes_ok npass ths ->
    Conc.reach (FcContainers.s_init_cfg true fuel mask npass ths) c ->
    linearizable Stack (FcContainers.fc_history Stack FcBatch.res_dec FcBatch.s_dec (Conc.trace c)).
Proof. exact FcContainers.fcstack_linearizable. Qed.
Print Assumptions C09_fcstack_linearizable.

(** ** non-vacuity *)
(** a concrete 2-thread run with a contended CAS in which three pops return (two values, one empty) *)
Example C09_treiber_nonvacuous :
  let r := Treiber.run_case [0; 50] [[[1;10]; [2]]; [[1;20]; [2]; [2]]] [0;1;0;1;1;0;0;1]%nat 1000 in
  snd r = true /\
  List.length (filter (is_cli "ret_pop") (map snd (fst r))) = 3%nat /\
  List.length (hist (fst r)) = 10%nat /\
  existsb (fun e => match e with EvAcc KCas _ false => true | _ => false end) (map snd (fst r)) = true.
Proof. vm_compute. repeat split; reflexivity. Qed.

(** a concrete 3-thread run of the elimination model (capacity 3, everybody draws slot 0) in which a pusher stores
    op_collided into a waiting popper's descriptor: the run finishes, both pops return, and the history has 12 events *)
Definition collision_in (tr : list (nat * ev)) : bool :=
  existsb (fun te => match snd te with
                     | EvAcc KSt (5 :: u :: _) true => negb (Z.eqb (Z.of_nat (fst te)) u)
                     | _ => false
                     end) tr.

Example C09_elim_nonvacuous :
  let r := Elim.run_case [0; 400; 1; 3; 1; 1; 0; 0; 0] [[[2]; [1;101]; [1;102]]; [[1;200]; [1;201]]; [[2]]] [0;1]%nat 2000 in
  snd r = true /\ collision_in (fst r) = true /\
  List.length (filter (is_cli "ret_pop") (map snd (fst r))) = 2%nat /\
  List.length (hist (fst r)) = 12%nat.
Proof. vm_compute. repeat split; reflexivity. Qed.
