(** Property C09 — stacks are linearizable LIFO, with or without elimination.
    Only statements here; proofs live in LV.Proofs.TreiberProofs / LV.Proofs.ElimProofs.

    [hist tr] is the invoke/response history read off a trace: "inv_push v" / "ret_push b" / "inv_pop" /
    "ret_pop b v" events of thread t become HInv t (Push v) / HRes t (RBool b) / HInv t Pop /
    HRes t (RVal (Some v | None)).  [linearizable Stack h] is Herlihy-Wing linearizability w.r.t. the
    sequential LIFO specification LV.Spec.Specs.Stack (LV.Base.Lin).

    HYPOTHESIS BUILT INTO THE MODELS (smr_safe, DESIGN 4): a stack node is named by (allocating thread, index of
    the push) and is never allocated twice; i.e. no node is recycled while a hazard pointer validated by
    Guard::protect can still reach it.  This is what cds::gc::HP provides (property C01) and it is what rules out
    ABA at pop's compare-and-swap; it is NOT re-proved here. *)
From Coq Require Import ZArith List String.
From LV Require Import Base.Conc Base.Events Base.Lin Spec.Specs Model.Treiber Proofs.TreiberProofs.
Import ListNotations.
Local Open Scope Z_scope.
Local Open Scope string_scope.

(** cds::container::TreiberStack<cds::gc::HP,int> without elimination: for every number of threads, every
    client program of push / pop operations, every loop fuel and EVERY schedule (every sequence of thread
    choices), the history of every reachable configuration is the erasure of a trace with valid
    linearization points (successful m_Top CAS; validated null load for an empty pop) ... *)
Theorem C09_treiber_lp_valid :
  forall (fuel : nat) (ths : list (list Treiber.op)) c,
    Conc.reach (Treiber.init_cfg fuel ths) c ->
    exists atr, lp_valid Stack atr /\ erase atr = hist (Conc.trace c).
Proof. exact treiber_lp_valid. Qed.
Print Assumptions C09_treiber_lp_valid.

(** ... hence linearizable to a sequential LIFO stack. *)
Theorem C09_treiber_linearizable :
  forall (fuel : nat) (ths : list (list Treiber.op)) c,
    Conc.reach (Treiber.init_cfg fuel ths) c ->
    linearizable Stack (hist (Conc.trace c)).
Proof. exact treiber_linearizable. Qed.
Print Assumptions C09_treiber_linearizable.

(** the m_pNext chain from m_Top is always finite, null-terminated and duplicate free *)
Theorem C09_treiber_chain_wellformed :
  forall (fuel : nat) (ths : list (list Treiber.op)) c,
    Conc.reach (Treiber.init_cfg fuel ths) c ->
    exists l, chain (next (Conc.shared c)) (top (Conc.shared c)) l /\ NoDup l.
Proof. exact treiber_chain_wellformed. Qed.
Print Assumptions C09_treiber_chain_wellformed.

(** non-vacuity: a concrete 2-thread run with a contended CAS in which three pops return (two values, one
    empty) and whose history has 10 events *)
Example C09_treiber_nonvacuous :
  let r := Treiber.run_case [0; 50] [[[1;10]; [2]]; [[1;20]; [2]; [2]]] [0;1;0;1;1;0;0;1]%nat 1000 in
  snd r = true /\
  List.length (filter (is_cli "ret_pop") (map snd (fst r))) = 3%nat /\
  List.length (hist (fst r)) = 10%nat /\
  existsb (fun e => match e with EvAcc KCas _ false => true | _ => false end) (map snd (fst r)) = true.
Proof. vm_compute. repeat split; reflexivity. Qed.
