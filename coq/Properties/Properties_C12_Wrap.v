(** Property C12, counter wrap-around — WeakRingBuffer<T> stays an exact SPSC FIFO when its uint64_t counters
    front_ / back_ wrap past 2^64, if and only if the index map survives the wrap, i.e. the capacity divides 2^64.
    Only statements here; proofs live in LV.Proofs.RingWrapProofs (model: LV.Model.Ring, unchanged, started by
    LV.Model.RingWrap in the state of a ring that [s] elements already went through).

    These theorems are Properties_C12's typed-ring theorems WITHOUT the hypothesis [vol pos + cap < 2^64]
    ("the counters do not wrap"): no bound on the number of pushed elements, and an arbitrary start offset [s]
    (front_ = back_ = pfront_ = cback_ = s mod 2^64; s = 0 is Ring.init_cfg, [init_cfg_at_0]).

    Vocabulary as in Properties_C12: [pushed_of tr] / [popped_of tr] = concatenation of the arguments of the
    "push_ok" / "pop_ok" events, [qsize tr] = |pushed_of tr| - |popped_of tr| = true number of elements in the
    ring at the instant [tr] ends.  All of them count from the start of the run, they are unbounded integers.

    Hypotheses of every theorem (boolean predicate / arithmetic, nothing else):
      [cap_wrap_ok exp2 cap = true]  =  [cap_ok exp2 cap] (capacity >= 1, a power of two when the mask is used)
                                        && cap <= 2^63 && 2^64 mod cap = 0
                                     i.e. the capacity is a power of two 1 .. 2^63 — whichever of
                                     [idx & (cap-1)] / [idx % cap] the buffer uses.  Every Exp2 = true buffer of
                                     cds/opt/buffer.h satisfies it;
      [0 <= s]                       the start offset is a number of elements (not used by the proofs).
    For Exp2 = false with a capacity that does not divide 2^64 the statement is FALSE after the wrap:
    [C12w_ring_wrap_nonpow2_refuted] (capacity 3, one element lost and one delivered twice). *)
From Coq Require Import ZArith List String.
From LV Require Import Base.Conc Base.Events Model.Ring Model.RingWrap Proofs.RingBase Proofs.RingProofs
  Proofs.RingWrapProofs.
Import ListNotations.
Local Open Scope Z_scope.

(** every schedule, every capacity dividing 2^64, every start offset, every pair of client programs of any
    length: popped elements are a prefix of the pushed elements *)
Theorem C12w_ring_fifo_exact :
  forall (exp2 : bool) (cap s : Z) (pos : list pop_) (cos : list cop) c,
    cap_wrap_ok exp2 cap = true -> 0 <= s ->
    Conc.reach (init_cfg_at exp2 cap s pos cos) c ->
    exists rest, pushed_of (Conc.trace c) = popped_of (Conc.trace c) ++ rest.
Proof. exact ringw_fifo_exact. Qed.
Print Assumptions C12w_ring_fifo_exact.

(** ... and the elements not yet popped are still in the buffer, the i-th pushed one in the cell the code
    computes from the wrapped counter value (s + i) mod 2^64 *)
Theorem C12w_ring_contents_exact :
  forall (exp2 : bool) (cap s : Z) (pos : list pop_) (cos : list cop) c,
    cap_wrap_ok exp2 cap = true -> 0 <= s ->
    Conc.reach (init_cfg_at exp2 cap s pos cos) c ->
    forall i, zlen (popped_of (Conc.trace c)) <= i < zlen (pushed_of (Conc.trace c)) ->
      znth (pushed_of (Conc.trace c)) i = Some (g_cells (Conc.shared c) (idx exp2 cap (u64 (s + i)))).
Proof. exact ringw_contents_exact. Qed.
Print Assumptions C12w_ring_contents_exact.

(** the concrete counters are the ghost counts modulo 2^64, and the ghost counts stay within one capacity *)
Theorem C12w_ring_counters_exact :
  forall (exp2 : bool) (cap s : Z) (pos : list pop_) (cos : list cop) c,
    cap_wrap_ok exp2 cap = true -> 0 <= s ->
    Conc.reach (init_cfg_at exp2 cap s pos cos) c ->
    g_back (Conc.shared c) = u64 (s + zlen (pushed_of (Conc.trace c))) /\
    g_front (Conc.shared c) = u64 (s + zlen (popped_of (Conc.trace c))) /\
    0 <= zlen (popped_of (Conc.trace c)) <= zlen (pushed_of (Conc.trace c)) /\
    zlen (pushed_of (Conc.trace c)) <= zlen (popped_of (Conc.trace c)) + cap.
Proof. exact ringw_counters_exact. Qed.
Print Assumptions C12w_ring_counters_exact.

(** a push of n elements fails only if, at an instant of the call, free space < n *)
Theorem C12w_ring_push_fails_only_if_no_space :
  forall (exp2 : bool) (cap s : Z) (pos : list pop_) (cos : list cop) c,
    cap_wrap_ok exp2 cap = true -> 0 <= s ->
    Conc.reach (init_cfg_at exp2 cap s pos cos) c ->
    forall tr1 t n tr2, Conc.trace c = tr1 ++ (t, EvCli "push_fail" [n]) :: tr2 -> cap - qsize tr1 < n.
Proof. exact ringw_push_fails_only_if_no_space. Qed.
Print Assumptions C12w_ring_push_fails_only_if_no_space.

(** a pop of n elements fails only if fewer than n elements are present; front() returns nullptr only if the
    ring is empty (at an instant of the call) *)
Theorem C12w_ring_pop_fails_only_if_too_few :
  forall (exp2 : bool) (cap s : Z) (pos : list pop_) (cos : list cop) c,
    cap_wrap_ok exp2 cap = true -> 0 <= s ->
    Conc.reach (init_cfg_at exp2 cap s pos cos) c ->
    (forall tr1 t n tr2, Conc.trace c = tr1 ++ (t, EvCli "pop_fail" [n]) :: tr2 -> qsize tr1 < n) /\
    (forall tr1 t tr2, Conc.trace c = tr1 ++ (t, EvCli "front_null" []) :: tr2 -> qsize tr1 < 1).
Proof.
  intros. split.
  - eapply ringw_pop_fails_only_if_too_few; eauto.
  - eapply ringw_front_null_only_if_empty; eauto.
Qed.
Print Assumptions C12w_ring_pop_fails_only_if_too_few.

(** front() returns the oldest element not yet popped; pop_front() right after it never fails; size() is in
    [0, capacity] whichever thread calls it — also when back_ has wrapped and front_ has not *)
Theorem C12w_ring_front_and_size :
  forall (exp2 : bool) (cap s : Z) (pos : list pop_) (cos : list cop) c,
    cap_wrap_ok exp2 cap = true -> 0 <= s ->
    Conc.reach (init_cfg_at exp2 cap s pos cos) c ->
    (forall tr1 t v tr2, Conc.trace c = tr1 ++ (t, EvCli "front_ok" [v]) :: tr2 ->
       znth (pushed_of tr1) (zlen (popped_of tr1)) = Some v) /\
    (forall tr1 t args tr2, Conc.trace c <> tr1 ++ (t, EvCli "popfront_fail" args) :: tr2) /\
    (forall tr1 t n tr2, Conc.trace c = tr1 ++ (t, EvCli "size" [n]) :: tr2 -> 0 <= n <= cap).
Proof.
  intros. split; [|split].
  - eapply ringw_front_exact; eauto.
  - eapply ringw_pop_front_after_front_succeeds; eauto.
  - eapply ringw_size_in_bounds; eauto.
Qed.
Print Assumptions C12w_ring_front_and_size.

(** the divisibility hypothesis cannot be dropped: FIFO for every [cap_ok] capacity
    ([ring_fifo_any_cap_statement], the statement of C12w_ring_fifo_exact with [cap_ok] instead of
    [cap_wrap_ok]) is refuted by capacity 3 at s = 2^64 - 1: push( {10, 11} ) then pop( 2 ) returns {11, 11}
    (both elements were written to cell 0 because (2^64 - 1) % 3 = 0 = 0 % 3).  A finding about the real code:
    WeakRingBuffer over a non-power-of-two buffer (Exp2 = false) breaks after 2^64 pushes. *)
Theorem C12w_ring_wrap_nonpow2_refuted :
  ~ (forall (exp2 : bool) (cap s : Z) (pos : list pop_) (cos : list cop) c,
       cap_ok exp2 cap = true -> 0 <= s -> Conc.reach (init_cfg_at exp2 cap s pos cos) c ->
       exists rest, pushed_of (Conc.trace c) = popped_of (Conc.trace c) ++ rest) /\
  exists (pos : list pop_) (cos : list cop) c,
    cap_ok false 3 = true /\ Conc.reach (init_cfg_at false 3 (2 ^ 64 - 1) pos cos) c /\
    pushed_of (Conc.trace c) = [10; 11] /\ popped_of (Conc.trace c) = [11; 11].
Proof. exact ring_wrap_nonpow2_refuted. Qed.
Print Assumptions C12w_ring_wrap_nonpow2_refuted.

(** non-vacuity, actually crossing 2^64: capacity 4 (mask), counters start at 2^64 - 3.  A batch push that
    fails for lack of space, a batch pop that fails for lack of elements, eight elements delivered in order
    through push( arr, n ), push( v ), pop( arr, n ), front() + pop_front(), pop( v ); back_ wraps while the
    ring holds {12} .. and ends at (2^64 - 3 + 8) mod 2^64 = 5, as does front_; size() then answers 0 *)
Example C12w_ring_nonvacuous_crossing :
  cap_wrap_ok true 4 = true /\ 0 <= 2 ^ 64 - 3 /\
  let r := run_cfg_at (2 ^ 64 - 3) [4; 1; 0]
             [[[1; 10; 11; 12]; [1; 13; 14]; [1; 13; 14]; [2; 15]; [1; 16; 17]];
              [[4; 4]; [4; 2]; [4; 4]; [7]; [5]; [9]]]
             [0; 0; 0; 0; 0; 1; 1; 1; 1; 1; 0; 0; 0; 0; 0; 1; 1; 1; 0; 0; 0; 1; 1; 1; 1; 1; 1; 1; 1]%nat 1000 in
  let tr := Conc.trace (fst r) in
  snd r = true /\
  popped_of tr = [10; 11; 12; 13; 14; 15; 16; 17] /\ pushed_of tr = [10; 11; 12; 13; 14; 15; 16; 17] /\
  g_back (Conc.shared (fst r)) = 5 /\ g_front (Conc.shared (fst r)) = 5 /\
  g_back (init_at (2 ^ 64 - 3)) = 18446744073709551613 /\
  List.length (filter (is_cli "push_fail") (map snd tr)) = 1%nat /\
  List.length (filter (is_cli "pop_fail") (map snd tr)) = 1%nat /\
  filter (is_cli "size") (map snd tr) = [EvCli "size" [0]].
Proof. vm_compute. repeat split; try reflexivity; discriminate. Qed.

(** the predicate accepts exactly the powers of two up to 2^63 (samples): *)
Example C12w_cap_wrap_ok_samples :
  map (cap_wrap_ok false) [1; 2; 3; 4; 6; 1024; 2 ^ 63; 2 ^ 64] = [true; true; false; true; false; true; true; false] /\
  map (cap_wrap_ok true) [1; 2; 3; 4; 6; 1024; 2 ^ 63; 2 ^ 64] = [true; true; false; true; false; true; true; false].
Proof. vm_compute. split; reflexivity. Qed.

(** ** WeakRingBuffer<void> across the wrap (LV.Proofs.RingWrapVProofs; model LV.Model.RingV, unchanged, started by
       [vinit_cfg_at] with front_ = back_ = pfront_ = cback_ = s mod 2^64 and an empty ring)

    Properties_C12's void-ring theorems WITHOUT the hypothesis [volv cap pos + cap < 2^64].  Hypotheses:
      [capv_wrap_ok exp2 cap = true]  =  [capv_ok exp2 cap] (>= 1, multiple of 8, < 2^62, power of two under the
                                         mask) && 2^64 mod cap = 0, i.e. a power of two 8 .. 2^61;
      [0 <= s], [s mod 8 = 0]         the start offset is a value back_ can have (always a multiple of 8);
      [vop_ok cap op]                 as before: 1 <= size <= capacity, real size <= capacity.
    With a capacity that does not divide 2^64 (Exp2 = false) the ring is wrong after the wrap:
    [C12w_ringv_wrap_nondiv_refuted] (capacity 40: a record is overwritten before it is popped). *)
From LV Require Import Model.RingV Proofs.RingVBase Proofs.RingVProofs Proofs.RingWrapVProofs.

Theorem C12w_ringv_record_exact :
  forall (exp2 : bool) (cap s : Z) (pos : list vpop_) (cos : list vcop) c,
    capv_wrap_ok exp2 cap = true -> 0 <= s -> s mod 8 = 0 -> forallb (vop_ok cap) pos = true ->
    Conc.reach (vinit_cfg_at exp2 cap s pos cos) c ->
    forall tr1 t args tr2, Conc.trace c = tr1 ++ (t, EvCli "vfront_ok" args) :: tr2 ->
      exists size seed, nth_error (vpushed tr1) (npopped tr1) = Some (size, seed) /\
                        args = size :: data_bytes size seed.
Proof. exact ringwv_record_exact. Qed.
Print Assumptions C12w_ringv_record_exact.

(** front() returns nullptr only if every pushed record has been popped; pop_front() right after a successful
    front() never fails *)
Theorem C12w_ringv_front_null_and_pop :
  forall (exp2 : bool) (cap s : Z) (pos : list vpop_) (cos : list vcop) c,
    capv_wrap_ok exp2 cap = true -> 0 <= s -> s mod 8 = 0 -> forallb (vop_ok cap) pos = true ->
    Conc.reach (vinit_cfg_at exp2 cap s pos cos) c ->
    (forall tr1 t tr2, Conc.trace c = tr1 ++ (t, EvCli "vfront_null" []) :: tr2 ->
       List.length (vpushed tr1) = npopped tr1) /\
    (forall tr1 t args tr2, Conc.trace c <> tr1 ++ (t, EvCli "vpop_fail" args) :: tr2).
Proof.
  intros. split.
  - eapply ringwv_front_null_only_if_empty; eauto.
  - eapply ringwv_pop_front_after_front_succeeds; eauto.
Qed.
Print Assumptions C12w_ringv_front_null_and_pop.

(** what a failing back( size ) means, with the number of occupied bytes taken modulo 2^64:
    free = capacity - (back_ - front_) mod 2^64, tail = capacity - back_ mod capacity:
    free < rs  \/  (tail < rs /\ free - tail < rs) *)
Theorem C12w_ringv_push_fails_only_if_no_contiguous_space :
  forall (exp2 : bool) (cap s : Z) (pos : list vpop_) (cos : list vcop) c,
    capv_wrap_ok exp2 cap = true -> 0 <= s -> s mod 8 = 0 -> forallb (vop_ok cap) pos = true ->
    Conc.reach (vinit_cfg_at exp2 cap s pos cos) c ->
    forall f b size, In (f, b, size) (v_fails (Conc.shared c)) ->
      cap - u64 (b - f) < rsz size \/
      (cap - b mod cap < rsz size /\ cap - u64 (b - f) - (cap - b mod cap) < rsz size).
Proof. exact ringwv_push_fails_only_if_no_contiguous_space. Qed.
Print Assumptions C12w_ringv_push_fails_only_if_no_contiguous_space.

(** the counters are the images modulo 2^64 of ghost counters 0 <= F <= B <= F + capacity, B a multiple of 8;
    the ghost flag [v_wbad] stays clear (across the wrap the flag of LV.Model.RingV only checks "inside the
    buffer": it compares the concrete counters, see RingWrapVProofs.ringwv_no_overlap) *)
Theorem C12w_ringv_counters_and_flag :
  forall (exp2 : bool) (cap s : Z) (pos : list vpop_) (cos : list vcop) c,
    capv_wrap_ok exp2 cap = true -> 0 <= s -> s mod 8 = 0 -> forallb (vop_ok cap) pos = true ->
    Conc.reach (vinit_cfg_at exp2 cap s pos cos) c ->
    v_wbad (Conc.shared c) = false /\
    exists F B, v_front (Conc.shared c) = u64 F /\ v_back (Conc.shared c) = u64 B /\
      0 <= F <= B /\ B <= F + cap /\ B mod 8 = 0 /\
      (npopped (Conc.trace c) <= List.length (vpushed (Conc.trace c)))%nat.
Proof.
  intros. split.
  - eapply ringwv_no_overlap; eauto.
  - eapply ringwv_counters; eauto.
Qed.
Print Assumptions C12w_ringv_counters_and_flag.

(** the divisibility hypothesis cannot be dropped: capacity 40 at s = 2^64 - 16, two records of size 8; the
    second is written over the first (back_ wrapped to 0, whose offset is 0 again), front() returns the bytes
    of the second record while the first is still the oldest unpopped one *)
Theorem C12w_ringv_wrap_nondiv_refuted :
  ~ (forall (exp2 : bool) (cap s : Z) (pos : list vpop_) (cos : list vcop) c,
       capv_ok exp2 cap = true -> 0 <= s -> s mod 8 = 0 -> forallb (vop_ok cap) pos = true ->
       Conc.reach (vinit_cfg_at exp2 cap s pos cos) c ->
       forall tr1 t args tr2, Conc.trace c = tr1 ++ (t, EvCli "vfront_ok" args) :: tr2 ->
         exists size seed, nth_error (vpushed tr1) (npopped tr1) = Some (size, seed) /\
                           args = size :: data_bytes size seed) /\
  exists (pos : list vpop_) (cos : list vcop) c tr1 t tr2,
    capv_ok false 40 = true /\ forallb (vop_ok 40) pos = true /\
    Conc.reach (vinit_cfg_at false 40 (2 ^ 64 - 16) pos cos) c /\
    Conc.trace c = tr1 ++ (t, EvCli "vfront_ok" (8 :: data_bytes 8 2)) :: tr2 /\
    vpushed tr1 = [(8, 1); (8, 2)] /\ npopped tr1 = 0%nat /\ v_wbad (Conc.shared c) = false.
Proof. exact ringv_wrap_nondiv_refuted. Qed.
Print Assumptions C12w_ringv_wrap_nondiv_refuted.

(** non-vacuity, actually crossing 2^64: capacity 64 (mask), counters start at 2^64 - 40 (offset 24).  Record 1
    (real size 24) at offset 24; record 2 does not fit the 16-byte tail: the tail marker is written at counter
    2^64 - 16 and the tail skip carries back_ exactly across 2^64 (to 0); record 2 at offset 0; the consumer
    skips the tail (front_ wraps); record 3 pushed and read after both counters wrapped.  Final counters 48. *)
Example C12w_ringv_nonvacuous_crossing :
  capv_wrap_ok true 64 = true /\ (2 ^ 64 - 40) mod 8 = 0 /\
  forallb (vop_ok 64) [VPush 16 5; VPush 16 6; VPush 9 7] = true /\
  let r := run_vcfg_at (2 ^ 64 - 40) [64; 1]
             [[[1; 16; 5]; [1; 16; 6]; [1; 9; 7]]; [[6]; [6]; [6]; [4]]]
             (repeat 0 8 ++ repeat 1 11 ++ repeat 0 4 ++ repeat 1 10)%nat 1000 in
  let tr := Conc.trace (fst r) in
  snd r = true /\ vpushed tr = [(16, 5); (16, 6); (9, 7)] /\ npopped tr = 3%nat /\
  List.length (filter (is_cli "vfront_ok") (map snd tr)) = 3%nat /\
  List.length (filter (is_cli "vfront_null") (map snd tr)) = 1%nat /\
  v_back (vinit_at (2 ^ 64 - 40)) = 18446744073709551576 /\
  v_back (Conc.shared (fst r)) = 48 /\ v_front (Conc.shared (fst r)) = 48.
Proof. vm_compute. repeat split; reflexivity. Qed.
