(** Property C08 — SegmentedQueue never loses, invents or double-dequeues an item; when an item is dequeued, fewer
    than quasi-factor items whose enqueue had completed before its own enqueue began are still in the queue;
    dequeue reports empty only if every item whose enqueue completed before the call began has been dequeued by the
    time the call returns.

    Only statements here; proofs live in LV.Proofs.Segmented{Base,Steps,Safe,Main}.  Model: LV.Model.Segmented
    (cds::intrusive::SegmentedQueue<cds::gc::HP>, one atomic access per step; tied to /repo by the step
    correspondence of checks/C08.py).

    Vocabulary.  An item is (enqueuing thread, index of the enqueue in that thread, value).  The trace holds the
    client events  inv_enq x / ret_enq x / inv_deq t k / ret_deq t k (item x | empty).
      [cptr g s i = Some x]     cell i of segment s holds a pointer to x (marked or not);
      [marked g x]              some cell holds x with the "deleted" mark: x was taken by a dequeue (the mark CAS
                                is the moment x is dequeued);
      [unmarked_in g x]         some cell holds x without the mark: x is still in the queue;
      [count_ret x tr]          number of dequeue responses in tr that returned x;
      [completed_before tr e1 e2]  e1 occurred at a moment when e2 had not occurred yet (and e2 occurred later);
      [pending_deq tr t k]      dequeue k of thread t was invoked and has not responded.
    Quantifiers: EVERY schedule ([Conc.reach]: every sequence of thread choices), any number of threads, any client
    programs of enqueue/dequeue operations, every loop fuel, every constructor argument [arg]; the queue works with
    k = [ceil2 arg] cells per segment (the rounding of the C++ constructor; k = arg when arg is a power of two,
    [C08_quasi_factor_rounding]).  Hypothesis [prog_ok k ths]: in every round of every operation the permutation
    generator enumerates exactly the cell indices below k ([perm_ok]); the generator is a trait in the C++ code, and
    every program the harness can express satisfies the hypothesis ([C08_harness_programs_ok]).

    Memory-safety hypothesis [smr_safe] (DESIGN 4), built into the model: segments come from a never-reusing
    allocator, i.e. a segment is not recycled while a thread that validated a hazard-pointer guard on it can still
    reach it.  The guard traffic on segments is modelled (and checked step by step against the real code) but
    reclamation itself is not; that no guarded object is freed is the content of C01/C02. *)
From Coq Require Import ZArith List String Bool Lia.
From LV Require Import Base.Conc Base.Events Model.Segmented
     Proofs.SegmentedBase Proofs.SegmentedSteps Proofs.SegmentedSafe Proofs.SegmentedMain.
Import ListNotations.
Local Open Scope string_scope.

(** Conservation.  In every reachable configuration:
    (1) an item whose enqueue has returned sits in a cell;                      [never lost]
    (2) an item sits in at most one cell;
    (3) cells only hold items whose enqueue was invoked;                        [never invented]
    (4) no item is returned by two dequeues;                                    [never double-dequeued]
    (5) a returned item is marked in its cell (hence, by (2), not in any unmarked cell) and was enqueued;
    (6) a marked item was returned by exactly one dequeue, or the dequeue that marked it is still running.
    So every enqueued item is in exactly one unmarked cell, or was taken by exactly one dequeue. *)
Theorem C08_segq_conservation :
  forall (fuel arg : nat) (ths : list (list Segmented.op)) c,
    prog_ok (ceil2 arg) ths -> Conc.reach (Segmented.init_cfg fuel arg ths) c ->
    let g := Conc.shared c in let tr := Conc.trace c in
    (forall x, In (ev_ret_enq x) (evs tr) -> inserted g x) /\
    (forall x s i s' i', cptr g s i = Some x -> cptr g s' i' = Some x -> s = s' /\ i = i') /\
    (forall x, inserted g x -> In (ev_inv_enq x) (evs tr)) /\
    (forall x, count_ret x tr <= 1) /\
    (forall x, 1 <= count_ret x tr -> marked g x /\ In (ev_inv_enq x) (evs tr)) /\
    (forall x, marked g x -> count_ret x tr = 1 \/ (count_ret x tr = 0 /\ exists t k, pending_deq tr t k)).
Proof. exact segq_conservation. Qed.
Print Assumptions C08_segq_conservation.

(** Quasi bound.  Whenever x has been dequeued (its cell is marked), the items y whose enqueue completed before x's
    enqueue began and that are still in the queue (in an unmarked cell) number fewer than k.  The set of such y only
    shrinks after the mark CAS (marks are permanent and "completed before x began" is fixed once x began), so this
    statement over every reachable configuration is the statement "at the moment x is dequeued" evaluated in the
    configuration right after the CAS. *)
Theorem C08_segq_quasi_bound :
  forall (fuel arg : nat) (ths : list (list Segmented.op)) c,
    prog_ok (ceil2 arg) ths -> Conc.reach (Segmented.init_cfg fuel arg ths) c ->
    let g := Conc.shared c in let tr := Conc.trace c in
    forall x, marked g x ->
    forall ys, NoDup ys ->
      (forall y, In y ys -> completed_before tr (ev_ret_enq y) (ev_inv_enq x) /\ unmarked_in g y) ->
      List.length ys < ceil2 arg.
Proof. exact segq_quasi_bound. Qed.
Print Assumptions C08_segq_quasi_bound.

(** Meaning of "empty".  If dequeue k of thread t has returned empty, every item whose enqueue completed before
    that dequeue was invoked has been dequeued (marks are permanent, so "by the time the call returns" is "in every
    configuration from the response on"). *)
Theorem C08_segq_empty_meaning :
  forall (fuel arg : nat) (ths : list (list Segmented.op)) c,
    prog_ok (ceil2 arg) ths -> Conc.reach (Segmented.init_cfg fuel arg ths) c ->
    let g := Conc.shared c in let tr := Conc.trace c in
    forall t k y, In (ev_ret_deq_empty t k) (evs tr) ->
      completed_before tr (ev_ret_enq y) (ev_inv_deq t k) -> marked g y.
Proof. exact segq_empty_meaning. Qed.
Print Assumptions C08_segq_empty_meaning.

(** the quasi factor used is the constructor argument rounded up to a power of two, as in the C++ constructor *)
Theorem C08_quasi_factor_rounding :
  (forall j, ceil2 (2 ^ j) = 2 ^ j) /\ (forall n, n <= ceil2 n) /\
  ceil2 2 = 2 /\ ceil2 3 = 4 /\ ceil2 4 = 4 /\ ceil2 5 = 8 /\ ceil2 8 = 8.
Proof. split; [exact ceil2_pow2|]. split; [exact ceil2_ge|]. repeat split. Qed.
Print Assumptions C08_quasi_factor_rounding.

(** every program the correspondence driver can express (probing orders = rotations, as produced by
    random2_permutation) satisfies the hypothesis of the three theorems *)
Theorem C08_harness_programs_ok :
  forall arg (ths : list (list (list Z))), prog_ok (ceil2 arg) (map (Segmented.decode_ops (ceil2 arg)) ths).
Proof. exact decode_prog_ok. Qed.
Print Assumptions C08_harness_programs_ok.

(** non-vacuity: a concrete 3-thread run (k = 2) in which items are enqueued into two segments, dequeued out of
    FIFO order, the first segment is removed and a dequeue reports empty; the hypotheses of the theorems hold *)
Example C08_nonvacuous :
  let ths := [[[1;10;1]; [1;11;0]; [1;12;0]; [2;0]]; [[2;1]; [2;0]; [2;0;0]]; [[2;0]]]%Z in
  let r := Segmented.run_case [2; 0; 100]%Z ths [0;0;0;1;2;1]%nat 4000 in
  snd r = true /\
  List.length (filter (fun e => Z.eqb (nth 2 (match e with EvCli _ a => a | _ => [] end) 7%Z) 1 && is_cli "ret_deq" e) (map snd (fst r))) = 3%nat /\
  1 <= List.length (filter (fun e => Z.eqb (nth 2 (match e with EvCli _ a => a | _ => [] end) 7%Z) 0 && is_cli "ret_deq" e) (map snd (fst r))) /\
  prog_ok (ceil2 2) (map (Segmented.decode_ops (ceil2 2)) ths).
Proof.
  cbv zeta. split; [vm_compute; reflexivity|]. split; [vm_compute; reflexivity|]. split; [vm_compute; lia|].
  apply decode_prog_ok.
Qed.
