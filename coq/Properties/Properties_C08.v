(** Property C08 — placeholder while the proofs are being written (replaced below). *)
From Coq Require Import ZArith List String.
From LV Require Import Base.Conc Base.Events Model.Segmented.
Import ListNotations.
Local Open Scope Z_scope.
Local Open Scope string_scope.

Example C08_model_runs :
  let r := Segmented.run_case [2; 0; 100] [[[1;10;0]; [1;11;0]; [2;0]]; [[2;1]]] [0;1;0;1;1;0;0;1]%nat 1000 in
  snd r = true /\ List.length (filter (is_cli "ret_deq") (map snd (fst r))) = 2%nat.
Proof. vm_compute. split; reflexivity. Qed.
