(** Property C10, extension - FCDeque::clear(), empty(), apply(), size().

    What the C++ does (cds/container/fcdeque.h, quoted in LV.Model.FcDequeFull):
      clear()  an ordinary published request (word op_clear = 8) executed by the combiner in fc_apply
               (`while ( !m_Deque.empty()) m_Deque.pop_front();`).  fc_process has NO `case op_clear`: a clear request
               is skipped by the elimination loop and does not reset itPrev, so a push met before it and a pop met
               after it may be collided; that is sound (the pair takes effect at the combiner's instant, the clear
               later at its own execution; all three are pending at that instant).
      empty()  NOT a request: kernel::invoke_exclusive( [&]{ bRet = deq.empty(); } ) - takes the combiner lock.
      apply(f) kernel::invoke_exclusive( [&]{ f( deque ); } ).
      size()   `return m_Deque.size();` with NO synchronisation (neither lock nor request): a data race with a
               concurrent combiner, not a linearizable operation.  NO claim is made about size().

    Models: LV.Model.FcDequeFull ([dqf_apply] = fc_apply with `case op_clear`, [dqf_visit] = FcBatch.dq_visit = the
    fc_process iteration, sequential specification [DequeFull] = Specs.Deque + clear + empty; Section KernelExcl =
    LV.Model.FcKernelWake with an invoke_exclusive whose functor works on the container) on the kernel models
    LV.Model.FcKernel / FcKernelWake (step-checked against the real kernel by C23).
    Only statements here; proofs in LV.Proofs.FcDequeFull, FcDequeFullKernel, FcDequeFullExcl, FcDequeFullExclFree. *)
From Coq Require Import ZArith List String Bool.
From LV Require Import Base.Conc Base.Events Base.Lin Spec.Specs Proofs.LinProofs Model.FcKernel Model.FcKernelWake Model.FcBatch
                       Proofs.FcBatchProofs Proofs.FcKernelProofs Proofs.FcContainers
                       Model.FcDequeFull Proofs.FcDequeFull Proofs.FcDequeFullKernel.
From LV Require Proofs.FcKernelFree.
Import ListNotations.

(** *** fc_apply with its `case op_clear` is the sequential deque with clear *)
Theorem C10_full_fc_apply_is_spec : forall d op arg,
  dqf_okop op = true -> dqf_apply d op arg = sstep DequeFull d (dqf_dec op arg).
Proof. exact dqf_apply_spec. Qed.
Print Assumptions C10_full_fc_apply_is_spec.

(** *** fc_process is sound for ALL lists of pending requests, clear requests among them, and ALL deque contents
    (statement as Properties_C10.C10_fcdeque_process_sound, request words 2..8, specification with clear) *)
Theorem C10_full_process_sound : forall reqs d p' d' cs,
  NoDup (map rec_of reqs) -> Forall (fun x => dqf_okop (snd (fst (fst x))) = true) reqs ->
  dqf_process None d reqs = (p', d', cs) ->
  let rho := reqs_env reqs in
  d' = d /\
  legal (Sp:=DequeFull) d (map (fun x => (op_of DequeFull dqf_dec rho (fst x), snd x)) cs) /\
  final (Sp:=DequeFull) d (map (fun x => (op_of DequeFull dqf_dec rho (fst x), snd x)) cs) = d /\
  NoDup (map fst cs) /\
  (forall q, In q (map fst cs) -> In q (map rec_of reqs)) /\
  (forall x, In x (held_of p') -> ~ In (fst (fst x)) (map fst cs)).
Proof. exact fcdequefull_process_sound. Qed.
Print Assumptions C10_full_process_sound.

(** *** a clear request is never part of a collision: for ANY pending request words (not only 2..8) and any itPrev,
    every pair collided by fc_process is (a push word, a pop word); and a push at one end is collided with a pop at
    the other end only when the deque is empty (Properties_C10, unchanged: fc_process is unchanged) *)
Theorem C10_full_clear_never_collided : forall reqs p d rpush opush rpop opop,
  In (rpush, opush, rpop, opop) (dq_pairs p d reqs) ->
  dqf_pair_push_pop (rpush, opush, rpop, opop) = true /\ dqf_clear opush = false /\ dqf_clear opop = false.
Proof.
  intros reqs p d rpush opush rpop opop H.
  exact (conj (fcdequefull_pairs_push_pop _ _ _ _ H) (fcdequefull_clear_never_collided _ _ _ _ _ _ _ H)).
Qed.
Print Assumptions C10_full_clear_never_collided.

(** the iteration that meets a clear request does nothing - itPrev survives it: push_front 7 (record 1), clear
    (record 2), pop_front (record 3) on the deque [5]: records 1 and 3 are collided, the clear stays pending *)
Example C10_full_collide_across_clear :
  dqf_process None [5%Z] [(1, 2, 0, 7%Z); (2, 8, 1, 0%Z); (3, 6, 2, 0%Z)]%nat = (None, [5%Z], collide 1 7%Z 3).
Proof. reflexivity. Qed.

(** *** linearizability for every schedule: push_front / push_back / pop_front / pop_back / clear
    (kernel with wait_strategy::backoff; quantifiers as Properties_C10.C10_fcdeque_linearizable) *)
Theorem C10_full_linearizable :
  forall (fuel mask npass : nat) (ths : list (list cop)) c,
    ops_ok dqf_okop ths -> passes_ok npass ths -> Conc.reach (dqf_init_cfg true fuel mask npass ths) c ->
    linearizable DequeFull (fc_history DequeFull res_dec dqf_dec (Conc.trace c)).
Proof. exact fcdequefull_linearizable. Qed.
Print Assumptions C10_full_linearizable.

Theorem C10_full_lp_valid :
  forall (fuel mask npass : nat) (ths : list (list cop)) c,
    ops_ok dqf_okop ths -> passes_ok npass ths -> Conc.reach (dqf_init_cfg true fuel mask npass ths) c ->
    lp_valid DequeFull (annot DequeFull res_dec dqf_dec (Conc.trace c)).
Proof. exact fcdequefull_lp_valid. Qed.

Theorem C10_full_linearizable_if_not_lost :
  forall (chk : bool) (fuel mask npass : nat) (ths : list (list cop)) c,
    ops_ok dqf_okop ths -> Conc.reach (dqf_init_cfg chk fuel mask npass ths) c ->
    has_lost (Conc.trace c) = false ->
    linearizable DequeFull (fc_history DequeFull res_dec dqf_dec (Conc.trace c)).
Proof. exact fcdequefull_linearizable_partA. Qed.

Theorem C10_full_records_not_used_after_free :
  forall (fuel mask npass : nat) (ths : list (list cop)) c,
    ops_ok dqf_okop ths -> passes_ok npass ths -> Conc.reach (dqf_init_cfg true fuel mask npass ths) c ->
    FcKernelFree.has_uaf (Conc.trace c) = false.
Proof. exact fcdequefull_records_not_used_after_free. Qed.

(** *** the same with condition-variable wait strategies (wakeup_any) and any number of concurrent
    invoke_exclusive calls with a functor that leaves the deque alone ([WExcl]: the accesses of empty() and of a
    read-only apply()) *)
Theorem C10_full_wake_linearizable :
  forall (wk : bool) (fuel mask npass : nat) (ths : list (list wop)) c,
    dqfw_ops_ok ths -> dqfw_passes_ok npass ths -> Conc.reach (dqfw_init_cfg wk true fuel mask npass ths) c ->
    linearizable DequeFull (fc_history DequeFull res_dec dqf_dec (Conc.trace c)).
Proof. exact fcdequefull_wake_linearizable. Qed.
Print Assumptions C10_full_wake_linearizable.

(** *** empty() WITH ITS RESULT, for every schedule.
    Client programs [xop]: [XReq batch op arg] (op in 2..8) through combine / batch_combine, [XExit], and
    [XExcl 9 0] = empty() = invoke_exclusive with the functor `bRet = deq.empty()`, [XExcl 10 0] =
    apply( [&n]( deque_type const& d ) { n = d.size(); } ) (operations FEmpty / FSize of [DequeFull]); any number of
    threads, loop fuel, compact-factor mask, pass count, wait strategy [wk]; wakeup inside the lock (the current
    tree).  The kernel-level theorems (LV.Proofs.FcDequeFullExcl.fc_excl_partA, FcDequeFullExclFree.fc_excl_no_uaf)
    hold for ANY functor of apply() that is an operation of the sequential specification, updating ones included.
    The history records an empty() call as the operation FEmpty at the instant its caller acquires the combiner
    lock (between the call's real invocation "excl" and its real response "excldone", same thread): a history that
    is linearizable with these shorter intervals is linearizable with the real ones. *)
Theorem C10_full_empty_linearizable :
  forall (wk : bool) (fuel mask npass : nat) (ths : list (list xop)) c,
    dqx_ops_ok ths -> dqx_passes_ok npass ths -> Conc.reach (dqx_init_cfg wk true fuel mask npass ths) c ->
    linearizable DequeFull (fc_history DequeFull res_dec dqf_dec (Conc.trace c)).
Proof. exact fcdequefull_excl_linearizable. Qed.
Print Assumptions C10_full_empty_linearizable.

Corollary C10_full_empty_linearizable_npass :
  forall (wk : bool) (fuel mask npass : nat) (ths : list (list xop)) c,
    1 <= npass -> dqx_ops_ok ths -> Conc.reach (dqx_init_cfg wk true fuel mask npass ths) c ->
    linearizable DequeFull (fc_history DequeFull res_dec dqf_dec (Conc.trace c)).
Proof. intros wk fuel mask npass ths c Hn Hok Hr. exact (fcdequefull_excl_linearizable Hok (dqx_passes_ok_pos ths Hn) Hr). Qed.

(** stronger: at EVERY reachable configuration the std::deque holds exactly the contents of the sequential deque
    after the linearization points so far - so what the functor of empty() (or any read-only apply()) sees while it
    holds the lock is the abstract deque, and the value returned by empty() is its emptiness at that instant *)
Theorem C10_full_container_is_spec :
  forall (wk : bool) (fuel mask npass : nat) (ths : list (list xop)) c,
    dqx_ops_ok ths -> dqx_passes_ok npass ths -> Conc.reach (dqx_init_cfg wk true fuel mask npass ths) c ->
    exists st, lp_run lp_init (annot DequeFull res_dec dqf_dec (Conc.trace c)) = Some (g_cont (Conc.shared c), st).
Proof. exact fcdequefull_excl_container_is_spec. Qed.
Print Assumptions C10_full_container_is_spec.

(** one holder of the combiner lock at a time (combiners and empty() calls; "exec" only by the holder): both
    orders of the wakeup, and linearizability of every trace without the "lost" marker for both orders *)
Theorem C10_full_empty_single_holder :
  forall (wk wkin : bool) (fuel mask npass : nat) (ths : list (list xop)) c,
    dqx_ops_ok ths -> Conc.reach (dqx_init_cfg wk wkin fuel mask npass ths) c ->
    exists h, mon None (Conc.trace c) = Some h.
Proof. exact fcdequefull_excl_single_holder. Qed.

Theorem C10_full_empty_lp_valid_if_not_lost :
  forall (wk wkin : bool) (fuel mask npass : nat) (ths : list (list xop)) c,
    dqx_ops_ok ths -> Conc.reach (dqx_init_cfg wk wkin fuel mask npass ths) c ->
    has_lost (Conc.trace c) = false -> lp_valid DequeFull (annot DequeFull res_dec dqf_dec (Conc.trace c)).
Proof. exact fcdequefull_excl_lp_valid_partA. Qed.

Theorem C10_full_empty_records_not_used_after_free :
  forall (wk : bool) (fuel mask npass : nat) (ths : list (list xop)) c,
    dqx_ops_ok ths -> dqx_passes_ok npass ths -> Conc.reach (dqx_init_cfg wk true fuel mask npass ths) c ->
    FcKernelFree.has_uaf (Conc.trace c) = false /\ has_lost (Conc.trace c) = false.
Proof. exact fcdequefull_excl_never_lost. Qed.
Print Assumptions C10_full_empty_records_not_used_after_free.

(** non-vacuity: three threads, elimination on, condition-variable wait strategy.  Thread 0: push_back 5, empty()
    (false), clear(), empty() (true); thread 1: push_front 7 (pending across thread 0's clear), pop_front (empty);
    thread 2: empty() (true), pop_back (empty).  Nothing lost, 8 operations, 3 completed invoke_exclusive calls,
    the deque is empty at the end, the history passes the verified lincheck, and empty() returned both values. *)
Definition C10_full_ths : list (list xop) :=
  [[XReq true 4 5%Z; XExcl 9 0%Z; XReq true 8 0%Z; XExcl 9 0%Z]; [XReq true 2 7%Z; XReq true 6 0%Z]; [XExcl 9 0%Z; XReq false 7 0%Z]].

Example C10_full_nonvacuous :
  let c := fst (Conc.run 4000 0 (repeat 0 30 ++ repeat 1 30 ++ repeat 2 12 ++ repeat 0 200 ++ repeat 1 200 ++ repeat 2 200)%list
                  (dqx_init_cfg true true 400 0 2 C10_full_ths)) in
  let h := fc_history DequeFull res_dec dqf_dec (Conc.trace c) in
  dqx_ops_ok C10_full_ths /\ dqx_passes_ok 2 C10_full_ths /\
  has_lost (Conc.trace c) = false /\ List.length h = 16%nat /\ lincheck DequeFull h = true /\
  List.length (filter (is_ev "excldone") (Conc.trace c)) = 3%nat /\
  g_cont (Conc.shared c) = [] /\
  In (@HRes DequeFull 0 (RBool false)) h /\ In (@HRes DequeFull 2 (RBool true)) h /\ In (@HInv DequeFull 0 FClear) h.
Proof.
  split; [repeat constructor|]. split; [apply dqx_passes_ok_pos; repeat constructor|].
  vm_compute. repeat split; try reflexivity; repeat (first [left; reflexivity | right]).
Qed.

(** non-vacuity of the apply( size functor ) part: thread 1 reads the size 1 between its push_front 7 and its
    pop_front, while thread 0's push_back 5 is pending; 4 completed invoke_exclusive calls *)
Definition C10_full_ths2 : list (list xop) :=
  [[XReq true 4 5%Z; XExcl 9 0%Z; XReq true 8 0%Z; XExcl 9 0%Z]; [XReq true 2 7%Z; XExcl 10 0%Z; XReq true 6 0%Z]; [XExcl 9 0%Z; XReq false 7 0%Z]].

Example C10_full_nonvacuous_apply_size :
  let c := fst (Conc.run 4000 0 (repeat 1 30 ++ repeat 0 40 ++ repeat 2 12 ++ repeat 1 30 ++ repeat 0 200 ++ repeat 1 200 ++ repeat 2 200)%list
                  (dqx_init_cfg true true 400 0 2 C10_full_ths2)) in
  let h := fc_history DequeFull res_dec dqf_dec (Conc.trace c) in
  dqx_ops_ok C10_full_ths2 /\ dqx_passes_ok 2 C10_full_ths2 /\
  has_lost (Conc.trace c) = false /\ List.length h = 18%nat /\ lincheck DequeFull h = true /\
  List.length (filter (is_ev "excldone") (Conc.trace c)) = 4%nat /\
  In (@HInv DequeFull 1 FSize) h /\ In (@HRes DequeFull 1 (RVal (Some 1%Z))) h /\ In (@HRes DequeFull 2 (RBool false)) h.
Proof.
  split; [repeat constructor|]. split; [apply dqx_passes_ok_pos; repeat constructor|].
  vm_compute. repeat split; try reflexivity; repeat (first [left; reflexivity | right]).
Qed.
