(** Property C04 — RCU never reclaims an object a pre-existing reader may still see.
    Only statements here; proofs live in LV.Proofs.RcuGp*.

    Vocabulary (LV.Proofs.RcuGpInv): the trace of a run is the list of (thread, event) pairs in execution order;
    [at_ tr i t P] = thread t emitted at position i an event satisfying P;  "rlock 1 _" is emitted by a reader right
    after the access_lock() that opened its outermost read-side section returned, "runlock 0" right before the
    access_unlock() that closes it is called (nested sections emit rlock d / runlock d with d >= 1 and do not
    count); "sync_begin"/"sync_end" bracket a call of synchronize(); "retire p" is emitted before
    retire_ptr(p) is called and "dispose p" by the disposer.
    [open_at tr r s i] = reader r opened an outermost section at position s < i and has not left it before i.

    Scope of these theorems: the model LV.Model.RcuGp of cds/urcu/details/{base,gp_decl,gp,gpi}.h with
    Lock = cds::sync::spin_lock (flavour general_instant), tied to the code by checks/C04.py.  They hold for
    EVERY schedule ([Conc.reach] = every sequence of thread choices), any number of threads, any client programs
    (lists of attach / detach / rlock / runlock / synchronize / retire / publish / unpublish / touch in any order;
    operations the client contract forbids - synchronize, retire or detach inside a section, nesting depth 2^31 -
    are not executed), any spin fuel.  general_buffered (model LV.Model.RcuBuf, tied to cds/urcu/details/gpb.h by
    checks/C05.py): theorems C04_gpb_* below, any buffer capacity, counting or non-counting buffer; the exactly-once
    theorems are in Properties_C05.v.
    signal_buffered (model LV.Model.RcuSignal) and general_threaded (model LV.Model.RcuThreaded) CANNOT run under the
    deterministic scheduler (real signals / mutex + condition variables + a background thread): their models are tied
    to the code only by reading and by the real-thread exploration of checks/C05.py with the same monitors - there is
    no step correspondence for them.  Modelling assumptions (stated at the top of the model files): signal delivery +
    handler = one atomic step of a delivery pseudo-thread; mutex/condvar hand-offs to the reclamation thread = atomic
    test-and-post / test-and-take; join = a counter.  signal_buffered: theorems C04_shb_*.  general_threaded: theorems
    C04_gpt_* (the grace period of the caller is carried across the mailbox to the reclamation thread as a fact about
    the trace; Destruct's quit mode relies on the modelled join: all clients have left their sections).

    The sentence of C04 about raw_ptr / exempt_ptr ("pointers handed out by RCU containers stay valid until
    released outside the lock") is NOT a statement about the RCU core: such a pointer stays valid because the
    container retires the extracted node only when the holder releases it (raw_ptr::release / exempt_ptr
    destructor, outside the read-side lock), after which [C04_gpi_no_dispose_inside_old_reader] applies to that
    retire call.  The retire discipline belongs to the container models (C13/C15 RCU variants) and their
    harnesses; nothing here claims it. *)
From Coq Require Import ZArith List String.
From LV Require Import Base.Conc Base.Events Model.RcuGp Model.RcuBuf Model.RcuSignal Model.RcuThreaded Proofs.RcuGpInv
  Proofs.RcuGpSafe Proofs.RcuGpRefute Proofs.RcuBufInv Proofs.RcuBufEpoch Proofs.RcuBufProd Proofs.RcuSignalProofs Proofs.RcuThrGrace
  Proofs.RcuThrProd.
Import ListNotations.
Local Open Scope string_scope.

(** gp_synchronize_waits: for every synchronize interval [i, j] of a thread w (its sync_begin at i, the next
    sync_end at j) and every reader r whose outermost section began at s < i and was still open at i, the reader
    leaves that section at some position b with i < b < j: synchronize() returns only after all such readers
    have left.  (The two-flip argument: invariant over the writer's position in the record list and the phase
    bit each reader snapshot carries, LV.Proofs.RcuGpInv.wclause.) *)
Theorem C04_gp_synchronize_waits :
  forall (fuel : nat) (ths : list (list RcuGp.op)) c,
    Conc.reach (RcuGp.init_cfg 2 fuel ths) c ->
    forall w i j, at_ (Conc.trace c) i w is_sync_begin -> at_ (Conc.trace c) j w is_sync_end -> i < j ->
      (forall k, i < k < j -> ~ at_ (Conc.trace c) k w is_sync_begin) ->
      forall r s, open_at (Conc.trace c) r s i ->
        exists b, i < b < j /\ at_ (Conc.trace c) b r is_runlock0.
Proof. exact gp_synchronize_waits_all. Qed.
Print Assumptions C04_gp_synchronize_waits.

(** gpi_no_dispose_inside_old_reader (general_instant): every "dispose p" at position d is preceded by a
    "retire p" at some k < d (of the same thread, in this flavour) such that every reader that was inside a section
    at k (entered before the retirement) has left it before d. *)
Theorem C04_gpi_no_dispose_inside_old_reader :
  forall (fuel : nat) (ths : list (list RcuGp.op)) c,
    Conc.reach (RcuGp.init_cfg 2 fuel ths) c ->
    forall w p d, at_ (Conc.trace c) d w (is_dispose p) ->
      exists k w', k < d /\ at_ (Conc.trace c) k w' (is_retire p) /\
        forall r s, open_at (Conc.trace c) r s k -> exists b, k < b < d /\ at_ (Conc.trace c) b r is_runlock0.
Proof. exact gpi_dispose_safe_all. Qed.
Print Assumptions C04_gpi_no_dispose_inside_old_reader.

(** gpb_no_dispose_inside_old_reader (general_buffered): every "dispose p" (by whichever thread runs clear_buffer
    or the overflow path) at position d is preceded by a "retire p" at some k < d such that every reader that was
    inside a section at k has left it before d.  Via the grace-period invariant of the gp core and the epoch lemma
    (LV.Proofs.RcuBufEpoch: an entry tagged e was retired before the fetch_add that returned an epoch >= e).
    Disposals at Destruct are not events of this trace (Properties_C05: they need "no reader inside"). *)
Theorem C04_gpb_no_dispose_inside_old_reader :
  forall (sfuel rf : nat) (cap : Z) (cnt : bool) (ths : list (list RcuBuf.bop)) c,
    Conc.reach (RcuBuf.binit_cfg 2 sfuel rf cap cnt ths) c ->
    forall w p d, at_ (Conc.trace c) d w (is_dispose p) ->
      exists k w', k < d /\ at_ (Conc.trace c) k w' (is_retire p) /\
        forall r s, open_at (Conc.trace c) r s k -> exists b, k < b < d /\ at_ (Conc.trace c) b r is_runlock0.
Proof. exact gpb_dispose_safe_all. Qed.
Print Assumptions C04_gpb_no_dispose_inside_old_reader.

(** gp_synchronize_waits for general_buffered::synchronize (epoch fetch_add + lock + two flips + clear_buffer) *)
Theorem C04_gpb_synchronize_waits :
  forall (sfuel rf : nat) (cap : Z) (cnt : bool) (ths : list (list RcuBuf.bop)) c,
    Conc.reach (RcuBuf.binit_cfg 2 sfuel rf cap cnt ths) c -> sync_waits (Conc.trace c).
Proof. exact gpb_synchronize_waits_all. Qed.
Print Assumptions C04_gpb_synchronize_waits.

(** signal_buffered: synchronize (fetch_add, force_membar_all_threads, two switch_next_epoch / wait_for_quiescent_state,
    force_membar_all_threads, clear_buffer) returns only after all pre-existing readers have left, and no object is
    disposed while a reader that entered before its retirement is inside.  Threads 0..n-1 are clients, thread n is the
    signal delivery pseudo-thread. *)
Theorem C04_shb_synchronize_waits :
  forall (sfuel rf kfuel : nat) (cap : Z) (cnt : bool) (ths : list (list RcuBuf.bop)) c,
    Conc.reach (RcuSignal.sinit_cfg sfuel rf kfuel cap cnt ths) c -> sync_waits (Conc.trace c).
Proof. exact shb_synchronize_waits_all. Qed.
Print Assumptions C04_shb_synchronize_waits.

Theorem C04_shb_no_dispose_inside_old_reader :
  forall (sfuel rf kfuel : nat) (cap : Z) (cnt : bool) (ths : list (list RcuBuf.bop)) c,
    Conc.reach (RcuSignal.sinit_cfg sfuel rf kfuel cap cnt ths) c ->
    forall w p d, at_ (Conc.trace c) d w (is_dispose p) ->
      exists k w', k < d /\ at_ (Conc.trace c) k w' (is_retire p) /\
        forall r s, open_at (Conc.trace c) r s k -> exists b, k < b < d /\ at_ (Conc.trace c) b r is_runlock0.
Proof. exact shb_dispose_safe_all. Qed.
Print Assumptions C04_shb_no_dispose_inside_old_reader.

(** general_threaded (threads 0..n-1 clients, thread n the reclamation thread, thread n+1 the destructor): no object is
    disposed - by a caller on the overflow path, by the reclamation thread for a handed epoch, or by the reclamation
    thread draining the buffer at Destruct - while a reader that entered before its retirement is inside; and
    synchronize (fetch_add, lock, two flips, hand-off) returns only after all pre-existing readers have left. *)
Theorem C04_gpt_no_dispose_inside_old_reader :
  forall (sfuel rounds : nat) (cap : Z) (cnt : bool) (ths : list (list RcuBuf.bop)) c,
    Conc.reach (RcuThreaded.tinit_cfg sfuel rounds cap cnt ths) c ->
    forall w p d, at_ (Conc.trace c) d w (is_dispose p) ->
      exists k w', k < d /\ at_ (Conc.trace c) k w' (is_retire p) /\
        forall r s, open_at (Conc.trace c) r s k -> exists b, k < b < d /\ at_ (Conc.trace c) b r is_runlock0.
Proof. exact gpt_dispose_safe_all. Qed.
Print Assumptions C04_gpt_no_dispose_inside_old_reader.

Theorem C04_gpt_synchronize_waits :
  forall (sfuel rounds : nat) (cap : Z) (cnt : bool) (ths : list (list RcuBuf.bop)) c,
    Conc.reach (RcuThreaded.tinit_cfg sfuel rounds cap cnt ths) c -> sync_waits (Conc.trace c).
Proof. exact gpt_synchronize_waits_all. Qed.
Print Assumptions C04_gpt_synchronize_waits.

(** gp_single_flip_refuted (non-vacuity regression): the same model with ONE flip_and_wait in synchronize has a
    reachable trace that violates the statement of C04_gp_synchronize_waits. *)
Theorem C04_gp_single_flip_refuted :
  exists (ths : list (list RcuGp.op)) c,
    Conc.reach (RcuGp.init_cfg 1 3000 ths) c /\ ~ sync_waits (Conc.trace c).
Proof. exists cx_threads, (cx_cfg 1). exact cx_refuted. Qed.
Print Assumptions C04_gp_single_flip_refuted.

(** the hypotheses of C04_gp_synchronize_waits are satisfiable: on the same schedule the real (two-flip) model
    has a synchronize interval [i2, j2] of thread 1 with reader 0 inside since s2 < i2, and the reader's
    "runlock 0" lies at b2 inside the interval *)
Example C04_gp_synchronize_waits_nonvacuous :
  at_ (cx_trace 2) i2 1 is_sync_begin /\ at_ (cx_trace 2) j2 1 is_sync_end /\ i2 < j2 /\
  (forall k, i2 < k < j2 -> ~ at_ (cx_trace 2) k 1 is_sync_begin) /\
  open_at (cx_trace 2) 0 s2 i2 /\ i2 < b2 < j2 /\ at_ (cx_trace 2) b2 0 is_runlock0.
Proof. exact two_flip_instance. Qed.

(** a concrete run in which an object is retired while a reader is inside and disposed after the reader left *)
Example C04_gpi_dispose_nonvacuous :
  let r := RcuGp.run_case [2; 3000]%Z [[[1]; [3]; [9]; [9]]; [[1]; [7; 5]; [8]; [6; 5]]]%Z
             [1;1;1;1;1;1;0;0;0;0;0;0;0;0;0;0;1;1;1;1;1;1;1;1;1;1;1;1;1;1;1;1;1;1;1;1;1;1;1;1;0]%nat 3000 in
  snd r = true /\ List.length (filter (is_cli "dispose") (map snd (fst r))) = 1%nat /\
  List.length (filter (is_cli "touch") (map snd (fst r))) = 1%nat.
Proof. vm_compute. repeat split; reflexivity. Qed.

(** general_buffered, capacity 2 (non-counting): thread 1 retires objects 1 and 2 while reader 0 is inside a section;
    thread 2's synchronize runs clear_buffer and disposes both (a disposal by a thread other than the retiring one),
    after the reader has left *)
Example C04_gpb_dispose_nonvacuous :
  let r := RcuBuf.run_case [2; 3000; 2; 0; 40]%Z [[[1]; [3]; [9]; [4]]; [[1]; [6; 1]; [6; 2]]; [[1]; [5]]]%Z
             [0;0;0;0;0;0;0;0;1;1;1;1;1;1;1;1;1;1;1;2;2;2;2;2;2;2;2;2;2;2;2;2;2;2;0;0;0;0]%nat 5000 in
  snd r = true /\ map (fun p => ndisp p (filter (fun x => Nat.eqb (fst x) 2) (fst r))) [1; 2]%Z = [1; 1]%nat.
Proof. vm_compute. split; reflexivity. Qed.

(** signal_buffered: a run with capacity 2 in which a synchronize waits through force_membar_all_threads (the delivery
    pseudo-thread clears the flags), all five objects are disposed and both clients complete *)
Example C04_shb_nonvacuous :
  let r := RcuSignal.run_case [300; 2; 0; 40; 300]%Z [[[1]; [3]; [9]; [4]]; [[1]; [6; 1]; [6; 2]; [6; 3]; [10; 4; 5]; [5]]]%Z [] 6000 in
  snd r = true /\ map (fun p => ndisp p (fst r)) [1; 2; 3; 4; 5]%Z = [1; 1; 1; 1; 1]%nat /\
  List.length (filter (is_cli "sync_end") (map snd (fst r))) = 1%nat.
Proof. vm_compute. repeat split; reflexivity. Qed.

(** general_threaded: two clients, capacity 2; reader 0 enters a section, client 1 retires five objects; the reclamation
    thread (thread 2) disposes at least one of them, a synchronize of client 1 completes, the destructor stops the thread *)
Example C04_gpt_nonvacuous :
  let r := RcuThreaded.run_case [300; 2; 0; 20]%Z [[[1]; [3]; [9]; [4]]; [[1]; [6; 1]; [6; 2]; [6; 3]; [10; 4; 5]; [5]]]%Z [] 6000 in
  snd r = true /\ List.length (filter (is_cli "sync_end") (map snd (fst r))) = 1%nat /\
  List.length (filter (fun x => andb (Nat.eqb (fst x) 2) (is_cli "dispose" (snd x))) (fst r)) >= 1 /\
  List.length (filter (fun x => andb (Nat.eqb (fst x) 0) (is_rlock1 (snd x))) (fst r)) = 1%nat.
Proof. vm_compute. repeat split; try reflexivity. repeat constructor. Qed.
