(** Property C04 — placeholder while the proofs are being written: model sanity only. *)
From Coq Require Import ZArith List String.
From LV Require Import Base.Conc Base.Events Model.RcuGp.
Import ListNotations.
Local Open Scope string_scope.
Local Open Scope Z_scope.

Example C04_model_runs :
  let r := RcuGp.run_case [2; 3000] [[[1]; [3]; [9]]; [[1]; [5]; [8]; [5]]]
             [0;0;0;0;0;0;0;1;1;1;1;1;1;1;1;1;1;1;1;1;1;0]%nat 2000 in
  snd r = true /\ List.length (filter (is_cli "sync_end") (map snd (fst r))) = 2%nat.
Proof. vm_compute. split; reflexivity. Qed.
