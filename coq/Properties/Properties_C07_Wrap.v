(** Property C07, counter wrap-around — companion of Properties_C07.v.

    Properties_C07.v proves its theorems for runs of LV.Model.Vyukov that start in the constructor's state and make
    fewer than 2^62 - 2^k successful enqueue claims in total ([claims_bound]: "the counters do not wrap").  The C++
    uses size_t positions that wrap modulo 2^64 and the signed difference (intptr_t)seq - (intptr_t)pos; the
    property quantifies over all histories.  Here the same conclusions are proved with NO bound on the length of the
    run, for a start at ANY position (in particular a few steps before 2^63 and before 2^64), about the model
    LV.Model.VyukovWrap:
      - the same programs (LV.Proofs.VyukovWrapArith.gen_is_strict: one generic text, instantiated), every size_t
        operation modulo 2^64 as before, the signed difference computed in two's complement ([sdw]: what the
        compiled code does), started in [init_at q s0] = the state of a queue through which s0 items have passed
        ([init_at q 0] agrees with the constructor's state on the cells of the ring; [C07w_from_constructor_state]
        is about the constructor's state itself).

    What replaces the bound, and cannot be dropped:
      [fresh tr]   every event of the trace is produced by a thread that has slept through fewer than 2^62
                   successful enqueue claims (CAS on m_posEnqueue) since its own previous event.
    It is prefix closed, implied by [claims_bound] ([C07w_fresh_generalises_claims_bound]), and true of every run in
    which no thread is preempted between two of its instructions for 2^62 queue operations.  Without it the code is
    NOT correct in the model (and on a real machine): a thread that loaded pos = P, is suspended, and resumes after
    exactly 2^64 further claims sees posEnqueue == P again (ABA on the 64-bit counter) and claims a cell that a
    dequeuer of position P + 2^64 - capacity may not have released yet.  That needs 2^64 operations inside one
    preemption, so no witness can be computed; the statement without [fresh] is kept below as
    [C07w_vyukov_linearizable_every_schedule_statement], the theorem with [fresh] is its proved part.

    Capacity 2^k with 1 <= k <= 61 ([claims_bound] implied k <= 61 too).

    FINDING (strict C++ semantics): the expression static_cast<intptr_t>(seq) - static_cast<intptr_t>(pos) is a
    SIGNED subtraction; it overflows (undefined behaviour) whenever seq and pos lie on different sides of 2^63 —
    [C07w_strict_signed_overflow_at_2_63]: a single dequeue on an empty queue whose positions have reached
    2^63 - 1.  static_cast<intptr_t>(seq - pos) computes the intended value without overflow.  Compilers emit a
    wrapping [sub], for which the theorems below hold. *)
From Coq Require Import String ZArith List Bool.
From LV Require Import Base.Conc Base.Events Base.CInt Base.Lin Spec.Specs Model.Vyukov Model.VyukovWrap
                       Proofs.VyukovSpec Proofs.VyukovArith Proofs.VyukovCore Proofs.VyukovLin Proofs.VyukovTheorems
                       Proofs.VyukovWrapArith Proofs.VyukovWrapCore Proofs.VyukovWrapLin Proofs.VyukovWrapThm.
Import ListNotations.
Local Open Scope Z_scope.

(** the stored positions and sequence numbers are the residues modulo 2^64 of ghost integers [gg] that never wrap;
    the ghost m_posEnqueue is s0 + (number of successful enqueue claims), posDeq <= posEnq <= posDeq + capacity,
    and every cell is in the phase of the position it serves (as C07_vyukov_positions_ordered / _cell_phase) *)
Theorem C07w_vyukov_positions_and_cells :
  forall (k : nat) (q : qcfg) (fuel : nat) (ths : list (list op)) (sc : option nat) (mp : bool) (s0 : Z) c,
    (1 <= k)%nat -> (k <= 61)%nat -> qcap q = 2 ^ Z.of_nat k -> 0 <= s0 -> programs_allowed sc mp ths ->
    Conc.reach (init_cfg_at q s0 fuel ths) c -> fresh (Conc.trace c) ->
    let g := Conc.shared c in
    exists gg : G,
      posE g = posE gg mod 2 ^ 64 /\ posD g = posD gg mod 2 ^ 64 /\
      (forall i, 0 <= i < 2 ^ Z.of_nat k -> seqs g i = seqs gg i mod 2 ^ 64) /\
      posE gg = s0 + nclaims (Conc.trace c) /\
      0 <= posD gg /\ posD gg <= posE gg /\ posE gg <= posD gg + 2 ^ Z.of_nat k /\
      forall p,
        (posD gg <= p < posE gg -> seqs gg (cell k p) = p + 1 \/ seqs gg (cell k p) = p) /\
        (posE gg <= p < posD gg + 2 ^ Z.of_nat k ->
           seqs gg (cell k p) = p \/ seqs gg (cell k p) = p - 2 ^ Z.of_nat k + 1).
Proof.
  intros k q fuel ths sc mp s0 c Hk Hk61 Hq Hs Hal Hr Hf.
  exact (vyukovw_ghost_state k Hk Hk61 q Hq fuel ths sc mp s0 (init_at q s0) (start_ok_at k q sc mp s0 Hk Hk61 Hq Hs) Hal c Hr Hf).
Qed.
Print Assumptions C07w_vyukov_positions_and_cells.

(** the occupancy exactly as the code can compute it — m_posEnqueue - m_posDequeue in size_t — is in [0, capacity],
    across any number of wraps *)
Theorem C07w_vyukov_occupancy :
  forall (k : nat) (q : qcfg) (fuel : nat) (ths : list (list op)) (sc : option nat) (mp : bool) (s0 : Z) c,
    (1 <= k)%nat -> (k <= 61)%nat -> qcap q = 2 ^ Z.of_nat k -> 0 <= s0 -> programs_allowed sc mp ths ->
    Conc.reach (init_cfg_at q s0 fuel ths) c -> fresh (Conc.trace c) ->
    0 <= usub u64 (posE (Conc.shared c)) (posD (Conc.shared c)) <= 2 ^ Z.of_nat k.
Proof.
  intros k q fuel ths sc mp s0 c Hk Hk61 Hq Hs Hal Hr Hf.
  exact (vyukovw_occupancy k Hk Hk61 q Hq fuel ths sc mp s0 (init_at q s0) (start_ok_at k q sc mp s0 Hk Hk61 Hq Hs) Hal c Hr Hf).
Qed.
Print Assumptions C07w_vyukov_occupancy.

(** no loss, no duplication (as C07_vyukov_no_loss_no_dup; the ring content is read through the stored, wrapped
    m_posDequeue and its length is the size_t difference of the stored positions) *)
Theorem C07w_vyukov_no_loss_no_dup :
  forall (k : nat) (q : qcfg) (fuel : nat) (ths : list (list op)) (sc : option nat) (mp : bool) (s0 : Z) c,
    (1 <= k)%nat -> (k <= 61)%nat -> qcap q = 2 ^ Z.of_nat k -> 0 <= s0 -> programs_allowed sc mp ths ->
    Conc.reach (init_cfg_at q s0 fuel ths) c -> fresh (Conc.trace c) ->
    let g := Conc.shared c in
    exists (atr : list (aev (VQ (2 ^ k)))) (qs : list Z),
      lp_valid (VQ (2 ^ k)) atr /\ erase atr = hist (2 ^ k) (Conc.trace c) /\
      Z.of_nat (length qs) = usub u64 (posE g) (posD g) /\
      (forall i, (i < length qs)%nat -> nth_error qs i = Some (datas g (cell k (posD g + Z.of_nat i)))) /\
      fst (moved (2 ^ k) lp_init atr) = snd (moved (2 ^ k) lp_init atr) ++ qs.
Proof.
  intros k q fuel ths sc mp s0 c Hk Hk61 Hq Hs Hal Hr Hf.
  exact (vyukovw_no_loss_no_dup k Hk Hk61 q Hq fuel ths sc mp s0 (init_at q s0) (start_ok_at k q sc mp s0 Hk Hk61 Hq Hs) Hal c Hr Hf).
Qed.
Print Assumptions C07w_vyukov_no_loss_no_dup.

(** linearizability of the enqueue / dequeue interface to the bounded FIFO of capacity 2^k *)
Theorem C07w_vyukov_linearizable :
  forall (k : nat) (q : qcfg) (fuel : nat) (ths : list (list op)) (s0 : Z) c,
    (1 <= k)%nat -> (k <= 61)%nat -> qcap q = 2 ^ Z.of_nat k -> 0 <= s0 -> programs_allowed None true ths ->
    Conc.reach (init_cfg_at q s0 fuel ths) c -> fresh (Conc.trace c) ->
    (exists atr : list (aev (BFifo (2 ^ k))),
       lp_valid (BFifo (2 ^ k)) atr /\ erase atr = hist_b (2 ^ k) (Conc.trace c)) /\
    linearizable (BFifo (2 ^ k)) (hist_b (2 ^ k) (Conc.trace c)).
Proof.
  intros k q fuel ths s0 c Hk Hk61 Hq Hs Hal Hr Hf.
  exact (vyukovw_linearizable k Hk Hk61 q Hq fuel ths s0 (init_at q s0) c (start_ok_at k q None true s0 Hk Hk61 Hq Hs) Hal Hr Hf).
Qed.
Print Assumptions C07w_vyukov_linearizable.

(** the full statement of the property across the wrap — every schedule, no [fresh] — is NOT provable (a thread
    suspended for exactly 2^64 claims, see the header); the theorem above is its part for fresh schedules *)
Definition C07w_vyukov_linearizable_every_schedule_statement : Prop :=
  forall (k : nat) (q : qcfg) (fuel : nat) (ths : list (list op)) (s0 : Z) c,
    (1 <= k)%nat -> (k <= 61)%nat -> qcap q = 2 ^ Z.of_nat k -> 0 <= s0 -> programs_allowed None true ths ->
    Conc.reach (init_cfg_at q s0 fuel ths) c ->
    linearizable (BFifo (2 ^ k)) (hist_b (2 ^ k) (Conc.trace c)).

Theorem C07w_vyukov_linearizable_every_schedule_partial :
  forall (k : nat) (q : qcfg) (fuel : nat) (ths : list (list op)) (s0 : Z) c,
    (1 <= k)%nat -> (k <= 61)%nat -> qcap q = 2 ^ Z.of_nat k -> 0 <= s0 -> programs_allowed None true ths ->
    Conc.reach (init_cfg_at q s0 fuel ths) c -> fresh (Conc.trace c) ->
    linearizable (BFifo (2 ^ k)) (hist_b (2 ^ k) (Conc.trace c)).
Proof.
  intros k q fuel ths s0 c Hk Hk61 Hq Hs Hal Hr Hf.
  exact (proj2 (vyukovw_linearizable k Hk Hk61 q Hq fuel ths s0 (init_at q s0) c (start_ok_at k q None true s0 Hk Hk61 Hq Hs) Hal Hr Hf)).
Qed.
Print Assumptions C07w_vyukov_linearizable_every_schedule_partial.

(** single-consumer use with front() / pop_front() *)
Theorem C07w_vyukov_linearizable_with_front :
  forall (k : nat) (q : qcfg) (fuel : nat) (ths : list (list op)) (sc : option nat) (mp : bool) (s0 : Z) c,
    (1 <= k)%nat -> (k <= 61)%nat -> qcap q = 2 ^ Z.of_nat k -> 0 <= s0 -> programs_allowed sc mp ths ->
    Conc.reach (init_cfg_at q s0 fuel ths) c -> fresh (Conc.trace c) ->
    linearizable (VQ (2 ^ k)) (hist (2 ^ k) (Conc.trace c)).
Proof.
  intros k q fuel ths sc mp s0 c Hk Hk61 Hq Hs Hal Hr Hf.
  exact (vyukovw_linearizable_vq k Hk Hk61 q Hq fuel ths sc mp s0 (init_at q s0) (start_ok_at k q sc mp s0 Hk Hk61 Hq Hs) Hal c Hr Hf).
Qed.
Print Assumptions C07w_vyukov_linearizable_with_front.

(** the property's words, at the linearization points (as in Properties_C07.v) *)
Theorem C07w_vyukov_fail_only_if_full_or_empty_and_front_is_oldest :
  forall (k : nat) (q : qcfg) (fuel : nat) (ths : list (list op)) (sc : option nat) (mp : bool) (s0 : Z) c,
    (1 <= k)%nat -> (k <= 61)%nat -> qcap q = 2 ^ Z.of_nat k -> 0 <= s0 -> programs_allowed sc mp ths ->
    Conc.reach (init_cfg_at q s0 fuel ths) c -> fresh (Conc.trace c) ->
    exists atr : list (aev (VQ (2 ^ k))),
      lp_valid (VQ (2 ^ k)) atr /\ erase atr = hist (2 ^ k) (Conc.trace c) /\
      forall pre t post qs S o,
        atr = pre ++ @ALin (VQ (2 ^ k)) t :: post ->
        lp_run lp_init pre = Some (qs, S) -> S t = @Pending (VQ (2 ^ k)) o ->
        (length qs <= 2 ^ k)%nat /\
        lp_run lp_init (pre ++ [@ALin (VQ (2 ^ k)) t]) =
          Some (fst (vq_step (2 ^ k) qs o),
                Lin.upd S t (@Linearized (VQ (2 ^ k)) o (snd (vq_step (2 ^ k) qs o)))) /\
        (forall x, o = VEnq x -> (snd (vq_step (2 ^ k) qs o) = RBool false <-> length qs = (2 ^ k)%nat)) /\
        (o = VDeq -> (snd (vq_step (2 ^ k) qs o) = RVal None <-> qs = [])) /\
        (o = VFront -> snd (vq_step (2 ^ k) qs o) = RVal (hd_error qs) /\ fst (vq_step (2 ^ k) qs o) = qs) /\
        (o = VPopFront -> fst (vq_step (2 ^ k) qs o) = tl qs).
Proof.
  intros k q fuel ths sc mp s0 c Hk Hk61 Hq Hs Hal Hr Hf.
  exact (vyukovw_lin_points k Hk Hk61 q Hq fuel ths sc mp s0 (init_at q s0) (start_ok_at k q sc mp s0 Hk Hk61 Hq Hs) Hal c Hr Hf).
Qed.
Print Assumptions C07w_vyukov_fail_only_if_full_or_empty_and_front_is_oldest.

(** the annotated trace ends in the concrete content of the ring; the wrapping programs never take the UB exit *)
Theorem C07w_vyukov_lp_trace_matches_ring :
  forall (k : nat) (q : qcfg) (fuel : nat) (ths : list (list op)) (sc : option nat) (mp : bool) (s0 : Z) c,
    (1 <= k)%nat -> (k <= 61)%nat -> qcap q = 2 ^ Z.of_nat k -> 0 <= s0 -> programs_allowed sc mp ths ->
    Conc.reach (init_cfg_at q s0 fuel ths) c -> fresh (Conc.trace c) ->
    let g := Conc.shared c in
    exists (atr : list (aev (VQ (2 ^ k)))) (qs : list Z) (S : nat -> status (VQ (2 ^ k))),
      lp_run lp_init atr = Some (qs, S) /\
      erase atr = hist (2 ^ k) (Conc.trace c) /\
      Z.of_nat (length qs) = usub u64 (posE g) (posD g) /\
      (forall i, (i < length qs)%nat -> nth_error qs i = Some (datas g (cell k (posD g + Z.of_nat i)))) /\
      no_ub (Conc.trace c) = true /\
      (mp = true -> exists atr', unemb atr = Some atr' /\ erase atr' = hist_b (2 ^ k) (Conc.trace c)).
Proof.
  intros k q fuel ths sc mp s0 c Hk Hk61 Hq Hs Hal Hr Hf.
  exact (vyukovw_lp_trace k Hk Hk61 q Hq fuel ths sc mp s0 (init_at q s0) (start_ok_at k q sc mp s0 Hk Hk61 Hq Hs) Hal c Hr Hf).
Qed.
Print Assumptions C07w_vyukov_lp_trace_matches_ring.

(** the constructor's state itself (LV.Model.Vyukov.init: positions 0, cell i holds i), wrapping programs, runs of
    any length: linearizable (both interfaces), and the occupancy computed in size_t is in [0, capacity] *)
Theorem C07w_from_constructor_state :
  forall (k : nat) (q : qcfg) (fuel : nat) (ths : list (list op)) (sc : option nat) (mp : bool) c,
    (1 <= k)%nat -> (k <= 61)%nat -> qcap q = 2 ^ Z.of_nat k -> programs_allowed sc mp ths ->
    Conc.reach (Conc.Cfg init (map (thread_prog_g difw q fuel) ths) []) c -> fresh (Conc.trace c) ->
    linearizable (VQ (2 ^ k)) (hist (2 ^ k) (Conc.trace c)) /\
    (sc = None -> mp = true -> linearizable (BFifo (2 ^ k)) (hist_b (2 ^ k) (Conc.trace c))) /\
    0 <= usub u64 (posE (Conc.shared c)) (posD (Conc.shared c)) <= 2 ^ Z.of_nat k.
Proof.
  intros k q fuel ths sc mp c Hk Hk61 Hq Hal Hr Hf. split; [|split].
  - exact (vyukovw_linearizable_vq k Hk Hk61 q Hq fuel ths sc mp 0 init (start_ok_init k sc mp Hk Hk61) Hal c Hr Hf).
  - intros -> ->.
    exact (proj2 (vyukovw_linearizable k Hk Hk61 q Hq fuel ths 0 init c (start_ok_init k None true Hk Hk61) Hal Hr Hf)).
  - exact (vyukovw_occupancy k Hk Hk61 q Hq fuel ths sc mp 0 init (start_ok_init k sc mp Hk Hk61) Hal c Hr Hf).
Qed.
Print Assumptions C07w_from_constructor_state.

(** the hypothesis of Properties_C07.v implies the new one: the theorems above generalise the old ones to unbounded
    runs (for the two's complement reading of the signed difference, which agrees with the checked one whenever the
    latter is defined) *)
Theorem C07w_fresh_generalises_claims_bound :
  forall (k : nat) (tr : list (nat * ev)), claims_bound k tr -> fresh tr.
Proof. exact fresh_of_claims_bound. Qed.
Print Assumptions C07w_fresh_generalises_claims_bound.

(** the generic programs instantiated with the checked difference are the programs of LV.Model.Vyukov *)
Theorem C07w_same_programs :
  forall (q : qcfg) (fuel : nat) (os : list op), thread_prog_g sdif q fuel os = thread_prog q fuel os.
Proof. exact gen_is_strict. Qed.
Print Assumptions C07w_same_programs.

(** FINDING: under the C++ standard's semantics of the signed subtraction (the model of Properties_C07.v), one
    dequeue on an empty queue whose positions have reached 2^63 - 1 is undefined behaviour.  One thread, capacity 2,
    no enqueue claim in the run ([claims_bound] holds). *)
Theorem C07w_strict_signed_overflow_at_2_63 :
  let q := mkQ 2 false in
  let ths := [[ODeq]] in
  let c := fst (Conc.run 50 0 [] (init_cfg_strict_at q (2 ^ 63 - 1) 10 ths)) in
  Conc.threads (init_cfg_strict_at q (2 ^ 63 - 1) 10 ths) = map (thread_prog q 10) ths /\
  Conc.reach (init_cfg_strict_at q (2 ^ 63 - 1) 10 ths) c /\
  claims_bound 1 (Conc.trace c) /\
  no_ub (Conc.trace c) = false /\
  In (0%nat, EvCli "ub"%string []) (Conc.trace c) /\
  sdif (2 ^ 63 - 1) (uadd u64 (2 ^ 63 - 1) 1) = None.
Proof. exact vyukov_strict_signed_overflow_at_2_63. Qed.
Print Assumptions C07w_strict_signed_overflow_at_2_63.

(** ** non-vacuity: a run that crosses 2^64.
    Capacity 2, item counter on, start two positions before the wrap.  The producer enqueues 5 and 6 (positions
    2^64-2 and 2^64-1; m_posEnqueue becomes 0), finds the queue full twice (7, 8), the consumer takes 5 and 6
    (m_posDequeue becomes 0), the producer's 9 goes to position 2^64 (stored as 0), the consumer takes it and then
    finds the queue empty twice.  All hypotheses hold; the stored positions end at 1. *)
Example C07w_nonvacuous_crossing_2_64 :
  let ths := [[OEnq 5; OEnq 6; OEnq 7; OEnq 8; OEnq 9]; [ODeq; ODeq; ODeq; ODeq; ODeq]] in
  let q := mkQ 2 true in
  let sched := (repeat 0 17 ++ repeat 1 12 ++ repeat 0 16)%nat in
  let c := fst (Conc.run 400 0 sched (init_cfg_at q (2 ^ 64 - 2) 50 ths)) in
  Conc.reach (init_cfg_at q (2 ^ 64 - 2) 50 ths) c /\ qcap q = 2 ^ Z.of_nat 1 /\
  programs_allowed None true ths /\ fresh (Conc.trace c) /\
  hist_b 2 (Conc.trace c) =
    [@HInv (BFifo 2) 0%nat (Enq 5); @HRes (BFifo 2) 0%nat (RBool true);
     @HInv (BFifo 2) 0%nat (Enq 6); @HRes (BFifo 2) 0%nat (RBool true);
     @HInv (BFifo 2) 0%nat (Enq 7); @HRes (BFifo 2) 0%nat (RBool false);
     @HInv (BFifo 2) 0%nat (Enq 8); @HRes (BFifo 2) 0%nat (RBool false);
     @HInv (BFifo 2) 0%nat (Enq 9);
     @HInv (BFifo 2) 1%nat Deq; @HRes (BFifo 2) 1%nat (RVal (Some 5));
     @HInv (BFifo 2) 1%nat Deq; @HRes (BFifo 2) 1%nat (RVal (Some 6));
     @HInv (BFifo 2) 1%nat Deq; @HRes (BFifo 2) 0%nat (RBool true);
     @HRes (BFifo 2) 1%nat (RVal (Some 9));
     @HInv (BFifo 2) 1%nat Deq; @HRes (BFifo 2) 1%nat (RVal None);
     @HInv (BFifo 2) 1%nat Deq; @HRes (BFifo 2) 1%nat (RVal None)] /\
  posE (init_at q (2 ^ 64 - 2)) = 18446744073709551614 /\
  posE (Conc.shared c) = 1 /\ posD (Conc.shared c) = 1 /\ nclaims (Conc.trace c) = 3.
Proof.
  cbv zeta. split; [apply Conc.run_reach|]. split; [reflexivity|].
  split; [apply programs_allowed_b; reflexivity|]. split; [apply freshb_ok; vm_compute; reflexivity|].
  vm_compute. repeat split; reflexivity.
Qed.

(** ... and one that crosses 2^63 (where the strict reading is undefined): single consumer with front / pop_front *)
Example C07w_nonvacuous_crossing_2_63 :
  let ths := [[OEnq 1; OEnq 2; OEnq 3]; [OFront; OPop; OFront; OPop; OFront; OPop; OFront]] in
  let q := mkQ 4 false in
  let sched := (repeat 0 13 ++ repeat 1 40)%nat in
  let c := fst (Conc.run 600 0 sched (init_cfg_at q (2 ^ 63 - 1) 50 ths)) in
  Conc.reach (init_cfg_at q (2 ^ 63 - 1) 50 ths) c /\ qcap q = 2 ^ Z.of_nat 2 /\
  programs_allowed (Some 1%nat) false ths /\ fresh (Conc.trace c) /\
  filter (fun e : hev (VQ 4) => match e with HRes 1%nat _ => true | _ => false end) (hist 4 (Conc.trace c)) =
    [@HRes (VQ 4) 1%nat (RVal (Some 1)); @HRes (VQ 4) 1%nat (RBool true);
     @HRes (VQ 4) 1%nat (RVal (Some 2)); @HRes (VQ 4) 1%nat (RBool true);
     @HRes (VQ 4) 1%nat (RVal (Some 3)); @HRes (VQ 4) 1%nat (RBool true);
     @HRes (VQ 4) 1%nat (RVal None)] /\
  posE (Conc.shared c) = 2 ^ 63 + 2.
Proof.
  cbv zeta. split; [apply Conc.run_reach|]. split; [reflexivity|].
  split; [apply programs_allowed_b; reflexivity|]. split; [apply freshb_ok; vm_compute; reflexivity|].
  vm_compute. repeat split; reflexivity.
Qed.
