(** Property C07 — "Every concurrent history on VyukovMPMCCycleQueue (value and intrusive variants) is
    linearizable to a FIFO queue with the configured capacity.  Enqueue fails only if capacity items are present
    at some instant during the call, and dequeue fails only if the queue is empty at some instant.  The
    single-consumer front()/pop_front() pair returns and removes the oldest item."

    Only statements here; proofs live in LV.Proofs.Vyukov*.  Model: LV.Model.Vyukov (one step per atomic access of
    cds/container/vyukov_mpmc_cycle_queue.h; the intrusive queue is the same code at T = pointer).

    Common hypotheses of every theorem:
      k >= 1, capacity 2^k                      any power-of-two capacity >= 2 (item counter on or off: any [q])
      programs_allowed sc mp ths                 dequeue / pop_front only by the consumer thread when sc = Some tc,
                                                 front only when sc = Some t; mp = true: no front / pop_front at all
      Conc.reach (init_cfg q fuel ths) c         c is reachable by ANY sequence of thread choices (any number of
                                                 threads, any client programs, any schedule, any loop fuel)
      claims_bound k (trace c)                   #successful CAS on m_posEnqueue so far + 2^k < 2^62: the position
                                                 counters do not wrap (the bound on the number of operations)
    [hist capn tr] / [hist_b capn tr] is the history (invocations / responses with their values) read off the
    client events of the trace; [cell p] = p mod 2^k = p & m_nBufferMask. *)
From Coq Require Import ZArith List Bool.
From LV Require Import Base.Conc Base.Events Base.Lin Spec.Specs Model.Vyukov
                       Proofs.VyukovSpec Proofs.VyukovArith Proofs.VyukovCore Proofs.VyukovLin Proofs.VyukovTheorems.
Import ListNotations.
Local Open Scope Z_scope.

(** posDeq <= posEnq <= posDeq + capacity, in every reachable state *)
Theorem C07_vyukov_positions_ordered :
  forall (k : nat) (q : qcfg) (fuel : nat) (ths : list (list op)) (sc : option nat) (mp : bool) c,
    (1 <= k)%nat -> qcap q = 2 ^ Z.of_nat k -> programs_allowed sc mp ths ->
    Conc.reach (init_cfg q fuel ths) c -> claims_bound k (Conc.trace c) ->
    let g := Conc.shared c in
    0 <= posD g /\ posD g <= posE g /\ posE g <= posD g + 2 ^ Z.of_nat k.
Proof. intros k q fuel ths sc mp c Hk Hq Hal Hr Hb. exact (vyukov_positions_ordered k Hk q Hq fuel ths sc mp Hal c Hr Hb). Qed.
Print Assumptions C07_vyukov_positions_ordered.

(** the sequence number of a cell is determined by the phase of the position it currently serves:
    p in [posDeq, posEnq): p+1 (published) or p (claimed by an enqueuer, not yet published);
    p in [posEnq, posDeq+cap): p (free) or p-cap+1 (claimed by a dequeuer, not yet released) *)
Theorem C07_vyukov_cell_phase :
  forall (k : nat) (q : qcfg) (fuel : nat) (ths : list (list op)) (sc : option nat) (mp : bool) c,
    (1 <= k)%nat -> qcap q = 2 ^ Z.of_nat k -> programs_allowed sc mp ths ->
    Conc.reach (init_cfg q fuel ths) c -> claims_bound k (Conc.trace c) ->
    let g := Conc.shared c in
    forall p,
      (posD g <= p < posE g -> seqs g (cell k p) = p + 1 \/ seqs g (cell k p) = p) /\
      (posE g <= p < posD g + 2 ^ Z.of_nat k ->
         seqs g (cell k p) = p \/ seqs g (cell k p) = p - 2 ^ Z.of_nat k + 1).
Proof. intros k q fuel ths sc mp c Hk Hq Hal Hr Hb. exact (vyukov_cell_phase k Hk q Hq fuel ths sc mp Hal c Hr Hb). Qed.
Print Assumptions C07_vyukov_cell_phase.

(** no loss, no duplication: there is a valid LP-annotated trace for the history such that the values whose
    enqueue took effect (in linearization order) are exactly the values dequeued (in linearization order)
    followed by the content of the cells of [posDeq, posEnq) — published cells and cells whose enqueuer is
    stalled between its CAS and its publish alike *)
Theorem C07_vyukov_no_loss_no_dup :
  forall (k : nat) (q : qcfg) (fuel : nat) (ths : list (list op)) (sc : option nat) (mp : bool) c,
    (1 <= k)%nat -> qcap q = 2 ^ Z.of_nat k -> programs_allowed sc mp ths ->
    Conc.reach (init_cfg q fuel ths) c -> claims_bound k (Conc.trace c) ->
    let g := Conc.shared c in
    exists (atr : list (aev (VQ (2 ^ k)))) (qs : list Z),
      lp_valid (VQ (2 ^ k)) atr /\ erase atr = hist (2 ^ k) (Conc.trace c) /\
      Z.of_nat (length qs) = posE g - posD g /\
      (forall i, (i < length qs)%nat -> nth_error qs i = Some (datas g (cell k (posD g + Z.of_nat i)))) /\
      fst (moved (2 ^ k) lp_init atr) = snd (moved (2 ^ k) lp_init atr) ++ qs.
Proof. intros k q fuel ths sc mp c Hk Hq Hal Hr Hb. exact (vyukov_no_loss_no_dup k Hk q Hq fuel ths sc mp Hal c Hr Hb). Qed.
Print Assumptions C07_vyukov_no_loss_no_dup.

(** linearizability of the enqueue / dequeue interface (any number of producers and consumers) to the bounded
    FIFO of capacity 2^k: LPs at the two position CASes and, for failures, at the load of the opposite position *)
Theorem C07_vyukov_linearizable :
  forall (k : nat) (q : qcfg) (fuel : nat) (ths : list (list op)) c,
    (1 <= k)%nat -> qcap q = 2 ^ Z.of_nat k -> programs_allowed None true ths ->
    Conc.reach (init_cfg q fuel ths) c -> claims_bound k (Conc.trace c) ->
    (exists atr : list (aev (BFifo (2 ^ k))),
       lp_valid (BFifo (2 ^ k)) atr /\ erase atr = hist_b (2 ^ k) (Conc.trace c)) /\
    linearizable (BFifo (2 ^ k)) (hist_b (2 ^ k) (Conc.trace c)).
Proof. intros k q fuel ths c Hk Hq Hal Hr Hb. exact (vyukov_linearizable k Hk q Hq fuel ths c Hal Hr Hb). Qed.
Print Assumptions C07_vyukov_linearizable.

(** single-consumer use with front() / pop_front() (and any use of the plain interface): linearizable to the
    bounded FIFO extended with front (returns the oldest item without removing it) and pop_front (removes the
    oldest item) *)
Theorem C07_vyukov_linearizable_with_front :
  forall (k : nat) (q : qcfg) (fuel : nat) (ths : list (list op)) (sc : option nat) (mp : bool) c,
    (1 <= k)%nat -> qcap q = 2 ^ Z.of_nat k -> programs_allowed sc mp ths ->
    Conc.reach (init_cfg q fuel ths) c -> claims_bound k (Conc.trace c) ->
    linearizable (VQ (2 ^ k)) (hist (2 ^ k) (Conc.trace c)).
Proof. intros k q fuel ths sc mp c Hk Hq Hal Hr Hb. exact (vyukov_linearizable_vq k Hk q Hq fuel ths sc mp Hal c Hr Hb). Qed.
Print Assumptions C07_vyukov_linearizable_with_front.

(** the property's words.  [atr] is a valid annotated trace of the history; at each linearization point [ALin t]
    (which lies between the invocation and the response of t's operation [o]: its status is [Pending o]), with
    [qs] the abstract queue at that instant:
      - enqueue returns false  <->  exactly 2^k items are present at that instant;
      - dequeue returns empty  <->  no item is present at that instant;
      - front returns the oldest item (or none) and leaves the queue alone; pop_front removes the oldest item. *)
Theorem C07_vyukov_fail_only_if_full_or_empty_and_front_is_oldest :
  forall (k : nat) (q : qcfg) (fuel : nat) (ths : list (list op)) (sc : option nat) (mp : bool) c,
    (1 <= k)%nat -> qcap q = 2 ^ Z.of_nat k -> programs_allowed sc mp ths ->
    Conc.reach (init_cfg q fuel ths) c -> claims_bound k (Conc.trace c) ->
    exists atr : list (aev (VQ (2 ^ k))),
      lp_valid (VQ (2 ^ k)) atr /\ erase atr = hist (2 ^ k) (Conc.trace c) /\
      forall pre t post qs S o,
        atr = pre ++ @ALin (VQ (2 ^ k)) t :: post ->
        lp_run lp_init pre = Some (qs, S) -> S t = @Pending (VQ (2 ^ k)) o ->
        (length qs <= 2 ^ k)%nat /\
        lp_run lp_init (pre ++ [@ALin (VQ (2 ^ k)) t]) =
          Some (fst (vq_step (2 ^ k) qs o),
                Lin.upd S t (@Linearized (VQ (2 ^ k)) o (snd (vq_step (2 ^ k) qs o)))) /\
        (forall x, o = VEnq x -> (snd (vq_step (2 ^ k) qs o) = RBool false <-> length qs = (2 ^ k)%nat)) /\
        (o = VDeq -> (snd (vq_step (2 ^ k) qs o) = RVal None <-> qs = [])) /\
        (o = VFront -> snd (vq_step (2 ^ k) qs o) = RVal (hd_error qs) /\ fst (vq_step (2 ^ k) qs o) = qs) /\
        (o = VPopFront -> fst (vq_step (2 ^ k) qs o) = tl qs).
Proof. intros k q fuel ths sc mp c Hk Hq Hal Hr Hb. exact (vyukov_lin_points k Hk q Hq fuel ths sc mp Hal c Hr Hb). Qed.
Print Assumptions C07_vyukov_fail_only_if_full_or_empty_and_front_is_oldest.

(** the annotated trace ends in the concrete content of the ring, and no step of any reachable run computes an
    overflowing signed difference (outcome UB of the model) *)
Theorem C07_vyukov_lp_trace_matches_ring :
  forall (k : nat) (q : qcfg) (fuel : nat) (ths : list (list op)) (sc : option nat) (mp : bool) c,
    (1 <= k)%nat -> qcap q = 2 ^ Z.of_nat k -> programs_allowed sc mp ths ->
    Conc.reach (init_cfg q fuel ths) c -> claims_bound k (Conc.trace c) ->
    let g := Conc.shared c in
    exists (atr : list (aev (VQ (2 ^ k)))) (qs : list Z) (S : nat -> status (VQ (2 ^ k))),
      lp_run lp_init atr = Some (qs, S) /\
      erase atr = hist (2 ^ k) (Conc.trace c) /\
      Z.of_nat (length qs) = posE g - posD g /\
      (forall i, (i < length qs)%nat -> nth_error qs i = Some (datas g (cell k (posD g + Z.of_nat i)))) /\
      no_ub (Conc.trace c) = true /\
      (mp = true -> exists atr', unemb atr = Some atr' /\ erase atr' = hist_b (2 ^ k) (Conc.trace c)).
Proof. intros k q fuel ths sc mp c Hk Hq Hal Hr Hb. exact (vyukov_lp_trace k Hk q Hq fuel ths sc mp Hal c Hr Hb). Qed.
Print Assumptions C07_vyukov_lp_trace_matches_ring.

(** ** non-vacuity: concrete runs satisfying every hypothesis *)

(** capacity 2, producer runs first: its third enqueue finds the queue full and fails; the consumer then gets
    5 and 6 in FIFO order and a third dequeue... is not attempted.  All hypotheses of the theorems hold. *)
Example C07_nonvacuous_mpmc :
  let ths := [[OEnq 5; OEnq 6; OEnq 7]; [ODeq; ODeq]] in
  let q := mkQ 2 false in
  let c := fst (Conc.run 200 0 [0;0;0;0;0;0;0;0;0;0;0;0;0;1]%nat (init_cfg q 50 ths)) in
  Conc.reach (init_cfg q 50 ths) c /\ qcap q = 2 ^ Z.of_nat 1 /\
  programs_allowed None true ths /\ claims_bound 1 (Conc.trace c) /\
  hist_b 2 (Conc.trace c) =
    [@HInv (BFifo 2) 0%nat (Enq 5); @HRes (BFifo 2) 0%nat (RBool true);
     @HInv (BFifo 2) 0%nat (Enq 6); @HRes (BFifo 2) 0%nat (RBool true);
     @HInv (BFifo 2) 0%nat (Enq 7); @HRes (BFifo 2) 0%nat (RBool false);
     @HInv (BFifo 2) 1%nat Deq; @HRes (BFifo 2) 1%nat (RVal (Some 5));
     @HInv (BFifo 2) 1%nat Deq; @HRes (BFifo 2) 1%nat (RVal (Some 6))].
Proof.
  cbv zeta. split; [apply Conc.run_reach|]. split; [reflexivity|].
  split; [apply programs_allowed_b; reflexivity|]. split; [unfold claims_bound; vm_compute; reflexivity|].
  vm_compute. reflexivity.
Qed.

(** single consumer (thread 1) using front / pop_front while thread 0 produces; capacity 4 *)
Example C07_nonvacuous_single_consumer :
  let ths := [[OEnq 1; OEnq 2]; [OFront; OPop; OFront; OPop; OFront]] in
  let q := mkQ 4 true in
  let c := fst (Conc.run 400 0 [0;0;0;0;0;0;0;0;0;0;0;0;1]%nat (init_cfg q 50 ths)) in
  Conc.reach (init_cfg q 50 ths) c /\ qcap q = 2 ^ Z.of_nat 2 /\
  programs_allowed (Some 1%nat) false ths /\ claims_bound 2 (Conc.trace c) /\
  filter (fun e : hev (VQ 4) => match e with HRes 1%nat _ => true | _ => false end) (hist 4 (Conc.trace c)) =
    [@HRes (VQ 4) 1%nat (RVal (Some 1)); @HRes (VQ 4) 1%nat (RBool true);
     @HRes (VQ 4) 1%nat (RVal (Some 2)); @HRes (VQ 4) 1%nat (RBool true);
     @HRes (VQ 4) 1%nat (RVal None)].
Proof.
  cbv zeta. split; [apply Conc.run_reach|]. split; [reflexivity|].
  split; [apply programs_allowed_b; reflexivity|]. split; [unfold claims_bound; vm_compute; reflexivity|].
  vm_compute. reflexivity.
Qed.
