(** Property C07 - placeholder while the proofs are being written. *)
From Coq Require Import ZArith List String.
From LV Require Import Base.Conc Base.Events Model.Vyukov.
Import ListNotations.
Local Open Scope Z_scope.
Example C07_model_runs :
  snd (Vyukov.run_case [2;0;0;100] [[[1;5];[1;6];[1;7]]; [[2];[2]]] [0;0;0;1;1;0;1]%nat 1000) = true.
Proof. vm_compute. reflexivity. Qed.
