(** Property C19, IterableList part — the thread-safe iterator of cds::intrusive::IterableList<cds::gc::HP>
    (cds/intrusive/impl/iterable_list.h: iterator_type, begin(), end(), operator++, operator*, erase_at( iterator )), every schedule.

    Model: LV.Model.IterListIter (iterator on top of LV.Model.IterList, one atomic access per step, hazard-pointer traffic
    of Guard::protect included), tied to the C++ by step correspondence (checks/C19_iterlist.py, harness/C19/iterlist_main.cpp).
    HYPOTHESIS [smr_safe] (DESIGN 4), built into the model: node and item ids are never reused.  The order / no-duplicate
    property of the list is REFUTED (Properties_C13: iterlist-null-prev-aba); nothing below depends on it.

    Setting of the theorems: any number of threads run any operations of the model (insert / insert(f) / update / erase /
    erase(f) / unlink / extract / get / contains / find(f) / iterations with erase_at) under any schedule; [c1] is a
    configuration reachable from the initial one in which thread [t] has just emitted the invocation "inv 20 k" of an
    iteration - its program is [iter_started ..], see [C19_iterlist_iteration_start] -, [steps c1 cs c] is any execution
    from there ([cs] = all its configurations, [c1] included), [tr1] = the events emitted since [c1].

    (1) [C19_iterlist_visited_was_in_list]   every element the iterator yields ("visit key x" of [t]) is non-null and in a
        configuration of the execution that is not older than the previous "visit" of [t] (during this increment) x was the
        data pointer of a node reachable from m_Head: the value returned by
        the last load of Guard::protect, i.e. the load that follows the hazard store of x and agrees with the load before it
        (LV.Model.IterList.protect; the model does not represent the content of hazard slots, the slot of [it] is written
        only by that protect loop and by the final clear, which is what step correspondence checks).  With the HP theorem
        (C01: an object is not disposed while a hazard slot that was published before a later load found it in the
        structure still holds it) the element is not disposed while the iterator points at it.
    (2) [C19_iterlist_erase_at_exact]   every "erased b" of [t], x = the element of the last "visit" of [t] before it (the one
        the iterator points at): x was found in a node n of the list and
          b = true:  one step of [t] after that "visit" - the CAS of erase_at - changed the data cell of n from ( x, unmarked )
                     to null and no other data cell or next pointer (exactly that element, removed by this call; the ghost
                     count of such steps between "visit" and "erased" is exactly 1, [TR_erased]);
          b = false: in a configuration after that "visit" n did not hold x any more (it had been removed or replaced: a CAS
                     that fails only because a neighbour insert marks the pointer is retried, see fe3f87a).
    (3) [C19_iterlist_iter_complete]   completeness for a NODE-STABLE element: if node N is reachable from m_Head and its data
        pointer is X <> 0 in ALL configurations of [cs] and the iteration returns ("ret" of [t] in [tr1]), then X is visited.
        (IterableList never unlinks a node: [Inv] keeps the set of linked nodes closed under next, reachable from m_Head and
        growing; the only writes to next cells are the constructor / store of a private node and the link CAS.)
    NOT proved: "exactly once" / increasing order (false of the model: C13 refutation); that a key present throughout is
    visited when its ITEM is replaced by update() during the iteration (the property is stated per item); that after
    erase_at = false the element is in no other node (needs: an item is linked at most once, which needs the mark protocol of
    link_data); the trace-level order "hazard store before validating load before visit" (program order of protect).

    Proof: Proofs/IterListIterDefs.v (invariant, ghost, step relation) .. IterListIterThm.v, rule Proofs/ConcRel.v. *)
From Coq Require Import ZArith List String Bool Lia PeanoNat.
From LV Require Import Base.Conc Base.Events Model.IterList Model.IterListIter.
From LV Require Import Proofs.IterListIterDefs Proofs.IterListIterSafe Proofs.IterListIterLink Proofs.IterListIterThm
                       Proofs.IterListIterEx.
Import ListNotations.

Notation config := (Conc.config G V ev).

(** (3) completeness for a node-stable element *)
Theorem C19_iterlist_iter_complete :
  forall (fuel sf : nat) (ic : bool) (ths : list (list (list Z))) (c1 : config),
    Conc.reach (init_cfgI fuel sf ic ths) c1 ->
  forall (t : nat) (k : Z) (ls : lstate) (os : list (list Z)),
    nth_error (Conc.threads c1) t = Some (iter_started fuel sf ic t k ls os) ->
  forall (cs : list config) (c : config) (tr1 : list (nat * ev)),
    steps c1 cs c -> Conc.trace c = Conc.trace c1 ++ tr1 ->
  forall N X : nat, X <> 0 ->
    (forall c', In c' cs -> path (nnext (Conc.shared c')) HEAD N /\ fst (ndata (Conc.shared c') N) = X) ->
    (exists a b, In (t, ev_ret a b) tr1) ->
    exists kx, In (t, ev_visit kx X) tr1.
Proof.
  intros fuel sf ic ths c1 Hr t k ls os Hs cs c tr1 Hst Etr N X HX Hp Hret.
  exact (@iter_complete fuel sf ic ths c1 Hr t k ls os Hs cs c Hst tr1 Etr N X HX Hp Hret).
Qed.
Print Assumptions C19_iterlist_iter_complete.

(** (1) what the iterator yields, with the key it reports, was the data pointer of a node of the list during this increment: in a configuration that is
    not older than the previous "visit" of [t] ([lastpos t tra] = position, among the events [tra] emitted since [c1] before
    this "visit", right after the last "visit" of [t]; 0 if there is none: the configuration [c1] itself or a later one) *)
Theorem C19_iterlist_visited_was_in_list :
  forall (fuel sf : nat) (ic : bool) (ths : list (list (list Z))) (c1 : config),
    Conc.reach (init_cfgI fuel sf ic ths) c1 ->
  forall (t : nat) (k : Z) (ls : lstate) (os : list (list Z)),
    nth_error (Conc.threads c1) t = Some (iter_started fuel sf ic t k ls os) ->
  forall (cs : list config) (c : config) (tr1 : list (nat * ev)),
    steps c1 cs c -> Conc.trace c = Conc.trace c1 ++ tr1 ->
  forall tra kx x trb, tr1 = tra ++ (t, ev_visit kx x) :: trb ->
    x <> 0 /\ exists n c', In c' cs /\ List.length (Conc.trace c1) + lastpos t tra <= List.length (Conc.trace c') /\
                           path (nnext (Conc.shared c')) HEAD n /\ fst (ndata (Conc.shared c') n) = x /\
                           ikey (Conc.shared c') x = kx.
Proof.
  intros fuel sf ic ths c1 Hr t k ls os Hs cs c tr1 Hst Etr tra kx x trb Hv.
  exact (@iter_visited fuel sf ic ths c1 Hr t k ls os Hs cs c Hst tr1 Etr tra kx x trb Hv).
Qed.
Print Assumptions C19_iterlist_visited_was_in_list.

(** (2) erase_at( it ): [lastv t tra] = the element of the last "visit" of [t] among the events [tra] before the "erased" event
    (the element the iterator points at); all configurations named are not older than that "visit" ([lastpos t tra]) *)
Theorem C19_iterlist_erase_at_exact :
  forall (fuel sf : nat) (ic : bool) (ths : list (list (list Z))) (c1 : config),
    Conc.reach (init_cfgI fuel sf ic ths) c1 ->
  forall (t : nat) (k : Z) (ls : lstate) (os : list (list Z)),
    nth_error (Conc.threads c1) t = Some (iter_started fuel sf ic t k ls os) ->
  forall (cs : list config) (c : config) (tr1 : list (nat * ev)),
    steps c1 cs c -> Conc.trace c = Conc.trace c1 ++ tr1 ->
  forall tra b trb, tr1 = tra ++ (t, ev_erased b) :: trb ->
    lastv t tra <> 0 /\ exists n,
      (exists c', In c' cs /\ path (nnext (Conc.shared c')) HEAD n /\ fst (ndata (Conc.shared c') n) = lastv t tra) /\
      (if b then exists c' c'', In c' cs /\ In c'' cs /\
                   List.length (Conc.trace c1) + lastpos t tra <= List.length (Conc.trace c') /\
                   Conc.step_cfg c' t = Some c'' /\
                   ndata (Conc.shared c') n = (lastv t tra, false) /\ ndata (Conc.shared c'') n = (0, false) /\
                   (forall m, m <> n -> ndata (Conc.shared c'') m = ndata (Conc.shared c') m) /\
                   nnext (Conc.shared c'') = nnext (Conc.shared c')
       else exists c', In c' cs /\ List.length (Conc.trace c1) + lastpos t tra <= List.length (Conc.trace c') /\
                       fst (ndata (Conc.shared c') n) <> lastv t tra).
Proof.
  intros fuel sf ic ths c1 Hr t k ls os Hs cs c tr1 Hst Etr tra b trb Hv.
  exact (@iter_erased fuel sf ic ths c1 Hr t k ls os Hs cs c Hst tr1 Etr tra b trb Hv).
Qed.
Print Assumptions C19_iterlist_erase_at_exact.

(** where iterations start: the program of a thread whose next operation is [20; k], once the invocation has been emitted *)
Theorem C19_iterlist_iteration_start :
  forall fuel sf ic t k rest os ls,
    Conc.settle (run_opsI fuel sf ic t ((20%Z :: k :: rest) :: os) ls) =
    ([ev_inv (20%Z :: k :: rest)], iter_started fuel sf ic t k ls os).
Proof. exact iter_started_settle. Qed.
Print Assumptions C19_iterlist_iteration_start.

(** executions are exactly what [Conc.reach] relates *)
Theorem C19_iterlist_steps_reach :
  forall (c0 c : config), Conc.reach c0 c <-> exists cs, steps c0 cs c.
Proof. exact (@reach_steps G V ev). Qed.
Print Assumptions C19_iterlist_steps_reach.

(** the invariant behind (3), for every reachable configuration: the tail's next is the tail, the tail never holds data *)
Theorem C19_iterlist_tail_stable :
  forall (fuel sf : nat) (ic : bool) (ths : list (list (list Z))) (c : config),
    Conc.reach (init_cfgI fuel sf ic ths) c ->
    nnext (Conc.shared c) TAIL = TAIL /\ fst (ndata (Conc.shared c) TAIL) = 0.
Proof.
  intros fuel sf ic ths c Hr.
  destruct (ConcRel.reach_okR (c0 := init_cfgI fuel sf ic ths) (c := c)
              (view := view) (Inv := Inv 0) (SR := SR 0 1)) as (a & ws & [[HI HT] _]).
  - exists A0, (fun _ => w0). apply init_okR. discriminate.
  - exact Hr.
  - split; [apply (i_tn HI)|exact HT].
Qed.
Print Assumptions C19_iterlist_tail_stable.

(** IterableList<HP> never unlinks a node: every step of every reachable configuration keeps what is reachable from m_Head
    reachable (erase stores null into the data cell; the only writes to next cells link a new node) *)
Theorem C19_iterlist_nodes_never_unlinked :
  forall (fuel sf : nat) (ic : bool) (ths : list (list (list Z))) (c c' : config) (u : nat),
    Conc.reach (init_cfgI fuel sf ic ths) c -> Conc.step_cfg c u = Some c' ->
    forall n, path (nnext (Conc.shared c)) HEAD n -> path (nnext (Conc.shared c')) HEAD n.
Proof. exact never_unlinked. Qed.
Print Assumptions C19_iterlist_nodes_never_unlinked.

(** non-vacuity: thread 1 inserts keys 5 (node 3, item 2) and 7 (node 4, item 66); thread 0 starts an iteration that erases the
    elements with key 7 and visits key 5; thread 2 then inserts key 6 (new node 5 between nodes 3 and 4); thread 0 goes on:
    it visits the new element and key 7, erases it through erase_at and returns.  Node 3 holds item 2 in all 70 configurations
    of the iteration: the hypotheses of (3) hold, item 2 is visited; (2): the only "erased" pairs item 66 with true. *)
Example C19_iterlist_nonvacuous :
  let ths := [[[20; 7]]; [[1; 5]; [1; 7]]; [[1; 6]]]%Z in
  let c0 := init_cfgI 64 400 false ths in
  let cA := snd (exec (repeat 1 200) c0 [c0]) in
  let c1 := match Conc.step_cfg cA 0 with Some c => c | None => cA end in
  let r := exec (repeat 0 16 ++ repeat 2 80 ++ repeat 0 300) c1 [c1] in
  let tr1 := skipn (List.length (Conc.trace c1)) (Conc.trace (snd r)) in
  Conc.reach c0 c1 /\
  nth_error (Conc.threads c1) 0 = Some (iter_started 64 400 false 0 7%Z init_ls []) /\
  steps c1 (fst r) (snd r) /\ Conc.trace (snd r) = Conc.trace c1 ++ tr1 /\
  (forall c', In c' (fst r) -> path (nnext (Conc.shared c')) HEAD 3 /\ fst (ndata (Conc.shared c') 3) = 2) /\
  (exists a b, In (0, ev_ret a b) tr1) /\
  List.length (fst r) = 70 /\ nalloc (Conc.shared (snd r)) = 5 /\ nnext (Conc.shared (snd r)) 3 = 5 /\
  In (0, ev_visit 5 2) tr1 /\ epairs 0 tr1 = [(66, true)] /\
  (exists tra trb, tr1 = tra ++ (0, ev_erased true) :: trb /\ lastv 0 tra = 66).
Proof.
  cbv zeta.
  set (c0 := init_cfgI 64 400 false [[[20; 7]]; [[1; 5]; [1; 7]]; [[1; 6]]]%Z).
  set (cA := snd (exec (repeat 1 200) c0 [c0])).
  assert (HA : steps c0 (fst (exec (repeat 1 200) c0 [c0])) cA) by (apply exec_steps; constructor).
  assert (HtA : nth_error (Conc.threads cA) 0 = Some (thread_progI 64 400 false 0 [[20; 7]]%Z)).
  { unfold cA. rewrite exec_other.
    - reflexivity.
    - intros K. apply repeat_spec in K. discriminate K. }
  destruct (@begin_step cA 0 64 400 false 7%Z [] [] HtA) as (c1' & Hstep & Hprog & Hsh).
  rewrite Hstep.
  split. { apply reach_steps. eexists. econstructor; [exact HA|exact Hstep]. }
  split; [exact Hprog|].
  split; [apply exec_steps; constructor|].
  assert (E1 : c1' = match Conc.step_cfg cA 0 with Some c => c | None => cA end) by (rewrite Hstep; reflexivity).
  rewrite E1. clear.
  split; [vm_compute; reflexivity|].
  split; [apply presentb_all; vm_compute; reflexivity|].
  split; [exists 1%Z, 0%Z; vm_compute; tauto|].
  split; [vm_compute; reflexivity|]. split; [vm_compute; reflexivity|]. split; [vm_compute; reflexivity|].
  split; [vm_compute; tauto|]. split; [vm_compute; reflexivity|].
  match goal with |- exists tra trb, ?tr = _ /\ _ =>
    exists (firstn 65 tr), (skipn 66 tr) end.
  split; vm_compute; reflexivity.
Qed.
