(** Property C23 (placeholder while the proofs are being written) *)
From Coq Require Import ZArith List String.
From LV Require Import Base.Conc Base.Events Model.FcKernel.
Import ListNotations.
Local Open Scope Z_scope.

Example C23_model_runs :
  let r := FcKernel.run_case [1; 1; 400] [[[1;0]]; [[2;1]]] [0;1;0;1;1;0;0;1]%nat 2000 in
  snd r = true /\ List.length (filter (is_cli "exec") (map snd (fst r))) = 2%nat.
Proof. vm_compute. split; reflexivity. Qed.
