(** Property C23 — "In the flat-combining kernel, every published request is executed exactly once, by one
    combiner at a time, and its requester observes the response only after execution.  Publication records
    left by exited threads are reclaimed and not accessed afterwards."

    Model: LV.Model.FcKernel (cds::algo::flat_combining::kernel, one atomic access per step) driving the
    counting container of harness/C23 (the cnt_ definitions of LV.Model.FcKernel).  Only statements here; the proofs are in
    LV.Proofs.FcKernelProofs / LV.Proofs.FcKernelShape / LV.Proofs.FcKernelFree / LV.Proofs.FcContainers.

    Quantifiers of every theorem: any number of threads, any client programs made of requests (through
    kernel::combine or kernel::batch_combine) and thread exits, EVERY schedule ([Conc.reach] = every sequence
    of thread choices), any loop fuel, any compact-factor mask and any combine pass count (minimums included).

    Trace events: "lock"/"unlock" = combiner lock acquired / about to be released; "inv op rid" = request
    published by its thread; "exec tid op rid n" = the container executes the request of thread tid (n = value of
    the request's execution counter afterwards); "ret n" = the requester has seen req_Response and read n;
    "free" = compact_list freed a record; "lost" (model only) = release_record of a record whose request word is
    not req_Response, i.e. the containers' compiled-out `assert( pRec->is_done())` would fail; "uaf" (model only) =
    an atomic access to a freed record. *)
From Coq Require Import ZArith List String Bool.
From LV Require Import Base.Conc Base.Events Base.Lin Model.FcKernel Proofs.FcKernelProofs Proofs.FcContainers.
From LV Require Import Model.FcKernelWake Proofs.FcWakeThms.
Import ListNotations.
Local Open Scope string_scope.

(** *** one combiner at a time.
    [mon None tr = Some h]: in [tr], "lock" and "unlock" alternate starting with "lock", every "unlock" is by
    the thread that locked, and every "exec" and every "free" is emitted by the current lock holder. *)
Theorem C23_fc_single_combiner :
  forall (chk : bool) (fuel mask npass : nat) (ths : list (list cop)) c,
    ops_ok cnt_okop ths -> Conc.reach (cnt_init_cfg chk fuel mask npass ths) c ->
    exists h, mon None (Conc.trace c) = Some h.
Proof. exact fc_single_combiner. Qed.
Print Assumptions C23_fc_single_combiner.

(** *** exactly once.
    [lp_valid CountSpec (cnt_annot tr)] says: reading "inv" as an invocation, "exec tid .." as THE execution point of
    thread tid's outstanding request and "ret n" as the response, every thread goes
    inv -> exec -> ret -> inv -> ..., (so an "exec" happens only for a request that is published and not yet
    executed: never twice, never before publication, never after the response; and a "ret" only after the
    "exec"), and the value n returned is the value the execution produced (with distinct request ids: 1).

    Preconditions: the request words are those of the counting container ([ops_ok]), and a request made
    through plain [combine] needs a combine pass count >= 1 ([passes_ok]: every request is a batch_combine or
    1 <= npass).  With pass count 0 a combiner would never serve its own record and the real code's
    `assert( pRec->is_done())` would fail; the kernel's default is 8.

    Proof: LV.Proofs.FcKernelProofs (part A: the LP-annotated trace is valid as long as no record is released
    unanswered) composed with LV.Proofs.FcKernelShape.fc_never_lost (part B: from the ghost publication-list
    invariant - the list from m_pHead is duplicate-free, every active record is on it, and a combining pass
    walks a suffix of it that contains the combiner's own record - no record is ever released unanswered). *)
Theorem C23_fc_exactly_once_mutex :
  forall (fuel mask npass : nat) (ths : list (list cop)) c,
    ops_ok cnt_okop ths -> passes_ok npass ths -> Conc.reach (cnt_init_cfg true fuel mask npass ths) c ->
    lp_valid CountSpec (cnt_annot (Conc.trace c)).
Proof. exact fc_exactly_once. Qed.
Print Assumptions C23_fc_exactly_once_mutex.

(** the same with the simpler precondition "at least one combine pass" *)
Corollary C23_fc_exactly_once_mutex_npass :
  forall (fuel mask npass : nat) (ths : list (list cop)) c,
    1 <= npass -> ops_ok cnt_okop ths -> Conc.reach (cnt_init_cfg true fuel mask npass ths) c ->
    lp_valid CountSpec (cnt_annot (Conc.trace c)).
Proof. intros fuel mask npass ths c Hn Hok Hr. exact (fc_exactly_once Hok (passes_ok_pos ths Hn) Hr). Qed.

(** the compiled-out `assert( pRec->is_done())` of release_record never fails: no "lost" marker on any trace *)
Theorem C23_fc_never_released_unanswered :
  forall (fuel mask npass : nat) (ths : list (list cop)) c,
    ops_ok cnt_okop ths -> passes_ok npass ths -> Conc.reach (cnt_init_cfg true fuel mask npass ths) c ->
    has_lost (Conc.trace c) = false.
Proof. exact fc_never_released_unanswered. Qed.
Print Assumptions C23_fc_never_released_unanswered.

(** the precondition on the pass count is necessary: with npass = 0 a plain [combine] by a lone thread is
    released unanswered *)
Example C23_pass_count_zero_loses :
  let c := fst (Conc.run 400 0 (repeat 0%nat 200) (cnt_init_cfg true 400 0 0 [[CReq false op_single 0%Z]])) in
  has_lost (Conc.trace c) = true.
Proof. vm_compute. reflexivity. Qed.

(** Part A alone, for both versions of compact_list ([chk] arbitrary): exactly-once on every trace without the
    "lost" marker.  (For the code before 5412e9d the marker does occur: see the refutation below.) *)
Theorem C23_fc_exactly_once_mutex_if_not_lost :
  forall (chk : bool) (fuel mask npass : nat) (ths : list (list cop)) c,
    ops_ok cnt_okop ths -> Conc.reach (cnt_init_cfg chk fuel mask npass ths) c ->
    has_lost (Conc.trace c) = false -> lp_valid CountSpec (cnt_annot (Conc.trace c)).
Proof. exact fc_exactly_once_partA. Qed.
Print Assumptions C23_fc_exactly_once_mutex_if_not_lost.

(** *** records are not used after they were freed *)
Definition has_uaf (tr : list (nat * ev)) : bool := existsb (is_ev "uaf") tr.

(** On the current code, for every schedule, any number of threads, thread exits at any moment (in particular
    between the two loops of another thread's compact_list), any compact factor: no atomic access of the kernel
    is to a freed publication record.  Same preconditions as exactly-once.

    Proof: LV.Proofs.FcKernelFree (part B's publication-list invariant extended with the ghost allocated list
    and the set of freed records: a record is freed only when it has no owner, is_published returned false -
    so it is not in the publication list - and the same CAS unlinks it from the allocated list; every access
    is to the thread's own record, to m_pHead, or - under the combiner lock - to a record reached through one
    of the two lists or completed by fc_process in the same pass). *)
Theorem C23_fc_records_not_used_after_free :
  forall (fuel mask npass : nat) (ths : list (list cop)) c,
    ops_ok cnt_okop ths -> passes_ok npass ths -> Conc.reach (cnt_init_cfg true fuel mask npass ths) c ->
    has_uaf (Conc.trace c) = false.
Proof. exact fc_records_not_used_after_free. Qed.
Print Assumptions C23_fc_records_not_used_after_free.

Corollary C23_fc_records_not_used_after_free_npass :
  forall (fuel mask npass : nat) (ths : list (list cop)) c,
    1 <= npass -> ops_ok cnt_okop ths -> Conc.reach (cnt_init_cfg true fuel mask npass ths) c ->
    has_uaf (Conc.trace c) = false.
Proof. intros fuel mask npass ths c Hn Hok Hr. exact (fc_records_not_used_after_free Hok (passes_ok_pos ths Hn) Hr). Qed.

(** Before commit 5412e9d ([chk = false]: loop 2 of compact_list frees every `removed` record) the statement is
    FALSE: thread 1 exits between the two loops of thread 0's compact_list; its record is freed while
    m_pHead->pNext still points at it, and thread 0's next combining pass reads it (corpus/C23, replayed on the
    real code by checks/C23.py).  As a consequence thread 0's second request is never executed ("lost"). *)
Definition uaf_witness_sched : list nat :=
  [0;0;0;0;0;0;0;0;0;0;0;0;0;0;0;0;1;1;1;1;1;1;1;1;1;1;1;1;1;0;0;0;0;0;0;0;0;0;0;0;0;0;0;0;0;0;0;
   1;1;1;1;1;1;1;1;1;1;1;1;1;1;1;1;1;1;1;1;1;1;1]%nat.

Theorem C23_fc_records_not_used_after_free_refuted_before_fix :
  exists (ths : list (list cop)) c,
    ops_ok cnt_okop ths /\ Conc.reach (cnt_init_cfg false 400 0 1 ths) c /\
    has_uaf (Conc.trace c) = true /\ has_lost (Conc.trace c) = true.
Proof.
  exists [[CReq false op_single 0%Z; CReq false op_single 2%Z]; [CReq false op_single 1%Z]].
  exists (fst (Conc.run 2000 0 uaf_witness_sched
                 (cnt_init_cfg false 400 0 1 [[CReq false op_single 0%Z; CReq false op_single 2%Z]; [CReq false op_single 1%Z]]))).
  split; [repeat constructor|]. split; [apply Conc.run_reach|]. vm_compute. split; reflexivity.
Qed.
Print Assumptions C23_fc_records_not_used_after_free_refuted_before_fix.

(** the same schedule on the current code ([chk = true]): no access after free, nothing lost, both threads'
    records handled *)
Example C23_same_schedule_after_fix :
  let c := fst (Conc.run 2000 0 uaf_witness_sched
                 (cnt_init_cfg true 400 0 1 [[CReq false op_single 0%Z; CReq false op_single 2%Z]; [CReq false op_single 1%Z]])) in
  has_uaf (Conc.trace c) = false /\ has_lost (Conc.trace c) = false /\
  List.length (filter (is_ev "exec") (Conc.trace c)) = 3%nat.
Proof. vm_compute. repeat split; reflexivity. Qed.

(** non-vacuity: a run in which thread 0, as combiner, executes the request of thread 1 (helping), a pair of
    batch requests is completed by one fc_process iteration, and a record of an exited thread is freed *)
Example C23_nonvacuous :
  let r := FcKernel.run_case [1; 2; 400]%Z
             [[[2; 0]]; [[2; 1]]; [[1; 2]; [3]; [1; 3]]]%Z
             [0;0;0;0;0;0;0;0;0;0;0;0;0; 1;1;1;1;1;1;1;1;1;1;1;1;1;1; 2;2;2;2;2;2;2;2;2;2;2;2;2;2;2;2;2;2;2;2;2;2;2;2;2;2;2;2;2;2;2;2;2;2;2;2;2;2;2;2;2;2;2;2;2;2;2;2;2;2;2;2;2;2;2;2;2;2;2;2;2;2]%nat 4000 in
  snd r = true /\
  List.length (filter (is_ev "exec") (fst r)) = 4%nat /\
  List.length (filter (is_ev "ret") (fst r)) = 4%nat /\
  has_lost (fst r) = false.
Proof. vm_compute. repeat split; reflexivity. Qed.

(** *** wait strategies whose wakeup() calls kernel::wakeup_any(), and kernel::invoke_exclusive

    Model LV.Model.FcKernelWake: the kernel above (compact_list of the current tree) with
      [wk = true]:   a wait strategy of the condition-variable kind (wait_strategy::single_mutex_multi_condvar /
                     multi_mutex_multi_condvar): wait() loads the request word, wakeup() calls fc.wakeup_any(),
                     which walks the publication list from m_pHead;  [wk = false]: wait_strategy::backoff;
      [wkin = true]: wait_for_combining and invoke_exclusive call m_waitStrategy.wakeup( *this ) BEFORE they
                     release the combiner lock (the current tree, commit 958e254);
      [wkin = false]: after the unlock (the tree before that commit).
    Client programs ([wop]): requests through combine / batch_combine, thread exit, invoke_exclusive (spin lock
    m_Mutex.lock(), empty functor).  Quantifiers as above: any number of threads, any programs, EVERY schedule,
    any loop fuel, compact-factor mask and combine pass count.  Proofs: LV.Proofs.FcWakeProofs / FcWakeFree /
    FcWakeThms (the invariants and step lemmas of parts A and C re-used unchanged). *)

(** one combiner at a time: both orders of the wakeup *)
Theorem C23_fc_wake_single_combiner :
  forall (wk wkin : bool) (fuel mask npass : nat) (ths : list (list wop)) c,
    wops_ok ths -> Conc.reach (cntw_init_cfg wk wkin fuel mask npass ths) c ->
    exists h, mon None (Conc.trace c) = Some h.
Proof. exact fc_wake_single_combiner. Qed.
Print Assumptions C23_fc_wake_single_combiner.

(** exactly once, wakeup inside the lock *)
Theorem C23_fc_wake_exactly_once_mutex :
  forall (wk : bool) (fuel mask npass : nat) (ths : list (list wop)) c,
    wops_ok ths -> wpasses_ok npass ths -> Conc.reach (cntw_init_cfg wk true fuel mask npass ths) c ->
    lp_valid CountSpec (cnt_annot (Conc.trace c)).
Proof. exact fc_wake_exactly_once. Qed.
Print Assumptions C23_fc_wake_exactly_once_mutex.

Theorem C23_fc_wake_never_released_unanswered :
  forall (wk : bool) (fuel mask npass : nat) (ths : list (list wop)) c,
    wops_ok ths -> wpasses_ok npass ths -> Conc.reach (cntw_init_cfg wk true fuel mask npass ths) c ->
    has_lost (Conc.trace c) = false.
Proof. exact fc_wake_never_released_unanswered. Qed.
Print Assumptions C23_fc_wake_never_released_unanswered.

(** exactly once on every trace without the "lost" marker, both orders of the wakeup *)
Theorem C23_fc_wake_exactly_once_mutex_if_not_lost :
  forall (wk wkin : bool) (fuel mask npass : nat) (ths : list (list wop)) c,
    wops_ok ths -> Conc.reach (cntw_init_cfg wk wkin fuel mask npass ths) c ->
    has_lost (Conc.trace c) = false -> lp_valid CountSpec (cnt_annot (Conc.trace c)).
Proof. exact fc_wake_exactly_once_partA. Qed.
Print Assumptions C23_fc_wake_exactly_once_mutex_if_not_lost.

(** records are not used after they were freed: the walk of wakeup_any() happens under the combiner lock, and
    compact_list - the only code that frees a record - needs the same lock *)
Theorem C23_fc_wake_records_not_used_after_free :
  forall (wk : bool) (fuel mask npass : nat) (ths : list (list wop)) c,
    wops_ok ths -> wpasses_ok npass ths -> Conc.reach (cntw_init_cfg wk true fuel mask npass ths) c ->
    has_uaf (Conc.trace c) = false.
Proof. exact fc_wake_records_not_used_after_free. Qed.
Print Assumptions C23_fc_wake_records_not_used_after_free.

Corollary C23_fc_wake_records_not_used_after_free_npass :
  forall (wk : bool) (fuel mask npass : nat) (ths : list (list wop)) c,
    1 <= npass -> wops_ok ths -> Conc.reach (cntw_init_cfg wk true fuel mask npass ths) c ->
    has_uaf (Conc.trace c) = false.
Proof. intros wk fuel mask npass ths c Hn Hok Hr. exact (fc_wake_records_not_used_after_free wk fuel mask npass ths c Hok (wpasses_ok_pos npass ths Hn) Hr). Qed.

(** Before commit 958e254 ([wkin = false]) the statement is FALSE: a requester that finds its request answered
    after winning try_lock in wait_for_combining unlocks and then walks the publication list in wakeup_any();
    meanwhile another combiner's compact_list unlinks and frees the record of an exited thread the walker is
    about to read (witness: [wake_witness_ths] under [wake_witness_sched] in LV.Proofs.FcWakeThms; the same case
    is corpus/C23/uaf_wakeup_any_after_unlock.json, replayed on the real code by checks/C23.py: ASan reports
    heap-use-after-free in wait_for_combining on the tree before the commit). *)
Theorem C23_fc_records_not_used_after_free_wakeup_outside_lock_refuted :
  exists (ths : list (list wop)) c,
    wops_ok ths /\ wpasses_ok 1 ths /\ Conc.reach (cntw_init_cfg true false 400 0 1 ths) c /\
    has_uaf (Conc.trace c) = true.
Proof. exact fc_wake_records_not_used_after_free_wakeup_outside_lock_refuted. Qed.
Print Assumptions C23_fc_records_not_used_after_free_wakeup_outside_lock_refuted.

(** the same programs and schedule on the current code: no access after free, nothing lost, all four requests
    executed, both exited threads' records freed *)
Example C23_wake_same_schedule_after_fix :
  let c := fst (Conc.run 2000 0 wake_witness_sched (cntw_init_cfg true true 400 0 1 wake_witness_ths)) in
  has_uaf (Conc.trace c) = false /\ has_lost (Conc.trace c) = false /\
  List.length (filter (is_ev "exec") (Conc.trace c)) = 4%nat /\
  List.length (filter (is_ev "free") (Conc.trace c)) = 2%nat.
Proof. exact fc_wake_same_schedule_after_fix. Qed.

(** non-vacuity: invoke_exclusive by a thread with and by a thread without a publication record, contended lock *)
Example C23_wake_excl_nonvacuous :
  let c := fst (Conc.run 2000 0 (repeat 0 13 ++ repeat 1 8 ++ repeat 0 60 ++ repeat 1 50)%list
                  (cntw_init_cfg true true 400 0 1 [[WReq false op_single 0%Z; WExcl]; [WExcl; WReq false op_single 1%Z]])) in
  has_uaf (Conc.trace c) = false /\ has_lost (Conc.trace c) = false /\
  List.length (filter (is_ev "excldone") (Conc.trace c)) = 2%nat /\
  List.length (filter (is_ev "exec") (Conc.trace c)) = 2%nat.
Proof. exact fc_wake_excl_nonvacuous. Qed.
