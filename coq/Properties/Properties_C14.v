(** Property C14 — hash sets and maps are linearizable, including during growth.
    Only statements here; proofs live in LV.Proofs.*.  Part 1: FeldmanHashSet<HP> at step grain (LV.Model.Feldman, tied to
    cds/intrusive/impl/feldman_hashset.h + details/feldman_hashset_base.h by step correspondence, checks/C14.py). *)
From Coq Require Import ZArith NArith List String.
From LV Require Import Base.Conc Base.Events Base.Lin Spec.Specs Model.Feldman Proofs.FeldmanStepInv Proofs.FeldmanStepSafe Proofs.FeldmanStepThm.
From LV Require Import Model.SplitList Proofs.SplitListInv Proofs.PartitionLin Proofs.FeldmanLinInv Proofs.FeldmanLinSafe.
From LV Require Proofs.FeldmanStepRel.
From LV Require Model.MichaelList Model.Product Model.MichaelSet Proofs.MichaelListProofs Proofs.MichaelSetProofs Proofs.MichaelSetShape Proofs.MichaelSetHist Proofs.MichaelSetLin.
Import ListNotations.

(** [data_at g a i p]: item p sits in slot i of array node a, reachable from the head array (a slot in the "converting"
    state still counts as holding its item).  For every head/array width > 0, every hash table, every client program of
    insert / update / erase / contains operations, every loop fuel and EVERY schedule: in every reachable configuration
    no two slots hold items with the same hash — "no key is ever present twice", including while array nodes are being
    expanded. *)
Theorem C14_feldman_nodup :
  forall (hbits abits W : nat) (hs : list N), 0 < hbits -> 0 < abits ->
  forall (fuel : nat) (ths : list (list (list Z))) c,
    Conc.reach (Feldman.init_cfg hbits abits W hs fuel ths) c ->
    forall a i p a' i' p',
      data_at (Conc.shared c) a i p -> data_at (Conc.shared c) a' i' p' ->
      Feldman.hash hs (ikey (Conc.shared c) p) = Feldman.hash hs (ikey (Conc.shared c) p') ->
      a = a' /\ i = i' /\ p = p'.
Proof. exact feldman_nodup_reach. Qed.
Print Assumptions C14_feldman_nodup.

(** the structural invariant behind it (every item sits on the path of its hash; a converting slot has exactly one owner
    with a private, not yet linked array node) holds in every reachable configuration *)
Theorem C14_feldman_invariant :
  forall (hbits abits W : nat) (hs : list N), 0 < hbits -> 0 < abits ->
  forall (fuel : nat) (ths : list (list (list Z))) c,
    Conc.reach (Feldman.init_cfg hbits abits W hs fuel ths) c ->
    exists A, FeldmanStepInv.Inv hbits abits hs (Conc.shared c) A (Conc.trace c).
Proof. exact feldman_inv_reach. Qed.
Print Assumptions C14_feldman_invariant.

(** expand_slot changes no key's presence: each of its three accesses (CAS data -> converting, store of the moved item
    into the new array node, CAS converting -> array node), executed in a state satisfying the invariant by the thread
    that owns the conversion, leaves [present g h] unchanged for every hash h.  ([safe_expand] in FeldmanStepSafe shows
    that every execution of expand_slot performs exactly these accesses under exactly these preconditions.) *)
Theorem C14_feldman_expand_preserves_partial :
  forall (hbits abits : nat) (hs : list N),
  (forall g a i p, arr g a i = mkSlot p 0 ->
     forall h, present hs (conv_state g a i p) h <-> present hs g h) /\
  (forall g A tr t a i p n idx, FeldmanStepInv.Inv hbits abits hs g A tr -> ph (views A t) = PConv a i p n ->
     forall h, present hs (with_arr g (set_slot (arr g) n idx (mkSlot p 0))) h <-> present hs g h) /\
  (forall g A tr t a i p n, FeldmanStepInv.Inv hbits abits hs g A tr -> ph (views A t) = PStored a i p n ->
     forall h, present hs (with_arr g (set_slot (arr g) a i (mkSlot n 2))) h <-> present hs g h).
Proof.
  intros hbits abits hs. split; [|split].
  - intros g a i p. apply conv_preserves.
  - intros g A tr t a i p n idx. apply store_preserves.
  - intros g A tr t a i p n. apply link_preserves.
Qed.
Print Assumptions C14_feldman_expand_preserves_partial.

(** full statement, over the steps of every execution (every schedule): a slot holding an array node never changes, a
    converting slot changes only into an array node, and any step that changes a flag preserves the set of hashes present
    - the slot life cycle data -> converting -> array node happens at most once per slot.  Proved with the relational
    variant of the proof rule (Proofs/ConcRel.v: every access of every program additionally satisfies a relation between
    the shared state before and after; Proofs/FeldmanStepRel.v: the programs of the Feldman model in that rule). *)
Theorem C14_feldman_expand_preserves :
  forall (hbits abits W : nat) (hs : list N), 0 < hbits -> 0 < abits ->
  forall fuel ths c t c', Conc.reach (Feldman.init_cfg hbits abits W hs fuel ths) c -> Conc.step_cfg c t = Some c' ->
    (forall a i, sbits (arr (Conc.shared c) a i) = 2 -> arr (Conc.shared c') a i = arr (Conc.shared c) a i) /\
    (forall a i, sbits (arr (Conc.shared c) a i) = 1 ->
       arr (Conc.shared c') a i = arr (Conc.shared c) a i \/ sbits (arr (Conc.shared c') a i) = 2) /\
    ((exists a i, sbits (arr (Conc.shared c) a i) <> sbits (arr (Conc.shared c') a i)) ->
       forall h, present hs (Conc.shared c') h <-> present hs (Conc.shared c) h).
Proof.
  intros hbits abits W hs Hh Ha fuel ths c t c' Hr Hs.
  exact (@FeldmanStepRel.feldman_step_rel hbits abits W hs Hh Ha fuel ths c t c' Hr Hs).
Qed.
Print Assumptions C14_feldman_expand_preserves.

(** non-vacuity: a concrete 2-thread run (head 4 bits, array 2 bits, hashes 5, 21, 37 share the head slot) in which an
    array node is created and two items end up in different slots of it *)
Example C14_feldman_nonvacuous :
  let c := fst (Conc.run 2000 0 [0;1;0;1;1;0]%nat
                 (Feldman.init_cfg 4 2 32 [5; 21; 37; 2]%N 50 [[[1;0];[1;2]]; [[1;1];[7;0]]]%Z)) in
  Conc.reach (Feldman.init_cfg 4 2 32 [5; 21; 37; 2]%N 50 [[[1;0];[1;2]]; [[1;1];[7;0]]]%Z) c /\
  data_at (Conc.shared c) 1 1 2 /\ data_at (Conc.shared c) 1 2 3 /\ narr (Conc.shared c) = 2.
Proof.
  cbv zeta. split; [apply Conc.run_reach|].
  assert (R : reach_arr (Conc.shared (fst (Conc.run 2000 0 [0;1;0;1;1;0]%nat
                 (Feldman.init_cfg 4 2 32 [5; 21; 37; 2]%N 50 [[[1;0];[1;2]]; [[1;1];[7;0]]]%Z)))) 1).
  { eapply ra_child with (a := 0) (i := 5); [constructor|vm_compute; reflexivity]. }
  split; [|split].
  - split; [exact R|]. exists 0. split; [vm_compute; reflexivity|]. split; discriminate.
  - split; [exact R|]. exists 0. split; [vm_compute; reflexivity|]. split; discriminate.
  - vm_compute. reflexivity.
Qed.


(** FULL linearizability of the FeldmanHashSet<HP> model, reads included.  [FeldmanLinInv.full_hist hs tr] is the complete
    invoke/response history of the trace over the sequential set of HASH VALUES (the container identifies an item with its
    hash): insert k -> SInsert (hash k), update k -> SUpdate (hash k) bInsert (result pair), erase k -> SErase (hash k),
    contains k -> SContains (hash k).  For every head/array width > 0, every table of W-bit hashes, every client program and
    EVERY schedule, the history of every reachable configuration is the history of an LP-annotated trace valid for SetSpec,
    hence linearizable - while array nodes are being expanded.  Linearization points: the slot CAS of a successful insert /
    inserting update / erase; a failed insert, an update of an existing item (the replacing CAS included), a failed erase, a
    failed update without insert and contains linearize at the thread's own last observation of the slot on the path of
    its hash (protect's load), Proofs/FeldmanLinInv.v. *)
Theorem C14_feldman_linearizable_lp :
  forall (hbits abits W : nat) (hs : list N), 0 < hbits -> 0 < abits ->
  (forall k, (Feldman.hash hs k < 2 ^ N.of_nat W)%N) ->
  forall (fuel : nat) (ths : list (list (list Z))) c,
    Conc.reach (Feldman.init_cfg hbits abits W hs fuel ths) c ->
    exists atr, lp_valid SetSpec atr /\ erase atr = FeldmanLinInv.full_hist hs (Conc.trace c).
Proof. exact feldman_linearizable_lp. Qed.
Print Assumptions C14_feldman_linearizable_lp.

Theorem C14_feldman_linearizable :
  forall (hbits abits W : nat) (hs : list N), 0 < hbits -> 0 < abits ->
  (forall k, (Feldman.hash hs k < 2 ^ N.of_nat W)%N) ->
  forall (fuel : nat) (ths : list (list (list Z))) c,
    Conc.reach (Feldman.init_cfg hbits abits W hs fuel ths) c ->
    linearizable SetSpec (FeldmanLinInv.full_hist hs (Conc.trace c)).
Proof. exact feldman_linearizable. Qed.
Print Assumptions C14_feldman_linearizable.

(** non-vacuity: the history of the concrete run above has 8 events (4 completed operations, two of them overlapping) and the
    hypotheses hold for its configuration (4-bit head, 2-bit array nodes, hashes below 2^32) *)
Example C14_feldman_linearizable_nonvacuous :
  let c := fst (Conc.run 2000 0 [0;1;0;1;1;0]%nat
                 (Feldman.init_cfg 4 2 32 [5; 21; 37; 2]%N 50 [[[1;0];[1;2]]; [[1;1];[7;0]]]%Z)) in
  List.length (FeldmanLinInv.full_hist [5; 21; 37; 2]%N (Conc.trace c)) = 8 /\
  lincheck SetSpec (FeldmanLinInv.full_hist [5; 21; 37; 2]%N (Conc.trace c)) = true /\
  (forall k, (Feldman.hash [5; 21; 37; 2]%N k < 2 ^ N.of_nat 32)%N).
Proof.
  cbv zeta. split; [vm_compute; reflexivity|]. split; [vm_compute; reflexivity|].
  intros k. unfold Feldman.hash. do 4 (destruct k as [|k]; [vm_compute; reflexivity|]). destruct k; vm_compute; reflexivity.
Qed.

(** * Part 2: SplitListSet<HP, MichaelList> at step grain (LV.Model.SplitList, tied to cds/intrusive/split_list.h +
      details/split_list_base.h by step correspondence with load factor 1, 2 initial buckets, growth and concurrent bucket
      initialisation on almost every insert). *)

(** PARTIAL [split_bucket_init_safe]: for every table capacity, hash table, client program and EVERY schedule, in every
    reachable configuration a published bucket pointer is an allocated aux node that carries exactly that bucket's dummy
    key, and the parent bucket of a published bucket is published (init_bucket initialises the parent first and publishes
    only after it).  Missing for the full statement below: "that node is in the list, after its parent's dummy" — this
    needs the sortedness/reachability invariant of the Michael list under the list operations (C13 proves it for
    LV.Model.MichaelList, whose search is hard-wired to m_pHead; it has not been re-proved for searches that start at a
    bucket's aux node). *)
Theorem C14_split_bucket_init_safe_partial :
  forall (cap : nat) (hs : list Z) (fuel : nat) (ths : list (list (list Z))) c,
    Conc.reach (SplitList.init_cfg cap hs fuel ths) c ->
    forall b, table (Conc.shared c) b <> 0 ->
      nkey (heap (Conc.shared c) (table (Conc.shared c) b)) = dkey b /\
      table (Conc.shared c) b <= nalloc (Conc.shared c) /\
      (b <> 0 -> table (Conc.shared c) (parent_bucket b) <> 0).
Proof. exact split_table_reach. Qed.
Print Assumptions C14_split_bucket_init_safe_partial.

(** nodes reachable from node [n] by following m_pNext *)
Inductive list_reach (g : SplitList.G) : nat -> nat -> Prop :=
| lr_refl n : list_reach g n n
| lr_step n m : n <> 0 -> list_reach g (nnext (heap g n)) m -> list_reach g n m.

(** full statements (NOT proved) *)
Definition split_bucket_init_safe_statement : Prop :=
  forall cap hs fuel ths c, Conc.reach (SplitList.init_cfg cap hs fuel ths) c ->
    forall b, table (Conc.shared c) b <> 0 ->
      nkey (heap (Conc.shared c) (table (Conc.shared c) b)) = dkey b /\
      list_reach (Conc.shared c) 1 (table (Conc.shared c) b) /\
      (b <> 0 -> list_reach (Conc.shared c) (table (Conc.shared c) (parent_bucket b)) (table (Conc.shared c) b)).

(** changing m_nBucketCountLog2 never makes a present key unreachable from the bucket its hash now selects: an unmarked
    item node reachable from the list head is reachable from the aux node of [bucket_no h log2] whenever that bucket is
    published (uses the split-order theorem of C27: every regular key of a bucket sorts after the bucket's dummy) *)
Definition split_growth_preserves_lookup_statement : Prop :=
  forall cap hs fuel ths c, Conc.reach (SplitList.init_cfg cap hs fuel ths) c ->
    forall k n, list_reach (Conc.shared c) 1 n -> n <> 0 -> nmark (heap (Conc.shared c) n) = false ->
      nkey (heap (Conc.shared c) n) = okey (SplitList.hash hs k) k ->
      forall b, b = bucket_no (SplitList.hash hs k) (log2 (Conc.shared c)) -> table (Conc.shared c) b <> 0 ->
        list_reach (Conc.shared c) (table (Conc.shared c) b) n.

Definition split_nodup_statement : Prop :=
  forall cap hs fuel ths c, Conc.reach (SplitList.init_cfg cap hs fuel ths) c ->
    forall n m, list_reach (Conc.shared c) 1 n -> list_reach (Conc.shared c) 1 m -> n <> 0 -> m <> 0 ->
      nkey (heap (Conc.shared c) n) = nkey (heap (Conc.shared c) m) -> n = m.

(** non-vacuity: a concrete 3-thread run in which the table grows from 2 to 4 buckets and buckets 1 and 3 get initialised
    (bucket 3 after its parent 1), all inserts succeed *)
Example C14_split_nonvacuous :
  let c := fst (Conc.run 20000 0 [0;1;2;1;0;2;2;1]%nat
                 (SplitList.init_cfg 32 [0;1;2;3;4;5]%Z 80 [[[1;1];[1;3]]; [[1;0];[1;2]]; [[1;3];[13;1]]]%Z)) in
  log2 (Conc.shared c) = 2 /\ table (Conc.shared c) 1 <> 0 /\ table (Conc.shared c) 3 <> 0 /\
  nkey (heap (Conc.shared c) (table (Conc.shared c) 3)) = dkey 3 /\ count (Conc.shared c) = 4%Z.
Proof. vm_compute. repeat split; discriminate. Qed.

(** * Part 3: composition over a partition of the keys (MichaelHashSet = array of ordered lists selected by hash & mask) *)

(** Pure fact about LP-annotated histories of the sequential set (LV.Base.Lin): if the trace is sequential per thread
    ([shape_ok]) and, for EVERY bucket b, the sub-trace of the operations whose key lies in bucket b is valid, then the whole
    trace is valid, hence its history is linearizable.  [bucket] is an arbitrary function of the key. *)
Theorem C14_partition_linearizable_lp :
  forall (bucket : Z -> nat) (tr : list (aev SetSpec)),
    shape_ok (fun _ => TIdle) tr ->
    (forall b, lp_valid SetSpec (proj bucket b (fun _ => None) tr)) ->
    lp_valid SetSpec tr /\ linearizable SetSpec (erase tr).
Proof.
  intros bucket tr H1 H2. split; [apply partition_lp_valid with (bucket := bucket)|apply partition_linearizable_lp with (bucket := bucket)]; assumption.
Qed.
Print Assumptions C14_partition_linearizable_lp.

Example C14_partition_nonvacuous :
  let tr : list (aev SetSpec) :=
    [@AInv SetSpec 0 (SInsert 1); @AInv SetSpec 1 (SInsert 2); @ALin SetSpec 1; @ALin SetSpec 0; @ARes SetSpec 0 (RBool true);
     @AInv SetSpec 0 (SContains 2); @ARes SetSpec 1 (RBool true); @ALin SetSpec 0; @ARes SetSpec 0 (RBool true)]%Z in
  shape_ok (fun _ => TIdle) tr /\
  (forall b, lp_valid SetSpec (proj (fun k => Z.to_nat (Z.land k 1)) b (fun _ => None) tr)) /\
  List.length (proj (fun k => Z.to_nat (Z.land k 1)) 0 (fun _ => None) tr) = 6 /\
  List.length (proj (fun k => Z.to_nat (Z.land k 1)) 1 (fun _ => None) tr) = 3.
Proof.
  cbv zeta. split; [cbn; repeat split; auto; discriminate|]. split; [|split; reflexivity].
  intros [|[|b]]; unfold lp_valid; vm_compute; eexists; reflexivity.
Qed.

(** * Part 4: MichaelHashSet<HP, MichaelList> = product of C13's Michael-list models (LV.Model.MichaelSet) *)

(** For every number of buckets > 0, every hash table, every client program (operation codes of the list model: insert,
    insert with functor, update, erase, erase with functor, unlink, extract, get, contains, find) and EVERY schedule of the
    product model: the history of every bucket - the operations whose key hashes to that bucket, with their TRUE invocation
    and response instants inside the interleaved execution of all buckets ([Product.projb b] of the product trace) - is the
    history of an LP-annotated trace valid for the sequential set, hence linearizable.  Obtained by lifting C13's
    per-operation invariant lemma through the generic product rule (Proofs/ProductProofs.v), not from C13's end theorem
    (whose traces would place an invocation right after the thread's previous response in the same bucket). *)
Theorem C14_michaelset_bucket_linearizable :
  forall (nb : nat) (hs : list Z), 0 < nb ->
  forall (fuel sf : nat) (ic : bool) (ths : list (list (list Z))) c,
    Conc.reach (MichaelSet.init_cfgP nb hs fuel sf ic ths) c ->
    forall b, b < nb ->
      (exists atr, lp_valid SetSpec atr /\ erase atr = MichaelListProofs.full_hist (Product.projb b (Conc.trace c))) /\
      linearizable SetSpec (MichaelListProofs.full_hist (Product.projb b (Conc.trace c))).
Proof.
  intros nb hs Hnb fuel sf ic ths c Hr b Hb. split.
  - exact (MichaelSetProofs.michaelset_bucket_linearizable_lp nb hs Hnb fuel sf ic ths c Hr b Hb).
  - exact (MichaelSetProofs.michaelset_bucket_linearizable nb hs Hnb fuel sf ic ths c Hr b Hb).
Qed.
Print Assumptions C14_michaelset_bucket_linearizable.

(** The whole set.  [untagP] forgets the bucket tags; the history of the whole set is C13's history function
    [MichaelListProofs.full_hist] (all operations with their results, reads included; an unlink that returned false is
    dropped, as in C13) applied to the untagged product trace.  For every number of buckets > 0, every hash table, every
    client program (all ten operation codes) and EVERY schedule this history is the history of an LP-annotated trace
    valid for the sequential set, hence linearizable: no key is ever held twice, every result is the result of the
    sequential set operation at a point between invocation and response.  Proof = the bucket theorem above
    + the shape of the hash set's history (Proofs/MichaelSetHist.v: sequential per thread across buckets, every
    invocation tagged with the bucket of its key, the sub-history with tag [b] = the history of bucket [b]; obtained with
    the proof rule Conc.safe from the syntactic "one invocation, then one response" shape of MichaelList.run_op,
    Proofs/MichaelSetShape.v) + LP-level locality ([PartitionLin.weave_valid]: the buckets' annotated traces weave into
    one annotated trace of the whole history). *)
Definition untagP (tr : list (nat * (nat * ev))) : list (nat * ev) := MichaelSetHist.untag tr.
Theorem C14_michaelset_linearizable :
  forall (nb : nat) (hs : list Z), 0 < nb ->
  forall (fuel sf : nat) (ic : bool) (ths : list (list (list Z))) c,
    Conc.reach (MichaelSet.init_cfgP nb hs fuel sf ic ths) c ->
    (exists atr, lp_valid SetSpec atr /\ erase atr = MichaelListProofs.full_hist (untagP (Conc.trace c))) /\
    linearizable SetSpec (MichaelListProofs.full_hist (untagP (Conc.trace c))).
Proof.
  intros nb hs Hnb fuel sf ic ths c Hr. split.
  - exact (MichaelSetLin.michaelset_linearizable_lp nb hs Hnb fuel sf ic ths c Hr).
  - exact (MichaelSetLin.michaelset_linearizable nb hs Hnb fuel sf ic ths c Hr).
Qed.
Print Assumptions C14_michaelset_linearizable.

(** LP-level locality used above, as a statement of its own: a tagged history that is sequential per thread, whose
    invocations carry the bucket of their key and whose every bucket sub-history has a valid LP annotation, has one. *)
Theorem C14_partition_weave :
  forall (bucket : Z -> nat) (gl : list (nat * hev SetSpec)) (atrs : nat -> list (aev SetSpec)),
    hseq bucket (fun _ => false) gl ->
    (forall b, lp_valid SetSpec (atrs b) /\ erase (atrs b) = hfilter b gl) ->
    exists ATR, lp_valid SetSpec ATR /\ erase ATR = map snd gl.
Proof. exact weave_valid. Qed.
Print Assumptions C14_partition_weave.

(** the history functions ignore nothing of an operation: the shape theorem for MichaelList.run_op (every fuel, every
    argument list) *)
Theorem C14_michaellist_op_shape :
  forall fuel sf ic t o ls, MichaelSetShape.opshape o (MichaelList.run_op fuel sf ic t o ls).
Proof. exact MichaelSetShape.run_op_shape. Qed.
Print Assumptions C14_michaellist_op_shape.

(** non-vacuity: a 2-bucket run in which two threads insert into different buckets and then look up each other's key *)
Example C14_michaelset_nonvacuous :
  let c := fst (Conc.run 4000 0 [0;1;0;1;1;0;0;1]%nat
                 (MichaelSet.init_cfgP 2 [0;1;2;3]%Z 60 60 false [[[1;0;0;0]; [9;1;0;0]]; [[1;1;0;0]; [9;0;0;0]]]%Z)) in
  List.length (MichaelListProofs.full_hist (Product.projb 0 (Conc.trace c))) = 4 /\
  List.length (MichaelListProofs.full_hist (Product.projb 1 (Conc.trace c))) = 4 /\
  lincheck SetSpec (MichaelListProofs.full_hist (untagP (Conc.trace c))) = true.
Proof. vm_compute. repeat split. Qed.

(** history-level locality (Herlihy-Wing: from linearizable bucket sub-histories, without annotated traces): NOT proved and
    not needed for MichaelHashSet, whose buckets come with annotated traces (the form in which C13 delivers its result);
    it would need the converse of [lp_valid_linearizable]. *)
Fixpoint hproj (bucket : Z -> nat) (b : nat) (cur : nat -> option nat) (h : history SetSpec) : history SetSpec :=
  match h with
  | [] => []
  | HInv t o :: r =>
      let r' := hproj bucket b (upd_cur cur t (op_bucket bucket o)) r in
      if in_b b (op_bucket bucket o) then HInv t o :: r' else r'
  | HRes t x :: r =>
      let r' := hproj bucket b (upd_cur cur t None) r in
      if in_b b (cur t) then HRes t x :: r' else r'
  end.

Definition partition_linearizable_statement : Prop :=
  forall (bucket : Z -> nat) (h : history SetSpec),
    (forall t o, In (HInv t o) h -> op_key o <> None) ->
    wf_history h ->
    (forall b, linearizable SetSpec (hproj bucket b (fun _ => None) h)) ->
    linearizable SetSpec h.
