(** Property C14 — hash sets and maps are linearizable, including during growth.
    Only statements here; proofs live in LV.Proofs.*.  Part 1: FeldmanHashSet<HP> at step grain (LV.Model.Feldman, tied to
    cds/intrusive/impl/feldman_hashset.h + details/feldman_hashset_base.h by step correspondence, checks/C14.py). *)
From Coq Require Import ZArith NArith List String.
From LV Require Import Base.Conc Base.Events Model.Feldman Proofs.FeldmanStepInv Proofs.FeldmanStepSafe Proofs.FeldmanStepThm.
Import ListNotations.

(** [data_at g a i p]: item p sits in slot i of array node a, reachable from the head array (a slot in the "converting"
    state still counts as holding its item).  For every head/array width > 0, every hash table, every client program of
    insert / update / erase / contains operations, every loop fuel and EVERY schedule: in every reachable configuration
    no two slots hold items with the same hash — "no key is ever present twice", including while array nodes are being
    expanded. *)
Theorem C14_feldman_nodup :
  forall (hbits abits W : nat) (hs : list N), 0 < hbits -> 0 < abits ->
  forall (fuel : nat) (ths : list (list (list Z))) c,
    Conc.reach (Feldman.init_cfg hbits abits W hs fuel ths) c ->
    forall a i p a' i' p',
      data_at (Conc.shared c) a i p -> data_at (Conc.shared c) a' i' p' ->
      Feldman.hash hs (ikey (Conc.shared c) p) = Feldman.hash hs (ikey (Conc.shared c) p') ->
      a = a' /\ i = i' /\ p = p'.
Proof. exact feldman_nodup_reach. Qed.
Print Assumptions C14_feldman_nodup.

(** the structural invariant behind it (every item sits on the path of its hash; a converting slot has exactly one owner
    with a private, not yet linked array node) holds in every reachable configuration *)
Theorem C14_feldman_invariant :
  forall (hbits abits W : nat) (hs : list N), 0 < hbits -> 0 < abits ->
  forall (fuel : nat) (ths : list (list (list Z))) c,
    Conc.reach (Feldman.init_cfg hbits abits W hs fuel ths) c ->
    exists A, FeldmanStepInv.Inv hbits abits hs (Conc.shared c) A (Conc.trace c).
Proof. exact feldman_inv_reach. Qed.
Print Assumptions C14_feldman_invariant.

(** expand_slot changes no key's presence: each of its three accesses (CAS data -> converting, store of the moved item
    into the new array node, CAS converting -> array node), executed in a state satisfying the invariant by the thread
    that owns the conversion, leaves [present g h] unchanged for every hash h.  ([safe_expand] in FeldmanStepSafe shows
    that every execution of expand_slot performs exactly these accesses under exactly these preconditions.) *)
Theorem C14_feldman_expand_preserves_partial :
  forall (hbits abits : nat) (hs : list N),
  (forall g a i p, arr g a i = mkSlot p 0 ->
     forall h, present hs (conv_state g a i p) h <-> present hs g h) /\
  (forall g A tr t a i p n idx, FeldmanStepInv.Inv hbits abits hs g A tr -> ph (views A t) = PConv a i p n ->
     forall h, present hs (with_arr g (set_slot (arr g) n idx (mkSlot p 0))) h <-> present hs g h) /\
  (forall g A tr t a i p n, FeldmanStepInv.Inv hbits abits hs g A tr -> ph (views A t) = PStored a i p n ->
     forall h, present hs (with_arr g (set_slot (arr g) a i (mkSlot n 2))) h <-> present hs g h).
Proof.
  intros hbits abits hs. split; [|split].
  - intros g a i p. apply conv_preserves.
  - intros g A tr t a i p n idx. apply store_preserves.
  - intros g A tr t a i p n. apply link_preserves.
Qed.
Print Assumptions C14_feldman_expand_preserves_partial.

(** full statement (NOT proved at this granularity): over the steps of every execution, a slot holding an array node never
    changes, a converting slot changes only into an array node, and any step that changes a flag or writes into an unlinked
    array node preserves presence.  What is missing: the proof rule Conc.safe establishes a state invariant, not a relation
    between consecutive configurations; the per-access lemmas above + [safe_expand] are the content, the step-indexed
    packaging (a ghost "previous state") is not done. *)
Definition feldman_expand_preserves_statement : Prop :=
  forall (hbits abits W : nat) (hs : list N), 0 < hbits -> 0 < abits ->
  forall fuel ths c t c', Conc.reach (Feldman.init_cfg hbits abits W hs fuel ths) c -> Conc.step_cfg c t = Some c' ->
    (forall a i, sbits (arr (Conc.shared c) a i) = 2 -> arr (Conc.shared c') a i = arr (Conc.shared c) a i) /\
    (forall a i, sbits (arr (Conc.shared c) a i) = 1 ->
       arr (Conc.shared c') a i = arr (Conc.shared c) a i \/ sbits (arr (Conc.shared c') a i) = 2) /\
    ((exists a i, sbits (arr (Conc.shared c) a i) <> sbits (arr (Conc.shared c') a i)) ->
       forall h, present hs (Conc.shared c') h <-> present hs (Conc.shared c) h).

(** non-vacuity: a concrete 2-thread run (head 4 bits, array 2 bits, hashes 5, 21, 37 share the head slot) in which an
    array node is created and two items end up in different slots of it *)
Example C14_feldman_nonvacuous :
  let c := fst (Conc.run 2000 0 [0;1;0;1;1;0]%nat
                 (Feldman.init_cfg 4 2 32 [5; 21; 37; 2]%N 50 [[[1;0];[1;2]]; [[1;1];[7;0]]]%Z)) in
  Conc.reach (Feldman.init_cfg 4 2 32 [5; 21; 37; 2]%N 50 [[[1;0];[1;2]]; [[1;1];[7;0]]]%Z) c /\
  data_at (Conc.shared c) 1 1 2 /\ data_at (Conc.shared c) 1 2 3 /\ narr (Conc.shared c) = 2.
Proof.
  cbv zeta. split; [apply Conc.run_reach|].
  assert (R : reach_arr (Conc.shared (fst (Conc.run 2000 0 [0;1;0;1;1;0]%nat
                 (Feldman.init_cfg 4 2 32 [5; 21; 37; 2]%N 50 [[[1;0];[1;2]]; [[1;1];[7;0]]]%Z)))) 1).
  { eapply ra_child with (a := 0) (i := 5); [constructor|vm_compute; reflexivity]. }
  split; [|split].
  - split; [exact R|]. exists 0. split; [vm_compute; reflexivity|]. split; discriminate.
  - split; [exact R|]. exists 0. split; [vm_compute; reflexivity|]. split; discriminate.
  - vm_compute. reflexivity.
Qed.
