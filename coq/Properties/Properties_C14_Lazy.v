(** Property C14 — hash sets and maps are linearizable: MichaelHashSet<HP, LazyList> (cds/intrusive/michael_set.h over
    cds/intrusive/impl/lazy_list.h) = product of C13's LazyList models (LV.Model.MichaelSetLazy).
    Only statements here; proofs live in LV.Proofs.MichaelSetLazy*.  Companion of Part 4 of Properties_C14.v
    (MichaelHashSet<HP, MichaelList>); the generic product rule (Proofs/ProductProofs.v), the tagged history function and
    its trace invariant (Proofs/MichaelSetHist.v) and LP-level locality (Proofs/PartitionLin.v) are shared. *)
From Coq Require Import ZArith NArith List String.
From LV Require Import Base.Conc Base.Events Base.Lin Spec.Specs Proofs.PartitionLin.
From LV Require Model.LazyList Model.Product Model.MichaelSet Model.MichaelSetLazy Proofs.MichaelListProofs Proofs.MichaelSetHist
                Proofs.MichaelSetLazyShape Proofs.MichaelSetLazyHist Proofs.MichaelSetLazyProofs Proofs.MichaelSetLazyLin.
Import ListNotations.

(** For every number of buckets > 0, every hash table, every client program (operation codes of the list model: insert,
    insert with functor, update, erase, erase with functor, unlink, extract, get, contains, find) and EVERY schedule of the
    product model: the history of every bucket - the operations whose key hashes to that bucket, with their TRUE invocation
    and response instants inside the interleaved execution of all buckets ([Product.projb b] of the product trace) - is the
    history of an LP-annotated trace valid for the sequential set, hence linearizable.  Obtained by lifting C13's
    per-operation invariant lemma of the lazy list ([LazyListFullProofs.safe7_run_op]: node spin locks, validate(),
    helping of readers by the marking thread) through the generic product rule, not from C13's end theorem. *)
Theorem C14_michaelset_lazy_bucket_linearizable :
  forall (nb : nat) (hs : list Z), 0 < nb ->
  forall (fuel sf : nat) (ic : bool) (ths : list (list (list Z))) c,
    Conc.reach (MichaelSetLazy.init_cfgP nb hs fuel sf ic ths) c ->
    forall b, b < nb ->
      (exists atr, lp_valid SetSpec atr /\ erase atr = MichaelListProofs.full_hist (Product.projb b (Conc.trace c))) /\
      linearizable SetSpec (MichaelListProofs.full_hist (Product.projb b (Conc.trace c))).
Proof.
  intros nb hs Hnb fuel sf ic ths c Hr b Hb. split.
  - exact (MichaelSetLazyProofs.michaelset_lazy_bucket_linearizable_lp nb hs Hnb fuel sf ic ths c Hr b Hb).
  - exact (MichaelSetLazyProofs.michaelset_lazy_bucket_linearizable nb hs Hnb fuel sf ic ths c Hr b Hb).
Qed.
Print Assumptions C14_michaelset_lazy_bucket_linearizable.

(** The whole set.  [untagP] forgets the bucket tags; the history of the whole set is C13's history function
    [MichaelListProofs.full_hist] (all operations with their results, reads included; an unlink that returned false is
    dropped, as in C13) applied to the untagged product trace.  For every number of buckets > 0, every hash table, every
    client program (all ten operation codes), every loop fuel, item counter on or off, and EVERY schedule this history
    is the history of an LP-annotated trace valid for the sequential set, hence linearizable: no key is ever held twice,
    every result is the result of the sequential set operation at a point between invocation and response.  Proof = the
    bucket theorem above + the shape of the hash set's history (Proofs/MichaelSetLazyHist.v: sequential per thread across
    buckets, every invocation tagged with the bucket of its key, the sub-history with tag [b] = the history of bucket
    [b]; obtained with the proof rule Conc.safe from the syntactic "one invocation, then one response" shape of
    LazyList.run_op, Proofs/MichaelSetLazyShape.v) + LP-level locality ([PartitionLin.weave_valid],
    C14_partition_weave).  Hypothesis inherited from the bucket model: memory safety of the hazard pointers
    (LazyList's never-reusing allocator, DESIGN 4). *)
Definition untagP (tr : list (nat * (nat * ev))) : list (nat * ev) := MichaelSetHist.untag tr.
Theorem C14_michaelset_lazy_linearizable :
  forall (nb : nat) (hs : list Z), 0 < nb ->
  forall (fuel sf : nat) (ic : bool) (ths : list (list (list Z))) c,
    Conc.reach (MichaelSetLazy.init_cfgP nb hs fuel sf ic ths) c ->
    (exists atr, lp_valid SetSpec atr /\ erase atr = MichaelListProofs.full_hist (untagP (Conc.trace c))) /\
    linearizable SetSpec (MichaelListProofs.full_hist (untagP (Conc.trace c))).
Proof.
  intros nb hs Hnb fuel sf ic ths c Hr. split.
  - exact (MichaelSetLazyLin.michaelset_lazy_linearizable_lp nb hs Hnb fuel sf ic ths c Hr).
  - exact (MichaelSetLazyLin.michaelset_lazy_linearizable nb hs Hnb fuel sf ic ths c Hr).
Qed.
Print Assumptions C14_michaelset_lazy_linearizable.

(** the shape of the tagged history used above, as a statement of its own: for every schedule the tagged history is
    sequential per thread with every invocation in the bucket of its key, its part with tag [b] is the history of what
    bucket [b] has seen, no event carries a tag >= nb, and forgetting the tags gives the history of the whole set *)
Theorem C14_michaelset_lazy_history_shape :
  forall (nb : nat) (hs : list Z), 0 < nb ->
  forall (fuel sf : nat) (ic : bool) (ths : list (list (list Z))) c,
    Conc.reach (MichaelSetLazy.init_cfgP nb hs fuel sf ic ths) c ->
    let gl := fst (MichaelSetHist.gfold (Conc.trace c)) in
    hseq (MichaelSet.bucket nb hs) (fun _ => false) gl /\
    (forall b, hfilter b gl = MichaelListProofs.full_hist (Product.projb b (Conc.trace c))) /\
    (forall b, nb <= b -> hfilter b gl = []) /\
    map snd gl = MichaelListProofs.full_hist (untagP (Conc.trace c)).
Proof. exact MichaelSetLazyHist.hist_inv_reachL. Qed.
Print Assumptions C14_michaelset_lazy_history_shape.

(** the history functions ignore nothing of an operation: the shape theorem for LazyList.run_op (every fuel, every
    argument list, every thread-local state): nothing, or one invocation event, then only accesses / other client
    events, then either no response (out of fuel) or exactly one response event followed by the return *)
Theorem C14_lazylist_op_shape :
  forall fuel sf ic t o ls, MichaelSetLazyShape.opshapeL o (LazyList.run_op fuel sf ic t o ls).
Proof. exact MichaelSetLazyShape.run_op_shapeL. Qed.
Print Assumptions C14_lazylist_op_shape.

(** non-vacuity: a 2-bucket run in which two threads insert into different buckets and then look up each other's key;
    a second run with an erase racing a contains of the same key in bucket 1 while bucket 0 is updated *)
Example C14_michaelset_lazy_nonvacuous :
  let c := fst (Conc.run 4000 0 [0;1;0;1;1;0;0;1]%nat
                 (MichaelSetLazy.init_cfgP 2 [0;1;2;3]%Z 60 60 false [[[1;0;0;0]; [9;1;0;0]]; [[1;1;0;0]; [9;0;0;0]]]%Z)) in
  List.length (MichaelListProofs.full_hist (Product.projb 0 (Conc.trace c))) = 4 /\
  List.length (MichaelListProofs.full_hist (Product.projb 1 (Conc.trace c))) = 4 /\
  lincheck SetSpec (MichaelListProofs.full_hist (untagP (Conc.trace c))) = true.
Proof. vm_compute. repeat split. Qed.

Example C14_michaelset_lazy_nonvacuous2 :
  let c := fst (Conc.run 4000 0 [0;0;1;2;1;2;2;1;0;2;1]%nat
                 (MichaelSetLazy.init_cfgP 2 [0;1;2;3]%Z 60 60 true
                    [[[1;1;0;0]; [3;2;1;0]]; [[4;1;0;0]; [1;3;0;0]]; [[9;1;0;0]; [9;3;0;0]; [7;2;0;0]]]%Z)) in
  List.length (MichaelListProofs.full_hist (untagP (Conc.trace c))) = 14 /\
  List.length (MichaelListProofs.full_hist (Product.projb 1 (Conc.trace c))) = 10 /\
  lincheck SetSpec (MichaelListProofs.full_hist (untagP (Conc.trace c))) = true.
Proof. vm_compute. repeat split. Qed.
