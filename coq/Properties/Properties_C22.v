(** Property C22 — spin locks and node monitors provide mutual exclusion.
    Only statements here; proofs live in LV.Proofs.*.  [occ l tr] = (#"enter l" - #"leave l") events of
    the trace, i.e. the number of threads inside the critical section guarded by lock l. *)
From Coq Require Import ZArith List String.
From LV Require Import Base.Conc Base.Events Model.SpinLock Proofs.SpinLockProofs.
Import ListNotations.
Local Open Scope Z_scope.
Local Open Scope string_scope.

(** cds::sync::spin_lock: for every number of locks and threads, every client program of CS / TryCS
    operations, every spin fuel and EVERY schedule (every sequence of thread choices), at every reachable
    configuration at most one thread is inside the critical section of each lock. *)
Theorem C22_spin_lock_mutex :
  forall (fuel nlocks : nat) (ths : list (list SpinLock.op)) c,
    Conc.reach (SpinLock.init_cfg fuel nlocks ths) c ->
    forall l, 0 <= occ l (Conc.trace c) <= 1.
Proof. exact spin_lock_mutex. Qed.
Print Assumptions C22_spin_lock_mutex.

(** non-vacuity: a concrete 2-thread run in which both threads do enter the critical section of lock 0
    (one after the other) *)
Example C22_spin_lock_nonvacuous :
  let r := SpinLock.run_case [1; 50] [[[1;0]]; [[2;0]; [1;0]]] [0;1;0;1;1;0;0;1]%nat 1000 in
  snd r = true /\
  List.length (filter (is_cli "enter") (map snd (fst r))) = 2%nat.
Proof. vm_compute. split; reflexivity. Qed.
