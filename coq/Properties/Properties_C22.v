(** Property C22 — spin locks and node monitors provide mutual exclusion.
    Only statements here; proofs live in LV.Proofs.*.  [occ l tr] = (#"enter l" - #"leave l") events of
    the trace, i.e. the number of threads inside the critical section guarded by lock l. *)
From Coq Require Import ZArith List String.
From LV Require Import Base.Conc Base.Events Model.SpinLock Proofs.SpinLockProofs.
From LV Require Model.Reentrant Proofs.ReentrantProofs.
From LV Require Model.PoolMon Proofs.PoolMonBase Proofs.PoolMonProofs.
From LV Require Model.Locks Model.LocksArray Model.LocksInj Proofs.LocksProofs Proofs.LocksArrayProofs Proofs.LocksInjProofs.
Import ListNotations.
Local Open Scope Z_scope.
Local Open Scope string_scope.

(** cds::sync::spin_lock: for every number of locks and threads, every client program of CS / TryCS
    operations, every spin fuel and EVERY schedule (every sequence of thread choices), at every reachable
    configuration at most one thread is inside the critical section of each lock. *)
Theorem C22_spin_lock_mutex :
  forall (fuel nlocks : nat) (ths : list (list SpinLock.op)) c,
    Conc.reach (SpinLock.init_cfg fuel nlocks ths) c ->
    forall l, 0 <= occ l (Conc.trace c) <= 1.
Proof. exact spin_lock_mutex. Qed.
Print Assumptions C22_spin_lock_mutex.

(** non-vacuity: a concrete 2-thread run in which both threads do enter the critical section of lock 0
    (one after the other) *)
Example C22_spin_lock_nonvacuous :
  let r := SpinLock.run_case [1; 50] [[[1;0]]; [[2;0]; [1;0]]] [0;1;0;1;1;0;0;1]%nat 1000 in
  snd r = true /\
  List.length (filter (is_cli "enter") (map snd (fst r))) = 2%nat.
Proof. vm_compute. split; reflexivity. Qed.

(** ---------------------------------------------------------------------------------------------------
    cds::sync::reentrant_spin_lock.  [ReentrantProofs.occ t l tr] = (#"enter l" - #"leave l" by thread t) =
    nesting depth of t inside the critical section of l; [nestc] = (#"enter l" - #"rel l"): lock() calls
    returned minus unlock() calls returned.  Client programs: arbitrary nests of lock() / try_lock() /
    try_lock(n) on arbitrary locks, arbitrary depth, re-entrance included. *)

(** mutual exclusion between different threads for EVERY schedule and arbitrary nesting depth *)
Theorem C22_reentrant_mutex :
  forall (fuel : nat) (ths : list (list Reentrant.op)) c,
    Conc.reach (Reentrant.init_cfg fuel ths) c ->
    forall l t t',
      0 <= ReentrantProofs.occ t l (Conc.trace c) /\
      (ReentrantProofs.occ t l (Conc.trace c) > 0 -> ReentrantProofs.occ t' l (Conc.trace c) > 0 -> t = t').
Proof. exact ReentrantProofs.reentrant_mutex. Qed.
Print Assumptions C22_reentrant_mutex.

(** released only by the owner's last unlock: while thread t is inside at depth n >= 1, the lock word m_spin
    is n (or n+1 while t is inside a lock()/unlock() call): never 0, so nobody else can acquire; and every
    other thread is outside *)
Theorem C22_reentrant_owner_release :
  forall (fuel : nat) (ths : list (list Reentrant.op)) c,
    Conc.reach (Reentrant.init_cfg fuel ths) c ->
    forall l t, ReentrantProofs.occ t l (Conc.trace c) > 0 ->
      ReentrantProofs.occ t l (Conc.trace c) <= Z.of_nat (Reentrant.spin (Conc.shared c) l)
        <= ReentrantProofs.occ t l (Conc.trace c) + 1 /\
      ReentrantProofs.occ t l (Conc.trace c) <= ReentrantProofs.nestc t l (Conc.trace c) /\
      forall t', t' <> t -> ReentrantProofs.occ t' l (Conc.trace c) = 0.
Proof. exact ReentrantProofs.reentrant_owner_release. Qed.
Print Assumptions C22_reentrant_owner_release.

(** conversely the lock word is 0 only when no thread is inside at any depth *)
Theorem C22_reentrant_free_means_unused :
  forall (fuel : nat) (ths : list (list Reentrant.op)) c,
    Conc.reach (Reentrant.init_cfg fuel ths) c ->
    forall l, Reentrant.spin (Conc.shared c) l = 0%nat -> forall t, ReentrantProofs.occ t l (Conc.trace c) = 0.
Proof. exact ReentrantProofs.reentrant_free_means_unused. Qed.
Print Assumptions C22_reentrant_free_means_unused.

(** ... and non-zero only when some thread owns the lock ([nestc] > 0: more lock() than unlock() calls of that
    thread have returned) or is inside lock()/try_lock() and has just taken the word ([acqp] > 0: a successful
    CAS 0->1 / fetch_add on m_spin not yet followed by its "enter").  With the two theorems above: the word
    returns to 0 exactly at the owner's last unlock. *)
Theorem C22_reentrant_word_nonzero_only_if_used :
  forall (fuel : nat) (ths : list (list Reentrant.op)) c,
    Conc.reach (Reentrant.init_cfg fuel ths) c ->
    forall l, (Reentrant.spin (Conc.shared c) l > 0)%nat ->
      exists t, ReentrantProofs.nestc t l (Conc.trace c) > 0 \/ ReentrantProofs.acqp t l (Conc.trace c) > 0.
Proof. exact ReentrantProofs.reentrant_word_nonzero_only_if_used. Qed.
Print Assumptions C22_reentrant_word_nonzero_only_if_used.

Definition is_acc (k : akind) (ok : bool) (e : ev) : bool :=
  match e, k with
  | EvAcc KFaa _ o, KFaa => Bool.eqb o ok
  | EvAcc KCas _ o, KCas => Bool.eqb o ok
  | _, _ => false
  end.

(** non-vacuity: thread 0 enters lock 0 three times nested (two re-entrances through fetch_add), thread 1
    contends (one failed CAS) and enters twice afterwards *)
Example C22_reentrant_nonvacuous :
  let r := Reentrant.run_case [1; 50] [[[0;0;0;0;1;0]]; [[0;0]; [2;0]]] [0;0;0;0;1;1;0;1;1;0;0;1]%nat 1000 in
  snd r = true /\
  List.length (filter (is_cli "enter") (map snd (fst r))) = 5%nat /\
  List.length (filter (is_acc KFaa true) (map snd (fst r))) = 2%nat /\
  List.length (filter (is_acc KCas false) (map snd (fst r))) = 1%nat.
Proof. vm_compute. repeat split; reflexivity. Qed.

(** ---------------------------------------------------------------------------------------------------
    cds::sync::lock_array< spin_lock, mod_select_policy >: per-cell mutual exclusion for every array size,
    every client program (nests of lock(hint) / try_lock(hint) / lock_all, any hints), every schedule.
    The events carry the cell = hint mod size. *)
Theorem C22_lock_array_mutex :
  forall (size fuel : nat) (ths : list (list Locks.op)) c,
    Conc.reach (LocksArray.init_cfg size fuel ths) c ->
    forall cell, 0 <= occ cell (Conc.trace c) <= 1 /\
                 (occ cell (Conc.trace c) = 1 -> get_spin (Conc.shared c) cell = true).
Proof. exact LocksArrayProofs.lock_array_mutex. Qed.
Print Assumptions C22_lock_array_mutex.

Example C22_lock_array_nonvacuous :
  let r := LocksArray.run_case [2; 50] [[[0;4;0;3]]; [[2;0;1;5]; [1;5]]] [0;0;1;1;0;1;0;0;1]%nat 1000 in
  snd r = true /\
  List.length (filter (is_cli "enter") (map snd (fst r))) = 5%nat /\
  List.length (filter (is_cli "fail") (map snd (fst r))) = 1%nat.
Proof. vm_compute. repeat split; reflexivity. Qed.

(** cds::sync::injecting_monitor< spin_lock > (+ monitor_scoped_lock): per-node mutual exclusion *)
Theorem C22_injmon_mutex :
  forall (nnodes fuel : nat) (ths : list (list Locks.op)) c,
    Conc.reach (LocksInj.init_cfg nnodes fuel ths) c ->
    forall node, 0 <= occ node (Conc.trace c) <= 1 /\
                 (occ node (Conc.trace c) = 1 -> get_spin (Conc.shared c) node = true).
Proof. exact LocksInjProofs.injmon_mutex. Qed.
Print Assumptions C22_injmon_mutex.

Example C22_injmon_nonvacuous :
  let r := LocksInj.run_case [2; 50] [[[0;0;3;1]]; [[3;1]; [0;0]]] [0;0;1;1;0;1;0;0;1]%nat 1000 in
  snd r = true /\ List.length (filter (is_cli "enter") (map snd (fst r))) = 4%nat.
Proof. vm_compute. repeat split; reflexivity. Qed.

(** ---------------------------------------------------------------------------------------------------
    cds::sync::pool_monitor< LockPool, backoff::empty, false > with lock_type = cds::sync::spin_lock and
    LockPool = a LIFO pool whose allocate / deallocate are single atomic steps (Model/PoolMon.v explains the
    instantiation; the real vyukov_queue_pool is property C24).  Any pool capacity (0 included: the pool then
    creates locks on demand), any number of nodes and threads, any nesting, EVERY schedule.
    [PoolMonBase.occ n tr] = #"enter n" - #"leave n". *)
Theorem C22_poolmon_mutex :
  forall (cap fuel : nat) (ths : list (list PoolMon.op)) c,
    Conc.reach (PoolMon.init_cfg cap fuel ths) c ->
    forall n, 0 <= PoolMonBase.occ n (Conc.trace c) <= 1.
Proof. exact PoolMonProofs.poolmon_mutex. Qed.
Print Assumptions C22_poolmon_mutex.

(** never one pool lock in two nodes at once; an installed lock is not in the pool; no lock twice in the pool *)
Theorem C22_poolmon_no_sharing :
  forall (cap fuel : nat) (ths : list (list PoolMon.op)) c,
    Conc.reach (PoolMon.init_cfg cap fuel ths) c ->
    (forall n n' x, PoolMon.plock (Conc.shared c) n = Some x -> PoolMon.plock (Conc.shared c) n' = Some x -> n = n') /\
    (forall n x, PoolMon.plock (Conc.shared c) n = Some x -> ~ In x (PoolMon.pool (Conc.shared c))) /\
    NoDup (PoolMon.pool (Conc.shared c)).
Proof. exact PoolMonProofs.poolmon_no_sharing. Qed.
Print Assumptions C22_poolmon_no_sharing.

(** a node's lock is returned to the pool only when no thread holds or awaits it.
    State: every lock in the pool is unlocked and installed in no node.
    History ([PoolMonBase.disc]): every exchange / load / store on the spin word of a pool lock happens while
    that lock is allocated (after its "pool_alloc", before its "pool_free"): a thread still holding or awaiting
    a returned lock would touch it while it is in the pool; a lock is freed only while allocated (never
    twice) and allocated only while free.  [acnt x tr] = #"pool_alloc x" - #"pool_free x" is 1 exactly for the
    locks that exist and are not in the pool. *)
Theorem C22_poolmon_lock_returned_only_when_unused :
  forall (cap fuel : nat) (ths : list (list PoolMon.op)) c,
    Conc.reach (PoolMon.init_cfg cap fuel ths) c ->
    (forall x, In x (PoolMon.pool (Conc.shared c)) ->
       PoolMon.lspin (Conc.shared c) x = false /\ forall n, PoolMon.plock (Conc.shared c) n <> Some x) /\
    PoolMonBase.disc (Conc.trace c) /\
    (forall x, (PoolMonBase.acnt x (Conc.trace c) = 1 <->
                (~ In x (PoolMon.pool (Conc.shared c)) /\ (x < PoolMon.fresh (Conc.shared c))%nat)) /\
               (PoolMonBase.acnt x (Conc.trace c) = 0 \/ PoolMonBase.acnt x (Conc.trace c) = 1)).
Proof. exact PoolMonProofs.poolmon_lock_returned_only_when_unused. Qed.
Print Assumptions C22_poolmon_lock_returned_only_when_unused.

(** non-vacuity: two threads, two nodes, pool of ONE preallocated lock: both nodes get locked (nested, and
    through both lock()/scoped_lock), a second lock is created on demand, both locks are returned to the pool,
    a CAS on m_RefSpin fails at least once (contention on the spin bit) *)
Example C22_poolmon_nonvacuous :
  let r := PoolMon.run_case [2; 50; 1] [[[0;0;3;1]]; [[3;1]; [0;0]]] [0;0;1;1;0;1;0;0;1;1;1;0;0]%nat 1000 in
  snd r = true /\
  List.length (filter (is_cli "enter") (map snd (fst r))) = 4%nat /\
  List.length (filter (is_cli "pool_alloc") (map snd (fst r))) = 2%nat /\
  List.length (filter (is_cli "pool_free") (map snd (fst r))) = 2%nat.
Proof. vm_compute. repeat split; reflexivity. Qed.
