(** Property C13 — ordered lists are linearizable sets / maps and no key is ever present twice.
    Only statements here; proofs live in LV.Proofs.MichaelList* and LV.Proofs.LazyList*.

    Scope of the theorems: the step models LV.Model.MichaelList of cds::intrusive::MichaelList<cds::gc::HP>
    (cds/intrusive/impl/michael_list.h: search with helping, link_node, unlink_node, insert_at, update_at, erase_at,
    unlink_at, extract_at, find_at, get_at) and LV.Model.LazyList of cds::intrusive::LazyList<cds::gc::HP>
    (cds/intrusive/impl/lazy_list.h: search, position locks, validate, link_node, unlink_node and the same ten
    operations), both tied to the real code by step correspondence on every run of `bin/check C13`.  Every other
    variant of the property (IterableList, cds::container wrappers, kv-lists, DHP / RCU / nogc) is covered by
    observable correspondence only (real histories decided by the verified lincheck).  For IterableList (step model
    with step correspondence) the property is REFUTED below.

    MEMORY SAFETY IS A HYPOTHESIS ([smr_safe], DESIGN 4): the model allocates node ids from a never-reusing
    allocator and a retired node stays readable; that no node is recycled while a guard can reach it is the
    conclusion of the C01 theorems about cds::gc::HP, not of this file. *)
From Coq Require Import ZArith List String.
From LV Require Import Base.Conc Base.Events Base.Lin Spec.Specs.
From LV Require Import Model.MichaelList Proofs.MichaelListBase Proofs.MichaelListInv Proofs.MichaelListProofs
                       Proofs.MichaelListFullProofs.
From LV Require Model.LazyList Model.IterList Proofs.LazyListDefs Proofs.IterListDefs Proofs.LazyListProofs
                Proofs.LazyListLinProofs Proofs.IterListRefute Proofs.MichaelListFromModel Proofs.MichaelListFromActs
                Proofs.MichaelListFromProofs Proofs.ListQuiescent Proofs.LazyListQuiescent Proofs.LazyListFullProofs.
Import ListNotations.
Local Open Scope Z_scope.

(** "No key is ever present twice": for every number of threads, every client program of the ten operations,
    every fuel and EVERY schedule (every sequence of thread choices), in every reachable configuration the nodes
    reachable from m_pHead form a finite null-terminated chain [L] ([linked g 0 L 0]) whose keys are strictly
    increasing — marked (logically deleted, not yet unlinked) nodes included, hence also the unmarked ones. *)
Theorem C13_mlist_sorted_nodup :
  forall (fuel sf : nat) (ic : bool) (ths : list (list (list Z))) c,
    Conc.reach (MichaelList.init_cfg fuel sf ic ths) c ->
    exists L, list_nodes (Conc.shared c) L /\
              zsorted (keys_of (Conc.shared c) L) /\
              zsorted (keys_of (Conc.shared c) (unmarked (Conc.shared c) L)).
Proof. exact mlist_sorted_nodup. Qed.
Print Assumptions C13_mlist_sorted_nodup.

(** PARTIAL linearizability (modifying operations only).  [upd_hist tr] is the invoke/response history of the
    trace with every completed operation deleted that did not modify the set (failed insert / erase / unlink /
    extract, update of an existing key, contains / find / get; pending operations are kept).  For every
    schedule there is an LP-annotated trace, valid for the sequential set specification, whose history is exactly
    that: the linearization points are the link CAS (insert, inserting update) and the mark CAS (erase, unlink,
    extract), and each of these operations returns the result the specification gives at that point. *)
Theorem C13_mlist_updates_linearizable_partial :
  forall (fuel sf : nat) (ic : bool) (ths : list (list (list Z))) c,
    Conc.reach (MichaelList.init_cfg fuel sf ic ths) c ->
    exists atr, lp_valid SetSpec atr /\ erase atr = upd_hist (Conc.trace c).
Proof. exact mlist_updates_linearizable_partial. Qed.
Print Assumptions C13_mlist_updates_linearizable_partial.

Theorem C13_mlist_updates_history_linearizable :
  forall (fuel sf : nat) (ic : bool) (ths : list (list (list Z))) c,
    Conc.reach (MichaelList.init_cfg fuel sf ic ths) c ->
    linearizable SetSpec (upd_hist (Conc.trace c)).
Proof. exact mlist_updates_linearizable_partial'. Qed.
Print Assumptions C13_mlist_updates_history_linearizable.

(** FULL linearizability of the MichaelList model, reads included.  [full_hist tr] is the complete invoke/response
    history of the trace: insert / insert with functor -> SInsert k, update -> SUpdate k bAllowInsert (result pair),
    erase / erase with functor / unlink / extract -> SErase k, get / contains / find -> SContains k; the only
    events left out are unlink calls that returned false (unlink( val ) fails both when the key is absent and when
    the list holds another item with that key: not an operation of the sequential set; the harness skips them as
    well).  For every number of threads, every client program and EVERY schedule the history of every reachable
    configuration is the history of an LP-annotated trace that is valid for SetSpec, hence linearizable.
    Linearization points: link CAS (insert, inserting update), mark CAS (erase, unlink, extract); a failed insert /
    erase, an update of an existing key and contains / find / get linearize at the last of their own accesses that
    observed the key present (unmarked next field of a node with that key) or absent (an unmarked link from a
    smaller node to a larger one or to null): Proofs/MichaelListFullInv.v. *)
Theorem C13_mlist_linearizable_lp :
  forall (fuel sf : nat) (ic : bool) (ths : list (list (list Z))) c,
    Conc.reach (MichaelList.init_cfg fuel sf ic ths) c ->
    exists atr, lp_valid SetSpec atr /\ erase atr = full_hist (Conc.trace c).
Proof. exact mlist_linearizable_lp. Qed.
Print Assumptions C13_mlist_linearizable_lp.

Theorem C13_mlist_linearizable :
  forall (fuel sf : nat) (ic : bool) (ths : list (list (list Z))) c,
    Conc.reach (MichaelList.init_cfg fuel sf ic ths) c ->
    linearizable SetSpec (full_hist (Conc.trace c)).
Proof. exact mlist_linearizable. Qed.
Print Assumptions C13_mlist_linearizable.

(** LazyList (step model LV.Model.LazyList of cds::intrusive::LazyList<gc::HP>, tied to the code by step correspondence):
    "no key is present twice" for every number of threads, every client program and EVERY schedule.
    [lazy_keys g] = the keys met when following m_pNext from the node after m_Head through unmarked nodes, up to
    m_Tail or the first marked node (a node between the two stores of unlink_node is marked while its predecessor
    still points to it).  Invariant (Proofs/LazyListInv.v): only the holder of a node's spin lock writes its m_pNext /
    mark, an unlinked node is written by its owner only, and the logical chain (physical m_pNext, except a ghost
    successor for the node in the hole of unlink_node) runs from m_Head to m_Tail with strictly increasing keys. *)
Theorem C13_lazy_sorted_nodup :
  forall (fuel sf : nat) (ic : bool) (ths : list (list (list Z))) c,
    Conc.reach (LazyList.init_cfg fuel sf ic ths) c ->
    LazyListDefs.increasing (LazyListDefs.lazy_keys (Conc.shared c)).
Proof. exact LazyListProofs.lazy_sorted_nodup. Qed.
Print Assumptions C13_lazy_sorted_nodup.

(** LazyList, PARTIAL linearizability (modifying operations only; same history function [upd_hist] as for MichaelList):
    for every schedule there is an LP-annotated trace, valid for the sequential set specification, whose history is
    the invoke/response history of the operations that modified the list (pending ones included).  Linearization
    points: the second store of link_node (insert, inserting update) and the marking store of unlink_node (erase,
    unlink, extract), both executed while the spin locks of predecessor and current node are held and after
    validate() succeeded; each of these operations returns what the specification gives at that point.
    (The full history, reads included, is covered by C13_lazy_linearizable below.) *)
Theorem C13_lazy_updates_linearizable_partial :
  forall (fuel sf : nat) (ic : bool) (ths : list (list (list Z))) c,
    Conc.reach (LazyList.init_cfg fuel sf ic ths) c ->
    exists atr, lp_valid SetSpec atr /\ erase atr = upd_hist (Conc.trace c).
Proof. exact LazyListLinProofs.lazy_updates_linearizable_partial. Qed.
Print Assumptions C13_lazy_updates_linearizable_partial.

Theorem C13_lazy_updates_history_linearizable :
  forall (fuel sf : nat) (ic : bool) (ths : list (list (list Z))) c,
    Conc.reach (LazyList.init_cfg fuel sf ic ths) c ->
    linearizable SetSpec (upd_hist (Conc.trace c)).
Proof. exact LazyListLinProofs.lazy_updates_linearizable_partial'. Qed.
Print Assumptions C13_lazy_updates_history_linearizable.

(** LazyList, FULL linearizability (reads included), with HELPING (LV.Proofs.LazyListFullInv / FullActs / FullProofs).
    [full_hist] is the history function of the MichaelList theorems.  Linearization points: the second store of
    link_node and the marking store of unlink_node for the modifying operations; a failed insert / erase and an update
    of an existing key: the third load of validate() (both nodes locked, predecessor and current node unmarked and
    adjacent); contains / find / get: the load of its traversal that finds an unmarked link from a smaller node to a
    larger one or to m_Tail (absent), or the load of the next field of the node with its key when that value is
    unmarked (present).  When that value is marked, no access of the reader is a linearization point (the node may
    have been unlinked and the key re-inserted meanwhile): the reader watches the node from the moment its traversal
    meets it, and the thread that marks the node linearizes every watching reader right after its own linearization
    point, in the same step.  For every number of threads, every client program and EVERY schedule. *)
Theorem C13_lazy_linearizable_lp :
  forall (fuel sf : nat) (ic : bool) (ths : list (list (list Z))) (c : Conc.config LazyList.G LazyList.V ev),
    Conc.reach (LazyList.init_cfg fuel sf ic ths) c ->
    exists atr, lp_valid SetSpec atr /\ erase atr = full_hist (Conc.trace c).
Proof. exact LazyListFullProofs.lazy_linearizable_lp. Qed.
Print Assumptions C13_lazy_linearizable_lp.

Theorem C13_lazy_linearizable :
  forall (fuel sf : nat) (ic : bool) (ths : list (list (list Z))) (c : Conc.config LazyList.G LazyList.V ev),
    Conc.reach (LazyList.init_cfg fuel sf ic ths) c ->
    linearizable SetSpec (full_hist (Conc.trace c)).
Proof. exact LazyListFullProofs.lazy_linearizable. Qed.
Print Assumptions C13_lazy_linearizable.

(** MichaelList with ANCHORED searches (LV.Proofs.MichaelListFromModel: the list code as cds::intrusive::SplitListSet calls
    it, every search starts at a bucket head): the same model, except that an operation [code; k; x; s] with an anchor
    key [s < k] ([ak s = true]) first looks the node with key [s] up and then runs from that node instead of m_pHead;
    erasing calls on anchor keys are not executed (the split-list never erases a dummy node).  For every anchor
    predicate [ak], every number of threads, every client program and EVERY schedule: the chain from m_pHead is
    strictly sorted, an allocated node with an anchor key is never marked, and the full history is linearizable. *)
Theorem C13_mlistfrom_sorted_nodup :
  forall (ak : Z -> bool) (fuel sf : nat) (ic : bool) (ths : list (list (list Z))) c,
    Conc.reach (MichaelListFromModel.init_cfg_from ak fuel sf ic ths) c ->
    exists L, list_nodes (Conc.shared c) L /\
              zsorted (keys_of (Conc.shared c) L) /\
              zsorted (keys_of (Conc.shared c) (unmarked (Conc.shared c) L)).
Proof. exact MichaelListFromProofs.mlistfrom_sorted_nodup. Qed.
Print Assumptions C13_mlistfrom_sorted_nodup.

Theorem C13_mlistfrom_anchor_permanent :
  forall (ak : Z -> bool) (fuel sf : nat) (ic : bool) (ths : list (list (list Z))) c,
    Conc.reach (MichaelListFromModel.init_cfg_from ak fuel sf ic ths) c ->
    forall n, (1 <= n <= nalloc (Conc.shared c))%nat -> ak (nkey (heap (Conc.shared c) n)) = true ->
              nmark (heap (Conc.shared c) n) = false.
Proof. exact MichaelListFromProofs.mlistfrom_anchor_permanent. Qed.
Print Assumptions C13_mlistfrom_anchor_permanent.

Theorem C13_mlistfrom_linearizable :
  forall (ak : Z -> bool) (fuel sf : nat) (ic : bool) (ths : list (list (list Z))) c,
    Conc.reach (MichaelListFromModel.init_cfg_from ak fuel sf ic ths) c ->
    linearizable SetSpec (full_hist (Conc.trace c)).
Proof. exact MichaelListFromProofs.mlistfrom_linearizable. Qed.
Print Assumptions C13_mlistfrom_linearizable.

(** non-vacuity of the anchored model: anchors = even keys; thread 0 inserts the anchor 10 and works from it, thread 1
    works from it as well; the erase of the anchor is not executed; the run finishes with 10, 15, 20 in the list and
    its full history (9 operations) is accepted by the verified checker. *)
Example C13_mlistfrom_nonvacuous :
  let ths := [ [[1;10;0;0]; [1;11;0;10]; [9;13;0;10]; [4;11;0;10]; [4;10;0;0]] ;
               [[1;20;0;0]; [1;13;0;10]; [7;13;0;10]; [3;15;1;10]; [9;11;0;10]] ] in
  let r := Conc.run 5000 0 [0;0;0;0;0;0;0;0;0;0;0;0;0;0;0;0;0;0;0;0;1;0;1;1;0;0;1]%nat
                    (MichaelListFromModel.init_cfg_from Z.even 64 400 true ths) in
  let g := Conc.shared (fst r) in
  snd r = true /\
  map (fun n => (nkey (heap g n), nmark (heap g n))) (walk g 10 (nnext (heap g 0))) = [(10, false); (15, false); (20, false)] /\
  List.length (full_hist (Conc.trace (fst r))) = 18%nat /\ lincheck SetSpec (full_hist (Conc.trace (fst r))) = true.
Proof. vm_compute. repeat split; reflexivity. Qed.

(** QUIESCENT configurations (C18-style corollaries; LV.Proofs.ListQuiescent).  [quiescent_hist h]: every invocation
    of the history has its response (no thread is inside an operation).  The abstract set [S] is the state of the
    LP-annotated trace of the linearizability theorem; when the history is quiescent every operation of that trace
    has responded.  MichaelList: the unmarked nodes of the chain from m_pHead carry exactly the keys of [S], strictly
    increasing, each once (in every reachable configuration).  LazyList: in a quiescent configuration the traversal
    from m_Head to m_Tail meets no marked node and yields exactly the keys of [S], strictly increasing. *)
Theorem C13_mlist_quiescent :
  forall (fuel sf : nat) (ic : bool) (ths : list (list (list Z))) c,
    Conc.reach (MichaelList.init_cfg fuel sf ic ths) c ->
    exists atr S st L,
      lp_run lp_init atr = Some (S, st) /\ erase atr = full_hist (Conc.trace c) /\
      list_nodes (Conc.shared c) L /\
      zsorted (ListQuiescent.live_keys (Conc.shared c) L) /\ NoDup (ListQuiescent.live_keys (Conc.shared c) L) /\
      (forall k, zmem k S = true <-> In k (ListQuiescent.live_keys (Conc.shared c) L)) /\
      (ListQuiescent.quiescent_hist (full_hist (Conc.trace c)) -> forall t, st t = @Idle SetSpec).
Proof. exact ListQuiescent.mlist_quiescent. Qed.
Print Assumptions C13_mlist_quiescent.

(** With the item counter modelled ( atomicity::item_counter, variant 3 ): in a quiescent configuration m_ItemCounter
    equals the cardinality of the abstract set = the number of unmarked nodes of the chain.  (The counter is updated
    after the linearization point; LV.Proofs.MichaelListCount: the counter always equals the net number of items
    that the COMPLETED operations of the history inserted, plus the counter accesses of the operations in progress.) *)
Theorem C13_mlist_quiescent_count :
  forall (fuel sf : nat) (ths : list (list (list Z))) c,
    Conc.reach (MichaelList.init_cfg fuel sf true ths) c ->
    exists atr S st L,
      lp_run lp_init atr = Some (S, st) /\ erase atr = full_hist (Conc.trace c) /\
      list_nodes (Conc.shared c) L /\
      zsorted (ListQuiescent.live_keys (Conc.shared c) L) /\ NoDup (ListQuiescent.live_keys (Conc.shared c) L) /\
      (forall k, zmem k S = true <-> In k (ListQuiescent.live_keys (Conc.shared c) L)) /\
      (ListQuiescent.quiescent_hist (full_hist (Conc.trace c)) ->
         (forall t, st t = @Idle SetSpec) /\
         count (Conc.shared c) = Z.of_nat (List.length S) /\
         count (Conc.shared c) = Z.of_nat (List.length (ListQuiescent.live_keys (Conc.shared c) L))).
Proof. exact ListQuiescent.mlist_quiescent_count. Qed.
Print Assumptions C13_mlist_quiescent_count.

Theorem C13_lazy_quiescent :
  forall (fuel sf : nat) (ic : bool) (ths : list (list (list Z))) (c : Conc.config LazyList.G LazyList.V ev),
    Conc.reach (LazyList.init_cfg fuel sf ic ths) c ->
    exists atr Sabs st0,
      lp_run lp_init atr = Some (Sabs, st0) /\ erase atr = upd_hist (Conc.trace c) /\
      LazyListDefs.increasing (LazyListDefs.lazy_keys (Conc.shared c)) /\
      (LazyListQuiescent.quiescent_hist (upd_hist (Conc.trace c)) ->
         (forall t, st0 t = @Idle SetSpec) /\
         (forall k, zmem k Sabs = true <-> In k (LazyListDefs.lazy_keys (Conc.shared c)))).
Proof. exact ListQuiescent.lazy_quiescent. Qed.
Print Assumptions C13_lazy_quiescent.

Theorem C13_lazy_quiescent_count :
  forall (fuel sf : nat) (ths : list (list (list Z))) (c : Conc.config LazyList.G LazyList.V ev),
    Conc.reach (LazyList.init_cfg fuel sf true ths) c ->
    exists atr Sabs st0,
      lp_run lp_init atr = Some (Sabs, st0) /\ erase atr = upd_hist (Conc.trace c) /\
      LazyListDefs.increasing (LazyListDefs.lazy_keys (Conc.shared c)) /\
      (LazyListQuiescent.quiescent_hist (upd_hist (Conc.trace c)) ->
         (forall t, st0 t = @Idle SetSpec) /\
         (forall k, zmem k Sabs = true <-> In k (LazyListDefs.lazy_keys (Conc.shared c))) /\
         LazyList.count (Conc.shared c) = Z.of_nat (List.length Sabs) /\
         LazyList.count (Conc.shared c) = Z.of_nat (List.length (LazyListDefs.lazy_keys (Conc.shared c)))).
Proof. exact ListQuiescent.lazy_quiescent_count. Qed.
Print Assumptions C13_lazy_quiescent_count.

(** IterableList: the property is FALSE, for the step model LV.Model.IterList (tied to the real code by step
    correspondence) and for the real cds::intrusive::IterableList<gc::HP> (the same programs and schedule are run on
    the real list by `bin/check C13`, corpus/C13/iter_null_prev_aba.json: known finding
    iterlist-null-prev-aba-find-prev-stale).  link_data() re-uses an empty predecessor node after
    find_prev( pHead, val ) returned that node ("ABA check for a null prev"), but find_prev walks nodes that are not
    frozen, so a node it has already passed can be re-used by another insert for a larger key.  Four threads
    (IterListRefute.aba_threads), one explicit schedule: a reachable configuration whose traversal yields the keys
    12, 10, 20, and one in which thread 1 got insert( 10 ) = true, contains( 10 ) = false, insert( 10 ) = true and the
    traversal yields 10, 12, 10, 20 (the key 10 is present twice). *)
Definition iter_sorted_nodup_statement : Prop :=
  forall (fuel sf : nat) (ic : bool) (ths : list (list (list Z))) c,
    Conc.reach (IterList.init_cfg fuel sf ic ths) c ->
    LazyListDefs.increasing (IterListDefs.iter_keys (Conc.shared c)).

Theorem C13_iter_sorted_nodup_refuted : ~ iter_sorted_nodup_statement.
Proof. exact IterListRefute.iter_sorted_nodup_refuted. Qed.
Print Assumptions C13_iter_sorted_nodup_refuted.

Theorem C13_iter_order_violation_reachable :
  exists c, Conc.reach (IterList.init_cfg 64 400 false IterListRefute.aba_threads) c /\
            IterListDefs.iter_keys (Conc.shared c) = [12; 10; 20].
Proof. exact IterListRefute.iter_order_violation_reachable. Qed.
Print Assumptions C13_iter_order_violation_reachable.

Theorem C13_iter_duplicate_key_reachable :
  exists c, Conc.reach (IterList.init_cfg 64 400 false IterListRefute.aba_threads) c /\
            IterListDefs.iter_keys (Conc.shared c) = [10; 12; 10; 20] /\
            IterListRefute.rets_of 1 (Conc.trace c) = [[1; 0]; [0; 0]; [1; 0]].
Proof. exact IterListRefute.iter_duplicate_key_reachable. Qed.
Print Assumptions C13_iter_duplicate_key_reachable.

(** non-vacuity: a concrete 2-thread run (item counter on) with contended CASes in which inserts, an inserting
    update, an erase and an extract succeed, an update finds its key, an unlink of a foreign item fails; it
    finishes, the real chain at the end is the single node with key 3, two CASes failed, and both the stripped
    and the full history are accepted by the verified checker. *)
Definition ex_threads : list (list (list Z)) :=
  [ [[1;1;0;0]; [2;2;0;0]; [4;1;0;0]; [3;3;1;0]] ; [[3;2;1;0]; [7;2;0;0]; [9;1;0;0]; [6;3;0;0]] ].
Definition ex_sched : list nat :=
  [0;1;0;0;0;0;1;1;0;0;0;0;0;0;0;0;1;1;1;1;1;1;1;1;0;0;0;0;0;0;0;0;0;0;0;0;0;0;1;1;1;1;0;0;0;1;1;1;1;1;1;0;0;0;0;1;1;1;0;0;0;0;0]%nat.

Example C13_mlist_nonvacuous :
  let r := Conc.run 5000 0 ex_sched (MichaelList.init_cfg 64 400 true ex_threads) in
  let g := Conc.shared (fst r) in
  let tr := Conc.trace (fst r) in
  snd r = true /\
  Conc.reach (MichaelList.init_cfg 64 400 true ex_threads) (fst r) /\
  map (fun n => (nkey (heap g n), nmark (heap g n))) (walk g 10 (nnext (heap g 0))) = [(3, false)] /\
  List.length (upd_hist tr) = 10%nat /\ List.length (full_hist tr) = 14%nat /\
  lincheck SetSpec (upd_hist tr) = true /\ lincheck SetSpec (full_hist tr) = true /\
  List.length (filter (fun te => match snd te with EvAcc KCas _ false => true | _ => false end) tr) = 2%nat.
Proof.
  cbv zeta. split; [vm_compute; reflexivity|]. split; [apply Conc.run_reach|].
  vm_compute. repeat split; reflexivity.
Qed.

(** non-vacuity of the LazyList theorems (and the same run on the IterableList model) on one concrete run each:
    the same programs and schedule on the LazyList and IterableList models; the walks are strictly increasing at the
    end and the LazyList history of modifying operations has 10 events and is accepted by the verified checker. *)
Example C13_lazy_iter_statements_sample :
  let cl := fst (Conc.run 5000 0 ex_sched (LazyList.init_cfg 64 400 true ex_threads)) in
  let ci := fst (Conc.run 5000 0 ex_sched (IterList.init_cfg 64 400 true ex_threads)) in
  LazyListDefs.increasingb (LazyListDefs.lazy_keys (Conc.shared cl)) = true /\
  LazyListDefs.lazy_keys (Conc.shared cl) = [3] /\
  List.length (upd_hist (Conc.trace cl)) = 10%nat /\ lincheck SetSpec (upd_hist (Conc.trace cl)) = true /\
  List.length (full_hist (Conc.trace cl)) = 14%nat /\ lincheck SetSpec (full_hist (Conc.trace cl)) = true /\
  LazyListDefs.increasingb (IterListDefs.iter_keys (Conc.shared ci)) = true /\
  IterListDefs.iter_keys (Conc.shared ci) = [3].
Proof. vm_compute. repeat split; reflexivity. Qed.
