(** Property C13 — ordered lists are linearizable sets / maps and no key is ever present twice.
    Only statements here; proofs live in LV.Proofs.MichaelList*.

    Scope of the theorems: the step model LV.Model.MichaelList of cds::intrusive::MichaelList<cds::gc::HP>
    (cds/intrusive/impl/michael_list.h: search with helping, link_node, unlink_node, insert_at, update_at, erase_at,
    unlink_at, extract_at, find_at, get_at), tied to the real code by step correspondence on every run of
    `bin/check C13`.  Every other variant of the property (LazyList, IterableList, cds::container wrappers, kv-lists,
    DHP / RCU / nogc) is covered by observable correspondence only (real histories decided by the verified lincheck).

    MEMORY SAFETY IS A HYPOTHESIS ([smr_safe], DESIGN 4): the model allocates node ids from a never-reusing
    allocator and a retired node stays readable; that no node is recycled while a guard can reach it is the
    conclusion of the C01 theorems about cds::gc::HP, not of this file. *)
From Coq Require Import ZArith List String.
From LV Require Import Base.Conc Base.Events Base.Lin Spec.Specs.
From LV Require Import Model.MichaelList Proofs.MichaelListBase Proofs.MichaelListInv Proofs.MichaelListProofs.
Import ListNotations.
Local Open Scope Z_scope.

(** "No key is ever present twice": for every number of threads, every client program of the ten operations,
    every fuel and EVERY schedule (every sequence of thread choices), in every reachable configuration the nodes
    reachable from m_pHead form a finite null-terminated chain [L] ([linked g 0 L 0]) whose keys are strictly
    increasing — marked (logically deleted, not yet unlinked) nodes included, hence also the unmarked ones. *)
Theorem C13_mlist_sorted_nodup :
  forall (fuel sf : nat) (ic : bool) (ths : list (list (list Z))) c,
    Conc.reach (MichaelList.init_cfg fuel sf ic ths) c ->
    exists L, list_nodes (Conc.shared c) L /\
              zsorted (keys_of (Conc.shared c) L) /\
              zsorted (keys_of (Conc.shared c) (unmarked (Conc.shared c) L)).
Proof. exact mlist_sorted_nodup. Qed.
Print Assumptions C13_mlist_sorted_nodup.

(** PARTIAL linearizability (modifying operations only).  [upd_hist tr] is the invoke/response history of the
    trace with every completed operation deleted that did not modify the set (failed insert / erase / unlink /
    extract, update of an existing key, contains / find / get; pending operations are kept).  For every
    schedule there is an LP-annotated trace, valid for the sequential set specification, whose history is exactly
    that: the linearization points are the link CAS (insert, inserting update) and the mark CAS (erase, unlink,
    extract), and each of these operations returns the result the specification gives at that point. *)
Theorem C13_mlist_updates_linearizable_partial :
  forall (fuel sf : nat) (ic : bool) (ths : list (list (list Z))) c,
    Conc.reach (MichaelList.init_cfg fuel sf ic ths) c ->
    exists atr, lp_valid SetSpec atr /\ erase atr = upd_hist (Conc.trace c).
Proof. exact mlist_updates_linearizable_partial. Qed.
Print Assumptions C13_mlist_updates_linearizable_partial.

Theorem C13_mlist_updates_history_linearizable :
  forall (fuel sf : nat) (ic : bool) (ths : list (list (list Z))) c,
    Conc.reach (MichaelList.init_cfg fuel sf ic ths) c ->
    linearizable SetSpec (upd_hist (Conc.trace c)).
Proof. exact mlist_updates_linearizable_partial'. Qed.
Print Assumptions C13_mlist_updates_history_linearizable.

(** NOT PROVED: the full statement, including the operations whose linearization point is not a fixed
    instruction of their own code (a failed insert / erase and find / contains / get linearize at the last
    validated read of their traversal, possibly inside another thread's step).  What is missing is the
    standard hindsight argument for Michael's list: an unmarked node seen through a validated link
    pPrev -> pCur was in the abstract set at that read.  The invariant of Proofs/MichaelListInv.v already
    carries the needed structure (published nodes, frozen marked nodes); the read-side LP bookkeeping is not done.
    On sampled executions the full histories are decided by the verified lincheck (checks/C13.py). *)
Definition mlist_linearizable_statement : Prop :=
  forall (fuel sf : nat) (ic : bool) (ths : list (list (list Z))) c,
    Conc.reach (MichaelList.init_cfg fuel sf ic ths) c ->
    linearizable SetSpec (full_hist (Conc.trace c)).

(** non-vacuity: a concrete 2-thread run (item counter on) with contended CASes in which inserts, an inserting
    update, an erase and an extract succeed, an update finds its key, an unlink of a foreign item fails; it
    finishes, the real chain at the end is the single node with key 3, two CASes failed, and both the stripped
    and the full history are accepted by the verified checker. *)
Definition ex_threads : list (list (list Z)) :=
  [ [[1;1;0;0]; [2;2;0;0]; [4;1;0;0]; [3;3;1;0]] ; [[3;2;1;0]; [7;2;0;0]; [9;1;0;0]; [6;3;0;0]] ].
Definition ex_sched : list nat :=
  [0;1;0;0;0;0;1;1;0;0;0;0;0;0;0;0;1;1;1;1;1;1;1;1;0;0;0;0;0;0;0;0;0;0;0;0;0;0;1;1;1;1;0;0;0;1;1;1;1;1;1;0;0;0;0;1;1;1;0;0;0;0;0]%nat.

Example C13_mlist_nonvacuous :
  let r := Conc.run 5000 0 ex_sched (MichaelList.init_cfg 64 400 true ex_threads) in
  let g := Conc.shared (fst r) in
  let tr := Conc.trace (fst r) in
  snd r = true /\
  Conc.reach (MichaelList.init_cfg 64 400 true ex_threads) (fst r) /\
  map (fun n => (nkey (heap g n), nmark (heap g n))) (walk g 10 (nnext (heap g 0))) = [(3, false)] /\
  List.length (upd_hist tr) = 10%nat /\ List.length (full_hist tr) = 14%nat /\
  lincheck SetSpec (upd_hist tr) = true /\ lincheck SetSpec (full_hist tr) = true /\
  List.length (filter (fun te => match snd te with EvAcc KCas _ false => true | _ => false end) tr) = 2%nat.
Proof.
  cbv zeta. split; [vm_compute; reflexivity|]. split; [apply Conc.run_reach|].
  vm_compute. repeat split; reflexivity.
Qed.
