Require Extraction.
Require Import ExtrOcamlBasic.
From LV Require Import Model.FcKernel.
Extraction "model.ml" FcKernel.run_case.
