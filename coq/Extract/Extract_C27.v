(* Extraction of the generated split-list arithmetic (coq/Gen/Gen_splitlist.v) for the C27 differential driver:
   one OCaml module per Coq library; Z, positive, nat stay the Coq datatypes (ExtrOcamlBasic only). *)
Require Extraction.
Require Import ExtrOcamlBasic.
Require LV.Gen.Gen_splitlist.
Set Extraction Output Directory ".".
Separate Extraction Gen_splitlist.
