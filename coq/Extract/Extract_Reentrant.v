Require Extraction.
Require Import ExtrOcamlBasic.
From LV Require Import Model.Reentrant.
Extraction "model.ml" Reentrant.run_case.
