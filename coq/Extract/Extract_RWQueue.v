Require Extraction.
Require Import ExtrOcamlBasic.
From LV Require Import Model.RWQueue.
Extraction "model.ml" RWQueue.run_case.
