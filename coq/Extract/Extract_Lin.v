(** Extraction of the verified linearizability checker and the sequential specifications.
    Compiled with cwd = a work directory, e.g.
      mkdir -p /verif/_work/lin && cd /verif/_work/lin &&
      coqc -Q /verif/coq LV /verif/coq/Extract/Extract_Lin.v
    which writes lin.ml / lin.mli there.  Z, positive and nat stay the Coq datatypes. *)

Require Extraction.
Require Import ExtrOcamlBasic.
Require Import LV.Base.Lin LV.Spec.Specs.

Extraction "lin.ml"
  lincheck lincheck_memo wf_historyb lp_validb erase
  Fifo BFifo Stack Deque PQueue BPQueue SetSpec MapSpec
  zlist_eqb zzlist_eqb zlist_hash zzlist_hash.
