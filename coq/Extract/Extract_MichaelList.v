Require Extraction.
Require Import ExtrOcamlBasic.
From LV Require Import Model.MichaelList.
Extraction "model.ml" MichaelList.run_case.
