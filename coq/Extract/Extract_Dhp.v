Require Extraction.
Require Import ExtrOcamlBasic.
From LV Require Import Model.Dhp.
Extraction "model.ml" Dhp.run_case.
