Require Extraction.
Require Import ExtrOcamlBasic.
From LV Require Import Model.FreeListAll.
Extraction "model.ml" FreeListAll.run_case.
