Require Extraction.
Require Import ExtrOcamlBasic.
From LV Require Import Model.RcuGp.
Extraction "model.ml" RcuGp.run_case.
