Require Extraction.
Require Import ExtrOcamlBasic.
From LV Require Import Model.IterListIter.
Extraction "model.ml" IterListIter.run_case.
