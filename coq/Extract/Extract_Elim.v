Require Extraction.
Require Import ExtrOcamlBasic.
From LV Require Import Model.Elim.
Extraction "model.ml" Elim.run_case.
