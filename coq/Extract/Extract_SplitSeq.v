Require Extraction.
Require Import ExtrOcamlBasic.
From LV Require Import Model.SplitSeq Model.SplitSeqObs.
Extraction "c17split.ml" SplitSeqObs.sp_run_case SplitSeqObs.layout SplitSeqObs.bucket_pos SplitSeqObs.capacity_of
  SplitSeqObs.rso_of SplitSeqObs.dso_of.
