Require Extraction.
Require Import ExtrOcamlBasic.
From LV Require Import Model.Feldman.
Extraction "model.ml" Feldman.run_case.
