(* Extraction of the C28 model: LV.Model.FeldmanPath (hand-written metrics_make / path / expand_slots / run_set) on
   top of the GENERATED splitters LV.Gen.Gen_feldman; one OCaml module per Coq library; Z, positive, nat stay the
   Coq datatypes (ExtrOcamlBasic only maps bool/option/unit/list/prod/sumbool/sumor). *)
Require Extraction.
Require Import ExtrOcamlBasic.
Require LV.Model.FeldmanPath.
Set Extraction Output Directory ".".
Separate Extraction FeldmanPath.
