Require Extraction.
Require Import ExtrOcamlBasic.
From LV Require Import Model.Segmented.
Extraction "model.ml" Segmented.run_case.
