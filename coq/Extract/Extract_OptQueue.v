Require Extraction.
Require Import ExtrOcamlBasic.
From LV Require Import Model.OptQueue.
Extraction "model.ml" OptQueue.run_case.
