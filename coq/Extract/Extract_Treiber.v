Require Extraction.
Require Import ExtrOcamlBasic.
From LV Require Import Model.Treiber.
Extraction "model.ml" Treiber.run_case.
