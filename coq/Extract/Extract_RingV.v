Require Extraction.
Require Import ExtrOcamlBasic.
From LV Require Import Model.RingV.
Extraction "model.ml" RingV.run_case.
