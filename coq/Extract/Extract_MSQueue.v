Require Extraction.
Require Import ExtrOcamlBasic.
From LV Require Import Model.MSQueue.
Extraction "model.ml" MSQueue.run_case.
