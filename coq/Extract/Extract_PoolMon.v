Require Extraction.
Require Import ExtrOcamlBasic.
From LV Require Import Model.PoolMon.
Extraction "model.ml" PoolMon.run_case.
