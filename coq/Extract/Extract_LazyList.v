Require Extraction.
Require Import ExtrOcamlBasic.
From LV Require Import Model.LazyList.
Extraction "model.ml" LazyList.run_case.
