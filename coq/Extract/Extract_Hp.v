Require Extraction.
Require Import ExtrOcamlBasic.
From LV Require Import Model.Hp.
Extraction "model.ml" Hp.run_case.
