Require Extraction.
Require Import ExtrOcamlBasic.
From LV Require Import Model.FeldmanIter.
Extraction "model.ml" FeldmanIter.run_case.
