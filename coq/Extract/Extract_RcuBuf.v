Require Extraction.
Require Import ExtrOcamlBasic.
From LV Require Import Model.RcuBuf.
Extraction "model.ml" RcuBuf.run_case.
