Require Extraction.
Require Import ExtrOcamlBasic.
From LV Require Import Model.SplitList.
Extraction "model.ml" SplitList.run_case.
