(* Extraction of the generated bit_reverse_counter (coq/Gen/Gen_brc.v, unit list tools/cxx2v/units_C26.json):
   one OCaml module per Coq library (Gen_brc.ml, CInt.ml, BinInt.ml ...); Z, positive, nat stay the Coq
   datatypes (ExtrOcamlBasic only maps bool/option/unit/list/prod/sumbool/sumor). *)
Require Extraction.
Require Import ExtrOcamlBasic.
Require LV.Gen.Gen_brc.
Set Extraction Output Directory ".".
Separate Extraction Gen_brc.
