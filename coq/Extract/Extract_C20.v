(** Extraction of the sequential API specifications (property C20).
    Compiled by vcheck.extract with cwd = a work directory; writes c20spec.ml / c20spec.mli there.
    Z, positive and nat stay the Coq datatypes (ExtrOcamlBasic only). *)
Require Extraction.
Require Import ExtrOcamlBasic.
From LV Require Import Spec.Specs Spec.ApiSpec.
Extraction "c20spec.ml" krun_case qrun_case segq_run_case.
