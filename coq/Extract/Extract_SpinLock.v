Require Extraction.
Require Import ExtrOcamlBasic.
From LV Require Import Model.SpinLock.
Extraction "model.ml" SpinLock.run_case.
