Require Extraction.
Require Import ExtrOcamlBasic.
From LV Require Import Model.MsPq.
Extraction "model.ml" MsPq.run_case.
