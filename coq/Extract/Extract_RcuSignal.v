Require Extraction.
Require Import ExtrOcamlBasic.
From LV Require Import Model.RcuSignal.
Extraction "model.ml" RcuSignal.run_case.
