Require Extraction.
Require Import ExtrOcamlBasic.
From LV Require Import Model.IterList.
Extraction "model.ml" IterList.run_case.
