(** Extracted driver for the step correspondence of put / get / empty() programs followed by a quiescent
    clear( disp ) (checks/C21_clear.py, harness/C21/clear_main.cpp).  Only output glue is defined here: the
    concurrent part is [Conc.run] on [FreeListClear.init_cfg2] (through [FreeListClear.fl2_run_case]) resp.
    [FreeListTagged.tinit_cfg]; clear() is [solo_ev (clear lfuel)] resp. [tsolo_ev (tclear lfuel)] from the
    final shared state.  The events of clear() are printed as those of pseudo-thread N = number of threads,
    bracketed by "N begin" / "N ev inv_clear" and "N ev ret_clear"; they are printed only when the concurrent
    part finished (otherwise the state is not quiescent and clear() is not called by the harness either).
    cfg[0] = 0 FreeList (operations [1] get, [2;k] put, [3] empty), 1 TaggedFreeList ([1] get, [2;k] put). *)
Require Extraction.
Require Import ExtrOcamlBasic.
From Coq Require Import ZArith List String.
From LV Require Import Base.Conc Base.Events Model.FreeList Model.FreeListTagged Model.FreeListClear Model.FreeListTaggedClear.
Import ListNotations.
Local Open Scope Z_scope.
Local Open Scope string_scope.

Definition clear_part (n : nat) (es : list ev) : list (nat * ev) :=
  ((n, EvAcc KBegin [] true) :: (n, EvCli "inv_clear" []) :: map (pair n) es ++ [(n, EvCli "ret_clear" [])])%list.

Definition run_case (cfg : list Z) (ths : list (list (list Z))) (sched : list nat) (fuel : nat)
  : list (nat * ev) * bool :=
  let n := List.length ths in
  match nth 0 cfg 0 with
  | 0 =>
      let lfuel := Z.to_nat (nth 1 cfg 100) in
      let k := Z.to_nat (nth 3 cfg 0) in
      let r := Conc.run fuel 0 sched (init_cfg2 lfuel k (decode_threads2 k (skipn 4 cfg) ths)) in
      let '(tr, es, ok) := fl2_run_case cfg ths sched fuel in
      if snd r then ((tr ++ clear_part n es)%list, ok) else (tr, false)
  | 1 =>
      let lfuel := Z.to_nat (nth 1 cfg 100) in
      let k := Z.to_nat (nth 3 cfg 0) in
      let r := Conc.run fuel 0 sched (tinit_cfg lfuel k (decode_threads k (skipn 4 cfg) ths)) in
      let '(_, ok, es) := tsolo_ev (tclear lfuel) (Conc.shared (fst r)) in
      if snd r then ((Conc.trace (fst r) ++ clear_part n es)%list, ok) else (Conc.trace (fst r), false)
  | _ => ([], true)
  end.

Extraction "model.ml" run_case.
