(** Extraction of the three sequential models (AvlSeq, EllenSeq, SkipSeq) for the differential runs of checks/C18
    (the real structure is dumped after every operation and compared, shape by shape, with the model). *)
Require Extraction.
Require Import ExtrOcamlBasic.
From LV Require Import Model.SkipSeq Model.EllenSeq Model.AvlSeq.
Extraction "seqmodels.ml" SkipSeq.sk_step SkipSeq.sk_init SkipSeq.decode
  EllenSeq.e_step EllenSeq.e_init EllenSeq.e_decode
  AvlSeq.a_step AvlSeq.a_decode AvlSeq.heights_exact AvlSeq.balanced AvlSeq.no_removable_routing AvlSeq.E.
