Require Extraction.
Require Import ExtrOcamlBasic.
From LV Require Import Model.Basket.
Extraction "model.ml" Basket.run_case.
