Require Extraction.
Require Import ExtrOcamlBasic.
From LV Require Import Model.CuckooSeq Model.StripedSeq.
Extraction "c17model.ml" CuckooSeq.run_case CuckooSeq.resize CuckooSeq.insert CuckooSeq.cfind CuckooSeq.init CuckooSeq.h_tab
  StripedSeq.s_run_case.
