Require Extraction.
Require Import ExtrOcamlBasic.
From LV Require Import Model.CuckooSeq.
Extraction "c17model.ml" CuckooSeq.run_case CuckooSeq.resize CuckooSeq.insert CuckooSeq.cfind CuckooSeq.init CuckooSeq.h_tab.
