Require Extraction.
Require Import ExtrOcamlBasic.
From LV Require Import Model.Ring.
Extraction "model.ml" Ring.run_case.
