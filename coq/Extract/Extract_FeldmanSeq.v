Require Extraction.
Require Import ExtrOcamlBasic.
From LV Require Import Model.FeldmanSeq Model.FeldmanSeqObs.
Extraction "c17feldman.ml" FeldmanSeqObs.f_run_case FeldmanSeqObs.fdump_set FeldmanSeqObs.level_stats FeldmanSeq.f_elems
  FeldmanSeqObs.make_metrics.
