Require Extraction.
Require Import ExtrOcamlBasic.
From LV Require Import Model.LocksArray.
Extraction "model.ml" LocksArray.run_case.
