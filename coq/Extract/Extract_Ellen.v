Require Extraction.
Require Import ExtrOcamlBasic.
From LV Require Import Model.Ellen.
Extraction "model.ml" Ellen.run_case.
