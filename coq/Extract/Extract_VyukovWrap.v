Require Extraction.
Require Import ExtrOcamlBasic.
From LV Require Import Model.VyukovWrap.
Extraction "model.ml" VyukovWrap.run_case.
