Require Extraction.
Require Import ExtrOcamlBasic.
From LV Require Import Model.TreiberFull.
Extraction "model.ml" TreiberFull.run_case.
