Require Extraction.
Require Import ExtrOcamlBasic.
From LV Require Import Model.LocksInj.
Extraction "model.ml" LocksInj.run_case.
