Require Extraction.
Require Import ExtrOcamlBasic.
From LV Require Import Model.Vyukov.
Extraction "model.ml" Vyukov.run_case.
