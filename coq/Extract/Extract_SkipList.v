Require Extraction.
Require Import ExtrOcamlBasic.
From LV Require Import Model.SkipList.
Extraction "model.ml" SkipList.run_case.
