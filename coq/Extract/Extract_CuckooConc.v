Require Extraction.
Require Import ExtrOcamlBasic.
From LV Require Import Model.CuckooConc.
Extraction "model.ml" CuckooConc.run_case.
