Require Extraction.
Require Import ExtrOcamlBasic.
From LV Require Import Model.StripedConc.
Extraction "model.ml" StripedConc.run_case.
