Require Extraction.
Require Import ExtrOcamlBasic.
From LV Require Import Model.FcKernelWake.
Extraction "model.ml" FcKernelWake.run_case.
