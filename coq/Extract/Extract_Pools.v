Require Extraction.
Require Import ExtrOcamlBasic.
From LV Require Import Model.Pools.
Extraction "model.ml" Pools.run_case.
