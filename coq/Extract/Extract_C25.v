(* Extraction of the generated C25 definitions: one OCaml module per Coq library (Gen_*.ml, CInt.ml, BinInt.ml ...);
   Z, positive, nat stay the Coq datatypes (ExtrOcamlBasic only maps bool/option/unit/list/prod/sumbool/sumor). *)
Require Extraction.
Require Import ExtrOcamlBasic.
Require LV.Gen.Gen_bit_reversal LV.Gen.Gen_bitop LV.Gen.Gen_int_algo LV.Gen.Gen_split.
Set Extraction Output Directory ".".
Separate Extraction Gen_bit_reversal Gen_bitop Gen_int_algo Gen_split.
