(* Extraction of the generated C25 definitions (one OCaml module per Coq file; Z stays the Coq datatype). *)
Require Extraction.
Require Import ExtrOcamlBasic.
Require LV.Gen.Gen_bit_reversal.
Set Extraction Output Directory ".".
Separate Extraction
  Gen_bit_reversal.swar_u32 Gen_bit_reversal.swar_u64 Gen_bit_reversal.lookup_u32 Gen_bit_reversal.lookup_u64
  Gen_bit_reversal.muldiv32_byte Gen_bit_reversal.muldiv64_byte
  Gen_bit_reversal.muldiv32_u32 Gen_bit_reversal.muldiv32_u64 Gen_bit_reversal.muldiv64_u32 Gen_bit_reversal.muldiv64_u64
  Gen_bit_reversal.muldiv_u32 Gen_bit_reversal.muldiv_u64.
