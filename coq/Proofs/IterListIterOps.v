(** * The operations of LV.Model.IterList preserve the invariant of Proofs/IterListIterDefs.v and leave the ghost value of
      the iterator alone (insert / update / erase / unlink / extract / find / get, every schedule).

    Only three accesses write a [next] cell or allocate: the node constructor [a_new_next] (fresh private node), the store
    [a_stn] into the thread's own private node, and the link CAS [a_casn] whose expected value is what the private node
    points to - on success the private node becomes linked.  Every other access is a [data_act]. *)
From Coq Require Import ZArith List String Bool Lia PeanoNat.
From LV Require Import Base.Conc Base.Events Model.IterList Model.IterListIter Proofs.ConcRel Proofs.IterListIterDefs.
Import ListNotations.

Set Implicit Arguments.

Section Ops.
  Variables (N X : nat).
  Variable t : nat.

  Notation safeR := (@ConcRel.safeR G V ev Aux L W view (Inv N) (SR N X)).
  Notation prog := (Conc.prog G V ev).

  Definition data_act (f : act) : Prop :=
    forall g, nnext (fst (fst (f g))) = nnext g /\ nalloc (fst (fst (f g))) = nalloc g /\
              (fst (ndata g TAIL) = 0 -> fst (ndata (fst (fst (f g))) TAIL) = 0) /\ all_acc (snd (f g)).

  Lemma frame_updf a l' : Conc.frame view t a (mkAux (lk a) (updf (vw a) t l')).
  Proof. intros u Hu. unfold view. cbn. apply updf_neq. exact Hu. Qed.

  Lemma frame_updf' a lk' l' : Conc.frame view t a (mkAux lk' (updf (vw a) t l')).
  Proof. intros u Hu. unfold view. cbn. apply updf_neq. exact Hu. Qed.

  Lemma act_data R f (k : V -> prog R) l w Q : data_act f -> (forall v, safeR t (k v) l w Q) -> safeR t (Act f k) l w Q.
  Proof.
    intros Hf Hk g a tr [HI HT] Hv. destruct (Hf g) as (E1 & E2 & E4 & E3). exists a, w.
    split; [unfold Inv in *; rewrite E1, E2; split; [exact HI|auto]|]. split; [intros ? ?; reflexivity|].
    split; [apply SR_nx; [exact E1|apply TR_same; auto using all_acc_quiet]|]. rewrite Hv. apply Hk.
  Qed.

  Lemma emit_quiet R es (k : prog R) l w Q : quiet w es -> safeR t k l w Q -> safeR t (Emit es k) l w Q.
  Proof.
    intros Hq Hk g a tr HI Hv. exists a, w. split; [exact HI|]. split; [intros ? ?; reflexivity|].
    split; [apply SR_nx; [reflexivity|apply TR_same; auto]|]. rewrite Hv. exact Hk.
  Qed.

  (** the thread changes its view to [l'] at an access that changes nothing *)
  Lemma J_keep nx na a l l' : InvS N nx na a -> vw a t = l ->
    stage l' = stage l -> jd l' = jd l -> incl (known l) (known l') -> J N nx l'.
  Proof.
    intros HI Hv Hs Hj Hi. eapply J_ext with (lka := lk a) (nx := nx); eauto.
    - apply ext_refl.
    - intros n Hn. eapply Inv_kn; eauto. rewrite Hv. exact Hn.
    - rewrite <- Hv. apply (i_J HI).
  Qed.

  Lemma act_ldn R p (k : V -> prog R) l w Q : kn l p ->
    (forall n, (p = TAIL -> n = TAIL) -> safeR t (k (mkV n false 0)) (add_known n l) w Q) -> safeR t (Act (a_ldn p) k) l w Q.
  Proof.
    intros Hp Hk g a tr [HI HT] Hv. unfold view in Hv. cbn [a_ldn fst snd].
    exists (mkAux (lk a) (updf (vw a) t (add_known (nnext g p) l))), w.
    assert (Hlp : lk a p = true) by (eapply Inv_kn; eauto; rewrite Hv; exact Hp).
    split.
    { unfold Inv in *. split; [|exact HT]. apply InvS_view; [exact HI|rewrite Hv; reflexivity|rewrite Hv; reflexivity| |].
      - cbn. intros n [<-|Hn]; [apply (i_cl HI p Hlp)|]. eapply i_known; eauto. rewrite Hv. exact Hn.
      - eapply J_keep; eauto. cbn. intros x Hx. right. exact Hx. }
    split; [apply frame_updf|]. split; [apply SR_nx; [reflexivity|apply TR_same; auto using all_acc_quiet, all_acc1]|].
    unfold view. cbn. rewrite updf_eq. apply Hk. intros ->. apply (i_tn HI).
  Qed.

  Lemma act_new R (k : V -> prog R) l w Q :
    (forall n, 2 < n -> safeR t (k (mkV n false 0)) (set_mine l n 0) w Q) -> safeR t (Act a_new_next k) l w Q.
  Proof.
    intros Hk g a tr [HI HT] Hv. unfold view in Hv. cbn [a_new_next fst snd].
    set (n := S (nalloc g)).
    exists (mkAux (lk a) (updf (vw a) t (set_mine l n 0))), w.
    assert (Hb : forall m, lk a m = true -> m <> n) by (intros m Hm; destruct (i_cl HI m Hm); unfold n; lia).
    assert (Htl : TAIL <> n) by (intros E; apply (Hb TAIL (i_tail HI)); exact E).
    split.
    { unfold Inv in *. cbn [nnext nalloc ndata]. split; [|unfold updf; destruct (Nat.eqb TAIL n); [reflexivity|exact HT]].
      apply InvS_step with (nx := nnext g) (na := nalloc g); [exact HI|unfold n; lia|auto| | | | | | | | |].
      - intros m Hm. destruct (i_cl HI m Hm) as [K1 K2]. split; [unfold n; lia|]. rewrite updf_neq by auto. exact K2.
      - apply ext_same; [eapply Inv_closed; eauto|]. intros m Hm. apply updf_neq. auto.
      - intros m H1 H2. congruence.
      - intros u Hu Hm. destruct (i_mine HI u Hm) as (K1 & K2 & K3). split; [exact K1|]. apply updf_neq. unfold n. lia.
      - cbn. intros _. split.
        + destruct (lk a n) eqn:E; [|reflexivity]. exfalso. apply (Hb n E). reflexivity.
        + split; [lia|]. split; [apply updf_eq|]. intros u Hu E.
          assert (Hm : mine (vw a u) <> 0) by (rewrite E; unfold n; lia).
          destruct (i_mine HI u Hm) as (_ & K2 & _). rewrite E in K2. unfold n in K2. lia.
      - cbn. intros m Hm. eapply i_known; eauto. rewrite Hv. exact Hm.
      - rewrite updf_neq by exact Htl. apply (i_tn HI).
      - intros m Hm Em. rewrite updf_neq in Em by auto. eapply (i_loop HI); eauto.
      - eapply J_ext with (lka := lk a) (nx := nnext g) (l := l); try reflexivity; try apply incl_refl.
        + apply ext_same; [eapply Inv_closed; eauto|]. intros m Hm. apply updf_neq. auto.
        + intros m Hm. eapply Inv_kn; eauto. rewrite Hv. exact Hm.
        + rewrite <- Hv. apply (i_J HI). }
    split; [apply frame_updf|].
    split.
    { apply SR_ext with (lka := lk a); [|apply (i_head HI)|apply TR_same; auto using all_acc_quiet, all_acc1].
      cbn [nnext]. apply ext_same; [eapply Inv_closed; eauto|]. intros m Hm. apply updf_neq. auto. }
    unfold view. cbn. rewrite updf_eq. apply Hk. destruct (i_cl HI TAIL (i_tail HI)) as [_ _]. destruct (i_cl HI TAIL (i_tail HI)) as [[_ K] _]. unfold TAIL in *. unfold n. lia.
  Qed.

  Lemma act_stn R n p (k : V -> prog R) l w Q : mine l = n -> n <> 0 ->
    (forall v, safeR t (k v) (set_mine l n p) w Q) -> safeR t (Act (a_stn n p) k) l w Q.
  Proof.
    intros Hm Hn Hk g a tr [HI HT] Hv. unfold view in Hv. cbn [a_stn fst snd].
    exists (mkAux (lk a) (updf (vw a) t (set_mine l n p))), w.
    assert (Hmt : mine (vw a t) <> 0) by (rewrite Hv, Hm; exact Hn).
    destruct (i_mine HI t Hmt) as (M1 & M2 & M3). rewrite Hv, Hm in M1, M2.
    assert (Hb : forall m, lk a m = true -> m <> n) by (intros m Hl ->; congruence).
    split.
    { unfold Inv in *. cbn [nnext nalloc ndata]. split; [|exact HT].
      apply InvS_step with (nx := nnext g) (na := nalloc g); [exact HI|lia|auto| | | | | | | | |].
      - intros m Hl. destruct (i_cl HI m Hl) as [K1 K2]. split; [exact K1|]. rewrite updf_neq by auto. exact K2.
      - apply ext_same; [eapply Inv_closed; eauto|]. intros m Hl. apply updf_neq. auto.
      - intros m H1 H2. congruence.
      - intros u Hu Hmu. destruct (i_mine HI u Hmu) as (K1 & K2 & K3). split; [exact K1|]. apply updf_neq.
        intros E. apply (i_dist HI (t := u) (t' := t)); auto. rewrite Hv, Hm. exact E.
      - cbn. intros _. split; [exact M1|]. split; [exact M2|]. split; [apply updf_eq|]. intros u Hu E.
        apply (i_dist HI (t := t) (t' := u)); auto. rewrite Hv, Hm. auto.
      - cbn. intros m Hx. eapply i_known; eauto. rewrite Hv. exact Hx.
      - rewrite updf_neq by (apply Hb; apply (i_tail HI)). apply (i_tn HI).
      - intros m Hl Em. rewrite updf_neq in Em by auto. eapply (i_loop HI); eauto.
      - eapply J_ext with (lka := lk a) (nx := nnext g) (l := l); try reflexivity; try apply incl_refl.
        + apply ext_same; [eapply Inv_closed; eauto|]. intros m Hl. apply updf_neq. auto.
        + intros m Hx. eapply Inv_kn; eauto. rewrite Hv. exact Hx.
        + rewrite <- Hv. apply (i_J HI). }
    split; [apply frame_updf|].
    split.
    { apply SR_ext with (lka := lk a); [|apply (i_head HI)|apply TR_same; auto using all_acc_quiet, all_acc1].
      cbn [nnext]. apply ext_same; [eapply Inv_closed; eauto|]. intros m Hl. apply updf_neq. auto. }
    unfold view. cbn. rewrite updf_eq. apply Hk.
  Qed.

  Lemma act_casn R pPrev pCur n (k : V -> prog R) l w Q : kn l pPrev -> pPrev <> TAIL -> mine l = n -> n <> 0 -> mnext l = pCur ->
    (forall v, safeR t (k v) (set_mine l 0 0) w Q) -> safeR t (Act (a_casn pPrev pCur n) k) l w Q.
  Proof.
    intros Hp Hpt Hm Hn Hx Hk g a tr [HI HT] Hv. unfold view in Hv.
    assert (Hmt : mine (vw a t) <> 0) by (rewrite Hv, Hm; exact Hn).
    destruct (i_mine HI t Hmt) as (M1 & M2 & M3). rewrite Hv in M1, M2, M3. rewrite Hm in M1, M2, M3. rewrite Hx in M3.
    assert (Hlp : lk a pPrev = true) by (eapply Inv_kn; eauto; rewrite Hv; exact Hp).
    assert (Hkl : forall m, kn l m -> lk a m = true) by (intros m Hq; eapply Inv_kn; eauto; rewrite Hv; exact Hq).
    assert (HJl : J N (nnext g) l) by (rewrite <- Hv; apply (i_J HI)).
    unfold a_casn. destruct (Nat.eqb_spec (nnext g pPrev) pCur) as [Ec|Ec]; cbn [fst snd].
    - (* linked *)
      exists (mkAux (updf (lk a) n true) (updf (vw a) t (set_mine l 0 0))), w.
      assert (Hnp : n <> pPrev) by (intros ->; congruence).
      assert (Hext : ext (lk a) (nnext g) (updf (nnext g) pPrev n)).
      { apply ext_casn; auto; [eapply Inv_closed; eauto|congruence]. }
      assert (Hgrow : forall m, lk a m = true -> updf (lk a) n true m = true).
      { intros m Hl. unfold updf. destruct (Nat.eqb m n); auto. }
      split.
      { unfold Inv in *. cbn [nnext nalloc ndata]. split; [|exact HT].
        apply InvS_step with (nx := nnext g) (na := nalloc g); [exact HI|lia|exact Hgrow| |exact Hext| | | | | | |].
        - intros m Hl. destruct (Nat.eq_dec m n) as [->|Hmn].
          + split; [lia|]. rewrite (updf_neq (nnext g) n Hnp). rewrite M3, <- Ec. apply Hgrow. apply (i_cl HI pPrev Hlp).
          + rewrite updf_neq in Hl by exact Hmn. destruct (i_cl HI m Hl) as [K1 K2]. split; [exact K1|].
            destruct (Nat.eq_dec m pPrev) as [->|Hmp]; [rewrite updf_eq; apply updf_eq|].
            rewrite (updf_neq (nnext g) n Hmp). apply Hgrow. exact K2.
        - intros m H1 H2. destruct (Nat.eq_dec m n) as [->|Hmn]; [|rewrite updf_neq in H1 by exact Hmn; congruence].
          eapply path_trans; [apply (proj1 Hext); [apply (i_head HI)|apply (i_reach HI); exact Hlp]|].
          apply path_step. rewrite updf_eq. constructor.
        - intros u Hu Hmu. destruct (i_mine HI u Hmu) as (K1 & K2 & K3).
          assert (mine (vw a u) <> n).
          { intros E. apply (i_dist HI (t := u) (t' := t)); auto. rewrite Hv, Hm. exact E. }
          split; [rewrite updf_neq by auto; exact K1|]. apply updf_neq. intros E. congruence.
        - cbn. intros K. contradiction.
        - cbn. intros m Hq. apply Hgrow. apply Hkl. right. exact Hq.
        - rewrite updf_neq by auto. apply (i_tn HI).
        - intros m Hl Em. destruct (Nat.eq_dec m n) as [->|Hmn].
          + rewrite (updf_neq (nnext g) n Hnp) in Em. rewrite M3, <- Ec in Em.
            assert (lk a n = true) by (rewrite <- Em; apply (i_cl HI pPrev Hlp)). congruence.
          + rewrite updf_neq in Hl by exact Hmn. destruct (Nat.eq_dec m pPrev) as [->|Hmp].
            * rewrite updf_eq in Em. congruence.
            * rewrite (updf_neq (nnext g) n Hmp) in Em. eapply (i_loop HI); eauto.
        - eapply J_ext with (lka := lk a) (nx := nnext g) (l := l); try reflexivity; try apply incl_refl; auto. }
      split; [apply frame_updf'|].
      split; [apply SR_ext with (lka := lk a); [exact Hext|apply (i_head HI)|apply TR_same; auto using all_acc_quiet, all_acc1]|].
      unfold view. cbn. rewrite updf_eq. apply Hk.
    - (* the CAS failed: the node is dropped *)
      exists (mkAux (lk a) (updf (vw a) t (set_mine l 0 0))), w.
      split.
      { unfold Inv in *. split; [|exact HT].
        apply InvS_step with (nx := nnext g) (na := nalloc g); [exact HI|lia|auto| | | | | | | | |].
        - intros m Hl. apply (i_cl HI m Hl).
        - apply ext_refl.
        - intros m H1 H2. congruence.
        - intros u Hu Hmu. destruct (i_mine HI u Hmu) as (K1 & K2 & K3). auto.
        - cbn. intros K. contradiction.
        - cbn. intros m Hq. apply Hkl. right. exact Hq.
        - apply (i_tn HI).
        - apply (i_loop HI).
        - eapply J_ext with (lka := lk a) (nx := nnext g) (l := l); try reflexivity; try apply incl_refl; auto. apply ext_refl. }
      split; [apply frame_updf|]. split; [apply SR_nx; [reflexivity|apply TR_same; auto using all_acc_quiet, all_acc1]|].
      unfold view. cbn. rewrite updf_eq. apply Hk.
  Qed.

  (** ** programs made of data accesses only *)
  Fixpoint dprog {R} (p : prog R) : Prop :=
    match p with
    | Ret _ => True
    | Emit _ _ => False
    | Act f k => data_act f /\ forall v, dprog (k v)
    end.

  Lemma dprog_safe R (p : prog R) : forall l w (Q : R -> L -> W -> Prop), dprog p -> (forall r, Q r l w) -> safeR t p l w Q.
  Proof.
    induction p as [r|es k IH|f k IH]; intros l w Q Hd HQ; simpl in Hd.
    - cbn. apply HQ.
    - destruct Hd.
    - destruct Hd as [H1 H2]. apply act_data; auto.
  Qed.

  Lemma dbind R R' (p : prog R) (q : R -> prog R') l w Q :
    dprog p -> (forall r, safeR t (q r) l w Q) -> safeR t (Conc.bind p q) l w Q.
  Proof. intros Hd Hq. apply ConcRel.safeR_bind. apply dprog_safe; auto. Qed.

  Lemma dprog_bind R R' (p : prog R) (q : R -> prog R') : dprog p -> (forall r, dprog (q r)) -> dprog (Conc.bind p q).
  Proof.
    induction p as [r|es k IH|f k IH]; simpl; intros Hp Hq; auto.
    destruct Hp. split; auto.
  Qed.
End Ops.

Ltac dact :=
  let g := fresh "g" in
  intros g; unfold a_ldd, a_std, a_casd, a_casd_v, a_gst, a_gld, a_sync, a_rld, a_rst, a_nop, a_cnt, a_begin, a_ldn;
  repeat match goal with |- context [let (_, _) := ?x in _] => destruct x eqn:? end;
  repeat match goal with |- context [if ?c then _ else _] => destruct c eqn:? end;
  cbn; repeat split; auto using all_acc1.

Lemma tail_upd (d : nat -> nat * bool) n i m : (n <> TAIL \/ i = 0) -> fst (d TAIL) = 0 -> fst (updf d n (i, m) TAIL) = 0.
Proof. intros H K. unfold updf. destruct (Nat.eqb_spec TAIL n) as [E|E]; [|exact K]. cbn. destruct H as [H|H]; [congruence|exact H]. Qed.

Lemma d_ldd n : data_act (a_ldd n). Proof. dact. Qed.
Lemma d_ldn n : data_act (a_ldn n). Proof. dact. Qed.
Lemma d_std n i m ko : n <> TAIL \/ i = 0 -> data_act (a_std n i m ko).
Proof. intros H. dact. intros K. apply tail_upd; auto. Qed.
Lemma d_casd n ei em ni nm ko : n <> TAIL \/ ni = 0 \/ ni = ei -> data_act (a_casd n ei em ni nm ko).
Proof.
  intros H. dact. intros K. apply tail_upd; auto. destruct H as [H|[H|H]]; auto.
  destruct (Nat.eq_dec n TAIL) as [->|Hn]; [|left; exact Hn]. right.
  match goal with E : ndata _ TAIL = _ |- _ => rewrite E in K; cbn in K end.
  match goal with E : (_ && _)%bool = true |- _ => apply andb_prop in E; destruct E as [E _]; apply Nat.eqb_eq in E end.
  congruence.
Qed.
Lemma d_casd_v n ei : data_act (a_casd_v n ei).
Proof. dact. intros K. apply tail_upd; auto. Qed.
Lemma d_gst t s : data_act (a_gst t s). Proof. dact. Qed.
Lemma d_gld t s : data_act (a_gld t s). Proof. dact. Qed.
Lemma d_sync t : data_act (a_sync t). Proof. dact. Qed.
Lemma d_rld t : data_act (a_rld t). Proof. dact. Qed.
Lemma d_rst t : data_act (a_rst t). Proof. dact. Qed.
Lemma d_cnt k d : data_act (a_cnt k d). Proof. dact. Qed.
Lemma d_begin : data_act a_begin. Proof. dact. Qed.
#[export] Hint Resolve d_ldd d_ldn d_std d_casd d_casd_v d_gst d_gld d_sync d_rld d_rst d_cnt d_begin : dact.

Ltac dp := simpl; repeat match goal with
  | |- _ /\ _ => split
  | |- forall _, _ => intro
  | |- True => exact I
  | |- data_act _ => solve [auto with dact]
  end.

Lemma dp_assign t s : dprog (assign_guard t s).
Proof. dp. Qed.
Lemma dp_copy t d s : dprog (copy_guard t d s).
Proof. dp. Qed.
Lemma dp_clear t s : dprog (clear_guard t s).
Proof. dp. Qed.
Lemma dp_retire t : dprog (retire t).
Proof. dp. Qed.
Lemma dp_use t s : dprog (use_guarded t s).
Proof. dp. Qed.
Lemma dp_cnt_inc ic : dprog (cnt_inc ic).
Proof. destruct ic; dp. Qed.
Lemma dp_cnt_dec ic : dprog (cnt_dec ic).
Proof. destruct ic; dp. Qed.
Lemma dp_protect_loop fuel : forall t s n v, dprog (protect_loop fuel t s n v).
Proof.
  induction fuel as [|f IH]; intros t s n v; cbn [protect_loop dprog]; auto.
  split; [auto with dact|]. intros _. split; [auto with dact|]. intros _. split; [auto with dact|]. intros v'.
  destruct (veqb v v'); cbn; auto.
Qed.
Lemma dp_protect fuel t s n : dprog (protect fuel t s n).
Proof. cbn. split; [auto with dact|]. intros v. apply dp_protect_loop. Qed.
Lemma dp_unlink_data t p : dprog (unlink_data t p).
Proof.
  cbn. split; [apply d_casd; auto|]. intros r. destruct (vmark r); dp.
Qed.
#[export] Hint Resolve dp_assign dp_copy dp_clear dp_retire dp_use dp_cnt_inc dp_cnt_dec dp_protect dp_unlink_data : dact.
