(** * [HpInv.Inv] and [Inv3] together are preserved by every program of the HP model, both scans.

    The proof is assembled at the level of [Conc.safe] for the PAIR of invariants: sub-programs without a scan, the
    pushes, stage 1 / stage 2 of the scans are taken from HpSafe.v (first invariant) and HpLiveInplaceSafe*.v (second
    invariant) with [safe_pair] / [safe_pair1]; the nodes in between (scan begin / end, help_scan's acquisition of a
    record, detach ...) are stepped for both invariants side by side, following the proofs of HpSafe.v.
    [safe_pair1] is used exactly once per scan: at the [current_] load of inplace_scan, where the view of [HpInv.Inv]
    (no claim on the array / the claim of the push that filled it) yields [k_arr]. *)
From Coq Require Import ZArith List String Bool Lia PeanoNat.
From LV Require Import Base.Conc Base.Events Model.Hp Proofs.HpTrace Proofs.HpInv Proofs.HpSteps Proofs.HpLocal
  Proofs.HpSafe Proofs.HpProofs Proofs.HpLiveCopyRule Proofs.HpLiveCopyInv Proofs.HpLiveInplaceRule Proofs.HpLiveInplaceInv
  Proofs.HpLiveInplaceSafe Proofs.HpLiveInplaceSafe2.
Import ListNotations.
Local Open Scope string_scope.
Local Open Scope list_scope.

Section Glue.
  Variable c : cfgT.

  Notation safe := (@Conc.safe G V ev Aux lview view (Inv c)).
  Notation view13 := (view12 Aux lview view Aux3 view3T view3).
  Notation Inv13 := (Inv12 G ev Aux (Inv c) Aux3 (Inv3 c)).
  Notation psafe := (@Conc.safe G V ev (Aux * Aux3) (lview * view3T) view13 Inv13).
  Notation rs := (rs c).
  Notation rs1 := (rs1 c).

  Definition P2 {R} (Q1 : R -> lview -> Prop) (Q3 : R -> view3T -> Prop) : R -> lview * view3T -> Prop :=
    fun r l => Q1 r (fst l) /\ Q3 r (snd l).

  Lemma ppair {R} t (p : prog R) Q1 Q3 l1 l3 : safe t p l1 Q1 -> rs t p l3 Q3 -> psafe t p (l1, l3) (P2 Q1 Q3).
  Proof. apply safe_pair. Qed.
  Lemma ppair1 {R} t (p : prog R) Q1 Q3 l1 l3 : safe t p l1 Q1 -> rs1 t l1 p l3 Q3 -> psafe t p (l1, l3) (P2 Q1 Q3).
  Proof. apply safe_pair1. Qed.
  Lemma pseq {A B} t (p : prog A) (q : A -> prog B) Q1 Q3 (Q : B -> lview * view3T -> Prop) l :
    psafe t p l (P2 Q1 Q3) ->
    (forall r l1' l3', Q1 r l1' -> Q3 r l3' -> psafe t (q r) (l1', l3') Q) ->
    psafe t (Conc.bind p q) l Q.
  Proof. apply pair_seq. Qed.

  (** nodes that the second invariant does not look at *)
  Lemma pq_act {R} t (f : action) (k : V -> prog R) l1 l3 (Q : R -> lview * view3T -> Prop) :
    v3_cp l3 = CNone -> (forall g e, In e (snd (f g)) -> q3 e = true) ->
    (forall g a tr, Inv c g a tr -> view a t = l1 ->
       exists a', Inv c (fst (fst (f g))) a' (tr ++ Conc.tag t (snd (f g))) /\ Conc.frame view t a a' /\
                  psafe t (k (snd (fst (f g)))) (view a' t, l3) Q) ->
    psafe t (Act f k) (l1, l3) Q.
  Proof.
    intros Hcp Hq H. apply pair_act. intros g a1 a3 tr H1 H3 Hv1 Hv3.
    destruct (H g a1 tr H1 Hv1) as (a1' & K1 & F1 & K3). exists a1', a3.
    split; [exact K1|]. split; [apply (inv3_quiet c g); [exact H3|apply Hq|unfold view3 in Hv3; now rewrite Hv3]|].
    split; [exact F1|]. split; [apply frame3_refl|]. now rewrite Hv3.
  Qed.
  Lemma pq_emit {R} t (es : list ev) (k : prog R) l1 l3 (Q : R -> lview * view3T -> Prop) :
    v3_cp l3 = CNone -> (forall e, In e es -> q3 e = true) ->
    (forall g a tr, Inv c g a tr -> view a t = l1 ->
       exists a', Inv c g a' (tr ++ Conc.tag t es) /\ Conc.frame view t a a' /\ psafe t k (view a' t, l3) Q) ->
    psafe t (Emit es k) (l1, l3) Q.
  Proof.
    intros Hcp Hq H. apply pair_emit. intros g a1 a3 tr H1 H3 Hv1 Hv3.
    destruct (H g a1 tr H1 Hv1) as (a1' & K1 & F1 & K3). exists a1', a3.
    split; [exact K1|]. split; [apply (inv3_quiet c g); [exact H3|apply Hq|unfold view3 in Hv3; now rewrite Hv3]|].
    split; [exact F1|]. split; [apply frame3_refl|]. now rewrite Hv3.
  Qed.

  Ltac qa :=
    let g := fresh "g" in let e := fresh "e" in let He := fresh "He" in
    intros g e He; unfold a_cas_owner, a_cas_head in He; cbn in He;
    repeat match type of He with context [if ?b then _ else _] => destruct b; cbn in He end;
    repeat (destruct He as [He|He]; [subst e; reflexivity|]); contradiction.
  Ltac qe :=
    let e := fresh "e" in let He := fresh "He" in
    intros e He; cbn in He; repeat (destruct He as [He|He]; [subst e; reflexivity|]); contradiction.
  Ltac pact := apply pq_act; [reflexivity|qa|]; intros g a tr HI Hv.
  Ltac pemit := apply pq_emit; [reflexivity|qe|]; intros g a tr HI Hv.

  (** the generic steps of HpSafe.v, for the pair (second view [W0]) *)
  Lemma p_acc {A} t (f : action) (K : V -> prog A) v Q k o b (val : G -> V) :
    (forall g, f g = (g, val g, [EvAcc k o b])) -> k <> KBegin ->
    (forall g, psafe t (K (val g)) (v, W0) Q) -> psafe t (Act f K) (v, W0) Q.
  Proof.
    intros Hf Hk HK. apply pq_act; [reflexivity| |].
    - intros g e He. rewrite Hf in He. cbn in He. destruct He as [<-|[]]. reflexivity.
    - intros g a tr HI Hv. rewrite Hf. cbn [fst snd]. exists a. split; [now apply inv_acc|].
      split; [apply frame_refl|]. rewrite Hv. apply HK.
  Qed.

  Lemma p_emit1 {A} t n args (K : prog A) v Q :
    neutral (EvCli n args) = true -> inert (EvCli n args) = true -> q3 (EvCli n args) = true ->
    psafe t K (v, W0) Q -> psafe t (Emit [EvCli n args] K) (v, W0) Q.
  Proof.
    intros Hn Hi Hq HK. apply pq_emit; [reflexivity|intros e [<-|[]]; exact Hq|]. intros g a tr HI Hv.
    exists a. split; [|split; [apply frame_refl|now rewrite Hv]].
    apply inv_neutral; [exact HI|intros e [<-|[]]; exact Hn| |intros e [<-|[]]; now apply inert_xplain|right; intros e [<-|[]]; exact Hi].
    intros es' e He Hresp. apply single_snoc in He. subst e. exfalso.
    unfold inert in Hi. apply andb_true_iff in Hi. destruct Hi as (_ & Hi). unfold is_resp in Hresp. rewrite Hresp in Hi. discriminate.
  Qed.

  Lemma p_emit_open {A} t n args (K : prog A) v Q :
    neutral (EvCli n args) = true -> xplain (EvCli n args) = true -> is_opstart (EvCli n args) = true ->
    is_resp (EvCli n args) = false -> q3 (EvCli n args) = true ->
    psafe t K (with_x v (Some (EvCli n args)) (v_val v), W0) Q -> psafe t (Emit [EvCli n args] K) (v, W0) Q.
  Proof.
    intros Hn Hx Ho Hr Hq HK. apply pq_emit; [reflexivity|intros e [<-|[]]; exact Hq|]. intros g a tr HI Hv.
    exists (upd_view a t (with_x (view a t) (Some (EvCli n args)) (v_val (view a t)))).
    split; [now apply inv_emit_open|]. split; [apply frame_upd_view|]. rewrite view_upd_same, Hv. exact HK.
  Qed.

  Lemma p_emit_resp {A} t n args (K : prog A) v Q :
    neutral (EvCli n args) = true -> xplain (EvCli n args) = true -> idle v -> q3 (EvCli n args) = true ->
    psafe t K (with_x v None (v_val v), W0) Q -> psafe t (Emit [EvCli n args] K) (v, W0) Q.
  Proof.
    intros Hn Hx Hi Hq HK. apply pq_emit; [reflexivity|intros e [<-|[]]; exact Hq|]. intros g a tr HI Hv.
    exists (upd_view a t (with_x (view a t) None (v_val (view a t)))).
    split; [|split; [apply frame_upd_view|rewrite view_upd_same, Hv; exact HK]].
    apply inv_emit_close; [exact HI|intros e [<-|[]]; exact Hn|intros e [<-|[]]; exact Hx|]. intros; rewrite Hv; exact Hi.
  Qed.

  (** ** scan *)
  Definition Q3scan (kept : list Z) (l3 : view3T) : Prop := exists st arr, l3 = mkV3 (Some st) CNone arr.
  Lemma Q3scan_intro kept st arr : Q3scan kept (mkV3 (Some st) CNone arr).
  Proof. exists st, arr. reflexivity. Qed.

  (** scan begin: the fetch_add, both invariants *)
  Lemma p_scan_begin {A} t r (K : V -> prog A) v Q :
    v_scan v = None ->
    psafe t (K VU) (with_scan v (Some (mkScan [] None None)), SV3 None [] None None) Q ->
    psafe t (Act (a_faa_scan r) K) (v, W0) Q.
  Proof.
    intros Hns HK. apply pair_act. intros g a a3 tr HI HI3 Hv Hv3. cbn [a_faa_scan fst snd].
    exists (upd_view a t (with_scan (view a t) (Some (mkScan [] None None)))), (upd3 a3 t (SV3 None [] None None)).
    split; [apply (inv_scan_begin c g a tr t r HI); now rewrite Hv|]. split.
    { apply (inv3_upd c g); [exact HI3|intros e [<-|[<-|[]]]; reflexivity| |exact I|intros l E; discriminate].
      cbn [SV3 v3_scan]. intros st E. inversion E; subst st. exists (S (List.length tr)).
      split; [apply (last_sb_sb_evs tr t r)|]. intros r0 p f _ _. right. exact I. }
    split; [apply frame_upd_view|]. split; [apply frame_upd3|].
    rewrite view_upd_same, Hv. unfold view3. rewrite upd3_same. exact HK.
  Qed.

  (** scan end: the ghost event, both invariants *)
  Lemma p_scan_end t r kept sv' v st arr (Q : unit -> lview * view3T -> Prop) :
    v_scan v = Some sv' -> incl kept (sc_coll sv') ->
    Q tt (with_scan v None, W0) ->
    psafe t (Emit [EvCli "g_scan_end" (zn r :: kept)] (Ret tt)) (v, mkV3 (Some st) CNone arr) Q.
  Proof.
    intros Hsv Hk HQ. apply pair_emit. intros g1 a1 a3 tr1 HI1 HI3 Hv1 Hv3.
    exists (upd_view a1 t (with_scan (view a1 t) None)), (upd3 a3 t W0).
    split; [apply (inv_scan_end c g1 a1 tr1 t r kept sv' HI1); [now rewrite Hv1|exact Hk]|]. split.
    { apply (inv3_upd c g1); [exact HI3|intros e [<-|[]]; reflexivity|intros st0 E; discriminate|exact I|intros l E; discriminate]. }
    split; [apply frame_upd_view|]. split; [apply frame_upd3|].
    rewrite view_upd_same, Hv1. unfold view3. rewrite upd3_same. cbn [Conc.safe]. exact HQ.
  Qed.

  Lemma p_scan t r v (Q : unit -> lview * view3T -> Prop) :
    v_rec v = Some r -> v_scan v = None -> HpSafe.no_claim_on v r ->
    (forall seen', incl (v_seen v) seen' -> Q tt (with_seen v seen', W0)) ->
    psafe t (scan c r) (v, W0) Q.
  Proof.
    intros Hr Hns Hno HQ. unfold scan. apply p_scan_begin; [exact Hns|].
    set (v1 := with_scan v (Some (mkScan [] None None))).
    set (Q1 := fun (kept : list Z) (l1 : lview) =>
                 exists sv' seen, incl (v_seen v1) seen /\ incl kept (sc_coll sv') /\ l1 = scan_view v1 sv' seen).
    assert (Hpost : scan_post v1 Q1).
    { intros kept sv' seen Hi Hk. exists sv', seen. auto. }
    apply (pseq t _ _ Q1 Q3scan).
    - destruct (cInplace c) eqn:Ei.
      + apply ppair1.
        * apply safe_inplace_scan; auto.
        * apply rs1_inplace_scan; [exact Ei|left; split; [exact Hr|exact Hno]|intros; apply Q3scan_intro].
      + apply ppair.
        * apply safe_classic_scan_fresh; auto.
        * apply rs_classic_scan. intros; apply Q3scan_intro.
    - intros kept l1' l3' (sv' & seen & Hincl & Hk & ->) (st & arr & ->).
      apply (p_scan_end t r kept sv'); [reflexivity|exact Hk|].
      unfold v1. rewrite scan_done_view by exact Hns. apply HQ. exact Hincl.
  Qed.

  Lemma p_scan_held t r e v rest (Q : unit -> lview * view3T -> Prop) :
    v_rec v = Some r -> v_scan v = None -> e <> [] -> v_cl v = ClAct r e e :: rest ->
    (forall seen', incl (v_seen v) seen' -> Q tt (with_seen (with_cl v rest) seen', W0)) ->
    psafe t (scan c r) (v, W0) Q.
  Proof.
    intros Hr Hns Hne Hcl HQ. unfold scan. apply p_scan_begin; [exact Hns|].
    set (v1 := with_scan v (Some (mkScan [] None None))).
    set (Q1 := fun (kept : list Z) (l1 : lview) =>
                 exists sv' seen, incl (v_seen v1) seen /\ incl kept (sc_coll sv') /\ l1 = with_cl (scan_view v1 sv' seen) rest).
    assert (Hpost : forall kept sv' seen, incl (v_seen v1) seen -> incl kept (sc_coll sv') -> Q1 kept (with_cl (scan_view v1 sv' seen) rest)).
    { intros kept sv' seen Hi Hk. exists sv', seen. auto. }
    apply (pseq t _ _ Q1 Q3scan).
    - destruct (cInplace c) eqn:Ei.
      + destruct e as [|x0 l0]; [contradiction|]. apply ppair1.
        * eapply safe_inplace_scan_held; eauto.
        * apply rs1_inplace_scan; [exact Ei|right; exists (x0 :: l0), rest; exact Hcl|intros; apply Q3scan_intro].
      + apply ppair.
        * eapply safe_classic_scan_held; eauto.
        * apply rs_classic_scan. intros; apply Q3scan_intro.
    - intros kept l1' l3' (sv' & seen & Hincl & Hk & ->) (st & arr & ->).
      apply (p_scan_end t r kept sv'); [reflexivity|exact Hk|].
      unfold v1. rewrite scan_done_view_held by exact Hns. apply HQ. exact Hincl.
  Qed.

  (** ** retire *)
  Definition Qpush (v : lview) (r : nat) (rest : list claim) (o : option bool) (l1 : lview) : Prop :=
    (o <> Some false /\ l1 = with_cl v rest) \/ (o = Some false /\ exists e, e <> [] /\ l1 = with_cl v (ClAct r e e :: rest)).
  Lemma Qpush_post v r rest : push_post v r rest (Qpush v r rest).
  Proof. split; [intros o Ho; left; auto|intros e He; right; split; [reflexivity|exists e; auto]]. Qed.
  Definition Q3same (l3 : view3T) {R} (x : R) (l3' : view3T) : Prop := l3' = l3.

  Lemma p_retire t r p v rest (Q : unit -> lview * view3T -> Prop) :
    v_rec v = Some r -> v_scan v = None -> v_cl v = ClPush r p :: rest -> (forall cl, In cl rest -> crec cl <> r) ->
    (forall seen', incl (v_seen v) seen' -> Q tt (with_seen (with_cl v rest) seen', W0)) ->
    psafe t (retire c r p) (v, W0) Q.
  Proof.
    intros Hr Hns Hcl Hrest HQ. unfold retire. apply (pseq t _ _ (Qpush v r rest) (Q3same W0)).
    - apply ppair; [eapply safe_push1; [exact Hcl|apply Qpush_post]|apply rs_push; [reflexivity|intros o; reflexivity]].
    - intros o l1' l3' H1 ->. assert (HR : Q tt (with_cl v rest, W0)).
      { rewrite <- (with_seen_self (with_cl v rest)). apply HQ. apply incl_refl. }
      destruct H1 as [(Ho & ->)|(-> & e & He & ->)].
      + destruct o as [[|]|]; [exact HR|congruence|exact HR].
      + eapply (p_scan_held t r e _ rest); [exact Hr|exact Hns|exact He|reflexivity|].
        intros seen' Hi. apply HQ. exact Hi.
  Qed.

  (** ** help_scan *)
  Lemma p_move_loop t r h srcl rest (Q : unit -> lview * view3T -> Prop) :
    h <> r -> (forall cl, In cl rest -> crec cl <> r) ->
    forall src v,
      v_rec v = Some r -> v_scan v = None -> v_cl v = ClAct h srcl src :: rest ->
      (forall seen', incl (v_seen v) seen' -> Q tt (with_seen (with_cl v (ClAct h srcl [] :: rest)) seen', W0)) ->
      psafe t (move_loop c r src) (v, W0) Q.
  Proof.
    intros Hhr Hrest. induction src as [|x tl IH]; intros v Hr Hns Hcl HQ; cbn [move_loop].
    - cbn [Conc.safe]. specialize (HQ (v_seen v) (incl_refl _)).
      replace (with_seen (with_cl v (ClAct h srcl [] :: rest)) (v_seen v)) with v in HQ; [exact HQ|].
      destruct v; cbn in *; subst; reflexivity.
    - apply (pseq t _ _ (Qpush v r (ClAct h srcl tl :: rest)) (Q3same W0)).
      + apply ppair; [eapply safe_push2; [exact Hr|exact Hns|exact Hcl|exact Hrest|exact Hhr|apply Qpush_post]
                     |apply rs_push; [reflexivity|intros o; reflexivity]].
      + set (v1 := with_cl v (ClAct h srcl tl :: rest)).
        assert (Hloop : forall seen1, incl (v_seen v) seen1 -> psafe t (move_loop c r tl) (with_seen v1 seen1, W0) Q).
        { intros seen1 Hi1. apply IH; [exact Hr|exact Hns|reflexivity|].
          intros seen' Hi'. change (Q tt (with_seen (with_cl v (ClAct h srcl [] :: rest)) seen', W0)).
          apply HQ. eapply incl_tran; eauto. }
        intros o l1' l3' H1 ->. destruct H1 as [(Ho & ->)|(-> & e & He & ->)].
        * assert (HR : psafe t (move_loop c r tl) (v1, W0) Q).
          { rewrite <- (with_seen_self v1). apply Hloop. apply incl_refl. }
          destruct o as [[|]|]; [exact HR|congruence|exact HR].
        * apply Conc.safe_bind.
          eapply (p_scan_held t r e _ (ClAct h srcl tl :: rest)); [exact Hr|exact Hns|exact He|reflexivity|].
          intros seen1 Hi1. apply Hloop. exact Hi1.
  Qed.

  Ltac simplv := unfold att_view, det_view, slot_view, with_held, with_seen, with_cl, with_x, with_rec, with_clr, fresh_view, base;
    cbn [v_held v_rec v_clr v_scan v_cl v_seen v_op v_val].

  Lemma p_help_loop t r k op val (Q : unit -> lview * view3T -> Prop) :
    forall l seen, incl l seen ->
      (forall seen', incl seen seen' -> Q tt (base (Some r) k seen' op val, W0)) ->
      psafe t (help_loop c r l) (base (Some r) k seen op val, W0) Q.
  Proof.
    induction l as [|h l' IH]; intros seen Hincl HQ; cbn [help_loop].
    - apply HQ. apply incl_refl.
    - assert (Hl' : incl l' seen) by (intros x Hx; apply Hincl; now right).
      assert (Hh : In h seen) by (apply Hincl; now left).
      destruct (Nat.eqb_spec h r) as [->|Hhr]; [now apply IH|].
      eapply (p_acc t _ _ _ Q KLd (obj_free h) true (fun g => VB (r_free (get_rec g h)))); [reflexivity|discriminate|].
      intros g0. cbn [vB]. destruct (r_free (get_rec g0 h)); [now apply IH|].
      eapply (p_acc t _ _ _ Q KLd (obj_owner h) true (fun g => VB (r_owner (get_rec g h)))); [reflexivity|discriminate|].
      intros g1. cbn [vB]. destruct (r_owner (get_rec g1 h)); [now apply IH|].
      pact. unfold a_cas_owner. destruct (r_owner (get_rec g h)) eqn:Eo; cbn [fst snd vB negb].
      { exists a. split; [apply inv_acc; [exact HI|discriminate]|]. split; [apply frame_refl|]. rewrite Hv. now apply IH. }
      assert (Hing : In h (g_list g)) by (apply (i_seen _ _ _ _ HI t h); now rewrite Hv).
      exists (upd_view a t (with_held (view a t) (h :: v_held (view a t)))).
      split.
      { apply inv_acquire_held; [apply inv_acc; [exact HI|discriminate]|apply not_resp_after_acc; discriminate|exact Hing|exact Eo]. }
      split; [apply frame_upd_view|]. rewrite view_upd_same, Hv. simplv.
      clear g a tr HI Hv Eo Hing g0 g1.
      pact. cbn [a_ld_cur fst snd vL]. set (srcl := r_ret (get_rec g h)).
      exists (set_claims a t (ClAct h srcl srcl :: v_cl (view a t)) (set_eff (a_eff a) h (Some srcl))).
      split.
      { apply inv_ld_cur_fresh; [exact HI|rewrite Hv; right; now left|rewrite Hv; intros cl []]. }
      split; [apply frame_set_claims|]. rewrite view_set_claims_same, Hv. simplv.
      clearbody srcl. clear g a tr HI Hv.
      apply Conc.safe_bind.
      eapply (p_move_loop t r h srcl []); [exact Hhr|intros cl []|reflexivity|reflexivity|reflexivity|].
      intros seen1 Hi1. simplv.
      pact. cbn [a_xchg_cur fst snd].
      exists (set_claims a t [] (set_eff (a_eff a) h None)).
      split; [eapply inv_st_cur; [exact HI|rewrite Hv; reflexivity|discriminate|]|].
      { intros (_ & Hhp & _). cbn. lia. }
      split; [apply frame_set_claims|].
      rewrite view_set_claims_same, Hv. simplv. clear g a tr HI Hv.
      pact. cbn [a_st_free fst snd]. exists a.
      split; [apply inv_st_free; apply inv_acc; [exact HI|discriminate]|]. split; [apply frame_refl|]. rewrite Hv. clear g a tr HI Hv.
      pact. cbn [a_st_owner fst snd].
      assert (Hing : In h (g_list g)) by (apply (i_seen _ _ _ _ HI t h); rewrite Hv; cbn; now apply Hi1).
      exists (upd_view a t (with_held (view a t) (remove Nat.eq_dec h (v_held (view a t))))).
      split.
      { apply inv_release_held; [apply inv_acc; [exact HI|discriminate]|rewrite Hv; now left|exact Hing|rewrite Hv; intros cl []]. }
      split; [apply frame_upd_view|]. rewrite view_upd_same, Hv. simplv.
      rewrite remove_single. clear g a tr HI Hv Hing.
      apply Conc.safe_bind. apply p_scan; [reflexivity|reflexivity|intros cl []|].
      intros seen2 Hi2. simplv.
      apply IH.
      + eapply incl_tran; [exact Hl'|]. eapply incl_tran; eauto.
      + intros seen' Hi'. apply HQ. eapply incl_tran; [exact Hi1|]. eapply incl_tran; eauto.
  Qed.

  Lemma p_help_scan t r k seen op val (Q : unit -> lview * view3T -> Prop) :
    (forall seen', Q tt (base (Some r) k seen' op val, W0)) -> psafe t (help_scan c r) (base (Some r) k seen op val, W0) Q.
  Proof.
    intros HQ. unfold help_scan. pact. cbn [a_ld_head fst snd vR].
    exists (upd_view a t (with_seen (view a t) (g_list g))).
    split; [apply inv_set_seen; apply inv_acc; [exact HI|discriminate]|]. split; [apply frame_upd_view|].
    rewrite view_upd_same, Hv. simplv.
    apply (p_help_loop t r k op val Q (g_list g) (g_list g)); [apply incl_refl|]. intros seen' _. apply HQ.
  Qed.

  (** ** free_thread_data *)
  Lemma p_free_thread_data t r seen val (Q : unit -> lview * view3T -> Prop) :
    (forall seen', Q tt (base None 0 seen' (Some ev_detach) None, W0)) ->
    psafe t (free_thread_data c r true) (base (Some r) 0 seen (Some ev_detach) val, W0) Q.
  Proof.
    intros HQ. unfold free_thread_data.
    apply (pseq t _ _ (fun _ l1 => exists val', l1 = base (Some r) (cH c) seen (Some ev_detach) val') (Q3same W0)).
    { apply ppair.
      - apply (safe_clear_loop c t r seen); [|lia]. intros val1. exists val1. reflexivity.
      - apply rs_clear_loop. reflexivity. }
    intros _ l1' l3' (val1 & ->) ->.
    apply Conc.safe_bind. apply p_scan; [reflexivity|reflexivity|intros cl []|].
    intros seen1 _. simplv.
    apply Conc.safe_bind. apply (p_help_scan t r (cH c) seen1). intros seen2.
    (* g_det *)
    pemit. exists (upd_view a t (det_view (view a t) r)).
    split; [apply inv_emit_det; [exact HI|now rewrite Hv|rewrite Hv; cbn; lia|now rewrite Hv]|]. split; [apply frame_upd_view|].
    rewrite view_upd_same, Hv. simplv. clear g a tr HI Hv.
    (* owner_rec_.store( nullptr ) *)
    pact. cbn [a_st_owner fst snd].
    assert (Hing : In r (g_list g)) by (apply (i_seen _ _ _ _ HI t r); rewrite Hv; cbn; now left).
    exists (upd_view a t (with_held (view a t) (remove Nat.eq_dec r (v_held (view a t))))).
    split.
    { apply inv_release_held; [apply inv_acc; [exact HI|discriminate]|rewrite Hv; now left|exact Hing|rewrite Hv; intros cl []]. }
    split; [apply frame_upd_view|]. rewrite view_upd_same, Hv. simplv.
    rewrite remove_single. apply HQ.
  Qed.

  (** ** client operations, threads *)
  Definition op_post13 (x : option local) (l : lview * view3T) : Prop := op_post x (fst l) /\ snd l = W0.

  Ltac presp := apply p_emit_resp; [reflexivity|reflexivity|apply idle_base|reflexivity|].
  Ltac pemit1 := apply p_emit1; [reflexivity|reflexivity|reflexivity|].
  Ltac popn := apply p_emit_open; [reflexivity|reflexivity|reflexivity|reflexivity|reflexivity|].

  Lemma p_run_op t lo o seen val : psafe t (run_op c lo o) (base (l_rec lo) 0 seen None val, W0) op_post13.
  Proof.
    destruct (leaf_op o) eqn:Eleaf.
    { eapply Conc.safe_weaken; [|apply (ppair t _ op_post (op_post3)); [apply safe_run_op|apply rs_run_op_leaf; exact Eleaf]].
      intros x [l1 l3] (H1 & H3). split; [exact H1|exact H3]. }
    assert (Hskip : psafe t (Emit [cli "skip" []] (Ret (Some lo))) (base (l_rec lo) 0 seen None val, W0) op_post13).
    { presp. split; [cbn; eexists _, _; reflexivity|reflexivity]. }
    destruct o; try discriminate; cbn [run_op].
    - (* detach *) destruct (l_rec lo) as [r|] eqn:Er; [|exact Hskip]. cbn [op_valid negb].
      popn. apply Conc.safe_bind. apply p_free_thread_data. intros seen'. presp.
      split; [cbn; eexists _, _; reflexivity|reflexivity].
    - (* publish *) destruct (l_rec lo) as [r|] eqn:Er; [|exact Hskip].
      destruct (op_valid c (OPublish k o)) eqn:Ev; cbn [negb]; [|exact Hskip].
      popn. pact. cbn [a_xchg_src fst snd vZ].
      exists (upd_view a t (with_x (view a t) None (v_val (view a t)))).
      split; [apply (inv_xchg_src c g a tr t k o HI); rewrite Hv; [reflexivity|split; reflexivity]|].
      split; [apply frame_upd_view|]. rewrite view_upd_same, Hv. simplv.
      set (old := g_srcs g k). clearbody old. clear g a tr HI Hv.
      destruct (Z.eqb old 0); [split; [cbn; rewrite Er; eexists _, _; reflexivity|reflexivity]|].
      pemit. exists (set_claims a t (ClPush r old :: v_cl (view a t)) (set_eff (a_eff a) r (Some (r_ret (get_rec g r) ++ [old])))).
      split; [apply inv_emit_retire; [exact HI|now rewrite Hv|now rewrite Hv|rewrite Hv; intros cl []]|]. split; [apply frame_set_claims|].
      rewrite view_set_claims_same, Hv. simplv.
      apply Conc.safe_bind. eapply p_retire; [reflexivity|reflexivity|reflexivity|intros cl []|].
      intros seen' _. simplv. presp. split; [cbn; rewrite Er; eexists _, _; reflexivity|reflexivity].
    - (* retire *) destruct (l_rec lo) as [r|] eqn:Er; [|exact Hskip]. cbn [op_valid negb].
      destruct ((o <=? 0)%Z || (ARENA <=? o)%Z)%bool; [exact Hskip|].
      pemit. exists (set_claims a t (ClPush r o :: v_cl (view a t)) (set_eff (a_eff a) r (Some (r_ret (get_rec g r) ++ [o])))).
      split; [apply inv_emit_retire; [exact HI|now rewrite Hv|now rewrite Hv|rewrite Hv; intros cl []]|]. split; [apply frame_set_claims|].
      rewrite view_set_claims_same, Hv. simplv.
      apply Conc.safe_bind. eapply p_retire; [reflexivity|reflexivity|reflexivity|intros cl []|].
      intros seen' _. simplv. presp. split; [cbn; rewrite Er; eexists _, _; reflexivity|reflexivity].
    - (* scan *) destruct (l_rec lo) as [r|] eqn:Er; [|exact Hskip]. cbn [op_valid negb].
      pemit1. apply Conc.safe_bind. apply p_scan; [reflexivity|reflexivity|intros cl []|].
      intros seen' _. simplv. presp. split; [cbn; rewrite Er; eexists _, _; reflexivity|reflexivity].
  Qed.

  Lemma p_run_ops t os : forall lo seen val,
    psafe t (run_ops c lo os) (base (l_rec lo) 0 seen None val, W0) (@Conc.QTrue (lview * view3T)).
  Proof.
    induction os as [|o rest IH]; intros lo seen val; cbn [run_ops]; [exact I|].
    apply Conc.safe_bind. eapply Conc.safe_weaken; [|apply p_run_op].
    intros [lo'|] [l1 l3] (Hp & H3); cbn in Hp, H3; [|exact I]. destruct Hp as (seen' & val' & ->). subst l3. apply IH.
  Qed.

  Lemma p_thread t os : psafe t (thread_prog c os) (v0, W0) (@Conc.QTrue (lview * view3T)).
  Proof.
    unfold thread_prog. pact. cbn [a_begin fst snd].
    exists (upd_view a t (with_x (view a t) None (v_val (view a t)))). split; [|split; [apply frame_upd_view|]].
    - apply inv_emit_close; [exact HI|intros e [<-|[]]; reflexivity|intros e [<-|[]]; reflexivity|].
      intros es' e He _. rewrite Hv. split; reflexivity.
    - rewrite view_upd_same, Hv. apply (p_run_ops t os local0 [] None).
  Qed.

  (** ** every reachable configuration *)
  Lemma init_ok3 ths : Conc.cfg_ok view13 Inv13 (init_cfg c ths).
  Proof.
    exists (aux0, fun _ => W0). split; [split; [apply inv_init|apply inv3_init]|].
    intros t p Hp. cbn [init_cfg Conc.threads] in Hp. rewrite nth_error_map in Hp.
    destruct (nth_error ths t); inversion Hp; subst. apply p_thread.
  Qed.

  Lemma reach_inv3 ths cf : Conc.reach (init_cfg c ths) cf ->
    exists a1 a3, Inv c (Conc.shared cf) a1 (Conc.trace cf) /\ Inv3 c (Conc.shared cf) a3 (Conc.trace cf).
  Proof.
    intros H. destruct (Conc.reach_Inv (init_ok3 ths) H) as ([a1 a3] & H1 & H3). exists a1, a3. split; assumption.
  Qed.
End Glue.
