(** * DhpLiveGxN: C02, second sentence for DHP -- the allocator discipline [cell_disc].  Part X-N: the invariant [InvC3]
      for hp_allocator::alloc, thread_hp_storage::{extend, alloc, free}, alloc_thread_data, free_thread_data. *)
From Coq Require Import ZArith NArith List String Bool Lia PeanoNat.
From LV Require Import Base.Conc Base.Events Model.DhpLang Model.Dhp Proofs.DhpBase Proofs.DhpHist
  Proofs.DhpLangProofs Proofs.DhpInvA Proofs.DhpStepsA Proofs.DhpQuietA Proofs.DhpLiveA Proofs.DhpLiveB
  Proofs.DhpLiveGcRule Proofs.DhpLiveGcA Proofs.DhpLiveGcB Proofs.DhpLiveGcC Proofs.DhpLiveGcD Proofs.DhpLiveGxA Proofs.DhpLiveGxE Proofs.DhpLiveGxF
  Proofs.DhpLiveGxG Proofs.DhpLiveGxH Proofs.DhpLiveGxI Proofs.DhpLiveGxJ Proofs.DhpLiveGxK Proofs.DhpLiveGxL Proofs.DhpLiveGxM.
Import ListNotations.
Local Open Scope string_scope.
Local Open Scope list_scope.

Definition FS3 (l l' : VG * XC) : Prop := w_op (fst l') = w_op (fst l) /\ w_tl (fst l') = w_tl (fst l) /\ w_mp (fst l') = w_mp (fst l).
Lemma FS3_refl l : FS3 l l. Proof. unfold FS3. auto. Qed.
Lemma FS3_trans l1 l2 l3 : FS3 l1 l2 -> FS3 l2 l3 -> FS3 l1 l3.
Proof. unfold FS3. intros (A1&A2&A3) (B1&B2&B3). repeat split; congruence. Qed.
Lemma RC_FS3 l l' : RC l l' -> FS3 l l'. Proof. intros (A1&A2&A3&_). unfold FS3. auto. Qed.
Lemma fst_FS3 l l' : fst l' = fst l -> FS3 l l'. Proof. intros E. unfold FS3. rewrite E. auto. Qed.

Section Progs.
  Variable c : cfg.
  Notation rdc := (rdsafe (InvAGB c) viewC3 (InvC3 c)).

  Definition chg (l : VG * XC) ini pb pop fr : XC := setCh (snd l) ini pb pop fr.

  Lemma S_link_guardsC t b : forall n i l, xc_pb (snd l) = Some (b, i, false) -> i + n = c_GB c - 1 ->
    rdc t (link_guards b i n) l
      (fun o l' => match o with
                   | Some _ => FS3 l l' /\ w_pv (fst l') = w_pv (fst l) /\
                               snd l' = setCh (snd l) (xc_init (snd l)) (Some (b, i + n, false)) (xc_pop (snd l)) (xc_freed (snd l))
                   | None => True end).
  Proof.
    induction n as [|n IH]; intros i l Hp Hn; cbn [link_guards].
    { cbn. split; [apply FS3_refl|]. split; [reflexivity|]. rewrite Nat.add_0_r. destruct (snd l); cbn in *. now rewrite Hp. }
    apply rdc_neu_seq; [apply NeuC_act; apply c_st_slot| |intros; exact I]. intros _ l1 R1. pose proof R1 as (A1 & A2 & A3 & A4 & A5).
    unfold xbind at 1. unfold loc at 1. cbn [dbind].
    apply (rM_snext c t b i (Some (GE b (Datatypes.S i))) i (Datatypes.S i)); [rewrite A5; exact Hp|left; repeat split; lia|].
    intros l2 E2 X2. eapply rdsafe_weaken; [|apply (IH (Datatypes.S i) l2)]; [|rewrite X2; reflexivity|lia].
    intros [?u|] l3 K3; [|exact I]. destruct K3 as (F3 & P3 & X3). split; [eapply FS3_trans; [apply (RC_FS3 _ _ R1)|eapply FS3_trans; [apply (fst_FS3 _ _ E2)|exact F3]]|].
    split; [rewrite P3, E2; exact A4|]. rewrite X3, X2, A5. unfold setCh. cbn. replace (Datatypes.S (i + n)) with (i + Datatypes.S n) by lia. reflexivity.
  Qed.

  Definition QallocC (l : VG * XC) : option nat -> VG * XC -> Prop := fun o l' =>
    match o with
    | Some b => FS3 l l' /\ snd l' = setCh (snd l) (xc_init (snd l)) (Some (b, c_GB c, false)) (xc_pop (snd l)) (xc_freed (snd l))
    | None => True
    end.

  Lemma S_hp_allocC t l : rdc t (hp_alloc c) l (QallocC l).
  Proof.
    unfold hp_alloc. apply rdc_neu_seq; [apply C_fl_get| |intros; exact I]. intros o l1 R1. pose proof R1 as (A1 & A2 & A3 & A4 & A5).
    assert (Hrest : forall b l2, FS3 l l2 -> snd l2 = setCh (snd l) (xc_init (snd l)) (Some (b, 0, false)) (xc_pop (snd l)) (xc_freed (snd l)) ->
              rdc t (link_guards b 0 (c_GB c - 1) ;;; loc (fun g => (snext_set g (GE b (c_GB c - 1)) None, tt)) ;;;
                     act (a_st_slot (GE b (c_GB c - 1)) 0) ;;; ret b) l2 (QallocC l)).
    { intros b l2 F2 X2. apply rdc_xbind. eapply rdsafe_weaken; [|apply (S_link_guardsC t b (c_GB c - 1) 0 l2)]; [|rewrite X2; reflexivity|lia].
      intros [?u|] l3 K3; [|exact I]. destruct K3 as (F3 & P3 & X3). cbn [plus] in X3.
      unfold xbind at 1. unfold loc at 1. cbn [dbind].
      apply (rM_snext c t b (c_GB c - 1) None (c_GB c - 1) (c_GB c)); [rewrite X3; reflexivity|right; auto|]. intros l4 E4 X4.
      apply rdc_neu_seq; [apply NeuC_act; apply c_st_slot| |intros; exact I]. intros _ l5 R5. cbn [rdsafe ret QallocC].
      split; [eapply FS3_trans; [exact F2|eapply FS3_trans; [exact F3|eapply FS3_trans; [apply (fst_FS3 _ _ E4)|apply (RC_FS3 _ _ R5)]]]|].
      destruct R5 as (_ & _ & _ & _ & E5). rewrite E5, X4, X3, X2. unfold setCh. cbn. reflexivity. }
    apply rdc_xbind. destruct o as [b|].
    - unfold xbind at 1. unfold emit at 1. cbn [dbind]. apply (rM_pv c t _ b); [apply gcls_alloc_hp|intros h0; apply hstep_alloc_al|].
      intros l2 P1 P2 P3 P4 X2. cbn [rdsafe ret]. apply Hrest; [unfold FS3; repeat split; congruence|rewrite X2, A5; unfold setCh; cbn; reflexivity].
    - unfold xbind at 1. unfold loc at 1. cbn [dbind]. apply rM_newblock. intros nb.
      unfold xbind at 1. unfold emit at 1. cbn [dbind]. apply (rM_pv c t _ nb); [apply gcls_new_hp|intros h0; apply hstep_new_al|].
      intros l2 P1 P2 P3 P4 X2.
      unfold xbind at 1. unfold act at 1. cbn [dbind]. apply rdc_act_q; [apply c_st_flnext|]. intros _ l3 R3. cbn [rdsafe ret].
      pose proof R3 as (B1 & B2 & B3 & B4 & B5). apply Hrest; [unfold FS3; repeat split; congruence|rewrite B5, X2, A5; unfold setCh; cbn; reflexivity].
  Qed.

  Lemma S_hp_extendC t r l : w_tl (fst l) = Some r -> xc_pop (snd l) = None ->
    rdc t (hp_extend c r) l
      (fun o l' => match o with Some _ => FS3 l l' /\ snd l' = setCh (snd l) (xc_init (snd l)) None (xc_pop (snd l)) (xc_freed (snd l)) | None => True end).
  Proof.
    intros Htl Hpop. unfold hp_extend. apply rdc_xbind. eapply rdsafe_weaken; [|apply (S_hp_allocC t l)].
    intros [b|] l1 K1; [|exact I]. destruct K1 as (F1 & X1).
    apply rdc_neu_seq; [apply NeuC_act; apply c_ld_ext| |intros; exact I]. intros e l2 R2. pose proof R2 as (A1 & A2 & A3 & A4 & A5).
    apply rdc_neu_seq; [apply NeuC_loc; intros g; apply piX_upd_gb_keep; reflexivity| |intros; exact I]. intros _ l3 R3. pose proof R3 as (B1 & B2 & B3 & B4 & B5).
    unfold xbind at 1. unfold act at 1. cbn [dbind].
    apply (rM_link c t r b (c_GB c)); [rewrite B5, A5, X1; reflexivity|destruct F1 as (_ & E & _); congruence|]. intros l4 P1 P2 P3 P4 X4.
    unfold loc. apply (rM_fhead c t r b); [rewrite X4; reflexivity|rewrite X4, B5, A5, X1; cbn; exact Hpop|destruct F1 as (_ & E & _); congruence|].
    intros l5 E5 X5. cbn [rdsafe]. split.
    - eapply FS3_trans; [exact F1|]. eapply FS3_trans; [apply (RC_FS3 _ _ R2)|]. eapply FS3_trans; [apply (RC_FS3 _ _ R3)|].
      eapply FS3_trans; [|apply (fst_FS3 _ _ E5)]. unfold FS3. auto.
    - rewrite X5, X4, B5, A5, X1. unfold setCh. cbn. reflexivity.
  Qed.

  Definition QgallocC (l : VG * XC) : option (option gref) -> VG * XC -> Prop := fun o l' =>
    match o with
    | Some os => FS3 l l' /\ snd l' = setCh (snd l) (xc_init (snd l)) None os (xc_freed (snd l))
    | None => True
    end.

  Lemma S_hp_gallocC t r j l : w_tl (fst l) = Some r -> w_op (fst l) = [3%Z; zn j] -> xc_pop (snd l) = None -> xc_pb (snd l) = None ->
    rdc t (hp_galloc c r) l (QgallocC l).
  Proof.
    intros Htl Hop Hpop Hpb. unfold hp_galloc.
    apply rdc_neu_seq; [apply NeuC_loc; intros g; apply piX_refl| |intros; exact I]. intros fh l1 R1. pose proof R1 as (A1 & A2 & A3 & A4 & A5).
    apply rdc_xbind.
    assert (Hx : rdc t (match fh with None => hp_extend c r | Some _ => ret tt end) l1
                   (fun o l' => match o with Some _ => FS3 l l' /\ snd l' = setCh (snd l) (xc_init (snd l)) None None (xc_freed (snd l)) | None => True end)).
    { destruct fh.
      - cbn. split; [apply (RC_FS3 _ _ R1)|]. rewrite A5. destruct (snd l); cbn in *. now rewrite Hpop, Hpb.
      - eapply rdsafe_weaken; [|apply (S_hp_extendC t r l1)]; [|congruence|rewrite A5; exact Hpop].
        intros [?u|] l2 K2; [|exact I]. destruct K2 as (F2 & X2). split; [eapply FS3_trans; [apply (RC_FS3 _ _ R1)|exact F2]|].
        rewrite X2, A5. cbn. now rewrite Hpop. }
    eapply rdsafe_weaken; [|exact Hx]. intros [?u|] l2 K2; [|exact I]. destruct K2 as (F2 & X2).
    unfold loc. apply (rM_pop c t r j); [destruct F2 as (_ & E & _); congruence|destruct F2 as (E & _); congruence| |].
    - intros l3 E3 X3. cbn [rdsafe QgallocC]. split; [eapply FS3_trans; [exact F2|apply (fst_FS3 _ _ E3)]|]. rewrite X3, X2. unfold setCh. cbn. reflexivity.
    - intros s l3 E3 X3. cbn [rdsafe QgallocC]. split; [eapply FS3_trans; [exact F2|apply (fst_FS3 _ _ E3)]|]. rewrite X3, X2. unfold setCh. cbn. reflexivity.
  Qed.

  Lemma S_hp_gfreeC t r j s l : w_tl (fst l) = Some r -> w_op (fst l) = [4%Z; zn j] -> gfind (w_mp (fst l)) j = Some s ->
    xc_freed (snd l) = false -> xc_pop (snd l) = None ->
    rdc t (hp_gfree r s) l
      (fun o l' => match o with Some _ => FS3 l l' /\ snd l' = setCh (snd l) (xc_init (snd l)) (xc_pb (snd l)) (xc_pop (snd l)) true | None => True end).
  Proof.
    intros Htl Hop Hg Hfr Hpop. unfold hp_gfree. apply rdc_neu_seq; [apply NeuC_act; apply c_st_slot| |intros; exact I]. intros _ l1 R1.
    pose proof R1 as (A1 & A2 & A3 & A4 & A5). unfold loc.
    apply (rM_push c t r j s); [congruence|congruence|rewrite A3; exact Hg|rewrite A5; exact Hfr|rewrite A5; exact Hpop|].
    intros l2 E2 X2. cbn [rdsafe]. split; [eapply FS3_trans; [apply (RC_FS3 _ _ R1)|apply (fst_FS3 _ _ E2)]|]. rewrite X2, A5. reflexivity.
  Qed.

  (** alloc_thread_data *)
  Definition QatdC (l : VG * XC) : option nat -> VG * XC -> Prop := fun o l' =>
    match o with
    | Some r => FS3 l l' /\ In r (xc_hold (snd l')) /\ xc_new (snd l') = None /\ xc_init (snd l') = Some r /\
                xc_pb (snd l') = xc_pb (snd l) /\ xc_pop (snd l') = xc_pop (snd l) /\ xc_freed (snd l') = xc_freed (snd l)
    | None => True
    end.

  Lemma RK_FS3 l l' : RK l l' -> FS3 l l'. Proof. intros (A1&A2&A3&_). unfold FS3. auto. Qed.

  Lemma S_alloc_thread_dataC t l : w_tl (fst l) = None -> xc_new (snd l) = None -> xc_init (snd l) = None ->
    rdc t (alloc_thread_data c (Datatypes.S t)) l (QatdC l).
  Proof.
    intros Htl Hn Hi. unfold alloc_thread_data.
    unfold xbind at 1. unfold act at 1. cbn [dbind]. apply rK_ld_tlist. intros h l1 R1 H1 N1 C1.
    assert (I1 : xc_init (snd l1) = None) by (destruct R1 as (_ & _ & _ & _ & (E & _)); congruence).
    apply rdc_xbind. eapply rdsafe_weaken; [|apply (S_reuse_recs c t (c_spin c) h l1 C1 I1)].
    intros [oh|] l2 K2; [|exact I]. destruct K2 as (R2 & N2 & H2 & O2).
    assert (R02 : RK l l2) by (eapply RK_trans; eauto).
    assert (Hfin : forall r l3, RK l l3 -> In r (xc_hold (snd l3)) -> xc_new (snd l3) = None ->
              rdc t (loc (hp_init c r) ;;; rt_init c r ;;; ret r) l3 (QatdC l)).
    { intros r l3 R3 Hr N3. pose proof R3 as (B1 & B2 & B3 & B4 & (S1 & S2 & S3 & S4)).
      unfold xbind at 1. unfold loc at 1. cbn [dbind]. apply (rL_hp_init c t r); [congruence|exact Hr|]. intros l4 E4 X4.
      apply rdc_neu_seq; [apply C_rt_init| |intros; exact I]. intros _ l5 R5. cbn [rdsafe ret QatdC]. pose proof R5 as (D1 & D2 & D3 & D4 & D5).
      split; [eapply FS3_trans; [apply (RK_FS3 _ _ R3)|eapply FS3_trans; [apply (fst_FS3 _ _ E4)|apply (RC_FS3 _ _ R5)]]|].
      rewrite D5, X4. cbn. repeat split; auto; congruence. }
    apply rdc_xbind. destruct oh as [r|].
    - cbn [rdsafe ret]. apply Hfin; [exact R02|exact O2|congruence].
    - unfold xbind at 1. unfold loc at 1. cbn [dbind]. apply rK_new_rec. intros r l3 R3 H3 N3 C3.
      apply rdc_neu_seq; [apply NeuC_act; apply c_st_ext| |intros; exact I]. intros _ l4 R4. pose proof R4 as (D1 & D2 & D3 & D4 & D5).
      unfold xbind at 1. unfold act at 1. cbn [dbind].
      apply (rK_st_tid_new c t r); [rewrite D5; exact N3|rewrite D5; destruct R3 as (_ & _ & _ & _ & (E & _)); destruct R02 as (_ & _ & _ & _ & (E' & _)); congruence|].
      intros l5 R5 H5 N5 C5. unfold xbind at 1. unfold act at 1. cbn [dbind]. apply rK_ld_tlist. intros old l6 R6 H6 N6 C6.
      apply rdc_xbind. eapply rdsafe_weaken; [|apply (S_push_rec c t r (c_spin c) old l6)]; [|rewrite N6, N5, D5; exact N3|exact C6].
      intros [?u|] l7 K7; [|exact I]. destruct K7 as (R7 & H7 & N7). cbn [rdsafe ret]. apply Hfin; [|rewrite H7, H6, H5; now left|exact N7].
      eapply RK_trans; [exact R02|]. eapply RK_trans; [exact R3|]. eapply RK_trans; [apply (RC_RK _ _ R4)|]. eapply RK_trans; [exact R5|]. eapply RK_trans; eauto.
  Qed.

  (** free_thread_data (detach) *)
  Lemma S_free_thread_dataC t r l : w_tl (fst l) = Some r -> In r (xc_hold (snd l)) -> xc_init (snd l) = None -> xc_pb (snd l) = None -> xc_pop (snd l) = None ->
    rdc t (free_thread_data c r (Datatypes.S t) true [ev_relall; ev_det r]) l
      (fun o l' => match o with
                   | Some _ => w_op (fst l') = w_op (fst l) /\ w_tl (fst l') = None /\ w_mp (fst l') = [] /\ xc_new (snd l') = xc_new (snd l) /\ sameCh (snd l) (snd l')
                   | None => True end).
  Proof.
    intros Htl Hin Hi Hpb Hpop. unfold free_thread_data, hp_clear.
    apply rdc_xbind. apply rdc_neu_seq; [apply C_clear_slots| |intros; exact I]. intros _ l1 R1. pose proof R1 as (A1 & A2 & A3 & A4 & A5).
    apply rdc_neu_seq; [apply NeuC_act; apply c_ld_ext| |intros; exact I]. intros p l2 R2. pose proof R2 as (B1 & B2 & B3 & B4 & B5).
    unfold xbind at 1. unfold emit at 1. cbn [dbind].
    apply (rL_det c t r); [congruence|rewrite B5, A5; exact Hpb|rewrite B5, A5; exact Hpop|]. intros l3 P1 P2 P3 P4 X3.
    assert (Hn : forall {X} (pp : P X), NeuC c pp -> forall l4, w_op (fst l4) = w_op (fst l) -> w_tl (fst l4) = None -> w_mp (fst l4) = [] -> snd l4 = snd l ->
              forall Y (q : X -> P Y) Q, (forall x l5, w_op (fst l5) = w_op (fst l) -> w_tl (fst l5) = None -> w_mp (fst l5) = [] -> snd l5 = snd l -> rdc t (q x) l5 Q) ->
              (forall l5, Q None l5) -> rdc t (xbind pp q) l4 Q).
    { intros X pp Hp l4 O4 T4 M4 S4 Y q Q Hq HN. apply rdc_neu_seq; auto. intros x l5 (E1 & E2 & E3 & E4 & E5). apply Hq; congruence. }
    assert (S3 : snd l3 = snd l) by congruence. assert (O3 : w_op (fst l3) = w_op (fst l)) by congruence.
    apply (Hn _ _ (C_free_gblocks c (c_spin c) p) l3 O3 P2 P3 S3); [|intros; exact I]. intros _ l4 O4 T4 M4 S4.
    unfold act at 1. apply rdc_act_q; [apply c_st_ext|]. intros x5 l5 (E1 & E2 & E3 & E4 & E5). cbn [rdsafe].
    apply (Hn _ _ (C_scan c r) l5); [congruence|congruence|congruence|congruence| |intros; exact I]. intros _ l6 O6 T6 M6 S6.
    apply rdc_xbind. eapply rdsafe_weaken; [|apply (S_help_scan c t r l6)]; [|rewrite S6; exact Hi].
    intros [?u|] l7 K7; [|exact I]. destruct K7 as (R7 & N7 & M7). pose proof R7 as (F1 & F2 & F3 & F4 & F5).
    assert (Hn2 : forall {X} (pp : P X), NeuC c pp -> forall l8, RK l7 l8 -> snd l8 = snd l7 ->
              forall Y (q : X -> P Y) Q, (forall x l9, RK l7 l9 -> snd l9 = snd l7 -> rdc t (q x) l9 Q) -> (forall l9, Q None l9) -> rdc t (xbind pp q) l8 Q).
    { intros X pp Hp l8 R8 E8 Y q Q Hq HN. apply rdc_neu_seq; auto. intros x l9 R9. apply Hq; [eapply RK_trans; [exact R8|now apply RC_RK]|].
      destruct R9 as (_ & _ & _ & _ & E). congruence. }
    apply (Hn2 _ (loc (fun g0 => (g0, rt_empty g0 r)))); [apply NeuC_loc; intros; apply piX_refl|apply RK_refl|reflexivity| |intros; exact I]. intros e l8 R8 S8.
    apply Hn2; [|exact R8|exact S8| |intros; exact I].
    - destruct e.
      + apply NeuC_xbind; [apply C_rt_fini|intros _; apply NeuC_act; apply c_st_free].
      + apply NeuC_xbind; [|intros fb; apply C_ftd_go]. apply NeuC_loc. intros g0.
        destruct (r_cb (grec g0 r)) as [cb|]; cbn [fst]; [|apply piX_refl].
        destruct (rb_next (grb g0 cb)); cbn [fst]; [|apply piX_refl].
        destruct (c_oldtail c); [apply piX_upd_rb|]. eapply piX_trans; [apply piX_upd_rb|apply piX_upd_rec_keep; intros; cbn; auto].
    - intros _ l9 R9 S9. unfold act. apply (rK_release c t r); [rewrite S9; apply M7; rewrite S6; exact Hin|]. intros l10 R10 H10 N10 C10. cbn [rdsafe].
      assert (R710 : RK l7 l10) by (eapply RK_trans; eauto). destruct R710 as (G1 & G2 & G3 & G4 & G5).
      split; [congruence|]. split; [congruence|]. split; [congruence|]. split; [rewrite N10, S9, N7, S6; reflexivity|].
      destruct F5 as (H1 & H2 & H3 & H4). destruct G5 as (I1 & I2 & I3 & I4). unfold sameCh. rewrite <- S6. repeat split; congruence.
  Qed.
End Progs.
