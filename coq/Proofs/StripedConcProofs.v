(** * StripedSet with the lock-striping policy: invariant for every schedule.

    Auxiliary state: per thread the status of its current operation (invoked / linearized with result r), the
    set of cell locks it holds, and a snapshot of what those locks protect (the bucket mask and the buckets of
    its stripes); globally the trace annotated with linearization points.
    The invariant ties the snapshots to the shared state, so "no other thread's step changes what I hold the
    lock for" is part of what [Conc.reach_inv] establishes. *)
From Coq Require Import ZArith List Bool Lia PeanoNat String.
From LV Require Import Base.Conc Base.Events Base.Lin Spec.Specs Proofs.LinProofs
     Model.StripingPolicy Model.StripedConc Proofs.StripedConcSpec Proofs.StripedConcAbs.
Import ListNotations.
Local Open Scope nat_scope.

(** ** the holder of a cell lock, read off the trace *)
Definition hstep (h : nat -> option nat) (te : nat * ev) : nat -> option nat :=
  match te with
  | (t, EvAcc KXchg [0%Z; zi] _) =>
      let i := Z.to_nat zi in match h i with None => upd1 h i (Some t) | Some _ => h end
  | (t, EvAcc KSt [0%Z; zi] _) => upd1 h (Z.to_nat zi) None
  | _ => h
  end.
Definition tholder (tr : list (nat * ev)) : nat -> option nat := fold_left hstep tr (fun _ => None).

Lemma tholder_snoc tr t e : tholder (tr ++ Conc.tag t [e]) = hstep (tholder tr) (t, e).
Proof. unfold tholder. rewrite fold_left_app. reflexivity. Qed.

Lemma upd1_same {A} (f : nat -> A) i x : upd1 f i x i = x.
Proof. unfold upd1. now rewrite Nat.eqb_refl. Qed.
Lemma upd1_other {A} (f : nat -> A) i x j : j <> i -> upd1 f i x j = f j.
Proof. unfold upd1. intros H. destruct (Nat.eqb_spec j i); congruence. Qed.

Section Striping.
  Variable cf : conf.
  Hypothesis Hpol : c_pol cf = Striping.
  Hypothesis Hnl : 0 < c_nl cf.
  Notation nl := (c_nl cf).
  Notation hm := (c_hm cf).

  (** *** auxiliary state *)
  Inductive lstate :=
  | LNone
  | LCell (i : nat)                 (* one cell lock *)
  | LLocking (j : nat)              (* lock_all in progress: cells [0, j) *)
  | LMove (pend : list item)        (* all cells; the new table is installed, [pend] still to be moved *)
  | LUnlocking (j : nat).           (* unlock_all in progress: cells [j, nl) *)

  Definition holds (l : lstate) (i : nat) : Prop :=
    match l with
    | LNone => False
    | LCell c => i = c /\ c < nl
    | LLocking j => i < j /\ j <= nl
    | LMove _ => i < nl
    | LUnlocking j => j <= i < nl
    end.
  Definition pend_of (l : lstate) : list item := match l with LMove p => p | _ => [] end.

  Record tview := mkTV {
    v_op : status ISet;             (* Idle / Pending o / Linearized o r *)
    v_lk : lstate;
    v_mask : nat;                   (* the mask, as long as a lock is held *)
    v_reg : nat -> list item        (* the buckets of the stripes held *)
  }.
  Record Aux := mkAux { a_view : nat -> tview; a_atr : list (aev ISet) }.
  Definition view (a : Aux) (t : nat) : tview := a_view a t.
  Definition lk (a : Aux) (t : nat) : lstate := v_lk (a_view a t).

  Record Inv (g : G) (a : Aux) (tr : list (nat * ev)) : Prop := mkInv {
    i_spin : forall i, i < nl -> (spins g i = true <-> exists t, holds (lk a t) i);
    i_excl : forall t t' i, holds (lk a t) i -> holds (lk a t') i -> t = t';
    i_hold : forall i t, tholder tr i = Some t <-> holds (lk a t) i;
    i_mask : forall t i, holds (lk a t) i -> mask g = v_mask (a_view a t);
    i_reg : forall t b, holds (lk a t) (b mod nl) -> get_b (buckets g) b = v_reg (a_view a t) b;
    i_tab : table_ok hm (mask g) (buckets g);
    i_div : exists e, 0 < e /\ S (mask g) = nl * e;
    i_abs : exists s st, lp_run lp_init (a_atr a) = Some (s, st) /\ erase (a_atr a) = hist_of tr /\
              (forall t, st t = v_op (a_view a t)) /\
              absrel s (buckets g) (fun x => exists t, In x (pend_of (lk a t)))
  }.

  Arguments i_spin {g a tr}. Arguments i_excl {g a tr}. Arguments i_hold {g a tr}. Arguments i_mask {g a tr}.
  Arguments i_reg {g a tr}. Arguments i_tab {g a tr}. Arguments i_div {g a tr}. Arguments i_abs {g a tr}.

  Lemma holds_lt l i : holds l i -> i < nl.
  Proof. destruct l; cbn; lia. Qed.

  Definition setv (a : Aux) (t : nat) (v : tview) : Aux :=
    mkAux (fun x => if Nat.eqb x t then v else a_view a x) (a_atr a).
  Definition seta (a : Aux) (atr : list (aev ISet)) : Aux := mkAux (a_view a) atr.

  Lemma setv_same a t v : a_view (setv a t v) t = v.
  Proof. cbn. now rewrite Nat.eqb_refl. Qed.
  Lemma setv_other a t v t' : t' <> t -> a_view (setv a t v) t' = a_view a t'.
  Proof. cbn. intros H. destruct (Nat.eqb_spec t' t); congruence. Qed.
  Lemma lk_setv_same a t v : lk (setv a t v) t = v_lk v.
  Proof. unfold lk. now rewrite setv_same. Qed.
  Lemma lk_setv_other a t v t' : t' <> t -> lk (setv a t v) t' = lk a t'.
  Proof. unfold lk. intros H. now rewrite setv_other. Qed.
  Lemma frame_setv a t v : Conc.frame view t a (setv a t v).
  Proof. intros t' H. unfold view. now apply setv_other. Qed.
  Lemma frame_seta a t atr : Conc.frame view t a (seta a atr).
  Proof. intros t' H. reflexivity. Qed.
  Lemma frame_refl a t : Conc.frame view t a a.
  Proof. intros t' H. reflexivity. Qed.

  Notation safe := (@Conc.safe G V ev Aux tview view Inv).

  (** every key of the abstract set outside a move phase is in the table *)
  Definition nopend_all (a : Aux) : Prop := forall t, pend_of (lk a t) = [].

  Lemma absrel_ext s bs (P Q : item -> Prop) : (forall x, P x <-> Q x) -> absrel s bs P -> absrel s bs Q.
  Proof. intros H [H1 H2]. split; auto. intros x. rewrite H2, H. tauto. Qed.

  (** a thread that holds a lock excludes a move phase of another thread *)
  Lemma holder_no_move g a tr t i : Inv g a tr -> holds (lk a t) i -> pend_of (lk a t) = [] -> nopend_all a.
  Proof.
    intros Hi Hh Hp t'. destruct (Nat.eq_dec t' t) as [->|Hne]; auto.
    destruct (lk a t') eqn:E; cbn; auto.
    exfalso. apply Hne. eapply (i_excl Hi t' t i); [rewrite E; cbn; eapply holds_lt; eauto|exact Hh].
  Qed.

  (** *** steps that change nothing the invariant reads *)
  Definition same_core (g g' : G) : Prop :=
    (forall i, spins g' i = spins g i) /\ mask g' = mask g /\ buckets g' = buckets g.

  Definition neutral_ev (e : ev) : Prop :=
    match e with
    | EvAcc KXchg [0%Z; _] _ | EvAcc KSt [0%Z; _] _ => False
    | EvAcc _ _ _ => True
    | EvCli _ _ => False
    end.

  Lemma hstep_neutral h t e : neutral_ev e -> hstep h (t, e) = h.
  Proof.
    destruct e as [k o ok|n args]; cbn; [|tauto].
    destruct k; auto; (destruct o as [|z o]; auto; destruct z; auto; destruct o as [|z' o]; auto; destruct o; auto; tauto).
  Qed.

  Lemma hist_neutral tr t e : neutral_ev e -> hist_of (tr ++ Conc.tag t [e]) = hist_of tr.
  Proof. destruct e; cbn; [intros _; apply hist_of_acc|tauto]. Qed.

  Lemma Inv_silent g g' a tr t e : Inv g a tr -> same_core g g' -> neutral_ev e ->
    Inv g' a (tr ++ Conc.tag t [e]).
  Proof.
    intros Hi (Hs & Hm & Hb) He. destruct Hi as [I1 I2 I3 I4 I5 I6 I7 I8]. constructor.
    - intros i Hl. rewrite Hs. auto.
    - exact I2.
    - intros i t0. rewrite tholder_snoc, hstep_neutral by exact He. auto.
    - intros t0 i H. rewrite Hm. eauto.
    - intros t0 b H. rewrite Hb. eauto.
    - rewrite Hm, Hb. exact I6.
    - rewrite Hm. exact I7.
    - destruct I8 as (s & st & H1 & H2 & H3 & H4). exists s, st. rewrite hist_neutral by exact He. rewrite Hb. auto.
  Qed.

  Lemma same_core_refl g : same_core g g.
  Proof. repeat split; auto. Qed.
  Lemma same_core_count g x : same_core g (set_count g x).
  Proof. repeat split; auto. Qed.

  (** a failed exchange leaves the lock word at [true] *)
  Lemma same_core_xchg_fail g i : spins g i = true -> same_core g (sl_set g (SCell i) true).
  Proof.
    intros H. repeat split; auto. intros j. cbn. unfold upd1. destruct (Nat.eqb_spec j i); subst; auto.
  Qed.

  Lemma Inv_xchg_fail g a tr t i : Inv g a tr -> i < nl -> spins g i = true ->
    Inv (sl_set g (SCell i) true) a (tr ++ Conc.tag t [EvAcc KXchg (o_spin i) true]).
  Proof.
    intros Hi Hl Hs. pose proof Hi as [I1 I2 I3 I4 I5 I6 I7 I8].
    pose proof (same_core_xchg_fail g i Hs) as (Hs' & Hm & Hb).
    constructor.
    - intros j Hj. rewrite Hs'. auto.
    - exact I2.
    - intros j t0. rewrite tholder_snoc. cbn [hstep o_spin]. unfold StripingPolicy.zn. rewrite Nat2Z.id.
      destruct (tholder tr i) eqn:E; [apply I3|].
      exfalso. clear j t0. apply I1 in Hs; auto. destruct Hs as (t1 & Ht1). apply I3 in Ht1. congruence.
    - intros t0 j H. rewrite Hm. eauto.
    - intros t0 b H. rewrite Hb. eauto.
    - rewrite Hm, Hb. exact I6.
    - rewrite Hm. exact I7.
    - destruct I8 as (s & st & H1 & H2 & H3 & H4). exists s, st. rewrite hist_of_acc. rewrite Hb. auto.
  Qed.


  (** *** acquiring and releasing a cell *)
  Lemma pend_setv_same a t v' : pend_of (v_lk v') = [] -> pend_of (lk a t) = [] ->
    forall x, (exists t0, In x (pend_of (lk (setv a t v') t0))) <-> (exists t0, In x (pend_of (lk a t0))).
  Proof.
    intros H1 H2 x. split; intros (t0 & H); destruct (Nat.eq_dec t0 t) as [->|Hne].
    - rewrite lk_setv_same, H1 in H. destruct H.
    - rewrite lk_setv_other in H by exact Hne. eauto.
    - rewrite H2 in H. destruct H.
    - exists t0. now rewrite lk_setv_other.
  Qed.

  Lemma Inv_acquire g a tr t i v' :
    Inv g a tr -> i < nl -> spins g i = false ->
    v_op v' = v_op (a_view a t) ->
    (forall j, holds (v_lk v') j <-> holds (lk a t) j \/ j = i) ->
    pend_of (lk a t) = [] -> pend_of (v_lk v') = [] ->
    v_mask v' = mask g ->
    (forall b, v_reg v' b = if Nat.eqb (b mod nl) i then get_b (buckets g) b else v_reg (a_view a t) b) ->
    Inv (sl_set g (SCell i) true) (setv a t v') (tr ++ Conc.tag t [EvAcc KXchg (o_spin i) true]).
  Proof.
    intros Hi Hl Hs Hop Hh Hp Hp' Hm Hr. pose proof Hi as [I1 I2 I3 I4 I5 I6 I7 I8].
    assert (Hfree : forall t0, ~ holds (lk a t0) i).
    { intros t0 H. assert (spins g i = true) by (apply I1; eauto). congruence. }
    assert (Hnone : tholder tr i = None).
    { destruct (tholder tr i) eqn:E; auto. apply I3 in E. exfalso; eapply Hfree; eauto. }
    constructor.
    - intros j Hj. cbn [spins sl_set set_spins]. destruct (Nat.eq_dec j i) as [->|Hne].
      + rewrite upd1_same. split; auto. intros _. exists t. rewrite lk_setv_same. apply Hh. now right.
      + rewrite upd1_other by exact Hne. rewrite (I1 j Hj). split; intros (t0 & H0); exists t0;
          (destruct (Nat.eq_dec t0 t) as [->|Hn]; [|now rewrite lk_setv_other in *]).
        * rewrite lk_setv_same. apply Hh. now left.
        * rewrite lk_setv_same in H0. apply Hh in H0. destruct H0; [auto|contradiction].
    - intros t1 t2 j H1 H2.
      destruct (Nat.eq_dec t1 t) as [->|N1]; destruct (Nat.eq_dec t2 t) as [->|N2]; auto.
      + rewrite lk_setv_same in H1. rewrite lk_setv_other in H2 by exact N2. apply Hh in H1. destruct H1 as [H1| ->].
        * eapply I2; eauto.
        * exfalso; eapply Hfree; eauto.
      + rewrite lk_setv_same in H2. rewrite lk_setv_other in H1 by exact N1. apply Hh in H2. destruct H2 as [H2| ->].
        * eapply I2; eauto.
        * exfalso; eapply Hfree; eauto.
      + rewrite lk_setv_other in H1 by exact N1. rewrite lk_setv_other in H2 by exact N2. eapply I2; eauto.
    - intros j t0. rewrite tholder_snoc. cbn [hstep o_spin]. unfold StripingPolicy.zn. rewrite Nat2Z.id, Hnone.
      destruct (Nat.eq_dec j i) as [->|Hne].
      + rewrite upd1_same. destruct (Nat.eq_dec t0 t) as [->|Hn].
        * rewrite lk_setv_same. split; auto. intros _. apply Hh. now right.
        * rewrite lk_setv_other by exact Hn. split; [congruence|]. intros H; exfalso; eapply Hfree; eauto.
      + rewrite upd1_other by exact Hne. rewrite I3. destruct (Nat.eq_dec t0 t) as [->|Hn].
        * rewrite lk_setv_same, Hh. tauto.
        * now rewrite lk_setv_other.
    - intros t0 j H. cbn [mask sl_set set_spins]. destruct (Nat.eq_dec t0 t) as [->|Hn].
      + now rewrite setv_same.
      + rewrite lk_setv_other in H by exact Hn. rewrite setv_other by exact Hn. eauto.
    - intros t0 b H. cbn [buckets sl_set set_spins]. destruct (Nat.eq_dec t0 t) as [->|Hn].
      + rewrite setv_same, Hr. rewrite lk_setv_same in H. destruct (Nat.eqb_spec (b mod nl) i) as [E|E]; auto.
        apply Hh in H. destruct H; [|contradiction]. now apply I5.
      + rewrite lk_setv_other in H by exact Hn. rewrite setv_other by exact Hn. eauto.
    - exact I6.
    - exact I7.
    - destruct I8 as (s & st & H1 & H2 & H3 & H4). exists s, st. rewrite hist_of_acc.
      split; [exact H1|]. split; [exact H2|]. split.
      + intros t0. rewrite H3. destruct (Nat.eq_dec t0 t) as [->|Hn]; [now rewrite setv_same|now rewrite setv_other].
      + cbn [buckets sl_set set_spins]. eapply absrel_ext; [|exact H4].
        intros x. symmetry. apply (pend_setv_same a t v' Hp' Hp x).
  Qed.

  Lemma Inv_release g a tr t i v' :
    Inv g a tr -> holds (lk a t) i ->
    v_op v' = v_op (a_view a t) ->
    (forall j, holds (v_lk v') j <-> holds (lk a t) j /\ j <> i) ->
    pend_of (lk a t) = [] -> pend_of (v_lk v') = [] ->
    v_mask v' = v_mask (a_view a t) -> (forall b, v_reg v' b = v_reg (a_view a t) b) ->
    Inv (sl_set g (SCell i) false) (setv a t v') (tr ++ Conc.tag t [EvAcc KSt (o_spin i) true]).
  Proof.
    intros Hi Hme Hop Hh Hp Hp' Hm Hr. pose proof Hi as [I1 I2 I3 I4 I5 I6 I7 I8].
    assert (Hl : i < nl) by (eapply holds_lt; eauto).
    constructor.
    - intros j Hj. cbn [spins sl_set set_spins]. destruct (Nat.eq_dec j i) as [->|Hne].
      + rewrite upd1_same. split; [discriminate|]. intros (t0 & H0). exfalso.
        destruct (Nat.eq_dec t0 t) as [->|Hn].
        * rewrite lk_setv_same in H0. apply Hh in H0. tauto.
        * rewrite lk_setv_other in H0 by exact Hn. apply Hn. eapply I2; eauto.
      + rewrite upd1_other by exact Hne. rewrite (I1 j Hj). split; intros (t0 & H0); exists t0;
          (destruct (Nat.eq_dec t0 t) as [->|Hn]; [|now rewrite lk_setv_other in *]).
        * rewrite lk_setv_same. apply Hh. tauto.
        * rewrite lk_setv_same in H0. apply Hh in H0. tauto.
    - intros t1 t2 j H1 H2.
      assert (K : forall x, holds (lk (setv a t v') x) j -> holds (lk a x) j).
      { intros x H. destruct (Nat.eq_dec x t) as [->|Hn]; [rewrite lk_setv_same in H; apply Hh in H; tauto|now rewrite lk_setv_other in H]. }
      eapply I2; eauto.
    - intros j t0. rewrite tholder_snoc. cbn [hstep o_spin]. unfold StripingPolicy.zn. rewrite Nat2Z.id.
      destruct (Nat.eq_dec j i) as [->|Hne].
      + rewrite upd1_same. split; [discriminate|]. intros H0. exfalso.
        destruct (Nat.eq_dec t0 t) as [->|Hn].
        * rewrite lk_setv_same in H0. apply Hh in H0. tauto.
        * rewrite lk_setv_other in H0 by exact Hn. apply Hn. eapply I2; eauto.
      + rewrite upd1_other by exact Hne. rewrite I3. destruct (Nat.eq_dec t0 t) as [->|Hn].
        * rewrite lk_setv_same, Hh. tauto.
        * now rewrite lk_setv_other.
    - intros t0 j H. cbn [mask sl_set set_spins]. destruct (Nat.eq_dec t0 t) as [->|Hn].
      + rewrite setv_same, Hm. rewrite lk_setv_same in H. apply Hh in H. destruct H. eauto.
      + rewrite lk_setv_other in H by exact Hn. rewrite setv_other by exact Hn. eauto.
    - intros t0 b H. cbn [buckets sl_set set_spins]. destruct (Nat.eq_dec t0 t) as [->|Hn].
      + rewrite setv_same, Hr. rewrite lk_setv_same in H. apply Hh in H. destruct H. eauto.
      + rewrite lk_setv_other in H by exact Hn. rewrite setv_other by exact Hn. eauto.
    - exact I6.
    - exact I7.
    - destruct I8 as (s & st & H1 & H2 & H3 & H4). exists s, st. rewrite hist_of_acc.
      split; [exact H1|]. split; [exact H2|]. split.
      + intros t0. rewrite H3. destruct (Nat.eq_dec t0 t) as [->|Hn]; [now rewrite setv_same|now rewrite setv_other].
      + cbn [buckets sl_set set_spins]. eapply absrel_ext; [|exact H4].
        intros x. symmetry. apply (pend_setv_same a t v' Hp' Hp x).
  Qed.


  (** *** annotated trace bookkeeping *)
  Lemma lp_ext (atr : list (aev ISet)) c e c' :
    lp_run lp_init atr = Some c -> lp_step c e = Some c' -> lp_run lp_init (atr ++ [e]) = Some c'.
  Proof. intros H1 H2. rewrite lp_run_app, H1. cbn. now rewrite H2. Qed.

  Lemma st_setv (st : nat -> status ISet) a t v' x :
    (forall t0, st t0 = v_op (a_view a t0)) -> v_op v' = x ->
    forall t0, Lin.upd st t x t0 = v_op (a_view (setv a t v') t0).
  Proof.
    intros H Hx t0. unfold Lin.upd. destruct (Nat.eqb_spec t0 t) as [->|Hn].
    - now rewrite setv_same.
    - rewrite setv_other by exact Hn. apply H.
  Qed.

  (** only the views of thread t change, its lock state stays: the lock part of the invariant is unaffected *)
  Lemma lk_setv_keep a t v' : v_lk v' = lk a t -> forall t0, lk (setv a t v') t0 = lk a t0.
  Proof. intros H t0. destruct (Nat.eq_dec t0 t) as [->|Hn]; [now rewrite lk_setv_same|now rewrite lk_setv_other]. Qed.

  (** *** the linearization point of a cell operation: the bucket operation under the cell lock *)
  Lemma Inv_bucket_op g a tr t bo k :
    Inv g a tr ->
    v_op (a_view a t) = Pending (iop_of_bop bo k t : Op ISet) ->
    holds (lk a t) (hfun hm k mod nl) -> pend_of (lk a t) = [] ->
    let b := hfun hm k mod S (mask g) in
    let r := bucket_apply bo k t (get_b (buckets g) b) in
    let nb := fst (fst r) in let r1 := snd (fst r) in let r2 := snd r in
    let v := a_view a t in
    let v' := mkTV (Linearized (iop_of_bop bo k t : Op ISet) (res_of_bop bo r1 r2 : Res ISet)) (v_lk v) (v_mask v)
                   (fun b' => if Nat.eqb b' b then nb else v_reg v b') in
    Inv (set_buckets g (set_nth_b (buckets g) b nb))
        (seta (setv a t v') (a_atr a ++ [ALin t]))
        (tr ++ Conc.tag t [EvAcc KLd o_mask true]).
  Proof.
    intros Hi Hop Hh Hp b r nb r1 r2 v v'. pose proof Hi as [I1 I2 I3 I4 I5 I6 I7 I8].
    assert (Hr : bucket_apply bo k t (get_b (buckets g) b) = (nb, r1, r2)) by (subst nb r1 r2 r; now destruct (bucket_apply _ _ _ _) as [[? ?] ?]).
    assert (Hkeep : forall t0, lk (seta (setv a t v') (a_atr a ++ [ALin t])) t0 = lk a t0).
    { intros t0. change (lk (setv a t v') t0 = lk a t0). apply lk_setv_keep. reflexivity. }
    destruct I7 as (e & He & Hdiv).
    assert (Hstripe : b mod nl = hfun hm k mod nl) by (subst b; rewrite Hdiv; apply stripe_of_bucket; auto).
    assert (Hblt : b < List.length (buckets g)).
    { destruct I6 as (Hlen & _). rewrite Hlen. subst b. apply Nat.mod_upper_bound. lia. }
    assert (Hnp : nopend_all a) by (eapply holder_no_move; eauto).
    destruct I8 as (s & st & H1 & H2 & H3 & H4).
    assert (Ha : absrel s (buckets g) nopend).
    { eapply absrel_ext; [|exact H4]. intros x. split; [|intros []]. intros (t0 & H). rewrite Hnp in H. destruct H. }
    destruct (bucket_apply_abs hm (mask g) (buckets g) s bo k t nb r1 r2 I6 Ha Hr) as (R1 & R2 & R3). fold b in R2, R3.
    constructor.
    - intros i Hl. setoid_rewrite Hkeep. apply I1; auto.
    - intros t1 t2 i. rewrite !Hkeep. apply I2.
    - intros i t0. rewrite Hkeep. rewrite tholder_snoc. cbn [hstep o_mask]. apply I3.
    - intros t0 i. rewrite Hkeep. intros H. cbn [mask set_buckets a_view seta].
      destruct (Nat.eq_dec t0 t) as [->|Hn]; [rewrite setv_same; cbn; eauto|rewrite setv_other by exact Hn; eauto].
    - intros t0 b'. rewrite Hkeep. intros H. cbn [buckets set_buckets a_view seta].
      destruct (Nat.eq_dec t0 t) as [->|Hn].
      + rewrite setv_same. cbn [v_reg v']. destruct (Nat.eqb_spec b' b) as [->|Hne].
        * now apply get_set_same.
        * rewrite get_set_other by auto. now apply I5.
      + rewrite setv_other by exact Hn. rewrite get_set_other; [now apply I5|].
        intros ->. apply Hn. eapply I2; [exact H|]. rewrite Hstripe. exact Hh.
    - exact R2.
    - exists e. auto.
    - exists (fst (istep s (iop_of_bop bo k t))), (Lin.upd st t (Linearized (iop_of_bop bo k t : Op ISet) (snd (istep s (iop_of_bop bo k t))))).
      split; [|split; [|split]].
      + cbn [a_atr seta]. eapply lp_ext; [exact H1|]. cbn [lp_step]. rewrite H3, Hop. reflexivity.
      + cbn [a_atr seta]. rewrite erase_app, hist_of_acc. cbn. now rewrite app_nil_r.
      + cbn [a_view seta]. apply st_setv; auto. cbn. now rewrite R1.
      + cbn [buckets set_buckets]. eapply absrel_ext; [|exact R3].
        intros x. split; [intros []|]. intros (t0 & H). rewrite Hkeep, Hnp in H. destruct H.
  Qed.


  (** *** the resizer: a thread holding every cell excludes everybody else *)
  Lemma all_excl g a tr t : Inv g a tr -> (forall j, j < nl -> holds (lk a t) j) ->
    forall t0, t0 <> t -> (forall i, ~ holds (lk a t0) i) /\ pend_of (lk a t0) = [].
  Proof.
    intros Hi Hall t0 Hn. assert (K : forall i, ~ holds (lk a t0) i).
    { intros i H. apply Hn. eapply (i_excl Hi); [exact H|]. apply Hall. eapply holds_lt; eauto. }
    split; auto. destruct (lk a t0) eqn:E; cbn; auto. exfalso. apply (K 0). cbn. exact Hnl.
  Qed.

  (** the view of [t] changes but it keeps the same cells *)
  Lemma holds_setv_iff a t v' : (forall j, holds (v_lk v') j <-> holds (lk a t) j) ->
    forall t0 j, holds (lk (setv a t v') t0) j <-> holds (lk a t0) j.
  Proof. intros H t0 j. destruct (Nat.eq_dec t0 t) as [->|Hn]; [now rewrite lk_setv_same|now rewrite lk_setv_other]. Qed.

  (** generic step of a thread that holds every cell: it may replace mask, table and its pending list as long
      as the table stays well formed and the abstract set is preserved *)
  Lemma Inv_resizer_step g g' a tr t v' e :
    Inv g a tr -> (forall j, holds (lk a t) j <-> j < nl) -> (forall j, holds (v_lk v') j <-> j < nl) ->
    neutral_ev e ->
    (forall i, spins g' i = spins g i) ->
    v_op v' = v_op (a_view a t) ->
    v_mask v' = mask g' -> (forall b, v_reg v' b = get_b (buckets g') b) ->
    table_ok hm (mask g') (buckets g') -> (exists e, 0 < e /\ S (mask g') = nl * e) ->
    (forall s, absrel s (buckets g) (fun x => In x (pend_of (lk a t))) -> absrel s (buckets g') (fun x => In x (pend_of (v_lk v')))) ->
    Inv g' (setv a t v') (tr ++ Conc.tag t [e]).
  Proof.
    intros Hi Hall Hall' He Hs Hop Hm Hr Htab Hdiv Habs. pose proof Hi as [I1 I2 I3 I4 I5 I6 I7 I8].
    assert (Hex := all_excl g a tr t Hi (fun j H => proj2 (Hall j) H)).
    assert (Hsame : forall t0 j, holds (lk (setv a t v') t0) j <-> holds (lk a t0) j).
    { apply holds_setv_iff. intros j. rewrite Hall, Hall'. tauto. }
    constructor.
    - intros i Hl. rewrite Hs, (I1 i Hl). split; intros (t0 & H); exists t0; now apply Hsame.
    - intros t1 t2 i H1 H2. apply Hsame in H1, H2. eapply I2; eauto.
    - intros i t0. rewrite Hsame, tholder_snoc, hstep_neutral by exact He. apply I3.
    - intros t0 i H. destruct (Nat.eq_dec t0 t) as [->|Hne].
      + now rewrite setv_same.
      + apply Hsame in H. exfalso. eapply (proj1 (Hex t0 Hne)); eauto.
    - intros t0 b H. destruct (Nat.eq_dec t0 t) as [->|Hne].
      + now rewrite setv_same.
      + apply Hsame in H. exfalso. eapply (proj1 (Hex t0 Hne)); eauto.
    - exact Htab.
    - exact Hdiv.
    - destruct I8 as (s & st & H1 & H2 & H3 & H4). exists s, st. rewrite hist_neutral by exact He.
      split; [exact H1|]. split; [exact H2|]. split.
      + intros t0. rewrite H3. destruct (Nat.eq_dec t0 t) as [->|Hn]; [now rewrite setv_same|now rewrite setv_other].
      + eapply absrel_ext; [|apply Habs; eapply absrel_ext; [|exact H4]].
        * intros x. split.
          -- intros H. exists t. now rewrite lk_setv_same.
          -- intros (t0 & H). destruct (Nat.eq_dec t0 t) as [->|Hne]; [now rewrite lk_setv_same in H|].
             rewrite lk_setv_other in H by exact Hne. rewrite (proj2 (Hex t0 Hne)) in H. destruct H.
        * intros x. split.
          -- intros (t0 & H). destruct (Nat.eq_dec t0 t) as [->|Hne]; [exact H|].
             rewrite (proj2 (Hex t0 Hne)) in H. destruct H.
          -- intros H. eauto.
  Qed.


  (** *** client events: invocation, response, marker *)
  Lemma Inv_cli g a tr t v' name args atr' :
    Inv g a tr -> v_lk v' = lk a t -> v_mask v' = v_mask (a_view a t) -> (forall b, v_reg v' b = v_reg (a_view a t) b) ->
    (forall s st, lp_run lp_init (a_atr a) = Some (s, st) -> (forall t0, st t0 = v_op (a_view a t0)) ->
        erase (a_atr a) = hist_of tr ->
        lp_run lp_init atr' = Some (s, Lin.upd st t (v_op v')) /\ erase atr' = hist_of (tr ++ Conc.tag t [EvCli name args])) ->
    Inv g (seta (setv a t v') atr') (tr ++ Conc.tag t [EvCli name args]).
  Proof.
    intros Hi Hlk Hm Hr Hatr. pose proof Hi as [I1 I2 I3 I4 I5 I6 I7 I8].
    assert (Hkeep : forall t0, lk (seta (setv a t v') atr') t0 = lk a t0).
    { intros t0. change (lk (setv a t v') t0 = lk a t0). now apply lk_setv_keep. }
    constructor.
    - intros i Hl. setoid_rewrite Hkeep. apply I1; auto.
    - intros t1 t2 i. rewrite !Hkeep. apply I2.
    - intros i t0. rewrite Hkeep, tholder_snoc. cbn [hstep]. apply I3.
    - intros t0 i. rewrite Hkeep. intros H. cbn [a_view seta].
      destruct (Nat.eq_dec t0 t) as [->|Hn]; [rewrite setv_same, Hm; eauto|rewrite setv_other by exact Hn; eauto].
    - intros t0 b. rewrite Hkeep. intros H. cbn [a_view seta].
      destruct (Nat.eq_dec t0 t) as [->|Hn]; [rewrite setv_same, Hr; eauto|rewrite setv_other by exact Hn; eauto].
    - exact I6.
    - exact I7.
    - destruct I8 as (s & st & H1 & H2 & H3 & H4). destruct (Hatr s st H1 H3 H2) as (K1 & K2).
      exists s, (Lin.upd st t (v_op v')). cbn [a_atr seta a_view].
      split; [exact K1|]. split; [exact K2|]. split.
      + apply st_setv; auto.
      + eapply absrel_ext; [|exact H4]. intros x. split; intros (t0 & H); exists t0; [rewrite Hkeep|rewrite <- Hkeep]; exact H.
  Qed.

  Lemma z2n_zl (l : list nat) : map z2n (zl l) = l.
  Proof. unfold zl. rewrite map_map. rewrite <- (map_id l) at 2. apply map_ext. intros x. apply Nat2Z.id. Qed.

  Lemma hist_inv tr t c k x y o : iop_of c k t y = Some o ->
    hist_of (tr ++ Conc.tag t [EvCli "inv" (zl [c; k; x; y])]) = hist_of tr ++ [@HInv ISet t o].
  Proof.
    intros H. rewrite hist_of_app. f_equal. cbn. unfold z2n. rewrite !Nat2Z.id, H. reflexivity.
  Qed.

  Lemma hist_ret tr t c r1 r2 :
    hist_of (tr ++ Conc.tag t [EvCli "ret" (zl [c; r1; r2])]) = hist_of tr ++ [@HRes ISet t (res_of c r1 r2)].
  Proof. rewrite hist_of_app. f_equal. cbn. unfold z2n. now rewrite !Nat2Z.id. Qed.

  Lemma hist_oof tr t : hist_of (tr ++ Conc.tag t [EvCli "outoffuel" []]) = hist_of tr.
  Proof. rewrite hist_of_app. cbn. now rewrite app_nil_r. Qed.

  Lemma Inv_inv g a tr t c k x y o :
    Inv g a tr -> v_op (a_view a t) = Lin.Idle -> iop_of c k t y = Some o ->
    let v := a_view a t in
    Inv g (seta (setv a t (mkTV (Pending (o : Op ISet)) (v_lk v) (v_mask v) (v_reg v))) (a_atr a ++ [AInv t (o : Op ISet)]))
        (tr ++ Conc.tag t [EvCli "inv" (zl [c; k; x; y])]).
  Proof.
    intros Hi Hop Ho v. apply Inv_cli; auto.
    intros s st H1 H3 H2. split.
    - eapply lp_ext; [exact H1|]. cbn [lp_step]. rewrite H3, Hop. reflexivity.
    - rewrite erase_app, H2, (hist_inv tr t c k x y o Ho). reflexivity.
  Qed.

  Lemma Inv_ret g a tr t c r1 r2 o :
    Inv g a tr -> v_op (a_view a t) = Linearized (o : Op ISet) (res_of c r1 r2 : Res ISet) ->
    let v := a_view a t in
    Inv g (seta (setv a t (mkTV Lin.Idle (v_lk v) (v_mask v) (v_reg v))) (a_atr a ++ [ARes t (res_of c r1 r2 : Res ISet)]))
        (tr ++ Conc.tag t [EvCli "ret" (zl [c; r1; r2])]).
  Proof.
    intros Hi Hop v. apply Inv_cli; auto.
    intros s st H1 H3 H2. split.
    - eapply lp_ext; [exact H1|]. cbn [lp_step]. rewrite H3, Hop.
      assert (E : res_eqb ISet (res_of c r1 r2) (res_of c r1 r2) = true) by (apply res_eqb_spec; reflexivity).
      rewrite E. reflexivity.
    - rewrite erase_app, H2, hist_ret. reflexivity.
  Qed.

  Lemma Inv_oof g a tr t : Inv g a tr -> Inv g a (tr ++ Conc.tag t [EvCli "outoffuel" []]).
  Proof.
    intros Hi. pose proof Hi as [I1 I2 I3 I4 I5 I6 I7 I8]. constructor; auto.
    - intros i t0. rewrite tholder_snoc. cbn [hstep]. apply I3.
    - destruct I8 as (s & st & H1 & H2 & H3 & H4). exists s, st. rewrite hist_oof. auto.
  Qed.


  (** ** program specifications ([Conc.safe]) *)
  Definition optQ {A} (P : A -> tview -> Prop) : option A -> tview -> Prop :=
    fun r v => match r with Some x => P x v | None => True end.

  Lemma safe_bindo {A B} t (p : prog (option A)) (q : A -> prog (option B)) (Q : B -> tview -> Prop) l :
    safe t p l (optQ (fun x l' => safe t (q x) l' (optQ Q))) -> safe t (bindo p q) l (optQ Q).
  Proof.
    intros H. unfold bindo. apply Conc.safe_bind. eapply Conc.safe_weaken; [|exact H].
    intros [x|] l' Hx; cbn in *; auto.
  Qed.

  Lemma safe_thenu {B} t (p : prog unit) (q : prog B) (Q : B -> tview -> Prop) l :
    safe t p l (fun _ l' => safe t q l' Q) -> safe t (thenu p q) l Q.
  Proof. intros H. unfold thenu. apply Conc.safe_bind. exact H. Qed.

  Lemma safe_ret {R} t (r : R) (Q : R -> tview -> Prop) l : Q r l -> safe t (Ret r) l Q.
  Proof. intros H. exact H. Qed.
  Lemma safe_oret {R} t (r : R) (Q : R -> tview -> Prop) l : Q r l -> safe t (oret r) l (optQ Q).
  Proof. intros H. exact H. Qed.

  Definition nolock (l : lstate) : Prop := (forall j, ~ holds l j) /\ pend_of l = [].

  (** *** spin lock of a cell *)
  Lemma safe_sl_lock t i l' (Q : tview -> Prop) : i < nl -> forall fuel v,
    pend_of (v_lk v) = [] -> pend_of l' = [] ->
    (forall j, holds l' j <-> holds (v_lk v) j \/ j = i) ->
    (forall m reg, Q (mkTV (v_op v) l' m reg)) ->
    safe t (sl_lock_outer fuel (SCell i) None) v (optQ (fun _ => Q)) /\
    safe t (sl_lock_inner fuel (SCell i) None) v (optQ (fun _ => Q)).
  Proof.
    intros Hl fuel v Hp Hp' Hh HQ. induction fuel as [|f IH]; split; cbn [sl_lock_outer sl_lock_inner Conc.safe optQ]; auto.
    - intros g a tr Hi Hv. unfold view in Hv. cbn [a_sl_xchg sl_get fst snd]. destruct (spins g i) eqn:Hs.
      + exists a. split; [apply Inv_xchg_fail; auto|]. split; [apply frame_refl|].
        cbn [b2n vn Nat.eqb]. unfold view. rewrite Hv. apply IH.
      + set (v' := mkTV (v_op v) l' (mask g) (fun b => if Nat.eqb (b mod nl) i then get_b (buckets g) b else v_reg v b)).
        exists (setv a t v'). split; [|split; [apply frame_setv|]].
        * apply Inv_acquire; auto; unfold lk; rewrite Hv; auto.
        * cbn [b2n vn Nat.eqb Conc.safe optQ]. unfold view. rewrite setv_same. apply HQ.
    - intros g a tr Hi Hv. unfold view in Hv. cbn [a_sl_ld fst snd]. exists a.
      split; [eapply Inv_silent; [exact Hi|apply same_core_refl|exact I]|]. split; [apply frame_refl|].
      unfold view. rewrite Hv. cbn [vn vnat]. destruct (Nat.eqb (b2n (sl_get g (SCell i))) 0); apply IH.
  Qed.

  Lemma safe_sl_unlock t i l' (Q : tview -> Prop) v :
    holds (v_lk v) i -> pend_of (v_lk v) = [] -> pend_of l' = [] ->
    (forall j, holds l' j <-> holds (v_lk v) j /\ j <> i) ->
    Q (mkTV (v_op v) l' (v_mask v) (v_reg v)) ->
    safe t (sl_unlock (SCell i)) v (fun _ => Q).
  Proof.
    intros Hme Hp Hp' Hh HQ. unfold sl_unlock. cbn [Conc.safe].
    intros g a tr Hi Hv. unfold view in Hv. cbn [a_sl_st fst snd].
    exists (setv a t (mkTV (v_op v) l' (v_mask v) (v_reg v))). split; [|split; [apply frame_setv|]].
    - apply Inv_release; auto; unfold lk; rewrite Hv; auto.
    - unfold view. rewrite setv_same. exact HQ.
  Qed.

  (** a step that leaves the core of the state and the view alone (loads, the item counter) *)
  Lemma safe_silent {R} t (f : action) (k : V -> prog R) (Q : R -> tview -> Prop) v :
    (forall g, same_core g (fst (fst (f g))) /\ exists e, snd (f g) = [e] /\ neutral_ev e) ->
    (forall g a tr, Inv g a tr -> a_view a t = v -> safe t (k (snd (fst (f g)))) v Q) ->
    safe t (Act f k) v Q.
  Proof.
    intros Hf Hk. cbn [Conc.safe]. intros g a tr Hi Hv. unfold view in Hv.
    destruct (Hf g) as (Hc & e & He & Hn). exists a. rewrite He.
    split; [eapply Inv_silent; eauto|]. split; [apply frame_refl|]. unfold view. rewrite Hv. eapply Hk; eauto.
  Qed.


  (** *** lock_all / unlock_all *)
  Lemma safe_lock_all t fuel (Q : tview -> Prop) : forall n i v, i + n = nl ->
    (forall j, holds (v_lk v) j <-> j < i) -> pend_of (v_lk v) = [] ->
    (forall v', v_op v' = v_op v -> (forall j, holds (v_lk v') j <-> j < nl) -> pend_of (v_lk v') = [] -> Q v') ->
    safe t (lock_all fuel n i) v (optQ (fun _ => Q)).
  Proof.
    induction n as [|n IH]; intros i v Hn Hh Hp HQ; cbn [lock_all].
    - cbn. apply HQ; auto. intros j. rewrite Hh. lia.
    - apply safe_bindo. unfold sl_lock.
      assert (Hi : i < nl) by lia.
      refine (proj1 (safe_sl_lock t i (LLocking (S i)) (fun v' => safe t (lock_all fuel n (S i)) v' (optQ (fun _ => Q))) Hi fuel v Hp eq_refl _ _)).
      + intros j. cbn. rewrite Hh. lia.
      + intros m reg. apply IH; [lia|intros j; cbn; lia|reflexivity|]. intros v' H1 H2 H3. apply HQ; auto.
  Qed.

  Lemma safe_unlock_all t (Q : tview -> Prop) : forall n i v, i + n = nl ->
    (forall j, holds (v_lk v) j <-> i <= j < nl) -> pend_of (v_lk v) = [] ->
    (forall v', v_op v' = v_op v -> nolock (v_lk v') -> Q v') ->
    safe t (unlock_all n i) v (fun _ => Q).
  Proof.
    induction n as [|n IH]; intros i v Hn Hh Hp HQ; cbn [unlock_all].
    - cbn. apply HQ; auto. split; auto. intros j. rewrite Hh. lia.
    - apply safe_thenu.
      apply (safe_sl_unlock t i (LUnlocking (S i)) (fun v' => safe t (unlock_all n (S i)) v' (fun _ => Q))); auto.
      + apply Hh. lia.
      + intros j. cbn. rewrite Hh. lia.
      + apply IH; [lia|intros j; cbn; lia|reflexivity|]. intros v' H1 H2. apply HQ; auto.
  Qed.

  (** *** the moves of a resize *)
  Lemma safe_move_all t (Q : tview -> Prop) : forall xs v, v_lk v = LMove xs ->
    (forall v', v_op v' = v_op v -> v_lk v' = LMove [] -> Q v') ->
    safe t (move_all hm xs) v (fun _ => Q).
  Proof.
    induction xs as [|x r IH]; intros v Hlk HQ; cbn [move_all].
    - cbn. apply HQ; auto.
    - cbn [Conc.safe]. intros g a tr Hi Hv. unfold view in Hv. cbn [a_move fst snd].
      set (b := hfun hm (key_of x) mod S (mask g)).
      set (new := if bucket_has (key_of x) (get_b (buckets g) b) then get_b (buckets g) b else x :: get_b (buckets g) b).
      set (g' := set_buckets g (set_nth_b (buckets g) b new)).
      set (v' := mkTV (v_op v) (LMove r) (mask g') (fun b0 => get_b (buckets g') b0)).
      exists (setv a t v'). split; [|split; [apply frame_setv|]].
      + assert (Hall : forall j, holds (lk a t) j <-> j < nl) by (intros j; unfold lk; rewrite Hv, Hlk; cbn; tauto).
        apply (Inv_resizer_step g g' a tr t v' (EvAcc KLd o_mask true) Hi Hall).
        * intros j. cbn. tauto.
        * exact I.
        * intros j. reflexivity.
        * now rewrite Hv.
        * reflexivity.
        * intros b0. reflexivity.
        * apply (move_table_ok hm (mask g) (buckets g) x (i_tab Hi)).
        * exact (i_div Hi).
        * intros s Hs. unfold lk in Hs. rewrite Hv, Hlk in Hs. cbn [pend_of] in Hs.
          apply (proj2 (move_abs hm (mask g) (buckets g) s x r (i_tab Hi) Hs)).
      + unfold view. rewrite setv_same. apply IH; [reflexivity|]. intros v'' H1 H2. apply HQ; auto.
  Qed.


  (** *** resize *)
  Lemma neutral_ld_mask : neutral_ev (EvAcc KLd o_mask true).  Proof. exact I. Qed.

  Lemma safe_resize_tail t N (Q : tview -> Prop) v :
    (forall j, holds (v_lk v) j <-> j < nl) -> pend_of (v_lk v) = [] ->
    (forall v', v_op v' = v_op v -> nolock (v_lk v') -> Q v') ->
    safe t (if Nat.eqb (S (v_mask v)) N
            then bindo (internal_resize Striping (c_fuel cf) hm (2 * N)) (fun _ => thenu (resize_unlock Striping nl) (oret tt))
            else thenu (resize_unlock Striping nl) (oret tt)) v (optQ (fun _ => Q)).
  Proof.
    intros Hall Hp HQ.
    assert (Hun : forall v1, v_op v1 = v_op v -> (forall j, holds (v_lk v1) j <-> j < nl) -> pend_of (v_lk v1) = [] ->
                   safe t (thenu (resize_unlock Striping nl) (oret tt)) v1 (optQ (fun _ => Q))).
    { intros v1 H1 H2 H3. apply safe_thenu. cbn [resize_unlock].
      apply safe_unlock_all; auto. { intros j. rewrite H2. lia. }
      intros v' H4 H5. apply safe_oret. apply HQ; auto. congruence. }
    destruct (Nat.eqb_spec (S (v_mask v)) N) as [<-|_]; [|apply Hun; auto].
    apply safe_bindo. unfold internal_resize. cbn [policy_resize]. apply safe_bindo. apply safe_oret.
    apply safe_silent.
    { intros g. split; [apply same_core_refl|]. exists (EvAcc KLd o_mask true). split; [reflexivity|exact I]. }
    intros g0 a0 tr0 _ _. cbn [a_mask_ld fst snd]. clear g0 a0 tr0. cbn [Conc.safe].
    intros g a tr Hi Hv. unfold view in Hv. cbn [a_mask_st_alloc fst snd vl].
    assert (Hall' : forall j, holds (lk a t) j <-> j < nl) by (intros j; unfold lk; rewrite Hv; apply Hall).
    assert (Hm : mask g = v_mask v).
    { rewrite <- Hv. apply (i_mask Hi t 0). apply Hall'. exact Hnl. }
    set (n := 2 * S (v_mask v)).
    set (g' := set_buckets (set_mask g (n - 1)) (repeat [] n)).
    set (v' := mkTV (v_op v) (LMove (List.concat (buckets g))) (n - 1) (fun b => get_b (repeat [] n) b)).
    exists (setv a t v'). split; [|split; [apply frame_setv|]].
    - apply (Inv_resizer_step g g' a tr t v' (EvAcc KSt o_mask true) Hi Hall').
      + intros j. cbn. tauto.
      + exact I.
      + intros j. reflexivity.
      + now rewrite Hv.
      + reflexivity.
      + intros b. reflexivity.
      + cbn [mask buckets g' set_buckets set_mask]. apply alloc_table_ok. unfold n. lia.
      + cbn [mask g' set_buckets set_mask]. destruct (i_div Hi) as (e & He & Hd). exists (2 * e). split; [lia|].
        unfold n. rewrite <- Hm. lia.
      + intros s Hs. cbn [buckets g' set_buckets v_lk v' pend_of]. apply alloc_abs.
        eapply absrel_ext; [|exact Hs]. intros x. unfold lk. rewrite Hv, Hp. cbn. tauto.
    - unfold view. rewrite setv_same. apply safe_thenu.
      apply safe_move_all with (xs := List.concat (buckets g)); [reflexivity|].
      intros v2 H1 H2. apply safe_oret. apply Hun.
      + rewrite H1. reflexivity.
      + intros j. rewrite H2. cbn. tauto.
      + now rewrite H2.
  Qed.

  Lemma safe_resize t me (Q : tview -> Prop) v : nolock (v_lk v) ->
    (forall v', v_op v' = v_op v -> nolock (v_lk v') -> Q v') ->
    safe t (resize (c_pol cf) (c_fuel cf) nl hm me) v (optQ (fun _ => Q)).
  Proof.
    intros [Hno Hp] HQ. rewrite Hpol. unfold resize.
    apply safe_silent.
    { intros g. split; [apply same_core_refl|]. exists (EvAcc KLd o_mask true). split; [reflexivity|exact I]. }
    intros g0 a0 tr0 _ _. cbn [a_mask_ld fst snd vn vnat].
    generalize (S (mask g0)). intros N. clear g0 a0 tr0.
    apply safe_bindo. cbn [resize_lock]. apply safe_bindo.
    apply safe_lock_all; auto.
    { intros j. split; [intros H; exfalso; eapply Hno; eauto|lia]. }
    intros v1 H1 H2 H3. apply safe_oret. cbn [Conc.safe].
    (* the second load: under all the locks the mask is the one of the snapshot *)
    intros g a tr Hi Hv. unfold view in Hv. cbn [a_mask_ld fst snd].
    exists a. split; [eapply Inv_silent; [exact Hi|apply same_core_refl|exact I]|]. split; [apply frame_refl|].
    unfold view. rewrite Hv. cbn [vn vnat].
    assert (Hm : mask g = v_mask v1).
    { rewrite <- Hv. apply (i_mask Hi t 0). unfold lk. rewrite Hv. apply H2. exact Hnl. }
    rewrite Hm. apply safe_resize_tail; auto.
    intros v' H4 H5. apply HQ; auto. congruence.
  Qed.


  (** *** one client operation *)
  Definition QIdle : unit -> tview -> Prop := fun _ v => v_op v = Lin.Idle /\ nolock (v_lk v).

  Lemma safe_fin t c k b bo r1 r2 v :
    op_of_code c b = Some bo ->
    v_op v = Linearized (iop_of_bop bo k t : Op ISet) (res_of_bop bo r1 r2 : Res ISet) -> nolock (v_lk v) ->
    safe t (op_finish c k r1 r2) v (optQ QIdle).
  Proof.
    intros Hoc Hop Hno. unfold op_finish. cbn [Conc.safe]. intros g a tr Hi Hv. unfold view in Hv.
    rewrite <- (res_of_code c k b bo r1 r2 Hoc) in Hop.
    eexists. split; [apply (Inv_ret g a tr t c r1 (r2_of_code c k r1 r2) (iop_of_bop bo k t) Hi); now rewrite Hv|].
    split.
    - intros t' Hne. unfold view. cbn [a_view seta]. now apply setv_other.
    - unfold view. cbn [a_view seta]. rewrite setv_same. apply safe_oret. split; [reflexivity|]. cbn [v_lk]. now rewrite Hv.
  Qed.

  Lemma safe_unlock_fin t i c k b bo r1 r2 (p : prog (option unit)) v :
    i < nl -> op_of_code c b = Some bo ->
    v_op v = Linearized (iop_of_bop bo k t : Op ISet) (res_of_bop bo r1 r2 : Res ISet) -> v_lk v = LCell i ->
    (forall v', v_op v' = v_op v -> nolock (v_lk v') -> safe t p v' (optQ QIdle)) ->
    safe t (thenu (cell_unlock (CSpin i)) p) v (optQ QIdle).
  Proof.
    intros Hl Hoc Hop Hlk Hp. apply safe_thenu. cbn [cell_unlock].
    apply (safe_sl_unlock t i LNone); auto.
    - rewrite Hlk. cbn. auto.
    - now rewrite Hlk.
    - intros j. rewrite Hlk. cbn. lia.
    - apply Hp; [reflexivity|]. split; [intros j H; exact H|reflexivity].
  Qed.

  Lemma neutral_count k : neutral_ev (EvAcc k o_count true).
  Proof. destruct k; exact I. Qed.

  Lemma safe_op_tail t i c k b bo r1 r2 bi v :
    i < nl -> op_of_code c b = Some bo ->
    v_op v = Linearized (iop_of_bop bo k t : Op ISet) (res_of_bop bo r1 r2 : Res ISet) -> v_lk v = LCell i ->
    safe t (op_tail cf (S t) bo (CSpin i) c k (mkV r1 r2 bi [])) v (optQ QIdle).
  Proof.
    intros Hl Hoc Hop Hlk.
    assert (Hfin : forall v', v_op v' = v_op v -> nolock (v_lk v') -> safe t (op_finish c k r1 r2) v' (optQ QIdle)).
    { intros v' H1 H2. eapply safe_fin; eauto. congruence. }
    assert (Hsimple : safe t (thenu (cell_unlock (CSpin i)) (op_finish c k r1 r2)) v (optQ QIdle)).
    { eapply safe_unlock_fin; eauto. }
    assert (Hins : safe t (after_insert cf (S t) (CSpin i) bi (op_finish c k r1 r2)) v (optQ QIdle)).
    { unfold after_insert. apply safe_silent.
      { intros g. split; [apply same_core_count|]. eexists. split; [reflexivity|apply neutral_count]. }
      intros g0 a0 tr0 _ _.
      assert (Hafter : forall m, safe t (thenu (cell_unlock (CSpin i))
                 (if resize_wanted cf (S (vn (snd (fst (a_count_faa_b bi g0))))) (vs (snd (fst (a_count_faa_b bi g0)))) m
                  then bindo (resize (c_pol cf) (c_fuel cf) nl hm (S t)) (fun _ => op_finish c k r1 r2)
                  else op_finish c k r1 r2)) v (optQ QIdle)).
      { intros m. eapply safe_unlock_fin; eauto. intros v' H1 H2.
        destruct (resize_wanted _ _ _ _); [|apply Hfin; auto].
        apply safe_bindo. apply safe_resize; auto. intros v'' H3 H4. apply Hfin; auto. congruence. }
      destruct (c_rp cf); [apply Hafter|].
      apply safe_silent.
      { intros g. split; [apply same_core_refl|]. eexists. split; [reflexivity|exact I]. }
      intros g1 a1 tr1 _ _. apply Hafter. }
    unfold op_tail. cbn [vn vm vs]. destruct bo as [|allow| | |].
    - destruct (Nat.eqb r1 1); auto.
    - destruct (Nat.eqb r1 1 && Nat.eqb r2 1); auto.
    - eapply safe_unlock_fin; eauto. intros v' H1 H2. destruct (Nat.eqb r1 1); [|apply Hfin; auto].
      apply safe_silent.
      { intros g. split; [apply same_core_count|]. eexists. split; [reflexivity|apply neutral_count]. }
      intros g0 a0 tr0 _ _. apply Hfin; auto.
    - eapply safe_unlock_fin; eauto. intros v' H1 H2. destruct (Nat.eqb r1 1); [|apply Hfin; auto].
      apply safe_silent.
      { intros g. split; [apply same_core_count|]. eexists. split; [reflexivity|apply neutral_count]. }
      intros g0 a0 tr0 _ _. apply Hfin; auto.
    - exact Hsimple.
  Qed.

  Lemma safe_run_op t o v : v_op v = Lin.Idle -> nolock (v_lk v) -> safe t (run_op cf t o) v (optQ QIdle).
  Proof.
    intros Hop Hno. unfold run_op.
    set (c := nth 0 o 0). set (k := nth 1 o 0). set (x := nth 2 o 0). set (y := nth 3 o 0).
    destruct (op_of_code c y) as [bo|] eqn:Hoc; [|apply safe_oret; split; auto].
    cbn [Conc.safe]. intros g a tr Hi Hv. unfold view in Hv.
    eexists. split; [apply (Inv_inv g a tr t c k x y (iop_of_bop bo k t) Hi); [now rewrite Hv|now apply iop_of_code]|].
    split; [intros t' Hne; unfold view; cbn [a_view seta]; now apply setv_other|].
    unfold view. cbn [a_view seta]. rewrite setv_same, Hv. clear g a tr Hi Hv.
    set (i := hfun hm k mod nl). assert (Hl : i < nl) by (apply Nat.mod_upper_bound; lia).
    apply safe_bindo. rewrite Hpol. cbn [cell_lock]. apply safe_bindo. unfold sl_lock.
    destruct Hno as [Hno Hp].
    match goal with |- Conc.safe _ _ _ _ ?vv _ => set (v1 := vv) end.
    refine (proj1 (safe_sl_lock t i (LCell i) _ Hl (c_fuel cf) v1 Hp eq_refl _ _)).
    { intros j. cbn. split; [intros [-> _]; now right|intros [H| ->]; [exfalso; eapply Hno; eauto|auto]]. }
    intros m reg. cbv beta. apply safe_oret. cbv beta. cbn [Conc.safe v_op v1].
    (* the linearization point *)
    intros g a tr Hi Hv. unfold view in Hv.
    pose proof (Inv_bucket_op g a tr t bo k Hi) as HI. rewrite Hv in HI. cbn [v_op v_lk v_mask v_reg] in HI.
    unfold lk in HI. rewrite Hv in HI. cbn [v_lk] in HI.
    specialize (HI eq_refl ltac:(cbn; fold i; auto) eq_refl).
    unfold a_bucket_op. cbv zeta in HI.
    destruct (bucket_apply bo k t (get_b (buckets g) (hfun hm k mod S (mask g)))) as [[nb r1] r2] eqn:E.
    cbn [fst snd] in *.
    eexists. split; [exact HI|]. split; [intros t' Hne; unfold view; cbn [a_view seta]; now apply setv_other|].
    unfold view. cbn [a_view seta]. rewrite setv_same.
    eapply safe_op_tail; eauto.
  Qed.

  Lemma safe_run_ops t os : forall v, v_op v = Lin.Idle -> nolock (v_lk v) -> safe t (run_ops cf t os) v (fun _ _ => True).
  Proof.
    induction os as [|o r IH]; intros v Hop Hno; cbn [run_ops]; [exact I|].
    apply Conc.safe_bind. eapply Conc.safe_weaken; [|apply safe_run_op; auto].
    intros [u|] v' H; cbn in H.
    - destruct H. apply IH; auto.
    - cbn [Conc.safe]. intros g a tr Hi Hv. exists a. split; [now apply Inv_oof|]. split; [apply frame_refl|exact I].
  Qed.

  Lemma safe_thread t os v : v_op v = Lin.Idle -> nolock (v_lk v) ->
    safe t (thread_prog cf t os) v (@Conc.QTrue tview).
  Proof.
    intros Hop Hno. unfold thread_prog. apply safe_silent.
    { intros g. split; [apply same_core_refl|]. eexists. split; [reflexivity|exact I]. }
    intros g a tr _ _. eapply Conc.safe_weaken; [|apply safe_run_ops; auto]. intros; exact I.
  Qed.


  (** ** the initial configuration *)
  Definition a0 : Aux := mkAux (fun _ => mkTV Lin.Idle LNone 0 (fun _ => [])) [].

  Lemma nth_error_mapi {A B} (f : nat -> A -> B) : forall l i t, nth_error (mapi f i l) t = option_map (f (i + t)) (nth_error l t).
  Proof.
    induction l as [|x r IH]; intros i [|t]; cbn; auto.
    - now rewrite Nat.add_0_r.
    - rewrite IH. now rewrite Nat.add_succ_r.
  Qed.

  Lemma init_ok ths : Conc.cfg_ok view Inv (init_cfg cf ths).
  Proof.
    exists a0. split.
    - cbn [init_cfg Conc.shared Conc.trace]. constructor.
      + intros i Hl. cbn. split; [discriminate|]. intros (t & []).
      + intros t t' i [].
      + intros i t. cbn. split; [discriminate|intros []].
      + intros t i [].
      + intros t b [].
      + cbn [init mask buckets]. apply alloc_table_ok. exact Hnl.
      + cbn [init mask]. exists 1. split; [lia|]. lia.
      + exists [], (fun _ => Lin.Idle). cbn. split; [reflexivity|]. split; [reflexivity|]. split; [reflexivity|].
        split; [constructor|]. intros x. split; [intros []|]. intros [(b & H)|(t & [])].
        rewrite get_b_repeat in H. destruct H.
    - intros t p Hp. cbn [init_cfg Conc.threads] in Hp. rewrite nth_error_mapi in Hp.
      destruct (nth_error ths t) as [os|]; inversion Hp; subst. cbn [Nat.add].
      apply safe_thread; [reflexivity|]. split; [intros j []|reflexivity].
  Qed.

  (** ** theorems *)

  (** every concurrent history of the model is linearizable to the sequential set of items *)
  Theorem striped_striping_linearizable ths (c : Conc.config G V ev) :
    Conc.reach (init_cfg cf ths) c -> linearizable ISet (hist_of (Conc.trace c)).
  Proof.
    intros Hr. destruct (Conc.reach_Inv (init_ok ths) Hr) as (a & Hi).
    destruct (i_abs Hi) as (s & st & H1 & H2 & _). rewrite <- H2. apply lp_valid_linearizable. eexists; eauto.
  Qed.

  (** a step: invariant before and after, related by the frame condition *)
  Lemma step_frame (c : Conc.config G V ev) t c' : Conc.cfg_ok view Inv c -> Conc.step_cfg c t = Some c' ->
    exists a a', Inv (Conc.shared c) a (Conc.trace c) /\ Inv (Conc.shared c') a' (Conc.trace c') /\ Conc.frame view t a a'.
  Proof.
    intros (a & Hi & Hts) Hs. unfold Conc.step_cfg in Hs.
    destruct (nth_error (Conc.threads c) t) as [p|] eqn:Hp; [|discriminate].
    unfold Conc.step_thread in Hs. destruct p as [r|es k|f k]; try discriminate.
    pose proof (Hts t _ Hp) as Hsafe. cbn [Conc.safe] in Hsafe.
    destruct (Hsafe _ _ _ Hi eq_refl) as (a1 & H1 & H2 & H3).
    destruct (f (Conc.shared c)) as [[g' v] es] eqn:Hf. cbn [fst snd] in *.
    destruct (@Conc.settle_safe _ _ _ _ _ view Inv t (k v) _ _ _ H1 H3) as (a2 & K1 & K2 & K3).
    destruct (Conc.settle (k v)) as [es' p'] eqn:Hk. cbn [fst snd] in *.
    inversion Hs; subst c'; clear Hs. exists a, a2. cbn [Conc.shared Conc.trace]. split; [exact Hi|]. split.
    - rewrite Conc.tag_app, app_assoc. exact K1.
    - intros t' Ht. rewrite (K2 t' Ht). apply H2; exact Ht.
  Qed.

  (** lock striping: the stripe of a bucket of the current table is the stripe of the hash, the holder of a cell
      lock (read off the trace) really has the lock word set, and no step of another thread changes the mask or
      any bucket of that stripe *)
  Theorem striping_cell_lock_stable_thm ths (c : Conc.config G V ev) :
    Conc.reach (init_cfg cf ths) c ->
    (forall h, (h mod S (mask (Conc.shared c))) mod nl = h mod nl) /\
    (forall i t, tholder (Conc.trace c) i = Some t -> i < nl /\ spins (Conc.shared c) i = true) /\
    (forall i t t', tholder (Conc.trace c) i = Some t -> tholder (Conc.trace c) i = Some t' -> t = t') /\
    (forall t' c', Conc.step_cfg c t' = Some c' ->
       forall i t, tholder (Conc.trace c) i = Some t -> t <> t' ->
         mask (Conc.shared c') = mask (Conc.shared c) /\
         forall b, b mod nl = i -> get_b (buckets (Conc.shared c')) b = get_b (buckets (Conc.shared c)) b).
  Proof.
    intros Hr. pose proof (Conc.reach_inv (init_ok ths) Hr) as Hok.
    destruct (Conc.reach_Inv (init_ok ths) Hr) as (a & Hi).
    split; [|split; [|split]].
    - intros h. destruct (i_div Hi) as (e & He & Hd). rewrite Hd. apply stripe_of_bucket; auto.
    - intros i t H. apply (i_hold Hi) in H. split; [eapply holds_lt; eauto|]. apply (i_spin Hi); [eapply holds_lt; eauto|eauto].
    - intros i t t' H1 H2. congruence.
    - intros t' c' Hs i t Ht Hne.
      destruct (step_frame c t' c' Hok Hs) as (a1 & a2 & I1 & I2 & Hf).
      apply (i_hold I1) in Ht.
      assert (Hv : a_view a2 t = a_view a1 t) by (apply Hf; exact Hne).
      assert (Ht2 : holds (lk a2 t) i) by (unfold lk; now rewrite Hv).
      split.
      + rewrite (i_mask I2 t i Ht2), (i_mask I1 t i Ht). now rewrite Hv.
      + intros b Hb. subst i. rewrite (i_reg I2 t b Ht2), (i_reg I1 t b Ht). now rewrite Hv.
  Qed.

End Striping.
