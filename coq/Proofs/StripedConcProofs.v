(** * StripedSet with the lock-striping policy: invariant for every schedule.

    Auxiliary state: per thread the status of its current operation (invoked / linearized with result r), the
    set of cell locks it holds, and a snapshot of what those locks protect (the bucket mask and the buckets of
    its stripes); globally the trace annotated with linearization points.
    The invariant ties the snapshots to the shared state, so "no other thread's step changes what I hold the
    lock for" is part of what [Conc.reach_inv] establishes. *)
From Coq Require Import ZArith List Bool Lia PeanoNat.
From LV Require Import Base.Conc Base.Events Base.Lin Spec.Specs Proofs.LinProofs
     Model.StripingPolicy Model.StripedConc Proofs.StripedConcSpec Proofs.StripedConcAbs.
Import ListNotations.
Local Open Scope nat_scope.

(** ** the holder of a cell lock, read off the trace *)
Definition hstep (h : nat -> option nat) (te : nat * ev) : nat -> option nat :=
  match te with
  | (t, EvAcc KXchg [0%Z; zi] _) =>
      let i := Z.to_nat zi in match h i with None => upd1 h i (Some t) | Some _ => h end
  | (t, EvAcc KSt [0%Z; zi] _) => upd1 h (Z.to_nat zi) None
  | _ => h
  end.
Definition tholder (tr : list (nat * ev)) : nat -> option nat := fold_left hstep tr (fun _ => None).

Lemma tholder_snoc tr t e : tholder (tr ++ Conc.tag t [e]) = hstep (tholder tr) (t, e).
Proof. unfold tholder. rewrite fold_left_app. reflexivity. Qed.

Lemma upd1_same {A} (f : nat -> A) i x : upd1 f i x i = x.
Proof. unfold upd1. now rewrite Nat.eqb_refl. Qed.
Lemma upd1_other {A} (f : nat -> A) i x j : j <> i -> upd1 f i x j = f j.
Proof. unfold upd1. intros H. destruct (Nat.eqb_spec j i); congruence. Qed.

Section Striping.
  Variable cf : conf.
  Hypothesis Hpol : c_pol cf = Striping.
  Hypothesis Hnl : 0 < c_nl cf.
  Notation nl := (c_nl cf).
  Notation hm := (c_hm cf).

  (** *** auxiliary state *)
  Inductive lstate :=
  | LNone
  | LCell (i : nat)                 (* one cell lock *)
  | LLocking (j : nat)              (* lock_all in progress: cells [0, j) *)
  | LMove (pend : list item)        (* all cells; the new table is installed, [pend] still to be moved *)
  | LUnlocking (j : nat).           (* unlock_all in progress: cells [j, nl) *)

  Definition holds (l : lstate) (i : nat) : Prop :=
    match l with
    | LNone => False
    | LCell c => i = c /\ c < nl
    | LLocking j => i < j /\ j <= nl
    | LMove _ => i < nl
    | LUnlocking j => j <= i < nl
    end.
  Definition pend_of (l : lstate) : list item := match l with LMove p => p | _ => [] end.

  Record tview := mkTV {
    v_op : status ISet;             (* Idle / Pending o / Linearized o r *)
    v_lk : lstate;
    v_mask : nat;                   (* the mask, as long as a lock is held *)
    v_reg : nat -> list item        (* the buckets of the stripes held *)
  }.
  Record Aux := mkAux { a_view : nat -> tview; a_atr : list (aev ISet) }.
  Definition view (a : Aux) (t : nat) : tview := a_view a t.
  Definition lk (a : Aux) (t : nat) : lstate := v_lk (a_view a t).

  Record Inv (g : G) (a : Aux) (tr : list (nat * ev)) : Prop := mkInv {
    i_spin : forall i, i < nl -> (spins g i = true <-> exists t, holds (lk a t) i);
    i_excl : forall t t' i, holds (lk a t) i -> holds (lk a t') i -> t = t';
    i_hold : forall i t, tholder tr i = Some t <-> holds (lk a t) i;
    i_mask : forall t i, holds (lk a t) i -> mask g = v_mask (a_view a t);
    i_reg : forall t b, holds (lk a t) (b mod nl) -> get_b (buckets g) b = v_reg (a_view a t) b;
    i_tab : table_ok hm (mask g) (buckets g);
    i_div : exists e, 0 < e /\ S (mask g) = nl * e;
    i_abs : exists s st, lp_run lp_init (a_atr a) = Some (s, st) /\ erase (a_atr a) = hist_of tr /\
              (forall t, st t = v_op (a_view a t)) /\
              absrel s (buckets g) (fun x => exists t, In x (pend_of (lk a t)))
  }.

  Arguments i_spin {g a tr}. Arguments i_excl {g a tr}. Arguments i_hold {g a tr}. Arguments i_mask {g a tr}.
  Arguments i_reg {g a tr}. Arguments i_tab {g a tr}. Arguments i_div {g a tr}. Arguments i_abs {g a tr}.

  Lemma holds_lt l i : holds l i -> i < nl.
  Proof. destruct l; cbn; lia. Qed.

  Definition setv (a : Aux) (t : nat) (v : tview) : Aux :=
    mkAux (fun x => if Nat.eqb x t then v else a_view a x) (a_atr a).
  Definition seta (a : Aux) (atr : list (aev ISet)) : Aux := mkAux (a_view a) atr.

  Lemma setv_same a t v : a_view (setv a t v) t = v.
  Proof. cbn. now rewrite Nat.eqb_refl. Qed.
  Lemma setv_other a t v t' : t' <> t -> a_view (setv a t v) t' = a_view a t'.
  Proof. cbn. intros H. destruct (Nat.eqb_spec t' t); congruence. Qed.
  Lemma lk_setv_same a t v : lk (setv a t v) t = v_lk v.
  Proof. unfold lk. now rewrite setv_same. Qed.
  Lemma lk_setv_other a t v t' : t' <> t -> lk (setv a t v) t' = lk a t'.
  Proof. unfold lk. intros H. now rewrite setv_other. Qed.
  Lemma frame_setv a t v : Conc.frame view t a (setv a t v).
  Proof. intros t' H. unfold view. now apply setv_other. Qed.
  Lemma frame_seta a t atr : Conc.frame view t a (seta a atr).
  Proof. intros t' H. reflexivity. Qed.
  Lemma frame_refl a t : Conc.frame view t a a.
  Proof. intros t' H. reflexivity. Qed.

  Notation safe := (@Conc.safe G V ev Aux tview view Inv).

  (** every key of the abstract set outside a move phase is in the table *)
  Definition nopend_all (a : Aux) : Prop := forall t, pend_of (lk a t) = [].

  Lemma absrel_ext s bs (P Q : item -> Prop) : (forall x, P x <-> Q x) -> absrel s bs P -> absrel s bs Q.
  Proof. intros H [H1 H2]. split; auto. intros x. rewrite H2, H. tauto. Qed.

  (** a thread that holds a lock excludes a move phase of another thread *)
  Lemma holder_no_move g a tr t i : Inv g a tr -> holds (lk a t) i -> pend_of (lk a t) = [] -> nopend_all a.
  Proof.
    intros Hi Hh Hp t'. destruct (Nat.eq_dec t' t) as [->|Hne]; auto.
    destruct (lk a t') eqn:E; cbn; auto.
    exfalso. apply Hne. eapply (i_excl Hi t' t i); [rewrite E; cbn; eapply holds_lt; eauto|exact Hh].
  Qed.

  (** *** steps that change nothing the invariant reads *)
  Definition same_core (g g' : G) : Prop :=
    (forall i, spins g' i = spins g i) /\ mask g' = mask g /\ buckets g' = buckets g.

  Definition neutral_ev (e : ev) : Prop :=
    match e with
    | EvAcc KXchg [0%Z; _] _ | EvAcc KSt [0%Z; _] _ => False
    | EvAcc _ _ _ => True
    | EvCli _ _ => False
    end.

  Lemma hstep_neutral h t e : neutral_ev e -> hstep h (t, e) = h.
  Proof.
    destruct e as [k o ok|n args]; cbn; [|tauto].
    destruct k; auto; (destruct o as [|z o]; auto; destruct z; auto; destruct o as [|z' o]; auto; destruct o; auto; tauto).
  Qed.

  Lemma hist_neutral tr t e : neutral_ev e -> hist_of (tr ++ Conc.tag t [e]) = hist_of tr.
  Proof. destruct e; cbn; [intros _; apply hist_of_acc|tauto]. Qed.

  Lemma Inv_silent g g' a tr t e : Inv g a tr -> same_core g g' -> neutral_ev e ->
    Inv g' a (tr ++ Conc.tag t [e]).
  Proof.
    intros Hi (Hs & Hm & Hb) He. destruct Hi as [I1 I2 I3 I4 I5 I6 I7 I8]. constructor.
    - intros i Hl. rewrite Hs. auto.
    - exact I2.
    - intros i t0. rewrite tholder_snoc, hstep_neutral by exact He. auto.
    - intros t0 i H. rewrite Hm. eauto.
    - intros t0 b H. rewrite Hb. eauto.
    - rewrite Hm, Hb. exact I6.
    - rewrite Hm. exact I7.
    - destruct I8 as (s & st & H1 & H2 & H3 & H4). exists s, st. rewrite hist_neutral by exact He. rewrite Hb. auto.
  Qed.

  Lemma same_core_refl g : same_core g g.
  Proof. repeat split; auto. Qed.
  Lemma same_core_count g x : same_core g (set_count g x).
  Proof. repeat split; auto. Qed.

  (** a failed exchange leaves the lock word at [true] *)
  Lemma same_core_xchg_fail g i : spins g i = true -> same_core g (sl_set g (SCell i) true).
  Proof.
    intros H. repeat split; auto. intros j. cbn. unfold upd1. destruct (Nat.eqb_spec j i); subst; auto.
  Qed.

  Lemma Inv_xchg_fail g a tr t i : Inv g a tr -> i < nl -> spins g i = true ->
    Inv (sl_set g (SCell i) true) a (tr ++ Conc.tag t [EvAcc KXchg (o_spin i) true]).
  Proof.
    intros Hi Hl Hs. pose proof Hi as [I1 I2 I3 I4 I5 I6 I7 I8].
    pose proof (same_core_xchg_fail g i Hs) as (Hs' & Hm & Hb).
    constructor.
    - intros j Hj. rewrite Hs'. auto.
    - exact I2.
    - intros j t0. rewrite tholder_snoc. cbn [hstep o_spin]. unfold StripingPolicy.zn. rewrite Nat2Z.id.
      destruct (tholder tr i) eqn:E; [apply I3|].
      exfalso. clear j t0. apply I1 in Hs; auto. destruct Hs as (t1 & Ht1). apply I3 in Ht1. congruence.
    - intros t0 j H. rewrite Hm. eauto.
    - intros t0 b H. rewrite Hb. eauto.
    - rewrite Hm, Hb. exact I6.
    - rewrite Hm. exact I7.
    - destruct I8 as (s & st & H1 & H2 & H3 & H4). exists s, st. rewrite hist_of_acc. rewrite Hb. auto.
  Qed.


  (** *** acquiring and releasing a cell *)
  Lemma pend_setv_same a t v' : pend_of (v_lk v') = [] -> pend_of (lk a t) = [] ->
    forall x, (exists t0, In x (pend_of (lk (setv a t v') t0))) <-> (exists t0, In x (pend_of (lk a t0))).
  Proof.
    intros H1 H2 x. split; intros (t0 & H); destruct (Nat.eq_dec t0 t) as [->|Hne].
    - rewrite lk_setv_same, H1 in H. destruct H.
    - rewrite lk_setv_other in H by exact Hne. eauto.
    - rewrite H2 in H. destruct H.
    - exists t0. now rewrite lk_setv_other.
  Qed.

  Lemma Inv_acquire g a tr t i v' :
    Inv g a tr -> i < nl -> spins g i = false ->
    v_op v' = v_op (a_view a t) ->
    (forall j, holds (v_lk v') j <-> holds (lk a t) j \/ j = i) ->
    pend_of (lk a t) = [] -> pend_of (v_lk v') = [] ->
    v_mask v' = mask g ->
    (forall b, v_reg v' b = if Nat.eqb (b mod nl) i then get_b (buckets g) b else v_reg (a_view a t) b) ->
    Inv (sl_set g (SCell i) true) (setv a t v') (tr ++ Conc.tag t [EvAcc KXchg (o_spin i) true]).
  Proof.
    intros Hi Hl Hs Hop Hh Hp Hp' Hm Hr. pose proof Hi as [I1 I2 I3 I4 I5 I6 I7 I8].
    assert (Hfree : forall t0, ~ holds (lk a t0) i).
    { intros t0 H. assert (spins g i = true) by (apply I1; eauto). congruence. }
    assert (Hnone : tholder tr i = None).
    { destruct (tholder tr i) eqn:E; auto. apply I3 in E. exfalso; eapply Hfree; eauto. }
    constructor.
    - intros j Hj. cbn [spins sl_set set_spins]. destruct (Nat.eq_dec j i) as [->|Hne].
      + rewrite upd1_same. split; auto. intros _. exists t. rewrite lk_setv_same. apply Hh. now right.
      + rewrite upd1_other by exact Hne. rewrite (I1 j Hj). split; intros (t0 & H0); exists t0;
          (destruct (Nat.eq_dec t0 t) as [->|Hn]; [|now rewrite lk_setv_other in *]).
        * rewrite lk_setv_same. apply Hh. now left.
        * rewrite lk_setv_same in H0. apply Hh in H0. destruct H0; [auto|contradiction].
    - intros t1 t2 j H1 H2.
      destruct (Nat.eq_dec t1 t) as [->|N1]; destruct (Nat.eq_dec t2 t) as [->|N2]; auto.
      + rewrite lk_setv_same in H1. rewrite lk_setv_other in H2 by exact N2. apply Hh in H1. destruct H1 as [H1| ->].
        * eapply I2; eauto.
        * exfalso; eapply Hfree; eauto.
      + rewrite lk_setv_same in H2. rewrite lk_setv_other in H1 by exact N1. apply Hh in H2. destruct H2 as [H2| ->].
        * eapply I2; eauto.
        * exfalso; eapply Hfree; eauto.
      + rewrite lk_setv_other in H1 by exact N1. rewrite lk_setv_other in H2 by exact N2. eapply I2; eauto.
    - intros j t0. rewrite tholder_snoc. cbn [hstep o_spin]. unfold StripingPolicy.zn. rewrite Nat2Z.id, Hnone.
      destruct (Nat.eq_dec j i) as [->|Hne].
      + rewrite upd1_same. destruct (Nat.eq_dec t0 t) as [->|Hn].
        * rewrite lk_setv_same. split; auto. intros _. apply Hh. now right.
        * rewrite lk_setv_other by exact Hn. split; [congruence|]. intros H; exfalso; eapply Hfree; eauto.
      + rewrite upd1_other by exact Hne. rewrite I3. destruct (Nat.eq_dec t0 t) as [->|Hn].
        * rewrite lk_setv_same, Hh. tauto.
        * now rewrite lk_setv_other.
    - intros t0 j H. cbn [mask sl_set set_spins]. destruct (Nat.eq_dec t0 t) as [->|Hn].
      + now rewrite setv_same.
      + rewrite lk_setv_other in H by exact Hn. rewrite setv_other by exact Hn. eauto.
    - intros t0 b H. cbn [buckets sl_set set_spins]. destruct (Nat.eq_dec t0 t) as [->|Hn].
      + rewrite setv_same, Hr. rewrite lk_setv_same in H. destruct (Nat.eqb_spec (b mod nl) i) as [E|E]; auto.
        apply Hh in H. destruct H; [|contradiction]. now apply I5.
      + rewrite lk_setv_other in H by exact Hn. rewrite setv_other by exact Hn. eauto.
    - exact I6.
    - exact I7.
    - destruct I8 as (s & st & H1 & H2 & H3 & H4). exists s, st. rewrite hist_of_acc.
      split; [exact H1|]. split; [exact H2|]. split.
      + intros t0. rewrite H3. destruct (Nat.eq_dec t0 t) as [->|Hn]; [now rewrite setv_same|now rewrite setv_other].
      + cbn [buckets sl_set set_spins]. eapply absrel_ext; [|exact H4].
        intros x. symmetry. apply (pend_setv_same a t v' Hp' Hp x).
  Qed.

  Lemma Inv_release g a tr t i v' :
    Inv g a tr -> holds (lk a t) i ->
    v_op v' = v_op (a_view a t) ->
    (forall j, holds (v_lk v') j <-> holds (lk a t) j /\ j <> i) ->
    pend_of (lk a t) = [] -> pend_of (v_lk v') = [] ->
    v_mask v' = v_mask (a_view a t) -> (forall b, v_reg v' b = v_reg (a_view a t) b) ->
    Inv (sl_set g (SCell i) false) (setv a t v') (tr ++ Conc.tag t [EvAcc KSt (o_spin i) true]).
  Proof.
    intros Hi Hme Hop Hh Hp Hp' Hm Hr. pose proof Hi as [I1 I2 I3 I4 I5 I6 I7 I8].
    assert (Hl : i < nl) by (eapply holds_lt; eauto).
    constructor.
    - intros j Hj. cbn [spins sl_set set_spins]. destruct (Nat.eq_dec j i) as [->|Hne].
      + rewrite upd1_same. split; [discriminate|]. intros (t0 & H0). exfalso.
        destruct (Nat.eq_dec t0 t) as [->|Hn].
        * rewrite lk_setv_same in H0. apply Hh in H0. tauto.
        * rewrite lk_setv_other in H0 by exact Hn. apply Hn. eapply I2; eauto.
      + rewrite upd1_other by exact Hne. rewrite (I1 j Hj). split; intros (t0 & H0); exists t0;
          (destruct (Nat.eq_dec t0 t) as [->|Hn]; [|now rewrite lk_setv_other in *]).
        * rewrite lk_setv_same. apply Hh. tauto.
        * rewrite lk_setv_same in H0. apply Hh in H0. tauto.
    - intros t1 t2 j H1 H2.
      assert (K : forall x, holds (lk (setv a t v') x) j -> holds (lk a x) j).
      { intros x H. destruct (Nat.eq_dec x t) as [->|Hn]; [rewrite lk_setv_same in H; apply Hh in H; tauto|now rewrite lk_setv_other in H]. }
      eapply I2; eauto.
    - intros j t0. rewrite tholder_snoc. cbn [hstep o_spin]. unfold StripingPolicy.zn. rewrite Nat2Z.id.
      destruct (Nat.eq_dec j i) as [->|Hne].
      + rewrite upd1_same. split; [discriminate|]. intros H0. exfalso.
        destruct (Nat.eq_dec t0 t) as [->|Hn].
        * rewrite lk_setv_same in H0. apply Hh in H0. tauto.
        * rewrite lk_setv_other in H0 by exact Hn. apply Hn. eapply I2; eauto.
      + rewrite upd1_other by exact Hne. rewrite I3. destruct (Nat.eq_dec t0 t) as [->|Hn].
        * rewrite lk_setv_same, Hh. tauto.
        * now rewrite lk_setv_other.
    - intros t0 j H. cbn [mask sl_set set_spins]. destruct (Nat.eq_dec t0 t) as [->|Hn].
      + rewrite setv_same, Hm. rewrite lk_setv_same in H. apply Hh in H. destruct H. eauto.
      + rewrite lk_setv_other in H by exact Hn. rewrite setv_other by exact Hn. eauto.
    - intros t0 b H. cbn [buckets sl_set set_spins]. destruct (Nat.eq_dec t0 t) as [->|Hn].
      + rewrite setv_same, Hr. rewrite lk_setv_same in H. apply Hh in H. destruct H. eauto.
      + rewrite lk_setv_other in H by exact Hn. rewrite setv_other by exact Hn. eauto.
    - exact I6.
    - exact I7.
    - destruct I8 as (s & st & H1 & H2 & H3 & H4). exists s, st. rewrite hist_of_acc.
      split; [exact H1|]. split; [exact H2|]. split.
      + intros t0. rewrite H3. destruct (Nat.eq_dec t0 t) as [->|Hn]; [now rewrite setv_same|now rewrite setv_other].
      + cbn [buckets sl_set set_spins]. eapply absrel_ext; [|exact H4].
        intros x. symmetry. apply (pend_setv_same a t v' Hp' Hp x).
  Qed.


  (** *** annotated trace bookkeeping *)
  Lemma lp_ext (atr : list (aev ISet)) c e c' :
    lp_run lp_init atr = Some c -> lp_step c e = Some c' -> lp_run lp_init (atr ++ [e]) = Some c'.
  Proof. intros H1 H2. rewrite lp_run_app, H1. cbn. now rewrite H2. Qed.

  Lemma st_setv (st : nat -> status ISet) a t v' x :
    (forall t0, st t0 = v_op (a_view a t0)) -> v_op v' = x ->
    forall t0, Lin.upd st t x t0 = v_op (a_view (setv a t v') t0).
  Proof.
    intros H Hx t0. unfold Lin.upd. destruct (Nat.eqb_spec t0 t) as [->|Hn].
    - now rewrite setv_same.
    - rewrite setv_other by exact Hn. apply H.
  Qed.

  (** only the views of thread t change, its lock state stays: the lock part of the invariant is unaffected *)
  Lemma lk_setv_keep a t v' : v_lk v' = lk a t -> forall t0, lk (setv a t v') t0 = lk a t0.
  Proof. intros H t0. destruct (Nat.eq_dec t0 t) as [->|Hn]; [now rewrite lk_setv_same|now rewrite lk_setv_other]. Qed.

  (** *** the linearization point of a cell operation: the bucket operation under the cell lock *)
  Lemma Inv_bucket_op g a tr t bo k :
    Inv g a tr ->
    v_op (a_view a t) = Pending (iop_of_bop bo k t : Op ISet) ->
    holds (lk a t) (hfun hm k mod nl) -> pend_of (lk a t) = [] ->
    let b := hfun hm k mod S (mask g) in
    let r := bucket_apply bo k t (get_b (buckets g) b) in
    let nb := fst (fst r) in let r1 := snd (fst r) in let r2 := snd r in
    let v := a_view a t in
    let v' := mkTV (Linearized (iop_of_bop bo k t : Op ISet) (res_of_bop bo r1 r2 : Res ISet)) (v_lk v) (v_mask v)
                   (fun b' => if Nat.eqb b' b then nb else v_reg v b') in
    Inv (set_buckets g (set_nth_b (buckets g) b nb))
        (seta (setv a t v') (a_atr a ++ [ALin t]))
        (tr ++ Conc.tag t [EvAcc KLd o_mask true]).
  Proof.
    intros Hi Hop Hh Hp b r nb r1 r2 v v'. pose proof Hi as [I1 I2 I3 I4 I5 I6 I7 I8].
    assert (Hr : bucket_apply bo k t (get_b (buckets g) b) = (nb, r1, r2)) by (subst nb r1 r2 r; now destruct (bucket_apply _ _ _ _) as [[? ?] ?]).
    assert (Hkeep : forall t0, lk (seta (setv a t v') (a_atr a ++ [ALin t])) t0 = lk a t0).
    { intros t0. change (lk (setv a t v') t0 = lk a t0). apply lk_setv_keep. reflexivity. }
    destruct I7 as (e & He & Hdiv).
    assert (Hstripe : b mod nl = hfun hm k mod nl) by (subst b; rewrite Hdiv; apply stripe_of_bucket; auto).
    assert (Hblt : b < List.length (buckets g)).
    { destruct I6 as (Hlen & _). rewrite Hlen. subst b. apply Nat.mod_upper_bound. lia. }
    assert (Hnp : nopend_all a) by (eapply holder_no_move; eauto).
    destruct I8 as (s & st & H1 & H2 & H3 & H4).
    assert (Ha : absrel s (buckets g) nopend).
    { eapply absrel_ext; [|exact H4]. intros x. split; [|intros []]. intros (t0 & H). rewrite Hnp in H. destruct H. }
    destruct (bucket_apply_abs hm (mask g) (buckets g) s bo k t nb r1 r2 I6 Ha Hr) as (R1 & R2 & R3). fold b in R2, R3.
    constructor.
    - intros i Hl. setoid_rewrite Hkeep. apply I1; auto.
    - intros t1 t2 i. rewrite !Hkeep. apply I2.
    - intros i t0. rewrite Hkeep. rewrite tholder_snoc. cbn [hstep o_mask]. apply I3.
    - intros t0 i. rewrite Hkeep. intros H. cbn [mask set_buckets a_view seta].
      destruct (Nat.eq_dec t0 t) as [->|Hn]; [rewrite setv_same; cbn; eauto|rewrite setv_other by exact Hn; eauto].
    - intros t0 b'. rewrite Hkeep. intros H. cbn [buckets set_buckets a_view seta].
      destruct (Nat.eq_dec t0 t) as [->|Hn].
      + rewrite setv_same. cbn [v_reg v']. destruct (Nat.eqb_spec b' b) as [->|Hne].
        * now apply get_set_same.
        * rewrite get_set_other by auto. now apply I5.
      + rewrite setv_other by exact Hn. rewrite get_set_other; [now apply I5|].
        intros ->. apply Hn. eapply I2; [exact H|]. rewrite Hstripe. exact Hh.
    - exact R2.
    - exists e. auto.
    - exists (fst (istep s (iop_of_bop bo k t))), (Lin.upd st t (Linearized (iop_of_bop bo k t : Op ISet) (snd (istep s (iop_of_bop bo k t))))).
      split; [|split; [|split]].
      + cbn [a_atr seta]. eapply lp_ext; [exact H1|]. cbn [lp_step]. rewrite H3, Hop. reflexivity.
      + cbn [a_atr seta]. rewrite erase_app, hist_of_acc. cbn. now rewrite app_nil_r.
      + cbn [a_view seta]. apply st_setv; auto. cbn. now rewrite R1.
      + cbn [buckets set_buckets]. eapply absrel_ext; [|exact R3].
        intros x. split; [intros []|]. intros (t0 & H). rewrite Hkeep, Hnp in H. destruct H.
  Qed.

End Striping.
